"""Python side of the b2x executor: spawn, buffers, calls, crash -> exception."""
import os, subprocess, sys, tempfile, select, signal

VERIF = os.path.dirname(os.path.dirname(os.path.abspath(__file__)))
sys.path.insert(0, os.path.join(VERIF, "build"))
import build as _build  # noqa


class Crash(Exception):
    """The executor died (sanitizer report, library ASSERT, signal) or hung."""

    def __init__(self, kind, text, script=None):
        super().__init__("%s: %s" % (kind, text[:400]))
        self.kind, self.text, self.script = kind, text, script


class Buf:
    __slots__ = ("x", "id", "size", "off")

    def __init__(self, x, id, size, off=0):
        self.x, self.id, self.size, self.off = x, id, size, off

    def at(self, off):
        return Buf(self.x, self.id, self.size, self.off + off)

    def read(self, off=0, n=None):
        return self.x.read(self, off, n)

    def write(self, data, off=0):
        return self.x.write(self, data, off)

    def int(self):
        return int.from_bytes(self.read(), "little")

    def free(self):
        self.x.free(self)


def _die_with_parent():
    """an executor spinning in a library loop must not outlive the worker that drives it (PR_SET_PDEATHSIG = 1, SIGKILL = 9)"""
    try:
        import ctypes
        ctypes.CDLL("libc.so.6", use_errno=True).prctl(1, 9, 0, 0, 0)
    except Exception:
        pass


class Sym:
    def __init__(self, name):
        self.name = name


_dirs = {}


def build_dir(config):
    if config not in _dirs:
        _dirs[config] = _build.build(config)
    return _dirs[config]


ASAN_OPTS = "abort_on_error=0:detect_leaks=0:allocator_may_return_null=1:exitcode=77:handle_abort=0:print_legend=0:print_full_thread_history=0:malloc_context_size=8:quarantine_size_mb=16"
MSAN_OPTS = "exitcode=78:print_stats=0"


class X:
    def __init__(self, config="asan", wrapper=None, timeout=30, env=None):
        self.config = config
        self.dir = build_dir(config)
        self.wrapper = wrapper or []
        self.timeout = timeout
        self.extra_env = env or {}
        self.p = None
        self.log = []       # script of the current case (for replay/debug)
        self.restarts = 0
        self.calls = 0
        self._spawn()

    def _spawn(self):
        self.errf = tempfile.TemporaryFile()
        env = dict(os.environ)
        env["ASAN_OPTIONS"] = ASAN_OPTS
        env["MSAN_OPTIONS"] = MSAN_OPTS
        env["UBSAN_OPTIONS"] = "halt_on_error=1:print_stacktrace=1"
        env.update(self.extra_env)
        self.p = subprocess.Popen(self.wrapper + [os.path.join(self.dir, "b2x")], stdin=subprocess.PIPE,
                                  stdout=subprocess.PIPE, stderr=self.errf, env=env, bufsize=0, preexec_fn=_die_with_parent)
        self.rbuf = b""
        self.nid = 0
        self.freeids = []
        info = self._cmd("I")
        self.info = dict(kv.split("=") for kv in info.split()[1:])
        self.W = int(self.info["W"])
        self.wo = self.W // 8

    # -- low level
    def _readline(self):
        while b"\n" not in self.rbuf:
            r, _, _ = select.select([self.p.stdout], [], [], self.timeout)
            if not r:
                self._kill()
                raise Crash("hang", "no reply within %ss" % self.timeout, list(self.log))
            chunk = os.read(self.p.stdout.fileno(), 1 << 16)
            if not chunk:
                self._died()
            self.rbuf += chunk
        line, self.rbuf = self.rbuf.split(b"\n", 1)
        return line.decode()

    def _kill(self):
        try:
            self.p.kill()
            self.p.wait()
        except Exception:
            pass
        self.restarts += 1
        self._spawn()

    def _died(self):
        self.p.wait()
        rc = self.p.returncode
        self.errf.seek(0)
        err = self.errf.read().decode(errors="replace")
        if "AddressSanitizer" in err:
            kind = "asan"
        elif "MemorySanitizer" in err:
            kind = "msan"
        elif "Assertion in" in err:
            kind = "assert"
        elif "runtime error" in err:
            kind = "ubsan"
        elif rc is not None and rc < 0:
            kind = "signal%d" % (-rc)
        else:
            kind = "exit%s" % rc
        script = list(self.log)
        self.restarts += 1
        self._spawn()
        raise Crash(kind, _summ(err), script)

    def _cmd(self, line):
        self.log.append(line)
        try:
            self.p.stdin.write((line + "\n").encode())
        except BrokenPipeError:
            self._died()
        rep = self._readline()
        if rep.startswith("err"):
            raise RuntimeError("executor protocol error: %s on %s" % (rep, line[:200]))
        return rep

    # -- API
    def reset(self):
        self.log = []
        self._cmd("Z")
        self.nid = 0
        self.freeids = []

    def alloc(self, size, fill="u"):
        id = self.freeids.pop() if self.freeids else self.nid
        if id == self.nid:
            self.nid += 1
        self._cmd("A %d %d %s" % (id, size, fill))
        return Buf(self, id, size)

    def buf(self, data):
        """buffer holding exactly data"""
        data = bytes(data)
        return self.alloc(len(data), "h" + data.hex()) if data else self.alloc(0, "u")

    def clone(self, b):
        """exact-size copy of a whole buffer made inside the executor (sanitizer shadow travels with it)"""
        id = self.freeids.pop() if self.freeids else self.nid
        if id == self.nid:
            self.nid += 1
        self._cmd("CP %d %d" % (id, b.id))
        return Buf(self, id, b.size)

    def copy_over(self, dst, src):
        """content of src written over dst inside the executor (equal sizes, nothing is allocated)"""
        self._cmd("CB %d %d" % (dst.id, src.id))

    def out(self, size):
        return self.alloc(size, "u")

    def zero(self, size):
        return self.alloc(size, "z")

    def words(self, value, n):
        """n-word little-endian buffer of integer value"""
        return self.buf(int(value).to_bytes(n * self.wo, "little"))

    def free(self, b):
        self._cmd("F %d" % b.id)
        self.freeids.append(b.id)

    def write(self, b, data, off=0):
        if data:
            self._cmd("W %d %d %s" % (b.id, b.off + off, bytes(data).hex()))

    def read(self, b, off=0, n=None):
        if n is None:
            n = b.size - b.off - off
        rep = self._cmd("R %d %d %d" % (b.id, b.off + off, n))
        return bytes.fromhex(rep[1:])

    def mark(self, b, undefined=True, off=0, n=None):
        if n is None:
            n = b.size - b.off - off
        self._cmd("%s %d %d %d" % ("MU" if undefined else "MD", b.id, b.off + off, n))

    def call(self, fn, *args, ret="i"):
        fast = self.info.get("fast") == "1"
        if fast and fn.endswith("_fast"):
            fn = fn[:-5]            # SAFE_FAST builds: FAST(f) is f, SAFE(f) is f_safe
        parts = ["C", fn]
        for a in args:
            if a is None:
                parts.append("n")
            elif isinstance(a, Buf):
                parts.append("b%d%+d" % (a.id, a.off) if a.off else "b%d" % a.id)
            elif isinstance(a, Sym):
                parts.append("s" + (a.name[:-5] if fast and a.name.endswith("_fast") else a.name))
            elif isinstance(a, bool):
                parts.append("i%d" % int(a))
            elif isinstance(a, int):
                parts.append("x%x" % (a & 0xFFFFFFFFFFFFFFFF))
            else:
                raise TypeError(a)
        self.calls += 1
        rep = self._cmd(" ".join(parts))
        v = int(rep[2:], 16)
        if ret == "i":
            v &= 0xFFFFFFFF
        elif ret == "b":
            v = v & 0xFFFFFFFF
        elif ret == "w":
            v &= (1 << self.W) - 1
        elif ret == "si":
            v &= 0xFFFFFFFF
            if v >= 1 << 31:
                v -= 1 << 32
        elif ret == "u16":
            v &= 0xFFFF
        elif ret == "v":
            v = None
        return v

    def fork_call(self, fn, *args):
        """(wrap configs) run the call in a forked child with free-recording; returns (ret, [freed block bytes, ...])"""
        parts = ["FC", fn]
        for a in args:
            if a is None:
                parts.append("n")
            elif isinstance(a, Buf):
                parts.append("b%d%+d" % (a.id, a.off) if a.off else "b%d" % a.id)
            elif isinstance(a, Sym):
                parts.append("s" + a.name)
            else:
                parts.append("x%x" % (int(a) & 0xFFFFFFFFFFFFFFFF))
        rep = self._cmd(" ".join(parts))
        f = rep.split(" ")
        ret = int(f[1], 16) & 0xFFFFFFFF
        self.last_failed = int(f[2])        # number of allocations failed by injection in the child
        log = bytes.fromhex(f[3]) if len(f) > 3 else b""
        blocks = []
        i = 0
        while i + 8 <= len(log):
            n = int.from_bytes(log[i:i + 8], "little")
            blocks.append(log[i + 8:i + 8 + n])
            i += 8 + n
        return ret, blocks

    def tape(self, data=b"", mode=0):
        """generator tape state for Sym('x_tape_gen')"""
        data = bytes(data)
        hdr = (0).to_bytes(8, "little") + len(data).to_bytes(8, "little") + (0).to_bytes(8, "little") + mode.to_bytes(8, "little")
        return self.buf(hdr + data)

    def close(self):
        try:
            self.p.stdin.write(b"Q\n")
            self.p.wait(timeout=5)
        except Exception:
            try:
                self.p.kill()
            except Exception:
                pass


def _summ(err):
    lines = [l for l in err.splitlines() if l.strip()]
    keep = []
    for l in lines:
        if ("Sanitizer" in l or "Assertion in" in l or "runtime error" in l or l.lstrip().startswith("#") or "located" in l or "WRITE of" in l or "READ of" in l):
            keep.append(l.strip())
        if len(keep) > 14:
            break
    return "\n".join(keep) if keep else err[-600:]


SIZE_MAX = (1 << 64) - 1
ERR_OK = 0
GEN = Sym("x_tape_gen")
