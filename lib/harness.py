"""Property-check harness: Hypothesis-driven tests sharded over worker processes,
executor crashes as failures, shrinking, replay files, evidence, known findings."""
import hashlib, json, multiprocessing as mp, os, sys, time, traceback, glob

VERIF = os.path.dirname(os.path.dirname(os.path.abspath(__file__)))
OUT = os.environ.get("VERIF_OUT", VERIF)     # evidence/ and new replay files (seeded-change runs write elsewhere)
sys.path.insert(0, os.path.join(VERIF, "lib"))
sys.path.insert(0, VERIF)

from x import X, Crash, Buf, Sym, GEN, SIZE_MAX, build_dir  # noqa
import hypothesis
from hypothesis import given, settings, seed as hseed, HealthCheck, Phase, strategies as st  # noqa

NCPU = int(os.environ.get("VERIF_JOBS", os.cpu_count() or 4))


class Fail(Exception):
    """oracle violated"""


class Test:
    """One generated-input test of a property.
    strategy : hypothesis strategy yielding a JSON-serialisable case
    run(ctx, case) : executes the case; raises Fail / Crash on violation; calls ctx.cls()/ctx.nt()
    configs : executor configs the case is executed on (each separately)
    n : {'quick': examples per run, 'thorough': ...}  (total over shards)
    """

    def __init__(self, name, strategy, run, n, configs=("asan",), shards=None, max_shrinks=None, kind="hypothesis"):
        self.name, self.strategy, self.run, self.n, self.configs = name, strategy, run, n, tuple(configs)
        self.shards = shards
        self.kind = kind


class Sweep:
    """A deterministic enumeration (exhaustive sub-domain).  run(ctx, part, nparts) -> None; uses ctx.count()."""

    def __init__(self, name, run, parts, configs=("asan",), tiers=("quick", "thorough")):
        self.name, self.run, self.parts, self.configs, self.tiers = name, run, parts, tuple(configs), tiers
        self.kind = "sweep"


class Ctx:
    def __init__(self, config, tier):
        self.config, self.tier = config, tier
        self.x = None
        self.evals = 0
        self.classes = {}
        self.nt = set()
        self.samples = []
        self.excluded = {}
        self.frozen = False
        self.xs = {}

    def ex(self, config=None):
        config = config or self.config
        global _OWNER
        if _OWNER != os.getpid():
            _XS.clear()      # executors inherited through fork belong to the parent
            _OWNER = os.getpid()
        if config not in _XS:
            _XS[config] = X(config)
        return _XS[config]

    def cls(self, *names):
        if self.frozen:
            return
        for n in names:
            self.classes[n] = self.classes.get(n, 0) + 1

    def nontrivial(self, *sig):
        if self.frozen:
            return
        if len(self.nt) < 50000:
            self.nt.add(hashlib.md5(repr(sig).encode()).hexdigest()[:12])

    def exclude(self, name):
        if not self.frozen:
            self.excluded[name] = self.excluded.get(name, 0) + 1

    def sample(self, case, every=1):
        if self.frozen:
            return
        if len(self.samples) < 3:
            self.samples.append(_trunc(case))

    def count(self, n=1):
        if not self.frozen:
            self.evals += n


def _trunc(o, lim=160):
    if isinstance(o, dict):
        return {k: _trunc(v, lim) for k, v in list(o.items())[:24]}
    if isinstance(o, (list, tuple)):
        return [_trunc(v, lim) for v in list(o)[:12]]
    if isinstance(o, str) and len(o) > lim:
        return o[:lim] + "...(%d)" % len(o)
    if isinstance(o, bytes):
        return _trunc(o.hex(), lim)
    return o


_XS = {}
_OWNER = None
REPLAYING = False     # set while a saved case is re-executed (checks with stateful tools start them afresh)
_CHECKS = {}


def load_check(pid):
    if pid not in _CHECKS:
        import importlib
        mod = importlib.import_module("props." + pid.lower())
        _CHECKS[pid] = mod
    return _CHECKS[pid]


def _known():
    p = os.path.join(VERIF, "known_findings.json")
    return json.load(open(p)) if os.path.exists(p) else {"findings": []}


KNOWN = _known()


def is_known(pid, sig):
    for f in KNOWN["findings"]:
        if f["property"] == pid and f["kind"] == "known" and f["signature"] == sig:
            return True
    return False


def _run_case(test, case, tier, cfgs=None):
    for cfg in (cfgs or test.configs):
        ctx = Ctx(cfg, tier)
        ctx.x = ctx.ex(cfg)
        ctx.x.reset()
        test.run(ctx, case)


def _task(args):
    """worker: run one shard of one test; returns stats dict"""
    pid, tname, shard, nshards, sd, nex, tier, deadline = args
    mod = load_check(pid)
    test = {t.name: t for t in mod.tests(tier)}[tname]
    res = {"test": tname, "shard": shard, "evals": 0, "classes": {}, "nt": [], "samples": [], "excluded": {},
           "fail": None, "skipped": 0, "restarts": 0}
    agg = Ctx(None, tier)
    try:
        if test.kind == "sweep":
            for cfg in test.configs:
                ctx = Ctx(cfg, tier)
                ctx.x = ctx.ex(cfg)
                ctx.x.reset()
                try:
                    test.run(ctx, shard, nshards)
                except (Fail, Crash) as e:
                    res["fail"] = {"case": {"part": shard, "nparts": nshards}, "config": cfg, "error": "%s: %s" % (type(e).__name__, e),
                                   "detail": getattr(e, "text", ""), "case_override": getattr(e, "case", None)}
                _merge(agg, ctx)
                if res["fail"]:
                    break
        else:
            state = {"last_fail": None, "failed": False}

            def body(case):
                if time.time() > deadline and not state["failed"]:
                    res["skipped"] += 1
                    return
                if state.get("no_shrink"):
                    # a hang was seen: do not pay the timeout again for every shrink candidate
                    if case == state["last_fail"]["case"]:
                        raise state["exc"]
                    return
                for cfg in test.configs:
                    ctx = Ctx(cfg, tier)
                    ctx.frozen = state["failed"]
                    ctx.x = ctx.ex(cfg)
                    ctx.x.reset()
                    try:
                        test.run(ctx, case)
                    except (Fail, Crash) as e:
                        state["failed"] = True
                        if isinstance(e, Crash) and e.kind == "hang":
                            state["no_shrink"] = True
                            state["exc"] = e
                        state["last_fail"] = {"case": case, "config": cfg, "error": "%s: %s" % (type(e).__name__, e),
                                              "detail": getattr(e, "text", "")}
                        raise
                    finally:
                        if not ctx.frozen:
                            ctx.evals += 1
                            _merge(agg, ctx)

            f = settings(max_examples=nex, database=None, deadline=None, derandomize=False, report_multiple_bugs=False,
                         suppress_health_check=list(HealthCheck), print_blob=False,
                         phases=[Phase.generate, Phase.shrink])(hseed(sd)(given(test.strategy)(body)))
            try:
                f()
            except (Fail, Crash):
                res["fail"] = state["last_fail"]
            except BaseException as e:  # harness/generator bug: surface loudly, not as a violation
                if state["last_fail"] is not None:
                    res["fail"] = state["last_fail"]
                else:
                    res["harness_error"] = traceback.format_exc()[-3000:]
    except BaseException:
        res["harness_error"] = traceback.format_exc()[-3000:]
    res["evals"] = agg.evals
    res["classes"] = agg.classes
    res["nt"] = list(agg.nt)
    res["samples"] = agg.samples
    res["excluded"] = agg.excluded
    res["restarts"] = sum(x.restarts for x in _XS.values())
    return res


def _merge(agg, ctx):
    agg.evals += ctx.evals
    for k, v in ctx.classes.items():
        agg.classes[k] = agg.classes.get(k, 0) + v
    for k, v in ctx.excluded.items():
        agg.excluded[k] = agg.excluded.get(k, 0) + v
    if len(agg.nt) < 50000:
        agg.nt |= ctx.nt
    for s in ctx.samples:
        if len(agg.samples) < 3:
            agg.samples.append(s)


def replay_case(pid, rec, times=3):
    """re-execute a saved case through the plain path; returns list of error strings (one per failing run)"""
    mod = load_check(pid)
    tier = rec.get("tier", "quick")
    tests = {t.name: t for t in mod.tests("thorough")}
    test = tests.get(rec["test"])
    if test is None:
        return ["unknown test %s" % rec["test"]]
    errs = []
    global REPLAYING
    for _ in range(times):
        REPLAYING = True
        try:
            if test.kind == "sweep":
                ctx = Ctx(rec["config"], tier)
                ctx.x = ctx.ex(rec["config"])
                ctx.x.reset()
                if rec.get("case_override") is not None and hasattr(mod, "replay_override"):
                    mod.replay_override(ctx, rec["test"], rec["case_override"])
                else:
                    test.run(ctx, rec["case"]["part"], rec["case"]["nparts"])
            else:
                _run_case(test, rec["case"], tier, [rec["config"]])
        except (Fail, Crash) as e:
            errs.append("%s: %s" % (type(e).__name__, e))
        finally:
            REPLAYING = False
    return errs


def run_check(pid, tier, seed, level="exploration", only=None):
    t0 = time.time()
    mod = load_check(pid)
    tests = [t for t in mod.tests(tier) if (only is None or t.name in only)]
    budget = getattr(mod, "BUDGET", {"quick": 240, "thorough": 3000})[tier]
    deadline = t0 + budget
    violations = []
    known_lines = []
    # --- replay tier
    replayed = 0
    for f in sorted(glob.glob(os.path.join(VERIF, "replay", pid + "-*.json"))):
        rec = json.load(open(f))
        if only is not None and rec["test"] not in only:
            continue
        errs = replay_case(pid, rec)
        replayed += 1
        if len(errs) == 3:
            violations.append((f, rec, errs[0]))
    # --- known finding probes
    if hasattr(mod, "known_probes"):
        for sig, what, still_fails in mod.known_probes(tier):
            if is_known(pid, sig) and still_fails:
                known_lines.append("KNOWN-FINDING: property=%s %s" % (pid, what))
            elif still_fails and not is_known(pid, sig):
                violations.append((None, {"test": "known_probe", "case": sig, "config": "asan"}, what))
    # --- generated tests
    tasks = []
    for t in tests:
        if t.kind == "sweep":
            if tier not in t.tiers:
                continue
            for i in range(t.parts):
                tasks.append((pid, t.name, i, t.parts, seed, 0, tier, deadline))
        else:
            n = t.n[tier]
            shards = t.shards or max(1, min(NCPU, n // 50))
            for i in range(shards):
                sd = int(hashlib.sha256(("%d/%s/%d" % (seed, t.name, i)).encode()).hexdigest()[:12], 16)
                tasks.append((pid, t.name, i, shards, sd, max(1, n // shards), tier, deadline))
    results = []
    if tasks:
        ctxm = mp.get_context("fork")
        with ctxm.Pool(min(NCPU, len(tasks)), maxtasksperchild=None) as pool:
            for r in pool.imap_unordered(_task, tasks, chunksize=1):
                results.append(r)
                if os.environ.get("VERIF_VERBOSE"):
                    sys.stderr.write("[done] %s shard=%d evals=%d fail=%s herr=%s t=%.0fs\n" % (r["test"], r["shard"], r["evals"], bool(r["fail"]), bool(r.get("harness_error")), time.time() - t0))
    # --- aggregate
    evals = 0
    nt = set()
    classes = {}
    samples = []
    excluded = {}
    per_test = {}
    harness_errors = []
    skipped = 0
    for r in results:
        evals += r["evals"]
        nt |= set(r["test"] + ":" + s for s in r["nt"])
        pt = per_test.setdefault(r["test"], {"evaluations": 0, "nontrivial": set()})
        pt["evaluations"] += r["evals"]
        pt["nontrivial"] |= set(r["nt"])
        skipped += r["skipped"]
        for k, v in r["classes"].items():
            classes[r["test"] + "." + k] = classes.get(r["test"] + "." + k, 0) + v
        for k, v in r["excluded"].items():
            excluded[k] = excluded.get(k, 0) + v
        if len([s for s in samples if s["test"] == r["test"]]) < 1:
            for s in r["samples"][:1]:
                samples.append({"test": r["test"], "case": s})
        if r.get("harness_error"):
            harness_errors.append((r["test"], r["harness_error"]))
        if r["fail"]:
            if os.environ.get("VERIF_VERBOSE"):
                sys.stderr.write("[fail] %s shard=%d %s\n  case=%s\n" % (r["test"], r["shard"], r["fail"]["error"][:1500], json.dumps(r["fail"]["case"])[:1500]))
            rec = {"property": pid, "test": r["test"], "tier": tier, "seed": seed, "config": r["fail"]["config"],
                   "case": r["fail"]["case"], "error": r["fail"]["error"], "detail": r["fail"].get("detail", "")[:4000]}
            if r["fail"].get("case_override") is not None:
                rec["case_override"] = r["fail"]["case_override"]
            h = hashlib.sha256(json.dumps([rec["test"], rec["case"], rec.get("case_override")], sort_keys=True).encode()).hexdigest()[:10]
            os.makedirs(os.path.join(OUT, "replay"), exist_ok=True)
            path = os.path.join(OUT, "replay", "%s-%s-%s.json" % (pid, rec["test"], h))
            errs = replay_case(pid, rec)
            if len(errs) == 3:
                if not any(v[0] == path for v in violations):
                    json.dump(rec, open(path, "w"), indent=1)
                    violations.append((path, rec, rec["error"]))
            else:
                harness_errors.append((r["test"], "failure did not reproduce 3x (%d/3): %s case=%s" % (len(errs), rec["error"], json.dumps(rec["case"])[:500])))
    for k in per_test:
        per_test[k]["nontrivial"] = len(per_test[k]["nontrivial"])
    wall = time.time() - t0
    cov = {
        "evaluations": evals,
        "distinct_nontrivial": len(nt),
        "rule": getattr(mod, "RULE", ""),
        "samples": samples,
        "classes": dict(sorted(classes.items())),
        "per_test": per_test,
        "excluded_known": excluded,
        "replayed_regressions": replayed,
        "skipped_after_budget": skipped,
        "configs": sorted({c for t in tests for c in t.configs}),
        "known_findings_reported": known_lines,
        "exhaustive": bool(getattr(mod, "EXHAUSTIVE", {}).get(tier, False)),
    }
    if getattr(mod, "EXHAUSTIVE_NOTE", None):
        cov["exhaustive_subdomains"] = mod.EXHAUSTIVE_NOTE
    ev = {"property_id": pid, "tier": tier, "seed": seed, "level": getattr(mod, "LEVEL", level), "coverage": cov,
          "assumptions": getattr(mod, "ASSUMPTIONS", []), "wall_s": round(wall, 2), "violations": len(violations)}
    if harness_errors:
        ev["coverage"]["harness_errors"] = [h[1][-600:] for h in harness_errors][:5]
    os.makedirs(os.path.join(OUT, "evidence"), exist_ok=True)
    json.dump(ev, open(os.path.join(OUT, "evidence", pid + ".json"), "w"), indent=1)
    for l in known_lines:
        print(l)
    for t, h in harness_errors:
        sys.stderr.write("HARNESS-ERROR in %s (not a violation):\n%s\n" % (t, h))
    print("%s tier=%s seed=%d evaluations=%d distinct_nontrivial=%d wall=%.1fs violations=%d" %
          (pid, tier, seed, evals, len(nt), wall, len(violations)))
    for path, rec, err in violations:
        print("  failing: test=%s config=%s %s" % (rec["test"], rec.get("config"), str(err)[:300]))
        print("VIOLATION property=%s replay=%s" % (pid, path or os.path.join(VERIF, "known_findings.json")))
    if violations:
        return 1
    return 2 if harness_errors else 0
