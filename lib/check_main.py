import argparse, json, os, sys
sys.path.insert(0, os.path.dirname(os.path.abspath(__file__)))
import harness

ap = argparse.ArgumentParser()
ap.add_argument("pid")
ap.add_argument("--tier", default=os.environ.get("VERIF_TIER", "quick"))
ap.add_argument("--replay")
ap.add_argument("--only")
a = ap.parse_args()
seed = int(os.environ.get("VERIF_SEED", "1") or 1)
if a.tier not in ("quick", "thorough"):
    a.tier = "quick"
if a.replay and hasattr(harness.load_check(a.pid), "replay"):
    bad = harness.load_check(a.pid).replay(a.replay)
    if bad:
        print("VIOLATION property=%s replay=%s" % (a.pid, a.replay))
    else:
        print("replay passes")
    sys.exit(1 if bad else 0)
if a.replay and hasattr(harness.load_check(a.pid), "main"):
    # exhaustive checks: a replay is a fresh complete run
    sys.exit(harness.load_check(a.pid).main(a.tier, seed, None))
if a.replay:
    rec = json.load(open(a.replay))
    errs = harness.replay_case(a.pid, rec)
    if len(errs) == 3:
        print(errs[0])
        print("VIOLATION property=%s replay=%s" % (a.pid, a.replay))
        sys.exit(1)
    print("replay passes (%d/3 failing runs)" % len(errs))
    sys.exit(0)
mod = harness.load_check(a.pid)
if hasattr(mod, "main"):
    sys.exit(mod.main(a.tier, seed, a.only.split(",") if a.only else None))
sys.exit(harness.run_check(a.pid, a.tier, seed, only=a.only.split(",") if a.only else None))
