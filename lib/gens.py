"""Shared generators: symbolic big-integer specs (resolved against the word size of
the executing configuration), lengths biased to block boundaries, byte strings."""
from hypothesis import strategies as st

WORDPATS = ["0", "1", "F", "H", "h", "E", "r"]  # 0, 1, B-1, B/2, B/2-1, B-2, random


def int_spec(maxwords=20):
    rnd = st.binary(min_size=0, max_size=8 * maxwords).map(lambda b: ["r", b.hex()])
    return st.one_of(
        st.just(["z"]), st.just(["one"]), st.just(["max"]),
        st.integers(0, 64 * maxwords).map(lambda k: ["bit", k]),
        st.lists(st.tuples(st.sampled_from(WORDPATS), st.integers(0, 2 ** 64 - 1)), min_size=1, max_size=maxwords).map(lambda l: ["pat", [list(t) for t in l]]),
        rnd, rnd, rnd,
        st.tuples(st.integers(0, 64 * maxwords), st.integers(-3, 3)).map(lambda t: ["p2", t[0], t[1]]),
        st.integers(0, 3).map(lambda d: ["modm", d]),
        st.tuples(st.integers(0, 5), st.integers(-2, 2)).map(lambda t: ["kmod", t[0], t[1]]),
        st.tuples(rnd, st.integers(-1, 1)).map(lambda t: ["rkmod", t[0][1], t[1]]),
    )


def resolve(spec, W, n, mod=None):
    """spec -> integer in [0, 2^(W n))"""
    B = 1 << W
    top = 1 << (W * n)
    if n == 0:
        return 0
    k = spec[0]
    if k == "z":
        v = 0
    elif k == "one":
        v = 1
    elif k == "max":
        v = top - 1
    elif k == "bit":
        v = 1 << (spec[1] % (W * n))
    elif k == "pat":
        v = 0
        pats = spec[1]
        for i in range(n):
            p, r = pats[i % len(pats)]
            w = {"0": 0, "1": 1, "F": B - 1, "H": B >> 1, "h": (B >> 1) - 1, "E": B - 2, "r": r % B}[p]
            v |= w << (W * i)
    elif k == "r":
        v = int.from_bytes(bytes.fromhex(spec[1]), "little") if spec[1] else 0
    elif k == "p2":
        v = (1 << (spec[1] % (W * n))) + spec[2]
    elif k == "modm":
        v = (mod - spec[1]) if mod else spec[1]
    elif k == "kmod":
        v = (spec[1] * mod + spec[2]) if mod else spec[1]
    elif k == "rkmod":
        r = int.from_bytes(bytes.fromhex(spec[1]), "little") if spec[1] else 0
        v = (r * mod + spec[2]) if mod else r
    else:
        raise ValueError(spec)
    return v % top


def mod_spec(maxwords=12):
    """modulus classes: symbolic, resolved by resolve_mod"""
    rnd = st.binary(min_size=1, max_size=8 * maxwords).map(lambda b: b.hex())
    return st.one_of(
        st.tuples(st.just("rand"), rnd, st.booleans(), st.booleans()).map(list),   # random, force odd?, force top bit?
        st.tuples(st.just("crand"), st.integers(1, 2 ** 64 - 1), st.sampled_from(["small", "any", "max"])).map(list),  # B^n - c
        st.tuples(st.just("p2m"), st.integers(1, 1000)).map(list),    # 2^k - d, k = full length
        st.tuples(st.just("low"), st.integers(2, 2 ** 16)).map(list),       # tiny modulus in the top word position... (value small, n=1)
        st.tuples(st.just("topone"), rnd).map(list),   # top word == 1
        st.tuples(st.just("allones"),).map(list),
    )


def resolve_mod(spec, W, n, odd=False, minval=2):
    B = 1 << W
    top = 1 << (W * n)
    k = spec[0]
    if k == "rand":
        v = int.from_bytes(bytes.fromhex(spec[1]), "little") % top
        if spec[2]:
            v |= 1
        if spec[3]:
            v |= top >> 1
    elif k == "crand":
        c = spec[1] % B
        if spec[2] == "small":
            c = c % 1024
        elif spec[2] == "max":
            c = B - 1
        c = max(c, 1)
        v = top - c
    elif k == "p2m":
        v = top - spec[1]
    elif k == "low":
        v = spec[1]
    elif k == "topone":
        v = (int.from_bytes(bytes.fromhex(spec[1]), "little") % (top >> W if n > 1 else 1)) | (1 << (W * (n - 1)))
    elif k == "allones":
        v = top - 1
    else:
        raise ValueError(spec)
    # the library demands mod[n-1] != 0
    if v >> (W * (n - 1)) == 0:
        v |= 1 << (W * (n - 1))
    if odd:
        v |= 1
    if v < minval:
        v = minval | (1 if odd else 0)
    return v % top or (top - 1)


# lengths biased to block boundaries
def length(block=16, maxblocks=5, extra=()):
    base = set(extra)
    for k in range(0, maxblocks + 1):
        for d in (-1, 0, 1):
            v = k * block + d
            if v >= 0:
                base.add(v)
    return st.one_of(st.sampled_from(sorted(base)), st.integers(0, block * maxblocks + 7))


def data(lo=0, hi=100):
    return st.binary(min_size=lo, max_size=hi)


def hexs(lo=0, hi=100):
    return st.binary(min_size=lo, max_size=hi).map(lambda b: b.hex())


def key_spec():
    """belt key: length in {16,24,32}, content from classes"""
    return st.tuples(st.sampled_from([16, 24, 32]), st.one_of(st.just(b"\0" * 32), st.just(b"\xff" * 32), st.binary(min_size=32, max_size=32))).map(lambda t: t[1][:t[0]].hex())


def expand(seedhex, n):
    """deterministic expansion of a short hex seed to n octets (keeps cases small & shrinkable)"""
    import hashlib
    seed = seedhex.encode()
    out = b""
    i = 0
    while len(out) < n:
        out += hashlib.sha256(seed + i.to_bytes(4, "little")).digest()
        i += 1
    return out[:n]
