"""err_t codes parsed from /repo/include/bee2/core/err.h (names -> numbers)"""
import re, os
REPO = os.environ.get("VERIF_REPO", "/repo")
E = {"ERR_OK": 0, "ERR_MAX": 0xFFFFFFFF}
for m in re.finditer(r"#define\s+(ERR_\w+)\s+_ERR_REG\((\d+)\)", open(os.path.join(REPO, "include/bee2/core/err.h"), encoding="utf-8").read()):
    E[m.group(1)] = int(m.group(2))
N = {v: k for k, v in E.items()}


def name(code):
    return N.get(code, str(code))
