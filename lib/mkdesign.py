#!/usr/bin/env python3
"""Regenerates the generated part of DESIGN.md (sections 6 and 7) from known_findings.json, seeded/*/meta.json and design/sec6_static.md."""
import json, os, glob, re
V = os.path.dirname(os.path.dirname(os.path.abspath(__file__)))
kf = json.load(open(os.path.join(V, "known_findings.json")))["findings"]
out = []
# ---- 5a: checks as built
import subprocess
man = json.load(open(os.path.join(V, "MANIFEST.json")))
intro = subprocess.run(["python3-vt", "-c", """
import sys, json, importlib
sys.path[:0] = ['%s/lib', '%s/props', '%s']
res = {}
for i in range(1, 21):
    try:
        m = importlib.import_module('c%%02d' %% i)
        ts = m.tests('quick') if hasattr(m, 'tests') else []
        res['C%%02d' %% i] = [(t.name, sorted(t.configs)) for t in ts]
    except Exception as e:
        pass
print(json.dumps(res))
""" % (V, V, V)], capture_output=True, text=True).stdout
intro = json.loads(intro.strip().splitlines()[-1]) if intro.strip() else {}
out.append("## 5a. The checks as built\n")
out.append("Generated from MANIFEST.json, the property modules and the evidence of the last quick run on `/repo` (seed 1). "
           "`evaluations` counts oracle evaluations, `non-trivial` the distinct signatures under the rule each evidence file states.\n")
out.append("| id | level | tests (module `props/cXX.py`) | configurations | evaluations | non-trivial | wall s |\n|---|---|---|---|---|---|---|")
for c in man["checks"]:
    pid = c["property_id"]
    ev = {}
    try:
        ev = json.load(open(os.path.join(V, "evidence", pid + ".json")))
    except Exception:
        pass
    ts = intro.get(pid, [])
    if pid in ("C07", "C19"):
        mods = sorted(set(t[0].split(".")[0] for t in ts))
        tn = "%d tests of %s re-executed" % (len(ts), ", ".join(mods))
    elif ts:
        tn = ", ".join(t[0] for t in ts)
    else:
        tn = {"C08": "libFuzzer targets DER, OID, APDU, STR, PARAMS, CVC, BPKI, SM + exhaustive <= 3 octets", "C18": "mtx scenarios once, atomic, rng x threads {2,3,4,8,16}",
              "C20": "transition graph extraction, rule monitors, generated walks"}.get(pid, "")
    cf = sorted(set(x for t in ts for x in t[1])) or {"C08": ["fuzz"], "C18": ["tsan"], "C20": ["asan"]}.get(pid, [])
    cov = ev.get("coverage", {})
    out.append("| %s | %s | %s | %s | %s | %s | %s |" % (pid, c["level_claimed"]["category"], tn, ", ".join(cf), cov.get("evaluations", "?"), cov.get("distinct_nontrivial", "?"), ev.get("wall_s", "?")))
out.append("")
out.append("What each check generates and what it counts as non-trivial (the `rule` field of its evidence file):\n")
for c in man["checks"]:
    pid = c["property_id"]
    try:
        ev = json.load(open(os.path.join(V, "evidence", pid + ".json")))
        rule = ev.get("coverage", {}).get("rule", "")
    except Exception:
        rule = ""
    if rule:
        out.append("* **%s** - %s" % (pid, rule.replace("\n", " ")))
out.append("")
if man.get("not_applicable"):
    out.append("Not claimed at present: " + "; ".join("%s (%s)" % (n["property_id"], n["reason"]) for n in man["not_applicable"]) + "\n")
out.append("## 6. What the checks found in agievich/bee2\n")
nf = sum(1 for e in kf if e["kind"] == "fixed")
out.append("Source of truth: `known_findings.json` (%d `fixed`, %d `known`). Every entry below was a failing generated case of the named check on the "
           "tree as it was then; `fixed` entries are `fix:` commits in `/repo` (the 38 pinned tests pass after each), and the class that found each "
           "stays in the generator.\n" % (nf, len(kf) - nf))
out.append("### 6.1 Defects, by the property whose check found them\n")
out.append("| property | kind | commit | what failed (input and effect) |\n|---|---|---|---|")
for e in sorted(kf, key=lambda e: (e["property"], e["kind"] != "known")):
    out.append("| %s | %s | %s | %s |" % (e["property"], e["kind"], ("`%s`" % e["commit"]) if e.get("commit") else "-", e["what"].replace("|", "\\|").replace("\n", " ")))
out.append("")
out.append(open(os.path.join(V, "design", "sec6_static.md")).read())
out.append("\n## 7. Sensitivity: seeded changes and which check catches them\n")
out.append("Each change below was produced by a fresh sub-agent that saw only the text of one property and a scratch worktree of `/repo` "
           "(nothing from `/verif`), asked for a plausible programmer mistake that breaks the property, still compiles, still passes all 38 pinned "
           "tests and needs something specific to manifest. Each was confirmed in a scratch worktree (`bin/confirm_seed`: clean tree tests OK + demo "
           "PASS, changed tree tests OK + demo FAIL) and is kept as `seeded/<id>/` (patch.diff, demo, meta.json). `bin/seedmatrix` applies each patch to "
           "a scratch worktree (never to `/repo`), runs the quick checks against it through `VERIF_REPO` and records the result in meta.json; the table is "
           "generated from those files. Where a check missed a change it was strengthened and the run repeated; the changes still undetected are "
           "explained in 6.4.\n")
out.append("| change | file : what | caught by (quick tier) | run and not caught by |\n|---|---|---|---|")
for d in sorted(glob.glob(os.path.join(V, "seeded", "C*-m*"))):
    m = json.load(open(os.path.join(d, "meta.json")))
    patch = open(os.path.join(d, "patch.diff")).read()
    files = sorted(set(re.findall(r"^\+\+\+ b/(\S+)", patch, re.M)))
    note = m.get("summary") or ""
    if not note:
        nt = m.get("needs_to_manifest", "")
        lines = [l.strip("# *-").strip() for l in nt.splitlines() if l.strip() and not l.startswith("```")]
        note = " ".join(lines)[:260]
    out.append("| %s | %s : %s | %s | %s |" % (m["id"], ", ".join(f.replace("src/", "") for f in files), note.replace("|", "\\|"),
                                             ", ".join(m.get("detected_by") or []) or "**none**", ", ".join(m.get("not_detected_by") or []) or "-"))
out.append("")
det = sum(1 for d in glob.glob(os.path.join(V, "seeded", "C*-m*")) if json.load(open(os.path.join(d, "meta.json"))).get("detected_by"))
tot = len(glob.glob(os.path.join(V, "seeded", "C*-m*")))
out.append("%d of %d seeded changes are caught by at least one quick check.\n" % (det, tot))
out.append("Probes made by hand in scratch copies (not kept as seeded changes): C15 - an un-wiped early error exit, `memFree` instead of `blobClose`; "
           "C14 - a branch in SAFE(`zzAddMod`), `memcmp` with a variable length in `beltMACStepV2`; C18 - the original plain store in `mtCallOnce`, "
           "`brngCTRStepR` moved outside the mutex in `rngStepR2`, an unlocked `_ctr` test in `rngCreate`; all were caught by the respective check.\n")
p = os.path.join(V, "DESIGN.md")
s = open(p).read()
a = s.index("<!-- BEGIN GENERATED (lib/mkdesign.py) -->")
b = s.index("<!-- END GENERATED -->")
s = s[:a] + "<!-- BEGIN GENERATED (lib/mkdesign.py) -->\n" + "\n".join(out) + "\n" + s[b:]
open(p, "w").write(s)
print("DESIGN.md sections 6-7 regenerated:", nf, "fixed;", tot, "seeded,", det, "detected")
