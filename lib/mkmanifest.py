#!/usr/bin/env python3
"""Regenerates MANIFEST.json from the table below (kept in one place so it is always valid)."""
import json, os, subprocess
V = os.path.dirname(os.path.dirname(os.path.abspath(__file__)))
CHECKS = {}
NA = {}

def chk(pid, category, text, note, technique, design):
    CHECKS[pid] = dict(property_id=pid, quick_cmd="bin/check %s --tier quick" % pid, thorough_cmd="bin/check %s --tier thorough" % pid,
                       evidence_file="/verif/evidence/%s.json" % pid, replay_cmd_template="bin/check %s --replay {path}" % pid,
                       engine="b2x+hypothesis", level_claimed=dict(category=category, text=text, design_ref=design), level_note=note, technique=technique)

exec(open(os.path.join(V, "lib", "manifest_table.py")).read())

ALL = ["C%02d" % i for i in range(1, 21)]
hooks = subprocess.run(["git", "-C", "/repo", "log", "--format=%h", "--grep=^verif hook"], capture_output=True, text=True).stdout.split()
m = dict(version=1,
         setup_cmd="bin/selftest && python3 build/build.py asan w32 msan rel relwrap asanwrap tsan && python3 fuzz/build_fuzz.py",
         hooks=dict(guard="BEE2_VERIF", enable="every check builds /repo's working tree itself (build/build.py) with -DBEE2_VERIF in the sanitizer configurations",
                    baseline_off_cmd="bin/baseline", source_commits=hooks, add_only=True),
         engines=[dict(name="b2x+hypothesis", path="x/b2x.c lib/x.py lib/harness.py", serves_properties=sorted(CHECKS),
                       kind_free_text="generic call executor for libbee2 (exact-size heap buffers, ASan/MSan, asserts on) driven by Hypothesis strategies from Python; oracles are Python reference models, inverses and differentials"),
                  dict(name="b2x+enumeration", path="props/c20.py", serves_properties=["C20"], kind_free_text="complete enumeration of the automaton graph and rule monitors"),
                  dict(name="mtx+tsan", path="mt/mtx.c props/c18.py", serves_properties=["C18"], kind_free_text="native pthread harness built with clang -fsanitize=thread"),
                  dict(name="libFuzzer", path="fuzz/fz.c fuzz/build_fuzz.py props/c08.py", serves_properties=["C08"], kind_free_text="clang libFuzzer targets with ASan and in-target oracles")],
         checks=[CHECKS[k] for k in sorted(CHECKS)],
         notes="See DESIGN.md. known_findings.json lists repaired (fixed) and recorded (known) defects.",
         not_applicable=[dict(property_id=p, reason=NA.get(p, "check not built yet in this round; see DESIGN.md section 4 for the plan")) for p in ALL if p not in CHECKS])
json.dump(m, open(os.path.join(V, "MANIFEST.json"), "w"), indent=1)
print("checks:", sorted(CHECKS))
