chk("C05", "exploration",
    "Generated operands (symbolic boundary classes + random, lengths 0..20 words, every modulus class, documented aliasings) for every function of the ww/zz/zm/gfp/qr/pp/gf2 layers are executed in the 64-bit and the 32-bit word build with exact-size buffers and compared with Python int / GF(2)[x] arithmetic; all 16-bit helper inputs and all polynomials of degree <= 16 are enumerated. Exploration, not proof: it decides the property on the cases generated.",
    "Trusts Python int/pow/gcd and the 60-line GF(2)[x] reference (self-tested); the 32-bit word build is obtained with -U__SIZEOF_INT128__; sanitizer = ASan + bounds, library asserts enabled.",
    "property-based differential testing against an integer reference model (Hypothesis -> b2x executor), exhaustive enumeration of small sub-domains", "4.5")
chk("C20", "model_checking",
    "The automaton is finite: all 16x4x9 transitions are extracted by calling btokPwdTransition, and every clause of the property is a small history monitor explored in product with that graph by complete BFS from every PIN state with no authentication; a violation is reported as a shortest event path. Random long histories are additionally executed step by step to validate that the function has no hidden state.",
    "Assumes btokPwdTransition is a pure function of (pin, auth, event) (validated on generated histories) and that the clause monitors in props/c20.py transcribe the property text and comments 2-4 of btok.h faithfully.",
    "exhaustive enumeration of the implementation's transition graph x rule monitors (generated-input search degenerates to complete enumeration), plus stateful Hypothesis walks", "4.20")
CHECKS["C20"]["engine"] = "b2x+enumeration"
chk("C10", "exploration",
    "Stateful generated cases for every Start/Step/Get bundle (belt ECB/CBC/CFB/CTR/BDE/SDE/WBL/KRP/FMT, MAC, Hash, HMAC, DWP, CHE; bash hash and programmable automaton; brng CTR/HMAC; botp HOTP/TOTP/OCRA): random partitions biased to buffer boundaries, Get/Verify in between, relocation of the state (old copy scribbled and freed); oracle is the one-shot function on the concatenated data / a twin automaton driven by one-shot commands.",
    "One-shot functions are the oracle (their agreement with the standards is C01/C03). Relocation is asserted only where the header declares the state copyable (belt.h, brng.h, botp.h), not for bash.",
    "stateful property-based testing, differential oracle chunked-vs-one-shot and relocated-vs-in-place (Hypothesis -> b2x executor under ASan)", "4.10")
