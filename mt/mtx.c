/* mtx: native multi-thread harness for C18, built with clang -fsanitize=thread against the tsan configuration of bee2.
 * usage: mtx <scenario> <threads> <seed> <rounds>
 *   once   : T threads race on fresh once-triggers; the initialiser must run exactly once per trigger and its effects be visible
 *   atomic : T threads hammer one counter with mtAtomicIncr/Decr/CmpSwap; the final value must be exact
 *   onexit : T threads register exit handlers concurrently (utilOnExit); every registered handler must run at exit
 *   rng    : T threads run generated, well-bracketed sequences of rngCreate / rngStepR / rngStepR2 / rngRekey / rngIsValid / rngClose
 * Every choice derives from <seed> (xorshift); yields are injected at operation boundaries from the same stream.
 * exit 0 ok, 3 invariant violated (line "INVARIANT: ..."), 66 ThreadSanitizer report (TSAN_OPTIONS=exitcode=66). */
#include <pthread.h>
#include <sched.h>
#include <stdio.h>
#include <stdlib.h>
#include <string.h>
#include <stdint.h>
#include "bee2/defs.h"
#include "bee2/core/mt.h"
#include "bee2/core/rng.h"
#include "bee2/core/err.h"
#include "bee2/core/util.h"
#include <unistd.h>

static unsigned T; static uint64_t SEED; static unsigned ROUNDS;
static pthread_barrier_t bar;
static int failed;
#define INV(c, ...) do { if (!(c)) { fprintf(stderr, "INVARIANT: " __VA_ARGS__); fprintf(stderr, "\n"); failed = 1; } } while (0)

static uint64_t xs(uint64_t* s) { uint64_t x = *s; x ^= x << 13; x ^= x >> 7; x ^= x << 17; return *s = x; }
static void maybe_yield(uint64_t* s) { unsigned r = (unsigned)(xs(s) & 15); if (r < 5) sched_yield(); else if (r == 5) { struct timespec ts = {0, 1000 * (long)(xs(s) & 63)}; nanosleep(&ts, 0); } }

/* ---------------- once */
#define MAXR 4096
static size_t once_trg[MAXR]; static int inits[MAXR]; static unsigned char payload[MAXR][16];
static unsigned cur_round;
static void init_fn(void) { unsigned r = cur_round; inits[r]++; memset(payload[r], (int)(r * 7 + 1), 16); }
static void* once_thr(void* arg)
{
	uint64_t s = SEED * 0x9E3779B97F4A7C15ull + (uintptr_t)arg * 77 + 1; unsigned r, i;
	for (r = 0; r < ROUNDS; ++r)
	{
		pthread_barrier_wait(&bar);
		maybe_yield(&s);
		INV(mtCallOnce(&once_trg[r], init_fn), "mtCallOnce returned FALSE");
		/* effects of the initialiser must be visible to every caller that returns */
		for (i = 0; i < 16; ++i) if (payload[r][i] != (unsigned char)(r * 7 + 1)) { INV(0, "round %u: initialiser effects not visible after mtCallOnce returned", r); break; }
		pthread_barrier_wait(&bar);
		if ((uintptr_t)arg == 0) { INV(inits[r] == 1, "round %u: initialiser ran %d times", r, inits[r]); cur_round = r + 1; }
	}
	return 0;
}

/* ---------------- onexit */
static size_t exit_runs, exit_expected;
static void exit_fn(void) { ++exit_runs; }		/* handlers run one after another at exit */
static void exit_check(void)
{
	if (exit_runs != exit_expected)
	{
		fprintf(stderr, "INVARIANT: %zu of %zu registered exit handlers ran\n", exit_runs, exit_expected);
		fflush(stderr);
		_exit(3);
	}
}
static void* onexit_thr(void* arg)
{
	uint64_t s = SEED * 131 + (uintptr_t)arg * 9176 + 7; unsigned i;
	pthread_barrier_wait(&bar);
	for (i = 0; i < ROUNDS * 8; ++i)
	{
		INV(utilOnExit(exit_fn), "utilOnExit returned FALSE");
		if ((xs(&s) & 3) == 0) maybe_yield(&s);
	}
	return 0;
}

/* ---------------- atomic */
static size_t actr; static size_t cas_ctr;
static void* atomic_thr(void* arg)
{
	uint64_t s = SEED + (uintptr_t)arg * 1313 + 5; unsigned i;
	pthread_barrier_wait(&bar);
	for (i = 0; i < ROUNDS * 100; ++i)
	{
		mtAtomicIncr(&actr); if ((xs(&s) & 7) == 0) sched_yield();
		mtAtomicIncr(&actr); mtAtomicDecr(&actr);
		{ size_t v; do v = mtAtomicCmpSwap(&cas_ctr, 0, 0), (void)0; while (mtAtomicCmpSwap(&cas_ctr, v, v + 1) != v); }
	}
	return 0;
}

/* ---------------- rng */
#define MAXOUT (1 << 16)
static unsigned char (*outs)[32]; static size_t nouts; static pthread_mutex_t outm = PTHREAD_MUTEX_INITIALIZER;
static err_t extra_src(size_t* read, void* buf, size_t count, void* st) { memset(buf, 0x3C, count); *read = count; (void)st; return ERR_OK; }
/* sources that do not deliver: read_i allows an error return (with or without a partial read); rngCreate ignores such a source, and the call still
   counts as one reference ("Поддерживается счетчик обращений к rngCreate()") */
static err_t fail_src(size_t* read, void* buf, size_t count, void* st) { *read = 0; (void)buf, (void)count, (void)st; return ERR_FILE_READ; }
static err_t short_src(size_t* read, void* buf, size_t count, void* st) { memset(buf, 0x77, count < 7 ? count : 7); *read = count < 7 ? count : 7; (void)st; return ERR_MAX; }
static read_i pick_src(uint64_t* s)
{
	switch ((unsigned)(xs(s) % 6)) { case 0: case 1: return extra_src; case 2: return fail_src; case 3: return short_src; default: return 0; }
}
static void keep_blocks(const unsigned char* b, size_t n)
{
	size_t i;
	pthread_mutex_lock(&outm);
	for (i = 0; i + 32 <= n && nouts < MAXOUT; i += 32) memcpy(outs[nouts++], b + i, 32);
	pthread_mutex_unlock(&outm);
}
static void* rng_thr(void* arg)
{
	uint64_t s = SEED * 31 + (uintptr_t)arg * 7919 + 3; unsigned r, k, depth = 0; static __thread unsigned char buf[4352];
	pthread_barrier_wait(&bar);
	for (r = 0; r < ROUNDS; ++r)
	{
		unsigned nops = 3 + (unsigned)(xs(&s) % 10);
		err_t e = rngCreate(pick_src(&s), 0);
		INV(e == ERR_OK, "rngCreate failed with %u", (unsigned)e);
		if (e != ERR_OK) continue;
		depth = 1;
		for (k = 0; k < nops; ++k)
		{
			unsigned op = (unsigned)(xs(&s) % 8); size_t n = 1 + (size_t)(xs(&s) % 200), i, untouched = 0;
			static const size_t big[8] = {1024, 2048, 1000, 1023, 1025, 3072, 4096, 2500};
			if ((xs(&s) & 15) == 0) n = big[xs(&s) & 7];		/* long requests: every part of the buffer must be filled */
			maybe_yield(&s);
			switch (op)
			{
			case 0: case 1: case 2:
				memset(buf, 0xA5, n + 64 <= sizeof(buf) ? n + 64 : sizeof(buf));
				if (op == 0) rngStepR(buf, n, 0); else rngStepR2(buf, n, 0);
				for (i = 0; i < n; ++i) untouched += buf[i] == 0xA5;
				INV(n < 24 || untouched < n / 2, "rngStepR%s(%zu) left the buffer (mostly) untouched", op ? "2" : "", n);
				if (n >= 256)
				{
					size_t w;
					for (w = 0; w + 128 <= n; w += 128)
					{
						size_t u = 0;
						for (i = w; i < w + 128; ++i) u += buf[i] == 0xA5;
						if (u > 64) { INV(0, "rngStepR%s(%zu) did not fill octets %zu..%zu of the request", op ? "2" : "", n, w, w + 127); break; }
					}
				}
				for (i = n; i < n + 64 && i < sizeof(buf); ++i) if (buf[i] != 0xA5) { INV(0, "rngStepR wrote past the requested %zu octets", n); break; }
				if (op != 0) keep_blocks(buf, n < 256 ? n : 256);	/* StepR mixes entropy sources in front; StepR2 output is pure generator output */
				break;
			case 3: rngRekey(); break;
			case 4: INV(rngIsValid(), "rngIsValid() is FALSE while a reference is held"); break;
			case 5: if (depth < 3) { e = rngCreate(pick_src(&s), 0); INV(e == ERR_OK, "nested rngCreate failed"); if (e == ERR_OK) depth++; } break;
			case 6: if (depth > 1) { rngClose(); depth--; } break;
			default: sched_yield();
			}
		}
		while (depth) { rngClose(); depth--; }
	}
	return 0;
}
/* churn: very short sessions, so that the reference count passes through zero (destroy / re-create of the shared state) while other threads
   are entering: every thread holds its own reference whenever it uses the generator */
static void* churn_thr(void* arg)
{
	uint64_t s = SEED * 17 + (uintptr_t)arg * 104729 + 5; unsigned r; unsigned char buf[64];
	pthread_barrier_wait(&bar);
	for (r = 0; r < ROUNDS * 4; ++r)
	{
		err_t e = rngCreate(pick_src(&s), 0);
		INV(e == ERR_OK, "rngCreate failed with %u", (unsigned)e);
		if (e != ERR_OK) continue;
		INV(rngIsValid(), "rngIsValid() is FALSE while a reference is held");
		if (xs(&s) & 1) { memset(buf, 0xA5, sizeof(buf)); rngStepR2(buf, 32, 0); keep_blocks(buf, 32); }
		maybe_yield(&s);
		rngClose();
		if ((xs(&s) & 3) == 0) sched_yield();
	}
	return 0;
}
static int cmp32(const void* a, const void* b) { return memcmp(a, b, 32); }

int main(int argc, char** argv)
{
	pthread_t th[64]; unsigned i; void* (*fn)(void*) = 0;
	if (argc < 5) return 2;
	T = (unsigned)atoi(argv[2]); SEED = strtoull(argv[3], 0, 10) | 1; ROUNDS = (unsigned)atoi(argv[4]);
	if (T < 1 || T > 64 || ROUNDS > MAXR) return 2;
	pthread_barrier_init(&bar, 0, T);
	if (!strcmp(argv[1], "once")) fn = once_thr;
	else if (!strcmp(argv[1], "atomic")) fn = atomic_thr;
	else if (!strcmp(argv[1], "rng")) { fn = rng_thr; outs = malloc((size_t)MAXOUT * 32); }
	else if (!strcmp(argv[1], "onexit")) { fn = onexit_thr; exit_expected = (size_t)T * ROUNDS * 8; atexit(exit_check); /* registered first: runs after the library's own exit handler */ }
	else if (!strcmp(argv[1], "churn")) { fn = churn_thr; outs = malloc((size_t)MAXOUT * 32); }
	else return 2;
	for (i = 0; i < T; ++i) pthread_create(&th[i], 0, fn, (void*)(uintptr_t)i);
	for (i = 0; i < T; ++i) pthread_join(th[i], 0);
	if (fn == atomic_thr)
	{
		INV(actr == (size_t)T * ROUNDS * 100, "atomic counter %zu != %zu", actr, (size_t)T * ROUNDS * 100);
		INV(cas_ctr == (size_t)T * ROUNDS * 100, "CAS counter %zu != %zu", cas_ctr, (size_t)T * ROUNDS * 100);
	}
	if (fn == rng_thr || fn == churn_thr)
	{
		size_t k;
		INV(!rngIsValid(), "reference count not balanced: rngIsValid() after every thread closed");
		qsort(outs, nouts, 32, cmp32);
		for (k = 1; k < nouts; ++k) if (!memcmp(outs[k - 1], outs[k], 32)) { INV(0, "two requests received the same 32-octet generator block"); break; }
		printf("blocks %zu\n", nouts);
	}
	printf("%s T=%u seed=%llu rounds=%u %s\n", argv[1], T, (unsigned long long)SEED, ROUNDS, failed ? "FAILED" : "ok");
	return failed ? 3 : 0;
}
