"""C05 (pp): binary polynomials vs GF(2)[x]-as-int."""
from harness import Test, Sweep, Fail, st
from gens import expand, int_spec, resolve
import pyref.gf2x as G
from props.c05 import stack, wbuf, rint, chk, CFG_Q


def run_pp(ctx, c):
    x = ctx.x
    W = x.W
    n, m = c["n"], c["m"]
    a = resolve(c["a"], W, n)
    b = resolve(c["b"], W, m)
    w = resolve(c["w"], W, 1)
    ctx.cls("n%d" % min(n, 3), "m%d" % min(m, 3))
    if n >= 10 or m >= 10 or (n != m and n > 1 and m > 1):
        ctx.nontrivial("pp_mul", n, m)
    A = wbuf(x, a, n); Bb = wbuf(x, b, m)
    chk("ppDeg", x.call("ppDeg", A, n, ret="z"), G.deg(a) if a else 0) if a else None
    C = x.out((n + m) * x.wo)
    x.call("ppMul", C, A, n, Bb, m, stack(x, "ppMul_deep", n, m), ret="v"); chk("ppMul", rint(C), G.mul(a, b))
    C = x.out(2 * n * x.wo)
    x.call("ppSqr", C, A, n, stack(x, "ppSqr_deep", n), ret="v"); chk("ppSqr", rint(C), G.mul(a, a))
    A2 = wbuf(x, a, n); C = A2 if c["alias"] else x.out(n * x.wo)
    r = x.call("ppMulW", C, A2, n, w, stack(x, "ppMulW_deep", n), ret="w")
    p = G.mul(a, w)
    chk("ppMulW", rint(C), p % (1 << (W * n))); chk("ppMulW carry", r, p >> (W * n))
    b1 = resolve(c["b"], W, n)
    A2 = wbuf(x, a, n); B2 = A2 if c["alias"] else wbuf(x, b1, n)
    bv = a if c["alias"] else b1
    r = x.call("ppAddMulW", B2, A2, n, w, stack(x, "ppAddMulW_deep", n), ret="w")
    p = bv ^ G.mul(a, w)
    chk("ppAddMulW", rint(B2), p % (1 << (W * n))); chk("ppAddMulW carry", r, p >> (W * n))
    if m > 0:
        bb = b if b >> (W * (m - 1)) else b | (1 << (W * (m - 1) + c["tb"] % W))
        nn = max(n, m)
        aa = resolve(c["a"], W, nn)
        Bq = wbuf(x, bb, m)
        Aq = wbuf(x, aa, nn)
        Q = x.out((nn - m + 1) * x.wo); R = x.out(nn * x.wo)   # header: remainder is [n]r
        x.call("ppDiv", Q, R, Aq, nn, Bq, m, stack(x, "ppDiv_deep", nn, m), ret="v")
        q, r = G.divmod_(aa, bb)
        chk("ppDiv q", rint(Q), q); chk("ppDiv r", int.from_bytes(R.read(0, m * x.wo), "little"), r)
        Aq = wbuf(x, aa, nn); Q = x.out((nn - m + 1) * x.wo)
        x.call("ppDiv", Q, Aq, Aq, nn, Bq, m, stack(x, "ppDiv_deep", nn, m), ret="v")
        chk("ppDiv(r=a) q", rint(Q), q); chk("ppDiv(r=a) r", int.from_bytes(Aq.read(0, m * x.wo), "little"), r)
        R = x.out(m * x.wo)
        x.call("ppMod", R, A, n, Bq, m, stack(x, "ppMod_deep", n, m), ret="v"); chk("ppMod", rint(R), G.mod(a, bb))
        if n >= m:
            A3 = wbuf(x, a, n)
            x.call("ppMod", A3, A3, n, Bq, m, stack(x, "ppMod_deep", n, m), ret="v"); chk("ppMod(r=a)", int.from_bytes(A3.read(0, m * x.wo), "little"), G.mod(a, bb))
    if n and m and a and b:
        k = min(n, m)
        g = resolve(c["w"], W, 1) | 1 if c["common"] else 1
        a1 = G.mul(a, g) % (1 << (W * n)) or 1
        b2 = G.mul(b, g) % (1 << (W * m)) or 1
        d = G.gcd(a1, b2)
        if G.deg(d) > 0:
            ctx.nontrivial("pp_gcd", n, m)
        A1 = wbuf(x, a1, n); B1 = wbuf(x, b2, m)
        D = x.out(k * x.wo)
        x.call("ppGCD", D, A1, n, B1, m, stack(x, "ppGCD_deep", n, m), ret="v"); chk("ppGCD", rint(D), d)
        D = x.out(k * x.wo); DA = x.out(m * x.wo); DB = x.out(n * x.wo)
        x.call("ppExGCD", D, DA, DB, A1, n, B1, m, stack(x, "ppExGCD_deep", n, m), ret="v")
        chk("ppExGCD d", rint(D), d)
        if G.mul(a1, rint(DA)) ^ G.mul(b2, rint(DB)) != d:
            raise Fail("ppExGCD: a*da + b*db != d (a=%x b=%x da=%x db=%x)" % (a1, b2, rint(DA), rint(DB)))
    ctx.sample(c)


S_PP = st.fixed_dictionaries({"n": st.integers(0, 20), "m": st.integers(0, 20), "a": int_spec(), "b": int_spec(), "w": int_spec(1), "alias": st.booleans(),
                              "tb": st.integers(0, 63), "common": st.booleans()})


def run_ppmod(ctx, c):
    x = ctx.x
    W = x.W
    n = c["n"]
    mod = resolve(c["mod"], W, n)
    if c["topw"] == "one":
        mod = (mod % (1 << (W * (n - 1)))) | (1 << (W * (n - 1)))   # degree multiple of B_PER_W
    if mod >> (W * (n - 1)) == 0:
        mod |= 1 << (W * (n - 1) + c["tb"] % W)
    if G.deg(mod) < 1:
        mod |= 2 << (W * (n - 1)) if W > 2 else 2
    dm = G.deg(mod)
    a = resolve(c["a"], W, n) % (1 << dm)
    b = resolve(c["b"], W, n) % (1 << dm)
    ctx.cls("topw_" + c["topw"], "n%d" % min(n, 3))
    ctx.nontrivial("ppmod", n, c["topw"], c["a"][0])
    M = wbuf(x, mod, n); A = wbuf(x, a, n); Bb = wbuf(x, b, n)
    C = x.out(n * x.wo)
    x.call("ppMulMod", C, A, Bb, M, n, stack(x, "ppMulMod_deep", n), ret="v"); chk("ppMulMod", rint(C), G.mulmod(a, b, mod))
    C = x.out(n * x.wo)
    x.call("ppSqrMod", C, A, M, n, stack(x, "ppSqrMod_deep", n), ret="v"); chk("ppSqrMod", rint(C), G.mulmod(a, a, mod))
    a2 = resolve(c["a"], W, 2 * n)
    A2 = wbuf(x, a2, 2 * n)
    x.call("ppRed", A2, M, n, stack(x, "ppRed_deep", n), ret="v"); chk("ppRed", int.from_bytes(A2.read(0, n * x.wo), "little"), G.mod(a2, mod))
    modo = mod | 1
    Mo = wbuf(x, modo, n)
    ao = a % (1 << G.deg(modo))
    bo = b % (1 << G.deg(modo))
    inv = G.invmod(ao, modo) if G.gcd(ao, modo) == 1 and ao else 0
    if ao and not inv:
        ctx.nontrivial("ppinv_gcd", n)
    C = x.out(n * x.wo)
    x.call("ppInvMod", C, wbuf(x, ao, n), Mo, n, stack(x, "ppInvMod_deep", n), ret="v"); chk("ppInvMod", rint(C), inv)
    C = x.out(n * x.wo)
    x.call("ppDivMod", C, wbuf(x, bo, n), wbuf(x, ao, n), Mo, n, stack(x, "ppDivMod_deep", n), ret="v"); chk("ppDivMod", rint(C), G.mulmod(bo, inv, modo))
    # belt/GCM reduction
    nb = 128 // W
    v = resolve(c["a"], W, 2 * nb)
    V = wbuf(x, v, 2 * nb)
    x.call("ppRedBelt", V, ret="v"); chk("ppRedBelt", int.from_bytes(V.read(0, 16), "little"), G.mod(v, (1 << 128) | 0x87))
    # sparse reductions (pp.h): trinomial x^m + x^k + 1 (m % 8 != 0, k > 0, m - k >= B_PER_W), pentanomial x^m + x^k + x^l + x^l1 + 1
    # (k > l > l1 > 0, m - k >= B_PER_W, k < B_PER_W); the dividend has 2 W_OF_B(m) words (any content)
    h = int.from_bytes(__import__("hashlib").sha256(repr((c["tb"], c["n"], c["a"], c["mod"])).encode()).digest(), "little")
    m = W + 3 + h % 520
    h >>= 16
    nn = (m + W - 1) // W
    a3 = resolve(c["a"], W, 2 * nn)
    if h & 1:
        a3 &= (1 << (2 * m - 1)) - 1        # a product of two reduced elements
    h >>= 1
    k = 3 + h % (min(W - 1, m - W) - 2); h >>= 12
    l = 2 + h % (k - 2); h >>= 12
    l1 = 1 + h % (l - 1); h >>= 12
    P = x.buf(b"".join(v.to_bytes(8, "little") for v in (m, k, l, l1)))
    A3 = wbuf(x, a3, 2 * nn)
    x.call("ppRedPentanomial", A3, P, ret="v")
    chk("ppRedPentanomial(m=%d k=%d l=%d l1=%d)" % (m, k, l, l1), int.from_bytes(A3.read(0, nn * x.wo), "little"), G.mod(a3, (1 << m) | (1 << k) | (1 << l) | (1 << l1) | 1))
    ctx.nontrivial("ppred5", m % W, k > m % W, l > m % W, l1 > m % W, nn)
    if m % 8:
        kt = 1 + h % (m - W)
        T = x.buf(b"".join(v.to_bytes(8, "little") for v in (m, kt)))
        A3 = wbuf(x, a3, 2 * nn)
        x.call("ppRedTrinomial", A3, T, ret="v")
        chk("ppRedTrinomial(m=%d k=%d)" % (m, kt), int.from_bytes(A3.read(0, nn * x.wo), "little"), G.mod(a3, (1 << m) | (1 << kt) | 1))
        ctx.nontrivial("ppred3", m % W, kt % W, kt // W, nn)
    ctx.sample(c)


S_PPMOD = st.fixed_dictionaries({"n": st.integers(1, 10), "mod": int_spec(10), "a": int_spec(20), "b": int_spec(10), "topw": st.sampled_from(["any", "any", "one"]), "tb": st.integers(0, 63)})


def run_irred(ctx, c):
    x = ctx.x
    W = x.W
    n = c["n"]
    f = resolve(c["f"], W, n)
    if c["mk"] == "prod":
        # product of two polynomials: reducible without small factors when both are large
        h = n * W // 2
        f = G.mul(resolve(c["f"], W, n) % (1 << h) | (1 << (h - 1)) | 1, resolve(c["g"], W, n) % (1 << (n * W - h)) | (1 << (n * W - h - 1)) | 1)
    elif c["mk"] == "odd":
        f |= 1
    f %= 1 << (W * n)
    if f == 0:
        f = 2
    exp = G.is_irred(f)
    ctx.cls("irr" if exp else "red", c["mk"])
    ctx.nontrivial("irred", n, c["mk"], exp)
    r = x.call("ppIsIrred", wbuf(x, f, n), n, stack(x, "ppIsIrred_deep", n))
    chk("ppIsIrred(%x)" % f, r, int(exp))
    ctx.sample(c)


S_IRRED = st.fixed_dictionaries({"n": st.integers(1, 5), "f": int_spec(5), "g": int_spec(5), "mk": st.sampled_from(["any", "odd", "prod"])})

KNOWN_IRRED = [(1 << 128) | 0x87, (1 << 163) | (1 << 7) | (1 << 6) | (1 << 3) | 1, (1 << 233) | (1 << 74) | 1, (1 << 283) | (1 << 12) | (1 << 7) | (1 << 5) | 1,
               (1 << 192) | 0x87, (1 << 256) | (1 << 10) | (1 << 5) | (1 << 2) | 1, (1 << 409) | (1 << 87) | 1, (1 << 571) | (1 << 10) | (1 << 5) | 4 | 1]


def sweep_irred(ctx, part, nparts):
    """all polynomials of degree <= 16: ppIsIrred == trial-division irreducibility (exhaustive)"""
    x = ctx.x
    lo = 2 + part * ((1 << 17) - 2) // nparts
    hi = 2 + (part + 1) * ((1 << 17) - 2) // nparts
    # sieve irreducibles of degree <= 8 for trial division
    small = [f for f in range(2, 1 << 9) if G.is_irred_brute(f)]
    cnt = 0
    st1 = stack(x, "ppIsIrred_deep", 1)
    for f in range(lo, hi):
        d = G.deg(f)
        irr = True
        for s in small:
            ds = G.deg(s)
            if 2 * ds > d:
                break
            if G.mod(f, s) == 0:
                irr = False
                break
        if d == 0:
            irr = False
        r = x.call("ppIsIrred", wbuf(x, f, 1), 1, st1)
        cnt += 1
        if r != int(irr):
            e = Fail("ppIsIrred(%#x): got %d expected %d" % (f, r, irr))
            e.case = {"f": f}
            raise e
        if f % 64 == 0:
            ctx.x.reset(); st1 = stack(x, "ppIsIrred_deep", 1)
    if part == 0:
        for f in KNOWN_IRRED:
            n = (f.bit_length() + x.W - 1) // x.W
            r = x.call("ppIsIrred", wbuf(x, f, n), n, stack(x, "ppIsIrred_deep", n))
            cnt += 1
            if r != 1:
                e = Fail("ppIsIrred(standard irreducible %#x) = 0" % f); e.case = {"f": f}
                raise e
        ctx.sample({"sweep": "all polynomials 2..2^17-1", "part": [lo, hi]})
    ctx.count(cnt)
    for f in range(lo, hi, 257):
        ctx.nontrivial("irr_sweep", f)


def run_minpoly(ctx, c):
    x = ctx.x
    W = x.W
    l = c["l"]
    mode = c.get("mode", "list")
    if mode == "list":
        bits = c["bits"][:2 * l] + [0] * (2 * l - len(c["bits"]))
    else:
        raw = int.from_bytes(expand(c["seed"], (2 * l + 7) // 8 + 8), "little")
        bits = [(raw >> i) & 1 for i in range(2 * l)]
        if mode == "zeros":
            # a long run of zeros in front (large degree drops in the Euclidean sequence: quotients of several words)
            z = c["z"] % (2 * l)
            bits = [0] * z + [1] + bits[z + 1:]
        elif mode == "lfsr":
            # a linear recurring sequence with a generator of degree d <= l (sparse or dense), from a generated initial state
            d = 1 + c["z"] % l
            g = (raw >> 7) % (1 << d) | (1 << d) | 1
            if c["z"] % 3 == 0:
                g = (1 << d) | (1 << (c["z"] % d)) | 1
            state = bits[:d] if any(bits[:d]) else [1] + [0] * (d - 1)
            seq = list(state)
            taps = [i for i in range(d) if (g >> i) & 1]
            for i in range(d, 2 * l):
                seq.append(sum(seq[i - d + t] for t in taps) & 1)
            bits = seq
    # a: bit 2l-1 is the first element
    a = 0
    for i, bt in enumerate(bits):
        if bt:
            a |= 1 << (2 * l - 1 - i)
    na = (2 * l + W - 1) // W
    nb = (l + 1 + W - 1) // W
    Bo = x.out(nb * x.wo)
    x.call("ppMinPoly", Bo, wbuf(x, a, na), l, stack(x, "ppMinPoly_deep", l), ret="v")
    got = rint(Bo)
    exp = G.minpoly_seq(bits)
    ctx.cls("l%d" % min(l // 16, 8), "minpoly_" + mode)
    ctx.nontrivial("minpoly", l, G.deg(exp), mode)
    # the minimal polynomial is unique when its degree <= l (sequence of length 2l)
    if G.deg(exp) <= l:
        chk("ppMinPoly(l=%d, %s)" % (l, mode), got, exp)
    ctx.sample(c)


S_MINPOLY = st.one_of(
    st.fixed_dictionaries({"l": st.integers(1, 70), "bits": st.lists(st.integers(0, 1), max_size=140)}),
    st.fixed_dictionaries({"l": st.one_of(st.integers(1, 300), st.sampled_from([63, 64, 65, 127, 128, 129, 192, 256])), "mode": st.sampled_from(["rnd", "zeros", "zeros", "lfsr", "lfsr"]),
                           "seed": st.binary(min_size=1, max_size=3).map(bytes.hex), "z": st.integers(0, 100000)}))


def replay_override(ctx, test, case):
    f = case["f"]
    n = max(1, (f.bit_length() + ctx.x.W - 1) // ctx.x.W)
    r = ctx.x.call("ppIsIrred", wbuf(ctx.x, f, n), n, stack(ctx.x, "ppIsIrred_deep", n))
    if r != int(G.is_irred(f)):
        raise Fail("ppIsIrred(%#x): got %d" % (f, r))


def tests(tier):
    return [
        Test("pp", S_PP, run_pp, {"quick": 3000, "thorough": 60000}, CFG_Q),
        Test("ppmod", S_PPMOD, run_ppmod, {"quick": 2000, "thorough": 40000}, CFG_Q),
        Test("pp_irred", S_IRRED, run_irred, {"quick": 1000, "thorough": 20000}, CFG_Q),
        Test("pp_minpoly", S_MINPOLY, run_minpoly, {"quick": 1000, "thorough": 20000}, CFG_Q),
    ]
