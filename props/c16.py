"""C16: bign96, g12s (GOST R 34.10-2012), dstu (DSTU 4145-2002) signatures and pfok key agreement are sound.
Oracles: pyref/bign.py (bign96 part; 2^103 multiplier as the library and its vectors implement), pyref/g12s.py,
pyref/dstu.py (+ gf2x.py), pyref/pfok.py - independent models over Python ints, affine curve arithmetic."""
import os
from harness import Test, Sweep, Fail, Crash, st, GEN
from gens import expand
import pyref.bign as RB
import pyref.g12s as RG
import pyref.dstu as RD
import pyref.pfok as RP
from errs import E, name as ename

RULE = ("cases: bign96 (1 set) x d {1, 2, q-1, rnd, crafted so that S1 is small and S1 + q fits} x H {0, 1, q-1, q, q+1, 2^192-1, rnd} x OIDs x tapes (0, q, [q,p), 2^192-1 rejected; 65 rejections => ERR_BAD_RNG) x Sign/Sign2(t); "
        "g12s (8 sets) x d {1, q-1, rnd, crafted so that the first k gives s = 0} x hash {0, 1, q, 2q|q-1, 2^l-1, [q,2^l), rnd} x tapes (0, q, >= q, bits above |q| set; 65 rejections); "
        "dstu (10 curves, base point from dstuPointGen on a tape, appendix point for 163) x d {1, 2^(L(n)-1)-1, n-1, rnd} x hashes (empty, short, exact, long, 0 -> 1, only bits >= m) x e {1, max, rnd} with zero draws x "
        "ld = 16*order_no + 16*{0,1,2,3,7,40}; compress/recover on points with tr(x) = A, tr(x) != A, x = 0, xpoint in {0, 1, 2, random, >= 2^m}; "
        "pfok (test + 3 standard sets) x keys {0, 1, 2^r-1, 2^(r-1), rnd} with tape bits above r; "
        "dstu sweep: public key tied to the base point (d = 1, n - 1) x one-time keys 1..256 (96 on the long curves; 2000 thorough) x 3 hashes x 10 curves, sign then verify; "
        "alterations of every verifier input: single-bit flips of signature / hash / public key, component := 0 / order / + order / order - component, -Q, other key, x >= p, hash +- order, 0 <-> 1, other OID, other ld; "
        "the reference verifier decides: library accepts iff model accepts; public keys that are not valid (off the curve; dstu: rejected by 10.1) are not judged, except that a random bit flip / (0,0) must not verify (bign96, g12s). "
        "non-trivial: boundary key or hash, a rejected sample, any alteration, special point; distinct by (set, class tuple, altered field, verdict)")
LEVEL = "exploration"
ASSUMPTIONS = ["pyref/g12s.py, dstu.py, pfok.py, bign.py are faithful (validated on the appendix vectors quoted in the library tests; written from the standards / header docs)",
               "bign96: the multiplier is S0 + 2^103 (code and test vectors), not S0 + 2^96 (header comment)",
               "standard parameter sets only; dstu base points are generated (6.8) from fixed tapes",
               "*Verify do not check that a public key lies on the curve / has order q (documented 'expect', range check only): such keys are not judged"]
BUDGET = {"quick": 300, "thorough": 3000}
CFG = tuple(os.environ.get("VERIF_CFG", "asan").split(","))


def flip(b, bit):
    a = bytearray(b)
    a[(bit // 8) % len(a)] ^= 1 << (bit % 8)
    return bytes(a)


def cstr(x, s):
    return x.buf(s.encode() + b"\0")


def rnd_int(c, key, nbytes):
    return int.from_bytes(expand(c["seed"] + key, nbytes), "little")


# =====================================================================================================
# bign96
# =====================================================================================================

B96_NAME = "1.2.112.0.2.0.34.101.45.3.0"
OIDS = ["1.2.112.0.2.0.34.101.31.81", "1.2.112.0.2.0.34.101.77.11", "1.2.3", "2.999.4294967295.1", "0.39.127.128.16383.16384"]
TOP = RB.BIGN96_TOP_BIT_LIB


def b96_tape(c, key, q, p, good):
    t = b""
    for r in c[key]:
        if r == "zero": v = 0
        elif r == "q": v = q
        elif r == "qp": v = q + rnd_int(c, key, 8) % (p - q)
        elif r == "max": v = (1 << 192) - 1
        else: v = q + 1
        t += v.to_bytes(24, "little")
    return t + good.to_bytes(24, "little")


def run_bign96(ctx, c):
    x = ctx.x
    M = RB.std_params(96)
    q, p, n = M["q"], M["p"], 24
    P = x.out(x.call("x_c16_sizeof", 0, ret="z"))
    r = x.call("bign96ParamsStd", P, cstr(x, B96_NAME))
    if r:
        raise Fail("bign96ParamsStd failed %s" % ename(r))
    oid = RB.oid_to_der(c["oid"])
    OID = x.buf(oid)
    hv = {"zero": 0, "one": 1, "qm1": q - 1, "q": q, "qp1": q + 1, "max": (1 << 192) - 1}.get(c["h"])
    if hv is None:
        hv = rnd_int(c, "h", n)
    H = hv.to_bytes(n, "little")
    k = {"one": 1, "qm1": q - 1}.get(c["kc"]) or rnd_int(c, "k", n) % (q - 1) + 1
    # key generation from a tape
    d = {"one": 1, "two": 2, "qm1": q - 1}.get(c["d"])
    if c["d"] == "s1small":
        # S0 does not depend on d: choose d so that S1 = (k - H - (S0 + 2^103) d) mod q is a small number t; then S1 + q fits into 24 octets
        S0 = int.from_bytes(RB.sign96(oid, H, 1, k, top_bit=TOP)[:10], "little")
        d = (k - hv - rnd_int(c, "t", 12)) * pow(S0 + (1 << TOP), -1, q) % q
    if not d:
        d = rnd_int(c, "d", n) % (q - 1) + 1
    tape = b96_tape(c, "rej", q, p, d)
    dk, Qk = x.out(24), x.out(48)
    r = x.call("bign96KeypairGen", dk, Qk, P, GEN, x.tape(tape, mode=2))
    md, mQ, used = RB.keypair96_from_tape(tape + b"\xff" * (n * 70))
    if len(c["rej"]) >= 65:
        if md is not None or r != E["ERR_BAD_RNG"]:
            raise Fail("bign96KeypairGen with 65 rejected samples returned %s" % ename(r))
        ctx.nontrivial("b96_keygen_badrng", c["rej"][0])
        ctx.cls("keygen_badrng")
        ctx.sample(c)
        return
    if r:
        raise Fail("bign96KeypairGen failed: %s (rejected samples %s)" % (ename(r), c["rej"]))
    mQb = RB.point_to_octets(M, mQ)
    if dk.int() != md or Qk.read() != mQb:
        raise Fail("bign96KeypairGen: d=%x Q=%s, model d=%x Q=%s (rejected %s)" % (dk.int(), Qk.read().hex(), md, mQb.hex(), c["rej"]))
    for fn, args in (("bign96KeypairVal", [P, dk, Qk]), ("bign96PubkeyVal", [P, Qk])):
        r = x.call(fn, *args)
        if r:
            raise Fail("%s rejects the generated pair: %s (d=%x)" % (fn, ename(r), md))
    Q2 = x.out(48)
    if x.call("bign96PubkeyCalc", Q2, P, dk) or Q2.read() != mQb:
        raise Fail("bign96PubkeyCalc != KeypairGen public key (d=%x)" % md)
    if c["rej"]:
        ctx.nontrivial("b96_keygen_rej", tuple(c["rej"])[:3], c["d"])
    Qb = mQb
    # sign
    stape = b96_tape(c, "rejk", q, p, k)
    # hash and signature in separate blocks or adjacent in one block, in either order (disjoint; bign96.h refuses only an overlap)
    lay = len(c["seed"]) % 3

    def place():
        if lay == 0:
            return x.out(34), x.buf(H)
        if lay == 1:
            blk = x.buf(H + b"\xCC" * 34); return blk.at(len(H)), blk
        blk = x.buf(b"\xCC" * 34 + H); return blk, blk.at(34)
    sig, HB = place()
    r = x.call("bign96Sign", sig, P, OID, len(oid), HB, dk, GEN, x.tape(stape, mode=2))
    if r:
        raise Fail("bign96Sign failed: %s (h=%s d=%s, layout %d)" % (ename(r), c["h"], c["d"], lay))
    sig = x.buf(sig.read(0, 34))
    msig, _ = RB.sign96_from_tape(oid, H, md, stape + b"\xff" * n, top_bit=TOP)
    if sig.read() != msig:
        raise Fail("bign96Sign != model (h=%s d=%x k=%x oid=%s): %s vs %s" % (H.hex(), md, k, c["oid"], sig.read().hex(), msig.hex()))
    r = x.call("bign96Verify", P, OID, len(oid), x.buf(H), sig, Qk)
    if r:
        raise Fail("bign96Verify rejects a fresh signature: %s (h=%s d=%x k=%x)" % (ename(r), H.hex(), md, k))
    # deterministic signature
    tt = None if c["t"] is None else expand(c["seed"] + "t", c["t"])
    sig2, HB = place()
    r = x.call("bign96Sign2", sig2, P, OID, len(oid), HB, dk, x.buf(tt) if tt is not None else None, len(tt) if tt is not None else 0)
    if r:
        raise Fail("bign96Sign2 failed: %s (layout %d)" % (ename(r), lay))
    sig2 = x.buf(sig2.read(0, 34))
    msig2 = RB.sign96_2(oid, H, md, tt, top_bit=TOP)
    if sig2.read() != msig2:
        raise Fail("bign96Sign2 != model (h=%s d=%x t=%s): %s vs %s" % (H.hex(), md, c["t"], sig2.read().hex(), msig2.hex()))
    r = x.call("bign96Verify", P, OID, len(oid), x.buf(H), sig2, Qk)
    if r:
        raise Fail("bign96Verify rejects a bign96Sign2 signature: %s (h=%s d=%x)" % (ename(r), H.hex(), md))
    if c["h"] in ("zero", "q", "qp1", "max", "qm1") or c["d"] in ("one", "qm1", "s1small") or c["rejk"] or c["kc"] != "rnd":
        ctx.nontrivial("b96_sign", c["h"], c["d"], c["kc"], tuple(c["rejk"])[:2])
    # alterations, judged by the reference verifier
    alt = c["alt"]
    base = msig2 if c["bit"] & 1 and alt not in ("none", "s1pq") else msig
    fs, fH, fQ, foid = base, H, Qb, oid
    s1 = int.from_bytes(base[10:], "little")
    if alt == "sigbit": fs = flip(base, c["bit"] >> 1)
    elif alt == "s1pq":
        if s1 + q < 1 << 192: fs = base[:10] + (s1 + q).to_bytes(n, "little")
    elif alt == "s1q": fs = base[:10] + q.to_bytes(n, "little")
    elif alt == "s1max": fs = base[:10] + b"\xff" * n
    elif alt == "s1zero": fs = base[:10] + bytes(n)
    elif alt == "s0inc": fs = ((int.from_bytes(base[:10], "little") + 1) % (1 << 80)).to_bytes(10, "little") + base[10:]
    elif alt == "hbit": fH = flip(H, c["bit"] >> 1)
    elif alt == "hpq":
        hv2 = hv + q if hv + q < 1 << 192 else hv - q
        if hv2 >= 0: fH = hv2.to_bytes(n, "little")     # same residue, but H itself is hashed into S0: the model decides
    elif alt == "oid": foid = RB.oid_to_der(OIDS[(OIDS.index(c["oid"]) + 1) % len(OIDS)])
    elif alt == "oidbit": foid = oid[:-1] + bytes([oid[-1] ^ 1])
    elif alt == "qneg":
        y = int.from_bytes(Qb[n:], "little"); fQ = Qb[:n] + (p - y).to_bytes(n, "little")
    elif alt == "qother":
        d2 = md % (q - 2) + 1
        fQ = RB.point_to_octets(M, RB.pubkey_calc(M, d2 if d2 != md else 1))
    elif alt == "qbit": fQ = flip(Qb, c["bit"] >> 1)
    elif alt == "qxp":
        xv = int.from_bytes(Qb[:n], "little")
        fQ = ((xv + p) if xv + p < 1 << 192 else p).to_bytes(n, "little") + Qb[n:]
    elif alt == "qzero": fQ = bytes(2 * n)
    changed = (fs, fH, fQ, foid) != (base, H, Qb, oid)
    oid_ok = RB.oid_der_is_valid(foid)
    r = x.call("bign96Verify", P, x.buf(foid), len(foid), x.buf(fH), x.buf(fs), x.buf(fQ))
    on_curve = RB.pubkey_val(M, fQ)
    if oid_ok and on_curve:
        mv = RB.verify96(foid, fH, fs, fQ, top_bit=TOP)
        if (r == 0) != mv:
            raise Fail("bign96Verify verdict %s on alteration %s, reference verifier says %s (oid=%s hash=%s sig=%s pubkey=%s)" %
                       (ename(r), alt, "accept" if mv else "reject", foid.hex(), fH.hex(), fs.hex(), fQ.hex()))
    elif oid_ok and not on_curve:
        # not a curve point: the header only promises a range check (ERR_BAD_PUBKEY); a random / trivial alteration must still not verify
        if r == 0:
            raise Fail("bign96Verify accepts a signature under the altered public key (%s) %s that is not a curve point" % (alt, fQ.hex()))
    if changed:
        ctx.nontrivial("b96_alt", alt, r == 0, on_curve)
    ctx.cls("alt_" + alt, "h_" + c["h"], "d_" + c["d"])
    ctx.sample(c)


REJ96 = st.lists(st.sampled_from(["zero", "q", "qp", "max", "qp1"]), max_size=3)
SEED = st.binary(min_size=1, max_size=4).map(bytes.hex)
S_BIGN96 = st.fixed_dictionaries({
    "seed": SEED, "oid": st.sampled_from(OIDS),
    "d": st.sampled_from(["rnd", "rnd", "one", "two", "qm1", "s1small", "s1small"]), "h": st.sampled_from(["rnd", "rnd", "zero", "one", "qm1", "q", "qp1", "max"]),
    "kc": st.sampled_from(["rnd", "rnd", "one", "qm1"]),
    "rej": st.one_of(*[REJ96] * 11, st.sampled_from([["q"] * 64, ["max"] * 65, ["zero"] * 64, ["zero"] * 65])), "rejk": REJ96,
    "t": st.sampled_from([None, 0, 1, 24, 32, 100]),
    "alt": st.sampled_from(["sigbit", "sigbit", "s1pq", "s1pq", "s1q", "s1max", "s1zero", "s0inc", "hbit", "hbit", "hpq", "oid", "oidbit", "qneg", "qother", "qbit", "qbit",
                            "qxp", "qzero", "none"]),
    "bit": st.integers(0, 2000)})


# =====================================================================================================
# g12s
# =====================================================================================================

G_NAMES = list(RG.PARAMS)


def g12s_params(x, name, M):
    prm = x.out(x.call("x_c16_sizeof", 1, ret="z"))
    r = x.call("g12sParamsStd", prm, cstr(x, name))
    if r:
        raise Fail("g12sParamsStd(%s) failed %s" % (name, ename(r)))
    fl = x.out(412)
    x.call("x_c16_g12s_flat", fl, prm, ret="v")
    raw = fl.read()
    i = lambda a, ln: int.from_bytes(raw[a:a + ln], "little")
    no = M.no
    got = (i(0, 4), i(4, 68 * M.l // 512), i(72, no), i(140, no), i(208, 64 * M.l // 512), i(272, 4), i(276, no), i(344, no))
    if got != (M.l, M.p, M.a, M.b, M.q, M.n, M.P[0], M.P[1]):
        raise Fail("g12sParamsStd(%s): parameters differ from the published set: %r" % (name, got))
    return prm


def g_chunk(c, key, i, kind, q, ql, qo):
    if kind == "zero": v = 0
    elif kind == "q": v = q
    elif kind == "max": v = (1 << ql) - 1
    elif kind == "geq": v = q + rnd_int(c, key + "g%d" % i, qo) % ((1 << ql) - q)
    else: v = (1 << ql) if ql % 8 else 0           # only bits above |q| set: trimmed to 0
    return v.to_bytes(qo, "little")


def g_good(c, key, v, ql, qo):
    if c["hig"] and ql % 8:
        v |= (rnd_int(c, key + "hi", 1) >> (ql % 8)) << ql      # bits above |q| in an accepted draw must be ignored
    return v.to_bytes(qo, "little")


def run_g12s(ctx, c):
    x = ctx.x
    name = G_NAMES[c["set"]]
    M = RG.PARAMS[name]
    q, p, mo, no = M.q, M.p, M.mo, M.no
    ql = q.bit_length()
    qo = (ql + 7) // 8
    prm = g12s_params(x, name, M)
    # hash (big-endian number)
    hv = {"zero": 0, "one": 1, "q": q, "ones": (1 << (8 * mo)) - 1, "2q": 2 * q if 2 * q < 1 << (8 * mo) else q - 1}.get(c["h"])
    if hv is None:
        hv = rnd_int(c, "h", mo)
        if c["h"] == "geq":
            hv = q + hv % ((1 << (8 * mo)) - q)
    H = hv.to_bytes(mo, "big")
    e = RG.hash_to_e(M, H)
    k = {"one": 1, "qm1": q - 1}.get(c["kc"]) or rnd_int(c, "k", mo) % (q - 1) + 1
    k2 = rnd_int(c, "k2", mo) % (q - 1) + 1
    # private key
    d = {"one": 1, "qm1": q - 1}.get(c["d"])
    crafted = False
    if c["d"] == "s0":
        # r d + k e = 0 (mod q) for the first k: the standard (6.1 step 5) returns to step 3 and draws another k
        r0 = RG.ec_mul(M, k, M.P)[0] % q
        d = (-k * e * pow(r0, -1, q)) % q if r0 else 0
        crafted = d != 0
    if not d:
        d = rnd_int(c, "d", mo) % (q - 1) + 1
    # key generation from a tape
    tape = b"".join(g_chunk(c, "rej", i, kd, q, ql, qo) for i, kd in enumerate(c["rej"])) + g_good(c, "d", d, ql, qo)
    priv, pub = x.out(mo), x.out(2 * no)
    r = x.call("g12sKeypairGen", priv, pub, prm, GEN, x.tape(tape, mode=2))
    mk = RG.keypair_from_tape(M, tape + b"\xff" * (qo * 70))
    if len(c["rej"]) >= 65:
        if mk is not None or r != E["ERR_BAD_RNG"]:
            raise Fail("g12sKeypairGen(%s) with 65 rejected samples returned %s" % (name, ename(r)))
        ctx.nontrivial("g12s_keygen_badrng", c["set"], c["rej"][0])
        ctx.cls("keygen_badrng")
        ctx.sample(c)
        return
    if r:
        raise Fail("g12sKeypairGen(%s) failed: %s (tape %s)" % (name, ename(r), tape.hex()))
    if (priv.read(), pub.read()) != mk:
        raise Fail("g12sKeypairGen(%s) tape=%s: d=%s Q=%s, model d=%s Q=%s" % (name, tape.hex(), priv.read().hex(), pub.read().hex(), mk[0].hex(), mk[1].hex()))
    if c["rej"]:
        ctx.nontrivial("g12s_keygen_rej", c["set"], tuple(c["rej"])[:3], c["d"])
    privb, Qb = mk
    # sign
    stape = b"".join(g_chunk(c, "rejk", i, kd, q, ql, qo) for i, kd in enumerate(c["rejk"])) + g_good(c, "k", k, ql, qo) + k2.to_bytes(qo, "little")
    sig = x.out(2 * mo)
    r = x.call("g12sSign", sig, prm, x.buf(H), priv, GEN, x.tape(stape, mode=2))
    msig = RG.sign_from_tape(M, H, privb, stape + b"\xff" * (qo * 70))
    if r or sig.read() != msig:
        raise Fail("g12sSign(%s) hash=%s d=%s tape=%s: %s %s, model %s%s" % (name, H.hex(), privb.hex(), stape.hex(), ename(r), sig.read().hex(), msig.hex(),
                                                                             " (d crafted: s = 0 for the first k)" if crafted else ""))
    r = x.call("g12sVerify", prm, x.buf(H), sig, pub)
    if r:
        raise Fail("g12sVerify(%s) rejects a fresh signature: %s (hash=%s d=%s sig=%s)" % (name, ename(r), H.hex(), privb.hex(), msig.hex()))
    if c["h"] not in ("rnd",) or c["d"] != "rnd" or c["rejk"] or c["kc"] != "rnd":
        ctx.nontrivial("g12s_sign", c["set"], c["h"], c["d"], c["kc"], tuple(c["rejk"])[:2])
    # alterations
    alt = c["alt"]
    fs, fH, fQ = msig, H, Qb
    ri, si = int.from_bytes(msig[:mo], "big"), int.from_bytes(msig[mo:], "big")
    top = 1 << (8 * mo)

    def rs(r2, s2):
        return RG.sig_enc(M, r2, s2) if 0 <= r2 < top and 0 <= s2 < top else msig

    if alt == "sigbit": fs = flip(msig, c["bit"])
    elif alt == "r0": fs = rs(0, si)
    elif alt == "s0": fs = rs(ri, 0)
    elif alt == "rq": fs = rs(q, si)
    elif alt == "sq": fs = rs(ri, q)
    elif alt == "rpq": fs = rs(ri + q, si)
    elif alt == "spq": fs = rs(ri, si + q)
    elif alt == "rneg": fs = rs(q - ri, si)
    elif alt == "sneg": fs = rs(ri, q - si)
    elif alt == "hbit": fH = flip(H, c["bit"])
    elif alt == "hpq":
        hv2 = hv + q if hv + q < top else hv - q         # same e: must still verify
        if hv2 >= 0: fH = hv2.to_bytes(mo, "big")
    elif alt == "h01":
        if hv % q == 0: fH = (1).to_bytes(mo, "big")     # e = 0 -> 1
        elif hv % q == 1: fH = bytes(mo) if c["bit"] & 1 else q.to_bytes(mo, "big")
    elif alt == "qneg":
        Q = RG.pubkey_dec(M, Qb); fQ = RG.pubkey_enc(M, (Q[0], (p - Q[1]) % p))
    elif alt == "qother":
        d2 = d % (q - 2) + 1
        fQ = RG.pubkey_calc(M, d2 if d2 != d else 1)
    elif alt == "qbit": fQ = flip(Qb, c["bit"])
    elif alt == "qxp":
        xv = int.from_bytes(Qb[:no], "little")
        fQ = ((xv + p) if xv + p < 1 << (8 * no) else p).to_bytes(no, "little") + Qb[no:]
    elif alt == "qzero": fQ = bytes(2 * no)
    changed = (fs, fH, fQ) != (msig, H, Qb)
    r = x.call("g12sVerify", prm, x.buf(fH), x.buf(fs), x.buf(fQ))
    on_curve = RG.pubkey_dec(M, fQ) is not None
    if on_curve:
        mv = RG.verify(M, fH, fs, fQ)
        if (r == 0) != mv:
            raise Fail("g12sVerify(%s) verdict %s on alteration %s, reference verifier says %s (hash=%s sig=%s pubkey=%s)" %
                       (name, ename(r), alt, "accept" if mv else "reject", fH.hex(), fs.hex(), fQ.hex()))
    elif r == 0:
        raise Fail("g12sVerify(%s) accepts a signature under the altered public key (%s) %s that is not a curve point" % (name, alt, fQ.hex()))
    if changed:
        ctx.nontrivial("g12s_alt", c["set"], alt, r == 0, on_curve)
    ctx.cls("alt_" + alt, "set%d" % c["set"], "h_" + c["h"], "d_" + c["d"])
    ctx.sample(c)


REJG = st.lists(st.sampled_from(["zero", "q", "max", "geq", "hi0"]), max_size=3)
S_G12S = st.fixed_dictionaries({
    "set": st.sampled_from([0, 1, 2, 3, 4, 0, 1, 2, 3, 4, 5, 6, 7]), "seed": SEED,
    "d": st.sampled_from(["rnd", "rnd", "one", "qm1", "s0"]), "h": st.sampled_from(["rnd", "rnd", "zero", "one", "q", "2q", "ones", "geq"]),
    "kc": st.sampled_from(["rnd", "rnd", "one", "qm1"]), "hig": st.booleans(),
    "rej": st.one_of(*[REJG] * 11, st.sampled_from([["zero"] * 64, ["max"] * 65, ["zero"] * 65])), "rejk": REJG,
    "alt": st.sampled_from(["sigbit", "sigbit", "sigbit", "r0", "s0", "rq", "sq", "rpq", "rpq", "spq", "spq", "rneg", "sneg", "hbit", "hbit", "hpq", "h01",
                            "qneg", "qother", "qbit", "qbit", "qxp", "qzero", "none"]),
    "bit": st.integers(0, 4000)})


# =====================================================================================================
# dstu
# =====================================================================================================

D_NAMES = list(RD.PARAMS)
_BP = {}        # (curve, bp) -> (tape, model base point octets): the model's 6.8 is slow, computed once per process


def dstu_bp(ci, bp):
    """tape for dstuPointGen and the base point that section 6.8 produces from it"""
    key = (ci, bp)
    if key not in _BP:
        M0 = RD.PARAMS[D_NAMES[ci]]
        tape = expand("c16-dstu-base-%d-%d" % (ci, bp), M0.no * 200)
        if bp == 1:
            # the first candidate is rejected: x = 0 gives the point (0, sqrt(B)) of order 2
            tape = bytes(M0.no) + tape
        _BP[key] = (tape, RD.point_gen(M0, tape))
    return _BP[key]


def dstu_params(ctx, ci, bp, check_model=True):
    """standard curve + base point generated by dstuPointGen as dstu.h prescribes (curve 163 with bp = 0: appendix B point)"""
    x = ctx.x
    name = D_NAMES[ci]
    M0 = RD.PARAMS[name]
    no = M0.no
    prm = x.out(x.call("x_c16_sizeof", 2, ret="z"))
    r = x.call("dstuParamsStd", prm, cstr(x, name))
    if r:
        raise Fail("dstuParamsStd(%s) failed %s" % (name, ename(r)))
    fl = x.out(269)
    x.call("x_c16_dstu_flat", fl, prm, ret="v")
    raw = fl.read()
    got = (tuple(int.from_bytes(raw[2 * i:2 * i + 2], "little") for i in range(4)), raw[8], int.from_bytes(raw[9:9 + no], "little"),
           int.from_bytes(raw[73:73 + no], "little"), int.from_bytes(raw[137:141], "little"))
    if got != (M0.p, M0.A, M0.B, M0.n, M0.c):
        raise Fail("dstuParamsStd(%s): parameters differ from table G.2: %r" % (name, got))
    if M0.P is not None and bp == 0:
        if raw[141:141 + 2 * no] != RD.point_enc(M0, M0.P):
            raise Fail("dstuParamsStd(%s): base point differs from appendix B" % name)
        M = M0
    else:
        if check_model:
            tape, mp = dstu_bp(ci, bp)
        else:
            tape, mp = expand("c16-dstu-base-%d-%d" % (ci, bp), no * 200), None
        pt = x.out(2 * no)
        r = x.call("dstuPointGen", pt, prm, GEN, x.tape(tape, mode=0))
        if r:
            raise Fail("dstuPointGen(%s) failed: %s" % (name, ename(r)))
        if mp is not None and pt.read() != mp:
            raise Fail("dstuPointGen(%s) tape=%s...: %s, model (6.8) %s" % (name, tape[:3 * no].hex(), pt.read().hex(), mp.hex()))
        if RD.point_dec(M0, pt.read()) is None or not RD.on_curve(M0, RD.point_dec(M0, pt.read())):
            raise Fail("dstuPointGen(%s) tape=%s...: %s is not a point of the curve" % (name, tape[:3 * no].hex(), pt.read().hex()))
        x.call("x_c16_dstu_set_P", prm, pt, 2 * no, ret="v")
        M = M0.with_base(RD.point_dec(M0, pt.read()))
        if mp is not None and bp == 1:
            ctx.nontrivial("dstu_pointgen_rej", ci)
    r = x.call("dstuParamsVal", prm)
    if r:
        raise Fail("dstuParamsVal(%s) rejects the standard curve with a generated base point: %s" % (name, ename(r)))
    return prm, M


def d_chunk(c, key, v, M):
    """one draw of 6.3: order_no octets; bits from L(n) - 1 upwards are dropped by the library"""
    keep = M.order_nb - 1
    if c["hig"]:
        v |= (rnd_int(c, key + "hi", M.order_no) >> keep) << keep
    return v.to_bytes(M.order_no, "little")


def d_rej(kind, M):
    return bytes(M.order_no) if kind == "zero" else (1 << (M.order_nb - 1)).to_bytes(M.order_no, "little")     # "top": trimmed to 0


def run_dstu(ctx, c):
    x = ctx.x
    ci = c["curve"]
    prm, M = dstu_params(ctx, ci, c["bp"])
    name, no, ono, onb, n, m = M.name, M.no, M.order_no, M.order_nb, M.n, M.m
    hi = (1 << (onb - 1)) - 1
    # key generation (section 9)
    dk = {"one": 1, "hi": hi}.get(c["d"]) or rnd_int(c, "d", ono) % hi + 1
    tape = b"".join(d_rej(kd, M) for kd in c["rej"]) + d_chunk(c, "d", dk, M)
    priv, pub = x.out(ono), x.out(2 * no)
    tp = x.tape(tape, mode=0)
    r = x.call("dstuKeypairGen", priv, pub, prm, GEN, tp)
    mk = RD.keypair_from_tape(M, tape)
    if r or (priv.read(), pub.read()) != mk or int.from_bytes(tp.read(0, 8), "little") != len(tape):
        raise Fail("dstuKeypairGen(%s) tape=%s: %s d=%s Q=%s read %d, model d=%s Q=%s" %
                   (name, tape.hex(), ename(r), priv.read().hex(), pub.read().hex(), int.from_bytes(tp.read(0, 8), "little"), mk[0].hex(), mk[1].hex()))
    if c["rej"]:
        ctx.nontrivial("dstu_keygen_rej", ci, tuple(c["rej"]), c["d"])
    privb, Qb = mk
    d = dk
    if c["d"] == "nm1":
        # n - 1 is not reachable by 6.3 (L(n) - 1 bits) but is an admissible private key of dstuSign (0 < d < n)
        d = n - 1
        privb, Qb = RD.privkey_enc(M, d), RD.pubkey_calc(M, d)
    r = x.call("dstuPointVal", prm, x.buf(Qb))
    if r:
        raise Fail("dstuPointVal(%s) rejects the public key %s of d=%x: %s" % (name, Qb.hex(), d, ename(r)))
    # hash
    hk = c["h"]
    H = {"empty": b"", "zero32": bytes(32), "ones64": b"\xff" * 64, "one": b"\x01", "topbit": bytes(no - 1) + bytes([(1 << (m % 8)) & 0xFF]),
         "short": expand(c["seed"] + "h", no - 1), "exact": expand(c["seed"] + "h", no), "long": expand(c["seed"] + "h", no + 5)}.get(hk)
    if H is None:
        H = expand(c["seed"] + "h", 32)
    # sign with every ld of the case
    ek = {"one": 1, "hi": hi}.get(c["ec"]) or rnd_int(c, "e", ono) % hi + 1
    e2 = rnd_int(c, "e2", ono) % hi + 1
    stape = b"".join(d_rej(kd, M) for kd in c["rejk"]) + d_chunk(c, "e", ek, M) + e2.to_bytes(ono, "little")
    if c["d"] == "szero" and not c["rejk"]:
        # a private key for which the first one-time key gives s = e + d r = 0 (mod n): the standard restarts with the next one-time key
        F1 = RD.ec_mul(M, ek, M.P)
        r1 = RD.felem_to_int(M, RD.f_mul(M, RD.hash_to_felem(M, H), F1[0])) if F1 is not None and F1[0] else 0
        if r1 % n:
            d = (-ek * pow(r1, -1, n)) % n
            if 0 < d < n:
                privb, Qb = RD.privkey_enc(M, d), RD.pubkey_calc(M, d)
                if RD.sign_e(M, 16 * ono, H, privb, ek) is not None:
                    raise RuntimeError("construction of s = 0 failed")
                ctx.cls("dstu_s_zero_restart")
    lds = sorted(set(16 * ono + 16 * k for k in [0] + c["lds"]))
    msig0 = RD.sign(M, lds[0], H, privb, stape)
    half0 = lds[0] // 16
    ri, si = int.from_bytes(msig0[:half0], "little"), int.from_bytes(msig0[half0:], "little")
    PRIV, PUB, HB = x.buf(privb), x.buf(Qb), x.buf(H)
    for ld in lds:
        sig = x.buf(b"\xCC" * (ld // 8))
        r = x.call("dstuSign", sig, prm, ld, HB, len(H), PRIV, GEN, x.tape(stape, mode=0))
        ms = RD.sig_enc(M, ld, ri, si)
        if r or sig.read() != ms:
            raise Fail("dstuSign(%s) ld=%d hash=%s d=%s tape=%s: %s %s, model %s" % (name, ld, H.hex(), privb.hex(), stape.hex(), ename(r), sig.read().hex(), ms.hex()))
        r = x.call("dstuVerify", prm, ld, HB, len(H), sig, PUB)
        if r:
            raise Fail("dstuVerify(%s) rejects a fresh signature: %s (ld=%d hash=%s d=%s sig=%s)" % (name, ename(r), ld, H.hex(), privb.hex(), ms.hex()))
    if hk != "rnd32" or c["d"] != "rnd" or c["ec"] != "rnd" or c["rejk"] or len(lds) > 1:
        ctx.nontrivial("dstu_sign", ci, hk, c["d"], c["ec"], tuple(c["rejk"]), tuple(c["lds"]))
    # alterations
    alt = c["alt"]
    ld = lds[c["ldi"] % len(lds)]
    half = ld // 16
    msig = RD.sig_enc(M, ld, ri, si)
    fld, fs, fH, fQ = ld, msig, H, Qb
    key_known_valid = True          # the genuine key and its negative have order n
    top = 1 << (8 * half)

    def rs(r2, s2):
        return RD.sig_enc(M, ld, r2, s2) if 0 <= r2 < top and 0 <= s2 < top else msig

    if alt == "sigbit": fs = flip(msig, c["bit"])
    elif alt == "padbit":
        if half > ono:       # the octets between order_no and ld / 16 must stay zero
            a = bytearray(msig); a[(ono + c["bit"] % (half - ono)) + (half if c["bit"] & 1 else 0)] ^= 1 << ((c["bit"] >> 1) % 8); fs = bytes(a)
    elif alt == "r0": fs = rs(0, si)
    elif alt == "s0": fs = rs(ri, 0)
    elif alt == "rn": fs = rs(n, si)
    elif alt == "sn": fs = rs(ri, n)
    elif alt == "rpn": fs = rs(ri + n, si)
    elif alt == "spn": fs = rs(ri, si + n)
    elif alt == "sneg": fs = rs(ri, n - si)
    elif alt == "hbit":
        if H: fH = flip(H, c["bit"])
    elif alt == "hsame":
        # other octet strings that denote the same field element (5.9): the signature stays valid
        hv = int.from_bytes(H, "little")
        if len(H) >= no: fH = (hv & ((1 << m) - 1)).to_bytes(no, "little") + (b"\xA5" if c["bit"] & 1 else b"")
        else: fH = H + bytes(1 + c["bit"] % (no + 2 - len(H)))
    elif alt == "h01":
        if RD.hash_to_felem(M, H) == 1: fH = b"\x01" if int.from_bytes(H, "little") & ((1 << m) - 1) == 0 else bytes(no)
    elif alt == "ldother":
        lds2 = [l for l in (16 * ono, 16 * ono + 16, 16 * ono + 48) if l != ld]
        fld = lds2[c["bit"] % len(lds2)]
        fs = RD.sig_enc(M, fld, ri, si) if c["bit"] & 4 else (msig + bytes(64))[:fld // 8]     # same (r, s) re-coded / same octets re-read
    elif alt == "qneg": fQ = RD.point_enc(M, RD.ec_neg(M, RD.point_dec(M, Qb)))
    elif alt == "qother": fQ = RD.pubkey_calc(M, d % hi + 1)
    elif alt == "qbit": fQ = flip(Qb, c["bit"]); key_known_valid = False
    elif alt == "qt2":
        T2 = (0, RD.f_sqrt(M, M.B))
        fQ = RD.point_enc(M, RD.ec_add(M, RD.point_dec(M, Qb), T2)); key_known_valid = None       # on the curve, order 2n: 10.1 rejects it
    changed = (fld, fs, fH, fQ) != (ld, msig, H, Qb)
    r = x.call("dstuVerify", prm, fld, x.buf(fH), len(fH), x.buf(fs), x.buf(fQ))
    judged = key_known_valid or (key_known_valid is not None and RD.point_val(M, fQ))
    if judged:
        # the key is valid (10.1): the verdict is that of sections 12/13
        mv = RD.verify(M, fld, fH, fs, fQ, check_pubkey=False)
        if (r == 0) != mv:
            raise Fail("dstuVerify(%s) verdict %s on alteration %s, reference verifier says %s (ld=%d hash=%s sig=%s pubkey=%s)" %
                       (name, ename(r), alt, "accept" if mv else "reject", fld, fH.hex(), fs.hex(), fQ.hex()))
    else:
        # dstuVerify only range-checks the key ('expect'): a key that 10.1 rejects is not judged, the call must only return
        ctx.cls("pubkey_invalid_not_judged")
    if changed:
        ctx.nontrivial("dstu_alt", ci, alt, r == 0, judged)
    # every octet of the zero padding between order_no and ld / 16, in both halves: a bit set there is an alteration of the signature (rejected before any curve arithmetic)
    for ld2 in lds:
        h2 = ld2 // 16
        if h2 == ono:
            continue
        ms2 = RD.sig_enc(M, ld2, ri, si)
        pos = sorted(set(list(range(ono, min(h2, ono + 3))) + [h2 - 1]))
        for j in pos:
            for hf in (0, h2):
                a = bytearray(ms2); a[j + hf] ^= 1 << ((c["bit"] + j) % 8)
                r = x.call("dstuVerify", prm, ld2, HB, len(H), x.buf(bytes(a)), PUB)
                if r == 0:
                    raise Fail("dstuVerify(%s) accepts a signature with bit set in padding octet %d of the %s half (ld=%d order_no=%d hash=%s sig=%s pubkey=%s)" %
                               (name, j, "s" if hf else "r", ld2, ono, H.hex(), bytes(a).hex(), Qb.hex()))
                ctx.count(1)
        ctx.nontrivial("dstu_pad", ci, ld2)
    ctx.cls("alt_" + alt, "curve%d" % m, "h_" + hk, "d_" + c["d"])
    ctx.sample(c)


REJD = st.lists(st.sampled_from(["zero", "top"]), max_size=2)
CURVES = [0, 0, 0, 0, 0, 0, 1, 1, 1, 2, 2, 2, 3, 3, 3, 4, 4, 4, 5, 5, 6, 6, 7, 7, 8, 8, 9]
S_DSTU = st.fixed_dictionaries({
    "curve": st.sampled_from(CURVES), "bp": st.sampled_from([0, 0, 0, 1]), "seed": SEED,
    "d": st.sampled_from(["rnd", "rnd", "one", "hi", "nm1", "szero"]), "ec": st.sampled_from(["rnd", "rnd", "one", "hi"]), "hig": st.booleans(),
    "h": st.sampled_from(["rnd32", "rnd32", "empty", "zero32", "ones64", "one", "topbit", "short", "exact", "long"]),
    "rej": REJD, "rejk": REJD, "lds": st.lists(st.sampled_from([1, 2, 3, 7, 40]), max_size=2, unique=True), "ldi": st.integers(0, 2),
    "alt": st.sampled_from(["sigbit", "sigbit", "sigbit", "padbit", "r0", "s0", "rn", "sn", "rpn", "spn", "sneg", "hbit", "hbit", "hsame", "h01", "ldother",
                            "qneg", "qother", "qbit", "qt2", "none"]),
    "bit": st.integers(0, 4000)})


def rand_point(c, M, want_sub):
    """a point of the curve with tr(x) = A (want_sub: these are the doubles 2E, which contain the subgroup of order n) or tr(x) != A"""
    i = 0
    while True:
        u = rnd_int(c, "pt%d" % i, M.no) & ((1 << M.m) - 1)
        i += 1
        if u == 0 or (RD.trace(M, u) == M.A) != want_sub:
            continue
        u2 = RD.f_sqr(M, u)
        z = RD.qsolve(M, u, RD.f_mul(M, u2, u) ^ (u2 if M.A else 0) ^ M.B)
        if z is None:
            continue
        return (u, z ^ u if c["bit"] & 1 else z)


def run_dstu_point(ctx, c):
    x = ctx.x
    ci = c["curve"]
    prm, M = dstu_params(ctx, ci, 0, check_model=False)
    name, no, m = M.name, M.no, M.m
    kind = c["kind"]
    if kind != "xp":
        # compress / recover of a curve point
        if kind == "x0": pt = (0, RD.f_sqrt(M, M.B))
        elif kind == "base": pt = M.P
        else: pt = rand_point(c, M, kind == "sub")
        if not RD.on_curve(M, pt):
            raise RuntimeError("generator: point not on the curve")
        enc = RD.point_enc(M, pt)
        xp = x.buf(b"\xCC" * no)
        r = x.call("dstuPointCompress", xp, prm, x.buf(enc))
        mc = RD.point_compress(M, enc)
        if r or xp.read() != mc:
            raise Fail("dstuPointCompress(%s) %s point=%s: %s %s, model (6.9) %s" % (name, kind, enc.hex(), ename(r), xp.read().hex(), mc.hex()))
        out = x.buf(b"\xCC" * (2 * no))
        r = x.call("dstuPointRecover", out, prm, xp)
        mr = RD.point_recover(M, mc)
        if kind in ("sub", "x0", "base") and mr != enc:
            raise RuntimeError("model: recover(compress(P)) != P for %s" % enc.hex())
        if (r == 0) != (mr is not None) or (mr is not None and out.read() != mr):
            raise Fail("dstuPointRecover(%s) xpoint=%s (compressed %s point %s): %s %s, model (6.10) %s" %
                       (name, mc.hex(), kind, enc.hex(), ename(r), out.read().hex() if r == 0 else "", mr.hex() if mr else None))
        if kind in ("sub", "x0", "base") and out.read() != enc:
            raise Fail("dstuPointRecover(dstuPointCompress(P)) != P on %s: P=%s, got %s" % (name, enc.hex(), out.read().hex()))
        if c["inplace"] and kind != "nonsub":
            # "point and xpoint may overlap": in-place round trip
            b = x.buf(enc)
            r1 = x.call("dstuPointCompress", b, prm, b)
            r2 = x.call("dstuPointRecover", b, prm, b)
            if r1 or r2 or b.read() != enc:
                raise Fail("in-place dstuPointCompress/Recover(%s) of %s: %s %s %s" % (name, enc.hex(), ename(r1), ename(r2), b.read().hex()))
        ctx.nontrivial("dstu_pt", ci, kind, pt[0] & 1, RD.trace(M, RD.f_div(M, pt[1], pt[0])) if pt[0] else 2)
    else:
        # recovery from an arbitrary octet string: an error, or the point that 6.10 defines (which lies on the curve)
        xk = c["xk"]
        v = {"zero": 0, "one": 1, "two": 2, "three": 3, "max": (1 << (8 * no)) - 1, "hibit": 1 << m, "allm": (1 << m) - 1}.get(xk)
        if v is None:
            v = rnd_int(c, "xp", no) & ((1 << m) - 1)
            if xk == "rndhi":
                v |= 1 << (m + c["bit"] % (8 * no - m))
        xpb = v.to_bytes(no, "little")
        out = x.buf(b"\xCC" * (2 * no))
        r = x.call("dstuPointRecover", out, prm, x.buf(xpb))
        mr = RD.point_recover(M, xpb)
        if r == 0:
            got = RD.point_dec(M, out.read())
            if got is None or not RD.on_curve(M, got):
                raise Fail("dstuPointRecover(%s) xpoint=%s returns %s, which is not a point of the curve" % (name, xpb.hex(), out.read().hex()))
        if (r == 0) != (mr is not None) or (mr is not None and out.read() != mr):
            raise Fail("dstuPointRecover(%s) xpoint=%s: %s %s, model (6.10) %s" % (name, xpb.hex(), ename(r), out.read().hex() if r == 0 else "", mr.hex() if mr else None))
        ctx.nontrivial("dstu_xp", ci, xk, r == 0)
    ctx.cls("pt_" + kind + ("_" + c["xk"] if kind == "xp" else ""), "curve%d" % m)
    ctx.sample(c)


def tied_one(ctx, case):
    """public key tied to the base point (d = 1: Q = -P, d = n - 1: Q = P) and a small one-time key: the verifier's running sum r Q + s P meets +-P / +-Q with
    Z != 1, the equal / opposite branches of the mixed addition.  Oracle: the signature dstuSign has just produced verifies (no model needed)."""
    x = ctx.x
    ci, dsel, e, hv = case["curve"], case["d"], case["e"], case["h"]
    prm, M = dstu_params(ctx, ci, 0, check_model=False)
    n, ono, no = M.n, M.order_no, M.no
    d = 1 if dsel == 0 else n - 1
    key = (M.name, dsel, RD.point_enc(M, M.P))
    if key not in _TIED:
        if len(_TIED) > 64:
            _TIED.clear()
        _TIED[key] = (RD.privkey_enc(M, d), RD.pubkey_calc(M, d))
    privb, Qb = _TIED[key]
    H = expand("tied%d" % hv, 32) if hv else bytes(31) + b"\x01"
    ld = 16 * ono
    sig = x.out(ld // 8)
    tape = e.to_bytes(ono, "little") + expand("tied-next%d" % e, ono)
    r = x.call("dstuSign", sig, prm, ld, x.buf(H), len(H), x.buf(privb), GEN, x.tape(tape, mode=0))
    if r:
        raise Fail("dstuSign(%s) d=%s one-time key %d: %s" % (M.name, "1" if dsel == 0 else "n-1", e, ename(r)))
    r = x.call("dstuVerify", prm, ld, x.buf(H), len(H), sig, x.buf(Qb))
    if r:
        raise Fail("dstuVerify(%s) rejects the signature dstuSign has just produced: %s (d=%s, one-time key %d, hash %s, sig %s)" %
                   (M.name, ename(r), "1" if dsel == 0 else "n-1", e, H.hex(), sig.read().hex()))
    ctx.count(1)


_TIED = {}


def sweep_dstu_tied(ctx, part, nparts):
    NE = 256 if ctx.tier == "quick" else 2000
    j = 0
    for ci in range(10):
        if ci >= 5 and ctx.tier == "quick":
            NE = 96                     # the long curves cost more per signature
        for dsel in (0, 1):
            for hv in (0, 1, 2):
                j += 1
                if j % nparts != part:
                    continue
                ctx.x.reset()
                for e in range(1, NE + 1):
                    case = {"curve": ci, "d": dsel, "e": e, "h": hv}
                    try:
                        tied_one(ctx, case)
                    except (Fail, Crash) as ex:
                        ex.case = case
                        raise
                ctx.cls("tied_curve%d_d%s" % (ci, "1" if dsel == 0 else "nm1"))
                ctx.nontrivial("dstu_tied", ci, dsel, hv)
    if part == 0:
        ctx.sample({"sweep": "d in {1, n-1} x one-time keys 1..E x 3 hashes x 10 curves"})


def replay_override(ctx, test, case):
    tied_one(ctx, case)


S_DSTU_POINT = st.fixed_dictionaries({
    "curve": st.sampled_from(CURVES + [5, 6, 7, 8, 9]), "seed": SEED, "kind": st.sampled_from(["sub", "sub", "sub", "nonsub", "x0", "base", "xp", "xp", "xp"]),
    "xk": st.sampled_from(["rnd", "rnd", "rnd", "rndhi", "zero", "one", "two", "three", "max", "hibit", "allm"]), "inplace": st.booleans(), "bit": st.integers(0, 4000)})


# =====================================================================================================
# pfok
# =====================================================================================================

P_NAMES = list(RP.PARAMS)


def pfok_params(x, name, M):
    prm = x.out(x.call("x_c16_sizeof", 3, ret="z"))
    r = x.call("pfokParamsStd", prm, None, cstr(x, name))
    if r:
        raise Fail("pfokParamsStd(%s) failed %s" % (name, ename(r)))
    fl = x.out(760)
    x.call("x_c16_pfok_flat", fl, prm, ret="v")
    raw = fl.read()
    i = lambda a, ln: int.from_bytes(raw[a:a + ln], "little")
    got = (i(0, 8), i(8, 8), i(16, 8), i(24, 368), i(392, 368))
    if got != (M.l, M.r, M.n, M.p, M.g):
        raise Fail("pfokParamsStd(%s): parameters differ from the published set" % name)
    return prm


def run_pfok(ctx, c):
    x = ctx.x
    name = P_NAMES[c["set"]]
    M = RP.PARAMS[name]
    prm = pfok_params(x, name, M)
    lo, ro, ko, rb = M.lo, M.ro, M.no, M.r
    keys = []
    for who in ("xa", "xb", "ua", "ub"):
        d = {"zero": 0, "one": 1, "two": 2, "max": (1 << rb) - 1, "msb": 1 << (rb - 1)}.get(c[who])
        if d is None:
            d = rnd_int(c, who, ro) & ((1 << rb) - 1)
        t = d
        if c["hig"] and 8 * ro > rb:
            t |= (rnd_int(c, who + "hi", ro) >> rb) << rb          # bits above r in the generator output are dropped
        tape = t.to_bytes(ro, "little")
        priv, pub = x.out(ro), x.buf(b"\xCC" * lo)
        r = x.call("pfokKeypairGen", priv, pub, prm, GEN, x.tape(tape, mode=0))
        mk = RP.keypair_from_tape(M, tape)
        if r or (priv.read(), pub.read()) != mk:
            raise Fail("pfokKeypairGen(%s) tape=%s: %s x=%s y=%s, model x=%s y=%s" % (name, tape.hex(), ename(r), priv.read().hex(), pub.read().hex(), mk[0].hex(), mk[1].hex()))
        r = x.call("pfokPubkeyVal", prm, pub)
        if r:
            raise Fail("pfokPubkeyVal(%s) rejects the generated public key of x=%s: %s" % (name, mk[0].hex(), ename(r)))
        pub2 = x.buf(b"\xCC" * lo)
        r = x.call("pfokPubkeyCalc", pub2, prm, priv)
        if r or pub2.read() != mk[1]:
            raise Fail("pfokPubkeyCalc(%s) x=%s: %s %s, KeypairGen/model %s" % (name, mk[0].hex(), ename(r), pub2.read().hex(), mk[1].hex()))
        keys.append((priv, pub, mk[0], mk[1]))
    (XA, YA, xa, ya), (XB, YB, xb, yb), (UA, VA, ua, va), (UB, VB, ub, vb) = keys
    # Diffie-Hellman: 4.1 (one-time keys on both sides) and 4.3 (ua with yb | xb with va)
    for (PA, pa, QB, qb, PB, pb, QA, qa, what) in ((UA, ua, VB, vb, UB, ub, VA, va, "4.1"), (UA, ua, YB, yb, XB, xb, VA, va, "4.3")):
        k1, k2 = x.buf(b"\xCC" * ko), x.buf(b"\xCC" * ko)
        r1 = x.call("pfokDH", k1, prm, PA, QB)
        r2 = x.call("pfokDH", k2, prm, PB, QA)
        mkey = RP.dh(M, pa, qb)
        if r1 or r2 or k1.read() != k2.read() or k1.read() != mkey:
            raise Fail("pfokDH(%s) protocol %s a=%s b=%s: A gets %s %s, B gets %s %s, model %s" %
                       (name, what, pa.hex(), pb.hex(), ename(r1), k1.read().hex(), ename(r2), k2.read().hex(), mkey.hex()))
    # MTI (4.2)
    k1, k2 = x.buf(b"\xCC" * ko), x.buf(b"\xCC" * ko)
    r1 = x.call("pfokMTI", k1, prm, XA, UA, YB, VB)
    r2 = x.call("pfokMTI", k2, prm, XB, UB, YA, VA)
    mkey = RP.mti(M, xa, ua, yb, vb)
    if r1 or r2 or k1.read() != k2.read() or k1.read() != mkey or mkey != RP.mti(M, xb, ub, ya, va):
        raise Fail("pfokMTI(%s) xa=%s ua=%s xb=%s ub=%s: A gets %s %s, B gets %s %s, model %s" %
                   (name, xa.hex(), ua.hex(), xb.hex(), ub.hex(), ename(r1), k1.read().hex(), ename(r2), k2.read().hex(), mkey.hex()))
    kcls = tuple(c[w] for w in ("xa", "xb", "ua", "ub"))
    if any(k != "rnd" for k in kcls) or c["hig"]:
        ctx.nontrivial("pfok", c["set"], kcls, c["hig"])
    ctx.cls("set_" + name.split(".")[-2] if "." in name else "set_test", *("key_" + k for k in set(kcls)))
    ctx.sample(c)


KEYC = st.sampled_from(["rnd", "rnd", "rnd", "zero", "one", "two", "max", "msb"])
S_PFOK = st.fixed_dictionaries({"set": st.sampled_from([0, 0, 0, 1, 1, 1, 2, 2, 3]), "seed": SEED, "xa": KEYC, "xb": KEYC, "ua": KEYC, "ub": KEYC, "hig": st.booleans()})


def tests(tier):
    return [
        Test("bign96", S_BIGN96, run_bign96, {"quick": 400, "thorough": 8000}, CFG),
        Test("g12s", S_G12S, run_g12s, {"quick": 400, "thorough": 8000}, CFG),
        Test("dstu", S_DSTU, run_dstu, {"quick": 288, "thorough": 4000}, CFG, shards=16),
        Sweep("dstu_tied", sweep_dstu_tied, 16, CFG),
        Test("dstu_point", S_DSTU_POINT, run_dstu_point, {"quick": 350, "thorough": 6000}, CFG),
        Test("pfok", S_PFOK, run_pfok, {"quick": 300, "thorough": 6000}, CFG),
    ]
