"""C05: arithmetic layer == exact integer / modular / GF(2)[x] arithmetic.
Oracle: Python int (and int-as-GF(2)[x])."""
import math
from harness import Test, Sweep, Fail, st, GEN, is_known
from gens import int_spec, mod_spec, resolve, resolve_mod
import pyref.gf2x as G

RULE = ("cases: symbolic operand specs (0,1,B^n-1,single bits,word patterns,k*mod+d,2^k+d,random) resolved per word size; "
        "lengths 0..20 words; moduli classes rand/odd/topbit/Crandall/topword=1; aliasing per header. "
        "non-trivial: carry/borrow out or chain over >=2 words, operand multiple of modulus or >= modulus-3, aliasing != none, "
        "length >= 10 words (Karatsuba/threshold paths), gcd != 1 for inversions, rejection in RandMod; distinct by (function family, n, m, class tuple)")
LEVEL = "exploration"
ASSUMPTIONS = ["Python int / pow / math.gcd are exact", "GF(2)[x] reference in pyref/gf2x.py (carry-less schoolbook) is correct; self-tested",
               "W32 configuration is obtained with -U__SIZEOF_INT128__ on x86-64"]
EXHAUSTIVE_NOTE = ["all 65536 inputs of every u16 helper; 16-bit sub-range of u32/u64/word helpers"]
BUDGET = {"quick": 200, "thorough": 3000}

import os
CFG_Q = tuple(os.environ.get("VERIF_CFG", "asan,w32").split(","))


def stack(x, fn, *args):
    return x.out(x.call(fn, *args, ret="z"))


def wbuf(x, v, n):
    return x.words(v, n)


def rint(b):
    return int.from_bytes(b.read(), "little")


def chk(name, got, exp, case=None):
    if got != exp:
        raise Fail("%s: got %s expected %s" % (name, hex(got) if isinstance(got, int) else got, hex(exp) if isinstance(exp, int) else exp))


def classify_carry(ctx, fam, n, a, b, W):
    top = 1 << (W * n)
    if n >= 2 and (a + b >= top or a < b):
        ctx.nontrivial(fam, n, "carry", min(n, 4))
    if n >= 10:
        ctx.nontrivial(fam, "long", n)


# ---------------------------------------------------------------- zz add family
def run_zz_add(ctx, c):
    x = ctx.x
    W = x.W
    n, m = c["n"], c["m"]
    a = resolve(c["a"], W, n)
    b = resolve(c["b"], W, n)
    b3 = resolve(c["b"], W, m)
    w = resolve(c["w"], W, 1)
    top = 1 << (W * n)
    al = c["alias"]
    ctx.cls("alias_" + al, "n%d" % min(n, 3))
    classify_carry(ctx, "add", n, a, b, W)
    if al != "none":
        ctx.nontrivial("add_alias", al, min(n, 3))

    def bufs3():
        A = wbuf(x, a, n)
        Bb = A if al in ("a=b", "all") else wbuf(x, b, n)
        C = A if al in ("c=a", "all") else (Bb if al == "c=b" else x.out(n * x.wo))
        return C, A, Bb
    bb = a if al in ("a=b", "all") else b
    # zzAdd / zzSub
    C, A, Bb = bufs3()
    r = x.call("zzAdd", C, A, Bb, n, ret="w")
    chk("zzAdd carry", r, (a + bb) >> (W * n)); chk("zzAdd", rint(C), (a + bb) % top)
    C, A, Bb = bufs3()
    r = x.call("zzSub", C, A, Bb, n, ret="w")
    chk("zzSub borrow", r, int(a < bb)); chk("zzSub", rint(C), (a - bb) % top)
    # zzAdd2 / zzSub2 (b op= a), aliasing b==a allowed
    A = wbuf(x, a, n); Bb = A if al in ("a=b", "all", "c=a") else wbuf(x, b, n)
    bv = a if Bb is A else b
    r = x.call("zzAdd2", Bb, A, n, ret="w")
    chk("zzAdd2 carry", r, (a + bv) >> (W * n)); chk("zzAdd2", rint(Bb), (a + bv) % top)
    A = wbuf(x, a, n); Bb = A if al in ("a=b", "all", "c=a") else wbuf(x, b, n)
    r = x.call("zzSub2", Bb, A, n, ret="w")
    chk("zzSub2 borrow", r, int(bv < a)); chk("zzSub2", rint(Bb), (bv - a) % top)
    # zzAdd3: [max(n,m)]c = [n]a + [m]b
    k = max(n, m)
    A = wbuf(x, a, n); B3 = wbuf(x, b3, m)
    if al in ("c=a", "all") and n == k:
        C = A
    elif al == "c=b" and m == k:
        C = B3
    else:
        C = x.out(k * x.wo)
    r = x.call("zzAdd3", C, A, n, B3, m, ret="w")
    chk("zzAdd3 carry", r, (a + b3) >> (W * k)); chk("zzAdd3", rint(C), (a + b3) % (1 << (W * k)))
    # word variants
    for fn, op in (("zzAddW", 1), ("zzSubW", -1)):
        A = wbuf(x, a, n); Bo = A if al != "none" else x.out(n * x.wo)
        r = x.call(fn, Bo, A, n, w, ret="w")
        if n:   # n == 0: the header formula degenerates (B^0 = 1); only absence of a crash is required
            chk(fn + " ret", r, ((a + w) >> (W * n)) if op == 1 else int(a < w)); chk(fn, rint(Bo), (a + op * w) % top)
    for fn, op in (("zzAddW2", 1), ("zzSubW2", -1)):
        A = wbuf(x, a, n)
        r = x.call(fn, A, n, w, ret="w")
        if n:
            chk(fn + " ret", r, ((a + w) >> (W * n)) if op == 1 else int(a < w)); chk(fn, rint(A), (a + op * w) % top)
    # zzNeg
    A = wbuf(x, a, n); Bo = A if al != "none" else x.out(n * x.wo)
    x.call("zzNeg", Bo, A, n, ret="v")
    chk("zzNeg", rint(Bo), (-a) % top)
    # IsSumEq / IsSumWEq (SAFE and FAST editions)
    for cv in (((a + b) % top), resolve(c["c"], W, n)):
        for sfx in ("", "_fast"):
            r = x.call("zzIsSumEq" + sfx, wbuf(x, cv, n), wbuf(x, a, n), wbuf(x, b, n), n, ret="i")
            chk("zzIsSumEq" + sfx, r, int(a + b == cv))
            if n:
                r = x.call("zzIsSumWEq" + sfx, wbuf(x, cv, n), wbuf(x, a, n), n, w, ret="i")
                chk("zzIsSumWEq" + sfx, r, int(a + w == cv))
    cv = (a + w) % top
    if n:
        for sfx in ("", "_fast"):
            r = x.call("zzIsSumWEq" + sfx, wbuf(x, cv, n), wbuf(x, a, n), n, w, ret="i")
            chk("zzIsSumWEq(eq)" + sfx, r, int(a + w == cv))
    # MulW / AddMulW / SubMulW
    A = wbuf(x, a, n); Bo = A if al != "none" else x.out(n * x.wo)
    r = x.call("zzMulW", Bo, A, n, w, ret="w")
    chk("zzMulW carry", r, (a * w) >> (W * n)); chk("zzMulW", rint(Bo), (a * w) % top)
    A = wbuf(x, a, n); Bb = A if al in ("a=b", "all") else wbuf(x, b, n)
    bv = a if Bb is A else b
    r = x.call("zzAddMulW", Bb, A, n, w, ret="w")
    chk("zzAddMulW carry", r, (bv + a * w) >> (W * n)); chk("zzAddMulW", rint(Bb), (bv + a * w) % top)
    A = wbuf(x, a, n); Bb = A if al in ("a=b", "all") else wbuf(x, b, n)
    r = x.call("zzSubMulW", Bb, A, n, w, ret="w")
    d = bv - a * w
    chk("zzSubMulW", rint(Bb), d % top); chk("zzSubMulW borrow", r, (-(d >> (W * n))) if d < 0 else 0)
    chk("zzIsEven", x.call("zzIsEven", wbuf(x, a, n), n), int(a % 2 == 0))
    chk("zzIsOdd", x.call("zzIsOdd", wbuf(x, a, n), n), int(a % 2 == 1))
    ctx.sample(c)


S_ADD = st.fixed_dictionaries({"n": st.integers(0, 20), "m": st.integers(0, 20), "a": int_spec(), "b": int_spec(), "c": int_spec(), "w": int_spec(1),
                               "alias": st.sampled_from(["none", "c=a", "c=b", "a=b", "all"])})


# ---------------------------------------------------------------- zz mul/div family
def isqrt(v):
    return math.isqrt(v)


def run_zz_mul(ctx, c):
    x = ctx.x
    W = x.W
    n, m = c["n"], c["m"]
    a = resolve(c["a"], W, n)
    b = resolve(c["b"], W, m)
    w = resolve(c["w"], W, 1)
    ctx.cls("n%d" % min(n, 3))
    if n >= 10 or m >= 10:
        ctx.nontrivial("mul_long", n, m)
    A = wbuf(x, a, n); Bb = wbuf(x, b, m); C = x.out((n + m) * x.wo)
    x.call("zzMul", C, A, n, Bb, m, stack(x, "zzMul_deep", n, m), ret="v")
    chk("zzMul", rint(C), a * b)
    C = x.out(2 * n * x.wo)
    x.call("zzSqr", C, A, n, stack(x, "zzSqr_deep", n), ret="v")
    chk("zzSqr", rint(C), a * a)
    if n:
        R = x.out(((n + 1) // 2) * x.wo)
        r = x.call("zzSqrt", R, A, n, stack(x, "zzSqrt_deep", n))
        s = isqrt(a)
        chk("zzSqrt", rint(R), s); chk("zzSqrt flag", r, int(s * s == a))
        # perfect squares & neighbours
        half = resolve(c["b"], W, (n + 1) // 2)
        for sq in (half * half, half * half + 1, max(half * half - 1, 0)):
            if sq < 1 << (W * n):
                r = x.call("zzSqrt", R, wbuf(x, sq, n), n, stack(x, "zzSqrt_deep", n))
                s = isqrt(sq)
                chk("zzSqrt2", rint(R), s); chk("zzSqrt2 flag", r, int(s * s == sq))
                ctx.nontrivial("sqrt_sq", n)
    if w:
        Q = A if c["alias"] else x.out(n * x.wo)
        r = x.call("zzDivW", Q, A, n, w, ret="w")
        chk("zzDivW rem", r, a % w if n else 0)
        if n:
            chk("zzDivW", rint(Q), a // w)
        A = wbuf(x, a, n)
        chk("zzModW", x.call("zzModW", A, n, w, ret="w"), a % w if n else 0)
        w2 = w % (1 << (W // 2)) or 3
        chk("zzModW2", x.call("zzModW2", A, n, w2, ret="w"), a % w2 if n else 0)
        w2 = (1 << (W // 2))  # w^2 == B allowed
        chk("zzModW2 max", x.call("zzModW2", A, n, w2, ret="w"), a % w2 if n else 0)
    # zzDiv / zzMod: n >= m, m > 0, b[m-1] != 0
    if m > 0:
        bb = b if b >> (W * (m - 1)) else b | (1 << (W * (m - 1)))
        if c["dtop"] == "hi":
            bb |= 1 << (W * m - 1)
        elif c["dtop"] == "ones":
            bb |= ((1 << W) - 1) << (W * (m - 1))
        elif c["dtop"] == "half":
            bb = (bb % (1 << (W * (m - 1)))) | (1 << (W * m - 1))
        nn = max(n, m)
        aa = resolve(c["a"], W, nn)
        if c["qhat"]:
            # dividend = divisor * B^k - 1 style values force qhat corrections
            aa = (bb * resolve(c["w"], W, nn - m + 1) + resolve(c["c"], W, m) % bb) % (1 << (W * nn)) if c["qhat"] == 1 else ((bb << (W * (nn - m))) - 1) % (1 << (W * nn))
            ctx.nontrivial("div_qhat", nn, m, c["dtop"])
        A = wbuf(x, aa, nn); Bb = wbuf(x, bb, m)
        Q = x.out((nn - m + 1) * x.wo)
        R = x.out(m * x.wo)
        x.call("zzDiv", Q, R, A, nn, Bb, m, stack(x, "zzDiv_deep", nn, m), ret="v")
        chk("zzDiv q", rint(Q), aa // bb); chk("zzDiv r", rint(R), aa % bb)
        # r == a aliasing (r is [m], a is [nn]): allowed "r == a"
        A2 = wbuf(x, aa, nn)
        Q = x.out((nn - m + 1) * x.wo)
        x.call("zzDiv", Q, A2, A2, nn, Bb, m, stack(x, "zzDiv_deep", nn, m), ret="v")
        chk("zzDiv(r=a) q", rint(Q), aa // bb); chk("zzDiv(r=a) r", int.from_bytes(A2.read(0, m * x.wo), "little"), aa % bb)
        # zzMod: any n
        a0 = resolve(c["a"], W, n)
        A = wbuf(x, a0, n); R = x.out(m * x.wo)
        x.call("zzMod", R, A, n, Bb, m, stack(x, "zzMod_deep", n, m), ret="v")
        chk("zzMod", rint(R), a0 % bb)
        if n >= m:
            A2 = wbuf(x, a0, n)
            x.call("zzMod", A2, A2, n, Bb, m, stack(x, "zzMod_deep", n, m), ret="v")
            chk("zzMod(r=a)", int.from_bytes(A2.read(0, m * x.wo), "little"), a0 % bb)
        ctx.cls("div_" + c["dtop"])
    ctx.sample(c)


S_MUL = st.fixed_dictionaries({"n": st.integers(0, 20), "m": st.integers(0, 20), "a": int_spec(), "b": int_spec(), "c": int_spec(), "w": int_spec(4),
                               "alias": st.booleans(), "dtop": st.sampled_from(["any", "hi", "ones", "half"]), "qhat": st.sampled_from([0, 0, 1, 2])})


# ---------------------------------------------------------------- gcd family
def jacobi(a, n):
    assert n % 2 == 1 and n > 0
    a %= n
    r = 1
    while a:
        while a % 2 == 0:
            a //= 2
            if n % 8 in (3, 5):
                r = -r
        a, n = n, a
        if a % 4 == 3 and n % 4 == 3:
            r = -r
        a %= n
    return r if n == 1 else 0


def exgcd_case(x, a, n, b, m, d):
    k = min(n, m)
    D = x.out(k * x.wo); DA = x.out(m * x.wo); DB = x.out(n * x.wo)
    x.call("zzExGCD", D, DA, DB, wbuf(x, a, n), n, wbuf(x, b, m), m, stack(x, "zzExGCD_deep", n, m), ret="v")
    da, db = rint(DA), rint(DB)
    chk("zzExGCD d", rint(D), d)
    if da * a - db * b != d:
        raise Fail("zzExGCD: da*a - db*b != d (a=%x b=%x da=%x db=%x d=%x)" % (a, b, da, db, d))


def known_probes(tier):
    """(signature, what, still_fails) for the recorded findings of C05"""
    from harness import Ctx, Crash
    out = []
    fails = []
    for cfg, a, b in (("asan", 1, (1 << 64) - 1), ("rel", (1 << 64) - 1, 1)):
        ctx = Ctx(cfg, tier)
        x = ctx.ex(cfg)
        x.reset()
        try:
            exgcd_case(x, a, 64 // x.W, b, 64 // x.W, 1)
        except (Fail, Crash) as e:
            fails.append("%s: %s" % (cfg, str(e)[:100]))
    out.append(("zzExGCD_power_of_two", "zzExGCD(a, b) with a or b a power of two: " + "; ".join(fails), bool(fails)))
    return out


def run_zz_gcd(ctx, c):
    x = ctx.x
    W = x.W
    n, m = c["n"], c["m"]
    g = resolve(c["g"], W, min(n, m)) or 1
    a = resolve(c["a"], W, n) or 1
    b = resolve(c["b"], W, m) or 1
    if c["common"]:
        # force a common factor
        a = (a // g) * g or g
        b = (b // g) * g or g
        ctx.nontrivial("gcd_common", n, m)
    a %= 1 << (W * n); b %= 1 << (W * m)
    a = a or 1; b = b or 1
    d = math.gcd(a, b)
    k = min(n, m)
    A = wbuf(x, a, n); Bb = wbuf(x, b, m)
    D = x.out(k * x.wo)
    x.call("zzGCD", D, A, n, Bb, m, stack(x, "zzGCD_deep", n, m), ret="v")
    chk("zzGCD", rint(D), d)
    chk("zzIsCoprime", x.call("zzIsCoprime", A, n, Bb, m, stack(x, "zzIsCoprime_deep", n, m)), int(d == 1))
    L = x.out((n + m) * x.wo)
    x.call("zzLCM", L, A, n, Bb, m, stack(x, "zzLCM_deep", n, m), ret="v")
    chk("zzLCM", rint(L), a * b // d)
    if is_known("C05", "zzExGCD_power_of_two") and (a & (a - 1) == 0 or b & (b - 1) == 0):
        ctx.exclude("zzExGCD_power_of_two")
    else:
        exgcd_case(x, a, n, b, m, d)
    # Jacobi: b odd
    bo = b | 1
    a0 = resolve(c["a"], W, n)
    r = x.call("zzJacobi", wbuf(x, a0, n), n, wbuf(x, bo, m), m, stack(x, "zzJacobi_deep", n, m), ret="si")
    chk("zzJacobi", r, jacobi(a0, bo))
    ctx.cls("n%d" % min(n, 3), "d1" if d == 1 else "dgt1")
    if d > 1 and n > 1 and m > 1:
        ctx.nontrivial("gcd_d", n, m)
    ctx.sample(c)


S_GCD = st.fixed_dictionaries({"n": st.integers(1, 12), "m": st.integers(1, 12), "a": int_spec(12), "b": int_spec(12), "g": int_spec(6), "common": st.booleans()})


# ---------------------------------------------------------------- modular family
def run_zz_mod(ctx, c):
    x = ctx.x
    W = x.W
    n = c["n"]
    top = 1 << (W * n)
    mod = resolve_mod(c["mod"], W, n)
    modo = mod | 1
    a = resolve(c["a"], W, n, mod) % mod
    b = resolve(c["b"], W, n, mod) % mod
    w = resolve(c["w"], W, 1) % mod
    al = c["alias"]
    ctx.cls("alias_" + al, "mod_" + c["mod"][0], "a_" + c["a"][0])
    if c["a"][0] in ("modm", "kmod", "rkmod") or c["b"][0] in ("modm", "kmod", "rkmod"):
        ctx.nontrivial("mod_boundary", n, c["a"][0], c["b"][0], c["mod"][0])
    if al != "none":
        ctx.nontrivial("mod_alias", al, min(n, 3), c["mod"][0])
    M = wbuf(x, mod, n)

    def bufs3(av, bv):
        A = wbuf(x, av, n)
        Bb = A if al in ("a=b", "all") else wbuf(x, bv, n)
        C = A if al in ("c=a", "all") else (Bb if al == "c=b" else x.out(n * x.wo))
        return C, A, Bb
    bb = a if al in ("a=b", "all") else b
    for sfx in ("", "_fast"):
        C, A, Bb = bufs3(a, b)
        x.call("zzAddMod" + sfx, C, A, Bb, M, n, ret="v"); chk("zzAddMod" + sfx, rint(C), (a + bb) % mod)
        C, A, Bb = bufs3(a, b)
        x.call("zzSubMod" + sfx, C, A, Bb, M, n, ret="v"); chk("zzSubMod" + sfx, rint(C), (a - bb) % mod)
        A = wbuf(x, a, n); Bo = A if al != "none" else x.out(n * x.wo)
        x.call("zzAddWMod" + sfx, Bo, A, w, M, n, ret="v"); chk("zzAddWMod" + sfx, rint(Bo), (a + w) % mod)
        A = wbuf(x, a, n); Bo = A if al != "none" else x.out(n * x.wo)
        x.call("zzSubWMod" + sfx, Bo, A, w, M, n, ret="v"); chk("zzSubWMod" + sfx, rint(Bo), (a - w) % mod)
        A = wbuf(x, a, n); Bo = A if al != "none" else x.out(n * x.wo)
        x.call("zzNegMod" + sfx, Bo, A, M, n, ret="v"); chk("zzNegMod" + sfx, rint(Bo), (-a) % mod)
        A = wbuf(x, a, n); Bo = A if al != "none" else x.out(n * x.wo)
        x.call("zzDoubleMod" + sfx, Bo, A, M, n, ret="v"); chk("zzDoubleMod" + sfx, rint(Bo), (2 * a) % mod)
        ao = a % modo
        Mo = wbuf(x, modo, n)
        A = wbuf(x, ao, n); Bo = A if al != "none" else x.out(n * x.wo)
        x.call("zzHalfMod" + sfx, Bo, A, Mo, n, ret="v"); chk("zzHalfMod" + sfx, rint(Bo), (ao * pow(2, -1, modo)) % modo if modo > 1 else 0)
    # MulMod etc (no aliasing statement in header -> disjoint only, plus c==a which zm uses? keep disjoint)
    A = wbuf(x, a, n); Bb = wbuf(x, b, n); C = x.out(n * x.wo)
    x.call("zzMulMod", C, A, Bb, M, n, stack(x, "zzMulMod_deep", n), ret="v"); chk("zzMulMod", rint(C), a * b % mod)
    C = x.out(n * x.wo)
    x.call("zzMulWMod", C, A, resolve(c["w"], W, 1), M, n, stack(x, "zzMulWMod_deep", n), ret="v"); chk("zzMulWMod", rint(C), a * resolve(c["w"], W, 1) % mod)
    C = x.out(n * x.wo)
    x.call("zzSqrMod", C, A, M, n, stack(x, "zzSqrMod_deep", n), ret="v"); chk("zzSqrMod", rint(C), a * a % mod)
    # inversion: odd modulus
    if modo > 1:
        Mo = wbuf(x, modo, n)
        ao = a % modo; bo = b % modo
        g = math.gcd(ao, modo)
        inv = pow(ao, -1, modo) if g == 1 else 0
        if g != 1:
            ctx.nontrivial("inv_gcd", n)
        A = wbuf(x, ao, n); C = x.out(n * x.wo)
        x.call("zzInvMod", C, A, Mo, n, stack(x, "zzInvMod_deep", n), ret="v"); chk("zzInvMod", rint(C), inv if modo > 1 else 0)
        C = x.out(n * x.wo)
        x.call("zzDivMod", C, wbuf(x, bo, n), A, Mo, n, stack(x, "zzDivMod_deep", n), ret="v"); chk("zzDivMod", rint(C), bo * inv % modo)
        if ao:
            C = x.out(n * x.wo)
            k = x.call("zzAlmostInvMod", C, A, Mo, n, stack(x, "zzAlmostInvMod_deep", n), ret="z")
            if g == 1:
                bl = modo.bit_length()
                if not (bl <= k <= 2 * bl):
                    raise Fail("zzAlmostInvMod: k=%d outside [%d,%d]" % (k, bl, 2 * bl))
                chk("zzAlmostInvMod", rint(C), inv * pow(2, k, modo) % modo)
            else:
                chk("zzAlmostInvMod(gcd!=1)", rint(C), 0)
    ctx.sample(c)


S_MOD = st.fixed_dictionaries({"n": st.integers(1, 12), "mod": mod_spec(), "a": int_spec(12), "b": int_spec(12), "w": int_spec(1),
                               "alias": st.sampled_from(["none", "c=a", "c=b", "a=b", "all"])})


# ---------------------------------------------------------------- reductions, power, random
def run_zz_red(ctx, c):
    x = ctx.x
    W = x.W
    B = 1 << W
    n = c["n"]
    mod = resolve_mod(c["mod"], W, n)
    ctx.cls("mod_" + c["mod"][0], "a_" + c["a"][0])
    a2 = resolve(c["a"], W, 2 * n, mod)
    if a2 % mod == 0 and a2:
        ctx.nontrivial("red_multiple", n, c["mod"][0], c["a"][0])
    if c["a"][0] in ("kmod", "rkmod", "modm", "max"):
        ctx.nontrivial("red_boundary", n, c["mod"][0], c["a"])
    M = wbuf(x, mod, n)
    A = wbuf(x, a2, 2 * n)
    x.call("zzRed", A, M, n, stack(x, "zzRed_deep", n), ret="v")
    chk("zzRed", int.from_bytes(A.read(0, n * x.wo), "little"), a2 % mod)
    # Barrett
    P = x.out((n + 2) * x.wo)
    x.call("zzRedBarrStart", P, M, n, stack(x, "zzRedBarrStart_deep", n), ret="v")
    chk("zzRedBarrStart", rint(P), (1 << (2 * W * n)) // mod)
    for sfx in ("", "_fast"):
        A = wbuf(x, a2, 2 * n)
        x.call("zzRedBarr" + sfx, A, M, n, P, stack(x, "zzRedBarr_deep", n), ret="v")
        chk("zzRedBarr" + sfx, int.from_bytes(A.read(0, n * x.wo), "little"), a2 % mod)
    # Crandall: n >= 2, mod = B^n - c
    if n >= 2:
        cm = resolve_mod(c["cmod"], W, n)
        Mc = wbuf(x, cm, n)
        ac = resolve(c["a"], W, 2 * n, cm)
        for sfx in ("", "_fast"):
            A = wbuf(x, ac, 2 * n)
            x.call("zzRedCrand" + sfx, A, Mc, n, stack(x, "zzRedCrand_deep", n), ret="v")
            chk("zzRedCrand" + sfx, int.from_bytes(A.read(0, n * x.wo), "little"), ac % cm)
        if cm % 2:
            mp = (-pow(cm, -1, B)) % B
            Rinv = pow(1 << (W * n), -1, cm)
            am = ac % (cm << (W * n))
            if c["exact"]:
                am = (resolve(c["b"], W, n, cm) % cm) << (W * n)  # a = t*R: result t mod cm, incl. multiples landing on mod
                am = (am + (cm * resolve(c["w"], W, n)) ) % (cm << (W * n))
            for sfx in ("", "_fast"):
                A = wbuf(x, am, 2 * n)
                x.call("zzRedCrandMont" + sfx, A, Mc, n, mp, stack(x, "zzRedCrandMont_deep", n), ret="v")
                chk("zzRedCrandMont" + sfx, int.from_bytes(A.read(0, n * x.wo), "little"), am * Rinv % cm)
    # Montgomery: odd mod, a < mod*R
    mo = mod | 1
    Mo = wbuf(x, mo, n)
    mp = (-pow(mo, -1, B)) % B
    Rinv = pow(1 << (W * n), -1, mo) if mo > 1 else 0
    am = resolve(c["a"], W, 2 * n, mo) % (mo << (W * n))
    if c["exact"]:
        # multiples of mod*... : a = k*mod -> result must be 0 (fully reduced), a = mod*R - 1 (max)
        am = [0, mo, (mo << (W * n)) - 1, mo * (resolve(c["b"], W, n) % (1 << (W * n))), (mo << (W * n)) - mo][c["exact"] % 5]
        ctx.nontrivial("mont_exact", n, c["exact"] % 5, c["mod"][0])
    for sfx in ("", "_fast"):
        A = wbuf(x, am, 2 * n)
        x.call("zzRedMont" + sfx, A, Mo, n, mp, stack(x, "zzRedMont_deep", n), ret="v")
        chk("zzRedMont" + sfx, int.from_bytes(A.read(0, n * x.wo), "little"), am * Rinv % mo if mo > 1 else 0)
    ctx.sample(c)


S_RED = st.fixed_dictionaries({"n": st.integers(1, 10), "mod": mod_spec(10), "cmod": st.tuples(st.just("crand"), st.integers(1, 2 ** 64 - 1), st.sampled_from(["small", "any", "max"])).map(list),
                               "a": int_spec(20), "b": int_spec(10), "w": int_spec(10), "exact": st.sampled_from([0, 0, 1, 2, 3, 4, 5])})


def run_zz_pow(ctx, c):
    x = ctx.x
    W = x.W
    n, m = c["n"], c["m"]
    mod = resolve_mod(c["mod"], W, n)
    a = resolve(c["a"], W, n, mod) % mod
    e = resolve(c["e"], W, m)
    ctx.cls("mod_" + c["mod"][0], "odd" if mod % 2 else "even")
    ctx.nontrivial("pow", n, m, c["mod"][0], mod % 2, e.bit_length() // 64)
    C = x.out(n * x.wo)
    x.call("zzPowerMod", C, wbuf(x, a, n), n, wbuf(x, e, m), m, wbuf(x, mod, n), stack(x, "zzPowerMod_deep", n, m), ret="v")
    chk("zzPowerMod", rint(C), pow(a, e, mod) if mod > 1 else 0)
    wa, wb, wm = resolve(c["a"], W, 1), resolve(c["e"], W, 1), resolve(c["b"], W, 1)
    if wm < 2:
        wm = 2      # the ring Z/(1) is degenerate (0^0 == 1 is documented); not claimed
    wa %= wm    # zz.h states a < mod only for zzPowerMod; assumed for the word version too
    r = x.call("zzPowerModW", wa, wb, wm, stack(x, "zzPowerModW_deep"), ret="w")
    chk("zzPowerModW", r, pow(wa, wb, wm))
    ctx.sample(c)


S_POW = st.fixed_dictionaries({"n": st.integers(1, 6), "m": st.integers(0, 6), "mod": mod_spec(6), "a": int_spec(6), "e": int_spec(6), "b": int_spec(1)})


def run_zz_rand(ctx, c):
    """zzRandMod / zzRandNZMod: result in range, equals the documented rule on the tape
    (read O_OF_B(l) octets, trim to l bits, accept iff < mod [and != 0])."""
    x = ctx.x
    W = x.W
    n = c["n"]
    mod = resolve_mod(c["mod"], W, n)
    if mod < 2:
        mod = 2
    l = mod.bit_length()
    no = (l + 7) // 8
    # build a tape: k rejected samples then a good one
    tape = b""
    rej = []
    for r in c["rej"]:
        v = mod + (r % ((1 << l) - mod)) if (1 << l) > mod else None
        if v is None:
            continue
        rej.append(v)
        tape += v.to_bytes(no, "little")
    good = resolve(c["a"], W, n, mod) % mod
    tape += good.to_bytes(no, "little")
    for fn, nz in (("zzRandMod", False), ("zzRandNZMod", True)):
        if nz and mod == 1:
            continue
        g = good
        t = tape
        if nz and g == 0:
            g = 1 % mod
            t = tape + g.to_bytes(no, "little")
            if mod == 2 and False:
                pass
        T = x.tape(t, mode=1)
        A = x.out(n * x.wo)
        ok = x.call(fn, A, wbuf(x, mod, n), n, GEN, T)
        chk(fn + " ok", ok, 1)
        chk(fn, rint(A), g)
    if rej:
        ctx.nontrivial("rand_rej", n, len(rej))
    ctx.cls("rej%d" % min(len(rej), 3))
    ctx.sample(c)


S_RAND = st.fixed_dictionaries({"n": st.integers(1, 8), "mod": mod_spec(8), "a": int_spec(8), "rej": st.lists(st.integers(0, 2 ** 64), max_size=4)})


# ---------------------------------------------------------------- ww family
def run_ww(ctx, c):
    x = ctx.x
    W = x.W
    B = 1 << W
    n, m = c["n"], c["m"]
    a = resolve(c["a"], W, n)
    b = a if c["eq"] == "same" else resolve(c["b"], W, n)
    if c["eq"] == "bit" and n:
        b = a ^ (1 << (c["pos"] % (W * n)))
        ctx.nontrivial("ww_diffbit", n, (c["pos"] % (W * n)) // W)
    w = resolve(c["w"], W, 1)
    top = 1 << (W * n)
    A = wbuf(x, a, n); Bb = wbuf(x, b, n)
    sgn = lambda v: (v > 0) - (v < 0)
    for sfx in ("", "_fast"):
        chk("wwEq" + sfx, x.call("wwEq" + sfx, A, Bb, n), int(a == b))
        chk("wwCmp" + sfx, sgn(x.call("wwCmp" + sfx, A, Bb, n, ret="si")), sgn(a - b))
        b2 = resolve(c["b"], W, m)
        chk("wwCmp2" + sfx, sgn(x.call("wwCmp2" + sfx, A, n, wbuf(x, b2, m), m, ret="si")), sgn(a - b2))
        a2 = a % B if c["eq"] == "same" else a
        chk("wwCmpW" + sfx, sgn(x.call("wwCmpW" + sfx, wbuf(x, a2, n), n, w, ret="si")), sgn(a2 - w))
        chk("wwIsZero" + sfx, x.call("wwIsZero" + sfx, A, n), int(a == 0))
        chk("wwIsW" + sfx, x.call("wwIsW" + sfx, A, n, w), int(a == w) if n else int(w == 0))
        rep = sum(w << (W * i) for i in range(n))
        chk("wwIsRepW" + sfx, x.call("wwIsRepW" + sfx, A, n, w), int(a == rep) if n else int(w == 0))
        if n:
            chk("wwIsRepW(rep)" + sfx, x.call("wwIsRepW" + sfx, wbuf(x, rep, n), n, w), 1)
    C = x.out(n * x.wo)
    x.call("wwXor", C, A, Bb, n, ret="v"); chk("wwXor", rint(C), a ^ b)
    x.call("wwCopy", C, A, n, ret="v"); chk("wwCopy", rint(C), a)
    if n:   # \pre n > 0 or w == 0
        x.call("wwSetW", C, n, w, ret="v"); chk("wwSetW", rint(C), w)
        x.call("wwRepW", C, n, w, ret="v"); chk("wwRepW", rint(C), rep)
    chk("wwWordSize", x.call("wwWordSize", A, n, ret="z"), (a.bit_length() + W - 1) // W)
    chk("wwOctetSize", x.call("wwOctetSize", A, n, ret="z"), (a.bit_length() + 7) // 8)
    chk("wwBitSize", x.call("wwBitSize", A, n, ret="z"), a.bit_length())
    chk("wwHiZeroBits", x.call("wwHiZeroBits", A, n, ret="z"), W * n - a.bit_length())
    chk("wwLoZeroBits", x.call("wwLoZeroBits", A, n, ret="z"), (a & -a).bit_length() - 1 if a else W * n)
    if n:
        pos = c["pos"] % (W * n)
        chk("wwTestBit", x.call("wwTestBit", A, pos), (a >> pos) & 1)
        width = c["width"] % W + 1      # width == 0 is degenerate (shift by B_PER_W in the mask); not claimed
        if pos + width <= W * n:
            chk("wwGetBits", x.call("wwGetBits", A, pos, width, ret="w"), (a >> pos) & ((1 << width) - 1))
            A2 = wbuf(x, a, n)
            x.call("wwSetBits", A2, pos, width, w, ret="v")
            mask = ((1 << width) - 1) << pos
            chk("wwSetBits", rint(A2), (a & ~mask) | ((w << pos) & mask))
        A2 = wbuf(x, a, n); x.call("wwFlipBit", A2, pos, ret="v"); chk("wwFlipBit", rint(A2), a ^ (1 << pos))
        A2 = wbuf(x, a, n); x.call("wwSetBit", A2, pos, 1, ret="v"); chk("wwSetBit1", rint(A2), a | (1 << pos))
        A2 = wbuf(x, a, n); x.call("wwSetBit", A2, pos, 0, ret="v"); chk("wwSetBit0", rint(A2), a & ~(1 << pos))
    sh = c["shift"] % (W * n + 2 * W + 1)
    if sh >= 0:
        A2 = wbuf(x, a, n); x.call("wwShLo", A2, n, sh, ret="v"); chk("wwShLo", rint(A2), a >> sh)
        A2 = wbuf(x, a, n); x.call("wwShHi", A2, n, sh, ret="v"); chk("wwShHi", rint(A2), (a << sh) % top)
        if sh > W * n - W and n:
            ctx.nontrivial("ww_shift_big", n)
        A2 = wbuf(x, a, n); r = x.call("wwShLoCarry", A2, n, sh, w, ret="w")
        full = a | (w << (W * n))
        chk("wwShLoCarry", rint(A2), (full >> sh) % top)
        # returned: the word shifted out last (bits just below position sh)
        if sh < W * (n + 1):   # beyond that the header leaves the returned word open
            chk("wwShLoCarry ret", r, ((full << W) >> sh) % B)
        A2 = wbuf(x, a, n); r = x.call("wwShHiCarry", A2, n, sh, w, ret="w")
        full = (a << W) | w
        res = full << sh
        chk("wwShHiCarry", rint(A2), (res >> W) % top)
        if sh < W * (n + 1):
            chk("wwShHiCarry ret", r, (res >> (W * (n + 1))) % B)
    if n:
        pos = c["pos"] % (W * n + W)
        A2 = wbuf(x, a, n); x.call("wwTrimLo", A2, n, pos, ret="v"); chk("wwTrimLo", rint(A2), (a >> pos) << pos if pos < W * n else 0)
        A2 = wbuf(x, a, n); x.call("wwTrimHi", A2, n, pos, ret="v"); chk("wwTrimHi", rint(A2), a & ((1 << pos) - 1))
    if n >= 2:
        ctx.nontrivial("ww", n, c["eq"], c["a"][0])
    ctx.sample(c)


S_WW = st.fixed_dictionaries({"n": st.integers(0, 17), "m": st.integers(0, 17), "a": int_spec(17), "b": int_spec(17), "w": int_spec(1),
                              "eq": st.sampled_from(["same", "bit", "any"]), "pos": st.integers(0, 5000), "width": st.integers(0, 64), "shift": st.integers(0, 3000)})


def run_naf(ctx, c):
    """wwNAF: decode the produced NAF and compare with a.  Encoding (ww.h): symbols of w bits... checked via ecMulA in C06;
    here only reconstruct."""
    # decoded in C06 through scalar multiplication results; placeholder to keep the structure explicit
    pass


# ---------------------------------------------------------------- word-level helpers (exhaustive 16-bit)
def _rev(v, bits):
    return int.from_bytes(v.to_bytes(bits // 8, "little"), "big")


def _bitrev(v, bits):
    return int(bin(v)[2:].zfill(bits)[::-1], 2)


def helpers_for(bits, pfx):
    top = 1 << bits
    f = {
        pfx + "Rev": lambda v: _rev(v, bits),
        pfx + "Bitrev": lambda v: _bitrev(v, bits),
        pfx + "Weight": lambda v: bin(v).count("1"),
        pfx + "Parity": lambda v: bin(v).count("1") & 1,
        pfx + "CTZ": lambda v: (v & -v).bit_length() - 1 if v else bits,
        pfx + "CLZ": lambda v: bits - v.bit_length(),
        pfx + "CTZ_fast": lambda v: (v & -v).bit_length() - 1 if v else bits,
        pfx + "CLZ_fast": lambda v: bits - v.bit_length(),
        pfx + "CTZ_safe": None, pfx + "CLZ_safe": None,
        pfx + "Shuffle": lambda v: sum((((v >> i) & 1) << (2 * i)) | (((v >> (i + bits // 2)) & 1) << (2 * i + 1)) for i in range(bits // 2)),
        pfx + "Deshuffle": lambda v: sum((((v >> (2 * i)) & 1) << i) | (((v >> (2 * i + 1)) & 1) << (i + bits // 2)) for i in range(bits // 2)),
        pfx + "NegInv": lambda v: (-pow(v, -1, top)) % top if v & 1 else None,
    }
    return {k: v for k, v in f.items() if v}


def sweep_helpers(ctx, part, nparts):
    x = ctx.x
    W = x.W
    lo = part * 65536 // nparts
    hi = (part + 1) * 65536 // nparts
    fams = [(16, "u16"), (32, "u32"), (64, "u64")]
    wp = {16: "u16", 32: "u32", 64: "u64"}[W]
    n = 0
    for bits, pfx in fams:
        fs = helpers_for(bits, pfx)
        for v0 in range(lo, hi):
            # u16: the complete domain; u32/u64: 16-bit value placed low, high, replicated
            vals = [v0] if bits == 16 else [v0, v0 << (bits - 16), (v0 * 0x9E3779B97F4A7C15) % (1 << bits)]
            for v in vals:
                for name, ref in fs.items():
                    e = ref(v)
                    if e is None:
                        continue
                    r = x.call(name, v, ret="z") & ((1 << bits) - 1)
                    n += 1
                    if r != e:
                        err = Fail("%s(%#x): got %#x expected %#x" % (name, v, r, e))
                        err.case = {"fn": name, "v": v, "bits": bits}
                        raise err
    ctx.count(n)
    ctx.nontrivial("helpers", part)
    for i in range(lo, hi, 97):
        ctx.nontrivial("helpers_v", i)
    if part == 0:
        ctx.sample({"sweep": "u16/u32/u64 helpers", "range": [lo, hi]})


def replay_override(ctx, test, case):
    if test == "helpers16":
        bits = case["bits"]
        fs = helpers_for(bits, "u%d" % bits)
        r = ctx.x.call(case["fn"], case["v"], ret="z") & ((1 << bits) - 1)
        e = fs[case["fn"]](case["v"])
        if r != e:
            raise Fail("%s(%#x): got %#x expected %#x" % (case["fn"], case["v"], r, e))


def tests(tier):
    from props import c05_ring, c05_pp
    t = [
        Test("zz_add", S_ADD, run_zz_add, {"quick": 3000, "thorough": 60000}, CFG_Q),
        Test("zz_mul", S_MUL, run_zz_mul, {"quick": 3000, "thorough": 60000}, CFG_Q),
        Test("zz_gcd", S_GCD, run_zz_gcd, {"quick": 1500, "thorough": 30000}, CFG_Q),
        Test("zz_mod", S_MOD, run_zz_mod, {"quick": 3000, "thorough": 60000}, CFG_Q),
        Test("zz_red", S_RED, run_zz_red, {"quick": 4000, "thorough": 80000}, CFG_Q),
        Test("zz_pow", S_POW, run_zz_pow, {"quick": 1000, "thorough": 20000}, CFG_Q),
        Test("zz_rand", S_RAND, run_zz_rand, {"quick": 1000, "thorough": 20000}, CFG_Q),
        Test("ww", S_WW, run_ww, {"quick": 3000, "thorough": 60000}, CFG_Q),
        Sweep("helpers16", sweep_helpers, 16, ("asan",)),
    ]
    return t + c05_ring.tests(tier) + c05_pp.tests(tier)
