"""C19: all build configurations compute the same function.
The generated cases of C01, C02 (sign), C03, C05, C06 (scalar multiplication), C13 are executed by executors built from the
same tree in different configurations; every one must return what the reference model defines, hence they agree with each other:
{B_PER_W 64, 32} x {SAFE, SAFE_FAST} x {-O0, -O2 with asserts, -O3 NDEBUG, clang -O2} and BASH_PLATFORM in {64, 32, SSE2, AVX2, AVX512}."""
import os
from harness import Test, Sweep

RULE = ("the generators and model oracles of C01/C02/C03/C05/C06/C13 (and the in-configuration differentials of C10/C11) re-run on executors built as: rel (gcc -O3 NDEBUG), relfast (+SAFE_FAST), O0, O2a (-O2, asserts on), clangO2, w32rel (32-bit words, -O2 NDEBUG), w32fast (32-bit words + SAFE_FAST), "
        "bash32/bashsse2/bashavx2/bashavx512 (bash-f platform variants, for every bash/brng-free case); a case is non-trivial by the rule of its home property; identical outputs follow from equality with the same model value")
LEVEL = "exploration"
ASSUMPTIONS = ["compiler flags/versions form an open set: gcc 12 and clang 14 at four optimisation levels are sampled", "big-endian and NEON code paths cannot be executed in this sandbox",
               "the 32-bit word configuration is obtained on x86-64 with -U__SIZEOF_INT128__ (defs.h then selects B_PER_W = 32)"]
BUDGET = {"quick": 360, "thorough": 3000}
GEN = ("rel", "relfast", "O0", "O2a", "clangO2", "w32rel", "w32fast")
BASH = ("bash32", "bash32a", "bashsse2", "bashavx2", "bashavx512", "rel", "w32rel")


def tests(tier):
    from props import c01, c02, c03, c05, c06, c13
    out = []

    def take(mod, pfx, names, cfgs, scale):
        for t in getattr(mod, "own_tests", mod.tests)(tier):
            if t.name in names and t.kind != "sweep":
                n = {k: max(60, int(v * scale)) for k, v in t.n.items()}
                out.append(Test(pfx + "." + t.name, t.strategy, t.run, n, cfgs))
    take(c01, "c01", {"modes", "aead", "wbl_kwp", "prim", "fmt"}, GEN, 0.12)
    take(c03, "c03", {"bash", "prg", "prg_inv"}, BASH, 0.2)
    take(c03, "c03", {"brng", "botp"}, GEN, 0.1)
    take(c05, "c05", {"zz_add", "zz_mul", "zz_mod", "zz_red", "zz_pow", "ww", "ring", "gf2", "pp", "ppmod"}, ("rel", "relfast", "O0", "clangO2", "w32rel", "w32fast"), 0.1)
    take(c02, "c02", {"sign"}, ("rel", "relfast", "w32rel", "clangO2", "O2a"), 0.12)
    take(c06, "c06", {"mul"}, ("rel", "relfast", "O0", "w32rel", "clangO2"), 0.3)
    take(c13, "c13", {"share"}, ("rel", "w32rel", "relfast", "clangO2"), 0.1)
    # in-configuration differentials (overlapped vs disjoint placement, chunked vs one-shot): the same verdict must come out with asserts on
    # (O0 / O2a: a library ASSERT that fires on an admissible call is a difference between the debug and the release build) and off
    from props import c10, c11, c12, c14
    take(c14, "c14", {"safe_fast"}, ("rel", "w32rel", "O0", "clangO2"), 0.1)        # regular and fast editions against the expected value in both word sizes
    take(c12, "c12", {"primes_big", "nextprime", "params_stb99", "seeds"}, ("rel", "w32rel", "w32fast"), 0.15)
    take(c11, "c11", {"overlap"}, ("O2a", "rel", "w32rel", "relfast"), 0.08)
    take(c10, "c10", {"cipher", "mac", "aead", "misc"}, ("O2a", "w32rel", "relfast"), 0.05)
    return out
