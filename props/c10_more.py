"""C10 continued: bash hash, bash programmable automaton, brng, botp."""
from harness import Test, Fail, st
from gens import expand
from props.c10 import St, split, cuts_strategy, nontriv, CFG


def run_bashhash(ctx, c):
    x = ctx.x
    l = c["l"]
    hl = l // 4
    rate = 192 - l // 2
    n = c["n"] if c["n"] >= 0 else max(0, rate * (-c["n"] // 3) + (-c["n"] % 3) - 1)
    msg = expand(c["seed"], n)
    frags = split(n, c["cuts"], rate, "any")
    acts = c["acts"]

    def oneshot(data):
        o = x.out(hl)
        if x.call("bashHash", o, l, x.buf(data), len(data)):
            raise Fail("bashHash failed")
        return o.read()
    S = St(x, x.call("bashHash_keep", ret="z"), ctx)
    x.call("bashHashStart", S.b, l, ret="v")
    done = 0
    used = []
    for i, (a, b) in enumerate(frags + [(n, n)]):
        act = acts[i] if i < len(acts) else ""
        final = i == len(frags)
        if final and not act:
            act = "get"
        if act in ("get", "get2", "ver", "verbad"):
            exp = oneshot(msg[:done])
            tl = hl if act == "get" else 1 + c["tl"] % hl
            if act in ("get", "get2"):
                o = x.out(tl); x.call("bashHashStepG", o, tl, S.b, ret="v"); got, want = o.read(), exp[:tl]
            elif act == "ver":
                got, want = x.call("bashHashStepV", x.buf(exp[:tl]), tl, S.b), 1
            else:
                bad = bytearray(exp[:tl]); bad[c["tl"] % tl] ^= 4
                got, want = x.call("bashHashStepV", x.buf(bytes(bad)), tl, S.b), 0
            if got != want:
                raise Fail("bashHash l=%d %s after %d octets (frags %s)" % (l, act, done, frags))
            used.append(act)
        if not final:
            x.call("bashHashStepH", x.buf(msg[a:b]), b - a, S.b, ret="v")
            done = b
    nontriv(ctx, "bashHash%d" % l, n, frags, rate, used[:-1])
    ctx.sample(c)


S_BASHHASH = st.fixed_dictionaries({
    "l": st.sampled_from(list(range(16, 257, 16))), "seed": st.binary(min_size=1, max_size=4).map(bytes.hex),
    "n": st.one_of(st.integers(-12, -1), st.integers(0, 400)), "cuts": cuts_strategy(),
    "acts": st.lists(st.sampled_from(["", "", "get", "get2", "ver", "verbad"]), max_size=7), "tl": st.integers(0, 255)})


# ---- programmable automaton: each command one-shot vs Start + Steps, two automata in lock step
def run_prg(ctx, c):
    x = ctx.x
    l, d = c["l"], c["d"]
    ann = expand(c["seed"] + "a0", 4 * (c["annw"] % 16))
    klen = 0 if not c["keyed"] else max(l // 8, 4 * (c["keyw"] % 16))
    key = expand(c["seed"] + "b0", klen)
    keep = x.call("bashPrg_keep", ret="z")
    A = x.out(keep); B = x.out(keep)
    for S in (A, B):
        x.call("bashPrgStart", S, l, d, x.buf(ann), len(ann), x.buf(key), len(key), ret="v")
    buf_len = (192 - (l * (2 + d) // 16 if klen else 0) - 0)   # only used to bias lengths; exact rate is not needed for the oracle
    rate = 192 - d * l // 4
    keyed = klen > 0
    nchunk = 0
    for i, (cmd, ln, cuts) in enumerate(c["cmds"]):
        n = ln if ln >= 0 else max(0, rate * (-ln // 3) + (-ln % 3) - 1)
        data = expand(c["seed"] + "%02x" % i, n)
        frags = split(n, cuts, rate, "any")
        if cmd == "restart":
            a2 = expand(c["seed"] + "c%x" % i, 4 * (n % 16))
            k2len = 0 if n % 2 == 0 else max(l // 8, 4 * (n % 16))
            k2 = expand(c["seed"] + "d%x" % i, k2len)
            for S in (A, B):
                x.call("bashPrgRestart", x.buf(a2), len(a2), x.buf(k2), len(k2), S, ret="v")
            if k2len:
                keyed = True
            continue
        if cmd == "ratchet":
            for S in (A, B):
                x.call("bashPrgRatchet", S, ret="v")
            continue
        if cmd in ("encr", "decr") and not keyed:
            cmd = "absorb"
        fn = {"absorb": "Absorb", "squeeze": "Squeeze", "encr": "Encr", "decr": "Decr"}[cmd]
        # A: one-shot
        ba = x.buf(data)
        x.call("bashPrg" + fn, ba, n, A, ret="v")
        # B: Start + Steps
        x.call("bashPrg%sStart" % fn, B, ret="v")
        outb = b""
        for a, b in frags:
            fb = x.buf(data[a:b])
            x.call("bashPrg%sStep" % fn, fb, b - a, B, ret="v")
            outb += fb.read()
        if cmd != "absorb" and ba.read() != outb:
            raise Fail("bashPrg %s #%d (l=%d d=%d n=%d frags=%s): one-shot %s != stepped %s" % (cmd, i, l, d, n, frags, ba.read().hex()[:64], outb.hex()[:64]))
        if len(frags) > 1:
            nchunk += 1
    # final: both automata must be in the same state -> same squeeze
    oa = x.out(64); ob = x.out(64)
    x.call("bashPrgSqueeze", oa, 64, A, ret="v")
    x.call("bashPrgSqueeze", ob, 64, B, ret="v")
    if oa.read() != ob.read():
        raise Fail("bashPrg: automata diverged after commands %s (l=%d d=%d keyed=%s)" % ([(m, n) for m, n, _ in c["cmds"]], l, d, bool(klen)))
    ctx.cls("l%d" % l, "d%d" % d, "keyed" if klen else "keyless")
    if nchunk and len(c["cmds"]) >= 2:
        ctx.nontrivial("prg", l, d, bool(klen), tuple(m for m, _, _ in c["cmds"]), nchunk)
    ctx.sample(c)


S_PRG = st.fixed_dictionaries({
    "l": st.sampled_from([128, 192, 256]), "d": st.sampled_from([1, 2]), "annw": st.integers(0, 15), "keyw": st.integers(0, 15), "keyed": st.booleans(),
    "seed": st.binary(min_size=1, max_size=4).map(bytes.hex),
    "cmds": st.lists(st.tuples(st.sampled_from(["absorb", "squeeze", "encr", "decr", "ratchet", "restart"]), st.one_of(st.integers(-9, -1), st.integers(0, 300)), cuts_strategy()).map(list), min_size=1, max_size=8)})


# ---- brng
def run_brng(ctx, c):
    x = ctx.x
    kind = c["kind"]
    key = expand(c["seed"] + "k", 32 if kind == "CTR" else c["klen"])
    sizes = [1 + s % 100 if s % 5 else 32 * (s % 4) for s in c["sizes"]]
    total = sum(sizes)
    acts = c["acts"]
    if kind == "CTR":
        iv = {"zero": bytes(32), "ff8": b"\xff" * 8 + bytes(24), "ff16": b"\xff" * 16 + bytes(16), "ff24": b"\xff" * 24 + bytes(8),
              "ffm1": b"\xfe" + b"\xff" * 31, "rnd": expand(c["seed"] + "iv", 32)}[c["iv"]]
        # one-shot over the concatenation (zero-filled buffer: its prior content is additional input by definition)
        ob = x.zero(total); IV = x.buf(iv)
        if x.call("brngCTRRand", ob, total, x.buf(key), IV):
            raise Fail("brngCTRRand failed")
        exp = ob.read()
        exp_iv = IV.read()
        S = St(x, x.call("brngCTR_keep", ret="z"), ctx)
        x.call("brngCTRStart", S.b, x.buf(key), x.buf(iv), ret="v")
        out = b""
        for i, n in enumerate(sizes):
            if i < len(acts) and acts[i] == "reloc":
                S.reloc()
            fb = x.zero(n)
            x.call("brngCTRStepR", fb, n, S.b, ret="v")
            out += fb.read()
        if S.moved or len(sizes) > 1:
            ctx.nontrivial("brngCTR", c["iv"], S.moved > 0, tuple(s % 32 for s in sizes))
        # brng.h: blocks of 32 octets are buffered, left-over octets of the last block are returned first; with zero-filled buffers
        # (additional word X = 0 either way) every partition gives the octets of the one-shot call
        if out != exp:
            raise Fail("brngCTR stepped != one-shot (iv=%s sizes=%s moved=%d)" % (c["iv"], sizes, S.moved))
        if all(s % 32 == 0 for s in sizes[:-1]):
            o = x.out(32); x.call("brngCTRStepG", o, S.b, ret="v")
            if o.read() != exp_iv:
                raise Fail("brngCTRStepG != iv returned by brngCTRRand (iv=%s sizes=%s)" % (c["iv"], sizes))
        else:
            # relocation invariance: same schedule without relocation
            S2 = x.out(S.keep); x.call("brngCTRStart", S2, x.buf(key), x.buf(iv), ret="v")
            out2 = b""
            for n in sizes:
                fb = x.zero(n); x.call("brngCTRStepR", fb, n, S2, ret="v"); out2 += fb.read()
            if out != out2:
                raise Fail("brngCTR relocated run != in-place run (iv=%s sizes=%s)" % (c["iv"], sizes))
    else:
        ivl = c["ivlen"]
        iv = expand(c["seed"] + "iv", ivl)
        ob = x.out(total)
        IVb = x.buf(iv)
        if x.call("brngHMACRand", ob, total, x.buf(key), len(key), IVb, ivl):
            raise Fail("brngHMACRand failed")
        exp = ob.read()
        S = St(x, x.call("brngHMAC_keep", ret="z"), ctx)
        IV2 = x.buf(iv)     # stays valid for the whole run (required by the header when iv_len > 64)
        x.call("brngHMACStart", S.b, x.buf(key), len(key), IV2, ivl, ret="v")
        out = b""
        for i, n in enumerate(sizes):
            if i < len(acts) and acts[i] == "reloc":
                S.reloc()
            fb = x.out(n)
            x.call("brngHMACStepR", fb, n, S.b, ret="v")
            out += fb.read()
        if S.moved or len(sizes) > 1:
            ctx.nontrivial("brngHMAC", ivl > 64, S.moved > 0, tuple(s % 32 for s in sizes))
        if out != exp:
            raise Fail("brngHMAC stepped != one-shot (ivlen=%d klen=%d sizes=%s moved=%d)" % (ivl, len(key), sizes, S.moved))
    ctx.cls(kind, "moved" if S.moved else "inplace")
    ctx.sample(c)


S_BRNG = st.fixed_dictionaries({
    "kind": st.sampled_from(["CTR", "HMAC"]), "seed": st.binary(min_size=1, max_size=4).map(bytes.hex), "klen": st.sampled_from([0, 1, 32, 33, 64, 100]),
    "iv": st.sampled_from(["zero", "ff8", "ff16", "ff24", "ffm1", "rnd"]), "ivlen": st.sampled_from([0, 1, 31, 32, 63, 64, 65, 200]),
    "sizes": st.lists(st.integers(0, 1000), min_size=1, max_size=5), "acts": st.lists(st.sampled_from(["", "reloc"]), max_size=5)})


# ---- botp: stepped use vs one-shot, with relocation
def cstr(x, s):
    return x.buf(s.encode() + b"\0")


def run_botp(ctx, c):
    x = ctx.x
    kind = c["kind"]
    key = expand(c["seed"] + "k", c["klen"])
    digit = c["digit"]
    ctr = {"zero": bytes(8), "ff": b"\xff" * 8, "ff4": bytes(4) + b"\xff" * 4, "rnd": expand(c["seed"] + "c", 8)}[c["ctr"]]
    K = x.buf(key)
    rel = 0
    if kind == "HOTP":
        S = St(x, x.call("botpHOTP_keep", ret="z"), ctx)
        x.call("botpHOTPStart", S.b, digit, K, len(key), ret="v")
        x.call("botpHOTPStepS", S.b, x.buf(ctr), ret="v")
        cur = ctr
        for i in range(c["steps"]):
            if (c["relmask"] >> i) & 1:
                S.reloc(); rel += 1
            e = x.out(digit + 1)
            if x.call("botpHOTPRand", e, digit, K, len(key), x.buf(cur)):
                raise Fail("botpHOTPRand failed")
            how = (c["vmask"] >> (2 * i)) & 3
            if how == 1:
                # verify a wrong password: FALSE, counter unchanged
                bad = bytearray(e.read()); bad[i % digit] = 0x30 + (bad[i % digit] - 0x30 + 1 + i) % 10
                if x.call("botpHOTPStepV", x.buf(bytes(bad)), S.b) != 0:
                    raise Fail("HOTP StepV accepted a wrong password")
                g = x.out(8); x.call("botpHOTPStepG", g, S.b, ret="v")
                if g.read() != cur:
                    raise Fail("HOTP: counter changed by a failed StepV: %s -> %s" % (cur.hex(), g.read().hex()))
                continue
            if how == 2:
                if x.call("botpHOTPStepV", x.buf(e.read()), S.b) != 1:
                    raise Fail("HOTP StepV rejected the right password (step %d, ctr %s)" % (i, cur.hex()))
            else:
                o = x.out(digit + 1)
                x.call("botpHOTPStepR", o, S.b, ret="v")
                if o.read() != e.read():
                    raise Fail("HOTP step %d: stepped %r != one-shot %r (ctr=%s relocations %d)" % (i, o.read(), e.read(), cur.hex(), rel))
            cur = ((int.from_bytes(cur, "big") + 1) % (1 << 64)).to_bytes(8, "big")
            g = x.out(8); x.call("botpHOTPStepG", g, S.b, ret="v")
            if g.read() != cur:
                raise Fail("HOTP StepG %s != incremented counter %s" % (g.read().hex(), cur.hex()))
    elif kind == "TOTP":
        S = St(x, x.call("botpTOTP_keep", ret="z"), ctx)
        x.call("botpTOTPStart", S.b, digit, K, len(key), ret="v")
        for i in range(c["steps"]):
            t = int.from_bytes(expand(c["seed"] + "t%d" % i, 5), "little")
            if (c["relmask"] >> i) & 1:
                S.reloc(); rel += 1
            o = x.out(digit + 1); x.call("botpTOTPStepR", o, t, S.b, ret="v")
            e = x.out(digit + 1)
            if x.call("botpTOTPRand", e, digit, K, len(key), t):
                raise Fail("botpTOTPRand failed")
            if o.read() != e.read():
                raise Fail("TOTP step %d: stepped != one-shot (relocations %d)" % (i, rel))
            if x.call("botpTOTPStepV", x.buf(e.read()), t, S.b) != 1:
                raise Fail("TOTP StepV rejects the generated password")
    else:
        suite = c["suite"]
        useC, useP, useS, useT = "-C-" in suite or suite.split(":")[2].startswith("C"), ":P" in suite.replace("-P", ":P") and False, False, False
        data = suite.split(":")[2].split("-")
        useC = "C" in data
        useP = any(f.startswith("P") for f in data)
        sfield = [f for f in data if f.startswith("S")]
        useT = any(f.startswith("T") for f in data)
        qf = [f for f in data if f.startswith("Q")][0]
        qmax = int(qf[2:])
        q = expand(c["seed"] + "q", max(4, min(2 * qmax, c["qlen"])))
        if qf[1] == "N":
            q = bytes(0x30 + b % 10 for b in q)
        elif qf[1] == "A":
            q = bytes(0x41 + b % 26 for b in q)
        plen = {"PSHA1": 20, "PSHA256": 32, "PSHA512": 64, "PHBELT": 32}.get(([f for f in data if f.startswith("P")] + [""])[0], 0)
        p = x.buf(expand(c["seed"] + "p", plen)) if useP else None
        s = x.buf(expand(c["seed"] + "s", int(sfield[0][1:]))) if sfield else None
        t = int.from_bytes(expand(c["seed"] + "t", 5), "little") if useT else 0
        S = St(x, x.call("botpOCRA_keep", ret="z"), ctx)
        if not x.call("botpOCRAStart", S.b, cstr(x, suite), K, len(key)):
            raise Fail("botpOCRAStart rejected suite %s" % suite)
        x.call("botpOCRAStepS", S.b, x.buf(ctr) if useC else None, p, s, ret="v")
        cur = ctr
        dg = int(suite.split(":")[1].split("-")[-1])
        q0 = q
        for i in range(c["steps"]):
            if (c["relmask"] >> i) & 1:
                S.reloc(); rel += 1
            # a fresh question of its own length at every step (shorter and longer than the previous one)
            ql = max(4, min(2 * qmax, (c["qlen"] * (7 * i + 1) + 13 * i) % (2 * qmax + 1)))
            q = q0[:ql] if ql <= len(q0) else (q0 * (ql // len(q0) + 1))[:ql]
            o = x.out(dg + 1)
            x.call("botpOCRAStepR", o, x.buf(q), len(q), t, S.b, ret="v")
            e = x.out(dg + 1)
            err = x.call("botpOCRARand", e, cstr(x, suite), K, len(key), x.buf(q), len(q), x.buf(cur) if useC else None, p, s, t)
            if err:
                raise Fail("botpOCRARand failed %d for %s" % (err, suite))
            if o.read() != e.read():
                raise Fail("OCRA %s step %d: stepped %r != one-shot %r (relocations %d)" % (suite, i, o.read(), e.read(), rel))
            if useC:
                cur = ((int.from_bytes(cur, "big") + 1) % (1 << 64)).to_bytes(8, "big")
            how = (c["vmask"] >> (2 * i)) & 3
            if how:
                # verification on the same state: a wrong password leaves the counter, the right one advances it
                e2 = x.out(dg + 1)
                x.call("botpOCRARand", e2, cstr(x, suite), K, len(key), x.buf(q), len(q), x.buf(cur) if useC else None, p, s, t)
                if how == 1:
                    bad = bytearray(e2.read()); bad[0] = 0x30 + (bad[0] - 0x30 + 3) % 10
                    if x.call("botpOCRAStepV", x.buf(bytes(bad)), x.buf(q), len(q), t, S.b) != 0:
                        raise Fail("OCRA StepV accepted a wrong password")
                    if useC:
                        g = x.out(8); x.call("botpOCRAStepG", g, S.b, ret="v")
                        if g.read() != cur:
                            raise Fail("OCRA: counter changed by a failed StepV")
                    continue
                if x.call("botpOCRAStepV", x.buf(e2.read()), x.buf(q), len(q), t, S.b) != 1:
                    raise Fail("OCRA StepV rejected the right password (%s step %d)" % (suite, i))
            if useC and how:
                cur = ((int.from_bytes(cur, "big") + 1) % (1 << 64)).to_bytes(8, "big")
        ctx.cls("ocra_" + "".join(f[0] for f in data))
    ctx.cls(kind)
    if rel or c["steps"] > 1:
        ctx.nontrivial(kind, c["ctr"], min(rel, 2), c["steps"], c.get("suite") if kind == "OCRA" else digit)
    ctx.sample(c)


def suites():
    hs = st.sampled_from(["HOTP-HBELT"])
    dg = st.sampled_from([4, 5, 6, 7, 8, 9])
    q = st.tuples(st.sampled_from(["QA", "QN", "QH"]), st.sampled_from([4, 8, 10, 32, 64])).map(lambda t: "%s%02d" % t)
    p = st.sampled_from(["", "PSHA1", "PSHA256", "PSHA512", "PHBELT"])
    s = st.sampled_from(["", "S064", "S128", "S512", "S001"])
    t = st.sampled_from(["", "T1M", "T30S", "T12H", "T59S"])
    cnt = st.booleans()
    return st.tuples(hs, dg, cnt, q, p, s, t).map(lambda v: "OCRA-1:%s-%d:%s" % (v[0], v[1], "-".join([f for f in (["C"] if v[2] else []) + [v[3], v[4], v[5], v[6]] if f])))


S_BOTP = st.fixed_dictionaries({
    "kind": st.sampled_from(["HOTP", "TOTP", "OCRA"]), "seed": st.binary(min_size=1, max_size=4).map(bytes.hex), "klen": st.sampled_from([0, 1, 16, 32, 33, 64]),
    "digit": st.sampled_from([6, 7, 8]), "ctr": st.sampled_from(["zero", "ff", "ff4", "rnd"]), "steps": st.integers(1, 5), "relmask": st.integers(0, 31), "vmask": st.integers(0, 1023),
    "suite": suites(), "qlen": st.integers(4, 128)})


def tests(tier):
    return [
        Test("bashhash", S_BASHHASH, run_bashhash, {"quick": 7500, "thorough": 75000}, CFG),
        Test("prg", S_PRG, run_prg, {"quick": 7500, "thorough": 75000}, CFG),
        Test("brng", S_BRNG, run_brng, {"quick": 7500, "thorough": 75000}, CFG),
        Test("botp", S_BOTP, run_botp, {"quick": 7500, "thorough": 75000}, CFG),
    ]
