"""C13: bels secret sharing - shares equal STB 34.101.60, any threshold-sized subset in any order recovers the secret,
generated user keys are valid and deterministic in the identifier.  Oracle: pyref/bels.py (GF(2)[x] as ints) + recovery identity."""
import itertools, os
from harness import Test, Sweep, Fail, st, GEN
from gens import expand
import pyref.bels as RB
from errs import E, name as ename

RULE = ("cases: secret length 16/24/32 x count 1..16 x threshold 1..count x standard keys (belsShare2/3, Recover2) and generated keys (belsGenM0/Mi/Mid from tapes/ids) x secrets and tapes (random, all-zero, all-FF), the number of generator octets drawn per sharing = (threshold - 1) * len; "
        "subsets: every subset of size >= threshold in every order for count <= 5 (sweep, exhaustive), sampled subsets/orders above; "
        "non-trivial: subset not a prefix, order not ascending, threshold not in {1,count}; distinct by (len, count, threshold, subset, order class)")
LEVEL = "exploration"
ASSUMPTIONS = ["pyref/bels.py (validated on tables A.1-A.4, B.1-B.7 of bels_test.c) and pyref/gf2x.py are correct",
               "subsets below the threshold are only required not to crash (bels.h: recovery then 'succeeds' with a wrong secret)"]
EXHAUSTIVE_NOTE = ["all (count <= 5, threshold, subset of size >= threshold, ordering) for len 16 (quick) / 16, 24, 32 (thorough) with the standard keys"]
BUDGET = {"quick": 240, "thorough": 3000}
CFG = tuple(os.environ.get("VERIF_CFG", "asan").split(","))


def secret_of(c, ln):
    return {"zero": bytes(ln), "ff": b"\xff" * ln}.get(c["sc"]) or expand(c["seed"] + "s", ln)


def drawn(T, fn, thr, ln):
    """the sharing algorithm of STB 34.101.60 uses (threshold - 1) * len generator octets: drawing more (or less) shifts the stream, so that the next sharing
    on the same generator state no longer gives the shares the standard defines for that generator"""
    pos = int.from_bytes(T.read(0, 8), "little")
    if pos != (thr - 1) * ln:
        raise Fail("%s (threshold %d, len %d) drew %d octets from the generator, the algorithm uses (threshold - 1) * len = %d: the next sharing on this generator state differs from the standard" %
                   (fn, thr, ln, pos, (thr - 1) * ln))


def run_share(ctx, c):
    x = ctx.x
    ln, cnt = c["len"], c["count"]
    if c["keys"] != "std":
        # key generation is expensive in the model (irreducibility tests in pure Python): small instances
        cnt = 1 + cnt % 4
        if ctx.tier == "quick" or c["thr"] % 3:
            ln = 16
    thr = 1 + c["thr"] % cnt
    s = secret_of(c, ln)
    k = {"zero": bytes((thr - 1) * ln), "ff": b"\xff" * ((thr - 1) * ln)}.get(c["kc"]) or expand(c["seed"] + "k", (thr - 1) * ln)
    if c["keys"] == "std":
        o = x.out(cnt * (ln + 1))
        T = x.tape(k, mode=1)
        r = x.call("belsShare2", o, cnt, thr, ln, x.buf(s), GEN, T)
        if r:
            raise Fail("belsShare2 failed: %s" % ename(r))
        drawn(T, "belsShare2", thr, ln)
        sh = [o.read()[i * (ln + 1):(i + 1) * (ln + 1)] for i in range(cnt)]
        exp = RB.share2(s, cnt, thr, k)
        if sh != exp:
            raise Fail("belsShare2 != model (len=%d count=%d threshold=%d)" % (ln, cnt, thr))
        # deterministic variant must be recoverable too
        o3 = x.out(cnt * (ln + 1))
        if x.call("belsShare3", o3, cnt, thr, ln, x.buf(s)):
            raise Fail("belsShare3 failed")
        sh3 = [o3.read()[i * (ln + 1):(i + 1) * (ln + 1)] for i in range(cnt)]
        sets = [(sh, "share2"), (sh3, "share3")]
        m0 = mis = None
    else:
        # generated keys: m0 from a tape, user keys from tapes / ids
        m0b = x.out(ln)
        tape0 = expand(c["seed"] + "m0", ln * 2500)
        r = x.call("belsGenM0", m0b, ln, GEN, x.tape(tape0, mode=0))
        if r:
            raise Fail("belsGenM0 failed: %s" % ename(r))
        m0 = m0b.read()
        if m0 != RB.gen_m0(ln, tape0):
            raise Fail("belsGenM0 != model (len=%d)" % ln)
        if x.call("belsValM", m0b, ln):
            raise Fail("belsValM rejects a generated m0")
        mis = []
        for i in range(cnt):
            mb = x.out(ln)
            if c["keys"] == "mid":
                ident = expand(c["seed"] + "id%d" % i, 1 + (i * 7) % 40)
                r = x.call("belsGenMid", mb, ln, m0b, x.buf(ident), len(ident))
                if r:
                    raise Fail("belsGenMid failed: %s" % ename(r))
                if mb.read() != RB.gen_mid(ln, m0, ident):
                    raise Fail("belsGenMid != model (len=%d id=%s)" % (ln, ident.hex()))
                mb2 = x.out(ln)
                x.call("belsGenMid", mb2, ln, m0b, x.buf(ident), len(ident))
                if mb2.read() != mb.read():
                    raise Fail("belsGenMid is not deterministic in the identifier")
            else:
                # candidates the algorithm must reject come first on some tapes: conjugates of x (their minimal polynomial is x^l + m0 itself),
                # 0 and 1 (degree < l); three rejections in a row exhaust the attempts
                X = lambda j: (1 << (1 << j)).to_bytes(ln, "little")
                sel = expand(c["seed"] + "rj%d" % i, 2)
                pre = [[], [X(0)], [X(1), (1).to_bytes(ln, "little")], [bytes(ln)], [X(2), X(0)], [X(0), X(1), X(2)], [], [],
                       # low-degree / sparse field elements as candidates (accepted or not as the algorithm says): long quotients in the
                       # Euclidean sequence of the minimal-polynomial computation
                       [(sel[1] % 61 + 3).to_bytes(ln, "little")], [X(0), (sel[1] | 0x100).to_bytes(ln, "little")], [((1 << (8 * ln - 1)) | sel[1]).to_bytes(ln, "little")],
                       [((1 << (sel[1] % (8 * ln))) | 1).to_bytes(ln, "little")]][sel[0] % 12]
                tp = b"".join(pre) + expand(c["seed"] + "mi%d" % i, ln * 2500)
                r = x.call("belsGenMi", mb, ln, m0b, GEN, x.tape(tp, mode=0))
                want = RB.gen_mi(ln, m0, tp)
                ctx.cls("genmi_rejected_%d" % len(pre))
                if want is None:
                    if r == 0:
                        raise Fail("belsGenMi returns ERR_OK after %d rejected candidates (len=%d)" % (len(pre), ln))
                    tp = expand(c["seed"] + "mj%d" % i, ln * 2500)
                    r = x.call("belsGenMi", mb, ln, m0b, GEN, x.tape(tp, mode=0))
                    want = RB.gen_mi(ln, m0, tp)
                if r:
                    raise Fail("belsGenMi failed: %s" % ename(r))
                if mb.read() != want:
                    raise Fail("belsGenMi != model (len=%d, %d rejected candidates first): %s vs %s" % (ln, len(pre), mb.read().hex(), want.hex()))
            if x.call("belsValM", mb, ln):
                raise Fail("belsValM rejects a generated user key")
            mis.append(mb.read())
        if len(set(mis)) != len(mis) or m0 in mis:
            return      # colliding identifiers: not an admissible key set
        o = x.out(cnt * ln)
        T = x.tape(k, mode=1)
        r = x.call("belsShare", o, cnt, thr, ln, x.buf(s), m0b, x.buf(b"".join(mis)), GEN, T)
        if r:
            raise Fail("belsShare failed: %s" % ename(r))
        drawn(T, "belsShare", thr, ln)
        sh = [o.read()[i * ln:(i + 1) * ln] for i in range(cnt)]
        if sh != RB.share(s, cnt, thr, m0, mis, k):
            raise Fail("belsShare != model (len=%d count=%d threshold=%d keys=%s)" % (ln, cnt, thr, c["keys"]))
        sets = [(sh, "share")]
    # recovery from generated subsets / orders
    rnd = __import__("random").Random(c["seed"])
    for shares, tag in sets:
        for _ in range(3):
            size = rnd.randint(thr, cnt)
            idx = rnd.sample(range(cnt), size)
            recover_check(ctx, x, ln, shares, idx, s, m0, mis, "%s len=%d count=%d thr=%d" % (tag, ln, cnt, thr))
            if idx != sorted(idx) or idx != list(range(size)) or thr not in (1, cnt):
                ctx.nontrivial("recover", ln, cnt, thr, size, idx == sorted(idx))
        # one short of the threshold: must not crash (result unspecified)
        if thr > 1:
            idx = rnd.sample(range(cnt), thr - 1)
            recover_call(x, ln, shares, idx, m0, mis)
    ctx.cls("keys_" + c["keys"], "len%d" % ln)
    ctx.sample(c)


def recover_call(x, ln, shares, idx, m0, mis):
    o = x.out(ln)
    if m0 is None:
        r = x.call("belsRecover2", o, len(idx), ln, x.buf(b"".join(shares[i] for i in idx)))
    else:
        r = x.call("belsRecover", o, len(idx), ln, x.buf(b"".join(shares[i] for i in idx)), x.buf(m0), x.buf(b"".join(mis[i] for i in idx)))
    return r, o.read()


def recover_check(ctx, x, ln, shares, idx, s, m0, mis, what):
    r, got = recover_call(x, ln, shares, idx, m0, mis)
    if r:
        raise Fail("belsRecover failed (%s) on subset %s: %s" % (what, idx, ename(r)))
    if got != s:
        raise Fail("belsRecover(%s, subset %s) = %s != secret %s" % (what, idx, got.hex(), s.hex()))


S_SHARE = st.fixed_dictionaries({
    "len": st.sampled_from([16, 24, 32]), "count": st.integers(1, 16), "thr": st.integers(0, 15), "seed": st.binary(min_size=1, max_size=4).map(bytes.hex),
    "sc": st.sampled_from(["rnd", "rnd", "zero", "ff"]), "kc": st.sampled_from(["rnd", "rnd", "zero", "ff"]), "keys": st.sampled_from(["std", "std", "std", "std", "std", "std", "mi", "mid"])})


def sweep_subsets(ctx, part, nparts):
    """count <= 5: every subset of size >= threshold in every order (standard keys)"""
    x = ctx.x
    n = 0
    lens = [16] if ctx.tier == "quick" else [16, 24, 32]
    combos = [(ln, cnt, thr) for ln in lens for cnt in range(1, 6) for thr in range(1, cnt + 1)]
    for j, (ln, cnt, thr) in enumerate(combos):
        if j % nparts != part:
            continue
        x.reset()
        s = expand("sw%d%d%d" % (ln, cnt, thr), ln)
        k = expand("swk%d%d%d" % (ln, cnt, thr), (thr - 1) * ln)
        o = x.out(cnt * (ln + 1))
        if x.call("belsShare2", o, cnt, thr, ln, x.buf(s), GEN, x.tape(k, mode=1)):
            raise Fail("belsShare2 failed")
        sh = [o.read()[i * (ln + 1):(i + 1) * (ln + 1)] for i in range(cnt)]
        if sh != RB.share2(s, cnt, thr, k):
            e = Fail("belsShare2 != model (len=%d count=%d thr=%d)" % (ln, cnt, thr)); e.case = {"len": ln, "count": cnt, "thr": thr}
            raise e
        for size in range(thr, cnt + 1):
            for sub in itertools.combinations(range(cnt), size):
                for order in itertools.permutations(sub):
                    r, got = recover_call(x, ln, sh, list(order), None, None)
                    n += 1
                    if r or got != s:
                        e = Fail("belsRecover2(len=%d count=%d thr=%d order=%s): %s, got %s" % (ln, cnt, thr, order, ename(r), got.hex()))
                        e.case = {"len": ln, "count": cnt, "thr": thr}
                        raise e
                    if n % 50 == 0:
                        x.reset()
                        ctx.nontrivial("subset", ln, cnt, thr, order)
    ctx.count(n)
    if part == 0:
        ctx.sample({"sweep": "all subsets and orders, count <= 5", "lens": lens})


def replay_override(ctx, test, case):
    if test == "genmi":
        genmi_one(ctx.x, case["ln"], case["u"], None)
        return
    sweep_subsets(ctx, 0, 1)


def genmi_one(x, ln, u, m0b):
    m0 = RB.std_m(ln, 0)
    if m0b is None:
        x.reset()
        m0b = x.buf(m0)
    tp = u.to_bytes(ln, "little") + expand("genmi%d" % ln, 2 * ln)
    mb = x.out(ln)
    r = x.call("belsGenMi", mb, ln, m0b, GEN, x.tape(tp, mode=0))
    want = RB.gen_mi(ln, m0, tp)
    if (want is None) != (r != 0) or (want is not None and mb.read() != want):
        e = Fail("belsGenMi(len=%d, standard m0, first candidate u = %#x): %s %s, the algorithm gives %s" % (ln, u, ename(r), mb.read().hex(), want.hex() if want else "no key"))
        e.case = {"ln": ln, "u": u}
        raise e
    if want is not None and x.call("belsValM", mb, ln):
        e = Fail("belsValM rejects the key generated from u = %#x (len=%d)" % (u, ln)); e.case = {"ln": ln, "u": u}
        raise e


def sweep_genmi(ctx, part, nparts):
    """belsGenMi with the standard common key of each length and structured first candidates (every small field element, single and double
    bits, runs of ones): the key must be the one the algorithm defines - the random tapes of the share test never produce such elements"""
    x = ctx.x
    n = 0
    for ln in (16, 24, 32):
        m0 = RB.std_m(ln, 0)
        l = 8 * ln
        cands = list(range(0, 400 if ctx.tier == "quick" else 3000))
        cands += [1 << i for i in range(l)] + [(1 << i) | 1 for i in range(1, l)] + [(1 << i) - 1 for i in range(2, l + 1)] + [((1 << l) - 1) ^ (1 << i) for i in range(0, l, 7)]
        k = 0
        for j, u in enumerate(cands):
            if j % nparts != part:
                continue
            if k % 64 == 0:
                x.reset()
                m0b = x.buf(m0)
            k += 1
            genmi_one(x, ln, u, m0b)
            n += 1
    ctx.count(n)
    ctx.nontrivial("genmi_struct", part)


def tests(tier):
    return [
        Test("share", S_SHARE, run_share, {"quick": 800, "thorough": 16000}, CFG),
        Sweep("genmi", sweep_genmi, 16, CFG),
        Sweep("subsets", sweep_subsets, 16, CFG),
    ]
