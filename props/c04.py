"""C04: bake (BMQV, BSTS, BPACE) and the token protocol BAUTH: honest runs agree on one key, tampered runs never do.

No reference model of the protocols is needed: the oracle is the agreement of the two parties (honest runs) and the
behaviour the standard's step lists prescribe for altered messages (tampered runs).  The only arithmetic done in Python
is "is this (x, y) a point of the curve" (pyref/ec.py) and the key pairs (pyref/bign.py).

Oracles for a tampered run (DESIGN 4.4), everything re-run from fresh states with the same generator tapes:
  weak   (always)  never (every step ERR_OK and keyA == keyB);
  strong           the step named by expect()/expect_mismatch() returns non-OK and every step before it returns ERR_OK
                   (the verifying step of the first confirmation tag / signature-like value that covers the alteration);
                   where no confirmation covers it: every step ERR_OK and keyA != keyB;
  point            an off-curve / out-of-range / zero point makes the receiving step return non-OK.
"""
import os
from harness import Test, Sweep, Fail, st, Sym
from gens import expand
import pyref.bign as RB
import pyref.belt as BELT
from errs import name as ename

RULE = ("cases: 3 bign curves (l=128 mostly in quick) x {BMQV (kca,kcb in {0,1}^2), BSTS (1,1), BPACE ({0,1}^2), BAUTH (1,{0,1})} x hello strings "
        "(null / empty / 1..64 octets, each side) x certificates name||pubkey with names 0..20 (and 330..700 for the multi-block read path of the BSTS drivers) "
        "x passwords 0..40 octets x generator tapes (rejected samples 0 / 2^2l-1 / q before the ephemeral key, ephemeral key in {1, 2, q-1, random}, tape tail then filler); "
        "honest: step by step on states of exactly keep(l) octets + RunA/RunB fed from the recorded messages; long-term keys tied to the tapes so that the transmitted response sa / sb / sct is 0 (BSTS, BAUTH with kcb); "
        "NULL passed for the output of a step that sends nothing in the flag setting; "
        "tampering (full re-run from fresh states, same tapes): single-octet xor of every field of every message M1..M4, truncation by one octet (BSTS M2/M3, BAUTH M3), "
        "point := (0,0), (x,y+1), x>=p, y>=p, point of the twist, (x,0) (order 2 on an invalid curve; BAUTH: with Rct re-wrapped under the predictable key), (x,p-y) where y is bound (BMQV, BSTS, BAUTH with kcb); different passwords; unrelated private key / certificate. "
        "non-trivial: any tampered or mismatched run, any RunA/RunB run, kca != kcb; distinct by (protocol, l, kca, kcb, message, field, kind, outcome)")
LEVEL = "exploration"
ASSUMPTIONS = ["bign key pairs are produced by pyref/bign.py (checked against the library in C02)",
               "a single-octet change of a coordinate leaves the curve (verified per case with pyref/ec.py; the on-curve accident would fall back to the weak form)",
               "accidental equality of two independently derived 32-octet keys / 8-octet tags has negligible probability (2^-64 per tag case)"]
BUDGET = {"quick": 300, "thorough": 3000}
CFG = tuple(os.environ.get("VERIF_CFG", "asan").split(","))
STD = {128: "1.2.112.0.2.0.34.101.45.3.1", 192: "1.2.112.0.2.0.34.101.45.3.2", 256: "1.2.112.0.2.0.34.101.45.3.3"}
CERTVAL, CH_READ, CH_WRITE = Sym("x_bake_certval"), Sym("x_ch_read"), Sym("x_ch_write")
CERTVAL2 = Sym("x_bake_certval2")
OK = 0

# (proto, kca, kcb) admitted by the headers: BSTS demands kca == kcb == TRUE (bake.h), BAUTH demands kca == TRUE (btok.h)
COMBOS = [("BMQV", a, b) for a in (False, True) for b in (False, True)] + [("BSTS", True, True)] + \
         [("BPACE", a, b) for a in (False, True) for b in (False, True)] + [("BAUTH", True, False), ("BAUTH", True, True)]
FN = {
    "BMQV": {"keep": ("bakeBMQV_keep", "bakeBMQV_keep"), "start": ("bakeBMQVStart", "bakeBMQVStart"), "g": ("bakeBMQVStepG", "bakeBMQVStepG")},
    "BSTS": {"keep": ("bakeBSTS_keep", "bakeBSTS_keep"), "start": ("bakeBSTSStart", "bakeBSTSStart"), "g": ("bakeBSTSStepG", "bakeBSTSStepG")},
    "BPACE": {"keep": ("bakeBPACE_keep", "bakeBPACE_keep"), "start": ("bakeBPACEStart", "bakeBPACEStart"), "g": ("bakeBPACEStepG", "bakeBPACEStepG")},
    # BAUTH: side A = terminal T, side B = token CT (btok.h)
    "BAUTH": {"keep": ("btokBAuthT_keep", "btokBAuthCT_keep"), "start": ("btokBAuthTStart", "btokBAuthCTStart"), "g": ("btokBAuthTStepG", "btokBAuthCTStepG")},
}
# octets drawn from the generator before the ephemeral scalar, per (protocol, role)
PRE = {("BPACE", "a"): 2, ("BPACE", "b"): 2, ("BAUTH", "b"): 2}     # in units of no / 4  (no / 2 octets: Ra / Rb / Rct)


class Pool:
    """buffers of one protocol run, released together"""

    def __init__(self, x):
        self.x, self.bufs = x, []

    def buf(self, data):
        b = self.x.buf(data); self.bufs.append(b); return b

    def out(self, n):
        b = self.x.out(n); self.bufs.append(b); return b

    def tape(self, data):
        b = self.x.tape(data, 0); self.bufs.append(b); return b

    def free(self):
        for b in self.bufs:
            self.x.free(b)
        self.bufs = []


# ------------------------------------------------------------------ case material
def mk_env(x, c):
    l = c["l"]
    M = RB.std_params(l)
    q, p, no = M["q"], M["p"], l // 4
    sd = c["seed"]
    env = {"c": c, "l": l, "M": M, "q": q, "p": p, "no": no, "proto": c["proto"], "kca": bool(c["kca"]), "kcb": bool(c["kcb"]), "sd": sd, "shared": bool(c.get("shared")), "fmt2": bool(c.get("fmt2"))}

    def scal(tag):
        return int.from_bytes(expand(sd + tag, no + 8), "little") % (q - 1) + 1
    env["scal"] = scal
    for r in "ab":
        h = c["h" + r]
        env["h" + r] = None if h is None else expand(sd + "h" + r, h)
    if env["proto"] == "BPACE":
        env["pwd"] = expand(sd + "pw", c["pw"])
    else:
        for r in "ab":
            d = scal("d" + r)
            if c.get("resp0") == r and (env["proto"] == "BSTS" or (env["proto"] == "BAUTH" and r == "b" and env["kcb"])):
                d = zero_response_key(env, r)
                env["resp0"] = r
            env["d" + r] = d
            env["cert" + r] = expand(sd + "n" + r, c["n" + r]) + RB.point_to_octets(M, RB.pubkey_calc(M, d))
            if r == "b" and c.get("fmt2"):
                # B's certificate in a second format with a validator of its own: public key first, name, marker octet
                env["certb"] = RB.point_to_octets(M, RB.pubkey_calc(M, d)) + expand(sd + "nb", c["nb"]) + b"\xA5"
        if env["proto"] == "BSTS":
            # the channel convention of the test suite cannot express a message whose length is a multiple of the 512-octet read block
            if (3 * no + len(env["certa"]) + 8) % 512 == 0:
                env["certa"] = b"\x01" + env["certa"]
            if (no + len(env["certb"]) + 8) % 512 == 0:
                # (the second format starts with the public key: the extra octet goes into the name, behind the key)
                env["certb"] = env["certb"][:2 * no] + b"\x01" + env["certb"][2 * no:] if c.get("fmt2") else b"\x01" + env["certb"]
    P = x.out(x.call("x_bake_params_size", ret="z"))
    r = x.call("bignParamsStd", P, x.buf(STD[l].encode() + b"\0"))
    if r:
        raise Fail("bignParamsStd failed %s" % ename(r))
    env["P"] = P
    env["sizes"] = (x.call("x_bake_settings_size", ret="z"), x.call("x_bake_cert_size", ret="z"))
    env["keep"] = tuple(x.call(f, l, ret="z") for f in FN[env["proto"]]["keep"])
    return env


def other_pair(env, tag, namelen=3):
    """an unrelated valid key pair and its certificate"""
    d = env["scal"]("dx" + tag)
    return d, expand(env["sd"] + "nx" + tag, namelen) + RB.point_to_octets(env["M"], RB.pubkey_calc(env["M"], d))


def tape_u(env, role):
    """the ephemeral scalar the tape of `role` delivers"""
    u = {"one": 1, "two": 2, "qm1": env["q"] - 1}.get(env["c"]["t" + role]["u"])
    return env["scal"]("u" + role) if u is None else u


def mk_tape(env, role):
    no, q, sd = env["no"], env["q"], env["sd"]
    spec = env["c"]["t" + role]
    t = expand(sd + role + "p", PRE.get((env["proto"], role), 0) * no // 4)
    for r in spec["rej"]:
        t += {"zero": 0, "max": (1 << (8 * no)) - 1, "q": q}[r].to_bytes(no, "little")
    return t + tape_u(env, role).to_bytes(no, "little") + expand(sd + role + "t", spec["tail"])


def tape_octets(tape, n):
    """the first n octets a mode-0 tape delivers (x/shim.c: filler 0x5A + 7 i + (i >> 8) after the end)"""
    return (tape + bytes((0x5A + 7 * i + (i >> 8)) & 255 for i in range(max(0, n - len(tape)))))[:n]


def zero_response_key(env, role):
    """the long-term key of `role` for which the Schnorr-type response s = (u - (2^l + t) d) mod q that travels (encrypted) in its message is 0:
    d = u (2^l + t)^-1 mod q, t = <beltHash(...)>_l built from the ephemeral values of the two tapes (bake.c Step3/Step4, btok_bauth.c CTStep4).
    The responses range over {0, ..., q - 1}; 0 is an honest value like any other."""
    M, no, q, l = env["M"], env["no"], env["q"], env["l"]
    xof = lambda u: RB.point_to_octets(M, RB.pubkey_calc(M, u))[:no]
    if env["proto"] == "BSTS":
        t = BELT.hash(xof(tape_u(env, "a")) + xof(tape_u(env, "b")))
    else:
        t = BELT.hash(xof(tape_u(env, "b")) + tape_octets(mk_tape(env, "a"), 16))      # <Vct>_2l || Rt, Rt = the terminal's only draw
    t = int.from_bytes(t[:no // 2], "little")
    return tape_u(env, role) * pow((1 << l) + t, -1, q) % q


def plan(env):
    """steps: (role, function, argument template, index of the consumed message, length of out or None, is out sent)"""
    no, kca, kcb, pr = env["no"], env["kca"], env["kcb"], env["proto"]
    if pr == "BMQV":
        s = [("b", "bakeBMQVStep2", "os", None, 2 * no, True),
             ("a", "bakeBMQVStep3", "oips", 0, 2 * no + (8 if kca else 0), True),
             ("b", "bakeBMQVStep4", "oips", 1, 8 if kcb else 0, kcb)]
        if kcb:
            s.append(("a", "bakeBMQVStep5", "is", 2, None, False))
    elif pr == "BSTS":
        ca, cb = len(env["certa"]), len(env["certb"])
        s = [("b", "bakeBSTSStep2", "os", None, 2 * no, True),
             ("a", "bakeBSTSStep3", "ois", 0, 3 * no + ca + 8, True),
             ("b", "bakeBSTSStep4", "oilvs", 1, no + cb + 8, True),
             ("a", "bakeBSTSStep5", "ilvs", 2, None, False)]
    elif pr == "BPACE":
        s = [("b", "bakeBPACEStep2", "os", None, no // 2, True),
             ("a", "bakeBPACEStep3", "ois", 0, 5 * no // 2, True),
             ("b", "bakeBPACEStep4", "ois", 1, 2 * no + (8 if kcb else 0), True),
             ("a", "bakeBPACEStep5", "ois", 2, 8 if kca else 0, kca)]
        if kca:
            s.append(("b", "bakeBPACEStep6", "is", 3, None, False))
    else:
        cb = len(env["certb"])
        s = [("b", "btokBAuthCTStep2", "ops", None, 2 * no + no // 2 + 16, True),
             ("a", "btokBAuthTStep3", "ois", 0, 8 + (16 if kcb else 0), True),
             ("b", "btokBAuthCTStep4", "ois", 1, (no + cb + 8) if kcb else 0, kcb)]
        if kcb:
            s.append(("a", "btokBAuthTStep5", "ilvs", 2, None, False))
    return s


def layout(env):
    """fields of every transmitted message: [(name, length, kind)], kind in pt / tag / enc"""
    no, kca, kcb, pr = env["no"], env["kca"], env["kcb"], env["proto"]
    if pr == "BMQV":
        L = [[("Vb", 2 * no, "pt")], [("Va", 2 * no, "pt")] + ([("Ta", 8, "tag")] if kca else [])] + ([[("Tb", 8, "tag")]] if kcb else [])
    elif pr == "BSTS":
        L = [[("Vb", 2 * no, "pt")], [("Va", 2 * no, "pt"), ("Ya", no + len(env["certa"]), "enc"), ("Ta", 8, "tag")],
             [("Yb", no + len(env["certb"]), "enc"), ("Tb", 8, "tag")]]
    elif pr == "BPACE":
        L = [[("Yb", no // 2, "enc")], [("Ya", no // 2, "enc"), ("Va", 2 * no, "pt")], [("Vb", 2 * no, "pt")] + ([("Tb", 8, "tag")] if kcb else [])] + \
            ([[("Ta", 8, "tag")]] if kca else [])
    else:
        L = [[("Vct", 2 * no, "pt"), ("Zct", no // 2 + 16, "enc")], [("Tt", 8, "tag")] + ([("Rt", 16, "enc")] if kcb else [])] + \
            ([[("Yct", no + len(env["certb"]), "enc"), ("Tct", 8, "tag")]] if kcb else [])
    return L


def field_at(lay, pos):
    off = 0
    for name, ln, kind in lay:
        if pos < off + ln:
            return name, off, ln, kind
        off += ln
    raise ValueError(pos)


def point_field(lay):
    off = 0
    for name, ln, kind in lay:
        if kind == "pt":
            return name, off, ln
        off += ln
    return None


# ------------------------------------------------------------------ one protocol run, step by step
def do_run(x, env, mitm=None, ov=None, stop_at=None):
    """mitm = (message index, bytes -> bytes); ov = overrides {'da','db','certa','certb','certa@b','certb@a','pwda','pwdb'}.
    stop_at = name of a step: the run stops before it and res['pending'] = (function, argument list, incoming message) is left to the caller (buffers stay allocated).
    -> {'steps': [(fn, err)], 'fail': (fn, err) | None, 'msgs': sent messages, 'keya', 'keyb'}"""
    ov = ov or {}
    pool = Pool(x)
    pr, no, kca, kcb, P = env["proto"], env["no"], env["kca"], env["kcb"], env["P"]
    res = {"steps": [], "fail": None, "msgs": [], "keya": None, "keyb": None}

    def mkcert(data, who="a"):
        C = pool.out(env["sizes"][1])
        x.call("x_bake_cert2" if (who == "b" and env["fmt2"]) else "x_bake_cert", C, pool.buf(data), len(data), ret="v")
        return C

    def done(fn, r):
        res["steps"].append((fn, r))
        if r:
            res["fail"] = (fn, r)
            pool.free()
        return r
    party = {}
    for i, role in enumerate("ab"):
        T = pool.tape(mk_tape(env, role))
        ha, hb = env["ha"], env["hb"]
        S = pool.out(env["sizes"][0])
        x.call("x_bake_settings", S, kca, kcb, pool.buf(ha) if ha is not None else None, len(ha or b""),
               pool.buf(hb) if hb is not None else None, len(hb or b""), T, ret="v")
        state = pool.out(env["keep"][i])
        fn = FN[pr]["start"][i]
        if pr == "BPACE":
            pwd = ov.get("pwd" + role, env["pwd"])
            r = x.call(fn, state, P, S, pool.buf(pwd), len(pwd))
            peer = None
        else:
            d = ov.get("d" + role, env["d" + role])
            r = x.call(fn, state, P, S, pool.buf(d.to_bytes(no, "little")), mkcert(ov.get("cert" + role, env["cert" + role]), role))
            o = "b" if role == "a" else "a"
            peer = mkcert(ov.get("cert%s@%s" % (o, role), env["cert" + o]), o)
        party[role] = (state, peer)
        if done(fn + ":" + role, r):
            return res
    for role, fn, tmpl, inp, outlen, send in plan(env):
        state, peer = party[role]
        m = None
        if inp is not None:
            m = res["msgs"][inp]
            if mitm is not None and mitm[0] == inp:
                m = mitm[1](m)
        out = pool.out(outlen) if outlen is not None else None
        if outlen == 0 and env["c"].get("nullout"):
            out = None          # no message in this flag setting; mem.h: "Нулевой указатель buf является корректным, если count == 0"
            res["nullout"] = True
        inb = None
        if env.get("shared") and out is not None and m is not None and "i" in tmpl and "o" in tmpl:
            # one transport buffer for the incoming and the outgoing message (as the library's own BAUTH test drives the steps: Step(buf, buf, state))
            out = inb = pool.buf(m + b"\xCC" * max(0, outlen - len(m)))
        args = []
        for t in tmpl:
            args.append({"o": out, "i": (inb if inb is not None else pool.buf(m)) if t == "i" else None, "l": len(m) if m is not None else 0, "p": peer, "v": CERTVAL2 if (env["fmt2"] and role == "a") else CERTVAL, "s": state}[t])
        if fn == stop_at:
            res["pending"] = (fn, args, m, tmpl)
            return res
        if done(fn, x.call(fn, *args)):
            return res
        if send:
            res["msgs"].append(out.read(0, outlen))
    for i, role in enumerate("ab"):
        k = pool.out(32)
        fn = FN[pr]["g"][i]
        if done(fn + ":" + role, x.call(fn, k, party[role][0])):
            return res
        res["key" + role] = k.read()
    pool.free()
    return res


def senders(env):
    return [role for role, fn, tmpl, inp, outlen, send in plan(env) if send]


def driver_args(x, env, role, msgs, tamper=None, pool=None, secret=None):
    """arguments of RunA / RunB of `role` fed with the messages of the other side (message `tamper[0]` replaced by tamper[1]).
    secret: buffer to pass as the password / private key instead of a fresh one.  -> (function, args, channel buffer, key buffer, outs, number of incoming messages)"""
    pool = pool or Pool(x)
    pr, no, kca, kcb, P = env["proto"], env["no"], env["kca"], env["kcb"], env["P"]
    snd = senders(env)
    inc = []
    for i, m in enumerate(msgs):
        if snd[i] != role:
            inc.append(tamper[1] if tamper is not None and tamper[0] == i else m)
    outs = [m for i, m in enumerate(msgs) if snd[i] == role]
    inarea = b"".join(len(m).to_bytes(8, "little") + m for m in inc)
    cap = sum(8 + len(m) for m in outs) + 32
    hdr = [len(inc), 0, 0, len(inarea), 0, 0, cap, 0]
    CH = pool.buf(b"".join(v.to_bytes(8, "little") for v in hdr) + inarea + bytes(cap))
    T = pool.tape(mk_tape(env, role))
    ha, hb = env["ha"], env["hb"]
    S = pool.out(env["sizes"][0])
    x.call("x_bake_settings", S, kca, kcb, pool.buf(ha) if ha is not None else None, len(ha or b""),
           pool.buf(hb) if hb is not None else None, len(hb or b""), T, ret="v")
    key = pool.out(32)
    fn = "bake%sRun%s" % (pr, role.upper())

    def mkcert(data, who="a"):
        C = pool.out(env["sizes"][1])
        x.call("x_bake_cert2" if (who == "b" and env["fmt2"]) else "x_bake_cert", C, pool.buf(data), len(data), ret="v")
        return C
    if pr == "BPACE":
        args = [key, P, S, secret if secret is not None else pool.buf(env["pwd"]), len(env["pwd"]), CH_READ, CH_WRITE, CH]
    else:
        D = secret if secret is not None else pool.buf(env["d" + role].to_bytes(no, "little"))
        own = mkcert(env["cert" + role], role)
        if pr == "BMQV":
            args = [key, P, S, D, own, mkcert(env["cert" + ("b" if role == "a" else "a")], "b" if role == "a" else "a"), CH_READ, CH_WRITE, CH]
        else:
            args = [key, P, S, D, own, CERTVAL2 if (env["fmt2"] and role == "a") else CERTVAL, CH_READ, CH_WRITE, CH]
    return fn, args, CH, key, outs, len(inc), pool


def run_driver(x, env, role, msgs, tamper=None):
    """-> (err, key, written messages, number of consumed incoming messages)"""
    fn, args, CH, key, outs, ninc, pool = driver_args(x, env, role, msgs, tamper)
    r = x.call(fn, *args)
    raw = CH.read()
    h = [int.from_bytes(raw[8 * i:8 * i + 8], "little") for i in range(8)]
    o = raw[64 + h[3]:64 + h[3] + h[5]]
    wr = []
    while o:
        n = int.from_bytes(o[:8], "little")
        wr.append(o[8:8 + n]); o = o[8 + n:]
    k = key.read() if r == 0 else None     # the key is defined only after a successful run
    pool.free()
    return r, k, wr, h[1], outs, ninc


def trace(res):
    return " ".join("%s=%s" % (f, ename(r)) for f, r in res["steps"])


def check_honest(env, res, what="honest run"):
    c = env["c"]
    if res["fail"]:
        raise Fail("%s %s l=%d kca=%d kcb=%d: %s returned %s  [%s]" % (what, env["proto"], env["l"], env["kca"], env["kcb"], res["fail"][0], ename(res["fail"][1]), trace(res)))
    if res["keya"] == b"\xC5" * 32:
        raise Fail("%s %s: StepG returned ERR_OK and left the key buffer untouched" % (what, env["proto"]))
    if res["keya"] != res["keyb"]:
        raise Fail("%s %s l=%d kca=%d kcb=%d: every step ERR_OK but keyA=%s != keyB=%s (hello %s/%s)" %
                   (what, env["proto"], env["l"], env["kca"], env["kcb"], res["keya"].hex(), res["keyb"].hex(), c["ha"], c["hb"]))


def hcls(h):
    return "null" if h is None else "empty" if h == 0 else "short" if h < 16 else "long"


def base_sig(env):
    return (env["proto"], env["l"], env["kca"], env["kcb"])


# ------------------------------------------------------------------ test 1: honest runs (steps + drivers)
def run_honest(ctx, c):
    x = ctx.x
    env = mk_env(x, c)
    res = do_run(x, env)
    check_honest(env, res)
    drv = c["drv"] and env["proto"] != "BAUTH"
    if drv:
        for role in "ab":
            r, k, wr, cur, outs, ninc = run_driver(x, env, role, res["msgs"])
            fn = "bake%sRun%s" % (env["proto"], role.upper())
            if r:
                raise Fail("%s fed with the recorded honest messages returned %s (l=%d kca=%d kcb=%d, message lengths %s)" %
                           (fn, ename(r), env["l"], env["kca"], env["kcb"], [len(m) for m in res["msgs"]]))
            if k != res["keya"]:
                raise Fail("%s key %s != step-by-step key %s (l=%d kca=%d kcb=%d)" % (fn, k.hex(), res["keya"].hex(), env["l"], env["kca"], env["kcb"]))
            if wr != outs:
                raise Fail("%s wrote %s, the step functions with the same tape sent %s" % (fn, [m.hex() for m in wr], [m.hex() for m in outs]))
            if cur != ninc:
                raise Fail("%s consumed %d of %d incoming messages" % (fn, cur, ninc))
    multi = env["proto"] == "BSTS" and max(len(m) for m in res["msgs"]) > 512
    if env.get("resp0"):
        ctx.cls("zero_response_" + env["resp0"])
    if res.get("nullout"):
        ctx.cls("null_out_for_empty_message")
    ctx.cls(env["proto"], "l%d" % env["l"], "kc%d%d" % (env["kca"], env["kcb"]), "ha_" + hcls(c["ha"]), "hb_" + hcls(c["hb"]), "drv" if drv else "steps",
            *(["multiblock"] if multi and drv else []), *(["shared_buffer"] if env["shared"] else []), *(["two_cert_formats"] if env["fmt2"] and env["proto"] in ("BMQV", "BSTS") else []))
    if drv or env["kca"] != env["kcb"] or env["shared"] or env.get("resp0") or res.get("nullout"):
        ctx.nontrivial(base_sig(env), drv, hcls(c["ha"]), hcls(c["hb"]), tuple(c["ta"]["rej"]), tuple(c["tb"]["rej"]), c["ta"]["u"], c["tb"]["u"], multi, env["shared"], env.get("resp0"), res.get("nullout"))
    ctx.sample(c)


# ------------------------------------------------------------------ test 2: tampering
def alter(env, lay, kind, pos, mask, m):
    """-> (new message, field name, what) or None when the kind does not apply"""
    M, p, no = env["M"], env["p"], env["no"]
    if kind == "oct":
        pos %= len(m)
        name, off, ln, fk = field_at(lay, pos)
        a = bytearray(m); a[pos] ^= mask
        return bytes(a), name, fk
    if kind == "trunc":
        name, off, ln, fk = field_at(lay, len(m) - 1)
        return m[:-1], name, "trunc"
    pf = point_field(lay)
    if pf is None:
        return None
    name, off, ln = pf
    xv, yv = int.from_bytes(m[off:off + no], "little"), int.from_bytes(m[off + no:off + 2 * no], "little")
    top = 1 << (8 * no)
    if kind == "zero":
        xv, yv = 0, 0
    elif kind == "y1":
        yv = (yv + 1) % p
    elif kind == "xp":
        xv = p + (xv + pos) % (top - p)
    elif kind == "yp":
        yv = p + (yv + pos) % (top - p)
    elif kind == "twist":
        xv = (xv + 1 + pos) % p
        while pow((xv ** 3 + M["a"] * xv + M["b"]) % p, (p - 1) // 2, p) != p - 1:
            xv = (xv + 1) % p
    elif kind == "ord2":
        yv = 0                  # (x, 0): a point of order 2 of the curve y^2 = x^3 + a x + b', b' != b (the addition formulas do not use b)
    elif kind == "neg":
        yv = (p - yv) % p
    return m[:off] + xv.to_bytes(no, "little") + yv.to_bytes(no, "little") + m[off + 2 * no:], name, kind


def expect(env, mi, field, fk, newm, lay):
    """the step that must return non-OK ('differ': all steps OK, keys differ; None: weak form only)"""
    pr, kca, kcb, no = env["proto"], env["kca"], env["kcb"], env["no"]
    steps = plan(env)
    recv = [fn for role, fn, tmpl, inp, outlen, send in steps if inp == mi][0]
    names = [fn for role, fn, tmpl, inp, outlen, send in steps]
    if fk in ("pt", "zero", "y1", "xp", "yp", "twist", "ord2"):
        name, off, ln = point_field(lay)
        pt = RB.point_from_octets(env["M"], newm[off:off + 2 * no])
        if RB.curve(env["M"]).is_on(pt):
            return None         # the altered coordinates are again a point of the curve (never seen): weak form only
        return recv             # point form: "V in E*(Fp), otherwise error" is the first action of the receiving step
    if fk == "neg":
        # (x, p - y) is a valid point; what binds y:
        if pr == "BMQV":        # K = s(V - (2^l + t)Q) changes; first tag on the way: Ta verified in Step4, Tb in Step5
            return names[2] if kca else names[3] if kcb else "differ"
        if pr == "BSTS":        # x-only DH key: MACs still verify; s G + (2^l + t)Q == V fails at the verifier of that V
            return names[3] if mi == 0 else recv
        if pr == "BAUTH" and kcb:   # sct G + (2^l + t)Qct == Vct is verified in TStep5
            return names[3]
        raise ValueError("neg is not a tamper case here")
    if pr == "BPACE" and field in ("Ya", "Yb"):
        # the receiver decrypts another R, maps it to another point W: no step can notice before a confirmation tag is verified
        return names[3] if kcb else names[4] if kca else "differ"
    return recv                 # tags, encrypted blocks under a MAC, wrapped keys, truncations: the receiving step verifies them


def judge(env, res, exp, what):
    """weak form always, strong / point form as named by exp"""
    okall = res["fail"] is None
    if okall and res["keya"] == res["keyb"]:
        raise Fail("%s: every step ERR_OK and both keys equal %s (%s l=%d kca=%d kcb=%d)" % (what, res["keya"].hex(), env["proto"], env["l"], env["kca"], env["kcb"]))
    if exp is None:
        return "weak"
    if exp == "differ":
        if not okall:
            raise Fail("%s: no confirmation covers it, expected all steps OK with different keys, got %s  [%s]" % (what, ename(res["fail"][1]), trace(res)))
        return "differ"
    accept = exp if isinstance(exp, (tuple, list)) else (exp,)
    if okall or res["fail"][0].split(":")[0] not in accept:
        raise Fail("%s: %s must return an error (%s l=%d kca=%d kcb=%d); got [%s]%s" %
                   (what, "/".join(accept), env["proto"], env["l"], env["kca"], env["kcb"], trace(res), "" if not okall else " keys differ"))
    return ename(res["fail"][1])


def swap(old, new):
    def f(m):
        if m != old:
            raise Fail("re-run with the same tapes sent %s, the recorded run %s" % (m.hex(), old.hex()))
        return new
    return f


def resolve(env, L, t):
    """tamper spec -> (message index, kind, absolute position): the message / field is chosen by generation, uniformly over what exists"""
    pr, kind = env["proto"], t["kind"]
    if kind == "trunc":
        cands = [1, 2] if pr == "BSTS" else [2] if pr == "BAUTH" and env["kcb"] else []     # messages whose receiving step takes a length
        if not cands:
            kind = "oct"
        else:
            return cands[t["m"] % len(cands)], kind, 0
    if kind == "neg" and not (pr in ("BMQV", "BSTS") or (pr == "BAUTH" and env["kcb"])):
        kind = "y1"             # BPACE, BAUTH without kcb use x-coordinates only: (x, p - y) is equivalent to (x, y), not a tamper case
    if kind != "oct":
        cands = [i for i, lay in enumerate(L) if point_field(lay)]
        return cands[t["m"] % len(cands)], kind, t["pos"]
    mi = t["m"] % len(L)
    f = t["f"] % len(L[mi])
    return mi, kind, sum(ln for nm, ln, k in L[mi][:f]) + t["pos"] % L[mi][f][1]


def one_tamper(ctx, env, L, msgs, mi, kind, pos, mask, drv=False):
    x = ctx.x
    newm, field, fk = alter(env, L[mi], kind, pos, mask, msgs[mi])
    if kind == "ord2" and env["proto"] == "BAUTH":
        # invalid-curve probe: dt (x, 0) is (x, 0) for odd dt, so the attacker knows K = x and can wrap an Rct of his choice under it;
        # only the on-curve test of TStep3 stands between this M1 and ERR_OK
        no = env["no"]
        Z = x.out(no // 2 + 16)
        r = x.call("beltKWPWrap", Z, x.buf(expand(env["sd"] + "r2", no // 2)), no // 2, x.buf(bytes(16)), x.buf(newm[:32]), 32)
        if r:
            raise Fail("beltKWPWrap failed: %s" % ename(r))
        newm = newm[:2 * no] + Z.read()
        x.free(Z)
    exp = expect(env, mi, field, fk, newm, L[mi])
    what = "%s M%d.%s %s" % (env["proto"], mi + 1, field, kind if kind != "oct" else "octet %d ^= %02x" % (pos, mask))
    res = do_run(x, env, mitm=(mi, swap(msgs[mi], newm)))
    out = judge(env, res, exp, what)
    recv = [fn for role, fn, tmpl, inp, outlen, send in plan(env) if inp == mi][0]
    if drv and env["proto"] != "BAUTH" and exp == recv:
        role = "a" if senders(env)[mi] == "b" else "b"
        r = run_driver(x, env, role, msgs, tamper=(mi, newm))[0]
        if r == OK:
            raise Fail("%s: bake%sRun%s fed with the altered message returned ERR_OK (%s returns %s)" % (what, env["proto"], role.upper(), recv, out))
        ctx.cls("drv_rejects")
        ctx.nontrivial(base_sig(env), "drv", mi, field, kind)
    ctx.cls(env["proto"] + "_M%d_%s" % (mi + 1, field), "kind_" + kind, "out_" + out, "l%d" % env["l"])
    ctx.nontrivial(base_sig(env), mi, field, kind, out)
    ctx.count(1)


def baseline(ctx, c):
    env = mk_env(ctx.x, c)
    base = do_run(ctx.x, env)
    check_honest(env, base, "baseline of the tampered runs")
    L = layout(env)
    if [len(m) for m in base["msgs"]] != [sum(f[1] for f in lay) for lay in L]:
        raise Fail("%s message lengths %s differ from the documented ones %s" % (env["proto"], [len(m) for m in base["msgs"]], [sum(f[1] for f in lay) for lay in L]))
    return env, L, base["msgs"]


def run_tamper(ctx, c):
    env, L, msgs = baseline(ctx, c)
    for t in c["tampers"]:
        mi, kind, pos = resolve(env, L, t)
        one_tamper(ctx, env, L, msgs, mi, kind, pos, t["mask"], t["drv"])
    ctx.sample(c)


# ------------------------------------------------------------------ test 3: every octet position of every message (deterministic enumeration)
def sweep_cases(tier):
    plain = {"rej": [], "u": "rnd", "tail": 7}
    out = []
    for l in (128, 192, 256):
        for j, (pr, kca, kcb) in enumerate(COMBOS):
            if tier == "quick" and l > 128 and (pr, kca, kcb) not in (("BMQV", True, True), ("BSTS", True, True), ("BPACE", True, True), ("BAUTH", True, True)):
                continue
            c = {"proto": pr, "kca": kca, "kcb": kcb, "l": l, "seed": "a%x%02x" % (l // 64, j), "ha": [None, 0, 5, 33][j % 4], "hb": [7, None, 64, 0][j % 4],
                 "na": 5, "nb": 3, "pw": 4 + j, "ta": plain, "tb": plain}
            out.append(c)
    return out


def sweep_alloct(ctx, part, nparts):
    """every octet position of every message M1..M4 with one generated mask; thorough: all 255 masks at 3 positions of every field"""
    n0 = ctx.evals
    for j, c in enumerate(sweep_cases(ctx.tier)):
        if j % nparts != part:
            continue
        ctx.x.reset()
        env, L, msgs = baseline(ctx, c)
        todo = [(mi, pos, 1 + (pos * 37 + mi * 101 + j) % 255) for mi in range(len(msgs)) for pos in range(len(msgs[mi]))]
        if ctx.tier == "thorough":
            for mi, lay in enumerate(L):
                off = 0
                for nm, ln, k in lay:
                    todo += [(mi, off + q, mask) for q in sorted({0, ln // 2, ln - 1}) for mask in range(1, 256)]
                    off += ln
        for mi, pos, mask in todo:
            try:
                one_tamper(ctx, env, L, msgs, mi, "oct", pos, mask)
            except Fail as e:
                e.case = {"case": c, "mi": mi, "pos": pos, "mask": mask}
                raise
    if part == 0:
        ctx.sample({"sweep": "all octet positions", "cases": len(sweep_cases(ctx.tier))})


def replay_override(ctx, test, case):
    env, L, msgs = baseline(ctx, case["case"])
    one_tamper(ctx, env, L, msgs, case["mi"], "oct", case["pos"], case["mask"])


# ------------------------------------------------------------------ test 4: different passwords, unrelated keys / certificates
MISKINDS = {"BMQV": ["da", "db", "certa@b", "certb@a", "certa@b_name", "certb@a_name"], "BSTS": ["da", "db"], "BAUTH": ["da", "certa@b", "db"]}


def expect_mismatch(env, kind):
    pr, kca, kcb = env["proto"], env["kca"], env["kcb"]
    names = [fn for role, fn, tmpl, inp, outlen, send in plan(env)]
    if pr == "BPACE":           # another K2: each side decrypts another R, W differs; first verified tag: Tb in Step5, else Ta in Step6
        return names[3] if kcb else names[4] if kca else "differ"
    if pr == "BMQV":            # implicit authentication: K differs; first verified tag: Ta in Step4, else Tb in Step5
        return names[2] if kca else names[3] if kcb else "differ"
    if pr == "BSTS":            # s G + (2^l + t)Q == V is verified by the peer: A's key in Step4, B's key in Step5
        return names[2] if kind == "da" else names[3]
    # BAUTH: the terminal's key decides the unwrapping of Rct in TStep3; the token's key is used only with kcb (verified in TStep5)
    return names[1] if kind in ("da", "certa@b") else names[3]


def run_mismatch(ctx, c):
    x = ctx.x
    env = mk_env(x, c)
    pr = env["proto"]
    if pr == "BPACE":
        kind = "pwd"
        pw = env["pwd"]
        v = c["kind"] % 5
        other = [pw + b"\0", pw[:-1] if pw else b"x", bytes([pw[0] ^ 1]) + pw[1:] if pw else b"\0", pw + pw if pw else b"pw", expand(env["sd"] + "pw2", c["pw"])][v]
        if other == pw:
            other = pw + b"!"
        ov = {"pwd" + "ab"[c["var"] & 1]: other}
        sub = v
    else:
        ks = MISKINDS[pr]
        if pr == "BAUTH" and not env["kcb"]:
            ks = ks[:2]         # without kcb the token does not authenticate: its private key is not used, a wrong one is no mismatch
        kind = ks[c["kind"] % len(ks)]
        d2, cert2 = other_pair(env, kind, c["var"] % 6)
        if kind in ("da", "db"):
            ov = {kind: d2}                                     # private key unrelated to the party's own certificate
        elif kind.endswith("_name"):
            ov = {kind[:7]: b"\x55" + env["cert" + kind[4]]}    # same public key, another name: BMQV hashes both certificates into the key
        else:
            ov = {kind: cert2}                                  # the peer's certificate handed to the party belongs to somebody else
        sub = 0
    exp = expect_mismatch(env, kind[:7])
    if kind in ("da", "db") and exp != "differ":
        # bake.h / btok.h: "if the agreement of privkey and cert is violated the protocol ends with an error": Start itself may refuse
        exp = (exp, FN[pr]["start"][0], FN[pr]["start"][1])
    res = do_run(x, env, ov=ov)
    out = judge(env, res, exp, "%s mismatch %s" % (pr, kind))
    ctx.cls(pr + "_" + kind, "out_" + out, "l%d" % env["l"])
    ctx.nontrivial(base_sig(env), kind, out, sub)
    ctx.sample(c)


# ------------------------------------------------------------------ strategies
# BSTS has one flag setting but the longest messages, BAUTH two: weight them up
W_COMBOS = COMBOS + [("BSTS", True, True)] * 3 + [("BAUTH", True, False), ("BAUTH", True, True)]


def s_case(tier, extra):
    ls = [128, 192, 256] if tier == "thorough" else [128] * 4 + [192, 256]
    hello = st.integers(0, 99).map(lambda v: None if v < 15 else 0 if v < 30 else min(v - 29, 64))
    tape = st.fixed_dictionaries({"rej": st.one_of(st.just([]), st.lists(st.sampled_from(["zero", "max", "q"]), max_size=2)),
                                  "u": st.sampled_from(["rnd"] * 5 + ["one", "two", "qm1"]), "tail": st.integers(0, 40)})
    d = {"combo": st.sampled_from(W_COMBOS), "l": st.sampled_from(ls), "seed": st.binary(min_size=1, max_size=4).map(bytes.hex),
         "ha": hello, "hb": hello, "na": st.integers(0, 20), "nb": st.integers(0, 20), "pw": st.integers(0, 40), "ta": tape, "tb": tape}
    d.update(extra)

    def fix(c):
        c = dict(c)
        c["proto"], c["kca"], c["kcb"] = c.pop("combo")
        return c
    return st.fixed_dictionaries(d).map(fix)


KINDS = ["oct"] * 8 + ["trunc", "trunc", "zero", "y1", "xp", "yp", "twist", "ord2", "ord2", "neg", "neg"]


def tests(tier):
    name = st.one_of(st.integers(0, 20), st.integers(0, 20), st.integers(0, 20), st.integers(330, 700))
    s_h = s_case(tier, {"drv": st.sampled_from([True, True, True, False]), "na": name, "nb": name, "shared": st.sampled_from([False, False, True]), "fmt2": st.sampled_from([False, False, True]),
                        "resp0": st.sampled_from([None, None, None, "a", "b"]), "nullout": st.sampled_from([False, False, True])})
    tam = st.fixed_dictionaries({"m": st.integers(0, 11), "f": st.integers(0, 5), "kind": st.sampled_from(KINDS), "pos": st.integers(0, 1023), "mask": st.integers(1, 255),
                                 "drv": st.sampled_from([False, True])})
    s_t = s_case(tier, {"tampers": st.lists(tam, min_size=10, max_size=10), "na": name, "nb": name})      # long certificates: altered messages on the multi-block read path of the drivers
    s_m = s_case(tier, {"kind": st.integers(0, 29), "var": st.integers(0, 11)})
    return [
        Test("honest", s_h, run_honest, {"quick": 800, "thorough": 8000}, CFG),
        Test("tamper", s_t, run_tamper, {"quick": 600, "thorough": 6000}, CFG),
        Sweep("alloct", sweep_alloct, 16, CFG),
        Test("mismatch", s_m, run_mismatch, {"quick": 600, "thorough": 6000}, CFG),
    ]
