"""C14: SAFE editions equal FAST editions, and SAFE editions / tag checks execute no branch that depends on secret data.
(a) differential SAFE vs FAST on generated operands (both symbols exist in every build) + Python semantics.
(b) the Release (-O3) executor runs under valgrind memcheck; operand VALUES (never lengths) are marked undefined before the call:
    a 'Conditional jump or move depends on uninitialised value' inside the call is a secret-dependent branch in the machine code
    the current tree compiles to.  'Use of uninitialised value' (data-dependent address, e.g. S-box look-ups) is recorded, not judged:
    safe.h excludes cache effects and the property speaks of branches."""
import os, re, tempfile
from harness import Test, Fail, st, Sym
from gens import int_spec, mod_spec, resolve, resolve_mod, expand
from x import X

RULE = ("(a) all 33 SAFE/FAST pairs x operand lengths 0..16 words / 0..70 octets x values {equal, first difference at a generated position, boundary, multiples of the modulus}: results identical (memCmp: sign) and equal to the Python meaning; "
        "(b) the same routines and the MAC/AEAD/hash/HMAC/KWP verification entry points under memcheck with key, tag, header and data marked undefined, right and wrong tags, truncated tag lengths. "
        "non-trivial: operands of >= 2 words that differ, a wrong tag differing at a generated position, a multiple of the modulus; distinct by (routine, length, difference position)")
LEVEL = "exploration"
ASSUMPTIONS = ["memcheck definedness propagation is the oracle for 'branch depends on secret'; it sees the code gcc -O3 produced from the current tree (other compilers are out of reach)",
               "comparison outcomes are declassified at the return of memEq/memIsZero only (x/wrap_ct.c); a branch on secret data anywhere else in an entry point is reported",
               "a data-dependent branch on a path no generated case executes is missed"]
BUDGET = {"quick": 300, "thorough": 3000}
CFGA = tuple(os.environ.get("VERIF_CFG", "asan").split(","))


def sgn(v):
    return (v > 0) - (v < 0)


def wb(x, v, n):
    return x.words(v, n)


# ------------------------------------------------------------------ (a) differential
def pairs_mem(x, c, U):
    """yields (name, safe_result, fast_result, expected) ; U(buf) marks operand undefined (memcheck mode) or is a no-op"""
    n = c["nb"]
    a = bytearray(expand(c["seed"], n))
    b = bytearray(a)
    if c["eq"] == "diff" and n:
        pos = c["pos"] % n
        b[pos] ^= 1 + c["pos"] % 255
    elif c["eq"] == "rnd":
        b = bytearray(expand(c["seed"] + "b", n))
    a, b = bytes(a), bytes(b)
    al = c.get("al", 0)             # operands at every alignment relative to the machine word (a regular routine may not switch method on it)
    A, B = x.buf(bytes(al % 8) + a).at(al % 8), x.buf(bytes(al // 8) + b).at(al // 8)
    U(A); U(B)
    for fn in ("memEq", "memCmp", "memCmpRev"):
        rs = x.call(fn, A, B, n, ret="si")
        rf = x.call(fn + "_fast", A, B, n, ret="si")
        if fn == "memEq":
            yield fn, rs, rf, int(a == b)
        elif fn == "memCmp":
            yield fn, sgn(rs), sgn(rf), sgn((a > b) - (a < b))
        else:
            yield fn, sgn(rs), sgn(rf), sgn((a[::-1] > b[::-1]) - (a[::-1] < b[::-1]))
    z = bytes(n) if c["eq"] == "same" else a
    Z = x.buf(z); U(Z)
    yield "memIsZero", x.call("memIsZero", Z, n), x.call("memIsZero_fast", Z, n), int(z == bytes(n))
    o = c["pos"] % 256
    r = bytes([o]) * n if c["eq"] == "same" else a
    R = x.buf(r); U(R)
    if n:   # count == 0: mem.h says "the value 0 is repeated", both editions answer TRUE for every o; degenerate, not judged
        yield "memIsRep", x.call("memIsRep", R, n, o), x.call("memIsRep_fast", R, n, o), int(r == bytes([o]) * n)
    # hexEq: hex string is public, buffer secret
    hx = a.hex().upper() if c["pos"] % 2 else a.hex()
    H = x.buf(hx.encode() + b"\0")
    Bb = x.buf(b); U(Bb)
    yield "hexEq", x.call("hexEq", Bb, H), x.call("hexEq_fast", Bb, H), int(a == b)
    Br = x.buf(b[::-1]); U(Br)
    yield "hexEqRev", x.call("hexEqRev", Br, H), x.call("hexEqRev_fast", Br, H), int(a == b)


def pairs_word(x, c, U):
    for bits, pfx, caller in ((16, "u16", "x_call_u16"), (32, "u32", "x_call_u32"), (64, "u64", "x_call_u64")):
        v = resolve(c["w"], bits, 1)
        if c["eq"] == "same":
            v = 0 if c["pos"] % 2 else 1 << (c["pos"] % bits)
        W = x.buf(v.to_bytes(bits // 8, "little")); U(W)
        for op, exp in (("CLZ", bits - v.bit_length()), ("CTZ", (v & -v).bit_length() - 1 if v else bits)):
            rs = x.call(caller, Sym(pfx + op), W, ret="z")
            rf = x.call(caller, Sym(pfx + op + "_fast"), W, ret="z")
            yield pfx + op, rs, rf, exp


def pairs_ww(x, c, U):
    W = x.W
    n, m = c["n"], c["m"]
    a = resolve(c["a"], W, n)
    b = a if c["eq"] == "same" else resolve(c["b"], W, n)
    if c["eq"] == "diff" and n:
        b = a ^ (1 << (c["pos"] % (W * n)))
    w = resolve(c["w"], W, 1)
    A, B = wb(x, a, n), wb(x, b, n)
    U(A); U(B)
    yield "wwEq", x.call("wwEq", A, B, n), x.call("wwEq_fast", A, B, n), int(a == b)
    yield "wwCmp", sgn(x.call("wwCmp", A, B, n, ret="si")), sgn(x.call("wwCmp_fast", A, B, n, ret="si")), sgn(a - b)
    b2 = resolve(c["b"], W, m) if c["eq"] != "same" else a % (1 << (W * m)) if m else 0
    B2 = wb(x, b2, m); U(B2)
    yield "wwCmp2", sgn(x.call("wwCmp2", A, n, B2, m, ret="si")), sgn(x.call("wwCmp2_fast", A, n, B2, m, ret="si")), sgn(a - b2)
    aw = w if c["eq"] == "same" and n else a
    AW = wb(x, aw, n); U(AW)
    yield "wwCmpW", sgn(x.call("wwCmpW", AW, n, w, ret="si")), sgn(x.call("wwCmpW_fast", AW, n, w, ret="si")), sgn(aw - w) if n else sgn(0 - w)
    yield "wwIsW", x.call("wwIsW", AW, n, w), x.call("wwIsW_fast", AW, n, w), int(aw == w) if n else int(w == 0)
    z = 0 if c["eq"] == "same" else a
    Z = wb(x, z, n); U(Z)
    yield "wwIsZero", x.call("wwIsZero", Z, n), x.call("wwIsZero_fast", Z, n), int(z == 0)
    rep = sum(w << (W * i) for i in range(n))
    r = rep if c["eq"] == "same" else a
    R = wb(x, r, n); U(R)
    yield "wwIsRepW", x.call("wwIsRepW", R, n, w), x.call("wwIsRepW_fast", R, n, w), int(r == rep) if n else int(w == 0)
    # zzIsSumEq / zzIsSumWEq
    top = 1 << (W * n)
    s = (a + b) % top if c["eq"] != "rnd" else resolve(c["w"], W, n)
    S = wb(x, s, n); U(S)
    yield "zzIsSumEq", x.call("zzIsSumEq", S, A, B, n), x.call("zzIsSumEq_fast", S, A, B, n), int(a + b == s)
    if n:
        s2 = (a + w) % top if c["eq"] != "rnd" else s
        S2 = wb(x, s2, n); U(S2)
        yield "zzIsSumWEq", x.call("zzIsSumWEq", S2, A, n, w), x.call("zzIsSumWEq_fast", S2, A, n, w), int(a + w == s2)


def pairs_mod(x, c, U):
    W = x.W
    n = max(1, c["n"] % 9)
    mod = resolve_mod(c["mod"], W, n)
    a = resolve(c["a"], W, n, mod) % mod
    b = resolve(c["b"], W, n, mod) % mod
    if c["eq"] == "same":
        b = (mod - a) % mod       # a + b == mod: the reduction boundary
    w = resolve(c["w"], W, 1) % mod
    M = wb(x, mod, n)

    def two(fn, args_of, exp):
        rs = x.out(n * x.wo); rf = x.out(n * x.wo)
        x.call(fn, rs, *args_of(), ret="v")
        x.call(fn + "_fast", rf, *args_of(), ret="v")
        x.mark(rs, False); x.mark(rf, False)
        return fn, int.from_bytes(rs.read(), "little"), int.from_bytes(rf.read(), "little"), exp

    def ops(*vals):
        out = []
        for v in vals:
            if isinstance(v, int) and not isinstance(v, bool) and v >= 0 and isinstance(v, int) and False:
                pass
            out.append(v)
        return out
    def A_():
        t = wb(x, a, n); U(t); return t
    def B_():
        t = wb(x, b, n); U(t); return t
    yield two("zzAddMod", lambda: [A_(), B_(), M, n], (a + b) % mod)
    yield two("zzSubMod", lambda: [A_(), B_(), M, n], (a - b) % mod)
    yield two("zzAddWMod", lambda: [A_(), w, M, n], (a + w) % mod)
    yield two("zzSubWMod", lambda: [A_(), w, M, n], (a - w) % mod)
    yield two("zzNegMod", lambda: [A_(), M, n], (-a) % mod)
    yield two("zzDoubleMod", lambda: [A_(), M, n], 2 * a % mod)
    mo = mod | 1
    ao = a % mo
    Mo = wb(x, mo, n)

    def Ao():
        t = wb(x, ao, n); U(t); return t
    if mo > 1:
        yield two("zzHalfMod", lambda: [Ao(), Mo, n], ao * pow(2, -1, mo) % mo)
    # reductions [2n] -> [n] in place
    B_ = 1 << W
    a2 = resolve(c["a"], W, 2 * n, mod)
    if c["eq"] == "same":
        a2 = (mod * (resolve(c["b"], W, n) or 1)) % (1 << (2 * W * n))     # multiple of the modulus

    def red(fn, modv, extra, val, exp):
        res = []
        Mv = wb(x, modv, n)
        for sfx in ("", "_fast"):
            t = wb(x, val, 2 * n); U(t)
            st_ = x.out(x.call(fn + "_deep", n, ret="z"))
            x.call(fn + sfx, t, Mv, n, *extra, st_, ret="v")
            x.mark(t, False)
            res.append(int.from_bytes(t.read(0, n * x.wo), "little"))
        return fn, res[0], res[1], exp
    P = x.out((n + 2) * x.wo)
    x.call("zzRedBarrStart", P, M, n, x.out(x.call("zzRedBarrStart_deep", n, ret="z")), ret="v")
    yield red("zzRedBarr", mod, [P], a2, a2 % mod)
    if n >= 2:
        cm = resolve_mod(["crand", c["pos"] * 7919 + 1, "any"], W, n)
        ac = resolve(c["a"], W, 2 * n, cm)
        if c["eq"] == "same":
            ac = (cm * (resolve(c["b"], W, n) or 1)) % (1 << (2 * W * n))
        yield red("zzRedCrand", cm, [], ac, ac % cm)
        if cm % 2:
            mp = (-pow(cm, -1, B_)) % B_
            am = ac % (cm << (W * n))
            yield red("zzRedCrandMont", cm, [mp], am, am * pow(1 << (W * n), -1, cm) % cm)
    if mo > 1:
        mp = (-pow(mo, -1, B_)) % B_
        am = a2 % (mo << (W * n))
        if c["eq"] == "same":
            am = (mo * (resolve(c["b"], W, n) or 1)) % (mo << (W * n))
        yield red("zzRedMont", mo, [mp], am, am * pow(1 << (W * n), -1, mo) % mo)


FAMS = {"mem": pairs_mem, "word": pairs_word, "ww": pairs_ww, "mod": pairs_mod}


def run_diff(ctx, c):
    x = ctx.x
    for name, rs, rf, exp in FAMS[c["fam"]](x, c, lambda b: None):
        if rs != rf:
            raise Fail("%s: regular edition %s != fast edition %s" % (name, rs, rf))
        if rs != exp:
            raise Fail("%s: both editions give %s, expected %s" % (name, rs, exp))
    ctx.cls("fam_" + c["fam"], "eq_" + c["eq"])
    if c["eq"] in ("diff", "same"):
        ctx.nontrivial(c["fam"], c["eq"], c["n"], c["nb"] // 8, c["pos"] % 64)
    ctx.sample(c)


S_DIFF = st.fixed_dictionaries({
    "fam": st.sampled_from(sorted(FAMS)), "seed": st.binary(min_size=1, max_size=3).map(bytes.hex), "nb": st.integers(0, 70), "n": st.integers(0, 16), "m": st.integers(0, 16),
    "a": int_spec(16), "b": int_spec(16), "w": int_spec(1), "mod": mod_spec(8), "eq": st.sampled_from(["same", "diff", "diff", "rnd"]), "pos": st.integers(0, 5000), "al": st.integers(0, 63)})


# ------------------------------------------------------------------ (b) memcheck
_VG = {}


class VG:
    def __init__(self):
        self.logf = tempfile.NamedTemporaryFile(prefix="vg", suffix=".log", delete=False)
        self.x = X("rel", wrapper=["valgrind", "--tool=memcheck", "-q", "--error-limit=no", "--num-callers=14", "--log-file=" + self.logf.name, "--track-origins=no", "--errors-for-leak-kinds=none", "--leak-check=no"],
                   timeout=300)
        self.pos = 0

    def errors(self):
        return int(self.x._cmd("VE")[2:], 16)

    def new_log(self):
        with open(self.logf.name, "r", errors="replace") as f:
            f.seek(self.pos)
            t = f.read()
            self.pos = f.tell()
        return t


def vg():
    import harness
    pid = os.getpid()
    if harness.REPLAYING and pid in _VG:
        # memcheck prints every distinct error once per process: a replay needs a fresh process
        _VG[pid].x.close()
        del _VG[pid]
    if pid not in _VG:
        _VG.clear()
        _VG[pid] = VG()
    return _VG[pid]


def judge(v, before, what, ctx):
    after = v.errors()
    text = v.new_log()
    if after == before and not text:
        return
    blocks = re.split(r"\n(?===\d+== \n|==\d+== (?:Conditional|Use of|Syscall))", text)
    cond = [b for b in text.split("\n==") if False]
    entries = re.findall(r"(Conditional jump or move depends on uninitialised value\(s\)|Use of uninitialised value of size \d+|Syscall param [^\n]*)\n((?:==\d+==\s+(?:at|by) [^\n]*\n)+)", text)
    for kind, stack in entries:
        if kind.startswith("Conditional"):
            frames = re.findall(r"(?:at|by) 0x[0-9A-F]+: (\S+)", stack)
            raise Fail("secret-dependent branch in %s: %s" % (what, " <- ".join(frames[:6])))
        ctx.cls("address_dependence")
    if after > before and not entries:
        # a repeated (already reported and therefore suppressed) error: only address dependence reaches this point, a conditional would have failed earlier
        ctx.cls("address_dependence_repeat")


def run_ct(ctx, c):
    v = vg()
    x = v.x
    x.reset()
    v.new_log()
    before = v.errors()

    def U(b):
        x.mark(b, True)
    fam = c["fam"]
    if fam in FAMS:
        for name, rs, rf_, exp in ct_only(FAMS[fam], x, c, U):
            pass
        judge(v, before, "%s family (regular editions)" % fam, ctx)
    else:
        ct_entry(ctx, v, x, c, U, before)
    ctx.cls("ct_" + fam)
    ctx.nontrivial("ct", fam, c["eq"], c["n"], c["nb"] // 8, c["pos"] % 16, c.get("al", 0) % 8)
    ctx.sample(c)


class _SafeOnly:
    """proxy that skips the *_fast calls (the fast editions legitimately branch on data)"""

    def __init__(self, x):
        self._x = x

    def __getattr__(self, k):
        return getattr(self._x, k)

    def call(self, fn, *a, **kw):
        if fn.endswith("_fast") or any(isinstance(t, Sym) and t.name.endswith("_fast") for t in a):
            return 0
        return self._x.call(fn, *a, **kw)


def ct_only(gen, x, c, U):
    return gen(_SafeOnly(x), c, U)


ENTRY = ["MACStepV", "MACStepV2", "HashStepV", "HashStepV2", "HMACStepV", "HMACStepV2", "DWPStepV", "CHEStepV", "bashHashStepV", "KWPUnwrap", "DWPUnwrap", "CHEUnwrap",
         "ECB", "CTR", "MAC", "Hash", "bashF"]


def ct_entry(ctx, v, x, c, U, before):
    """verification entry points and the symmetric primitives with key, data, tag marked secret"""
    e = c["fam"]
    n = c["nb"]
    key = expand(c["seed"] + "k", 32)
    data = expand(c["seed"], n)
    K = x.buf(key); U(K)
    D = x.buf(data); U(D)
    wrong = c["eq"] != "same"

    def tagbuf(t, tl=None):
        t = bytearray(t if tl is None else t[:tl])
        if wrong and t:
            t[c["pos"] % len(t)] ^= 1 + c["pos"] % 200
        al = c.get("al", 0) % 8     # the caller's tag need not be word aligned
        B = x.buf(bytes(al) + bytes(t)).at(al); U(B)
        return B
    if e in ("MACStepV", "MACStepV2"):
        o = x.out(8); x.call("beltMAC", o, x.buf(data), n, x.buf(key), 32); tag = o.read()
        S = x.out(x.call("beltMAC_keep", ret="z"))
        x.call("beltMACStart", S, K, 32, ret="v"); x.call("beltMACStepA", D, n, S, ret="v")
        if e == "MACStepV":
            r = x.call("beltMACStepV", tagbuf(tag), S)
        else:
            tl = 1 + c["pos"] % 8
            r = x.call("beltMACStepV2", tagbuf(tag, tl), tl, S)
        if r != int(not wrong):
            raise Fail("%s verdict %d for a %s tag" % (e, r, "wrong" if wrong else "right"))
    elif e in ("HashStepV", "HashStepV2", "HMACStepV", "HMACStepV2"):
        hm = e.startswith("HMAC")
        o = x.out(32)
        if hm:
            x.call("beltHMAC", o, x.buf(data), n, x.buf(key), 32)
        else:
            x.call("beltHash", o, x.buf(data), n)
        tag = o.read()
        S = x.out(x.call("beltHMAC_keep" if hm else "beltHash_keep", ret="z"))
        if hm:
            x.call("beltHMACStart", S, K, 32, ret="v"); x.call("beltHMACStepA", D, n, S, ret="v")
        else:
            x.call("beltHashStart", S, ret="v"); x.call("beltHashStepH", D, n, S, ret="v")
        base = "beltHMACStepV" if hm else "beltHashStepV"
        if e.endswith("2"):
            tl = 1 + c["pos"] % 32
            r = x.call(base + "2", tagbuf(tag, tl), tl, S)
        else:
            r = x.call(base, tagbuf(tag), S)
        if r != int(not wrong):
            raise Fail("%s verdict %d" % (e, r))
    elif e == "bashHashStepV":
        l = 16 * (1 + c["pos"] % 16)
        o = x.out(l // 4); x.call("bashHash", o, l, x.buf(data), n); tag = o.read()
        S = x.out(x.call("bashHash_keep", ret="z"))
        x.call("bashHashStart", S, l, ret="v"); x.call("bashHashStepH", D, n, S, ret="v")
        r = x.call("bashHashStepV", tagbuf(tag), l // 4, S)
        if r != int(not wrong):
            raise Fail("bashHashStepV verdict %d" % r)
    elif e in ("DWPStepV", "CHEStepV", "DWPUnwrap", "CHEUnwrap"):
        nm = e[:3]
        iv = expand(c["seed"] + "iv", 16)
        ad = expand(c["seed"] + "ad", c["n"])
        ct = x.out(n); mac = x.out(8)
        x.call("belt%sWrap" % nm, ct, mac, x.buf(data), n, x.buf(ad), len(ad), x.buf(key), 32, x.buf(iv))
        tag = mac.read(); ctb = ct.read()
        C = x.buf(ctb); U(C)
        A = x.buf(ad); U(A)
        if e.endswith("StepV"):
            S = x.out(x.call("belt%s_keep" % nm, ret="z"))
            x.call("belt%sStart" % nm, S, K, 32, x.buf(iv), ret="v")
            x.call("belt%sStepI" % nm, A, len(ad), S, ret="v"); x.call("belt%sStepA" % nm, C, n, S, ret="v")
            r = x.call("belt%sStepV" % nm, tagbuf(tag), S)
            if r != int(not wrong):
                raise Fail("%s verdict %d" % (e, r))
        else:
            o = x.out(n)
            r = x.call("belt%sUnwrap" % nm, o, C, n, A, len(ad), tagbuf(tag), K, 32, x.buf(iv))
            x.mark(o, False)
            if (r == 0) != (not wrong):
                raise Fail("%s verdict %d" % (e, r))
    elif e == "KWPUnwrap":
        kn = 16 + n % 40
        hdr = expand(c["seed"] + "h", 16) if c.get("al", 0) % 3 else None       # header == 0: the all-zero header, compared by another code path
        t = x.out(kn + 16)
        x.call("beltKWPWrap", t, x.buf(expand(c["seed"] + "kk", kn)), kn, x.buf(hdr) if hdr else None, x.buf(key), 32)
        tok = bytearray(t.read())
        if wrong:
            tok[c["pos"] % len(tok)] ^= 0x40
        T = x.buf(bytes(tok)); U(T)
        H = None
        if hdr:
            H = x.buf(hdr); U(H)
        o = x.out(kn)
        r = x.call("beltKWPUnwrap", o, T, kn + 16, H, K, 32)
        x.mark(o, False)
        if (r == 0) != (not wrong):
            raise Fail("beltKWPUnwrap verdict %d" % r)
    elif e in ("ECB", "CTR", "MAC", "Hash"):
        m = max(16, n)
        Dm = x.buf(expand(c["seed"], m)); U(Dm)
        o = x.out(m if e in ("ECB", "CTR") else (8 if e == "MAC" else 32))
        if e == "ECB":
            x.call("beltECBEncr", o, Dm, m, K, 32)
        elif e == "CTR":
            IV = x.buf(expand(c["seed"] + "iv", 16)); U(IV)
            x.call("beltCTR", o, Dm, m, K, 32, IV)
        elif e == "MAC":
            x.call("beltMAC", o, Dm, m, K, 32)
        else:
            x.call("beltHash", o, Dm, m)
        x.mark(o, False)
    elif e == "bashF":
        B = x.buf(expand(c["seed"], 192)); U(B)
        x.call("bashF", B, x.out(x.call("bashF_deep", ret="z")), ret="v")
        x.mark(B, False)
    judge(v, before, e, ctx)


S_CT = st.fixed_dictionaries({
    "fam": st.sampled_from(sorted(FAMS) + ENTRY), "seed": st.binary(min_size=1, max_size=3).map(bytes.hex), "nb": st.integers(0, 70), "n": st.integers(0, 16), "m": st.integers(0, 16),
    "a": int_spec(16), "b": int_spec(16), "w": int_spec(1), "mod": mod_spec(8), "eq": st.sampled_from(["same", "diff", "diff", "rnd"]), "pos": st.integers(0, 5000), "al": st.integers(0, 63)})


def tests(tier):
    return [
        Test("safe_fast", S_DIFF, run_diff, {"quick": 40000, "thorough": 300000}, CFGA + (("w32",) if CFGA == ("asan",) else ())),
        Test("memcheck", S_CT, run_ct, {"quick": 4800, "thorough": 32000}, ("rel",)),
    ]
