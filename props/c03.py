"""C03: bash-f, bash hash, bash-prg command sequences, brng CTR/HMAC and botp HOTP/TOTP/OCRA equal the
Python models of STB 34.101.77 / 34.101.47 (pyref/bash.py, brng.py, botp.py)."""
import os
from harness import Test, Fail, st
from gens import expand
import pyref.bash as RB
import pyref.brng as RG
import pyref.botp as RO
from props.c10_more import suites, cstr

RULE = ("cases: bash-f on random/sparse/all-ones states; bashHash for all 16 levels with lengths around the rate; bash-prg command sequences "
        "(start/restart/absorb/squeeze/encrypt/decrypt/ratchet, <= 10 commands, data lengths 0,1,buf_len-1,buf_len,buf_len+1,2 buf_len, uniform) on keyed and keyless automata for all (l,d); "
        "brng CTR with IVs whose counter wraps 32/64/128/192/256 bits, prior buffer content as additional input, ragged requests; brng HMAC with key/iv length classes; "
        "HOTP/TOTP digits 6..8, OCRA suites from the grammar with digits 4..9 and every optional field, counters incl. ff..ff. "
        "non-trivial: data length straddling the rate, a counter carry across a word, a command sequence of >= 3 commands with a mode switch, an OCRA suite with >= 2 optional fields; "
        "distinct by (mechanism, level/suite, length class, command kinds)")
LEVEL = "exploration"
ASSUMPTIONS = ["pyref/bash.py, brng.py, botp.py are faithful models (validated on every vector of bash_test.c, brng_test.c, botp_test.c; written from the standards' definitions)"]
BUDGET = {"quick": 240, "thorough": 3000}
CFG = tuple(os.environ.get("VERIF_CFG", "asan").split(","))


def chk(name, got, exp):
    if got != exp:
        raise Fail("%s: library %s != model %s" % (name, got.hex()[:128] if isinstance(got, bytes) else got, exp.hex()[:128] if isinstance(exp, bytes) else exp))


def run_bash(ctx, c):
    x = ctx.x
    # bash-f
    cls = c["sc"]
    s = expand(c["seed"], 192)
    if cls == "zero": s = bytes(192)
    elif cls == "ones": s = b"\xff" * 192
    elif cls == "sparse":
        a = bytearray(192); a[c["n"] % 192] = 1 << (c["n"] % 8); s = bytes(a)
    b = x.buf(s)
    x.call("bashF", b, x.out(x.call("bashF_deep", ret="z")), ret="v")
    chk("bashF", b.read(), RB.bash_f(s))
    # hash
    l = c["l"]
    rate = 192 - l // 2
    n = c["n"] if c["nk"] is None else max(0, rate * c["nk"][0] + c["nk"][1])
    msg = expand(c["seed"] + "m", n)
    d = x.out(l // 4)
    if x.call("bashHash", d, l, x.buf(msg), n): raise Fail("bashHash failed")
    chk("bashHash(l=%d,n=%d)" % (l, n), d.read(), RB.bash_hash(l, msg))
    ctx.cls("l%d" % l, "sc_" + cls)
    if n >= rate - 1 and abs((n % rate) - rate // 2) >= rate // 2 - 2:
        ctx.nontrivial("bashhash", l, n // rate, n % rate)
    ctx.sample(c)


S_BASH = st.fixed_dictionaries({"seed": st.binary(min_size=1, max_size=4).map(bytes.hex), "sc": st.sampled_from(["rnd", "rnd", "zero", "ones", "sparse"]),
                                "l": st.sampled_from(list(range(16, 257, 16))), "n": st.integers(0, 500),
                                "nk": st.one_of(st.none(), st.tuples(st.integers(0, 3), st.sampled_from([-1, 0, 1])))})


def run_prg(ctx, c):
    x = ctx.x
    l, d = c["l"], c["d"]
    ann = expand(c["seed"] + "a0", 4 * (c["annw"] % 16))
    klen = 0 if not c["keyed"] else max(l // 8, 4 * (c["keyw"] % 16))
    key = expand(c["seed"] + "b0", klen)
    S = x.out(x.call("bashPrg_keep", ret="z"))
    x.call("bashPrgStart", S, l, d, x.buf(ann), len(ann), x.buf(key), len(key), ret="v")
    M = RB.Prg(l, d, ann, key)
    keyed = klen > 0
    kinds = []
    for i, (cmd, lk) in enumerate(c["cmds"]):
        bl = M.buf_len
        n = lk if isinstance(lk, int) else max(0, bl * lk[0] + lk[1])
        data = expand(c["seed"] + "%02x" % i, n)
        if cmd == "restart":
            a2 = expand(c["seed"] + "c%x" % i, 4 * (n % 16))
            k2len = 0 if n % 2 == 0 else max(l // 8, 4 * (n % 16))     # a key moves a keyless automaton into the keyed mode (bash.h, remark of bashPrgRestart)
            k2 = expand(c["seed"] + "d%x" % i, k2len)
            keyed = keyed or k2len > 0
            x.call("bashPrgRestart", x.buf(a2), len(a2), x.buf(k2), len(k2), S, ret="v")
            M.restart(a2, k2)
        elif cmd == "ratchet":
            x.call("bashPrgRatchet", S, ret="v"); M.ratchet()
        elif cmd == "absorb" or (cmd in ("encr", "decr") and not keyed):
            x.call("bashPrgAbsorb", x.buf(data), n, S, ret="v"); M.absorb(data); cmd = "absorb"
        elif cmd == "squeeze":
            b = x.out(n); x.call("bashPrgSqueeze", b, n, S, ret="v")
            chk("bashPrgSqueeze #%d (l=%d d=%d n=%d keyed=%s)" % (i, l, d, n, keyed), b.read(), M.squeeze(n))
        elif cmd == "encr":
            b = x.buf(data); x.call("bashPrgEncr", b, n, S, ret="v")
            chk("bashPrgEncr #%d (l=%d d=%d n=%d)" % (i, l, d, n), b.read(), M.encr(data))
        elif cmd == "decr":
            b = x.buf(data); x.call("bashPrgDecr", b, n, S, ret="v")
            chk("bashPrgDecr #%d (l=%d d=%d n=%d)" % (i, l, d, n), b.read(), M.decr(data))
        kinds.append(cmd)
    b = x.out(48); x.call("bashPrgSqueeze", b, 48, S, ret="v")
    chk("bashPrg final squeeze after %s (l=%d d=%d keyed=%s)" % (kinds, l, d, keyed), b.read(), M.squeeze(48))
    ctx.cls("l%d" % l, "d%d" % d, "keyed" if keyed else "keyless")
    if len(set(kinds)) >= 2 and len(kinds) >= 3:
        ctx.nontrivial("prg", l, d, keyed, tuple(kinds))
    ctx.sample(c)


LK = st.one_of(st.integers(0, 200), st.tuples(st.integers(0, 2), st.sampled_from([-1, 0, 1])).map(list))
S_PRG = st.fixed_dictionaries({
    "l": st.sampled_from([128, 192, 256]), "d": st.sampled_from([1, 2]), "annw": st.integers(0, 15), "keyw": st.integers(0, 15), "keyed": st.booleans(),
    "seed": st.binary(min_size=1, max_size=4).map(bytes.hex),
    "cmds": st.lists(st.tuples(st.sampled_from(["absorb", "squeeze", "encr", "decr", "ratchet", "restart"]), LK).map(list), min_size=1, max_size=10)})


def run_prg_inv(ctx, c):
    """decrypt under an identical history inverts encrypt (two automata with the same command history)"""
    x = ctx.x
    l, d = c["l"], c["d"]
    key = expand(c["seed"] + "k", max(l // 8, 4 * (c["keyw"] % 16)))
    ann = expand(c["seed"] + "a", 4 * (c["annw"] % 16))
    keep = x.call("bashPrg_keep", ret="z")
    A, B = x.out(keep), x.out(keep)
    for S in (A, B):
        x.call("bashPrgStart", S, l, d, x.buf(ann), len(ann), x.buf(key), len(key), ret="v")
    for i, (cmd, n) in enumerate(c["cmds"]):
        data = expand(c["seed"] + "%d" % i, n)
        if cmd == "absorb":
            for S in (A, B): x.call("bashPrgAbsorb", x.buf(data), n, S, ret="v")
        elif cmd == "ratchet":
            for S in (A, B): x.call("bashPrgRatchet", S, ret="v")
        else:
            b = x.buf(data); x.call("bashPrgEncr", b, n, A, ret="v")
            x.call("bashPrgDecr", b, n, B, ret="v")
            if b.read() != data:
                raise Fail("bashPrgDecr does not invert bashPrgEncr under the same history (cmd #%d n=%d l=%d d=%d)" % (i, n, l, d))
    ctx.nontrivial("prginv", l, d, tuple(m for m, _ in c["cmds"]))
    ctx.sample(c)


S_PRGINV = st.fixed_dictionaries({"l": st.sampled_from([128, 192, 256]), "d": st.sampled_from([1, 2]), "annw": st.integers(0, 15), "keyw": st.integers(0, 15),
                                  "seed": st.binary(min_size=1, max_size=4).map(bytes.hex),
                                  "cmds": st.lists(st.tuples(st.sampled_from(["absorb", "encr", "encr", "ratchet"]), st.integers(0, 330)).map(list), min_size=1, max_size=6)})

IVS = {"zero": bytes(32), "ff4": b"\xff" * 4 + bytes(28), "ff8": b"\xff" * 8 + bytes(24), "ff16": b"\xff" * 16 + bytes(16), "ff24": b"\xff" * 24 + bytes(8),
       "ff32": b"\xff" * 32, "fe": b"\xfe" + b"\xff" * 31, "fd": b"\xfd" + b"\xff" * 31}


def run_brng(ctx, c):
    x = ctx.x
    sizes = [1 + s % 100 if s % 5 else 32 * (s % 4) for s in c["sizes"]]
    if c["kind"] == "CTR":
        key = expand(c["seed"] + "k", 32)
        iv = IVS.get(c["iv"]) if c["iv"] != "rnd" else expand(c["seed"] + "iv", 32)
        noiv = c["iv"] == "null"
        S = x.out(x.call("brngCTR_keep", ret="z"))
        x.call("brngCTRStart", S, x.buf(key), None if noiv else x.buf(iv), ret="v")
        M = RG.CTR(key, None if noiv else iv)
        for i, n in enumerate(sizes):
            prior = expand(c["seed"] + "x%d" % i, n) if c["prior"] else bytes(n)
            b = x.buf(prior)
            x.call("brngCTRStepR", b, n, S, ret="v")
            chk("brngCTRStepR #%d (iv=%s n=%d sizes=%s)" % (i, c["iv"], n, sizes), b.read(), M.step(prior))
        o = x.out(32); x.call("brngCTRStepG", o, S, ret="v")
        chk("brngCTRStepG", o.read(), M.get_iv())
        # one-shot
        tot = sum(sizes)
        prior = expand(c["seed"] + "y", tot) if c["prior"] else bytes(tot)
        b = x.buf(prior); IV = x.buf(bytes(32) if noiv else iv)
        if x.call("brngCTRRand", b, tot, x.buf(key), IV): raise Fail("brngCTRRand failed")
        eo, eiv = RG.ctr_rand(key, bytes(32) if noiv else iv, prior)
        chk("brngCTRRand", b.read(), eo); chk("brngCTRRand iv", IV.read(), eiv)
        blocks = (sum(sizes) + 31) // 32 + len(sizes)
        if c["iv"] in IVS and c["iv"] != "zero":
            ctx.nontrivial("ctr_wrap", c["iv"], min(blocks, 6), c["prior"])
        ctx.cls("ctr_iv_" + c["iv"])
    else:
        key = expand(c["seed"] + "k", c["klen"])
        iv = expand(c["seed"] + "iv", c["ivlen"])
        S = x.out(x.call("brngHMAC_keep", ret="z"))
        IVb = x.buf(iv)
        x.call("brngHMACStart", S, x.buf(key), len(key), IVb, len(iv), ret="v")
        M = RG.HMAC(key, iv)
        for i, n in enumerate(sizes):
            b = x.out(n)
            x.call("brngHMACStepR", b, n, S, ret="v")
            chk("brngHMACStepR #%d (klen=%d ivlen=%d n=%d)" % (i, len(key), len(iv), n), b.read(), M.step(n))
        ctx.nontrivial("hmac", c["klen"], c["ivlen"], tuple(s % 32 for s in sizes)[:3])
        ctx.cls("hmac_iv%s" % ("gt64" if c["ivlen"] > 64 else "le64"))
    ctx.sample(c)


S_BRNG = st.fixed_dictionaries({
    "kind": st.sampled_from(["CTR", "CTR", "HMAC"]), "seed": st.binary(min_size=1, max_size=4).map(bytes.hex), "klen": st.sampled_from([0, 1, 31, 32, 33, 64, 100]),
    "iv": st.sampled_from(sorted(IVS) + ["rnd", "rnd", "null"]), "ivlen": st.sampled_from([0, 1, 31, 32, 63, 64, 65, 200]),
    "sizes": st.lists(st.integers(0, 1000), min_size=1, max_size=5), "prior": st.booleans()})


def run_botp(ctx, c):
    x = ctx.x
    key = expand(c["seed"] + "k", c["klen"])
    K = x.buf(key)
    ctr = {"zero": bytes(8), "ff": b"\xff" * 8, "ff4": bytes(4) + b"\xff" * 4, "ff1": bytes(7) + b"\xff", "rnd": expand(c["seed"] + "c", 8)}[c["ctr"]]
    kind = c["kind"]
    if kind == "HOTP":
        dg = c["digit"]
        o = x.out(dg + 1)
        if x.call("botpHOTPRand", o, dg, K, len(key), x.buf(ctr)): raise Fail("botpHOTPRand failed")
        exp = RO.hotp(key, ctr, dg)
        chk("botpHOTPRand(digit=%d ctr=%s)" % (dg, ctr.hex()), o.read(), exp.encode() + b"\0")
        if x.call("botpHOTPVerify", cstr(x, exp), K, len(key), x.buf(ctr)) != 0: raise Fail("botpHOTPVerify rejects the right password")
        bad = exp[:-1] + str((int(exp[-1]) + 1 + c["bit"] % 9) % 10)
        if x.call("botpHOTPVerify", cstr(x, bad), K, len(key), x.buf(ctr)) == 0: raise Fail("botpHOTPVerify accepts a changed digit")
        cb = x.buf(ctr); x.call("botpCtrNext", cb, ret="v")
        chk("botpCtrNext", cb.read(), RO.ctr_next(ctr))
        ctx.nontrivial("hotp", dg, c["ctr"], c["klen"] > 32)
    elif kind == "TOTP":
        dg = c["digit"]
        t = int.from_bytes(expand(c["seed"] + "t", 6), "little") >> (c["bit"] % 40)
        o = x.out(dg + 1)
        if x.call("botpTOTPRand", o, dg, K, len(key), t): raise Fail("botpTOTPRand failed")
        exp = RO.totp(key, t, dg)
        chk("botpTOTPRand(digit=%d t=%d)" % (dg, t), o.read(), exp.encode() + b"\0")
        if x.call("botpTOTPVerify", cstr(x, exp), K, len(key), t) != 0: raise Fail("botpTOTPVerify rejects the right password")
        ctx.nontrivial("totp", dg, t.bit_length() // 8)
    else:
        suite = c["suite"]
        f = RO.ocra_suite_parse(suite)
        if f is None:
            raise Fail("model rejects generated suite %s" % suite)
        q = expand(c["seed"] + "q", max(4, min(2 * f["q_max"], c["qlen"])))
        qt = suite.split(":")[2].split("-")
        qf = [z for z in qt if z.startswith("Q")][0]
        if qf[1] == "N": q = bytes(0x30 + b % 10 for b in q)
        elif qf[1] == "A": q = bytes(0x41 + b % 26 for b in q)
        p = expand(c["seed"] + "p", f["p_len"]) if f["p_len"] else None
        s = expand(c["seed"] + "s", f["s_len"]) if f["s_len"] else None
        t = (int.from_bytes(expand(c["seed"] + "t", 5), "little") if f["ts"] else 0)
        o = x.out(f["digit"] + 1)
        r = x.call("botpOCRARand", o, cstr(x, suite), K, len(key), x.buf(q), len(q), x.buf(ctr) if f["c"] else None, x.buf(p) if p else None, x.buf(s) if s else None, t)
        if r: raise Fail("botpOCRARand(%s) failed %d" % (suite, r))
        exp = RO.ocra(suite, key, q, ctr if f["c"] else None, p, s, t if f["ts"] else None)
        chk("botpOCRARand(%s)" % suite, o.read(), exp.encode() + b"\0")
        r = x.call("botpOCRAVerify", cstr(x, exp), cstr(x, suite), K, len(key), x.buf(q), len(q), x.buf(ctr) if f["c"] else None, x.buf(p) if p else None, x.buf(s) if s else None, t)
        if r: raise Fail("botpOCRAVerify rejects the right password (%s)" % suite)
        # stepped use on one state: questions of changing length, counter incremented after every password
        S = x.out(x.call("botpOCRA_keep", ret="z"))
        if not x.call("botpOCRAStart", S, cstr(x, suite), K, len(key)):
            raise Fail("botpOCRAStart rejected %s" % suite)
        x.call("botpOCRAStepS", S, x.buf(ctr) if f["c"] else None, x.buf(p) if p else None, x.buf(s) if s else None, ret="v")
        cur = ctr
        for i in range(3):
            ql = max(4, min(2 * f["q_max"], (c["qlen"] * (5 * i + 1) + 11 * i) % (2 * f["q_max"] + 1)))
            qi = (q * (ql // len(q) + 1))[:ql]
            o = x.out(f["digit"] + 1)
            x.call("botpOCRAStepR", o, x.buf(qi), ql, t, S, ret="v")
            exp = RO.ocra(suite, key, qi, cur if f["c"] else None, p, s, t if f["ts"] else None)
            chk("botpOCRAStepR #%d (%s, q_len=%d)" % (i, suite, ql), o.read(), exp.encode() + b"\0")
            if f["c"]:
                cur = RO.ctr_next(cur)
        nopt = sum(1 for z in (f["c"], f["p_len"], f["s_len"], f["ts"]) if z)
        ctx.cls("ocra_opt%d" % nopt, "ocra_digit%d" % f["digit"])
        if nopt >= 2:
            ctx.nontrivial("ocra", suite, c["ctr"])
    ctx.cls(kind)
    ctx.sample(c)


S_BOTP = st.fixed_dictionaries({
    "kind": st.sampled_from(["HOTP", "TOTP", "OCRA", "OCRA"]), "seed": st.binary(min_size=1, max_size=4).map(bytes.hex), "klen": st.sampled_from([0, 1, 16, 32, 33, 64, 100]),
    "digit": st.sampled_from([6, 7, 8]), "ctr": st.sampled_from(["zero", "ff", "ff4", "ff1", "rnd"]), "suite": suites(), "qlen": st.integers(4, 128), "bit": st.integers(0, 100)})


def tests(tier):
    # step-wise editions with generated fragmentations / interleavings (oracle: the one-shot functions, props/c10_more.py; theirs: the models here)
    from props import c10_more
    chunked = [Test("chunked_" + t.name, t.strategy, t.run, {k: max(200, v // 4) for k, v in t.n.items()}, CFG) for t in c10_more.tests(tier)]
    return own_tests(tier) + chunked


def own_tests(tier):
    # (bash32a: the 32-bit bash-f back end, selected at build time, under the same sanitizer - the only other back end that changes state sizes)
    CFGB = CFG + (("bash32a",) if CFG == ("asan",) else ())
    return [
        Test("bash", S_BASH, run_bash, {"quick": 5000, "thorough": 50000}, CFGB),
        Test("prg", S_PRG, run_prg, {"quick": 5000, "thorough": 50000}, CFGB),
        Test("prg_inv", S_PRGINV, run_prg_inv, {"quick": 4000, "thorough": 40000}, CFG),
        Test("brng", S_BRNG, run_brng, {"quick": 6000, "thorough": 60000}, CFG),
        Test("botp", S_BOTP, run_botp, {"quick": 6000, "thorough": 60000}, CFG),
    ]
