"""C01: every belt mechanism computes what STB 34.101.31 defines (oracle: pyref/belt.py, an independent
Python model validated on the appendix vectors), inverses invert, authenticated unwrapping rejects foreign triples."""
import os
from harness import Test, Sweep, Fail, st
from gens import expand
import pyref.belt as R

RULE = ("cases: key length 16/24/32 (random, all-zero, all-FF), IV/header/level, message length from {0,1,15,16,17,31,32,33,47,48,63,64,65,79,80,81} + uniform 0..200 (occasionally to 600); "
        "CTR IVs chosen as D_K(target) so that the 128-bit counter carries through 1..4 words; WBL/KWP lengths 32..208 around the 64/80 switch; FMT mod/count boundary classes; "
        "every mechanism's output compared octet for octet with the model, decrypt(encrypt) == id, single-bit forgeries of (ct, ad, tag, key, iv) rejected. "
        "non-trivial: length > one block and not a block multiple, counter carry, optimised WBL path, FMT with non power-of-two alphabet and count >= 4, any forgery; distinct by (mechanism, key length, length class, flags)")
LEVEL = "exploration"
ASSUMPTIONS = ["pyref/belt.py is a faithful model of STB 34.101.31 (validated on all appendix vectors of test/belt_test.c; written independently of the C code)",
               "ASan + bounds build with library asserts on, exact-size buffers"]
EXHAUSTIVE_NOTE = ["FMT block-count table beltFMT_keep(mod, 2n) for all n 1..300 and (quick) a covering subset / (thorough) all mod 2..65536, against the exact rule b = least b with mod^n <= 2^(64 b)"]
BUDGET = {"quick": 240, "thorough": 3000}
CFG = tuple(os.environ.get("VERIF_CFG", "asan").split(","))
ERR_BAD_MAC, ERR_BAD_KEYTOKEN = None, None


def errs(x):
    global ERR_BAD_MAC, ERR_BAD_KEYTOKEN
    return


LENS = [0, 1, 15, 16, 17, 31, 32, 33, 47, 48, 63, 64, 65, 79, 80, 81]


def mkkey(c):
    kl = c["kl"]
    if c["kc"] == "zero":
        return bytes(kl)
    if c["kc"] == "ff":
        return b"\xff" * kl
    return expand(c["seed"] + "key", kl)


def lencls(n, blk=16):
    return (min(n // blk, 6), n % blk != 0)


def chk(name, got, exp):
    if got != exp:
        raise Fail("%s: library %s != model %s" % (name, got.hex()[:160] if isinstance(got, bytes) else got, exp.hex()[:160] if isinstance(exp, bytes) else exp))


def run_modes(ctx, c):
    x = ctx.x
    key = mkkey(c)
    kl = len(key)
    n = c["n"]
    msg = expand(c["seed"], n)
    iv = expand(c["seed"] + "iv", 16)
    K = x.buf(key)
    ctx.cls("kl%d" % kl, "len%d" % min(n // 16, 6))
    # CTR / CFB: any length
    if c["ctrcarry"]:
        # counter s = E_K(iv) + 1, +2, ... : choose iv = D_K(target) so that s starts just below a carry boundary
        words = c["ctrcarry"]
        target = (1 << (32 * words)) - 1 - (c["n"] % 2)
        iv = R.block_decr(key, target.to_bytes(16, "little"))
        ctx.nontrivial("ctr_carry", words, kl)
    IV = x.buf(iv)
    d = x.out(n)
    if x.call("beltCTR", d, x.buf(msg), n, K, kl, IV): raise Fail("beltCTR failed")
    chk("beltCTR", d.read(), R.ctr(key, iv, msg))
    for fn, ref in (("beltCFBEncr", R.cfb_encr), ("beltCFBDecr", R.cfb_decr)):
        d = x.out(n)
        if x.call(fn, d, x.buf(msg), n, K, kl, IV): raise Fail(fn + " failed")
        chk(fn, d.read(), ref(key, iv, msg))
    # MAC / hash / HMAC
    d = x.out(8)
    if x.call("beltMAC", d, x.buf(msg), n, K, kl): raise Fail("beltMAC failed")
    chk("beltMAC", d.read(), R.mac(key, msg))
    d = x.out(32)
    if x.call("beltHash", d, x.buf(msg), n): raise Fail("beltHash failed")
    chk("beltHash", d.read(), R.hash(msg))
    hk = expand(c["seed"] + "hk", c["hkl"])
    d = x.out(32)
    if x.call("beltHMAC", d, x.buf(msg), n, x.buf(hk), len(hk)): raise Fail("beltHMAC failed")
    chk("beltHMAC", d.read(), R.hmac(hk, msg))
    if n >= 16:
        for fn, ref, inv in (("beltECBEncr", R.ecb_encr, "beltECBDecr"), ("beltECBDecr", R.ecb_decr, "beltECBEncr")):
            d = x.out(n)
            if x.call(fn, d, x.buf(msg), n, K, kl): raise Fail(fn + " failed")
            chk(fn, d.read(), ref(key, msg))
            e = x.out(n)
            x.call(inv, e, d, n, K, kl)
            chk(inv + "(" + fn + ")", e.read(), msg)
        for fn, ref, inv in (("beltCBCEncr", R.cbc_encr, "beltCBCDecr"), ("beltCBCDecr", R.cbc_decr, "beltCBCEncr")):
            d = x.out(n)
            if x.call(fn, d, x.buf(msg), n, K, kl, IV): raise Fail(fn + " failed")
            chk(fn, d.read(), ref(key, iv, msg))
            e = x.out(n)
            x.call(inv, e, d, n, K, kl, IV)
            chk(inv + "(" + fn + ")", e.read(), msg)
        if n % 16 == 0:
            for fn, ref in (("beltBDEEncr", R.bde_encr), ("beltBDEDecr", R.bde_decr)):
                d = x.out(n)
                if x.call(fn, d, x.buf(msg), n, K, kl, IV): raise Fail(fn + " failed")
                chk(fn, d.read(), ref(key, iv, msg))
            if n >= 32:
                for fn, ref in (("beltSDEEncr", R.sde_encr), ("beltSDEDecr", R.sde_decr)):
                    d = x.out(n)
                    if x.call(fn, d, x.buf(msg), n, K, kl, IV): raise Fail(fn + " failed")
                    chk(fn, d.read(), ref(key, iv, msg))
    if n > 16 and n % 16:
        ctx.nontrivial("modes", kl, lencls(n), c["kc"])
    if n > 32 and n % 32:
        ctx.nontrivial("hash", lencls(n, 32), c["hkl"] > 32)
    ctx.sample(c)


S_MODES = st.fixed_dictionaries({
    "kl": st.sampled_from([16, 24, 32]), "kc": st.sampled_from(["rnd", "rnd", "rnd", "zero", "ff"]), "seed": st.binary(min_size=1, max_size=4).map(bytes.hex),
    "n": st.one_of(st.sampled_from(LENS), st.integers(0, 200), st.integers(0, 600)), "hkl": st.sampled_from([0, 1, 16, 31, 32, 33, 64, 65, 100]),
    "ctrcarry": st.sampled_from([0, 0, 0, 1, 2, 3, 4])})


def flip(b, bit):
    a = bytearray(b)
    a[(bit // 8) % len(a)] ^= 1 << (bit % 8)
    return bytes(a)


def run_aead(ctx, c):
    x = ctx.x
    key = mkkey(c)
    kl = len(key)
    n1, n2 = c["n1"], c["n2"]
    pt, ad, iv = expand(c["seed"], n1), expand(c["seed"] + "ad", n2), expand(c["seed"] + "iv", 16)
    K, IV = x.buf(key), x.buf(iv)
    for name, wrap, unwrap in (("DWP", R.dwp_wrap, R.dwp_unwrap), ("CHE", R.che_wrap, R.che_unwrap)):
        d, m = x.out(n1), x.out(8)
        if x.call("belt%sWrap" % name, d, m, x.buf(pt), n1, x.buf(ad), n2, K, kl, IV): raise Fail("Wrap failed")
        ect, etag = wrap(key, iv, ad, pt)
        chk("belt%sWrap ct" % name, d.read(), ect); chk("belt%sWrap mac" % name, m.read(), etag)
        o = x.out(n1)
        r = x.call("belt%sUnwrap" % name, o, x.buf(ect), n1, x.buf(ad), n2, x.buf(etag), K, kl, IV)
        if r != 0 or o.read() != pt:
            raise Fail("belt%sUnwrap does not invert Wrap (err %d)" % (name, r))
        # forgeries: one bit in one component
        what = c["forge"]
        bit = c["bit"]
        fct, fad, ftag, fkey, fiv = ect, ad, etag, key, iv
        if what == "ct" and n1: fct = flip(ect, bit)
        elif what == "ad" and n2: fad = flip(ad, bit)
        elif what == "tag": ftag = flip(etag, bit)
        elif what == "key": fkey = flip(key, bit)
        elif what == "iv": fiv = flip(iv, bit)
        elif what == "adlen" and n2: fad = ad[:-1]
        elif what == "ctlen" and n1: fct = ect[:-1]
        else:
            continue
        model = unwrap(fkey, fiv, fad, fct, ftag)
        o = x.out(len(fct))
        r = x.call("belt%sUnwrap" % name, o, x.buf(fct), len(fct), x.buf(fad), len(fad), x.buf(ftag), x.buf(fkey), kl, x.buf(fiv))
        if (r == 0) != (model is not None):
            raise Fail("belt%sUnwrap verdict %d on forged %s, model says %s" % (name, r, what, "accept" if model is not None else "reject"))
        if r == 0:
            raise Fail("belt%sUnwrap accepted a forged %s" % (name, what))
        ctx.nontrivial("forge", name, what, kl, lencls(n1), lencls(n2))
    ctx.cls("forge_" + c["forge"])
    ctx.sample(c)


S_AEAD = st.fixed_dictionaries({
    "kl": st.sampled_from([16, 24, 32]), "kc": st.sampled_from(["rnd", "rnd", "zero", "ff"]), "seed": st.binary(min_size=1, max_size=4).map(bytes.hex),
    "n1": st.one_of(st.sampled_from(LENS), st.integers(0, 120)), "n2": st.one_of(st.sampled_from(LENS), st.integers(0, 100)),
    "forge": st.sampled_from(["ct", "ad", "tag", "key", "iv", "adlen", "ctlen"]), "bit": st.integers(0, 4000)})


def run_wbl(ctx, c):
    x = ctx.x
    key = mkkey(c)
    kl = len(key)
    n = c["n"]
    msg = expand(c["seed"], n)
    K = x.buf(key)
    S = x.out(x.call("beltWBL_keep", ret="z"))
    x.call("beltWBLStart", S, K, kl, ret="v")
    b = x.buf(msg); x.call("beltWBLStepE", b, n, S, ret="v")
    e = R.wbl_encr(key, msg)
    chk("beltWBLStepE(n=%d)" % n, b.read(), e)
    b2 = x.buf(msg); x.call("beltWBLStepD", b2, n, S, ret="v")
    chk("beltWBLStepD(n=%d)" % n, b2.read(), R.wbl_decr(key, msg))
    x.call("beltWBLStepD", b, n, S, ret="v"); chk("WBL D(E(x))", b.read(), msg)
    ctx.cls("wbl_%s" % ("opt" if n % 16 == 0 and n >= 64 else "gen"))
    ctx.nontrivial("wbl", kl, n if n <= 96 else (n // 16, n % 16))
    # KWP: key of n-16.. wrap
    kn = max(16, n - 16)
    data = msg[:kn]
    hdr = expand(c["seed"] + "h", 16) if c["hdr"] else None
    H = x.buf(hdr) if hdr else None
    d = x.out(kn + 16)
    if x.call("beltKWPWrap", d, x.buf(data), kn, H, K, kl): raise Fail("KWPWrap failed")
    tok = R.kwp_wrap(key, hdr, data)
    chk("beltKWPWrap", d.read(), tok)
    o = x.out(kn)
    r = x.call("beltKWPUnwrap", o, x.buf(tok), kn + 16, H, K, kl)
    if r or o.read() != data:
        raise Fail("beltKWPUnwrap does not invert Wrap (err %d)" % r)
    what = c["forge"]
    ftok, fh, fkey = tok, hdr, key
    if what == "tok": ftok = flip(tok, c["bit"])
    elif what == "hdr": fh = flip(hdr or bytes(16), c["bit"])
    elif what == "key": fkey = flip(key, c["bit"])
    elif what == "nohdr": fh = None if hdr else expand("q", 16)
    model = R.kwp_unwrap(fkey, fh, ftok)
    o = x.out(kn)
    r = x.call("beltKWPUnwrap", o, x.buf(ftok), kn + 16, x.buf(fh) if fh else None, x.buf(fkey), kl)
    if (r == 0) != (model is not None):
        raise Fail("beltKWPUnwrap verdict %d on forged %s, model says %s" % (r, what, model is not None))
    ctx.nontrivial("kwp_forge", what, kl, kn)
    ctx.sample(c)


def run_wbl_big(ctx, c):
    """wide blocks of 128 and more 16-octet blocks (the round number needs more than one octet from 2048 octets on): WBL, KWP, SDE sectors"""
    x = ctx.x
    key = mkkey(c)
    kl = len(key)
    n = c["n"]
    msg = expand(c["seed"], n)
    K = x.buf(key)
    S = x.out(x.call("beltWBL_keep", ret="z"))
    x.call("beltWBLStart", S, K, kl, ret="v")
    b = x.buf(msg); x.call("beltWBLStepE", b, n, S, ret="v")
    e = R.wbl_encr(key, msg)
    chk("beltWBLStepE(n=%d)" % n, b.read(), e)
    x.call("beltWBLStepD", b, n, S, ret="v"); chk("beltWBLStepD(E(x)) (n=%d)" % n, b.read(), msg)
    hdr = expand(c["seed"] + "h", 16) if c["hdr"] else None
    d = x.out(n + 16)
    if x.call("beltKWPWrap", d, x.buf(msg), n, x.buf(hdr) if hdr else None, K, kl): raise Fail("KWPWrap failed")
    tok = d.read()
    chk("beltKWPWrap(n=%d)" % n, tok, R.kwp_wrap(key, hdr, msg))
    o = x.out(n)
    r = x.call("beltKWPUnwrap", o, x.buf(tok), n + 16, x.buf(hdr) if hdr else None, K, kl)
    if r or o.read() != msg:
        raise Fail("beltKWPUnwrap does not invert Wrap for a %d-octet key (err %d)" % (n, r))
    if n % 16 == 0:
        iv = expand(c["seed"] + "iv", 16)
        d = x.out(n)
        if x.call("beltSDEEncr", d, x.buf(msg), n, K, kl, x.buf(iv)): raise Fail("SDEEncr failed")
        chk("beltSDEEncr(sector of %d octets)" % n, d.read(), R.sde_encr(key, iv, msg))
        d2 = x.out(n)
        if x.call("beltSDEDecr", d2, d, n, K, kl, x.buf(iv)): raise Fail("SDEDecr failed")
        chk("beltSDEDecr(SDEEncr(x)) (%d octets)" % n, d2.read(), msg)
    ctx.cls("wblbig_%s" % ("opt" if n % 16 == 0 else "gen"), "ge2048" if n >= 2048 else "lt2048")
    ctx.nontrivial("wbl_big", kl, n)
    ctx.sample(c)


S_WBL_BIG = st.fixed_dictionaries({
    "kl": st.sampled_from([16, 24, 32]), "kc": st.sampled_from(["rnd", "rnd", "zero", "ff"]), "seed": st.binary(min_size=1, max_size=4).map(bytes.hex),
    "n": st.sampled_from([1024, 2031, 2032, 2033, 2047, 2048, 2049, 2064, 3000, 4080, 4096, 4097, 4112]), "hdr": st.booleans()})


S_WBL = st.fixed_dictionaries({
    "kl": st.sampled_from([16, 24, 32]), "kc": st.sampled_from(["rnd", "rnd", "zero", "ff"]), "seed": st.binary(min_size=1, max_size=4).map(bytes.hex),
    "n": st.one_of(st.sampled_from([32, 33, 47, 48, 49, 63, 64, 65, 79, 80, 81, 95, 96, 97, 112, 128, 144, 160, 176, 192, 208]), st.integers(32, 208)),
    "hdr": st.booleans(), "forge": st.sampled_from(["tok", "hdr", "key", "nohdr"]), "bit": st.integers(0, 4000)})


def run_prim(ctx, c):
    x = ctx.x
    key = mkkey(c)
    kl = len(key)
    K = x.buf(key)
    ek = x.out(32); x.call("beltKeyExpand", ek, K, kl, ret="v")
    chk("beltKeyExpand", ek.read(), R.key_expand(key))
    ek2 = x.out(32); x.call("beltKeyExpand2", ek2, K, kl, ret="v")
    chk("beltKeyExpand2", ek2.read(), R.key_expand(key))
    blk = expand(c["seed"] + "b", 16) if c["bc"] == "rnd" else (bytes(16) if c["bc"] == "zero" else b"\xff" * 16)
    b = x.buf(blk); x.call("beltBlockEncr", b, ek2, ret="v"); chk("beltBlockEncr", b.read(), R.block_encr(key, blk))
    b = x.buf(blk); x.call("beltBlockDecr", b, ek2, ret="v"); chk("beltBlockDecr", b.read(), R.block_decr(key, blk))
    # compress
    X = expand(c["seed"] + "x", 64) if c["bc"] == "rnd" else (bytes(64) if c["bc"] == "zero" else b"\xff" * 64)
    s16, y32 = R.compress(X)
    h = x.buf(X[32:]); s = x.zero(16)       # beltCompr2: h || X is compressed into h (h = second half), S is XORed into s
    x.call("beltCompr2", s, h, x.buf(X[:32]), x.out(x.call("beltCompr_deep", ret="z")), ret="v")
    chk("beltCompr2 S", s.read(), s16); chk("beltCompr2 Y", h.read(), y32)
    h = x.buf(X[32:])
    x.call("beltCompr", h, x.buf(X[:32]), x.out(x.call("beltCompr_deep", ret="z")), ret="v")
    chk("beltCompr Y", h.read(), y32)
    # KRP
    level = expand(c["seed"] + "l", 12); hdr = expand(c["seed"] + "h", 16)
    for m in (16, 24, 32):
        if m <= kl:
            d = x.out(m)
            if x.call("beltKRP", d, m, K, kl, x.buf(level), x.buf(hdr)): raise Fail("beltKRP failed")
            chk("beltKRP(%d->%d)" % (kl, m), d.read(), R.krp(key, level, hdr, m))
    # PBKDF2
    pwd = expand(c["seed"] + "p", c["pl"]); salt = expand(c["seed"] + "s", c["sl"])
    it = c["iter"]
    d = x.out(32)
    if x.call("beltPBKDF2", d, x.buf(pwd), len(pwd), it, x.buf(salt), len(salt)): raise Fail("beltPBKDF2 failed")
    chk("beltPBKDF2", d.read(), R.pbkdf2(pwd, it, salt))
    # the length counters of hash / HMAC (128 bit, u32 words) and of DWP / CHE (64 bit, machine words): block <- block + 8 * count.
    # Messages long enough to carry between words cannot be processed in a test, so the helpers are driven directly (belt_lcl.h).
    cv = c.get("cnt", 0)
    for bv in (c.get("blk", 0), (1 << 128) - 1 - (c.get("blk", 0) & 0xFFFFFFFFFF)):
        B = x.buf((bv & ((1 << 128) - 1)).to_bytes(16, "little"))
        x.call("beltBlockAddBitSizeU32", B, cv, ret="v")
        chk("beltBlockAddBitSizeU32(block=%032x, count=%d)" % (bv & ((1 << 128) - 1), cv), B.read(), ((bv + 8 * cv) & ((1 << 128) - 1)).to_bytes(16, "little"))
        hv = bv & ((1 << 64) - 1)
        B = x.buf(hv.to_bytes(8, "little"))
        x.call("beltHalfBlockAddBitSizeW", B, cv, ret="v")
        chk("beltHalfBlockAddBitSizeW(block=%016x, count=%d)" % (hv, cv), B.read(), ((hv + 8 * cv) & ((1 << 64) - 1)).to_bytes(8, "little"))
    ctx.nontrivial("prim", kl, c["kc"], c["bc"], c["pl"] > 32, it, (cv.bit_length() + 3) // 4, (c.get("blk", 0).bit_length() + 7) // 8)
    ctx.sample(c)


S_PRIM = st.fixed_dictionaries({
    "kl": st.sampled_from([16, 24, 32]), "kc": st.sampled_from(["rnd", "rnd", "zero", "ff"]), "bc": st.sampled_from(["rnd", "rnd", "zero", "ff"]),
    "seed": st.binary(min_size=1, max_size=4).map(bytes.hex), "pl": st.sampled_from([0, 1, 8, 32, 33, 70]), "sl": st.sampled_from([0, 8, 16, 40]), "iter": st.integers(1, 12),
    "cnt": st.one_of(st.integers(0, 4096), st.integers(0, 64).flatmap(lambda k: st.integers(max(0, (1 << k) - 3), min((1 << 64) - 1, (1 << k) + 3))), st.integers(0, (1 << 64) - 1)),
    "blk": st.one_of(st.just(0), st.integers(0, 128).flatmap(lambda k: st.integers(max(0, (1 << k) - 40), min((1 << 128) - 1, (1 << k) + 40))), st.integers(0, (1 << 128) - 1))})


MODS = [2, 3, 10, 16, 255, 256, 257, 1000, 49667, 65535, 65536]
COUNTS = [2, 3, 4, 5, 9, 10, 11, 20, 21, 50, 100, 160, 300, 319, 320, 321, 599, 600]


def run_fmt(ctx, c):
    x = ctx.x
    key = mkkey(c)
    kl = len(key)
    mod, cnt = c["mod"], c["count"]
    raw = expand(c["seed"], 2 * cnt)
    cls = c["sc"]
    syms = [int.from_bytes(raw[2 * j:2 * j + 2], "little") % mod for j in range(cnt)]
    if cls == "zero": syms = [0] * cnt
    elif cls == "max": syms = [mod - 1] * cnt
    data = b"".join(s.to_bytes(2, "little") for s in syms)
    iv = expand(c["seed"] + "iv", 16) if c["iv"] else None
    IV = x.buf(iv) if iv else None
    d = x.out(2 * cnt)
    r = x.call("beltFMTEncr", d, mod, x.buf(data), cnt, x.buf(key), kl, IV)
    if r: raise Fail("beltFMTEncr(mod=%d,count=%d) failed %d" % (mod, cnt, r))
    got = [int.from_bytes(d.read()[2 * j:2 * j + 2], "little") for j in range(cnt)]
    exp = R.fmt_encr(key, mod, iv, syms)
    if got != exp:
        raise Fail("beltFMTEncr(mod=%d,count=%d,iv=%s): library %s != model %s" % (mod, cnt, bool(iv), got[:8], exp[:8]))
    e = x.out(2 * cnt)
    r = x.call("beltFMTDecr", e, mod, d, cnt, x.buf(key), kl, IV)
    if r or e.read() != data:
        raise Fail("beltFMTDecr(beltFMTEncr(x)) != x (mod=%d,count=%d)" % (mod, cnt))
    d2 = x.out(2 * cnt)
    x.call("beltFMTDecr", d2, mod, x.buf(data), cnt, x.buf(key), kl, IV)
    got = [int.from_bytes(d2.read()[2 * j:2 * j + 2], "little") for j in range(cnt)]
    if got != R.fmt_decr(key, mod, iv, syms):
        raise Fail("beltFMTDecr(mod=%d,count=%d) != model" % (mod, cnt))
    ctx.cls("mod_%s" % ("pow2" if mod & (mod - 1) == 0 else "gen"), "cnt_%s" % ("odd" if cnt % 2 else "even"))
    if mod & (mod - 1) and cnt >= 4:
        ctx.nontrivial("fmt", mod if mod in MODS else mod.bit_length(), cnt if cnt in COUNTS else cnt % 2, bool(iv), cls)
    ctx.sample(c)


S_FMT = st.fixed_dictionaries({
    "kl": st.sampled_from([16, 24, 32]), "kc": st.sampled_from(["rnd", "rnd", "zero", "ff"]), "seed": st.binary(min_size=1, max_size=4).map(bytes.hex),
    "mod": st.one_of(st.sampled_from(MODS), st.integers(2, 65536)), "count": st.one_of(st.sampled_from(COUNTS), st.integers(2, 80), st.integers(2, 600)),
    "iv": st.booleans(), "sc": st.sampled_from(["rnd", "rnd", "zero", "max"])})


def fmt_rows(tier, part, nparts):
    if tier == "thorough":
        mods = range(2, 65537)
    else:
        sel = set(range(2, 600)) | set(range(49600, 49700)) | set(range(65000, 65537)) | set(range(2, 65537, 37))
        for k in range(1, 17):
            sel |= {(1 << k) - 1, 1 << k, (1 << k) + 1}
        mods = sorted(m for m in sel if 2 <= m <= 65536)
    mods = list(mods)
    return mods[part::nparts]


def sweep_fmt_table(ctx, part, nparts):
    x = ctx.x
    mods = fmt_rows(ctx.tier, part, nparts)
    n = 0
    i = 0
    while i < len(mods):
        # contiguous runs
        j = i
        while j + 1 < len(mods) and mods[j + 1] == mods[j] + 1 and j - i < 200:
            j += 1
        lo, hi = mods[i], mods[j] + 1
        o = x.out((hi - lo) * 300)
        x.call("x_fmt_table", o, lo, hi, ret="v")
        tab = o.read()
        x.free(o)
        for mod in range(lo, hi):
            p = 1
            for k in range(1, 301):
                p *= mod
                b = ((p - 1).bit_length() + 63) // 64
                got = tab[(mod - lo) * 300 + k - 1]
                n += 1
                if got != b:
                    e = Fail("beltFMT block count for (mod=%d, n=%d): library %d, exact rule %d" % (mod, k, got, b))
                    e.case = {"mod": mod, "n": k}
                    raise e
            if mod % 97 == 0:
                ctx.nontrivial("fmt_row", mod)
        i = j + 1
    ctx.count(n)
    if part == 0:
        ctx.sample({"sweep": "FMT block-count table", "mods": len(mods) * nparts, "n": "1..300"})


def replay_override(ctx, test, case):
    x = ctx.x
    mod, k = case["mod"], case["n"]
    o = x.out(300)
    x.call("x_fmt_table", o, mod, mod + 1, ret="v")
    got = o.read()[k - 1]
    b = ((mod ** k - 1).bit_length() + 63) // 64
    if got != b:
        raise Fail("beltFMT block count for (mod=%d, n=%d): library %d, exact rule %d" % (mod, k, got, b))


def tests(tier):
    # The step-wise (Start / Step / Get) editions of the same mechanisms with generated fragmentations: their oracle is the one-shot function
    # (props/c10.py), whose oracle is the model here, so a defect that only shows with a particular fragmentation is a C01 failure as well.
    from props import c10
    chunked = [Test("chunked_" + t.name, t.strategy, t.run, {k: max(200, v // 4) for k, v in t.n.items()}, CFG)
               for t in c10.tests(tier) if t.name in ("cipher", "mac", "aead", "misc")]
    # ... and the placements of input and output buffers that belt.h allows to overlap (props/c11.py: oracle = the disjoint-buffer call)
    from props import c11
    placed = [Test("placed_" + t.name, t.strategy, t.run, {k: max(500, v // 8) for k, v in t.n.items()}, CFG) for t in c11.tests(tier) if t.name == "overlap"]
    return own_tests(tier) + chunked + placed


def own_tests(tier):
    return [
        Test("modes", S_MODES, run_modes, {"quick": 4000, "thorough": 80000}, CFG),
        Test("aead", S_AEAD, run_aead, {"quick": 3000, "thorough": 60000}, CFG),
        Test("wbl_kwp", S_WBL, run_wbl, {"quick": 3000, "thorough": 60000}, CFG),
        Test("wbl_big", S_WBL_BIG, run_wbl_big, {"quick": 48, "thorough": 1200}, CFG),
        Test("prim", S_PRIM, run_prim, {"quick": 1500, "thorough": 30000}, CFG),
        Test("fmt", S_FMT, run_fmt, {"quick": 1500, "thorough": 30000}, CFG),
        Sweep("fmt_table", sweep_fmt_table, 16, CFG),
    ]
