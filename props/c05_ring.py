"""C05 (rings): zm rings with every reduction strategy, gfp, qrPower, gf2 fields - vs Python ints / GF(2)[x]."""
import math
from harness import Test, Fail, st
from gens import int_spec, mod_spec, resolve, resolve_mod
import pyref.gf2x as G
from props.c05 import stack, wbuf, rint, chk, CFG_Q

KINDS = ["Plain", "Crand", "Barr", "Mont", "Auto", "Gfp", "MontPure"]


def make_ring(x, kind, mod, no, l=None):
    """returns ring buffer (exact _keep size) or None if kind does not apply"""
    M = x.buf(mod.to_bytes(no, "little"))
    if kind == "Gfp":
        R = x.out(x.call("gfpCreate_keep", no, ret="z"))
        ok = x.call("gfpCreate", R, M, no, stack(x, "gfpCreate_deep", no))
        return R if ok else None
    if kind == "MontPure":
        R = x.out(x.call("zmMontCreate_keep", no, ret="z"))
        x.call("zmMontCreate", R, M, no, l, stack(x, "zmMontCreate_deep", no), ret="v")
        return R
    fn = {"Plain": "zmCreatePlain", "Crand": "zmCreateCrand", "Barr": "zmCreateBarr", "Mont": "zmCreateMont", "Auto": "zmCreate"}[kind]
    R = x.out(x.call(fn + "_keep", no, ret="z"))
    x.call(fn, R, M, no, stack(x, fn + "_deep", no), ret="v")
    return R


def run_ring(ctx, c):
    x = ctx.x
    W = x.W
    kind = c["kind"]
    no = c["no"]
    n = (no * 8 + W - 1) // W
    top = 1 << (8 * no)
    # modulus of `no` octets with mod[no-1] > 0
    if kind == "Crand":
        if n < 2:
            n = 2
        no = n * (W // 8)   # B^n - c needs whole words
        cc = resolve_mod(c["mod"], W, 1) if c["mod"][0] != "crand" else None
        mod = resolve_mod(["crand", c["c"], c["csz"]], W, n)
    else:
        mod = resolve_mod(c["mod"], W, n) % top
        if mod >> (8 * (no - 1)) == 0:
            mod |= 1 << (8 * (no - 1))
        if kind in ("Mont", "Gfp", "MontPure"):
            mod |= 1
        if mod < 2:
            mod = 3
    if kind == "Gfp" and mod < 3:
        mod = 3
    l = None
    if kind == "MontPure":
        l = W * n     # zm.h demands B^n <= R, zm.c asserts R <= B^n: only R == B^n satisfies both
    R = make_ring(x, kind, mod, no, l)
    if R is None:
        raise Fail("gfpCreate refused odd modulus %x" % mod)
    chk("ring n", x.call("x_qr_n", R, ret="z"), n)
    chk("ring no", x.call("x_qr_no", R, ret="z"), no)
    deep = x.call("x_qr_deep", R, ret="z")
    Mb = x.out(n * x.wo); x.call("x_qr_mod", Mb, R, ret="v"); chk("ring mod", rint(Mb), mod)
    a = resolve(c["a"], W, n, mod) % mod
    b = resolve(c["b"], W, n, mod) % mod
    e = resolve(c["e"], W, c["m"])
    al = c["alias"]
    ctx.cls("kind_" + kind, "alias_" + al)
    ctx.nontrivial("ring", kind, n, al, c["a"][0], c["b"][0])

    def St():
        return x.out(deep)

    def imp(v):
        E = x.out(n * x.wo)
        ok = x.call("x_qrFrom", E, x.buf(v.to_bytes(no, "little")), R, St())
        if not ok:
            raise Fail("qrFrom rejected %x < mod %x (%s)" % (v, mod, kind))
        return E

    def exp(E):
        O = x.out(no)
        x.call("x_qrTo", O, E, R, St(), ret="v")
        return int.from_bytes(O.read(), "little")

    pure = kind == "MontPure"
    Rm = (1 << l) if pure else 1
    Rinv = pow(Rm, -1, mod) if pure else 1

    def ops3(fn, needst):
        A = imp(a)
        Bb = A if al in ("a=b", "all") else imp(b)
        C = A if al in ("c=a", "all") else (Bb if al == "c=b" else x.out(n * x.wo))
        if needst:
            x.call(fn, C, A, Bb, R, St(), ret="v")
        else:
            x.call(fn, C, A, Bb, R, ret="v")
        return exp(C)
    bb = a if al in ("a=b", "all") else b
    chk("from/to", exp(imp(a)), a)
    # out-of-range import must be refused
    if mod + 1 < top:
        for v in (mod, mod + 1, top - 1):
            if v < top and v >= mod:
                ok = x.call("x_qrFrom", x.out(n * x.wo), x.buf(v.to_bytes(no, "little")), R, St())
                chk("qrFrom(>=mod) refused", ok, 0)
    chk("qrAdd", ops3("x_qrAdd", False), (a + bb) % mod)
    chk("qrSub", ops3("x_qrSub", False), (a - bb) % mod)
    chk("qrMul", ops3("x_qrMul", True), a * bb * Rinv % mod)
    A = imp(a); C = A if al != "none" else x.out(n * x.wo)
    x.call("x_qrNeg", C, A, R, ret="v"); chk("qrNeg", exp(C), (-a) % mod)
    A = imp(a); C = A if al != "none" else x.out(n * x.wo)
    x.call("x_qrSqr", C, A, R, St(), ret="v"); chk("qrSqr", exp(C), a * a * Rinv % mod)
    # inversion: zzInvMod/zzDivMod document an odd modulus (zz.h \pre; "arbitrary modulus" is a \todo there)
    if math.gcd(a, mod) == 1 and mod % 2 == 1:
        A = imp(a); C = A if al in ("c=a", "all") else x.out(n * x.wo)
        x.call("x_qrInv", C, A, R, St(), ret="v")
        chk("qrInv", exp(C), pow(a, -1, mod) * Rm * Rm % mod)
        A = imp(a); D = imp(b); C = x.out(n * x.wo)
        x.call("x_qrDiv", C, D, A, R, St(), ret="v")
        chk("qrDiv", exp(C), b * pow(a, -1, mod) * Rm % mod)
    # unity
    U = x.out(n * x.wo); x.call("x_qr_unity", U, R, ret="v")
    chk("unity", exp(U), Rm % mod)
    # power
    A = imp(a); C = x.out(n * x.wo)
    x.call("qrPower", C, A, wbuf(x, e, c["m"]), c["m"], R, x.out(x.call("qrPower_deep", n, c["m"], deep, ret="z")), ret="v")
    if pure:
        # a^e in the Montgomery product: a^e * R^{-(e-1)}
        expv = (pow(a, e, mod) * pow(Rinv, e - 1, mod)) % mod if e else Rm % mod
    else:
        expv = pow(a, e, mod)
    chk("qrPower", exp(C), expv)
    if kind in ("Gfp",):
        A = imp(a); C = A if al != "none" else x.out(n * x.wo)
        x.call("x_gfpDouble", C, A, R, ret="v"); chk("gfpDouble", exp(C), 2 * a % mod)
        A = imp(a); C = A if al != "none" else x.out(n * x.wo)
        x.call("x_gfpHalf", C, A, R, ret="v"); chk("gfpHalf", exp(C), a * pow(2, -1, mod) % mod)
    ctx.sample(c)


S_RING = st.fixed_dictionaries({
    "kind": st.sampled_from(KINDS), "no": st.integers(1, 72), "mod": mod_spec(9), "c": st.integers(1, 2 ** 64 - 1), "csz": st.sampled_from(["small", "any", "max"]),
    "a": int_spec(9), "b": int_spec(9), "e": int_spec(5), "m": st.integers(0, 5), "lx": st.sampled_from([0, 0, 1, 7, 63, 64, 65]),
    "alias": st.sampled_from(["none", "c=a", "c=b", "a=b", "all"])})


# --------------------------------------------------------------- binary fields
TRINOMS = [(5, 2), (7, 1), (9, 1), (17, 3), (31, 3), (63, 1), (65, 18), (97, 6), (127, 1), (129, 5), (191, 9), (193, 15), (233, 74), (257, 12), (409, 87)]
PENTANOMS = [(8, 4, 3, 1), (13, 4, 3, 1), (16, 5, 3, 1), (32, 7, 3, 2), (64, 4, 3, 1), (128, 7, 2, 1), (163, 7, 6, 3), (283, 12, 7, 5), (131, 8, 3, 2), (256, 10, 5, 2), (192, 7, 2, 1)]


def run_gf2(ctx, c):
    x = ctx.x
    W = x.W
    p = c["p"]
    m = p[0]
    if len(p) == 2:
        f = (1 << m) | (1 << p[1]) | 1
        pp = [m, p[1], 0, 0]
    else:
        f = (1 << m) | (1 << p[1]) | (1 << p[2]) | (1 << p[3]) | 1
        pp = list(p)
    szt = 8
    P = x.buf(b"".join(v.to_bytes(szt, "little") for v in pp))
    R = x.out(x.call("gf2Create_keep", m, ret="z"))
    ok = x.call("gf2Create", R, P, stack(x, "gf2Create_deep", m))
    if not ok:
        ctx.cls("create_refused")
        return
    n = x.call("x_qr_n", R, ret="z")
    no = x.call("x_qr_no", R, ret="z")
    deep = x.call("x_qr_deep", R, ret="z")
    chk("gf2 n", n, (m + 1 + W - 1) // W if True else 0) if False else None
    chk("gf2Deg", x.call("gf2Deg", R, ret="z"), m)
    a = resolve(c["a"], W, n) % (1 << m)
    b = resolve(c["b"], W, n) % (1 << m)
    al = c["alias"]
    ctx.cls("m%d" % m, "alias_" + al)
    ctx.nontrivial("gf2", m, al, c["a"][0], c["b"][0])
    St = lambda: x.out(deep)

    def imp(v):
        E = x.out(n * x.wo)
        ok = x.call("x_qrFrom", E, x.buf(v.to_bytes(no, "little")), R, St())
        if not ok:
            raise Fail("gf2 qrFrom rejected %x (m=%d)" % (v, m))
        return E

    def exp(E):
        O = x.out(no)
        x.call("x_qrTo", O, E, R, St(), ret="v")
        return int.from_bytes(O.read(), "little")

    def ops3(fn, needst):
        A = imp(a)
        Bb = A if al in ("a=b", "all") else imp(b)
        C = A if al in ("c=a", "all") else (Bb if al == "c=b" else x.out(n * x.wo))
        if needst:
            x.call(fn, C, A, Bb, R, St(), ret="v")
        else:
            x.call(fn, C, A, Bb, R, ret="v")
        return exp(C)
    bb = a if al in ("a=b", "all") else b
    chk("gf2 add", ops3("x_qrAdd", False), a ^ bb)
    chk("gf2 sub", ops3("x_qrSub", False), a ^ bb)
    chk("gf2 mul", ops3("x_qrMul", True), G.mulmod(a, bb, f))
    A = imp(a); C = A if al != "none" else x.out(n * x.wo)
    x.call("x_qrSqr", C, A, R, St(), ret="v"); chk("gf2 sqr", exp(C), G.mulmod(a, a, f))
    irr = G.is_irred(f)
    if a and (irr or G.gcd(a, f) == 1):
        A = imp(a); C = x.out(n * x.wo)
        x.call("x_qrInv", C, A, R, St(), ret="v"); chk("gf2 inv", exp(C), G.invmod(a, f))
        C = x.out(n * x.wo)
        x.call("x_qrDiv", C, imp(b), A, R, St(), ret="v"); chk("gf2 div", exp(C), G.mulmod(b, G.invmod(a, f), f))
    # element with degree >= m must be refused on import when it fits the octet buffer
    if 8 * no > m:
        ok = x.call("x_qrFrom", x.out(n * x.wo), x.buf((1 << m).to_bytes(no, "little")), R, St())
        chk("gf2 from(deg>=m) refused", ok, 0)
    chk("gf2IsValid", x.call("gf2IsValid", R, stack(x, "gf2IsValid_deep", n)), int(irr))
    if irr:
        # trace and quadratic solver (m odd for QSolve)
        tr = 0
        t = a
        for _ in range(m):
            tr ^= t
            t = G.mulmod(t, t, f)
        assert tr in (0, 1)
        chk("gf2Tr", x.call("gf2Tr", imp(a), R, x.out(x.call("gf2Tr_deep", n, deep, ret="z"))), tr)
        if m % 2 == 1:
            X = x.out(n * x.wo)
            ok = x.call("gf2QSolve", X, imp(a), imp(b), R, x.out(x.call("gf2QSolve_deep", n, deep, ret="z")))
            # solvable iff a == 0 (always: sqrt) or tr(b/a^2) == 0
            if a == 0:
                solv = True
            else:
                ia = G.invmod(a, f)
                u = G.mulmod(b, G.mulmod(ia, ia, f), f)
                tr = 0
                t = u
                for _ in range(m):
                    tr ^= t
                    t = G.mulmod(t, t, f)
                solv = tr == 0
            chk("gf2QSolve ok", ok, int(solv))
            if solv:
                xs = exp(X)
                if G.mulmod(xs, xs, f) ^ G.mulmod(a, xs, f) ^ b != 0:
                    raise Fail("gf2QSolve: x=%x does not solve x^2+ax+b (a=%x b=%x m=%d)" % (xs, a, b, m))
            ctx.nontrivial("qsolve", m, solv)
    ctx.sample(c)


S_GF2 = st.fixed_dictionaries({"p": st.one_of(st.sampled_from(TRINOMS), st.sampled_from(PENTANOMS)).map(list), "a": int_spec(7), "b": int_spec(7),
                               "alias": st.sampled_from(["none", "c=a", "c=b", "a=b", "all"])})


def tests(tier):
    return [
        Test("ring", S_RING, run_ring, {"quick": 3000, "thorough": 60000}, CFG_Q),
        Test("gf2", S_GF2, run_gf2, {"quick": 1500, "thorough": 30000}, CFG_Q),
    ]
