"""C06: EC group law and scalar multiplication are exact in every special case.
Oracle: affine chord-and-tangent arithmetic over Python ints (pyref/ec.py)."""
import os
from harness import Test, Sweep, Fail, st
from gens import int_spec, resolve, expand
import pyref.ec as EC
import pyref.gf2x as G

RULE = ("exhaustive part: complete small curves over GF(p) (p <= 31 quick, <= 251 thorough; A = -3, A = +3, A = 0 and generic A; orders prime, even, multiples of 3); binary curves cannot be small in this library (gf2Create needs m - k >= B_PER_W), so on GF(2^m), m = 65..163, "
        "a structured point subset (random points, their negatives and doubles, the order-2 point) takes the place of the complete curve: "
        "all ordered pairs (P,Q) in (E u {O})^2 through add/adda/sub/suba/AddAA/SubAA and all points through dbl/dbla/tpl/neg/NegA, with projective inputs rescaled (Z != 1) and the aliasing patterns c=a, c=b, a=b; "
        "generated part: scalars 0,1,2,q-1,q,q+1,2q,B^m-1 and random of 1..n+1 words on small curves and on the standard bign/bign96/GOST/DSTU curves for ecMulA, ecAddMulA, ecHasOrderA; ecpIsOnA on all (x,y) of the small fields; ecpSWU on all field elements. "
        "non-trivial: P == Q, P == -Q, an O operand, an order-2 point, an aliasing pattern, a scalar >= q or longer than n words; distinct by (curve, op, class)")
LEVEL = "exploration"
ASSUMPTIONS = ["pyref/ec.py affine arithmetic is correct (self-tested: group axioms on small curves)", "the fully aliased call a == b == c is excluded as ec.h leaves it ambiguous"]
EXHAUSTIVE_NOTE = ["all ordered pairs of points of the listed small curves, every binary/unary group operation, 4 aliasing patterns, 2 projective scalings"]
BUDGET = {"quick": 240, "thorough": 3000}
CFG = tuple(os.environ.get("VERIF_CFG", "asan").split(","))

SMALL_P_Q = [5, 7, 11, 13, 17, 19, 23, 31]
SMALL_P_T = SMALL_P_Q + [37, 61, 127, 251]


def small_curves(tier):
    out = []
    for p in (SMALL_P_T if tier == "thorough" else SMALL_P_Q):
        # A = -3 (fast doubling), A = +3 (must NOT take the fast path), A = 0, generic A; then more of each
        cands = [(p - 3, 1), (3, 1), (0, 1), (1, 1), (p - 3, 2), (3, 2), (2, 3), (1, 0), (p - 1, 0), (0, 2), (3, p - 2)]
        seen = 0
        for a, b in cands:
            a %= p; b %= p
            if (4 * a ** 3 + 27 * b * b) % p == 0:
                continue
            out.append((p, a, b))
            seen += 1
            if seen >= (7 if tier == "thorough" else 4):
                break
    return out


def stack(x, fn, *args):
    return x.out(x.call(fn, *args, ret="z"))


def mk_curve_p(x, p, a, b, no=None, base=None, order=None, cof=1):
    """returns (ec buffer, f buffer, no, n)"""
    no = no or max(1, (p.bit_length() + 7) // 8)
    F = x.out(x.call("gfpCreate_keep", no, ret="z"))
    if not x.call("gfpCreate", F, x.buf(p.to_bytes(no, "little")), no, stack(x, "gfpCreate_deep", no)):
        raise Fail("gfpCreate(%d) failed" % p)
    n = x.call("x_qr_n", F, ret="z")
    fdeep = x.call("x_qr_deep", F, ret="z")
    E = x.out(x.call("ecpCreateJ_keep", n, ret="z"))
    if not x.call("ecpCreateJ", E, F, x.buf(a.to_bytes(no, "little")), x.buf(b.to_bytes(no, "little")), stack(x, "ecpCreateJ_deep", n, fdeep)):
        raise Fail("ecpCreateJ failed for p=%d a=%d b=%d" % (p, a, b))
    if base is not None:
        ob = order.to_bytes((order.bit_length() + 7) // 8 or 1, "little")
        ok = x.call("ecCreateGroup", E, x.buf(base[0].to_bytes(no, "little")), x.buf(base[1].to_bytes(no, "little")), x.buf(ob), len(ob), cof, stack(x, "ecCreateGroup_deep", fdeep))
        if not ok:
            raise Fail("ecCreateGroup failed")
    return E, F, no, n


def enc_pts(pts, no):
    return b"".join(P[0].to_bytes(no, "little") + P[1].to_bytes(no, "little") for P in pts)


def dec_rec(rec, no):
    if rec[0] == 0:
        return None
    return (int.from_bytes(rec[1:1 + no], "little"), int.from_bytes(rec[1 + no:1 + 2 * no], "little"))


BIN_OPS = {0: "add", 1: "adda", 2: "sub", 3: "suba", 4: "AddAA", 5: "SubAA"}
UN_OPS = {10: "dbl", 11: "dbla", 12: "tpl", 13: "neg", 14: "NegA"}


def sweep_one_curve(ctx, x, E, C, pts, no, kind, label, lam_vals):
    """all pairs / all points through every op, aliasing and projective scaling"""
    npts = len(pts)
    P = x.buf(enc_pts(pts, no))
    rec = 1 + 2 * no
    total = 0
    allp = pts + [None]
    has_tpl = x.call("x_ec_has_tpl", E)
    for lam in lam_vals:
        L = x.buf(lam.to_bytes(no, "little")) if lam else None
        for op in list(BIN_OPS) + list(UN_OPS):
            unary = op >= 10
            for alias in ((0, 1) if unary else (0, 1, 2, 3)):
                if op == 12 and not has_tpl:
                    continue        # tripling is optional in ec_o
                if op in (4, 5, 14) and lam:
                    continue        # affine-only ops do not depend on the scaling
                if op in (4, 5, 14) and alias in (1, 2):
                    continue        # ecp.h / ec2.h state no output aliasing for the affine functions
                if op in (1, 3) and alias == 3 and lam:
                    continue        # a projective point with Z != 1 cannot double as its own affine form
                lim_i = npts + 1 if op in (0, 1, 2, 3, 10, 12, 13) else npts
                lim_j = 1 if unary else (npts + 1 if op in (0, 2) else npts)
                o = x.out(lim_i * lim_j * rec)
                cnt = x.call("x_ec_sweep", o, E, P, npts, op, alias, L, kind, ret="z")
                data = o.read(0, cnt * rec)
                x.free(o)
                k = 0
                for i in range(lim_i):
                    for j in range(lim_j):
                        if alias == 3 and (unary or i != j):
                            continue
                        A = allp[i]
                        got = dec_rec(data[k * rec:(k + 1) * rec], no)
                        k += 1
                        if unary:
                            exp = {10: C.dbl(A), 11: C.dbl(A), 12: C.add(C.dbl(A), A), 13: C.neg(A), 14: C.neg(A)}[op]
                        else:
                            B = allp[j]
                            exp = C.add(A, B) if op in (0, 1, 4) else C.sub(A, B)
                        if got != exp:
                            e = Fail("%s: %s(%s%s) alias=%d scale=%s -> library %s, group law %s" % (label, (UN_OPS if unary else BIN_OPS)[op], A, "" if unary else ", %s" % (allp[j],), alias, lam, got, exp))
                            raise e
                total += k
                if k != cnt:
                    raise Fail("sweep count mismatch %d != %d" % (k, cnt))
    return total


def sweep_small_p(ctx, part, nparts):
    x = ctx.x
    curves = small_curves(ctx.tier)
    n = 0
    for idx, (p, a, b) in enumerate(curves):
        if idx % nparts != part:
            continue
        x.reset()
        C = EC.CurveP(p, a, b)
        pts = C.points()
        E, F, no, nw = mk_curve_p(x, p, a, b)
        label = "y^2=x^3+%dx+%d/GF(%d)" % (a, b, p)
        try:
            n += sweep_one_curve(ctx, x, E, C, pts, no, 0, label, [0, 2 % p or 1, (p - 2)])
        except Fail as e:
            e.case = {"p": p, "a": a, "b": b}
            raise
        order = len(pts) + 1
        has2 = any(P[1] == 0 for P in pts)
        ctx.nontrivial("smallp", p, a, b)
        ctx.cls("order_even" if has2 else "order_odd", "A3" if a == p - 3 else "Agen")
        # on-curve test on all (x, y)
        St = stack(x, "ecpIsOnA_deep", nw, x.call("x_qr_deep", F, ret="z"))
        on = set(pts)
        if p <= 61:
            for xx in range(p):
                for yy in range(p):
                    A = x.out(2 * nw * x.wo)
                    ok1 = x.call("x_qrFrom", A, x.buf(xx.to_bytes(no, "little")), F, St) and x.call("x_qrFrom", A.at(nw * x.wo), x.buf(yy.to_bytes(no, "little")), F, St)
                    if not ok1:
                        raise Fail("qrFrom rejected a field element")
                    r = x.call("ecpIsOnA", A, E, St)
                    n += 1
                    if bool(r) != ((xx, yy) in on):
                        e = Fail("%s: ecpIsOnA(%d,%d) = %d, equation says %s" % (label, xx, yy, r, (xx, yy) in on)); e.case = {"p": p, "a": a, "b": b}
                        raise e
                    if (xx, yy) in on:
                        # the same residues with a coordinate word >= p are not field elements: not a point of the curve
                        raw = A.read()
                        for half in (0, 1):
                            w = int.from_bytes(raw[half * nw * x.wo:(half + 1) * nw * x.wo], "little") + p
                            if w < 1 << (x.W * nw):
                                A2 = x.buf(raw[:half * nw * x.wo] + w.to_bytes(nw * x.wo, "little") + raw[(half + 1) * nw * x.wo:])
                                n += 1
                                if x.call("ecpIsOnA", A2, E, St):
                                    e = Fail("%s: ecpIsOnA accepts the point (%d,%d) with the %s coordinate increased by p (not below p)" % (label, xx, yy, "xy"[half])); e.case = {"p": p, "a": a, "b": b}
                                    raise e
                                x.free(A2)
                    x.free(A)
        # scalar multiplication: all points x scalars 0..order+2 and a few long ones
        deep = x.call("x_ec_deep", E, ret="z"); d = x.call("x_ec_d", E, ret="z")
        for P0 in pts[:: max(1, len(pts) // 6)]:
            Pb = x.out(2 * nw * x.wo)
            x.call("x_qrFrom", Pb, x.buf(P0[0].to_bytes(no, "little")), F, St); x.call("x_qrFrom", Pb.at(nw * x.wo), x.buf(P0[1].to_bytes(no, "little")), F, St)
            for k in list(range(0, order + 3)) + [2 * order, 2 * order + 1, (1 << 64) - 1, (1 << 64), (1 << 130) + 5, order * 12345 + 7]:
                m = max(1, (k.bit_length() + x.W - 1) // x.W)
                if k % 3 == 0:
                    m += 1      # leading zero word
                R = x.out(2 * nw * x.wo)
                ok = x.call("ecMulA", R, Pb, E, x.words(k, m), m, stack(x, "ecMulA_deep", nw, d, deep, m))
                exp = C.mul(k, P0)
                if ok:
                    o1 = x.out(no); o2 = x.out(no)
                    x.call("x_qrTo", o1, R, F, St, ret="v"); x.call("x_qrTo", o2, R.at(nw * x.wo), F, St, ret="v")
                    got = (int.from_bytes(o1.read(), "little"), int.from_bytes(o2.read(), "little"))
                    x.free(o1); x.free(o2)
                else:
                    got = None
                x.free(R)
                n += 1
                if got != exp:
                    e = Fail("%s: ecMulA(%d, %s) = %s, iterated sum %s" % (label, k, P0, got, exp)); e.case = {"p": p, "a": a, "b": b}
                    raise e
            x.free(Pb)
    ctx.count(n)
    if part == 0:
        ctx.sample({"sweep": "small prime curves", "curves": curves[:4]})


# binary curves y^2 + xy = x^3 + a x^2 + b over GF(2^m).  gf2Create admits only m - k >= B_PER_W, so complete small
# curves cannot be built with this library; instead a structured subset of points (random points, their negatives and
# doubles, the order-2 point (0, sqrt b)) is run through the same all-pairs sweep.
BIN_CURVES = [(65, (65, 18, 0, 0), 1, 1), (97, (97, 6, 0, 0), 0, 0x1234567), (127, (127, 1, 0, 0), 1, 0xABCDEF0123), (131, (131, 8, 3, 2), 1, 5), (163, (163, 7, 6, 3), 1, 0x20A601907B8C953CA1481EB10512F78744A3205FD),
              # coefficient A neither 0 nor 1 (the general-A variants of the projective formulas)
              (97, (97, 6, 0, 0), 0xABCDEF12345, 0x1234567), (131, (131, 8, 3, 2), 0x5A5A5A5A5A5A5A5A5A5A5, 0x77)]


def mk_curve_2(x, m, pp, a, b):
    P = x.buf(b"".join(v.to_bytes(8, "little") for v in pp))
    F = x.out(x.call("gf2Create_keep", m, ret="z"))
    if not x.call("gf2Create", F, P, stack(x, "gf2Create_deep", m)):
        return None
    n = x.call("x_qr_n", F, ret="z"); no = x.call("x_qr_no", F, ret="z"); fdeep = x.call("x_qr_deep", F, ret="z")
    E = x.out(x.call("ec2CreateLD_keep", n, ret="z"))
    if not x.call("ec2CreateLD", E, F, x.buf(a.to_bytes(no, "little")), x.buf(b.to_bytes(no, "little")), stack(x, "ec2CreateLD_deep", n, fdeep)):
        raise Fail("ec2CreateLD failed")
    return E, F, no, n


def bin_points(C, m, poly, seed, want):
    """deterministic sample of curve points: solve z^2 + z = x + a + b/x^2 by the half-trace (m odd)"""
    pts = []
    i = 0
    sq = lambda u: G.mulmod(u, u, poly)
    while len(pts) < want and i < 400:
        xx = int.from_bytes(expand("%s%d" % (seed, i), (m + 7) // 8), "little") % (1 << m)
        i += 1
        if xx == 0:
            continue
        ix = G.invmod(xx, poly)
        cc = xx ^ C.a ^ G.mulmod(C.b, sq(ix), poly)
        # trace
        t, tr = cc, 0
        for _ in range(m):
            tr ^= t
            t = sq(t)
        if tr != 0:
            continue
        z, t = 0, cc
        for k in range((m - 1) // 2 + 1):
            z ^= t
            t = sq(sq(t))
        yy = G.mulmod(z, xx, poly)
        if C.is_on((xx, yy)):
            pts.append((xx, yy))
    out = []
    for P in pts:
        for Q in (P, C.neg(P), C.dbl(P)):
            if Q is not None and Q not in out:
                out.append(Q)
    # the point of order two: (0, sqrt(b))
    r = C.b
    for _ in range(m - 1):
        r = sq(r)
    if C.is_on((0, r)) and (0, r) not in out:
        out.append((0, r))
    return out


def sweep_small_2(ctx, part, nparts):
    x = ctx.x
    n = 0
    for idx, (m, pp, a, b) in enumerate(BIN_CURVES):
        if idx % nparts != part:
            continue
        x.reset()
        poly = (1 << pp[0]) | (1 << pp[1]) | ((1 << pp[2]) if pp[2] else 0) | ((1 << pp[3]) if pp[3] else 0) | 1
        r = mk_curve_2(x, m, pp, a, b % (1 << m))
        if r is None:
            continue       # the word size of this build does not admit the polynomial (m - k < B_PER_W)
        E, F, no, nw = r
        C = EC.Curve2(m, poly, a, b % (1 << m))
        pts = bin_points(C, m, poly, "pt%d" % m, 3 if ctx.tier == "quick" else 6)
        label = "y^2+xy=x^3+%dx^2+b/GF(2^%d)" % (a, m)
        try:
            n += sweep_one_curve(ctx, x, E, C, pts, no, 1, label, [0, 2, 0x1F3])
        except Fail as e:
            e.case = {"m": m, "pp": list(pp), "a": a, "b": b % (1 << m)}
            raise
        ctx.nontrivial("bin", m, a, len(pts))
        # on-curve test and scalar multiples
        fdeep = x.call("x_qr_deep", F, ret="z")
        St = x.out(max(fdeep, x.call("ec2IsOnA_deep", nw, fdeep, ret="z")))
        deep = x.call("x_ec_deep", E, ret="z"); d = x.call("x_ec_d", E, ret="z")
        for P0 in pts:
            Pb = wr_point(x, P0, F, no, nw, St)
            if x.call("ec2IsOnA", Pb, E, St) != 1:
                raise Fail("%s: ec2IsOnA rejects %s" % (label, P0))
            Bb = wr_point(x, (P0[0], P0[1] ^ 1), F, no, nw, St)
            if x.call("ec2IsOnA", Bb, E, St) != 0:
                raise Fail("%s: ec2IsOnA accepts (x, y+1)" % label)
            for k in (0, 1, 2, 3, 5, 8, 1000003, (1 << 64) - 1, (1 << 130) + 77):
                mm = max(1, (k.bit_length() + x.W - 1) // x.W)
                R = x.out(2 * nw * x.wo)
                ok = x.call("ecMulA", R, Pb, E, x.words(k, mm), mm, stack(x, "ecMulA_deep", nw, d, deep, mm))
                exp = C.mul(k, P0)
                got = rd_point(x, R, F, no, nw, St) if ok else None
                n += 1
                if got != exp:
                    e = Fail("%s: ecMulA(%d, %s) = %s, iterated sum %s" % (label, k, P0, got, exp)); e.case = {"m": m, "pp": list(pp), "a": a, "b": b % (1 << m)}
                    raise e
    ctx.count(n)
    if part == 0:
        ctx.sample({"sweep": "binary curves (structured point subsets)", "curves": [c[:3] for c in BIN_CURVES]})


# ---------------------------------------------------------------- standard curves: scalar multiplication
NIST = {
    "p256": (2 ** 256 - 2 ** 224 + 2 ** 192 + 2 ** 96 - 1, 0x5ac635d8aa3a93e7b3ebbd55769886bc651d06b0cc53b0f63bce3c3e27d2604b,
             (0x6b17d1f2e12c4247f8bce6e563a440f277037d812deb33a0f4a13945d898c296, 0x4fe342e2fe1a7f9b8ee7eb4a7c0f9e162bce33576b315ececbb6406837bf51f5),
             0xffffffff00000000ffffffffffffffffbce6faada7179e84f3b9cac2fc632551),
    "p384": (2 ** 384 - 2 ** 128 - 2 ** 96 + 2 ** 32 - 1, 0xb3312fa7e23ee7e4988e056be3f82d19181d9c6efe8141120314088f5013875ac656398d8a2ed19d2a85c8edd3ec2aef,
             (0xaa87ca22be8b05378eb1c71ef320ad746e1d3b628ba79b9859f741e082542a385502f25dbf55296c3a545e3872760ab7, 0x3617de4a96262c6f5d9e98bf9292dc29f8f41dbd289a147ce9da3113b5f0b8c00a60b1ce1d7e819d7a431d7c90ea0e5f),
             0xffffffffffffffffffffffffffffffffffffffffffffffffc7634d81f4372ddf581a0db248b0a77aecec196accc52973)}
_NIST_OK = {}


def std_curve(x, name):
    """(E, F, no, n, model, base, order)"""
    import pyref.bign as RB
    if name in NIST or name.endswith("sq"):
        # primes that are not of the form 2^k - c: gfpCreate keeps their elements in Montgomery form
        p, b, base, q = NIST[name[:4]]
        a = p - 3
        if name.endswith("sq"):
            b, base, q = 9, None, None        # B a square (ecpSWU expects a quadratic residue); the group order is not needed there
        C = EC.CurveP(p, a, b)
        if name not in _NIST_OK:
            if base is not None and (not C.is_on(base) or C.mul(q, base) is not None):
                raise RuntimeError("constants of %s are wrong" % name)
            _NIST_OK[name] = True
        no = (p.bit_length() + 7) // 8
        E, F, no, n = mk_curve_p(x, p, a, b, no, base, q, 1) if base is not None else mk_curve_p(x, p, a, b, no)
        return E, F, no, n, C, base, q
    if name.startswith("bign"):
        l = int(name[4:])
        prm = RB.PARAMS96 if l == 96 else RB.PARAMS[l]
        p, a, b, q = prm["p"], prm["a"], prm["b"], prm["q"]
        base = (0, prm["yG"])
        no = (p.bit_length() + 7) // 8
        E, F, no, n = mk_curve_p(x, p, a, b, no, base, q, 1)
        return E, F, no, n, EC.CurveP(p, a, b), base, q
    raise KeyError(name)


def rd_point(x, R, F, no, nw, St):  # noqa
    o1 = x.out(no); o2 = x.out(no)
    x.call("x_qrTo", o1, R, F, St, ret="v"); x.call("x_qrTo", o2, R.at(nw * x.wo), F, St, ret="v")
    return (int.from_bytes(o1.read(), "little"), int.from_bytes(o2.read(), "little"))


def wr_point(x, P0, F, no, nw, St):
    Pb = x.out(2 * nw * x.wo)
    if not (x.call("x_qrFrom", Pb, x.buf(P0[0].to_bytes(no, "little")), F, St) and x.call("x_qrFrom", Pb.at(nw * x.wo), x.buf(P0[1].to_bytes(no, "little")), F, St)):
        raise Fail("qrFrom rejected point coordinate")
    return Pb


def run_mul(ctx, c):
    x = ctx.x
    E, F, no, nw, C, base, q = std_curve(x, c["curve"])
    deep = x.call("x_ec_deep", E, ret="z"); d = x.call("x_ec_d", E, ret="z")
    St = x.out(deep)
    m = c["m"] if c["m"] else nw
    ks = c["k"]
    top = 1 << (x.W * m)
    kv = {"z": 0, "one": 1, "two": 2, "qm1": q - 1, "q": q, "qp1": q + 1, "2q": 2 * q, "max": top - 1}.get(ks[0])
    if kv is None:
        kv = resolve(ks, x.W, m)
    kv %= top
    # base point multiple as the operand
    t = int.from_bytes(expand(c["seed"], 8), "little") % 1000 + 1
    P0 = C.mul(t, base) if c["pt"] == "mult" else (C.neg(base) if c["pt"] == "neg" else base)
    Pb = wr_point(x, P0, F, no, nw, St)
    R = x.out(2 * nw * x.wo)
    ok = x.call("ecMulA", R, Pb, E, x.words(kv, m), m, stack(x, "ecMulA_deep", nw, d, deep, m))
    exp = C.mul(kv, P0)
    got = rd_point(x, R, F, no, nw, St) if ok else None
    if got != exp:
        raise Fail("%s: ecMulA(k=%x [%d words], P) = %s, model %s" % (c["curve"], kv, m, got, exp))
    # order test
    r = x.call("ecHasOrderA", Pb, E, x.words(q, nw + 1), nw + 1, stack(x, "ecHasOrderA_deep", nw, d, deep, nw + 1))
    if r != 1:
        raise Fail("%s: ecHasOrderA(P, q) = %d for a point of the prime-order group" % (c["curve"], r))
    # multi-scalar: k1*P + k2*G (+ k3*(-G))
    k2 = resolve(c["k2"], x.W, nw) if c["k2"][0] not in ("modm", "kmod", "rkmod") else (q - 1)
    k3 = (q - kv) % q if c["cancel"] else 1
    Gb = wr_point(x, base, F, no, nw, St)
    Nb = wr_point(x, C.neg(base), F, no, nw, St)
    kk = 2 + c["cancel"]
    args = [R, E, None, kk, Pb, x.words(kv, m), m, Gb, x.words(k2, nw), nw]
    if kk == 3:
        # choose third term so that the total may cancel to O
        k3 = (kv * t + k2) % q if c["pt"] == "mult" else k3
        args += [Nb, x.words(k3, nw), nw]
    dp = x.call("ecAddMulA_deep", nw, d, deep, kk, m, nw, nw, ret="z")
    args[2] = x.out(dp)
    ok = x.call("ecAddMulA", *args)
    exp = C.add(C.mul(kv, P0), C.mul(k2, base))
    if kk == 3:
        exp = C.add(exp, C.mul(k3, C.neg(base)))
    got = rd_point(x, R, F, no, nw, St) if ok else None
    if got != exp:
        raise Fail("%s: ecAddMulA(k=%d terms) = %s, model %s (k1=%x k2=%x)" % (c["curve"], kk, got, exp, kv, k2))
    ctx.cls(c["curve"], "k_" + ks[0], "m%+d" % (m - nw))
    if kv >= q or m > nw or ks[0] in ("z", "one", "qm1", "q", "qp1", "2q", "max") or exp is None:
        ctx.nontrivial("mul", c["curve"], ks[0], m - nw, exp is None)
    ctx.sample(c)


S_MUL = st.fixed_dictionaries({
    "curve": st.sampled_from(["bign128", "bign192", "bign256", "bign96", "p256", "p384"]), "seed": st.binary(min_size=1, max_size=4).map(bytes.hex),
    "k": st.one_of(st.sampled_from([["z"], ["one"], ["two"], ["qm1"], ["q"], ["qp1"], ["2q"], ["max"]]), int_spec(9)),
    "m": st.sampled_from([0, 0, 1, 2, 3, 5, 9]), "k2": int_spec(8), "pt": st.sampled_from(["base", "mult", "neg"]), "cancel": st.sampled_from([0, 0, 1])})


def run_swu(ctx, c):
    """ecpSWU on the bign curves: the image is a point of the curve (B is a residue there) - and on small p = 3 mod 4 curves all inputs"""
    x = ctx.x
    E, F, no, nw, C, base, q = std_curve(x, c["curve"])
    p = C.p
    fdeep = x.call("x_qr_deep", F, ret="z")
    St = stack(x, "ecpSWU_deep", nw, fdeep)
    v = {"z": 0, "one": 1, "pm1": p - 1}.get(c["a"][0])
    if v is None:
        v = resolve(c["a"], x.W, nw) % p
    A = x.out(nw * x.wo)
    x.call("x_qrFrom", A, x.buf(v.to_bytes(no, "little")), F, St)
    R = x.out(2 * nw * x.wo)
    x.call("ecpSWU", R, A, E, St, ret="v")
    got = rd_point(x, R, F, no, nw, x.out(fdeep))
    if not C.is_on(got):
        raise Fail("%s: ecpSWU(%x) = %s is not on the curve" % (c["curve"], v, got))
    if x.call("ecpIsOnA", R, E, stack(x, "ecpIsOnA_deep", nw, fdeep)) != 1:
        raise Fail("ecpIsOnA rejects the SWU image")
    # off-curve neighbour must be refused
    bad = (got[0], (got[1] + 1) % p)
    Bb = wr_point(x, bad, F, no, nw, x.out(fdeep))
    if x.call("ecpIsOnA", Bb, E, stack(x, "ecpIsOnA_deep", nw, fdeep)) != 0:
        raise Fail("ecpIsOnA accepts (x, y+1)")
    ctx.nontrivial("swu", c["curve"], c["a"][0])
    ctx.sample(c)


S_SWU = st.fixed_dictionaries({"curve": st.sampled_from(["bign128", "bign192", "bign256", "p256sq", "p384sq"]),
                               "a": st.one_of(st.sampled_from([["z"], ["one"], ["pm1"]]), int_spec(8))})


def replay_override(ctx, test, case):
    x = ctx.x
    if "p" in case:
        p, a, b = case["p"], case["a"], case["b"]
        C = EC.CurveP(p, a, b)
        E, F, no, nw = mk_curve_p(x, p, a, b)
        sweep_one_curve(ctx, x, E, C, C.points(), no, 0, "replay", [0, 2 % p or 1, p - 2])
    else:
        m, pp, a, b = case["m"], case["pp"], case["a"], case["b"]
        poly = (1 << pp[0]) | (1 << pp[1]) | ((1 << pp[2]) if pp[2] else 0) | ((1 << pp[3]) if pp[3] else 0) | 1
        E, F, no, nw = mk_curve_2(x, m, pp, a, b)
        C = EC.Curve2(m, poly, a, b)
        sweep_one_curve(ctx, x, E, C, bin_points(C, m, poly, "pt%d" % m, 6), no, 1, "replay", [0, 2, 0x1F3])


def tests(tier):
    return [
        Sweep("small_p", sweep_small_p, 16, CFG),
        Sweep("bin_curves", sweep_small_2, 7, CFG + (("w32",) if "asan" in CFG else ())),
        Test("mul", S_MUL, run_mul, {"quick": 400, "thorough": 8000}, CFG),
        Test("swu", S_SWU, run_swu, {"quick": 300, "thorough": 6000}, CFG),
    ]
