"""C07: no call reads or writes outside its buffers or its declared state/stack size; no uninitialised or freed memory influences
a result; none of the library's debug self-checks fires.
This is a mode of all other checks (every executor buffer, state, stack and - through the BEE2_VERIF hook - blob has exactly the
documented size, under ASan with asserts on).  C07's own run repeats the size-sweeping generators of the other properties on the
MemorySanitizer build (uninitialised reads), on the 32-bit word ASan build and on the 64-bit ASan build."""
import os
from harness import Test, Sweep

RULE = ("generators of C01, C02, C03, C04, C05, C06, C10, C11, C13, C16, C17 (operand lengths 0..20 words, message lengths around every block boundary, all levels/alphabets/counts/thresholds in the documented domains) "
        "executed with exact-size heap buffers, exact _keep()/_deep() states and stacks, exact-size blobs (BLOB_PAGE_SIZE 1 under BEE2_VERIF) on msan (clang MemorySanitizer), w32 (32-bit words, ASan) and asan (64-bit, ASan + bounds, asserts on); "
        "plus the DER entry points on every octet string of length <= 3 and every fuzz target of C08 on its structure-aware inputs, each in an exact-size block; oracle: no sanitizer report, no 'Assertion in', no signal, in addition to each generator's own semantic oracle; non-trivial by the rule of the home property")
LEVEL = "exploration"
ASSUMPTIONS = ["red zones of ASan and definedness tracking of MSan are the oracle; an out-of-bounds access that lands inside another live allocation is not seen",
               "full UBSan is not used: it fires on the unchanged tree for constructs no listed property covers (unaligned word* casts, u16 promotion overflow, NULL + 0)"]
BUDGET = {"quick": 420, "thorough": 3000}
SAN = ("msan", "w32")


def sweep_decoders(ctx, part, nparts):
    """the decoders of C08 on exact-size input / output blocks: all octet strings of length <= 3 through the DER entry points and the
    structure-aware seeds and mutants of props/c08.py through every fuzz target once (no campaign); only sanitizer reports count here,
    the semantic oracles of the targets belong to C08"""
    import subprocess, random, tempfile, shutil, sys
    from harness import Fail
    sys.path.insert(0, os.path.join(os.path.dirname(os.path.dirname(os.path.abspath(__file__))), "fuzz"))
    import build_fuzz
    from props import c08
    d = build_fuzz.build_targets()
    env = dict(os.environ, ASAN_OPTIONS="detect_leaks=0:abort_on_error=0:exitcode=77:allocator_may_return_null=1:malloc_limit_mb=512")

    def judge(what, p):
        out = p.stdout + p.stderr
        if p.returncode != 0 and "AddressSanitizer" in out:
            line = [l for l in out.splitlines() if "SUMMARY" in l or "ERROR: AddressSanitizer" in l]
            inp = [l for l in out.splitlines() if "input[" in l]
            raise Fail("%s: %s %s" % (what, line[0] if line else out[-300:], inp[0] if inp else ""))
    p = subprocess.run([os.path.join(d, "fz_der_exhaust"), str(part * 256 // nparts), str((part + 1) * 256 // nparts)], capture_output=True, text=True, errors="replace", env=env, timeout=1500)
    judge("DER decoders on all inputs of length <= 3 (first octet %d..%d)" % (part * 256 // nparts, (part + 1) * 256 // nparts - 1), p)
    for l in p.stdout.splitlines():
        if l.startswith("exhaustive"):
            ctx.count(int(l.split()[1]))
    names = sorted(c08.TARGETS)
    mine = [n for i, n in enumerate(names) if i % nparts == part]
    if mine:
        x = ctx.x
        x.reset()
        S, M = c08.seeds_and_mutants(x, random.Random(12345), 300 if ctx.tier == "quick" else 3000)
        x.reset()
        for name in mine:
            work = tempfile.mkdtemp(prefix="c07dec_", dir=os.path.join(os.path.dirname(d), ""))
            try:
                for i, b in enumerate(S[name] + M[name]):
                    open(os.path.join(work, "%04d" % i), "wb").write(b)
                p = subprocess.run([os.path.join(d, "fz_" + name), work, "-runs=0", "-max_len=%d" % c08.TARGETS[name][2], "-rss_limit_mb=2048", "-timeout=25"],
                                   capture_output=True, text=True, errors="replace", env=env, timeout=1500, cwd=work)
                judge("decoder family %s on %d structure-aware inputs" % (name, len(S[name] + M[name])), p)
                ctx.count(len(S[name] + M[name]))
                ctx.nontrivial("decoders", name)
            finally:
                shutil.rmtree(work, ignore_errors=True)
    ctx.cls("decoders_part")


def run_blob(ctx, c):
    """blob.h as a stateful API: create / fill / resize / copy / wipe / close with sizes around the page arithmetic of blob.c, with the
    library's own page size (asanpg) and with exact-size blobs (asan, hook).  Oracle: blob.h (zero-filled on creation and extension, content
    kept, sizes reported) + ASan on every allocation the blob functions make."""
    from harness import Fail
    from gens import expand
    x = ctx.x
    NULL = 0

    def content(p, n):
        if not n:
            return b""
        b = x.out(n)
        x.call("memCopy", b, p, n, ret="v")
        return b.read()
    sizes = [max(0, 1024 * k + d) for k, d in c["sizes"]]
    p = NULL
    model = b""
    q = NULL
    for i, s in enumerate(sizes):
        op = c["ops"][i % len(c["ops"])]
        if p == NULL:
            p = x.call("blobCreate", s, ret="w")
            model = bytes(s)
            if (p == NULL) != (s == 0):
                raise Fail("blobCreate(%d) returned %s" % (s, "NULL" if p == NULL else "a blob"))
        else:
            p2 = x.call("blobResize", p, s, ret="w")
            if s == 0:
                if p2 != NULL:
                    raise Fail("blobResize(blob, 0) returned a blob")
            elif p2 == NULL:
                raise Fail("blobResize(blob, %d) failed" % s)
            elif s == len(model) and p2 != p:
                raise Fail("blobResize to the same size %d changed the handle" % s)
            p = p2
            model = (model + bytes(s))[:s]
        if p != NULL:
            if not x.call("blobIsValid", p):
                raise Fail("blobIsValid is FALSE for a live blob of %d octets" % s)
            if x.call("blobSize", p, ret="z") != s:
                raise Fail("blobSize = %d after setting the size to %d" % (x.call("blobSize", p, ret="z"), s))
            got = content(p, s)
            if got != model:
                j = next(k for k in range(s) if got[k] != model[k])
                raise Fail("blob content after resizing through %s differs from 'kept content, zero extension' at octet %d of %d" % (sizes[:i + 1], j, s))
            if op == "fill":
                model = expand(c["seed"] + "%d" % i, s)
                x.call("memCopy", p, x.buf(model), s, ret="v")
            elif op == "copy":
                q = x.call("blobCopy", q, p, ret="w")
                if q == NULL or x.call("blobSize", q, ret="z") != s or content(q, s) != model or not x.call("blobEq", q, p) or x.call("blobCmp", q, p, ret="si") != 0:
                    raise Fail("blobCopy / blobEq / blobCmp disagree for a blob of %d octets" % s)
            elif op == "wipe":
                x.call("blobWipe", p, ret="v")
                model = content(p, s)
        ctx.cls("blob_%s" % ("pageedge" if s % 1024 in (0, 1, 1015, 1016, 1017, 1023) or 1000 < s % 1024 else "mid"))
    if p != NULL:
        x.call("blobClose", p, ret="v")
    if q != NULL:
        x.call("blobClose", q, ret="v")
    ctx.nontrivial("blob", tuple((k, d) for k, d in c["sizes"][:4]), tuple(c["ops"][:3]))
    ctx.sample(c)


def tests(tier):
    from props import c01, c02, c03, c05, c06, c10, c11, c13
    from harness import st
    s_blob = st.fixed_dictionaries({"seed": st.binary(min_size=1, max_size=3).map(bytes.hex),
                                    "sizes": st.lists(st.tuples(st.integers(0, 4), st.one_of(st.integers(-24, 24), st.integers(0, 1023), st.sampled_from([1000, 1008, 1015, 1016, 1017, 1020, 1023]))).map(list), min_size=2, max_size=8),
                                    "ops": st.lists(st.sampled_from(["fill", "fill", "copy", "wipe", "none"]), min_size=1, max_size=4)})
    out = [Sweep("decoders", sweep_decoders, 16, ("asan",)), Test("blob", s_blob, run_blob, {"quick": 3000, "thorough": 60000}, ("asanpg", "asan"))]

    def take(mod, pfx, names, cfgs, scale):
        for t in getattr(mod, "own_tests", mod.tests)(tier):
            if (names is None or t.name in names) and t.kind != "sweep":
                n = {k: max(60, int(v * scale)) for k, v in t.n.items()}
                out.append(Test(pfx + "." + t.name, t.strategy, t.run, n, cfgs))
    take(c01, "c01", None, SAN, 0.15)
    take(c03, "c03", None, SAN, 0.15)
    take(c03, "c03b32", {"bash", "prg", "prg_inv"}, ("bash32a",), 0.15)     # states of exactly _keep() octets with the 32-bit bash-f back end
    take(c05, "c05", None, ("msan", "asan"), 0.15)  # (the 32-bit word ASan run of these generators is C05 itself)
    take(c10, "c10", None, SAN, 0.1)
    take(c11, "c11", {"overlap"}, ("msan",), 0.05)
    take(c11, "c11a", {"overlap"}, ("asan",), 0.5)          # arenas cut to the extent of the buffers: accesses beyond the first / last buffer
    take(c13, "c13", {"share"}, SAN, 0.15)
    take(c02, "c02", None, SAN, 0.12)
    take(c06, "c06", {"mul", "swu"}, SAN, 0.3)
    for name in ("c04", "c16", "c17", "c12"):
        try:
            mod = __import__("props." + name, fromlist=["x"])
            take(mod, name, None, ("msan", "asan"), 0.1)      # asan: exact-size message / output buffers of the protocol, signature and token layers
        except Exception:
            pass
    return out
