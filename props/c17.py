"""C17: token layer - CV certificates, secure messaging, password-protected containers detect tampering.
Oracles: round trips; a Python model of the documented validation conjunction (btok.h); pyref/bign.py + belt/bash hashes as the
reference signature verifier; a Python model of the SM encoding written from the comment block of btok_sm.c (belt-cfb / belt-mac /
belt-keyrep from pyref/belt.py); the calendar of Python's datetime for dates."""
import os, datetime
from harness import Test, Fail, st
from gens import expand
import pyref.bign as RB
import pyref.belt as BELT
import pyref.bash as BASH
from errs import E, name as ename

RULE = ("CVC: key lengths 24/32/48/64 x private keys {1, q-1, random} x names of length 8/12/9..11 over the printable set (edges) x periods (from = until, century edges, leap days) "
        "x access words zero/non-zero/partly zero x pubkey_len = 0 x chains of depth 1..3 (Iss) with one broken condition at a time (name, signing key, start outside issuer period, "
        "date outside, invalid date, invalid issuer period) x single-octet alterations (region, position, xor mask) of the final certificate; refused contents (short / non-printable names, "
        "from > until, invalid calendar dates, bad public keys); SM: two states from one key, sequences of 1..6 operations (command / response / unprotected / counter skips over a carry) "
        "x cdf 0..300 (DER and Lc* boundaries) x Le forms x cla with/without 0x04 x wrapper parity right/wrong x receiver in step / wrong parity / ahead / not incremented x alterations per region; "
        "containers: key 24/32/48/64, share 17/25/33, iter = 10000, wrong password (bit, truncated, extended), altered octet. "
        "non-trivial: boundary field value, depth >= 2, altered octet, broken condition, SM sequence with >= 2 messages and a desynchronisation / wrong parity; "
        "distinct by (key lengths, classes, broken condition, altered region) resp. (message kinds, length forms, parity, receiver position, region)")
LEVEL = "exploration"
ASSUMPTIONS = ["pyref/bign.py, pyref/belt.py, pyref/bash.py are faithful (validated on the vectors of the library tests)",
               "bign96 in certificates: belt-hash truncated to 24 octets and the multiplier S0 + 2^103 as implemented (bee2 extension, no standard text)",
               "the MAC input / unprotected octets of SM are those of the comment block in btok_sm.c; replay (same parity, other counter) is not claimed: the MAC does not cover the counter",
               "a forged signature / MAC / key-wrap integrity value is not hit by a random alteration (probability <= 2^-64)",
               "date octets are decimal digits 0..9 (YYMMDD, tm.h); octets > 9 are not generated",
               "passwords that differ only in trailing zero octets are the same hmac-hbelt key (<= 32 octets): not counted as wrong passwords",
               "a command whose protected data field DO87 || DO97 || DO8E exceeds 65535 octets cannot be announced by Lc*: btokSMCmdWrap must refuse it with ERR_BAD_APDU (length query and real call); "
               "checked at the boundary lengths 65510..65535 (test sm_limit, both tiers) and with the largest data fields of the thorough sm sequences"]
BUDGET = {"quick": 300, "thorough": 3000}
CFG = tuple(os.environ.get("VERIF_CFG", "asan").split(","))
SIZE_MAX = (1 << 64) - 1

# ------------------------------------------------------------------ common helpers
PRINTABLE_EDGES = " '()+,-./:=?09AZaz"
ALNUM = "ABCDEFGHIJKLMNOPQRSTUVWXYZ0123456789abcdefghijklmnopqrstuvwxyz"
NONPRINTABLE = [0x21, 0x22, 0x23, 0x24, 0x25, 0x26, 0x2A, 0x3B, 0x3C, 0x3E, 0x40, 0x5B, 0x5C, 0x5D, 0x5E, 0x5F, 0x60, 0x7B, 0x7C, 0x7E, 0x7F, 0x80, 0xFF, 0x1F, 0x09]
KL2L = {24: 96, 32: 128, 48: 192, 64: 256}
HASH_OID = {24: "1.2.112.0.2.0.34.101.31.81", 32: "1.2.112.0.2.0.34.101.31.81", 48: "1.2.112.0.2.0.34.101.77.12", 64: "1.2.112.0.2.0.34.101.77.13"}
SIG_LEN = {24: 34, 32: 48, 48: 72, 64: 96}
D0 = datetime.date(2000, 1, 1).toordinal()
MAXO = datetime.date(2099, 12, 31).toordinal() - D0
FIELDS = ["authority", "holder", "pubkey", "pubkey_len", "from", "until", "hat_eid", "hat_esign", "sig", "sig_len"]
FSIZE = [13, 13, 128, 8, 6, 6, 5, 2, 96, 8]


def params_of(kl):
    return RB._P(96) if kl == 24 else RB.std_params(KL2L[kl])


def privkey(kl, cls, seed):
    q = params_of(kl)["q"]
    d = {"one": 1, "qm1": q - 1}.get(cls)
    if d is None:
        d = int.from_bytes(expand(seed, kl), "little") % (q - 1) + 1
    return d.to_bytes(kl, "little")


def body_hash(kl, body):
    if kl == 24:
        return BELT.hash(body)[:24]
    if kl == 32:
        return BELT.hash(body)
    return BASH.bash_hash(192 if kl == 48 else 256, body)


def ref_verify(kl, body, sig, Q):
    """reference verdict for a certificate body signed with a key of kl octets (public key Q of 2 kl octets)"""
    oid = RB.oid_to_der(HASH_OID[kl])
    H = body_hash(kl, body)
    if kl == 24:
        return RB.verify96(oid, H, sig, Q, RB.BIGN96_TOP_BIT_LIB)
    return RB.verify(params_of(kl), oid, H, sig, Q)


def digits(o):
    """day number (0 = 2000-01-01) -> YYMMDD digit octets"""
    d = datetime.date.fromordinal(D0 + o)
    yy = d.year - 2000
    return bytes([yy // 10, yy % 10, d.month // 10, d.month % 10, d.day // 10, d.day % 10])


def dstr(s):
    return bytes(int(ch) for ch in s)


BAD_DATES = ["230229", "000230", "990229", "230431", "230631", "230931", "231131", "231301", "230001", "230100", "230132", "000000", "999999", "210229", "000132"]
EDGE_DATES = ["000101", "000229", "040229", "991231", "240229", "230228", "231130", "230131", "991130", "000131", "960229", "991201"]


def mkname(seed, n, cls):
    r = expand(seed, n)
    if cls == "alnum":
        return "".join(ALNUM[v % len(ALNUM)] for v in r).encode()
    if cls == "edges":
        return "".join(PRINTABLE_EDGES[v % len(PRINTABLE_EDGES)] for v in r).encode()
    al = ALNUM + " '()+,-./:=?"
    return "".join(al[v % len(al)] for v in r).encode()


def hat_of(cls, seed):
    """(hat_eid[5], hat_esign[2])"""
    r = expand(seed + "hat", 7)
    nz = bytes(v | 1 for v in r)
    return {"zero": (bytes(5), bytes(2)), "full": (nz[:5], nz[5:]), "ff": (b"\xff" * 5, b"\xff" * 2), "eid": (nz[:5], bytes(2)), "esign": (bytes(5), nz[5:]),
            "partly": (bytes(4) + b"\x01", b"\x00\x80"), "partly2": (b"\x80" + bytes(4), b"\x01\x00")}[cls]


def tl(b, off):
    """(tag octets, length octets, value length) of the DER TLV at off"""
    i = off
    if b[i] & 0x1F == 0x1F:
        i += 1
        while b[i] & 0x80:
            i += 1
    i += 1
    t = i - off
    if b[i] < 0x80:
        return t, 1, b[i]
    k = b[i] & 0x7F
    return t, 1 + k, int.from_bytes(b[i + 1:i + 1 + k], "big")


def cert_regions(cert):
    """outer TL | body (the signed octets: the whole CertificateBody TLV) | TL of the signature | signature value"""
    t, l, v = tl(cert, 0)
    o1 = t + l
    if cert[:2] != b"\x7f\x21" or o1 + v != len(cert):
        raise Fail("certificate does not start with a [APPLICATION 33] TLV of its full length: %s" % cert[:8].hex())
    t2, l2, v2 = tl(cert, o1)
    o2 = o1 + t2 + l2 + v2
    if cert[o1:o1 + 2] != b"\x7f\x4e":
        raise Fail("certificate body tag is not 7F4E")
    t3, l3, v3 = tl(cert, o2)
    o3 = o2 + t3 + l3
    if cert[o2:o2 + 2] != b"\x5f\x37" or o3 + v3 != len(cert):
        raise Fail("signature object is not the last 5F37 TLV")
    return {"otl": (0, o1), "body": (o1, o2), "stl": (o2, o3), "sig": (o3, len(cert))}


class Cvc:
    """a btok_cvc_t in the executor, accessed through the x_cvc_* shims only"""

    def __init__(self, x):
        self.x = x
        self.n = x.call("x_cvc_sizeof", ret="z")
        self.b = x.zero(self.n)

    def fill(self, authority, holder, frm, until, hat):
        x = self.x
        x.call("x_cvc_fill", self.b, x.buf(authority + b"\0"), x.buf(holder + b"\0"), x.buf(frm), x.buf(until), 0, ret="v")
        x.call("x_cvc_set", self.b, 6, x.buf(hat[0]), 5, ret="v")
        x.call("x_cvc_set", self.b, 7, x.buf(hat[1]), 2, ret="v")

    def set(self, field, data):
        self.x.call("x_cvc_set", self.b, FIELDS.index(field), self.x.buf(data), len(data), ret="v")

    def setkey(self, Q):
        self.x.call("x_cvc_setkey", self.b, self.x.buf(Q), len(Q), ret="v")

    def get(self):
        x = self.x
        d = {}
        for i, f in enumerate(FIELDS):
            o = x.out(FSIZE[i])
            x.call("x_cvc_get", o, self.b, i, ret="z")
            d[f] = o.read()
            x.free(o)
        d["pubkey_len"] = int.from_bytes(d["pubkey_len"], "little")
        d["sig_len"] = int.from_bytes(d["sig_len"], "little")
        return d

    def clone(self):
        c = Cvc.__new__(Cvc)
        c.x, c.n = self.x, self.n
        c.b = self.x.buf(self.b.read())
        return c


def content(d):
    """the information content of a certificate structure (strings up to NUL, key and signature by their lengths)"""
    return (d["authority"].split(b"\0")[0], d["holder"].split(b"\0")[0], d["pubkey"][:d["pubkey_len"]], d["pubkey_len"], d["from"], d["until"],
            d["hat_eid"], d["hat_esign"], d["sig"][:d["sig_len"]], d["sig_len"])


def wrap(x, cvc, priv, what="btokCVCWrap"):
    """probe + real btokCVCWrap; returns (code, cert)"""
    P = x.buf(priv)
    cl = x.zero(8)
    r0 = x.call("btokCVCWrap", None, cl, cvc.b, P, len(priv))
    if r0:
        return r0, None
    L = cl.int()
    cert = x.out(L)
    cl2 = x.zero(8)
    r = x.call("btokCVCWrap", cert, cl2, cvc.b, P, len(priv))
    if r:
        raise Fail("%s: length query OK (%d) but the real call fails with %s" % (what, L, ename(r)))
    if cl2.int() != L:
        raise Fail("%s: length query says %d, real call %d" % (what, L, cl2.int()))
    return 0, cert.read()


def iss(x, cvc, certa, priva):
    """probe + real btokCVCIss; returns (code, cert)"""
    P = x.buf(priva)
    A = x.buf(certa)
    cl = x.zero(8)
    r0 = x.call("btokCVCIss", None, cl, cvc.b, A, len(certa), P, len(priva))
    if r0:
        cert = x.out(len(certa) + 400)
        r = x.call("btokCVCIss", cert, cl, cvc.b, A, len(certa), P, len(priva))
        if r == 0:
            raise Fail("btokCVCIss: length query fails (%s) but the real call succeeds" % ename(r0))
        return r0, None
    L = cl.int()
    cert = x.out(L)
    cl2 = x.zero(8)
    r = x.call("btokCVCIss", cert, cl2, cvc.b, A, len(certa), P, len(priva))
    if r or cl2.int() != L:
        raise Fail("btokCVCIss: length query OK (%d) but real call gives %s / %d" % (L, ename(r), cl2.int()))
    return 0, cert.read()


def unwrap(x, cert, Q=None):
    """btokCVCUnwrap with an explicit public key (or without signature check); returns (code, Cvc)"""
    o = Cvc(x)
    C = x.buf(cert)
    if Q is None:
        r = x.call("btokCVCUnwrap", o.b, C, len(cert), None, 0)
    else:
        r = x.call("btokCVCUnwrap", o.b, C, len(cert), x.buf(Q), len(Q))
    return r, o


def val2(x, cert, cvca, date):
    """btokCVCVal2 with and without the output structure: verdicts must agree; returns (code, Cvc)"""
    o = Cvc(x)
    C = x.buf(cert)
    D = x.buf(date) if date is not None else None
    r = x.call("btokCVCVal2", o.b, C, len(cert), cvca.b, D)
    r2 = x.call("btokCVCVal2", None, C, len(cert), cvca.b, D)
    if (r == 0) != (r2 == 0):
        raise Fail("btokCVCVal2 with cvc != 0 returns %s, with cvc == 0 returns %s" % (ename(r), ename(r2)))
    return r, o


# ------------------------------------------------------------------ CVC: chains, validation, alterations
def run_cvc(ctx, c):
    x = ctx.x
    seed = c["seed"]
    lv = c["levels"]
    depth = len(lv)
    brk = c["brk"]
    last = depth - 1
    certs, privs, structs, periods, names = [], [], [], [], []
    sig_ok = True
    for i, L in enumerate(lv):
        kl = L["kl"]
        priv = privkey(kl, L["d"], seed + "d%d" % i)
        holder = mkname(seed + "n%d" % i, L["nlen"], L["nchars"])
        if i and holder == names[i - 1]:
            holder = holder[:-1] + (b"A" if holder[-1:] != b"A" else b"B")
        authority = names[i - 1] if i else holder
        if i == 0:
            f = c["root_from"]
        else:
            F, U = periods[i - 1]
            f = {"lo": F, "hi": U, "mid": (F + U) // 2}[L["fpos"]]
        broken = None
        if i == last:
            if brk == "name_char":
                authority = authority[:-1] + (b"B" if authority[-1:] != b"B" else b"C")
                broken = brk
            elif brk == "name_len":
                authority = authority[:-1] if len(authority) > 8 else authority + b"0"
                broken = brk
            elif brk == "name_case":
                sw = authority.swapcase()
                if sw != authority:
                    authority, broken = sw, brk
            elif brk == "period_lo" and i and periods[i - 1][0] > 0:
                f, broken = periods[i - 1][0] - 1, brk
            elif brk == "period_hi" and i and periods[i - 1][1] < MAXO:
                f, broken = periods[i - 1][1] + 1, brk
            elif brk in ("sig_same", "sig_other"):
                broken = brk
        u = min(MAXO, f + L["span"])
        hat = hat_of(L["hat"], seed + "%d" % i)
        cvc = Cvc(x)
        cvc.fill(authority, holder, digits(f), digits(u), hat)
        # pre-certificate: pubkey_len = 0 => the public key is derived from the private key, signature by the own key
        r, pre = wrap(x, cvc, priv)
        if r:
            raise Fail("btokCVCWrap refuses a valid content (level %d, kl=%d, authority=%r holder=%r from=%s until=%s): %s" % (i, kl, authority, holder, digits(f).hex(), digits(u).hex(), ename(r)))
        d = cvc.get()
        if d["pubkey_len"] != 2 * kl or d["sig_len"] != SIG_LEN[kl]:
            raise Fail("btokCVCWrap with pubkey_len = 0 sets pubkey_len=%d sig_len=%d for a %d-octet private key" % (d["pubkey_len"], d["sig_len"], kl))
        Q = d["pubkey"][:2 * kl]
        if any(d["pubkey"][2 * kl:]):
            raise Fail("btokCVCWrap with pubkey_len = 0 leaves non-zero octets after the derived public key")
        if i == 0 and L["expl"]:
            # the same content with the key given explicitly must give the same certificate (deterministic signatures: no rng)
            r, pre2 = wrap(x, cvc, priv)
            if r or pre2 != pre:
                raise Fail("btokCVCWrap with the derived key given explicitly differs from the pubkey_len = 0 certificate (%s)" % ename(r))
        if i == 0:
            signer, cert = priv, pre
            if broken in ("sig_same", "sig_other"):
                okl = kl if broken == "sig_same" else {24: 32, 32: 48, 48: 64, 64: 24}[kl]
                signer = privkey(okl, "rnd", seed + "other")
                r, cert = wrap(x, cvc, signer)
                if r:
                    raise Fail("btokCVCWrap with a foreign signing key fails: %s" % ename(r))
                sig_ok = False
        else:
            ia, ipriv = certs[i - 1], privs[i - 1]
            if broken is None:
                ref = cvc.clone()
                r, cert = iss(x, cvc, ia, ipriv)
                if r:
                    raise Fail("btokCVCIss refuses a content that satisfies btokCVCCheck2 (level %d, authority=%r, from=%s in [%s, %s]): %s" %
                               (i, authority, digits(f).hex(), digits(periods[i - 1][0]).hex(), digits(periods[i - 1][1]).hex(), ename(r)))
                r2, cert2 = wrap(x, ref, ipriv)
                if r2 or cert2 != cert:
                    raise Fail("btokCVCIss certificate differs from btokCVCWrap on the issuer key (%s)" % ename(r2))
            else:
                signer = ipriv
                if broken in ("sig_same", "sig_other"):
                    ikl = lv[i - 1]["kl"]
                    okl = ikl if broken == "sig_same" else {24: 32, 32: 48, 48: 64, 64: 24}[ikl]
                    signer = privkey(okl, "rnd", seed + "other")
                    sig_ok = False
                keep = cvc.clone()
                r, _ = iss(x, cvc, ia, signer)
                if r == 0:
                    raise Fail("btokCVCIss issues a certificate although %s is violated (authority=%r issuer holder=%r, from=%s issuer period [%s, %s])" %
                               (broken, authority, names[i - 1], digits(f).hex(), digits(periods[i - 1][0]).hex(), digits(periods[i - 1][1]).hex()))
                cvc = keep
                r, cert = wrap(x, cvc, signer)
                if r:
                    raise Fail("btokCVCWrap (no issuer checks) fails on the broken link %s: %s" % (broken, ename(r)))
        certs.append(cert); privs.append(priv); structs.append(cvc); periods.append((f, u)); names.append(holder)
        # round trip of this certificate
        d = cvc.get()
        r, o = unwrap(x, cert)
        if r:
            raise Fail("btokCVCUnwrap (no key) fails on a fresh certificate: %s (level %d kl=%d)" % (ename(r), i, kl))
        du = o.get()
        if content(du) != content(d):
            raise Fail("Unwrap(Wrap(cvc)) != cvc at level %d: %s vs %s" % (i, content(du), content(d)))
        if any(du["pubkey"][du["pubkey_len"]:]) or any(du["sig"][du["sig_len"]:]):
            raise Fail("btokCVCUnwrap leaves non-zero octets after the key / signature")
        n = x.call("btokCVCLen", x.buf(cert), len(cert), ret="z")
        n2 = x.call("btokCVCLen", x.buf(cert + b"\x30\x00\xff"), len(cert) + 3, ret="z")
        n3 = x.call("btokCVCLen", x.buf(cert[:-1]), len(cert) - 1, ret="z")
        if n != len(cert) or n2 != len(cert) or n3 != SIZE_MAX:
            raise Fail("btokCVCLen: %d / with trailing octets %d / truncated %x, certificate has %d octets" % (n, n2, n3, len(cert)))
        r = x.call("btokCVCUnwrap", Cvc(x).b, x.buf(cert + b"\0"), len(cert) + 1, None, 0)
        if r == 0:
            raise Fail("btokCVCUnwrap accepts a certificate followed by an extra octet")
        r = x.call("btokCVCMatch", x.buf(cert), len(cert), x.buf(priv), kl)
        if r:
            raise Fail("btokCVCMatch rejects the holder's private key: %s" % ename(r))
        wrong = privkey(kl, "rnd", seed + "wrong%d" % i)
        wl = {24: 32, 32: 24, 48: 64, 64: 48}[kl]
        for wp in (wrong, privkey(wl, "rnd", seed + "wl")):
            if wp != priv and x.call("btokCVCMatch", x.buf(cert), len(cert), x.buf(wp), len(wp)) == 0:
                raise Fail("btokCVCMatch accepts a wrong private key (%d octets) for a %d-octet key certificate" % (len(wp), kl))
    # ---- validation of the last link
    ia = last - 1 if last else 0
    cert, certa = certs[last], certs[ia]
    f, u = periods[last]
    # chain walk as documented in btok.h: Unwrap the root on its own key, then Val2 link by link
    root = Cvc(x)
    r = x.call("x_cvc_unwrap_self", root.b, x.buf(certs[0]), len(certs[0]))
    root_sig_ok = sig_ok or last != 0
    if (r == 0) != root_sig_ok:
        raise Fail("btokCVCUnwrap(cvc, cert, len, cvc->pubkey, 0) on the root returns %s, signature is %s" % (ename(r), "good" if root_sig_ok else "by a foreign key"))
    if r:
        r, root = unwrap(x, certs[0])
    r = x.call("x_cvc_unwrap_badptr", Cvc(x).b, x.buf(certs[0]), len(certs[0]), x.buf(b"\0"))
    if r == 0:
        raise Fail("btokCVCUnwrap with pubkey_len = 0 and a foreign non-null pubkey pointer returns OK")
    walk = [root]
    for j in range(1, last):
        r, o = val2(x, certs[j], walk[j - 1], None)
        if r:
            raise Fail("btokCVCVal2 rejects the intact intermediate link %d: %s" % (j, ename(r)))
        walk.append(o)
    cvca = walk[ia]
    da = cvca.get()
    if content(da) != content(structs[ia].get()):
        raise Fail("content returned by the chain walk for the issuer differs from the issued content")
    Qa = da["pubkey"][:da["pubkey_len"]]
    ikl = da["pubkey_len"] // 2
    # date of validation
    dcls = c["date"]
    if brk == "date_lo" and f > 0:
        date, date_ok, dcls = digits(f - 1), False, brk
    elif brk == "date_hi" and u < MAXO:
        date, date_ok, dcls = digits(u + 1), False, brk
    elif brk == "date_bad":
        date, date_ok, dcls = dstr(BAD_DATES[c["pos"] % len(BAD_DATES)]), False, brk
    else:
        date = {"null": None, "from": digits(f), "until": digits(u), "mid": digits((f + u) // 2)}[dcls]
        date_ok = True
    name_ok = content(structs[last].get())[0] == names[ia]
    F, U = periods[ia]
    period_ok = F <= f <= U
    exp = sig_ok and name_ok and period_ok and date_ok
    D = x.buf(date) if date is not None else None
    r = x.call("btokCVCVal", x.buf(cert), len(cert), x.buf(certa), len(certa), D)
    if (r == 0) != exp:
        raise Fail("btokCVCVal returns %s; documented conjunction is %s (signature %s, names equal %s, from in issuer period %s, date %s %s) depth=%d" %
                   (ename(r), exp, sig_ok, name_ok, period_ok, date.hex() if date else None, date_ok, depth))
    r, o = val2(x, cert, cvca, date)
    if (r == 0) != exp:
        raise Fail("btokCVCVal2 returns %s; documented conjunction is %s (signature %s, names equal %s, from in issuer period %s, date %s %s) depth=%d" %
                   (ename(r), exp, sig_ok, name_ok, period_ok, date.hex() if date else None, date_ok, depth))
    if r == 0 and content(o.get()) != content(structs[last].get()):
        raise Fail("btokCVCVal2 returns a content different from the issued one")
    if brk == "issuer_dates":
        # Val2 takes the issuer's content as a structure: its period must be valid
        bad = cvca.clone()
        bd = dstr(BAD_DATES[c["pos"] % len(BAD_DATES)])
        bad.set("from" if c["mask"] & 1 else "until", bd)
        r, _ = val2(x, cert, bad, None)
        if r == 0:
            raise Fail("btokCVCVal2 accepts an issuer content with the invalid date %s" % bd.hex())
    r, o = unwrap(x, cert, Qa)
    if (r == 0) != sig_ok:
        raise Fail("btokCVCUnwrap on the issuer key returns %s, signature is %s" % (ename(r), "good" if sig_ok else "by a foreign key"))
    regs = cert_regions(cert)
    body = cert[regs["body"][0]:regs["body"][1]]
    sig = cert[regs["sig"][0]:regs["sig"][1]]
    if len(sig) == SIG_LEN[ikl]:
        rv = ref_verify(ikl, body, sig, Qa)
        if rv != sig_ok:
            raise Fail("reference verifier (hash of the body TLV, issuer key of %d octets) says %s for a signature that is %s" % (ikl, rv, "good" if sig_ok else "by a foreign key"))
    bnd = [k for k, v in (("n8", any(L["nlen"] == 8 for L in lv)), ("n12", any(L["nlen"] == 12 for L in lv)), ("f=u", f == u), ("cent", f == 0 or u == MAXO), ("edge", lv[last]["fpos"] != "mid" and last > 0)) if v]
    ctx.cls("depth%d" % depth, "brk_" + (brk if not exp or brk == "issuer_dates" else "none"), "date_" + dcls, *["kl%d" % L["kl"] for L in lv])
    if depth >= 2 or bnd or brk != "none":
        ctx.nontrivial("chain", tuple(L["kl"] for L in lv), tuple(bnd), brk, dcls, tuple(L["hat"] for L in lv))
    # ---- alterations of the final certificate (only when the unaltered one validates)
    alt = c["alt"]
    if alt != "none" and exp:
        a, b = regs[alt]
        pos = a + c["pos"] % (b - a)
        new = bytearray(cert)
        new[pos] ^= c["mask"]
        new = bytes(new)
        orig = content(structs[last].get())
        r0, _ = unwrap(x, new)          # no signature check: any verdict, must not crash
        r1, o1 = unwrap(x, new, Qa)
        r2 = x.call("btokCVCVal", x.buf(new), len(new), x.buf(certa), len(certa), None)
        r3, o3 = val2(x, new, cvca, None)
        if last == 0:
            r4 = x.call("x_cvc_unwrap_self", Cvc(x).b, x.buf(new), len(new))
        else:
            r4 = r1
        desc = "octet %d (%s, region %s [%d,%d)) ^ %02x, kl=%d issuer kl=%d depth=%d" % (pos, "%02x" % cert[pos], alt, a, b, c["mask"], lv[last]["kl"], ikl, depth)
        if alt == "body":
            for fn, rr in (("btokCVCUnwrap(issuer key)", r1), ("btokCVCVal", r2), ("btokCVCVal2", r3), ("btokCVCUnwrap(own key)", r4)):
                if rr == 0:
                    raise Fail("%s accepts a certificate with an altered signed octet: %s" % (fn, desc))
        elif alt in ("otl", "stl"):
            for fn, rr, oo in (("btokCVCUnwrap(issuer key)", r1, o1), ("btokCVCVal2", r3, o3)):
                if rr == 0 and content(oo.get()) != orig:
                    raise Fail("%s returns OK with a different content after altering an unsigned TL octet: %s" % (fn, desc))
        else:
            nsig = new[regs["sig"][0]:]
            rv = ref_verify(ikl, body, nsig, Qa)
            for fn, rr in (("btokCVCUnwrap(issuer key)", r1), ("btokCVCVal", r2), ("btokCVCVal2", r3)):
                if (rr == 0) != rv:
                    raise Fail("%s returns %s for an altered signature value, reference verifier says %s: %s" % (fn, ename(rr), rv, desc))
        ctx.cls("alt_" + alt, "alt_noKeyUnwrap_" + ("ok" if r0 == 0 else "err"))
        ctx.nontrivial("alt", alt, lv[last]["kl"], ikl, pos * 8 // len(cert), r1 == 0)
    ctx.sample(c)


LEVEL_S = st.fixed_dictionaries({
    "kl": st.sampled_from([24, 32, 48, 64]), "d": st.sampled_from(["rnd", "rnd", "rnd", "one", "qm1"]),
    "nlen": st.sampled_from([8, 8, 12, 12, 9, 10, 11]), "nchars": st.sampled_from(["alnum", "edges", "mixed"]),
    "hat": st.sampled_from(["zero", "full", "ff", "eid", "esign", "partly", "partly2"]),
    "fpos": st.sampled_from(["lo", "hi", "mid"]), "span": st.sampled_from([0, 0, 1, 30, 365, 3653, 40000]), "expl": st.booleans()})
S_CVC = st.fixed_dictionaries({
    "seed": st.binary(min_size=1, max_size=4).map(bytes.hex), "levels": st.lists(LEVEL_S, min_size=1, max_size=3),
    "root_from": st.one_of(st.sampled_from([0, 0, 1, 59, 365, 1520, MAXO, MAXO - 1, MAXO - 365]), st.integers(0, MAXO)),
    "brk": st.sampled_from(["none", "none", "none", "none", "name_char", "name_len", "name_case", "sig_same", "sig_other", "period_lo", "period_hi", "date_lo", "date_hi", "date_bad", "issuer_dates"]),
    "date": st.sampled_from(["null", "from", "until", "mid"]),
    "alt": st.sampled_from(["none", "body", "body", "body", "body", "otl", "stl", "sig"]), "pos": st.integers(0, 4000), "mask": st.integers(1, 255)})


# ------------------------------------------------------------------ CVC: contents at the documented limits, refused contents
def run_content(ctx, c):
    x = ctx.x
    seed = c["seed"]
    kl = c["kl"]
    priv = privkey(kl, c["d"], seed + "d")
    authority = mkname(seed + "a", c["alen"], c["nchars"])
    holder = authority if c["selfs"] else mkname(seed + "h", c["hlen"], c["nchars"])
    d1, d2 = sorted([EDGE_DATES[c["d1"] % len(EDGE_DATES)], EDGE_DATES[c["d2"] % len(EDGE_DATES)]])
    frm, until = dstr(d1), dstr(d2)
    hat = hat_of(c["hat"], seed)
    df = c["defect"]
    bd = dstr(BAD_DATES[c["k"] % len(BAD_DATES)])
    npc = bytes([NONPRINTABLE[c["k"] % len(NONPRINTABLE)]])
    if df == "a_short": authority = authority[:c["k"] % 8]
    elif df == "h_short": holder = holder[:c["k"] % 8]
    elif df == "a_np":
        p = c["k2"] % len(authority); authority = authority[:p] + npc + authority[p + 1:]
    elif df == "h_np":
        p = c["k2"] % len(holder); holder = holder[:p] + npc + holder[p + 1:]
    elif df == "from_gt_until":
        if frm == until:
            frm, until = dstr("240301"), dstr("240229")
        else:
            frm, until = until, frm
    elif df == "from_bad": frm = bd
    elif df == "until_bad": until = bd
    elif df == "both_bad": frm = until = bd
    explicit = bool(c["k2"] & 1) or df.startswith("pk_")
    cvc = Cvc(x)
    cvc.fill(authority, holder, frm, until, hat)
    if explicit:
        # the valid public key of priv: derived by the library on a scratch content (length query: no certificate is built)
        scratch = Cvc(x)
        scratch.fill(b"AAAAAAAA", b"AAAAAAAA", dstr("000101"), dstr("000101"), (bytes(5), bytes(2)))
        r = x.call("btokCVCWrap", None, None, scratch.b, x.buf(priv), kl)
        ds = scratch.get()
        if r or ds["pubkey_len"] != 2 * kl:
            raise Fail("btokCVCWrap(0, 0, cvc with pubkey_len = 0) does not derive the public key: %s, pubkey_len=%d" % (ename(r), ds["pubkey_len"]))
        Q = ds["pubkey"][:2 * kl]
        n = 2 * kl
        if df == "pk_offcurve":
            Q = Q[:-1] + bytes([Q[-1] ^ (1 + c["k"] % 255)])
        elif df == "pk_zero":
            Q = bytes(n)
        elif df == "pk_big":
            Q = b"\xff" * n
        elif df == "pk_len":
            n = [1, 47, 49, 63, 65, 95, 97, 127, 32, 80, 2][c["k"] % 11]
            Q = expand(seed + "q", n)
        cvc.setkey(Q)
    exp = df == "none"
    if explicit:
        rc = x.call("btokCVCCheck", cvc.b)
        if (rc == 0) != exp:
            raise Fail("btokCVCCheck returns %s on a content with defect '%s' (authority=%r holder=%r from=%s until=%s pubkey_len=%s)" %
                       (ename(rc), df, authority, holder, frm.hex(), until.hex(), len(Q)))
    r, cert = wrap(x, cvc, priv)
    if (r == 0) != exp:
        raise Fail("btokCVCWrap returns %s on a content with defect '%s' (authority=%r holder=%r from=%s until=%s kl=%d)" % (ename(r), df, authority, holder, frm.hex(), until.hex(), kl))
    if exp:
        d = cvc.get()
        r, o = unwrap(x, cert, d["pubkey"][:2 * kl])
        if r or content(o.get()) != content(d):
            raise Fail("Unwrap(Wrap(cvc)) on the own key: %s, content equal %s" % (ename(r), r == 0 and content(o.get()) == content(d)))
        got = content(o.get())
        if got[0] != authority or got[1] != holder or got[4] != frm or got[5] != until or got[6] != hat[0] or got[7] != hat[1]:
            raise Fail("decoded content differs from the input fields: %s" % (got,))
        regs = cert_regions(cert)
        if c["k2"] & 2 and not ref_verify(kl, cert[regs["body"][0]:regs["body"][1]], cert[regs["sig"][0]:], d["pubkey"][:2 * kl]):
            raise Fail("reference verifier rejects the signature of a fresh self-signed certificate (kl=%d)" % kl)
        if c["zhat"] or c["k2"] & 4:
            crafted(ctx, x, c, cert, regs, kl, priv, d, hat, holder, frm, until)
    ctx.cls("defect_" + df, "kl%d" % kl)
    ctx.nontrivial("content", df, kl, c["alen"], c["hlen"], d1 == d2, c["hat"], c["k"] % 25 if df != "none" else (d1, d2))
    ctx.sample(c)


def crafted(ctx, x, c, cert, regs, kl, priv, d, hat, holder, frm, until):
    """certificates that btokCVCWrap never produces: the body of a fresh certificate is changed in place (same length) and re-signed
    with the library's deterministic bign signature.  btok.h: 'a zero access word present in a decoded certificate is not an error';
    btokCVCUnwrap succeeds only if btokCVCCheck(cvc) == ERR_OK (names, dates, from <= until, public key on the curve)"""
    a, b = regs["body"]
    body = cert[a:b]
    kind = ["zero_hat", "bad_until", "bad_from", "from_gt_until", "name_np", "pk_offcurve"][c["k"] % 6]
    if kind == "zero_hat":
        if hat[0] == bytes(5):
            return
        pat, rep = b"\x04\x05" + hat[0], b"\x04\x05" + bytes(5)
    elif kind == "bad_until":
        pat, rep = b"\x5f\x24\x06" + until, b"\x5f\x24\x06" + dstr(BAD_DATES[c["k2"] % len(BAD_DATES)])
    elif kind == "bad_from":
        pat, rep = b"\x5f\x25\x06" + frm, b"\x5f\x25\x06" + dstr(BAD_DATES[c["k2"] % len(BAD_DATES)])
    elif kind == "from_gt_until":
        if frm == until:
            return
        pat, rep = b"\x5f\x25\x06" + frm + b"\x5f\x24\x06" + until, b"\x5f\x25\x06" + until + b"\x5f\x24\x06" + frm
    elif kind == "name_np":
        p = c["k2"] % len(holder)
        pat = b"\x5f\x20" + bytes([len(holder)]) + holder
        rep = pat[:3 + p] + bytes([NONPRINTABLE[c["k"] % len(NONPRINTABLE)]]) + pat[4 + p:]
    else:
        Q = d["pubkey"][:2 * kl]
        pat, rep = Q, Q[:-1] + bytes([Q[-1] ^ (1 + c["k2"] % 255)])
    k = body.find(pat)
    if k < 0 or body.find(pat, k + 1) >= 0:
        return
    nbody = body[:k] + rep + body[k + len(pat):]
    H = body_hash(kl, nbody)
    oid = RB.oid_to_der(HASH_OID[kl])
    P = x.out(8 + 64 * 5 + 8)
    if kl == 24:
        r = x.call("bign96ParamsStd", P, x.buf(b"1.2.112.0.2.0.34.101.45.3.0\0"))
    else:
        r = x.call("bignParamsStd", P, x.buf(("1.2.112.0.2.0.34.101.45.3.%d" % {32: 1, 48: 2, 64: 3}[kl]).encode() + b"\0"))
    if r:
        raise Fail("ParamsStd failed: %s" % ename(r))
    sg = x.out(SIG_LEN[kl])
    r = x.call("bign96Sign2" if kl == 24 else "bignSign2", sg, P, x.buf(oid), len(oid), x.buf(H), x.buf(priv), None, 0)
    if r:
        raise Fail("Sign2 failed: %s" % ename(r))
    ncert = cert[:a] + nbody + cert[b:regs["sig"][0]] + sg.read()
    Q = d["pubkey"][:2 * kl]
    if not ref_verify(kl, nbody, sg.read(), Q):
        return          # construction did not work out: nothing is claimed
    r, o = unwrap(x, ncert, Q)
    r2, o2 = unwrap(x, ncert)
    if kind == "zero_hat":
        if r or r2:
            raise Fail("btokCVCUnwrap rejects a certificate that carries an explicit zero eId access word: %s / %s" % (ename(r), ename(r2)))
        if o.get()["hat_eid"] != bytes(5):
            raise Fail("explicit zero eId access word decoded as %s" % o.get()["hat_eid"].hex())
    else:
        if r == 0 or r2 == 0:
            raise Fail("btokCVCUnwrap (key: %s, no key: %s) accepts a correctly signed certificate whose content fails btokCVCCheck (%s: %s -> %s), kl=%d" %
                       (ename(r), ename(r2), kind, pat.hex(), rep.hex(), kl))
        r3 = x.call("btokCVCVal", x.buf(ncert), len(ncert), x.buf(cert), len(cert), None)
        if r3 == 0:
            raise Fail("btokCVCVal accepts a correctly signed certificate whose content fails btokCVCCheck (%s), kl=%d" % (kind, kl))
    ctx.cls("crafted_" + kind)
    ctx.nontrivial("crafted", kind, kl, c["k2"] % 16)


S_CONTENT = st.fixed_dictionaries({
    "seed": st.binary(min_size=1, max_size=4).map(bytes.hex), "kl": st.sampled_from([24, 32, 48, 64]), "d": st.sampled_from(["rnd", "rnd", "one", "qm1"]),
    "alen": st.sampled_from([8, 12, 8, 12, 9, 10, 11]), "hlen": st.sampled_from([8, 12, 8, 12, 9, 10, 11]), "nchars": st.sampled_from(["alnum", "edges", "mixed"]), "selfs": st.booleans(),
    "d1": st.integers(0, 11), "d2": st.integers(0, 11), "hat": st.sampled_from(["zero", "full", "ff", "eid", "esign", "partly", "partly2"]),
    "defect": st.sampled_from(["none", "none", "none", "none", "a_short", "h_short", "a_np", "h_np", "from_gt_until", "from_bad", "until_bad", "both_bad", "pk_offcurve", "pk_len", "pk_zero", "pk_big"]),
    "k": st.integers(0, 255), "k2": st.integers(0, 255), "zhat": st.booleans()})


# ------------------------------------------------------------------ SM: model of the encoding (comment block of btok_sm.c)
def der_tl(tag, n):
    if n < 128:
        return bytes([tag, n])
    k = (n.bit_length() + 7) // 8
    return bytes([tag, 0x80 | k]) + n.to_bytes(k, "big")


def lc_enc(cdf_len, rdf_len):
    if cdf_len == 0:
        return b""
    if cdf_len < 256 and rdf_len <= 256:
        return bytes([cdf_len])
    return b"\0" + cdf_len.to_bytes(2, "big")


def le_enc(cdf_len, rdf_len):
    """Le of the unprotected command (apdu.h, rules 4-6)"""
    if rdf_len == 0:
        return b""
    if cdf_len < 256 and rdf_len <= 256:
        return bytes([rdf_len & 255])
    if cdf_len:
        return (rdf_len & 0xFFFF).to_bytes(2, "big")
    return b"\0" + (rdf_len & 0xFFFF).to_bytes(2, "big")


def sm_keys(key):
    return BELT.krp(key, bytes(12), (1).to_bytes(16, "little"), 32), BELT.krp(key, bytes(12), (2).to_bytes(16, "little"), 32)


def sm_cmd_model(k1, k2, ctr, hdr, cdf, rdf_len):
    """CLA INS P1 P2 Lc CDF Le -> CLA* INS P1 P2 Lc* [87 L 02 Y] [97 L Le] 8E 08 T Le*;  returns (apdu, regions),
    or (None, len(CDF*)) when CDF* = DO87 || DO97 || DO8E does not fit into the extended Lc* (2 octets)"""
    iv = ctr.to_bytes(16, "little")
    h = bytes([hdr[0] | 4]) + hdr[1:4]
    tl87 = der_tl(0x87, len(cdf) + 1) if cdf else b""
    le = le_enc(len(cdf), rdf_len)
    do97 = der_tl(0x97, len(le)) + le if le else b""
    n = len(tl87) + (len(cdf) + 1 if cdf else 0) + len(do97) + 10
    if n > 65535:
        return None, n
    v87 = b"\x02" + BELT.cfb_encr(k2, iv, cdf) if cdf else b""
    T = BELT.mac(k1, h + tl87 + v87 + do97)
    if rdf_len == 0:
        lc, le2 = (bytes([n]) if n < 256 else b"\0" + n.to_bytes(2, "big")), b""
    elif n < 256 and rdf_len <= 256:
        lc, le2 = bytes([n]), b"\0"
    else:
        lc, le2 = b"\0" + n.to_bytes(2, "big"), b"\0\0"
    parts = [("hdr", h), ("lc", lc), ("do87tl", tl87), ("do87v", v87), ("do97", do97), ("mactl", b"\x8e\x08"), ("mac", T), ("le", le2)]
    return _join(parts)


def sm_resp_model(k1, k2, ctr, rdf, sw):
    iv = ctr.to_bytes(16, "little")
    tl87 = der_tl(0x87, len(rdf) + 1) if rdf else b""
    v87 = b"\x02" + BELT.cfb_encr(k2, iv, rdf) if rdf else b""
    T = BELT.mac(k1, tl87 + v87 + sw)
    return _join([("do87tl", tl87), ("do87v", v87), ("mactl", b"\x8e\x08"), ("mac", T), ("sw", sw)])


def _join(parts):
    out, regs = b"", {}
    for nm, b in parts:
        regs[nm] = (len(out), len(out) + len(b))
        out += b
    return out, regs


PROTECTED = {"hdr", "do87tl", "do87v", "do97", "mac", "sw"}      # MAC input + the MAC value; lc, mactl, le are outside the MAC input


class Side:
    def __init__(self, x, key):
        self.x = x
        self.st = x.out(x.call("btokSM_keep", ret="z"))
        x.call("btokSMStart", self.st, x.buf(key), ret="v")
        self.ctr = 0

    def inc(self, n=1):
        for _ in range(n):
            self.x.call("btokSMCtrInc", self.st, ret="v")
        self.ctr += n


def mk_cmd(x, hdr, rdf_len, cdf):
    b = x.out(x.call("x_apdu_cmd_size", len(cdf), ret="z"))
    x.call("x_apdu_cmd_set", b, int.from_bytes(hdr, "little"), rdf_len, x.buf(cdf) if cdf else None, len(cdf), ret="v")
    return b


def rd_cmd(x, b):
    o = x.out(20)
    x.call("x_apdu_cmd_head", o, b, ret="v")
    h = o.read()
    rdf_len, cdf_len = int.from_bytes(h[4:12], "little"), int.from_bytes(h[12:20], "little")
    if cdf_len > b.size:
        raise Fail("decoded cdf_len %d exceeds the announced structure size %d" % (cdf_len, b.size))
    d = x.out(cdf_len)
    x.call("x_apdu_cmd_cdf", d, b, cdf_len, ret="v")
    return (h[:4], rdf_len, d.read() if cdf_len else b"")


def mk_resp(x, sw, rdf):
    b = x.out(x.call("x_apdu_resp_size", len(rdf), ret="z"))
    x.call("x_apdu_resp_set", b, int.from_bytes(sw, "little"), x.buf(rdf) if rdf else None, len(rdf), ret="v")
    return b


def rd_resp(x, b):
    o = x.out(10)
    x.call("x_apdu_resp_head", o, b, ret="v")
    h = o.read()
    n = int.from_bytes(h[2:10], "little")
    if n > b.size:
        raise Fail("decoded rdf_len %d exceeds the announced structure size %d" % (n, b.size))
    d = x.out(n)
    x.call("x_apdu_resp_rdf", d, b, n, ret="v")
    return (h[:2], d.read() if n else b"")


def sm_wrap(x, kind, obj, state):
    """probe then real Cmd/RespWrap; returns (probe code, probe count, real code, apdu or None)"""
    fn = "btokSMCmdWrap" if kind == "cmd" else "btokSMRespWrap"
    cnt = x.zero(8)
    r0 = x.call(fn, None, cnt, obj, state)
    if r0:
        return r0, None, r0, None
    n = cnt.int()
    o = x.out(n)
    cnt2 = x.zero(8)
    r = x.call(fn, o, cnt2, obj, state)
    if r == 0 and cnt2.int() != n:
        raise Fail("%s: length query says %d, real call %d" % (fn, n, cnt2.int()))
    return 0, n, r, (o.read() if r == 0 else None)


def sm_unwrap(x, kind, apdu, state):
    """probe then real Cmd/RespUnwrap into a structure of exactly the announced size; returns (probe code, real code, decoded or None)"""
    fn = "btokSMCmdUnwrap" if kind == "cmd" else "btokSMRespUnwrap"
    A = x.buf(apdu)
    sz = x.zero(8)
    r0 = x.call(fn, None, sz, A, len(apdu), state)
    n = sz.int() if r0 == 0 else x.call("x_apdu_cmd_size" if kind == "cmd" else "x_apdu_resp_size", 0, ret="z")
    o = x.out(n)
    sz2 = x.zero(8)
    r = x.call(fn, o, sz2, A, len(apdu), state)
    if r0 and r == 0:
        raise Fail("%s: format check (null output) fails with %s but the real call returns OK on %s" % (fn, ename(r0), apdu.hex()[:200]))
    if r == 0 and sz2.int() != n:
        raise Fail("%s: size query says %d, real call %d on %s" % (fn, n, sz2.int(), apdu.hex()[:200]))
    dec = None
    if r == 0:
        dec = rd_cmd(x, o) if kind == "cmd" else rd_resp(x, o)
    return r0, r, dec


def run_sm(ctx, c):
    x = ctx.x
    key = expand(c["key"], 32)
    k1, k2 = sm_keys(key)
    T, C = Side(x, key), Side(x, key)        # terminal: wraps commands / unwraps responses; token: the reverse
    sig = []
    nmsg = 0
    desync = altered = False
    for i, op in enumerate(c["ops"]):
        kind = op["k"]
        seed = c["key"] + "%02x" % i
        if kind == "skip":
            T.inc(op["skip"]); C.inc(op["skip"])
            sig.append(("skip", op["skip"]))
            continue
        hdr = bytes([op["cla"]]) + expand(seed + "h", 3)
        cdf = expand(seed + "d", op["n"])
        le = op["le"]
        sw = expand(seed + "s", 2)
        if kind == "plain":
            run_plain(x, hdr, cdf, le, sw, T if op["pw"] else None)
            sig.append(("plain", hdr[0] & 4, len(lc_enc(len(cdf), le)), len(le_enc(len(cdf), le))))
            ctx.cls("plain")
            continue
        W, U = (T, C) if kind == "cmd" else (C, T)
        # both sides move to the common counter value, then the wrapper increments (at least once) to the wanted parity
        m = max(W.ctr, U.ctr)
        W.inc(m - W.ctr); U.inc(m - U.ctr)
        right = 1 if kind == "cmd" else 0
        W.inc()
        if (W.ctr % 2 == right) != op["pw"]:
            W.inc()
        obj = mk_cmd(x, hdr, le, cdf) if kind == "cmd" else mk_resp(x, sw, cdf)
        orig = (hdr, le, cdf) if kind == "cmd" else (sw, cdf)
        r0, n, r, apdu = sm_wrap(x, kind, obj, W.st)
        desc = "%s #%d cla=%02x cdf/rdf=%d le=%d wrapper ctr=%d" % (kind, i, hdr[0], len(cdf), le, W.ctr)
        if kind == "cmd" and hdr[0] & 4:
            # \expect{ERR_BAD_APDU}: the command is already marked as protected
            r = x.call("btokSMCmdWrap", x.out(len(cdf) + 64), x.zero(8), obj, W.st)
            if r0 == 0 or r == 0:
                raise Fail("btokSMCmdWrap protects a command whose cla already has bit 0x04: probe %s real %s (%s)" % (ename(r0), ename(r), desc))
            ctx.cls("cmd_cla4")
            sig.append(("cla4",))
            continue
        model, regs = sm_cmd_model(k1, k2, W.ctr, hdr, cdf, le) if kind == "cmd" else sm_resp_model(k1, k2, W.ctr, cdf, sw)
        if model is None:
            # the protected data field CDF* = DO87 || DO97 || DO8E is longer than 65535 octets (cdf_len >= 65521, or >= 65517 with Le):
            # it cannot be announced by Lc*, the command is not accepted for protection: ERR_BAD_APDU from the length query and the
            # real call alike, at either parity (btok_sm.c; before the repair Lc* was written mod 65536 and ERR_OK returned)
            r = x.call("btokSMCmdWrap", x.out(len(cdf) + 64), x.zero(8), obj, W.st)
            if r0 != E["ERR_BAD_APDU"] or r != E["ERR_BAD_APDU"]:
                raise Fail("btokSMCmdWrap on a command whose protected data field has %d > 65535 octets: length query %s, real call %s, expected ERR_BAD_APDU (%s)" %
                           (regs, ename(r0), ename(r), desc))
            ctx.cls("cmd_cdfstar_gt_65535")
            ctx.nontrivial("sm_toolong", len(cdf), le != 0, W.ctr % 2)
            sig.append(("toolong",))
            continue
        if r0 or n != len(model):
            raise Fail("Wrap length query: %s, %s octets; model %d (%s)" % (ename(r0), n, len(model), desc))
        if not op["pw"]:
            if r != E["ERR_BAD_LOGIC"]:
                raise Fail("Wrap at a counter of the wrong parity returns %s, expected ERR_BAD_LOGIC (%s)" % (ename(r), desc))
            ctx.cls(kind + "_wrap_badparity")
            sig.append((kind, "wpar"))
            desync = True
            continue
        if r:
            raise Fail("Wrap at the right parity fails: %s (%s)" % (ename(r), desc))
        if apdu != model:
            raise Fail("protected %s differs from the model of the btok_sm.c layout (%s):\n lib   %s\n model %s" % (kind, desc, apdu.hex()[:400], model.hex()[:400]))
        nmsg += 1
        # receiver position
        alt = op["alt"]
        pu = op["pu"]
        if alt is not None and pu not in ("step", "par"):
            pu = "step"
        if pu == "step":
            U.inc(W.ctr - U.ctr)
        elif pu == "par":
            U.inc(W.ctr + 1 - U.ctr)
        elif pu == "ahead":
            U.inc(W.ctr + 2 - U.ctr)
        in_par = U.ctr % 2 == right
        in_step = U.ctr == W.ctr
        if not in_step:
            desync = True
        region = None
        if alt is not None:
            region = alt["reg"] if alt["reg"] in regs and regs[alt["reg"]][1] > regs[alt["reg"]][0] else None
            if region is None:
                pos = alt["pos"] % len(apdu)
                region = [k for k, (a, b) in regs.items() if a <= pos < b][0]
            else:
                a, b = regs[region]
                pos = a + alt["pos"] % (b - a)
            new = bytearray(apdu)
            new[pos] ^= alt["mask"]
            new = bytes(new)
            altered = True
            p0, rr, dec = sm_unwrap(x, kind, new, U.st)
            adesc = "%s; octet %d (%02x, region %s) ^ %02x, receiver ctr=%d" % (desc, pos, apdu[pos], region, alt["mask"], U.ctr)
            if not in_par and rr == 0:
                raise Fail("Unwrap at a counter of the wrong parity returns OK on an altered %s (%s)" % (kind, adesc))
            if region in PROTECTED:
                if rr == 0:
                    raise Fail("Unwrap accepts a %s with an altered protected octet (%s): decoded %s" % (kind, adesc, dec))
            elif rr == 0 and dec != orig:
                raise Fail("Unwrap returns OK with a different %s after altering an unprotected octet (%s): %s vs %s" % (kind, adesc, dec, orig))
            ctx.cls("%s_alt_%s" % (kind, region), "%s_alt_%s_%s" % (kind, "prot" if region in PROTECTED else "unprot", "ok" if rr == 0 else ename(rr)))
        # the unaltered protected object (also after a refused altered one: a refusal must leave the state usable)
        p0, rr, dec = sm_unwrap(x, kind, apdu, U.st)
        udesc = "%s; receiver ctr=%d" % (desc, U.ctr)
        if p0:
            raise Fail("Unwrap format check (null output) rejects a freshly protected %s: %s (%s)" % (kind, ename(p0), udesc))
        if not in_par:
            if rr != E["ERR_BAD_LOGIC"]:
                raise Fail("Unwrap at a counter of the wrong parity returns %s, expected ERR_BAD_LOGIC (%s)" % (ename(rr), udesc))
        elif in_step:
            if rr or dec != orig:
                raise Fail("Unwrap in step returns %s / %s, wrapped %s (%s)" % (ename(rr), dec, orig, udesc))
        else:
            # same parity, other counter: the MAC does not cover the counter; the data are decrypted with the receiver's counter
            Y = apdu[regs["do87v"][0] + 1:regs["do87v"][1]]
            pt = BELT.cfb_decr(k2, U.ctr.to_bytes(16, "little"), Y) if Y else b""
            want = (hdr, le, pt) if kind == "cmd" else (sw, pt)
            if rr or dec != want:
                raise Fail("Unwrap out of step (same parity) returns %s / %s, expected OK with the data decrypted under the receiver's counter %s (%s)" % (ename(rr), dec, want, udesc))
        # a protected object must not be decodable as an unprotected one and vice versa (commands: bit 0x04)
        if kind == "cmd":
            r = x.call("btokSMCmdUnwrap", None, None, x.buf(apdu), len(apdu), None)
            if r == 0:
                raise Fail("btokSMCmdUnwrap without state accepts a protected command (cla bit 0x04 set)")
        lcf = regs["lc"][1] - regs["lc"][0] if kind == "cmd" else 0
        lef = regs["le"][1] - regs["le"][0] if kind == "cmd" else 0
        cl = "step" if in_step else ("badparity" if not in_par else "desync")
        ctx.cls("%s_%s" % (kind, cl), "%s_lc%d_le%d" % (kind, lcf, lef))
        sig.append((kind, lcf, lef, len(der_tl(0x87, len(cdf) + 1)) if cdf else 0, cl, region))
    if altered or (nmsg >= 2 and desync) or any(s[0] == "skip" for s in sig):
        ctx.nontrivial("sm", tuple(sig))
    ctx.sample(c)


def run_plain(x, hdr, cdf, le, sw, state_for_neg):
    """state == 0: encoding only; commands/responses come back unchanged, bit 0x04 is refused on decoding"""
    obj = mk_cmd(x, hdr, le, cdf)
    r0, n, r, apdu = sm_wrap(x, "cmd", obj, None)
    want = hdr + lc_enc(len(cdf), le) + cdf + le_enc(len(cdf), le)
    if r0 or r or apdu != want:
        raise Fail("btokSMCmdWrap without state: %s/%s, code %s, expected %s" % (ename(r0), ename(r), apdu.hex()[:200] if apdu else None, want.hex()[:200]))
    p0, rr, dec = sm_unwrap(x, "cmd", apdu, None)
    if hdr[0] & 4:
        if rr == 0 or p0 == 0:
            raise Fail("btokSMCmdUnwrap without state accepts a command with cla bit 0x04")
    elif rr or dec != (hdr, le, cdf):
        raise Fail("btokSMCmdUnwrap without state: %s, %s vs %s" % (ename(rr), dec, (hdr, le, cdf)))
    if state_for_neg is not None and not hdr[0] & 4:
        p0, rr, dec = sm_unwrap(x, "cmd", apdu, state_for_neg.st)
        if rr == 0:
            raise Fail("btokSMCmdUnwrap with a state accepts an unprotected command (cla bit 0x04 clear): %s" % apdu.hex()[:100])
    obj = mk_resp(x, sw, cdf)
    r0, n, r, apdu = sm_wrap(x, "resp", obj, None)
    if r0 or r or apdu != cdf + sw:
        raise Fail("btokSMRespWrap without state: %s/%s %s" % (ename(r0), ename(r), apdu.hex()[:200] if apdu else None))
    p0, rr, dec = sm_unwrap(x, "resp", apdu, None)
    if rr or dec != (sw, cdf):
        raise Fail("btokSMRespUnwrap without state: %s, %s" % (ename(rr), dec))


def run_sm_limit(ctx, c):
    """largest data fields: the lengths that still fit into Lc* round-trip, the lengths that do not are refused (one command through run_sm)"""
    run_sm(ctx, {"key": c["key"], "ops": [{"k": "cmd", "cla": c["cla"], "n": c["n"], "le": c["le"], "pw": c["pw"], "pu": c["pu"], "alt": c["alt"], "skip": 2}]})
    ctx.cls("n%d_le%s" % (c["n"], "0" if c["le"] == 0 else "+"))


S_SM_LIMIT = st.fixed_dictionaries({
    "key": st.binary(min_size=1, max_size=2).map(bytes.hex), "cla": st.sampled_from([0x00, 0x80, 0xFB]),
    "n": st.sampled_from([65521, 65520, 65517, 65516, 65521, 65520, 65517, 65516, 65510, 65515, 65518, 65519, 65522, 65534, 65535]),
    "le": st.sampled_from([0, 0, 1, 256, 257, 65536]), "pw": st.sampled_from([True, True, True, False]), "pu": st.sampled_from(["step", "step", "par", "ahead"]),
    "alt": st.one_of(st.none(), st.none(), st.fixed_dictionaries({"reg": st.sampled_from(["lc", "do87tl", "do87v", "mac", "le", "hdr"]), "pos": st.integers(0, 70000), "mask": st.integers(1, 255)}))})


def sm_strategy(tier):
    small = [0, 0, 1, 15, 16, 17, 126, 127, 128, 129] + list(range(232, 248)) + [253, 254, 255, 256, 257, 299, 300]
    # thorough: the largest data fields (the model costs ~1 s per 64K message, hence the low weight)
    big = [65516, 65517, 65520, 65535] if tier == "thorough" else []
    CDF = st.one_of(st.sampled_from(small * (4 if big else 1) + big), st.integers(0, 300))
    LE = st.one_of(st.sampled_from([0, 0, 0, 1, 255, 256, 257, 65535, 65536]), st.integers(0, 65536))
    ALT = st.fixed_dictionaries({"reg": st.sampled_from(["any", "any", "hdr", "lc", "do87tl", "do87v", "do97", "mactl", "mac", "le", "sw"]), "pos": st.integers(0, 400), "mask": st.integers(1, 255)})
    OP = st.fixed_dictionaries({
        "k": st.sampled_from(["cmd", "cmd", "cmd", "resp", "resp", "plain", "skip"]), "cla": st.sampled_from([0x00, 0x00, 0x00, 0x80, 0x0B, 0xFB, 0x03, 0x08, 0x10, 0xA3, 0x04, 0xFF]),
        "n": CDF, "le": LE, "pw": st.sampled_from([True, True, True, True, False]), "pu": st.sampled_from(["step", "step", "step", "step", "par", "ahead", "stay"]),
        "alt": st.one_of(st.none(), ALT), "skip": st.sampled_from([2, 4, 254, 256])})
    return st.fixed_dictionaries({"key": st.binary(min_size=1, max_size=4).map(bytes.hex), "ops": st.lists(OP, min_size=1, max_size=6)})


# ------------------------------------------------------------------ containers
def run_cont(ctx, c):
    x = ctx.x
    seed = c["seed"]
    kind = c["kind"]
    if kind == "priv":
        kl = [24, 32, 48, 64][c["len"] % 4]
        secret = privkey(kl, "rnd", seed + "k")
        W, U = "bpkiPrivkeyWrap", "bpkiPrivkeyUnwrap"
    else:
        kl = [17, 25, 33][c["len"] % 3]
        secret = bytes([1 + c["num"] % 16]) + expand(seed + "k", kl - 1)
        W, U = "bpkiShareWrap", "bpkiShareUnwrap"
    pwd = expand(seed + "p", c["plen"])
    salt = expand(seed + "s", 8)
    it = [10000, 10000, 10001, 32767, 32768, 65536][(c["num"] + c["len"]) % 6]      # the iteration count is a DER INTEGER of 2 or 3 octets inside the container
    S, PW, SALT = x.buf(secret), x.buf(pwd), x.buf(salt)
    if x.call(W, None, x.zero(8), S, kl, PW, len(pwd), SALT, 9999) == 0:
        raise Fail("%s accepts iter = 9999 (documented minimum 10000)" % W)
    ln = x.zero(8)
    r = x.call(W, None, ln, None, kl, None, 0, None, it)
    if r:
        raise Fail("%s length query fails: %s" % (W, ename(r)))
    n = ln.int()
    ep = x.out(n)
    ln2 = x.zero(8)
    r = x.call(W, ep, ln2, S, kl, PW, len(pwd), SALT, it)
    if r or ln2.int() != n:
        raise Fail("%s: %s, length %d vs query %d (len=%d pwd_len=%d)" % (W, ename(r), ln2.int(), n, kl, len(pwd)))
    epki = ep.read()

    def unw(cont, pw, probe=False):
        kn = x.zero(8)
        o = None if probe else x.out(kl)
        r = x.call(U, o, kn, x.buf(cont), len(cont), x.buf(pw), len(pw))
        return r, kn.int(), (o.read() if o is not None and r == 0 else None)
    r, n1, got = unw(epki, pwd)
    if r or n1 != kl or got != secret:
        raise Fail("%s with the right password: %s, length %d, secret equal %s (len=%d pwd_len=%d)" % (U, ename(r), n1, got == secret, kl, len(pwd)))
    if c["probe"]:
        r, n1, _ = unw(epki, pwd, probe=True)
        if r or n1 != kl:
            raise Fail("%s length query: %s, %d (expected %d)" % (U, ename(r), n1, kl))
    # wrong password
    wc = c["wrong"]
    if wc == "bit" and pwd:
        b = bytearray(pwd); b[(c["bit"] // 8) % len(pwd)] ^= 1 << (c["bit"] % 8); wp = bytes(b)
    elif wc == "trunc" and pwd and pwd[-1]:
        wp = pwd[:-1]
    elif wc == "trunc" and pwd:
        b = bytearray(pwd); b[-1] ^= 1 << (c["bit"] % 8); wp, wc = bytes(b), "bit"
    else:
        # hmac-hbelt pads a short key with zero octets: passwords that differ in trailing zero octets only are the same PBKDF2 secret,
        # so the appended / removed octet is non-zero
        wp, wc = pwd + bytes([1 + c["bit"] % 255]), "extend"
    r, _, got = unw(epki, wp)
    if r == 0:
        raise Fail("%s returns OK with a wrong password (%s; pwd %s vs %s), secret equal %s" % (U, wc, wp.hex(), pwd.hex(), got == secret))
    # altered octet
    pos = c["pos"] % len(epki)
    new = bytearray(epki); new[pos] ^= c["mask"]; new = bytes(new)
    r, _, got = unw(new, pwd)
    if r == 0:
        raise Fail("%s accepts a container with octet %d (%02x) ^ %02x (len=%d, container %d octets); secret equal %s" % (U, pos, epki[pos], c["mask"], kl, len(epki), got == secret))
    ctx.cls(kind + "%d" % kl, "wrong_" + wc, "alt_" + ename(r))
    ctx.nontrivial("cont", kind, kl, wc, pos * 16 // len(epki), min(len(pwd), 3))
    ctx.sample(c)


S_CONT = st.fixed_dictionaries({
    "seed": st.binary(min_size=1, max_size=4).map(bytes.hex), "kind": st.sampled_from(["priv", "share"]), "len": st.integers(0, 11), "num": st.integers(0, 15),
    "plen": st.sampled_from([0, 1, 6, 8, 16, 31, 32, 33, 64, 65, 100]), "wrong": st.sampled_from(["bit", "bit", "trunc", "extend"]), "bit": st.integers(0, 1023),
    "pos": st.integers(0, 400), "mask": st.integers(1, 255), "probe": st.booleans()})


def tests(tier):
    return [
        Test("cvc", S_CVC, run_cvc, {"quick": 800, "thorough": 8000}, CFG),
        Test("cvc_content", S_CONTENT, run_content, {"quick": 800, "thorough": 8000}, CFG),
        Test("sm", sm_strategy(tier), run_sm, {"quick": 4000, "thorough": 40000}, CFG),
        Test("sm_limit", S_SM_LIMIT, run_sm_limit, {"quick": 48, "thorough": 320}, CFG, shards=8),
        Test("cont", S_CONT, run_cont, {"quick": 96, "thorough": 640}, CFG, shards=8),
    ]
