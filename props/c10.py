"""C10: chunking / get-then-continue / state relocation do not change results.
Oracle: the one-shot high-level function on the concatenated data (itself checked against the reference model in C01/C03)."""
import os
from harness import Test, Fail, st, GEN
from gens import expand

RULE = ("stateful cases: bundle x key x message (0..5 internal blocks + ragged) x partition into 1..6 fragments with cuts biased to buffer-fill boundaries "
        "(incl. empty fragments, restricted as each header demands) x actions between steps (Get/Get2/Verify, relocation of the state with the old copy scribbled and freed). "
        "non-trivial: a cut strictly inside an internal block, or a Get followed by more data, or a relocation followed by more data; distinct by (bundle, len class, cut residues, action kinds)")
LEVEL = "exploration"
ASSUMPTIONS = ["one-shot functions are the oracle; their own correctness is C01/C03", "relocation is asserted only for bundles whose header declares the state copyable (belt.h, brng.h, botp.h)"]
BUDGET = {"quick": 200, "thorough": 2400}
CFG = tuple(os.environ.get("VERIF_CFG", "asan").split(","))


class St:
    """a library state of exactly keep octets that can be relocated"""

    def __init__(self, x, keep, ctx):
        self.x, self.keep, self.ctx = x, keep, ctx
        self.b = x.out(keep)
        self.moved = 0

    def reloc(self):
        x = self.x
        nb = x.clone(self.b)        # "the state can be copied as a memory fragment"
        x.write(self.b, b"\xA5" * self.keep)
        x.free(self.b)
        self.b = nb
        self.moved += 1


def cuts_strategy():
    return st.lists(st.tuples(st.integers(0, 12), st.sampled_from([-1, 0, 0, 1, 2, 7, 8, 15])), max_size=5)


def split(n, cuts, block, rule):
    """cut positions from (block index, delta) pairs, honouring the fragment rule of the bundle"""
    pos = set()
    for k, d in cuts:
        p = k * block + d
        if rule == "blocks16":           # ECB/CBC: every fragment but the last whole blocks; each >= 16
            p = (p // 16) * 16
            if p < 16 or n - p < 16:
                continue
        elif rule == "whole16":          # BDE
            p = (p // 16) * 16
        if 0 <= p <= n:
            pos.add(p)
    ps = sorted(pos)
    frags = []
    last = 0
    for p in ps:
        frags.append((last, p))
        last = p
    frags.append((last, n))
    return frags


def nontriv(ctx, bundle, n, frags, block, acts):
    inner = any(a % block for a, b in frags[1:])
    kinds = sorted({a for a in acts if a})
    if (len(frags) > 1 and inner) or kinds:
        ctx.nontrivial(bundle, min(n // block, 5), n % block != 0, tuple(sorted({a % block for a, b in frags[1:]}))[:4], tuple(kinds))
    ctx.cls(bundle, "frags%d" % min(len(frags), 4), *["act_" + k for k in kinds])


# ------------------------------------------------------------------ ciphers
CIPH = {
    # name: (keep, start(needs iv), stepE, stepD, oneshotE, oneshotD, rule, minlen)
    "ECB": ("beltECB_keep", False, "beltECBStepE", "beltECBStepD", "beltECBEncr", "beltECBDecr", "blocks16", 16),
    "CBC": ("beltCBC_keep", True, "beltCBCStepE", "beltCBCStepD", "beltCBCEncr", "beltCBCDecr", "blocks16", 16),
    "CFB": ("beltCFB_keep", True, "beltCFBStepE", "beltCFBStepD", "beltCFBEncr", "beltCFBDecr", "any", 0),
    "CTR": ("beltCTR_keep", True, "beltCTRStepE", "beltCTRStepE", "beltCTR", "beltCTR", "any", 0),
    "BDE": ("beltBDE_keep", True, "beltBDEStepE", "beltBDEStepD", "beltBDEEncr", "beltBDEDecr", "whole16", 16),
}


def run_cipher(ctx, c):
    x = ctx.x
    name = c["bundle"]
    keepf, hasiv, stepE, stepD, oneE, oneD, rule, minlen = CIPH[name]
    n = max(c["n"], minlen)
    if rule == "whole16":
        n = max(16, (n // 16) * 16)
    key = bytes.fromhex(c["key"])
    iv = expand(c["seed"] + "01", 16)
    msg = expand(c["seed"], n)
    frags = split(n, c["cuts"], 16, rule)
    acts = c["acts"]
    K = x.buf(key); IV = x.buf(iv)
    for direction, step, one in (("E", stepE, oneE), ("D", stepD, oneD)):
        src = x.buf(msg); dst = x.out(n)
        args = [dst, src, n, K, len(key)] + ([IV] if hasiv else [])
        err = x.call(one, *args)
        if err != 0:
            raise Fail("%s one-shot returned %d" % (one, err))
        exp = dst.read()
        S = St(x, x.call(keepf, ret="z"), ctx)
        startf = "belt%sStart" % name
        if hasiv:
            x.call(startf, S.b, K, len(key), IV, ret="v")
        else:
            x.call(startf, S.b, K, len(key), ret="v")
        out = b""
        for i, (a, b) in enumerate(frags):
            if i < len(acts) and acts[i] == "reloc":
                S.reloc()
            fb = x.buf(msg[a:b])
            x.call(step, fb, b - a, S.b, ret="v")
            out += fb.read()
            x.free(fb)
        if out != exp:
            raise Fail("%s chunked %s != one-shot: frags=%s got=%s exp=%s" % (name, direction, frags, out.hex()[:96], exp.hex()[:96]))
    nontriv(ctx, name, n, frags, 16, acts[:len(frags)])
    ctx.sample(c)


S_CIPHER = st.fixed_dictionaries({
    "bundle": st.sampled_from(sorted(CIPH)), "key": st.sampled_from([16, 24, 32]).flatmap(lambda k: st.binary(min_size=k, max_size=k)).map(bytes.hex),
    "seed": st.binary(min_size=1, max_size=4).map(bytes.hex), "n": st.one_of(st.sampled_from([0, 1, 15, 16, 17, 31, 32, 33, 47, 48, 49, 63, 64, 65, 80, 81]), st.integers(0, 100)),
    "cuts": cuts_strategy(), "acts": st.lists(st.sampled_from(["", "", "reloc"]), max_size=6)})


# ------------------------------------------------------------------ MAC-like (absorb / get / verify)
MACS = {
    # name: keep, start kind, stepA, G, G2, V, V2, one-shot, taglen, block
    "MAC": ("beltMAC_keep", "key", "beltMACStepA", "beltMACStepG", "beltMACStepG2", "beltMACStepV", "beltMACStepV2", "beltMAC", 8, 16),
    "Hash": ("beltHash_keep", "none", "beltHashStepH", "beltHashStepG", "beltHashStepG2", "beltHashStepV", "beltHashStepV2", "beltHash", 32, 32),
    "HMAC": ("beltHMAC_keep", "key*", "beltHMACStepA", "beltHMACStepG", "beltHMACStepG2", "beltHMACStepV", "beltHMACStepV2", "beltHMAC", 32, 32),
}


def run_mac(ctx, c):
    x = ctx.x
    name = c["bundle"]
    keepf, skind, stepA, G, G2, V, V2, one, tlen, block = MACS[name]
    n = c["n"]
    key = bytes.fromhex(c["key"]) if skind == "key" else expand(c["seed"] + "02", c["klen"])
    msg = expand(c["seed"], n)
    frags = split(n, c["cuts"], block, "any")
    acts = c["acts"]
    K = x.buf(key)

    def oneshot(data):
        out = x.out(tlen)
        src = x.buf(data)
        if skind == "none":
            err = x.call(one, out, src, len(data))
        else:
            err = x.call(one, out, src, len(data), K, len(key))
        if err:
            raise Fail("%s one-shot returned %d" % (one, err))
        r = out.read()
        x.free(out); x.free(src)
        return r
    S = St(x, x.call(keepf, ret="z"), ctx)
    if skind == "none":
        x.call("belt%sStart" % name, S.b, ret="v")
    else:
        x.call("belt%sStart" % name, S.b, K, len(key), ret="v")
    done = 0
    used = []
    for i, (a, b) in enumerate(frags + [(n, n)]):
        act = acts[i] if i < len(acts) else ""
        final = i == len(frags)
        if final and not act:
            act = "get"
        if act == "reloc":
            S.reloc()
        elif act in ("get", "get2", "ver", "ver2", "verbad"):
            exp = oneshot(msg[:done])
            tl = 1 + c["tl"] % tlen
            if act == "get":
                o = x.out(tlen); x.call(G, o, S.b, ret="v"); got = o.read(); want = exp
            elif act == "get2":
                o = x.out(tl); x.call(G2, o, tl, S.b, ret="v"); got = o.read(); want = exp[:tl]
            elif act == "ver":
                got = x.call(V, x.buf(exp), S.b); want = 1
            elif act == "ver2":
                got = x.call(V2, x.buf(exp[:tl]), tl, S.b); want = 1
            else:
                bad = bytearray(exp); bad[c["tl"] % tlen] ^= 1 << (c["tl"] % 8)
                got = x.call(V, x.buf(bytes(bad)), S.b); want = 0
            if got != want:
                raise Fail("%s %s after %d octets (frags %s): got %s want %s" % (name, act, done, frags, got.hex() if isinstance(got, bytes) else got, want.hex() if isinstance(want, bytes) else want))
        if act:
            used.append(act)
        if not final:
            fb = x.buf(msg[a:b])
            x.call(stepA, fb, b - a, S.b, ret="v")
            x.free(fb)
            done = b
    nontriv(ctx, name, n, frags, block, used[:-1] if used and used[-1] == "get" and len(acts) <= len(frags) else used)
    ctx.sample(c)


S_MAC = st.fixed_dictionaries({
    "bundle": st.sampled_from(sorted(MACS)), "key": st.sampled_from([16, 24, 32]).flatmap(lambda k: st.binary(min_size=k, max_size=k)).map(bytes.hex),
    "klen": st.sampled_from([0, 1, 31, 32, 33, 64, 65, 100]), "seed": st.binary(min_size=1, max_size=4).map(bytes.hex),
    "n": st.one_of(st.sampled_from([0, 1, 15, 16, 17, 31, 32, 33, 47, 48, 63, 64, 65, 95, 96, 97, 128]), st.integers(0, 170)),
    "cuts": cuts_strategy(), "acts": st.lists(st.sampled_from(["", "", "reloc", "get", "get2", "ver", "ver2", "verbad"]), max_size=7), "tl": st.integers(0, 255)})


# ------------------------------------------------------------------ AEAD: DWP / CHE
def run_aead(ctx, c):
    x = ctx.x
    name = c["bundle"]
    key = bytes.fromhex(c["key"])
    iv = expand(c["seed"] + "01", 16)
    n1, n2 = c["n1"], c["n2"]
    pt = expand(c["seed"], n1)
    ad = expand(c["seed"] + "03", n2)
    K = x.buf(key); IV = x.buf(iv)
    dst = x.out(n1); mac = x.out(8)
    err = x.call("belt%sWrap" % name, dst, mac, x.buf(pt), n1, x.buf(ad), n2, K, len(key), IV)
    if err:
        raise Fail("Wrap returned %d" % err)
    ct, tag = dst.read(), mac.read()
    f1 = split(n1, c["cuts1"], 16, "any")
    f2 = split(n2, c["cuts2"], 16, "any")
    acts = list(c["acts"])

    def act():
        if acts and acts.pop(0) == "reloc":
            S.reloc()
            return True
        return False
    rel = 0
    # protect
    S = St(x, x.call("belt%s_keep" % name, ret="z"), ctx)
    x.call("belt%sStart" % name, S.b, K, len(key), IV, ret="v")
    for a, b in f2:
        rel += act()
        x.call("belt%sStepI" % name, x.buf(ad[a:b]), b - a, S.b, ret="v")
    out = b""
    for a, b in f1:
        rel += act()
        fb = x.buf(pt[a:b]); x.call("belt%sStepE" % name, fb, b - a, S.b, ret="v"); out += fb.read()
    for a, b in f1:
        rel += act()
        x.call("belt%sStepA" % name, x.buf(out[a:b]), b - a, S.b, ret="v")
    rel += act()
    o = x.out(8); x.call("belt%sStepG" % name, o, S.b, ret="v")
    if out != ct or o.read() != tag:
        raise Fail("%s chunked protect != Wrap (f1=%s f2=%s): ct %s/%s tag %s/%s" % (name, f1, f2, out.hex()[:64], ct.hex()[:64], o.read().hex(), tag.hex()))
    # unprotect
    S = St(x, x.call("belt%s_keep" % name, ret="z"), ctx)
    x.call("belt%sStart" % name, S.b, K, len(key), IV, ret="v")
    for a, b in f2:
        rel += act()
        x.call("belt%sStepI" % name, x.buf(ad[a:b]), b - a, S.b, ret="v")
    for a, b in f1:
        rel += act()
        x.call("belt%sStepA" % name, x.buf(ct[a:b]), b - a, S.b, ret="v")
    rel += act()
    if c["badtag"]:
        bad = bytearray(tag); bad[c["badtag"] % 8] ^= 0x80
        if x.call("belt%sStepV" % name, x.buf(bytes(bad)), S.b) != 0:
            raise Fail("%s StepV accepted an altered tag" % name)
    else:
        if x.call("belt%sStepV" % name, x.buf(tag), S.b) != 1:
            raise Fail("%s StepV rejected the right tag (f1=%s f2=%s)" % (name, f1, f2))
        out = b""
        for a, b in f1:
            rel += act()
            fb = x.buf(ct[a:b]); x.call("belt%sStepD" % name, fb, b - a, S.b, ret="v"); out += fb.read()
        if out != pt:
            raise Fail("%s chunked StepD != plaintext (f1=%s)" % (name, f1))
    nontriv(ctx, name, n1, f1, 16, ["reloc"] if rel else [])
    if len(f2) > 1 and any(a % 16 for a, b in f2[1:]):
        ctx.nontrivial(name, "ad", n2 % 16, tuple(sorted({a % 16 for a, b in f2[1:]})))
    ctx.sample(c)


S_AEAD = st.fixed_dictionaries({
    "bundle": st.sampled_from(["DWP", "CHE"]), "key": st.sampled_from([16, 24, 32]).flatmap(lambda k: st.binary(min_size=k, max_size=k)).map(bytes.hex),
    "seed": st.binary(min_size=1, max_size=4).map(bytes.hex),
    "n1": st.one_of(st.sampled_from([0, 1, 15, 16, 17, 31, 32, 33, 48, 64, 65]), st.integers(0, 90)),
    "n2": st.one_of(st.sampled_from([0, 1, 15, 16, 17, 31, 32, 33, 48]), st.integers(0, 70)),
    "cuts1": cuts_strategy(), "cuts2": cuts_strategy(), "acts": st.lists(st.sampled_from(["", "", "reloc"]), max_size=16), "badtag": st.sampled_from([0, 0, 0, 1, 5, 8])})


# ------------------------------------------------------------------ SDE / WBL / KRP / FMT: relocation + repeated use
def run_misc(ctx, c):
    x = ctx.x
    key = bytes.fromhex(c["key"])
    K = x.buf(key)
    kind = c["kind"]
    rel = 0
    if kind == "SDE":
        S = St(x, x.call("beltSDE_keep", ret="z"), ctx)
        x.call("beltSDEStart", S.b, K, len(key), ret="v")
        for i, sec in enumerate(c["sectors"]):
            n = 32 + 16 * (sec % 5)
            data = expand(c["seed"] + "%02x" % i, n)
            iv = expand(c["seed"] + "aa%02x" % i, 16)
            ED = (("beltSDEStepE", "beltSDEEncr"), ("beltSDEStepD", "beltSDEDecr"))
            # which directions this sector is processed in, and in which order (runs of encryptions / decryptions only on one state)
            for stp, one in (ED, ED[:1], ED[1:], ED[::-1])[(sec >> 4) % 4]:
                if (sec >> 3) & 1:
                    S.reloc(); rel += 1
                d = x.out(n)
                if x.call(one, d, x.buf(data), n, K, len(key), x.buf(iv)):
                    raise Fail(one + " failed")
                fb = x.buf(data)
                x.call(stp, fb, n, x.buf(iv), S.b, ret="v")
                if fb.read() != d.read():
                    raise Fail("SDE sector %d %s != one-shot (relocations %d)" % (i, stp, rel))
    elif kind == "WBL":
        S = St(x, x.call("beltWBL_keep", ret="z"), ctx)
        x.call("beltWBLStart", S.b, K, len(key), ret="v")
        for i, sec in enumerate(c["sectors"]):
            n = 32 + (sec * 7) % 70
            data = expand(c["seed"] + "%02x" % i, n)
            if (sec >> 3) & 1:
                S.reloc(); rel += 1
            fb = x.buf(data)
            x.call("beltWBLStepE", fb, n, S.b, ret="v")
            # fresh state must give the same
            S2 = x.out(S.keep); x.call("beltWBLStart", S2, K, len(key), ret="v")
            f2 = x.buf(data); x.call("beltWBLStepE", f2, n, S2, ret="v")
            if fb.read() != f2.read():
                raise Fail("WBL StepE #%d on a reused/relocated state differs from a fresh state (n=%d)" % (i, n))
            if (sec >> 5) & 1:
                continue        # no decryption in between: the next sector is encrypted right after this one on the same state
            if (sec >> 4) & 1:
                S.reloc(); rel += 1
            x.call("beltWBLStepD", fb, n, S.b, ret="v")
            if fb.read() != data:
                raise Fail("WBL StepD(StepE(x)) != x on a reused/relocated state (n=%d)" % n)
            if (sec >> 2) & 1:
                # two decryptions in a row as well
                x.call("beltWBLStepD", fb, n, S.b, ret="v")
                f3 = x.buf(data); x.call("beltWBLStepD", f3, n, S2, ret="v")
                if fb.read() != f3.read():
                    raise Fail("WBL StepD #%d repeated on a reused state differs from a fresh state (n=%d)" % (i, n))
                continue
            # StepD2 on split buffers: buf1 = first n-16 octets, buf2 = last 16
            a = x.buf(f2.read()[:n - 16]); b = x.buf(f2.read()[n - 16:])
            x.call("beltWBLStepD2", a, b, n, S.b, ret="v")
            if a.read() + b.read() != data:
                raise Fail("WBL StepD2 != StepD (n=%d)" % n)
    elif kind == "KRP":
        S = St(x, x.call("beltKRP_keep", ret="z"), ctx)
        level = expand(c["seed"] + "bb", 12)
        x.call("beltKRPStart", S.b, K, len(key), x.buf(level), ret="v")
        for i, sec in enumerate(c["sectors"]):
            m = [16, 24, 32][sec % 3]
            if m > len(key):
                continue
            hdr = expand(c["seed"] + "cc%02x" % i, 16)
            if (sec >> 3) & 1:
                S.reloc(); rel += 1
            o = x.out(m); x.call("beltKRPStepG", o, m, x.buf(hdr), S.b, ret="v")
            o2 = x.out(m)
            if x.call("beltKRP", o2, m, K, len(key), x.buf(level), x.buf(hdr)):
                raise Fail("beltKRP failed")
            if o.read() != o2.read():
                raise Fail("KRP StepG #%d != one-shot (m=%d, relocations %d)" % (i, m, rel))
    elif kind == "FMT":
        mod = c["mod"]
        cnt = c["count"]
        S = St(x, x.call("beltFMT_keep", mod, cnt, ret="z"), ctx)
        x.call("beltFMTStart", S.b, mod, cnt, K, len(key), ret="v")
        for i, sec in enumerate(c["sectors"][:3]):
            raw = expand(c["seed"] + "%02x" % i, 2 * cnt)
            syms = [int.from_bytes(raw[2 * j:2 * j + 2], "little") % mod for j in range(cnt)]
            data = b"".join(s.to_bytes(2, "little") for s in syms)
            iv = None if sec % 4 == 0 else x.buf(expand(c["seed"] + "dd%02x" % i, 16))
            if (sec >> 3) & 1:
                S.reloc(); rel += 1
            fb = x.buf(data)
            x.call("beltFMTStepE", fb, iv, S.b, ret="v")
            o = x.out(2 * cnt)
            if x.call("beltFMTEncr", o, mod, x.buf(data), cnt, K, len(key), iv):
                raise Fail("beltFMTEncr failed")
            if fb.read() != o.read():
                raise Fail("FMT StepE #%d != one-shot (mod=%d count=%d relocations %d)" % (i, mod, cnt, rel))
            if (sec >> 4) & 1:
                S.reloc(); rel += 1
            x.call("beltFMTStepD", fb, iv, S.b, ret="v")
            if fb.read() != data:
                raise Fail("FMT StepD(StepE(x)) != x (mod=%d count=%d)" % (mod, cnt))
    ctx.cls(kind, "reloc" if rel else "noreloc")
    if rel or len(c["sectors"]) > 1:
        ctx.nontrivial(kind, min(rel, 3), len(c["sectors"]), c.get("mod", 0) if kind == "FMT" else 0, c.get("count", 0) % 7 if kind == "FMT" else 0)
    ctx.sample(c)


S_MISC = st.fixed_dictionaries({
    "kind": st.sampled_from(["SDE", "WBL", "KRP", "FMT"]), "key": st.sampled_from([16, 24, 32]).flatmap(lambda k: st.binary(min_size=k, max_size=k)).map(bytes.hex),
    "seed": st.binary(min_size=1, max_size=4).map(bytes.hex), "sectors": st.lists(st.integers(0, 63), min_size=1, max_size=6),
    "mod": st.one_of(st.sampled_from([2, 3, 10, 16, 255, 256, 257, 1000, 49667, 65535, 65536]), st.integers(2, 65536)),
    "count": st.one_of(st.sampled_from([2, 3, 4, 5, 9, 10, 11, 20, 21, 50]), st.integers(2, 80))})


def tests(tier):
    from props import c10_more
    return [
        Test("cipher", S_CIPHER, run_cipher, {"quick": 15000, "thorough": 150000}, CFG),
        Test("mac", S_MAC, run_mac, {"quick": 15000, "thorough": 150000}, CFG),
        Test("aead", S_AEAD, run_aead, {"quick": 10000, "thorough": 100000}, CFG),
        Test("misc", S_MISC, run_misc, {"quick": 6000, "thorough": 60000}, CFG),
    ] + c10_more.tests(tier)
