"""C18: shared RNG, once-initialisation and atomic primitives under threads.
Native harness mt/mtx.c built with ThreadSanitizer; per-thread operation sequences and yield injections are generated from
VERIF_SEED.  Oracle: no ThreadSanitizer report (data race / mutex misuse) and the harness invariants (initialiser ran once and its
effects are visible, counters exact, reference count balanced, every request filled, no two requests share a generator block)."""
import hashlib, json, os, subprocess, sys, time
from concurrent.futures import ThreadPoolExecutor
from harness import VERIF, OUT
sys.path.insert(0, os.path.join(VERIF, "build"))
import build


def run_one(args, force=False):
    d, sc, t, seed, rounds = args
    if not force and STALLED.get(sc, 0) >= 3:
        return args, -8, "", "skipped"      # three runs of this scenario did not end: the rest of it is not paid for (reported as inconclusive)
    env = dict(os.environ, TSAN_OPTIONS="exitcode=66 halt_on_error=0 history_size=4 second_deadlock_stack=1")
    try:
        p = subprocess.run([os.path.join(d, "mtx"), sc, str(t), str(seed), str(rounds)], capture_output=True, text=True, errors="replace", env=env, timeout=TIMEOUT)
        return args, p.returncode, p.stdout, p.stderr
    except subprocess.TimeoutExpired as e:
        # a run that does not end (a fault-free run takes seconds): what ThreadSanitizer reported before the stall is kept - a data race is a violation
        # whether or not the process then comes to an end; a stall without a report stays inconclusive
        err = e.stderr.decode(errors="replace") if isinstance(e.stderr, bytes) else (e.stderr or "")
        STALLED[sc] = STALLED.get(sc, 0) + 1
        if "ThreadSanitizer" in err:
            return args, 66, "", err + "\n(the run did not end within %d s)" % TIMEOUT
        return args, -9, "", "timeout"


TIMEOUT = 60
STALLED = {}


def main(tier, seed, only=None):
    t0 = time.time()
    d = build.build("tsan")
    nseeds = 8 if tier == "quick" else 40
    rounds = {"once": 200, "atomic": 30, "rng": 25, "churn": 25, "onexit": 25} if tier == "quick" else {"once": 1000, "atomic": 100, "rng": 60, "churn": 60, "onexit": 100}
    jobs = []
    for sc in ("once", "atomic", "rng", "churn", "onexit"):
        if only and sc not in only:
            continue
        for t in ((2, 3, 4, 8) if sc == "churn" else (2, 3, 4, 8, 16)):
            for k in range(nseeds):
                s = int(hashlib.sha256(("%d/%s/%d/%d" % (seed, sc, t, k)).encode()).hexdigest()[:8], 16)
                jobs.append((d, sc, t, s, rounds[sc]))
    viol = []
    notes = []
    samples = []
    blocks = 0
    skipped = 0
    STALLED.clear()
    with ThreadPoolExecutor(4) as ex:
        for args, rc, out, err in ex.map(run_one, jobs):
            _, sc, t, s, r = args
            for l in out.splitlines():
                if l.startswith("blocks"):
                    blocks += int(l.split()[1])
            if rc == 0 and "ThreadSanitizer" not in err:
                if len(samples) < 4 and t >= 8:
                    samples.append({"scenario": sc, "threads": t, "seed": s, "rounds": r, "result": out.strip().splitlines()[-1] if out.strip() else ""})
                continue
            if rc == -9:
                notes.append("%s T=%d seed=%d: timeout (inconclusive)" % (sc, t, s))
                continue
            if rc == -8:
                skipped += 1
                continue
            if any(a[1] == sc for a, _, _ in viol):
                continue     # this scenario already has a confirmed violation: do not pay for re-runs again
            # confirm: the same command must fail again (3x) - a race is reported whenever both accesses occur
            again = 0
            for _ in range(3):
                _, rc2, o2, e2 = run_one(args, True)
                again += (rc2 != 0 or "ThreadSanitizer" in e2)
            what = ([l for l in err.splitlines() if l.startswith("SUMMARY") or l.startswith("INVARIANT")] or [err[-300:]])[0]
            if again == 3:
                viol.append((args, what, err))
            else:
                notes.append("%s T=%d seed=%d: %s did not reproduce (%d/3)" % (sc, t, s, what[:120], again))
    wall = time.time() - t0
    seen = {}
    for args, what, err in viol:
        key = what[:160]
        if key not in seen:
            seen[key] = (args, what, err)
    os.makedirs(os.path.join(OUT, "replay"), exist_ok=True)
    paths = []
    for args, what, err in seen.values():
        _, sc, t, s, r = args
        h = hashlib.sha256(what.encode()).hexdigest()[:10]
        pth = os.path.join(OUT, "replay", "C18-%s-%s.json" % (sc, h))
        json.dump({"property": "C18", "scenario": sc, "threads": t, "seed": s, "rounds": r, "cmd": "mtx %s %d %d %d (tsan build)" % (sc, t, s, r), "report": err[:6000]}, open(pth, "w"), indent=1)
        paths.append((pth, what))
    ev = {"property_id": "C18", "tier": tier, "seed": seed, "level": "exploration",
          "coverage": {"evaluations": len(jobs), "distinct_nontrivial": len({(j[1], j[2], j[3]) for j in jobs if j[2] >= 2}),
                       "rule": "each evaluation is one process: T in {2,3,4,8,16} threads released by a barrier run generated sequences (once: %d fresh triggers; atomic: %d00 increments/decrements/CAS per thread; rng: %d well-bracketed sessions of create (no / delivering / failing / short additional source)/StepR/StepR2/rekey/isvalid/nested create/close per thread; onexit: 8x as many concurrent utilOnExit registrations, all of which must run at exit; churn: 4x as many minimal sessions, so that the shared state is destroyed and re-created while other threads enter) with seeded yields; "
                               "ThreadSanitizer (happens-before) + invariants are the oracle; every run has >= 2 overlapping threads, distinct by (scenario, T, seed)" % (rounds["once"], rounds["atomic"], rounds["rng"]),
                       "samples": samples, "generator_blocks_compared": blocks, "notes": notes + (["%d runs skipped after three stalls of their scenario" % skipped] if skipped else []), "exhaustive": False},
          "assumptions": ["ThreadSanitizer reports a race when both accesses occur in a run, without needing the losing interleaving; atomicity violations that are not data races need the bad schedule to happen - schedules are sampled, not enumerated",
                          "clang 14 TSan runtime; the library is built without NDEBUG so its ASSERTs join the oracle"],
          "wall_s": round(wall, 2), "violations": len(paths)}
    os.makedirs(os.path.join(OUT, "evidence"), exist_ok=True)
    json.dump(ev, open(os.path.join(OUT, "evidence", "C18.json"), "w"), indent=1)
    print("C18 tier=%s seed=%d runs=%d generator_blocks=%d wall=%.1fs violations=%d" % (tier, seed, len(jobs), blocks, wall, len(paths)))
    for n in notes[:5]:
        sys.stderr.write("note: %s\n" % n)
    for pth, what in paths:
        print("  failing: %s" % what[:300])
        print("VIOLATION property=C18 replay=%s" % pth)
    return 1 if paths else 0


def replay(path):
    rec = json.load(open(path))
    d = build.build("tsan")
    bad = 0
    for _ in range(3):
        _, rc, o, e = run_one((d, rec["scenario"], rec["threads"], rec["seed"], rec["rounds"]))
        bad += (rc != 0 or "ThreadSanitizer" in e)
    return bad == 3


def tests(tier):
    return []
