"""C02: bign signatures, key pairs, DH, key transport are sound and complete (oracle: pyref/bign.py, an
independent model of STB 34.101.45 over Python ints and affine EC)."""
import os
from harness import Test, Fail, st, GEN
from gens import expand, int_spec, resolve
import pyref.bign as RB
import pyref.belt as BELT
from errs import E, name as ename

RULE = ("cases: 3 standard curves x private keys {1, 2, q-1, random, tied to the one-time key so that S1 = 0 (signatures and identity signatures)} x hashes {0, 1, q-1, q, q+1, 2^2l-1, random} x OIDs (valid of several lengths) x generator tapes "
        "(first samples 0, >= q, in [q,p), q-1, up to 64 rejections then good, 65 rejections => ERR_BAD_RNG) x key-transport key lengths 16..80 x header null/non-null; "
        "alterations of every verifier input: single-bit flips of signature/hash/public key/oid/token/header, s1+q, s1 := q, s1 := 0, y -> p-y, x or y >= p, H -> H +- q; "
        "the reference verifier decides; the library must accept iff the model accepts (off-curve public keys: the library must not crash; verdict not judged, see DESIGN 4.2). "
        "non-trivial: a rejection in sampling, H >= q, d in {1, q-1}, any alteration; distinct by (curve, class tuple, altered field)")
LEVEL = "exploration"
ASSUMPTIONS = ["pyref/bign.py and pyref/ec.py are faithful (validated on all vectors of bign_test.c; written from the standard)", "standard parameter sets only (other valid sets cannot be produced without point counting)"]
BUDGET = {"quick": 300, "thorough": 3000}
CFG = tuple(os.environ.get("VERIF_CFG", "asan").split(","))
STD = {128: "1.2.112.0.2.0.34.101.45.3.1", 192: "1.2.112.0.2.0.34.101.45.3.2", 256: "1.2.112.0.2.0.34.101.45.3.3"}
OIDS = ["1.2.112.0.2.0.34.101.31.81", "1.2.112.0.2.0.34.101.77.11", "1.2.3", "2.999.4294967295.1", "0.39.127.128.16383.16384"]


def params_buf(x, l):
    P = x.out(8 + 64 * 5 + 8)
    r = x.call("bignParamsStd", P, x.buf(STD[l].encode() + b"\0"))
    if r:
        raise Fail("bignParamsStd failed %s" % ename(r))
    return P


def hval(c, key, l, q):
    n = l // 4
    v = {"zero": 0, "one": 1, "qm1": q - 1, "q": q, "qp1": q + 1, "max": (1 << (8 * n)) - 1}.get(c[key])
    if v is None:
        v = int.from_bytes(expand(c["seed"] + key, n), "little")
    return v.to_bytes(n, "little")


def dval(c, q, n):
    v = {"one": 1, "two": 2, "qm1": q - 1}.get(c["d"])
    if v is None:
        v = int.from_bytes(expand(c["seed"] + "d", n), "little") % (q - 1) + 1
    return v


def mk_tape(c, key, q, p, n, good):
    """tape of chunks: rejected samples first, then the good value"""
    t = b""
    bits = q.bit_length()
    for r in c[key]:
        if r == "zero": v = 0
        elif r == "q": v = q
        elif r == "qp": v = q + (int.from_bytes(expand(c["seed"] + key, 8), "little") % max(1, p - q)) if p > q else q
        elif r == "max": v = (1 << bits) - 1
        else: v = q + 1
        t += v.to_bytes(n, "little")
    return t + good.to_bytes(n, "little")


def run_sign(ctx, c):
    x = ctx.x
    l = c["l"]
    M = RB.std_params(l)
    q, p = M["q"], M["p"]
    n = l // 4
    P = params_buf(x, l)
    oid = RB.oid_to_der(c["oid"])
    OID = x.buf(oid)
    # key generation from a tape
    d = dval(c, q, n)
    if c["d"] == "s1zero":
        # a private key tied to the one-time key of the signature below so that its second part S1 = (k - H - (S0 + 2^l) d) mod q is 0
        # (S0 depends on k G, the OID and H only); S1 ranges over {0, ..., q - 1}: the signature is valid and must verify
        k_ = q - 1 if c["kc"] == "qm1" else 1 if c["kc"] == "one" else int.from_bytes(expand(c["seed"] + "k", n), "little") % (q - 1) + 1
        H_ = hval(c, "h", l, q)
        s0_ = int.from_bytes(RB.sign(M, oid, H_, 1, k_)[:n // 2], "little")
        d = (k_ - int.from_bytes(H_, "little")) * pow(s0_ + (1 << l), -1, q) % q or 1
    tape = mk_tape(c, "rej", q, p, n, d)
    T = x.tape(tape, mode=2)
    dk, Qk = x.out(n), x.out(2 * n)
    r = x.call("bignKeypairGen", dk, Qk, P, GEN, T)
    md, mQ, used = RB.keypair_from_tape(M, tape + b"\xff" * (n * 70))
    if len(c["rej"]) >= 65:
        if r != E["ERR_BAD_RNG"]:
            raise Fail("bignKeypairGen with 65 rejected samples returned %s" % ename(r))
        ctx.nontrivial("keygen_badrng", l)
        return
    if r:
        raise Fail("bignKeypairGen failed: %s (tape rejections %s)" % (ename(r), c["rej"]))
    if int.from_bytes(dk.read(), "little") != md or Qk.read() != RB.point_to_octets(M, mQ):
        raise Fail("bignKeypairGen: d=%x, model d=%x (l=%d, rejected %s)" % (int.from_bytes(dk.read(), "little"), md, l, c["rej"]))
    for fn, args in (("bignKeypairVal", [P, dk, Qk]), ("bignPubkeyVal", [P, Qk])):
        r = x.call(fn, *args)
        if r:
            raise Fail("%s rejects the generated pair: %s (d=%x)" % (fn, ename(r), md))
    Q2 = x.out(2 * n)
    if x.call("bignPubkeyCalc", Q2, P, dk) or Q2.read() != Qk.read():
        raise Fail("bignPubkeyCalc != KeypairGen public key")
    if c["rej"]:
        ctx.nontrivial("keygen_rej", l, tuple(c["rej"])[:3], c["d"])
    Qb = Qk.read()
    # sign
    H = hval(c, "h", l, q)
    k = int.from_bytes(expand(c["seed"] + "k", n), "little") % (q - 1) + 1
    if c["kc"] == "one": k = 1
    elif c["kc"] == "qm1": k = q - 1
    stape = mk_tape(c, "rejk", q, p, n, k)
    # placement of hash and signature: separate blocks, or adjacent in one block in either order (disjoint: bign.h refuses only an overlap)
    sl = 3 * l // 8
    lay = (len(c["seed"]) + c["bit"]) % 3
    if lay == 0:
        sig, HB = x.out(sl), x.buf(H)
    elif lay == 1:
        blk = x.buf(H + b"\xCC" * sl); HB, sig = blk, blk.at(n)
    else:
        blk = x.buf(b"\xCC" * sl + H); sig, HB = blk, blk.at(sl)
    r = x.call("bignSign", sig, P, OID, len(oid), HB, dk, GEN, x.tape(stape, mode=2))
    if r:
        raise Fail("bignSign failed: %s (l=%d h=%s, hash/signature layout %d)" % (ename(r), l, c["h"], lay))
    sig = x.buf(sig.read(0, sl))
    msig, _ = RB.sign_from_tape(M, oid, H, md, stape + b"\xff" * n)
    if sig.read() != msig:
        raise Fail("bignSign != model (l=%d h=%s d=%s k=%s): %s vs %s" % (l, c["h"], c["d"], c["kc"], sig.read().hex(), msig.hex()))
    if c["d"] == "s1zero" and md != 1:
        if msig[n // 2:] != bytes(n):
            raise RuntimeError("construction of S1 = 0 failed")
        ctx.cls("sig_with_S1_zero")
    r = x.call("bignVerify", P, OID, len(oid), x.buf(H), sig, Qk)
    if r:
        raise Fail("bignVerify rejects a fresh signature: %s (l=%d h=%s d=%s)" % (ename(r), l, c["h"], c["d"]))
    # deterministic signature
    tt = None if c["t"] is None else expand(c["seed"] + "t", c["t"])
    if lay == 0:
        sig2, HB = x.out(sl), x.buf(H)
    elif lay == 1:
        blk = x.buf(H + b"\xCC" * sl); HB, sig2 = blk, blk.at(n)
    else:
        blk = x.buf(b"\xCC" * sl + H); sig2, HB = blk, blk.at(sl)
    r = x.call("bignSign2", sig2, P, OID, len(oid), HB, dk, x.buf(tt) if tt is not None else None, len(tt) if tt is not None else 0)
    if r:
        raise Fail("bignSign2 failed: %s (hash/signature layout %d)" % (ename(r), lay))
    sig2 = x.buf(sig2.read(0, sl))
    if sig2.read() != RB.sign2(M, oid, H, md, tt):
        raise Fail("bignSign2 != model (l=%d h=%s t=%s)" % (l, c["h"], c["t"]))
    if x.call("bignVerify", P, OID, len(oid), x.buf(H), sig2, Qk):
        raise Fail("bignVerify rejects a bignSign2 signature")
    if c["h"] in ("q", "qp1", "max") or c["d"] in ("one", "qm1", "s1zero") or c["rejk"]:
        ctx.nontrivial("sign", l, c["h"], c["d"], c["kc"], tuple(c["rejk"])[:2])
    # alterations, judged by the reference verifier
    alt = c["alt"]
    fs, fH, fQ, foid = msig, H, Qb, oid
    s0l = l // 8
    s1 = int.from_bytes(msig[s0l:], "little")
    if alt == "sigbit": fs = flip(msig, c["bit"])
    elif alt == "s1pq":
        if s1 + q < 1 << (8 * n): fs = msig[:s0l] + (s1 + q).to_bytes(n, "little")
    elif alt == "s1q": fs = msig[:s0l] + q.to_bytes(n, "little")
    elif alt == "s1zero": fs = msig[:s0l] + bytes(n)
    elif alt == "rzero":
        # forged (S0, S1) with R = (S1 + H) G + (S0 + 2^l) Q = O (7.1.4: reject); S0 is what a verifier that went on would hash from a stale <R>
        stale = [bytes(n), Qb[:n], bytes(n - 1) + b"\x01"][c["bit"] % 3]
        S0 = BELT.hash(oid + stale + H)[:s0l]
        s1z = (-int.from_bytes(H, "little") - (int.from_bytes(S0, "little") + (1 << l)) * md) % q
        fs = S0 + s1z.to_bytes(n, "little")
    elif alt == "s0inc": fs = ((int.from_bytes(msig[:s0l], "little") + 1) % (1 << l)).to_bytes(s0l, "little") + msig[s0l:]
    elif alt == "hbit": fH = flip(H, c["bit"])
    elif alt == "hpq":
        hv = int.from_bytes(H, "little")
        hv2 = hv + q if hv + q < 1 << (8 * n) else hv - q
        if 0 <= hv2: fH = hv2.to_bytes(n, "little")     # same residue: must still verify
    elif alt == "oid": foid = RB.oid_to_der(OIDS[(OIDS.index(c["oid"]) + 1) % len(OIDS)])
    elif alt == "oidbit": foid = oid[:-1] + bytes([oid[-1] ^ 1])
    elif alt == "qneg":
        y = int.from_bytes(Qb[n:], "little"); fQ = Qb[:n] + (p - y).to_bytes(n, "little")
    elif alt == "qother": fQ = RB.point_to_octets(M, RB.pubkey_calc(M, md % (q - 2) + 1 if md % (q - 2) + 1 != md else 1))
    elif alt == "qbit": fQ = flip(Qb, c["bit"])
    elif alt == "qxp":
        xv = int.from_bytes(Qb[:n], "little")
        if xv + p < 1 << (8 * n): fQ = (xv + p).to_bytes(n, "little") + Qb[n:]
        else: fQ = p.to_bytes(n, "little") + Qb[n:]
    elif alt == "qzero": fQ = bytes(2 * n)
    changed = (fs, fH, fQ, foid) != (msig, H, Qb, oid)
    oid_ok = RB.oid_der_is_valid(foid)
    r = x.call("bignVerify", P, x.buf(foid), len(foid), x.buf(fH), x.buf(fs), x.buf(fQ))
    on_curve = RB.pubkey_val(M, fQ)
    if oid_ok and on_curve:
        mv = RB.verify(M, foid, fH, fs, fQ)
        if (r == 0) != mv:
            raise Fail("bignVerify verdict %s on alteration %s, reference verifier says %s (l=%d)" % (ename(r), alt, "accept" if mv else "reject", l))
    elif oid_ok and not on_curve:
        # x >= p or y >= p must be refused (ERR_BAD_PUBKEY); other off-curve keys: only a random (non crafted) forgery must not verify
        # (0, 0) is a point of order 2 of another curve: the verifier's sum is then O or (0, 0), and the base point of the standard curves has x = 0 as well,
        # so for the one-time keys k = 1, q - 1 (R = +-G) and (S1 + H) mod q = 0 the crafted key reproduces S0: a constructed coincidence, not judged
        # (bign.h: pubkey validity is a partially checked expectation)
        crafted = alt == "qzero" and k in (1, q - 1)
        if r == 0 and crafted:
            ctx.cls("offcurve_crafted_coincidence_not_judged")
        elif r == 0:
            raise Fail("bignVerify accepts signature under altered public key (%s) that is not a curve point" % alt)
    if changed:
        ctx.nontrivial("alt", l, alt, r == 0)
    ctx.cls("alt_" + alt, "l%d" % l)
    ctx.sample(c)


def flip(b, bit):
    a = bytearray(b)
    a[(bit // 8) % len(a)] ^= 1 << (bit % 8)
    return bytes(a)


REJ = st.lists(st.sampled_from(["zero", "q", "qp", "max", "qp1"]), max_size=3)
S_SIGN = st.fixed_dictionaries({
    "l": st.sampled_from([128, 192, 256]), "seed": st.binary(min_size=1, max_size=4).map(bytes.hex), "oid": st.sampled_from(OIDS),
    "d": st.sampled_from(["rnd", "rnd", "one", "two", "qm1", "s1zero"]), "h": st.sampled_from(["rnd", "rnd", "zero", "one", "qm1", "q", "qp1", "max"]),
    "kc": st.sampled_from(["rnd", "rnd", "one", "qm1"]),
    "rej": st.one_of(REJ, REJ, st.sampled_from([["q"] * 64, ["max"] * 65, ["zero"] * 64])), "rejk": REJ, "t": st.sampled_from([None, 0, 1, 32, 100]),
    "alt": st.sampled_from(["none", "sigbit", "sigbit", "s1pq", "s1q", "s1zero", "rzero", "s0inc", "hbit", "hpq", "oid", "oidbit", "qneg", "qother", "qbit", "qxp", "qzero"]),
    "bit": st.integers(0, 2000)})


def run_dh_kt(ctx, c):
    x = ctx.x
    l = c["l"]
    M = RB.std_params(l)
    q, p = M["q"], M["p"]
    n = l // 4
    P = params_buf(x, l)
    da = dval(c, q, n)
    db = int.from_bytes(expand(c["seed"] + "db", n), "little") % (q - 1) + 1
    Qa = RB.point_to_octets(M, RB.pubkey_calc(M, da)); Qb = RB.point_to_octets(M, RB.pubkey_calc(M, db))
    Da, Db = x.buf(da.to_bytes(n, "little")), x.buf(db.to_bytes(n, "little"))
    kl = c["klen"] % (2 * n + 1)
    ka, kb = x.out(kl), x.out(kl)
    ra = x.call("bignDH", ka, P, Da, x.buf(Qb), kl)
    rb = x.call("bignDH", kb, P, Db, x.buf(Qa), kl)
    if ra or rb:
        raise Fail("bignDH failed: %s %s" % (ename(ra), ename(rb)))
    if ka.read() != kb.read() or ka.read() != RB.dh(M, da, Qb, kl):
        raise Fail("bignDH not symmetric / != model (l=%d key_len=%d)" % (l, kl))
    # key transport
    klen = c["tlen"]
    key = expand(c["seed"] + "key", klen)
    hdr = expand(c["seed"] + "h", 16) if c["hdr"] else None
    k = int.from_bytes(expand(c["seed"] + "k", n), "little") % (q - 1) + 1
    tape = mk_tape(c, "rejk", q, p, n, k)
    tok = x.out(n + klen + 16)
    r = x.call("bignKeyWrap", tok, P, x.buf(key), klen, x.buf(hdr) if hdr else None, x.buf(Qb), GEN, x.tape(tape, mode=2))
    if r:
        raise Fail("bignKeyWrap failed %s" % ename(r))
    mtok, _ = RB.key_wrap_from_tape(M, key, hdr, Qb, tape + b"\xff" * n)
    if tok.read() != mtok:
        raise Fail("bignKeyWrap != model (l=%d len=%d hdr=%s)" % (l, klen, bool(hdr)))
    o = x.out(klen)
    r = x.call("bignKeyUnwrap", o, P, tok, n + klen + 16, x.buf(hdr) if hdr else None, Db)
    if r or o.read() != key:
        raise Fail("bignKeyUnwrap does not invert KeyWrap: %s" % ename(r))
    alt = c["alt"]
    ftok, fh, fd = mtok, hdr, db
    if alt == "tokbit": ftok = flip(mtok, c["bit"])
    elif alt == "hdr": fh = flip(hdr or bytes(16), c["bit"])
    elif alt == "key": fd = da
    elif alt == "trunc": ftok = mtok[:-1]
    if alt != "none":
        mk = RB.key_unwrap(M, ftok, fh, fd)
        o = x.out(max(0, len(ftok) - n - 16))
        r = x.call("bignKeyUnwrap", o, P, x.buf(ftok), len(ftok), x.buf(fh) if fh else None, x.buf(fd.to_bytes(n, "little")))
        if (r == 0) != (mk is not None):
            raise Fail("bignKeyUnwrap verdict %s on altered %s; model says %s" % (ename(r), alt, mk is not None))
        ctx.nontrivial("kt_alt", l, alt, klen)
    ctx.cls("kt_" + alt)
    ctx.sample(c)


S_DHKT = st.fixed_dictionaries({
    "l": st.sampled_from([128, 192, 256]), "seed": st.binary(min_size=1, max_size=4).map(bytes.hex), "d": st.sampled_from(["rnd", "one", "qm1"]),
    "klen": st.integers(0, 200), "tlen": st.sampled_from([16, 17, 24, 32, 33, 48, 64, 80]), "hdr": st.booleans(), "rejk": REJ,
    "alt": st.sampled_from(["none", "tokbit", "tokbit", "hdr", "key", "trunc"]), "bit": st.integers(0, 2000)})


def run_ibs(ctx, c):
    """identity-based signatures (B.2.3 - B.2.5): extract, sign (randomised and deterministic), verify, alterations"""
    x = ctx.x
    l = c["l"]
    M = RB.std_params(l)
    q, p = M["q"], M["p"]
    n = l // 4
    P = params_buf(x, l)
    oid = RB.oid_to_der(c["oid"])
    OID = x.buf(oid)
    # trusted party key and its signature of the identifier hash
    d = dval(c, q, n)
    Qb = RB.point_to_octets(M, RB.pubkey_calc(M, d))
    idh = hval(c, "idh", l, q)
    k0 = int.from_bytes(expand(c["seed"] + "k0", n), "little") % (q - 1) + 1
    H = hval(c, "h", l, q)
    k = int.from_bytes(expand(c["seed"] + "k", n), "little") % (q - 1) + 1
    tape = mk_tape(c, "rejk", q, p, n, k)
    if c["d"] == "ids1zero":
        # keys tied to the one-time keys so that the identity signature made below has S1 = (k - H - (S0 + 2^l) e) mod q = 0 (B.2.4; S0 depends on k G, the OID,
        # H0 and H only): identity key e = (k - H) / (S0 + 2^l), and the trusted-party key d = (k0 - e) / (S0' + 2^l) from which exactly this e is extracted.
        # S1 ranges over {0, ..., q - 1}: the signature is valid and must verify
        s0i = int.from_bytes(RB.id_sign_from_tape(M, oid, idh, H, 1, tape + b"\xff" * n)[0][:n // 2], "little")
        e_t = (k - int.from_bytes(H, "little")) * pow(s0i + (1 << l), -1, q) % q
        s0 = int.from_bytes(RB.sign(M, oid, idh, 1, k0)[:n // 2], "little")
        d = (k0 - e_t) * pow(s0 + (1 << l), -1, q) % q or 1
        Qb = RB.point_to_octets(M, RB.pubkey_calc(M, d))
    if c["d"] == "ezero":
        # boundary of B.2.3: a trusted-party key for which the extracted private key is e = (S1 + H0) mod q = k0 - (S0 + 2^l) d = 0
        # (S0 depends on k0 G, the OID and H0 only); e = 0 is an admissible identity key, signing and verification must work with it
        s0 = int.from_bytes(RB.sign(M, oid, idh, 1, k0)[:n // 2], "little")
        d = k0 * pow(s0 + (1 << l), -1, q) % q
        Qb = RB.point_to_octets(M, RB.pubkey_calc(M, d))
    elif c["d"] == "s1small":
        # a trusted-party signature whose second part S1 = (k0 - H0 - (S0 + 2^l) d) mod q is tiny, so that S1 + q is a second encoding below p
        s0 = int.from_bytes(RB.sign(M, oid, idh, 1, k0)[:n // 2], "little")
        d = (k0 - int.from_bytes(idh, "little") - c["bit"] % 7) * pow(s0 + (1 << l), -1, q) % q
        d = d or 1
        Qb = RB.point_to_octets(M, RB.pubkey_calc(M, d))
    sig0 = RB.sign(M, oid, idh, d, k0)
    ipriv, ipub = x.out(n), x.out(2 * n)
    r = x.call("bignIdExtract", ipriv, ipub, P, OID, len(oid), x.buf(idh), x.buf(sig0), x.buf(Qb))
    if r:
        raise Fail("bignIdExtract failed on a valid signature: %s" % ename(r))
    e, R = RB.id_extract(M, oid, idh, sig0, Qb)
    if c["d"] == "ezero" and e != 0:
        raise RuntimeError("construction of e = 0 failed")
    if int.from_bytes(ipriv.read(), "little") != e or ipub.read() != RB.point_to_octets(M, R):
        raise Fail("bignIdExtract != model (l=%d)" % l)
    isig = x.out(3 * l // 8)
    r = x.call("bignIdSign", isig, P, OID, len(oid), x.buf(idh), x.buf(H), ipriv, GEN, x.tape(tape, mode=2))
    if r:
        raise Fail("bignIdSign failed: %s" % ename(r))
    ms, _ = RB.id_sign_from_tape(M, oid, idh, H, e, tape + b"\xff" * n)
    if isig.read() != ms:
        raise Fail("bignIdSign != model (l=%d h=%s)" % (l, c["h"]))
    if c["d"] == "ids1zero" and d != 1:
        if ms[n // 2:] != bytes(n):
            raise RuntimeError("construction of an identity signature with S1 = 0 failed")
        ctx.cls("idsig_with_S1_zero")
    tt = None if c["t"] is None else expand(c["seed"] + "t", c["t"])
    isig2 = x.out(3 * l // 8)
    r = x.call("bignIdSign2", isig2, P, OID, len(oid), x.buf(idh), x.buf(H), ipriv, x.buf(tt) if tt is not None else None, len(tt) if tt is not None else 0)
    if r:
        raise Fail("bignIdSign2 failed: %s" % ename(r))
    ms2 = RB.id_sign2(M, oid, idh, H, e, tt)
    if isig2.read() != ms2:
        raise Fail("bignIdSign2 != model (l=%d h=%s t=%s): %s vs %s" % (l, c["h"], c["t"], isig2.read().hex(), ms2.hex()))
    for sg in (ms, ms2):
        r = x.call("bignIdVerify", P, OID, len(oid), x.buf(idh), x.buf(H), x.buf(sg), ipub, x.buf(Qb))
        if r:
            raise Fail("bignIdVerify rejects a fresh identity signature: %s" % ename(r))
    alt = c["alt"]
    fs, fH, fid, fpub, fQ = ms, H, idh, ipub.read(), Qb
    if alt == "sigbit": fs = flip(ms, c["bit"])
    elif alt == "hbit": fH = flip(H, c["bit"])
    elif alt == "idbit": fid = flip(idh, c["bit"])
    elif alt == "pubneg":
        y = int.from_bytes(fpub[n:], "little"); fpub = fpub[:n] + (p - y).to_bytes(n, "little")
    elif alt == "qneg":
        y = int.from_bytes(Qb[n:], "little"); fQ = Qb[:n] + (p - y).to_bytes(n, "little")
    elif alt == "s1q": fs = ms[:l // 8] + q.to_bytes(n, "little")
    elif alt == "vzero":
        # a forged pair (S0, S1) for which the point V of B.2.5 is the point at infinity (rejected by the standard): the party that knows the
        # discrete logarithms d of Q and r of R = e G + (S0' + 2^l) Q solves (S1 + H) + (S0 + 2^l)(r - (t + 2^l) d) = 0 mod q, with S0 chosen
        # as the hash value a verifier would compute from an all-zero encoding of V
        s0p = int.from_bytes(sig0[:n // 2], "little")
        r_ = (e + (s0p + (1 << l)) * d) % q
        t_ = int.from_bytes(BELT.hash(oid + ipub.read()[:n] + idh)[:n // 2], "little")
        # (what an implementation that went on after V = O would hash in place of <V>: nothing is defined, so several stale values are tried)
        stale = [bytes(n), ipub.read()[:n], Qb[:n]][c["bit"] % 3]
        S0 = BELT.hash(oid + stale + idh + H)[:n // 2]
        s0v = int.from_bytes(S0, "little")
        s1v = (-int.from_bytes(H, "little") - (s0v + (1 << l)) * (r_ - (t_ + (1 << l)) * d)) % q
        fs = S0 + s1v.to_bytes(n, "little")
    if RB.pubkey_val(M, fpub) and RB.pubkey_val(M, fQ):
        mv = RB.id_verify(M, oid, fid, fH, fs, fpub, fQ)
        r = x.call("bignIdVerify", P, OID, len(oid), x.buf(fid), x.buf(fH), x.buf(fs), x.buf(fpub), x.buf(fQ))
        if (r == 0) != mv:
            raise Fail("bignIdVerify verdict %s on alteration %s, model says %s" % (ename(r), alt, mv))
    # extraction from an altered signature must fail exactly when the model's verification fails
    bad0 = flip(sig0, c["bit"])
    s1o = int.from_bytes(sig0[n // 2:], "little")
    if c["d"] == "s1small" and s1o + q < (1 << (8 * n)):
        bad0 = sig0[:n // 2] + (s1o + q).to_bytes(n, "little")      # the same residue encoded as S1 + q (>= q: not a signature)
    r = x.call("bignIdExtract", x.out(n), x.out(2 * n), P, OID, len(oid), x.buf(idh), x.buf(bad0), x.buf(Qb))
    me = RB.id_extract(M, oid, idh, bad0, Qb)
    if (r == 0) != (not isinstance(me, str)):
        raise Fail("bignIdExtract verdict %s on an altered signature, model %s" % (ename(r), me if isinstance(me, str) else "accept"))
    ctx.cls("ibs_" + alt, "l%d" % l)
    ctx.nontrivial("ibs", l, alt, c["h"], c["t"], c["d"] in ("ezero", "ids1zero"))
    ctx.sample(c)


S_IBS = st.fixed_dictionaries({
    "l": st.sampled_from([128, 192, 256]), "seed": st.binary(min_size=1, max_size=4).map(bytes.hex), "oid": st.sampled_from(OIDS),
    "d": st.sampled_from(["rnd", "rnd", "one", "qm1", "ezero", "s1small", "ids1zero"]), "h": st.sampled_from(["rnd", "rnd", "zero", "q", "max"]), "idh": st.sampled_from(["rnd", "rnd", "zero", "max"]),
    "rejk": REJ, "t": st.sampled_from([None, 0, 1, 32, 100]), "alt": st.sampled_from(["none", "sigbit", "hbit", "idbit", "pubneg", "qneg", "s1q", "vzero"]), "bit": st.integers(0, 2000)})


def tests(tier):
    return [
        Test("sign", S_SIGN, run_sign, {"quick": 700, "thorough": 14000}, CFG),
        Test("dh_kt", S_DHKT, run_dh_kt, {"quick": 400, "thorough": 8000}, CFG),
        Test("ibs", S_IBS, run_ibs, {"quick": 300, "thorough": 6000}, CFG),
    ]
