"""C12: validators accept exactly the valid parameters, keys, primes and polynomials.
Oracles: the params_val/pubkey_val/keypair_val models of pyref (condition lists of the standards), condition lists of the
headers transcribed below (stb99, dstu, seeds), sympy.isprime cross-checked with an own Miller-Rabin, a sieve, datetime,
Rabin's irreducibility test (pyref/gf2x.py)."""
import os, datetime, random
from harness import Test, Sweep, Fail, st, GEN, SIZE_MAX
from gens import expand
import sympy
import pyref.bign as RB
import pyref.g12s as RG
import pyref.dstu as RD
import pyref.pfok as RP
import pyref.bels as RL
import pyref.gf2x as G2
from errs import E, name as ename

RULE = ("cases: standard long-term parameter sets of bign (3 levels), bign96, g12s (8 sets), dstu (10 curves, appendix/generated base points), pfok (4 sets), stb99 (4 sets), bels (51 standard keys) "
        "x single-field alterations (bit flips in used and unused octets, field := 0/1/p/next prime/2q+1/q+2, swapped fields, y -> -y, P -> 2P, P + point of order 2, wrong cofactor/level, re-derived b for another seed); "
        "stb99/pfok seeds (standard, default, maximal, random valid chains, one element off); bign/bign96 public keys (kG, -kG, x or y >= p, (0,0), twist points, bit flips, random) and key pairs "
        "(d in {0,1,q-1,q,q+1,2^2l-1,random}, Q = dG / altered); all 11^6 date tuples with octets 0..10 + random octets; priIsPrimeW on [0,2^20) and windows at 2^16, 2^31, 2^32, the base-switch limits, 2^64-2^16, "
        "priNextPrimeW on [0,2^16) and around every 2^l; priIsPrime/priRMTest/priIsSieved on Carmichael numbers, strong pseudoprimes (psi_k, spsp(2,3,5,7)), semiprimes of 64..256-bit primes, the curves' p and q, "
        "Mersenne numbers, random odd numbers; priNextPrime with trials/base_count/iter variations incl. a just below 2^l; belsValM on random/odd-weight/product/searched-irreducible polynomials of degree 128/192/256; ec2IsSafeGroup on group orders (listed and small primes, composites, 2^m) with the MOV threshold at the embedding degree and one off; partly filled seed chains. "
        "non-trivial: an altered parameter set or seed, a boundary/off-curve/twist key, d in {0,1,q-1,q,q+1}, a pseudoprime/semiprime/boundary window, a non-standard polynomial; distinct by (scheme, set, alteration, field, position class)")
LEVEL = "exploration"
ASSUMPTIONS = ["pyref params_val/pubkey_val/keypair_val models are faithful transcriptions of the condition lists (validated on the standard sets)",
               "sympy.isprime is correct (deterministic below 2^64, BPSW above); cross-checked in every call with an own Miller-Rabin (12 bases below 2^64, 40 bases above)",
               "stb99/dstu/seed validity is judged by the condition lists of stb99.h/dstu.h/pfok.h transcribed in this module",
               "priRMTest/priIsPrime are probabilistic: composites are only required to be rejected with iter >= 32 (error <= 4^-32)",
               "other valid curve parameter sets than the standard ones cannot be produced without point counting: only the standard sets (and equivalent base points / d values) are expected to validate"]
EXHAUSTIVE_NOTE = ["tmDateIsValid2 on all 11^6 tuples with octets 0..10", "priIsPrimeW on [0, 2^20) and on [2^64 - 2^16, 2^64)", "priNextPrimeW on [0, 2^16)"]
BUDGET = {"quick": 300, "thorough": 3000}
CFG = tuple(os.environ.get("VERIF_CFG", "asan").split(","))


# ---------------------------------------------------------------------------------------------------------------------
# primality oracle
# ---------------------------------------------------------------------------------------------------------------------
P12 = (2, 3, 5, 7, 11, 13, 17, 19, 23, 29, 31, 37)
P40 = tuple(sympy.primerange(2, 174))[:40]


def sprp(n, a):
    """n odd > 2 is a strong probable prime to base a"""
    a %= n
    if a == 0:
        return True
    d, s = n - 1, 0
    while d % 2 == 0:
        d //= 2
        s += 1
    x = pow(a, d, n)
    if x in (1, n - 1):
        return True
    for _ in range(s - 1):
        x = x * x % n
        if x == n - 1:
            return True
    return False


def mr(n, bases):
    if n < 2:
        return False
    for p in P12:
        if n % p == 0:
            return n == p
    return all(sprp(n, a) for a in bases)


def is_prime(n):
    """sympy.isprime cross-checked with Miller-Rabin (deterministic with the first 12 primes below 3.3e24)"""
    v = bool(sympy.isprime(n))
    w = mr(n, P12 if n < (1 << 64) else P40)
    if v != w:
        raise RuntimeError("primality oracles disagree on %d" % n)
    return v


def next_prime_same_len(a):
    """least prime >= a of the bit length of a, or None"""
    if a.bit_length() <= 1:
        return None
    p = a if is_prime(a) else int(sympy.nextprime(a))
    if not is_prime(p):
        raise RuntimeError("nextprime oracle")
    return p if p.bit_length() == a.bit_length() else None


# ---------------------------------------------------------------------------------------------------------------------
# struct layouts (from the compiler, see x/shim_c12.c) and records
# ---------------------------------------------------------------------------------------------------------------------
ST = {"bign": (0, ["l", "p", "a", "b", "q", "yG", "seed"]), "g12s": (1, ["l", "p", "a", "b", "q", "n", "xP", "yP"]),
      "dstu": (2, ["p", "A", "B", "n", "c", "P"]), "pfok": (3, ["l", "r", "n", "p", "g"]), "stb99": (4, ["l", "r", "p", "q", "a", "d"]),
      "stb99_seed": (5, ["l", "zi", "di", "ri"]), "pfok_seed": (6, ["l", "zi", "li"])}
_LAY = {}


def lay(x, stname):
    key = (x.config, stname)
    if key not in _LAY:
        idx, names = ST[stname]
        d = {}
        for i, nm in enumerate(names + ["_"]):
            d[nm] = (x.call("x_c12_layout", idx, i, 0, ret="z"), x.call("x_c12_layout", idx, i, 1, ret="z"))
        _LAY[key] = d
    return _LAY[key]


class Rec:
    """octet image of a C structure with named fields"""

    def __init__(self, raw, L):
        self.b, self.L = bytearray(raw), L

    def copy(self):
        return Rec(self.b, self.L)

    def size(self, f):
        return self.L[f][1]

    def get(self, f, n=None):
        o, sz = self.L[f]
        return bytes(self.b[o:o + (sz if n is None else n)])

    def int(self, f, n=None, off=0):
        o, sz = self.L[f]
        return int.from_bytes(self.b[o + off:o + off + (sz - off if n is None else n)], "little")

    def put(self, f, data, off=0):
        o, sz = self.L[f]
        if off + len(data) > sz:
            raise RuntimeError("field overflow")
        self.b[o + off:o + off + len(data)] = data

    def puti(self, f, v, n=None, off=0):
        o, sz = self.L[f]
        n = sz - off if n is None else n
        self.put(f, (v % (1 << (8 * n))).to_bytes(n, "little"), off)

    def flip(self, f, bit):
        o, sz = self.L[f]
        bit %= 8 * sz
        self.b[o + bit // 8] ^= 1 << (bit % 8)


def cstr(x, s):
    return x.buf(s.encode() + b"\0")


def sfail(msg, case):
    e = Fail(msg)
    e.case = case
    return e


# ---------------------------------------------------------------------------------------------------------------------
# dates
# ---------------------------------------------------------------------------------------------------------------------
def date_model(o):
    """tm.h: six octets YYMMDD, each octet is one decimal digit; year 20YY"""
    if any(v > 9 for v in o):
        return False
    try:
        datetime.date(2000 + 10 * o[0] + o[1], 10 * o[2] + o[3], 10 * o[4] + o[5])
        return True
    except ValueError:
        return False


def date_judge(ctx, o, got, case):
    exp = date_model(o)
    if got == exp:
        return
    raise sfail("tmDateIsValid2(%s) = %d, expected %d" % (bytes(o).hex(), got, exp), case)


def sweep_dates(ctx, part, nparts):
    """all tuples {0..10}^6"""
    x = ctx.x
    total = 11 ** 6
    lo, hi = part * total // nparts, (part + 1) * total // nparts
    out = x.out((hi - lo + 7) // 8)
    x.call("x_c12_dates", out, lo, hi, 11, ret="v")
    bits = out.read()
    ndates = 0
    for t in range(lo, hi):
        o, v = [0] * 6, t
        for j in range(5, -1, -1):
            o[j] = v % 11
            v //= 11
        got = (bits[(t - lo) >> 3] >> ((t - lo) & 7)) & 1
        if got or max(o) <= 9:
            date_judge(ctx, o, bool(got), {"date": o})
            md = (10 * o[2] + o[3], 10 * o[4] + o[5])
            if max(o) <= 9 and (md[0] in (0, 13) or md[1] in (0, 32) or md in ((2, 28), (2, 29), (2, 30), (4, 30), (4, 31), (12, 31), (1, 31), (6, 31), (9, 31), (11, 31))):
                ctx.nontrivial("date", tuple(o))
            ndates += got
    ctx.count(hi - lo)
    ctx.cls("dates_part")
    if part == 0:
        ctx.sample({"sweep": "tmDateIsValid2 on {0..10}^6", "accepted_in_part0": ndates})


def run_date(ctx, c):
    x = ctx.x
    o = c["o"]
    got = bool(x.call("tmDateIsValid2", x.buf(bytes(o))))
    date_judge(ctx, o, got, None)
    ctx.cls("valid" if date_model(o) else "gt9" if max(o) > 9 else "invalid")
    ctx.nontrivial("date_rnd", tuple(min(v, 11) for v in o))
    ctx.sample(c)


_OCT = st.one_of(st.integers(0, 9), st.integers(0, 3), st.integers(0, 255), st.sampled_from([10, 15, 16, 48, 49, 57, 255]))


def _mk_date(t):
    y, m, d, pos, v = t
    o = [y // 10, y % 10, m // 10, m % 10, d // 10, d % 10]
    if pos < 6:
        o[pos] = v
    return {"o": o}


S_DATE = st.one_of(
    st.fixed_dictionaries({"o": st.lists(_OCT, min_size=6, max_size=6)}),
    st.tuples(st.integers(0, 99), st.integers(0, 13), st.integers(0, 32), st.integers(0, 11), _OCT).map(_mk_date),
    st.tuples(st.integers(0, 99), st.sampled_from([2, 2, 4, 6, 9, 11, 12]), st.integers(27, 32), st.integers(0, 30), _OCT).map(_mk_date))


# ---------------------------------------------------------------------------------------------------------------------
# word-size primes
# ---------------------------------------------------------------------------------------------------------------------
def sieve(n):
    s = bytearray([1]) * n
    s[0:2] = b"\0\0"
    for i in range(2, int(n ** 0.5) + 1):
        if s[i]:
            s[i * i::i] = bytes(len(range(i * i, n, i)))
    return s


PSI = [2047, 1373653, 25326001, 3215031751, 2152302898747, 3474749660383, 341550071728321, 3825123056546413051,
       318665857834031151167461, 3317044064679887385961981]
SPSP2357 = [3215031751, 118670087467, 307768373641, 315962312077, 354864744877]
SPSP_MISC = [4759123141, 1122004669633, 21652684502221, 47636622961201, 319738044944881217703511, 2294000808485529871207512643463313249133621,
             26103130844234751751090209442664503355209287173138215952084213044135261]
CARM = [561, 1105, 1729, 2465, 2821, 6601, 8911, 10585, 15841, 29341, 41041, 46657, 52633, 62745, 63973, 75361, 101101, 115921, 126217, 162401, 172081,
        188461, 252601, 278545, 294409, 314821, 334153, 340561, 399001, 410041, 449065, 488881, 512461]
CHERNICK = [(6 * k + 1) * (12 * k + 1) * (18 * k + 1) for k in (1, 6, 35, 45, 339985, 340256, 167279809441, 167279809525, 12007621696699972710,
                                                               12007621696699981235, 698893352947583750040010398010)]
MERSENNE_P = [2, 3, 5, 7, 13, 17, 19, 31, 61, 89, 107, 127, 521, 607, 1279]
MERSENNE_C = [11, 23, 29, 37, 41, 59, 67, 101, 137, 257, 523]


def windows(W):
    """(lo, count) windows of the word-size sweeps beyond [0, 2^20)"""
    ws = [(1373653 - 2048, 4096), ((1 << 31) - 4096, 8192), ((1 << 32) - (1 << 15), 1 << 15)]
    if W == 64:
        ws += [(1 << 32, 1 << 15), (4759123141 - 2048, 4096), ((1 << 48) - 2048, 4096), ((1 << 63) - 4096, 8192), ((1 << 64) - (1 << 16), 1 << 16)]
    return ws


def sweep_primes_w(ctx, part, nparts):
    x = ctx.x
    W = x.W
    stack = x.out(max(1, x.call("priIsPrimeW_deep", ret="z")))
    n = 0

    def run_window(lo, count, oracle, tag):
        out = x.out((count + 7) // 8)
        x.call("x_c12_primes", out, lo, count, stack, ret="v")
        bits = out.read()
        for i in range(count):
            got = (bits[i >> 3] >> (i & 7)) & 1
            if got != oracle(lo + i):
                raise sfail("priIsPrimeW(%d) = %d, expected %d (%s)" % (lo + i, got, 1 - got, tag), {"w": lo + i})
        ctx.nontrivial("window", tag, lo)
        return count

    # [0, 2^20)
    tot = 1 << 20
    lo, hi = part * tot // nparts, (part + 1) * tot // nparts
    sv = sieve(tot)
    n += run_window(lo, hi - lo, lambda v: sv[v], "sieve")
    # windows: spread over the parts
    ws = windows(W)
    for j, (wlo, cnt) in enumerate(ws):
        step = (cnt + nparts - 1) // nparts
        a, b = wlo + part * step, min(wlo + cnt, wlo + (part + 1) * step)
        if a < b:
            n += run_window(a, b - a, lambda v: int(is_prime(v)), "win%d" % j)
    # single numbers: pseudoprimes, Carmichael numbers, squares and products of primes near 2^(W/2), primes near 2^W
    if part == 0:
        top = 1 << W
        h = 1 << (W // 2)
        pr = [int(sympy.prevprime(h)), int(sympy.prevprime(sympy.prevprime(h))), int(sympy.nextprime(h // 2))]
        singles = [v for v in PSI + SPSP2357 + SPSP_MISC + CARM + CHERNICK if v < top]
        singles += [p * q for p in pr for q in pr if p * q < top] + [int(sympy.prevprime(top)), top - 1, top - 2, 0, 1, 2, 3, 4, 9, 25, 49]
        singles += [(1 << k) - 1 for k in range(2, W + 1)] + [(1 << k) + 1 for k in range(1, W)]
        for v in singles:
            got = x.call("priIsPrimeW", v, stack)
            n += 1
            if got != int(is_prime(v)):
                raise sfail("priIsPrimeW(%d) = %d, expected %d" % (v, got, 1 - got), {"w": v})
            ctx.nontrivial("single", v)
        ctx.sample({"sweep": "priIsPrimeW on [0,2^20) + windows", "windows": [[a, b] for a, b in ws], "singles": len(singles)})
    ctx.count(n)
    ctx.cls("primes_w_part")


def sweep_nextprime_w(ctx, part, nparts):
    """priNextPrimeW: least odd prime of [a, 2^l), l = bit length of a, or FALSE"""
    x = ctx.x
    W = x.W
    stack = x.out(max(1, x.call("priNextPrimeW_deep", ret="z")))
    n = 0
    ranges = []
    if part < nparts - 1 or nparts == 1:
        tot = 1 << 16
        k = max(1, nparts - 1)
        ranges.append((part * tot // k, (min(part, k - 1) + 1) * tot // k))
    if part == nparts - 1:
        for l in range(17, W + 1):
            ranges.append(((1 << l) - 48, min((1 << l) + 8, 1 << W)))
        ranges.append((1373653 - 64, 1373653 + 64))
    for lo, hi in ranges:
        cnt = hi - lo
        out = x.out(cnt * x.wo)
        x.call("x_c12_nextprimes", out, lo, cnt, stack, ret="v")
        raw = out.read()
        # oracle: least prime >= a (walk down from the top of the range), kept only when it has the bit length of a
        exp = {}
        nxt = int(sympy.nextprime(hi - 1))
        for a in range(hi - 1, lo - 1, -1):
            if is_prime(a):
                nxt = a
            exp[a] = nxt if a.bit_length() > 1 and nxt.bit_length() == a.bit_length() else None
        for i in range(cnt):
            a = lo + i
            got = int.from_bytes(raw[i * x.wo:(i + 1) * x.wo], "little")
            e = exp[a]
            if a == 2:
                # header: least ODD prime of [2, 4) = 3
                e = 3
            if got != (e or 0):
                raise sfail("priNextPrimeW(%d) -> %s, expected %s" % (a, got or "FALSE", e or "FALSE"), {"np": a})
            if e is None or e == a:
                ctx.nontrivial("npw", a if a < 4096 else (a.bit_length(), e is None))
        n += cnt
    ctx.count(n)
    ctx.cls("nextprime_w_part")
    if part == 0:
        ctx.sample({"sweep": "priNextPrimeW on [0,2^16) and around every 2^l"})


# ---------------------------------------------------------------------------------------------------------------------
# multi-word primes
# ---------------------------------------------------------------------------------------------------------------------
_BASE = {}


def base_primes(x):
    """the factor base of pri.h: must be the first odd primes"""
    if x.config not in _BASE:
        n = x.call("priBaseSize", ret="z")
        b = [x.call("priBasePrime", i, ret="w") for i in range(n)]
        if b != [int(p) for p in sympy.primerange(3, b[-1] + 1)] or n < 10:
            raise Fail("priBasePrime: the factor base is not the list of the first %d odd primes" % n)
        _BASE[x.config] = b
    return _BASE[x.config]


def curve_numbers():
    out = []
    for l in (96, 128, 192, 256):
        P = RB.std_params(l)
        out += [P["p"], P["q"]]
    for P in RG.PARAMS.values():
        out += [P.p, P.q]
    for P in RD.PARAMS.values():
        out += [P.n]
    for P in RP.PARAMS.values():
        out += [P.p, (P.p - 1) // 2]
    return out


CURVE_NUMBERS = curve_numbers()


def rnd_bits(seed, bits):
    v = int.from_bytes(expand(seed, (bits + 7) // 8), "little") % (1 << bits)
    return v | (1 << (bits - 1))


def big_number(c):
    f, i, sd = c["fam"], c["i"], c["seed"]
    if f == "carm": return CARM[i % len(CARM)]
    if f == "chernick": return CHERNICK[i % len(CHERNICK)]
    if f == "psi": return PSI[i % len(PSI)]
    if f == "spsp": return (SPSP2357 + SPSP_MISC)[i % len(SPSP2357 + SPSP_MISC)]
    if f == "semi":
        b1, b2 = 64 + i % 193, 64 + (i * 7 + 3) % 193
        return int(sympy.nextprime(rnd_bits(sd + "p", b1))) * int(sympy.nextprime(rnd_bits(sd + "q", b2)))
    if f == "sq":
        return int(sympy.nextprime(rnd_bits(sd + "p", 32 + i % 169))) ** 2
    if f == "curve": return CURVE_NUMBERS[i % len(CURVE_NUMBERS)]
    if f == "mers_p": return (1 << MERSENNE_P[i % len(MERSENNE_P)]) - 1
    if f == "mers_c": return (1 << MERSENNE_C[i % len(MERSENNE_C)]) - 1
    if f == "small": return 1 + i % 3000
    if f == "prime_rnd": return int(sympy.nextprime(rnd_bits(sd, 2 + c["bits"] % 400)))
    if f == "rnd_odd": return rnd_bits(sd, c["bits"]) | 1
    return max(1, rnd_bits(sd, c["bits"]) ^ (i & 1) << (c["bits"] - 1))


def bc_of(c, base):
    return {"0": 0, "1": 1, "10": 10, "100": min(100, len(base)), "max": len(base)}.get(c["bc"], c["i"] % (len(base) + 1))


def run_primes_big(ctx, c):
    x = ctx.x
    W = x.W
    base = base_primes(x)
    a = big_number(c)
    n = max(1, (a.bit_length() + W - 1) // W) + c["pad"]
    A = x.words(a, n)
    exp = is_prime(a)
    what = "%s a=%d n=%d" % (c["fam"], a, n)
    r = x.call("priIsPrime", A, n, x.out(x.call("priIsPrime_deep", n, ret="z")))
    if r != int(exp):
        raise Fail("priIsPrime = %d, expected %d (%s)" % (r, exp, what))
    it = c["iter"]
    r = x.call("priRMTest", A, n, it, x.out(x.call("priRMTest_deep", n, ret="z")))
    if exp and it > 0 and not r:
        raise Fail("priRMTest(iter=%d) rejects a prime (%s)" % (it, what))
    if not exp and it >= 32 and r:
        raise Fail("priRMTest(iter=%d) accepts a composite (%s)" % (it, what))
    if it == 0 and a % 2 and a >= 49 and not r:
        raise Fail("priRMTest(iter=0) = FALSE on an odd number > 7 (pri.h: every such number is declared prime) (%s)" % what)
    bc = bc_of(c, base)
    r = x.call("priIsSieved", A, n, bc, x.out(max(1, x.call("priIsSieved_deep", bc, ret="z"))))
    es = a % 2 == 1 and all(a % b for b in base[:bc])
    if r != int(es):
        raise Fail("priIsSieved(base_count=%d) = %d, expected %d (%s)" % (bc, r, es, what))
    ctx.cls("fam_" + c["fam"], "prime" if exp else "composite", "pad" if c["pad"] else "nopad")
    if c["fam"] in ("carm", "chernick", "psi", "spsp", "semi", "sq", "mers_c") or (c["fam"] == "small" and a in base):
        ctx.nontrivial("pbig", c["fam"], a % (1 << 64), it >= 32, c["pad"] > 0)
    ctx.sample(c)


S_PBIG = st.fixed_dictionaries({
    "fam": st.sampled_from(["carm", "chernick", "psi", "psi", "spsp", "spsp", "semi", "semi", "sq", "curve", "mers_p", "mers_c", "small", "prime_rnd", "prime_rnd", "rnd_odd", "rnd"]),
    "i": st.integers(0, 5000), "seed": st.binary(min_size=1, max_size=4).map(bytes.hex), "bits": st.integers(2, 600), "pad": st.sampled_from([0, 0, 0, 1, 2]),
    "iter": st.sampled_from([0, 1, 2, 5, 32, 40]), "bc": st.sampled_from(["0", "1", "10", "100", "max", "rnd"])})


def run_nextprime(ctx, c):
    x = ctx.x
    W = x.W
    base = base_primes(x)
    l, k, kind = c["l"], c["k"], c["kind"]
    if kind == "rnd":
        a = rnd_bits(c["seed"], l)
    elif kind == "below":
        a = max(0, (1 << l) - 1 - k)
    elif kind in ("below_none", "at_prime"):
        pp = int(sympy.prevprime(1 << l))
        gap = (1 << l) - 1 - pp
        a = pp if kind == "at_prime" or gap == 0 else pp + 1 + k % gap
    elif kind == "tiny":
        a = k % 40
    else:
        a = max(0, base[(k * 37 + l) % len(base)] + k % 3 - 1)
    n = max(1, (a.bit_length() + W - 1) // W) + c["pad"]
    bc = bc_of(c, base)
    trials = {"0": 0, "1": 1, "2": 2, "10": 10, "100": 100}.get(c["trials"], SIZE_MAX)
    it = c["iter"]
    A = x.words(a, n)
    Pb = A if c["alias"] else x.out(n * x.wo)
    r = x.call("priNextPrime", Pb, A, n, trials, bc, it, x.out(max(1, x.call("priNextPrime_deep", n, bc, ret="z"))))
    c0 = a | 1
    e = next_prime_same_len(c0) if a.bit_length() > 1 else None
    if e is not None and trials != SIZE_MAX and (e - c0) // 2 >= trials:
        e = None
    what = "a=%d n=%d trials=%s base_count=%d iter=%d" % (a, n, c["trials"], bc, it)
    if bool(r) != (e is not None):
        raise Fail("priNextPrime -> %s, expected %s (%s)" % ("TRUE" if r else "FALSE", e or "FALSE", what))
    if e is not None:
        got = int.from_bytes(Pb.read(), "little")
        if got != e:
            raise Fail("priNextPrime -> %d, expected %d (%s)" % (got, e, what))
    ctx.cls("np_" + kind, "found" if e is not None else "none", "trials_" + c["trials"])
    if c["pad"] and e is not None and e in base[:bc]:
        ctx.cls("np_padded_base_prime")       # a given with leading zero words, the answer is a prime of the factor base in use
    if kind != "rnd" or e is None:
        ctx.nontrivial("np", kind, l if kind != "tiny" else a, e is None, c["trials"], c["pad"] > 0)
    ctx.sample(c)


S_NP = st.fixed_dictionaries({
    "kind": st.sampled_from(["rnd", "rnd", "below", "below_none", "below_none", "at_prime", "tiny", "baseprime"]), "l": st.integers(2, 320), "k": st.integers(0, 64),
    "seed": st.binary(min_size=1, max_size=4).map(bytes.hex), "pad": st.sampled_from([0, 0, 0, 1, 2]), "trials": st.sampled_from(["0", "1", "2", "10", "100", "max", "max", "max"]),
    "bc": st.sampled_from(["0", "1", "10", "100", "max", "rnd"]), "i": st.integers(0, 5000), "iter": st.sampled_from([32, 40]), "alias": st.booleans()})


# ---------------------------------------------------------------------------------------------------------------------
# long-term parameters: common machinery
# ---------------------------------------------------------------------------------------------------------------------
_STD = {}


def std_rec(x, scheme, name):
    """the standard parameter set `name` of `scheme` as loaded by <scheme>ParamsStd"""
    key = (x.config, scheme, name)
    if key not in _STD:
        L = lay(x, "bign" if scheme == "bign96" else scheme)
        buf = x.zero(L["_"][1])
        if scheme in ("pfok", "stb99"):
            r = x.call(scheme + "ParamsStd", buf, None, cstr(x, name))
        else:
            r = x.call(scheme + "ParamsStd", buf, cstr(x, name))
        if r:
            raise Fail("%sParamsStd(%s) failed: %s" % (scheme, name, ename(r)))
        _STD[key] = buf.read()
    return Rec(_STD[key], lay(x, "bign" if scheme == "bign96" else scheme))


def judge(ctx, fn, r, valid, what, case):
    if (r == 0) != bool(valid):
        raise Fail("%s = %s, the condition list says %s (%s)" % (fn, ename(r), "valid" if valid else "invalid", what))


def q_variant(kind, q, bits, p=None):
    """replacement values for a group order: not prime / prime but not the order"""
    if kind == "next": return int(sympy.nextprime(q))
    if kind == "prev": return int(sympy.prevprime(q))
    if kind == "plus2": return q + 2
    if kind == "2q1": return ((2 * q + 1) % (1 << bits)) | (1 << (bits - 1))
    if kind == "3q": return (3 * q) % (1 << bits) | (1 << (bits - 1)) | 1
    if kind == "p" and p is not None: return p
    if kind == "twist" and p is not None: return 2 * p + 2 - q
    return q ^ 2


QV = ["next", "prev", "plus2", "2q1", "3q", "p", "twist"]


# ---------------------------------------------------------------------------------------------------------------------
# bign / bign96
# ---------------------------------------------------------------------------------------------------------------------
BIGN_F = ["p", "a", "b", "q", "yG"]


def bign_model(rec, want96):
    l = rec.int("l")
    if l not in (96, 128, 192, 256) or (l == 96) != want96:
        return False
    d = {"l": l, "seed": rec.int("seed")}
    for f in BIGN_F:
        d[f] = rec.int(f)
    return RB.params_val(d)


def run_params_bign(ctx, c):
    x = ctx.x
    l = c["l"]
    scheme = "bign96" if l == 96 else "bign"
    rec = std_rec(x, scheme, RB.STD_NAMES[l])
    M = RB.std_params(l)
    no = l // 4
    kind, f, bit = c["kind"], c["f"], c["bit"]
    judged = True
    if kind == "bit":
        if f == "seed":
            rec.flip("seed", bit % 64)
        else:
            rec.flip(f, bit % (8 * no))
    elif kind == "hibit":
        if l == 256:
            kind = "none"
        else:
            rec.flip(f if f != "seed" else "p", 8 * no + bit % (8 * (64 - no)))
            judged = l != 96         # bign96.h does not say that the octets above 24 must be zero (bign.h does for l = 128, 192)
    elif kind == "zero":
        rec.puti(f, 0)
    elif kind == "one":
        rec.puti(f, 1)
    elif kind == "level":
        rec.puti("l", [96, 128, 192, 256, 0, 64, 129][bit % 7])
    elif kind == "q":
        rec.puti("q", q_variant(c["v"], M["q"], 2 * l, M["p"]))
    elif kind == "p":
        p = M["p"]
        if c["v"] in ("next", "prev"):
            p = int(sympy.prevprime(p))
            while p % 4 != 3:
                p = int(sympy.prevprime(p))
        elif c["v"] == "plus2": p -= 4
        else: p = q_variant(c["v"], p, 2 * l)
        rec.puti("p", p)
    elif kind == "yneg":
        rec.puti("yG", M["p"] - M["yG"])
    elif kind == "reseed":
        # another seed with b and yG re-derived: every condition but q G = O can hold
        d = dict(M)
        d["seed"] = (M["seed"] + 1 + bit % 50) % (1 << 64)
        d["b"] = RB.derive_b(d)
        d["yG"] = pow(d["b"], (M["p"] + 1) // 4, M["p"])
        for k in ("seed", "b", "yG"):
            rec.puti(k, d[k])
    elif kind == "swap":
        f1, f2 = [("a", "b"), ("p", "q"), ("b", "yG"), ("q", "yG"), ("p", "a")][bit % 5]
        v1, v2 = rec.get(f1), rec.get(f2)
        rec.put(f1, v2); rec.put(f2, v1)
    fn = scheme + "ParamsVal"
    if c["other"]:
        fn = "bignParamsVal" if l == 96 else "bign96ParamsVal"      # the wrong validator for this level
    r = x.call(fn, x.buf(rec.b))
    if rec.int("p") in (0, 1) or rec.get("p")[rec.int("l") // 4 - 1 if rec.int("l") in (96, 128, 192, 256) else 0] == 0:
        # p = 0, p = 1, zero top octet of p: refused before the field is created
        ctx.cls("bign_p_degenerate")
        if r != E["ERR_BAD_PARAMS"]:
            raise Fail("%s with p = %x (zero top octet): %s instead of ERR_BAD_PARAMS" % (fn, rec.int("p"), ename(r)))
    if judged:
        judge(ctx, fn, r, bign_model(rec, fn == "bign96ParamsVal"), "l=%d kind=%s field=%s bit=%d v=%s" % (l, kind, f, bit, c["v"]), c)
    ctx.cls("bign_" + kind, "l%d" % l, "ok" if r == 0 else ename(r))
    if kind != "none":
        ctx.nontrivial("bign", l, kind, f if kind in ("bit", "hibit", "zero", "one") else c["v"] if kind in ("q", "p") else bit % 7, bit // 8 if kind in ("bit", "hibit") else 0)
    ctx.sample(c)


S_BIGN = st.fixed_dictionaries({
    "l": st.sampled_from([128, 128, 192, 256, 96]), "kind": st.sampled_from(["none", "bit", "bit", "bit", "hibit", "zero", "one", "level", "q", "q", "p", "yneg", "reseed", "swap"]),
    "f": st.sampled_from(BIGN_F + ["seed"]), "bit": st.integers(0, 4095), "v": st.sampled_from(QV), "other": st.sampled_from([False] * 9 + [True])})


# ---------------------------------------------------------------------------------------------------------------------
# bign / bign96 keys
# ---------------------------------------------------------------------------------------------------------------------
def sqrt_p34(t, p):
    y = pow(t, (p + 1) // 4, p)
    return y if y * y % p == t % p else None


def run_pubkey(ctx, c):
    x = ctx.x
    l = c["l"]
    scheme = "bign96" if l == 96 else "bign"
    M = RB.std_params(l)
    E_ = RB.curve(M)
    p, q, n = M["p"], M["q"], l // 4
    top = 1 << (8 * n)
    P = x.buf(std_rec(x, scheme, RB.STD_NAMES[l]).b)
    kind = c["kind"]
    k = {"one": 1, "two": 2, "qm1": q - 1}.get(c["d"]) or int.from_bytes(expand(c["seed"] + "d", n), "little") % (q - 1) + 1
    Q = E_.mul(k, RB.base(M))
    xq, yq = Q
    rx = int.from_bytes(expand(c["seed"] + "x", n), "little")
    if kind == "neg": yq = p - yq
    elif kind == "xp": xq = p + c["t"] % (top - p)          # t = 0: x = p = 0 (mod p) and y = yG: congruent to the base point
    elif kind == "xp_g": xq, yq = p, M["yG"]
    elif kind == "yp": yq = p + c["t"] % (top - p)
    elif kind == "zero": xq, yq = 0, 0
    elif kind == "ff": xq, yq = top - 1, top - 1
    elif kind in ("twist", "lift"):
        # x from the seed; twist: x^3 + a x + b is a non-residue and y^2 = -(x^3 + a x + b); lift: a residue and y its root
        xq = rx % p
        while True:
            t = (xq ** 3 + M["a"] * xq + M["b"]) % p
            y = sqrt_p34(t, p)
            if (y is None) == (kind == "twist") and t:
                break
            xq = (xq + 1) % p
        yq = sqrt_p34(-t % p, p) if kind == "twist" else y
    elif kind == "rnd": xq, yq = rx % top, int.from_bytes(expand(c["seed"] + "y", n), "little")
    elif kind == "yzero": yq = 0
    Qo = xq.to_bytes(n, "little") + yq.to_bytes(n, "little")
    if kind == "bit":
        b = bytearray(Qo); b[(c["t"] // 8) % len(b)] ^= 1 << (c["t"] % 8); Qo = bytes(b)
    exp = RB.pubkey_val(M, Qo)
    fn = scheme + "PubkeyVal"
    r = x.call(fn, P, x.buf(Qo))
    judge(ctx, fn, r, exp, "l=%d kind=%s Q=%s" % (l, kind, Qo.hex()), c)
    if not exp and r != E["ERR_BAD_PUBKEY"]:
        raise Fail("%s: %s instead of ERR_BAD_PUBKEY (kind=%s)" % (fn, ename(r), kind))
    ctx.cls("pk_" + kind, "l%d" % l, "valid" if exp else "invalid")
    if kind != "ok" or c["d"] != "rnd":
        ctx.nontrivial("pk", l, kind, c["d"], exp, c["t"] % 8 if kind == "bit" else c["t"] == 0 if kind in ("xp", "yp") else 0)
    ctx.sample(c)


S_PK = st.fixed_dictionaries({
    "l": st.sampled_from([128, 192, 256, 96]), "kind": st.sampled_from(["ok", "ok", "neg", "xp", "xp_g", "yp", "zero", "ff", "twist", "twist", "lift", "rnd", "yzero", "bit", "bit"]),
    "d": st.sampled_from(["rnd", "rnd", "one", "two", "qm1"]), "seed": st.binary(min_size=1, max_size=4).map(bytes.hex), "t": st.integers(0, 4095)})


def run_keypair(ctx, c):
    x = ctx.x
    l = c["l"]
    scheme = "bign96" if l == 96 else "bign"
    M = RB.std_params(l)
    E_ = RB.curve(M)
    p, q, n = M["p"], M["q"], l // 4
    top = 1 << (8 * n)
    P = x.buf(std_rec(x, scheme, RB.STD_NAMES[l]).b)
    rd = int.from_bytes(expand(c["seed"] + "d", n), "little")
    d = {"zero": 0, "one": 1, "two": 2, "qm1": q - 1, "q": q, "qp1": q + 1, "max": top - 1, "2q": min(2 * q, top - 1) , "rndq": q + rd % (top - q)}.get(c["d"])
    if d is None:
        d = rd % (q - 1) + 1
    # public key: (d mod q) G, or G when that is O
    Q = E_.mul(d % q, RB.base(M)) or RB.base(M)
    xq, yq = Q
    alt = c["alt"]
    if alt == "neg": yq = p - yq
    elif alt == "next": xq, yq = E_.add(Q, RB.base(M)) or RB.base(M)
    elif alt == "xp": xq = p + c["t"] % (top - p)
    elif alt == "swapxy": xq, yq = yq, xq
    elif alt == "zero": xq, yq = 0, 0
    Qo = xq.to_bytes(n, "little") + yq.to_bytes(n, "little")
    if alt == "bit":
        b = bytearray(Qo); b[(c["t"] // 8) % len(b)] ^= 1 << (c["t"] % 8); Qo = bytes(b)
    exp = RB.keypair_val(M, d, Qo)
    fn = scheme + "KeypairVal"
    r = x.call(fn, P, x.buf(d.to_bytes(n, "little")), x.buf(Qo))
    judge(ctx, fn, r, exp, "l=%d d=%s (%x) alt=%s Q=%s" % (l, c["d"], d, alt, Qo.hex()), c)
    if not (0 < d < q) and r != E["ERR_BAD_PRIVKEY"]:
        raise Fail("%s: %s instead of ERR_BAD_PRIVKEY (d=%s)" % (fn, ename(r), c["d"]))
    ctx.cls("kp_d_" + c["d"], "kp_" + alt, "l%d" % l, "valid" if exp else "invalid")
    if c["d"] != "rnd" or alt != "none":
        ctx.nontrivial("kp", l, c["d"], alt, exp)
    ctx.sample(c)


S_KP = st.fixed_dictionaries({
    "l": st.sampled_from([128, 192, 256, 96]), "d": st.sampled_from(["rnd", "rnd", "zero", "one", "two", "qm1", "q", "qp1", "max", "2q", "rndq"]),
    "alt": st.sampled_from(["none", "none", "none", "neg", "next", "xp", "swapxy", "zero", "bit"]), "seed": st.binary(min_size=1, max_size=4).map(bytes.hex), "t": st.integers(0, 4095)})


# ---------------------------------------------------------------------------------------------------------------------
# g12s
# ---------------------------------------------------------------------------------------------------------------------
G12S_NAMES = list(RG.PARAMS)


def g12s_fields(rec):
    """g12s.h: with l == 256 only the first half of p and q is used; a, b, xP, yP use no = octet length of p octets; the rest is arbitrary"""
    l = rec.int("l")
    if l not in (256, 512):
        return None
    p = rec.int("p", rec.size("p") * l // 512)
    no = (p.bit_length() + 7) // 8
    d = {"l": l, "p": p, "no": no, "q": rec.int("q", l // 8), "n": rec.int("n")}
    for f in ("a", "b", "xP", "yP"):
        d[f] = rec.int(f, no)
    return d


def g12s_model(rec):
    """section 5.2 of GOST R 34.10-2012 (pyref/g12s.py params_val) + a, b, P over GF(p)"""
    d = g12s_fields(rec)
    if d is None or d["p"] < 5 or d["p"] % 2 == 0:
        return False
    if max(d["a"], d["b"], d["xP"], d["yP"]) >= d["p"]:
        return False
    return bool(RG.params_val(RG.Params("x", d["l"], d["p"], d["a"], d["b"], d["q"], d["n"], d["xP"], d["yP"])))


def run_params_g12s(ctx, c):
    x = ctx.x
    name = G12S_NAMES[c["set"] % len(G12S_NAMES)]
    rec = std_rec(x, "g12s", name)
    M = RG.PARAMS[name]
    l, no = M.l, M.no
    kind, f, bit = c["kind"], c["f"], c["bit"]
    used = {"p": no, "a": no, "b": no, "xP": no, "yP": no, "q": l // 8}
    free = {"p": rec.size("p") * l // 512, "a": no, "b": no, "xP": no, "yP": no, "q": l // 8}       # first octet that is free to hold anything
    if kind == "bit":
        rec.flip(f, bit % (8 * used[f]))
    elif kind == "hibit":
        if free[f] >= rec.size(f):
            kind = "none"
        else:
            rec.flip(f, 8 * free[f] + bit % (8 * (rec.size(f) - free[f])))
    elif kind == "zero":
        rec.puti(f, 0, used[f])
    elif kind == "cof":
        rec.puti("n", [0, M.n + 1, 2 * M.n, 3, 0xFFFFFFFF][bit % 5])
    elif kind == "level":
        rec.puti("l", [256, 512, 0, 128, 257][bit % 5] if [256, 512, 0, 128, 257][bit % 5] != l else 768 - l)
    elif kind == "q":
        rec.puti("q", q_variant(c["v"], M.q, M.q.bit_length(), M.p), l // 8)
    elif kind == "yneg":
        rec.puti("yP", M.p - M.P[1], no)
    elif kind == "mulP":
        k = 2 + bit % 5
        Q = RG.ec_mul(M, k, M.P)
        rec.puti("xP", Q[0], no); rec.puti("yP", Q[1], no)
    elif kind == "offP":
        rec.puti("xP", (M.P[0] + 1 + bit % 3) % M.p, no)
    elif kind == "swap":
        f1, f2 = [("a", "b"), ("xP", "yP"), ("p", "a"), ("b", "yP")][bit % 4]
        v1, v2 = rec.get(f1), rec.get(f2)
        rec.put(f1, v2); rec.put(f2, v1)
    elif kind == "j0":
        # a complete, otherwise sound parameter set over a curve with a = 0 (J(E) = 0, excluded by 5.2): secp256k1 in place of a 256-bit set
        if l != 256:
            kind = "none"
        else:
            for fld, val in (("p", 2 ** 256 - 2 ** 32 - 977), ("a", 0), ("b", 7), ("q", 0xFFFFFFFFFFFFFFFFFFFFFFFFFFFFFFFEBAAEDCE6AF48A03BBFD25E8CD0364141),
                             ("xP", 0x79BE667EF9DCBBAC55A06295CE870B07029BFCDB2DCE28D959F2815B16F81798), ("yP", 0x483ADA7726A3C4655DA4FBFC0E1108A8FD17B448A68554199C47D08FFB10D4B8)):
                rec.puti(fld, val, used[fld])
            rec.puti("n", 1)
    r = x.call("g12sParamsVal", x.buf(rec.b))
    if rec.int("l") in (256, 512) and rec.int("p", rec.size("p") * rec.int("l") // 512) == 0:
        ctx.cls("g12s_p_zero")
        if r != E["ERR_BAD_PARAMS"]:
            raise Fail("g12sParamsVal with p = 0: %s instead of ERR_BAD_PARAMS" % ename(r))
    exp = g12s_model(rec)
    judge(ctx, "g12sParamsVal", r, exp, "%s kind=%s field=%s bit=%d v=%s" % (name, kind, f, bit, c["v"]), c)
    ctx.cls("g12s_" + kind, "set%d" % (c["set"] % len(G12S_NAMES)), "valid" if exp else "invalid")
    if kind != "none":
        ctx.nontrivial("g12s", name, kind, f if kind in ("bit", "hibit", "zero") else c["v"] if kind == "q" else bit % 5, bit // 8 if kind in ("bit", "hibit") else 0)
    ctx.sample(c)


S_G12S = st.fixed_dictionaries({
    "set": st.integers(0, 7), "kind": st.sampled_from(["none", "bit", "bit", "bit", "hibit", "hibit", "zero", "cof", "level", "q", "q", "yneg", "mulP", "offP", "swap", "j0"]),
    "f": st.sampled_from(["p", "a", "b", "q", "xP", "yP"]), "bit": st.integers(0, 4095), "v": st.sampled_from(QV)})


# ---------------------------------------------------------------------------------------------------------------------
# dstu
# ---------------------------------------------------------------------------------------------------------------------
def dstu_fields(rec):
    o, _ = rec.L["p"]
    p = tuple(int.from_bytes(rec.b[o + 2 * i:o + 2 * i + 2], "little") for i in range(4))
    m = p[0]
    no = (m + 7) // 8
    if no > rec.size("B"):
        return {"p": p, "m": m}
    return {"p": p, "m": m, "no": no, "A": rec.int("A"), "B": rec.int("B", no), "n": rec.int("n", no), "c": rec.int("c"),
            "x": rec.int("P", no), "y": rec.int("P", no, no)}


def dstu_model(rec):
    """dstu.h / DSTU 4145-2002: GF(2^m) given by an irreducible trinomial or pentanomial, 160 <= m <= 509 (what the library supports), A in {0, 1},
    B != 0 in the field, n prime of more than 160 bits, Hasse bound for c * n, MOV condition up to degree 32, P on the curve of order n"""
    d = dstu_fields(rec)
    p, m = d["p"], d["m"]
    if not 160 <= m <= 509:
        return False
    if not (m > p[1] > 0 and (p[2] == p[3] == 0 or p[1] > p[2] > p[3] > 0)):
        return False
    prm = RD.Params("x", p, d["A"], d["B"], d["n"], d["c"], (d["x"], d["y"]))
    if not G2.is_irred(prm.mod):
        return False
    if d["A"] > 1 or d["B"] == 0 or d["B"] >> m or d["x"] >> m or d["y"] >> m:
        return False
    n, c = d["n"], d["c"]
    if n.bit_length() <= 160 or not is_prime(n):
        return False
    if (c * n - (1 << m) - 1) ** 2 > 4 << m:
        return False
    if any(pow(2, m * k, n) == 1 for k in range(1, 33)):
        return False
    return RD.on_curve(prm, prm.P) and RD.ec_mul(prm, n, prm.P) is None


def run_params_dstu(ctx, c):
    x = ctx.x
    idx = c["set"] % 10
    name = RD._PFX + str(idx)
    rec = std_rec(x, "dstu", name)
    d0 = dstu_fields(rec)
    m, no = d0["m"], d0["no"]
    prm = RD.Params(name, d0["p"], d0["A"], d0["B"], d0["n"], d0["c"])
    if name in RD.PARAMS:
        M = RD.PARAMS[name]
        if (M.p, M.A, M.B, M.n, M.c) != (prm.p, prm.A, prm.B, prm.n, prm.c):
            raise Fail("dstuParamsStd(%s) differs from table G.2 as transcribed in pyref/dstu.py" % name)
    # base point: the appendix one (first curve) or one generated by the library from a tape (validated by the model below)
    if not (idx == 0 and c["base"] == "std"):
        pt = x.out(2 * no)
        r = x.call("dstuPointGen", pt, x.buf(rec.b), GEN, x.tape(expand(c["seed"], 8 * no), 0))
        if r:
            raise Fail("dstuPointGen failed on %s: %s" % (name, ename(r)))
        rec.put("P", pt.read())
    d0 = dstu_fields(rec)
    prm = prm.with_base((d0["x"], d0["y"]))
    kind, f, bit = c["kind"], c["f"], c["bit"]
    fo = {"B": (0, "B"), "n": (0, "n"), "x": (0, "P"), "y": (no, "P")}

    def setf(fname, v):
        off, fld = fo[fname]
        rec.puti(fld, v, no, off)

    if kind == "bit":
        off, fld = fo[f]
        rec.flip(fld, 8 * off + bit % (8 * no if bit & 1 else m))
    elif kind == "hibit":
        fld = {"B": "B", "n": "n"}.get(f, "P")
        lo = 2 * no if fld == "P" else no
        rec.flip(fld, 8 * lo + bit % (8 * (rec.size(fld) - lo)))
    elif kind == "A":
        rec.puti("A", [1 - prm.A, 2, 255][bit % 3])
    elif kind == "cof":
        rec.puti("c", [0, prm.c + 1, prm.c - 1, 2 * prm.c, 0xFFFFFFFF][bit % 5])
    elif kind == "poly":
        o, _ = rec.L["p"]
        p = list(prm.p)
        j = bit % 4
        if j == 0: p[0] += [1, -1, 2][bit // 4 % 3]
        elif j == 1: p[1] += 1
        elif j == 2: p[2 if p[2] else 1] += 1 if p[2] else 2
        else: p[3] += 1
        for i in range(4):
            rec.b[o + 2 * i:o + 2 * i + 2] = (p[i] % 65536).to_bytes(2, "little")
    elif kind == "n":
        setf("n", q_variant(c["v"] if c["v"] not in ("p", "twist") else "next", prm.n, prm.n.bit_length()))
    elif kind == "n_c":
        setf("n", prm.n * prm.c)
    elif kind == "neg":
        setf("y", prm.P[0] ^ prm.P[1])
    elif kind == "mulP":
        Q = RD.ec_mul(prm, 2 + bit % 5, prm.P)
        setf("x", Q[0]); setf("y", Q[1])
    elif kind == "ord2":
        setf("x", 0); setf("y", RD.f_sqrt(prm, prm.B))
    elif kind == "addT":
        Q = RD.ec_add(prm, prm.P, (0, RD.f_sqrt(prm, prm.B)))         # order 2n: on the curve, outside the subgroup
        setf("x", Q[0]); setf("y", Q[1])
    elif kind == "zero":
        setf(f, 0)
    elif kind == "swap":
        f1, f2 = [("B", "n"), ("x", "y"), ("B", "x")][bit % 3]
        d = dstu_fields(rec)
        setf(f1, d[f2]); setf(f2, d[f1])
    r = x.call("dstuParamsVal", x.buf(rec.b))
    exp = dstu_model(rec)
    judge(ctx, "dstuParamsVal", r, exp, "%s kind=%s field=%s bit=%d v=%s base=%s" % (name, kind, f, bit, c["v"], c["base"]), c)
    ctx.cls("dstu_" + kind, "m%d" % m, "valid" if exp else "invalid")
    if kind != "none":
        ctx.nontrivial("dstu", idx, kind, f if kind in ("bit", "hibit", "zero") else c["v"] if kind == "n" else bit % 5, bit // 8 if kind in ("bit", "hibit") else 0)
    ctx.sample(c)


S_DSTU = st.fixed_dictionaries({
    "set": st.sampled_from([0, 0, 1, 2, 3, 4, 5, 6, 7, 8, 9]), "base": st.sampled_from(["std", "gen"]), "seed": st.binary(min_size=1, max_size=4).map(bytes.hex),
    "kind": st.sampled_from(["none", "bit", "bit", "bit", "hibit", "hibit", "A", "cof", "poly", "n", "n_c", "neg", "mulP", "ord2", "addT", "zero", "swap"]),
    "f": st.sampled_from(["B", "n", "x", "y"]), "bit": st.integers(0, 4095), "v": st.sampled_from(QV)})


# ---------------------------------------------------------------------------------------------------------------------
# pfok, stb99 (Montgomery group B_p, R = 2^(l + 2))
# ---------------------------------------------------------------------------------------------------------------------
PFOK_NAMES = list(RP.PARAMS)
STB99_NAMES = ["test", "1.2.112.0.2.0.1176.2.3.3.1", "1.2.112.0.2.0.1176.2.3.6.1", "1.2.112.0.2.0.1176.2.3.10.1"]
STB99_LR = dict(zip((638, 766, 1022, 1118, 1310, 1534, 1790, 2046, 2334, 2462), (143, 154, 175, 182, 195, 208, 222, 235, 249, 257)))   # table 7.1 (stb99.c)
SETW = [0, 0, 0, 0, 0, 0, 1, 1, 1, 2]          # small levels mostly; the largest set only in the sweep below


def pfok_model(rec):
    l, r, n, p, g = rec.int("l"), rec.int("r"), rec.int("n"), rec.int("p"), rec.int("g")
    if p < 3 or p % 2 == 0:
        return False
    return bool(RP.params_val(RP.Params("x", l, r, n, p, g)))


def run_params_pfok(ctx, c):
    x = ctx.x
    si = SETW[c["set"] % len(SETW)] if c["set"] < 100 else 3
    name = PFOK_NAMES[si]
    rec = std_rec(x, "pfok", name)
    M = RP.PARAMS[name]
    p, lo = M.p, M.lo
    kind, f, bit = c["kind"], c["f"], c["bit"]
    if kind == "bit":
        rec.flip(f, bit % (8 * lo))
    elif kind == "hibit":
        rec.flip(f, 8 * lo + bit % (8 * (rec.size(f) - lo)))
    elif kind == "g":
        e = RP.mont_unit(M)
        gv = [0, 1, p - 1, p, e, (p - e) % p, M.g + 1, M.g + 2, RP.mont_mul(M, M.g, M.g), RP.mont_mul(M, M.g, RP.mont_mul(M, M.g, M.g)), p - M.g,
              int.from_bytes(expand(c["seed"], lo), "little") % p][bit % 12]
        rec.puti("g", gv)
    elif kind == "dims":
        j = bit % 7
        if j == 0: rec.puti("r", M.r + 1)
        elif j == 1: rec.puti("r", RP.LR[[k for k in RP.LR if k != M.l][bit // 7 % 20]])
        elif j == 2: rec.puti("l", [k for k in RP.LR if k != M.l][bit // 7 % 20])
        elif j == 3: rec.puti("n", M.l)
        elif j == 4: rec.puti("n", M.l - 1)
        elif j == 5: rec.puti("n", 0)
        else: rec.puti("n", M.l + 1 + bit)
    elif kind == "p":
        rec.puti("p", [(p - 1) // 2, p + 2, p - 2, 2 * p + 1, p ^ (1 << (M.l - 1))][bit % 5])
    elif kind == "swap":
        v1, v2 = rec.get("p"), rec.get("g")
        rec.put("p", v2); rec.put("g", v1)
    r = x.call("pfokParamsVal", x.buf(rec.b))
    exp = pfok_model(rec)
    judge(ctx, "pfokParamsVal", r, exp, "%s kind=%s field=%s bit=%d" % (name, kind, f, bit), c)
    ctx.cls("pfok_" + kind, "l%d" % M.l, "valid" if exp else "invalid")
    if kind != "none":
        ctx.nontrivial("pfok", si, kind, f if kind in ("bit", "hibit") else bit % 12, bit // 8 if kind in ("bit", "hibit") else 0)
    ctx.sample(c)


S_PFOK = st.fixed_dictionaries({
    "set": st.integers(0, 9), "kind": st.sampled_from(["none", "bit", "bit", "hibit", "g", "g", "g", "dims", "dims", "p", "swap"]),
    "f": st.sampled_from(["p", "g"]), "bit": st.integers(0, 4095), "seed": st.binary(min_size=1, max_size=4).map(bytes.hex)})


def stb99_model(rec):
    """stb99.h, stb99ParamsVal: (l, r) from table 7.1, p an l-bit prime, q an r-bit prime, q | p - 1, 0 < a, d < p,
    a = d^((p - 1) / q) in B_p and a != the unit; unused octets are zero"""
    l, r, p, q, a, d = (rec.int(f) for f in ("l", "r", "p", "q", "a", "d"))
    if STB99_LR.get(l) != r:
        return False
    if p.bit_length() != l or q.bit_length() != r or not is_prime(p) or not is_prime(q) or (p - 1) % q:
        return False
    if not (0 < a < p and 0 < d < p):
        return False
    M = RP.Params("x", l, r, 0, p, 0)
    return a == RP.mont_pow(M, d, (p - 1) // q) and a != RP.mont_unit(M)


def run_params_stb99(ctx, c):
    x = ctx.x
    si = SETW[c["set"] % len(SETW)] if c["set"] < 100 else 3
    name = STB99_NAMES[si]
    rec = std_rec(x, "stb99", name)
    l, r, p, q, a, d = (rec.int(f) for f in ("l", "r", "p", "q", "a", "d"))
    M = RP.Params("x", l, r, 0, p, 0)
    lo, ro = (l + 7) // 8, (r + 7) // 8
    used = {"p": lo, "a": lo, "d": lo, "q": ro}
    kind, f, bit = c["kind"], c["f"], c["bit"]
    t = (p - 1) // q
    if kind == "bit":
        rec.flip(f, bit % (8 * used[f]))
    elif kind == "hibit":
        rec.flip(f, 8 * used[f] + bit % (8 * (rec.size(f) - used[f])))
    elif kind == "newd":
        # another d with a recomputed: valid unless a becomes the unit
        dv = [2, 3, 7, p - 2, int.from_bytes(expand(c["seed"], lo), "little") % p, RP.mont_mul(M, d, d)][bit % 6]
        rec.puti("d", dv); rec.puti("a", RP.mont_pow(M, dv, t))
    elif kind == "donly":
        # d changed, a kept: d * h with h^t = e keeps a (valid); anything else does not
        h = RP.mont_pow(M, 5 + bit % 7, q)
        dv = [RP.mont_mul(M, d, h), d + 1, 0, p, p + d, RP.mont_unit(M)][bit % 6]
        rec.puti("d", dv)
    elif kind == "aonly":
        rec.puti("a", [0, 1, p - a, RP.mont_unit(M), RP.mont_mul(M, a, a), p, a + p][bit % 7])
    elif kind == "unit":
        e = RP.mont_unit(M)
        dv = [e, RP.mont_pow(M, 3, q), 0][bit % 3]      # d with d^t = e (a = e), or d = a = 0
        rec.puti("d", dv); rec.puti("a", RP.mont_pow(M, dv, t) if dv else 0)
    elif kind == "q":
        rec.puti("q", q_variant(c["v"] if c["v"] not in ("p", "twist") else "prev", q, r))
    elif kind == "p":
        rec.puti("p", [p + 2 * q, p - 2 * q, p + 2, int(sympy.prevprime(p)), p ^ (1 << (l - 1))][bit % 5])
    elif kind == "dims":
        j = bit % 4
        if j == 0: rec.puti("r", r + 1)
        elif j == 1: rec.puti("r", r - 1)
        elif j == 2: rec.puti("l", [k for k in STB99_LR if k != l][bit // 4 % 9])
        else: rec.puti("l", l + 8)
    elif kind == "swap":
        f1, f2 = [("a", "d"), ("p", "a")][bit % 2]
        v1, v2 = rec.get(f1), rec.get(f2)
        rec.put(f1, v2); rec.put(f2, v1)
    exp = stb99_model(rec)
    r_ = x.call("stb99ParamsVal", x.buf(rec.b))
    judge(ctx, "stb99ParamsVal", r_, exp, "%s kind=%s field=%s bit=%d v=%s" % (name, kind, f, bit, c["v"]), c)
    if rec.int("d") == 0:
        ctx.cls("stb99_d_zero_a_zero" if rec.int("a") == 0 else "stb99_d_zero")
        if r_ != E["ERR_BAD_PARAMS"]:
            raise Fail("stb99ParamsVal with d = 0 (a = %x): %s instead of ERR_BAD_PARAMS" % (rec.int("a"), ename(r_)))
    if kind == "none" and c["gen"]:
        # generation from the standard seed must reproduce the standard set
        L = lay(x, "stb99_seed")
        S, P0, P1 = x.zero(L["_"][1]), x.zero(rec.L["_"][1]), x.zero(rec.L["_"][1])
        if x.call("stb99ParamsStd", P0, S, cstr(x, name)) or x.call("stb99SeedVal", S):
            raise Fail("stb99ParamsStd/stb99SeedVal fail on the standard seed of %s" % name)
        g = x.call("stb99ParamsGen", P1, S)
        if g or P1.read() != P0.read():
            raise Fail("stb99ParamsGen on the standard seed of %s: %s, parameters %s" % (name, ename(g), "equal" if P1.read() == P0.read() else "differ"))
        ctx.cls("stb99_gen")
    ctx.cls("stb99_" + kind, "l%d" % l, "valid" if exp else "invalid")
    if kind != "none":
        ctx.nontrivial("stb99", si, kind, f if kind in ("bit", "hibit") else c["v"] if kind == "q" else bit % 7, bit // 8 if kind in ("bit", "hibit") else 0)
    ctx.sample(c)


S_STB99 = st.fixed_dictionaries({
    "set": st.integers(0, 9), "kind": st.sampled_from(["none", "bit", "bit", "hibit", "newd", "newd", "donly", "donly", "aonly", "unit", "q", "p", "dims", "swap"]),
    "f": st.sampled_from(["p", "q", "a", "d"]), "bit": st.integers(0, 4095), "v": st.sampled_from(QV), "gen": st.booleans(), "seed": st.binary(min_size=1, max_size=4).map(bytes.hex)})


def sweep_big_sets(ctx, part, nparts):
    """the largest pfok / stb99 sets (seconds per validation): standard accepted, a few alterations"""
    x = ctx.x
    jobs = [("pfok", {"set": 100, "kind": k, "f": "g", "bit": b, "seed": "00"}) for k, b in (("none", 0), ("g", 8), ("g", 4), ("dims", 4), ("bit", 77), ("p", 0))]
    jobs += [("stb99", {"set": 100, "kind": k, "f": "q", "bit": b, "v": "next", "gen": False, "seed": "00"}) for k, b in (("none", 0), ("newd", 1), ("donly", 0), ("donly", 1), ("q", 0), ("bit", 9), ("unit", 1))]
    for j, (scheme, c) in enumerate(jobs):
        if j % nparts != part:
            continue
        x.reset()
        try:
            (run_params_pfok if scheme == "pfok" else run_params_stb99)(ctx, c)
        except Fail as e:
            e.case = {"big": scheme, "c": c}
            raise
        ctx.count(1)


# ---------------------------------------------------------------------------------------------------------------------
# stb99 / pfok seeds
# ---------------------------------------------------------------------------------------------------------------------
def chain_valid(ch, plus4):
    """ch[0], .., ch[t] in {17..32}, zeros after; 5 ch[i+1] / 4 (+ 4) < ch[i] <= 2 ch[i+1]"""
    nz = [i for i, v in enumerate(ch) if v]
    if not nz:
        return False
    t = nz[-1]
    if 0 in ch[:t] or not 17 <= ch[t] <= 32:
        return False
    return all(5 * ch[i + 1] + (16 if plus4 else 0) < 4 * ch[i] <= 8 * ch[i + 1] for i in range(t))


def seed_model(sch, l, zi, chains, di0_slack=False, ri_plus4=False):
    """stb99SeedVal / pfokSeedVal condition lists (stb99.h, pfok.h).  di0_slack / ri_plus4: the two rules of stb99.c that differ from stb99.h (such seeds are not judged, see run_seed)"""
    tab = STB99_LR if sch == "stb99" else RP.LR
    if l not in tab or any(not 1 <= z <= 65256 for z in zi):
        return False
    if sch == "pfok":
        return chains[0][0] == l - 1 and chain_valid(chains[0], True)
    r = tab[l]
    di, ri = chains
    if not (l <= 2 * di[0] and 8 * di[0] <= 7 * l - (r if di0_slack else 8 * r)):
        return False
    return chain_valid(di, True) and ri[0] == r and chain_valid(ri, ri_plus4)


def default_chain(first, size):
    ch = [first]
    while ch[-1] > 32:
        ch.append(ch[-1] // 2 + 1)
    return ch + [0] * (size - len(ch))


def make_chain(spec, first, size, plus4, seed):
    k = spec["k"]
    if k == "zero":
        return [0] * size
    if k == "default":
        return default_chain(first, size)
    if k == "late":
        # a partly filled chain: zero in front, one entry somewhere behind (not "all zero", so no defaults; not a valid chain either)
        ch = [0] * size
        ch[min(size - 1, 1 + spec["pos"] % max(1, size - 1))] = [17, 33, 1 << 16, 1 << 32, 1 << 48, first or 5][spec["delta"] % 6]
        return ch
    rnd = random.Random(seed)
    ch = [first]
    while ch[-1] > 32 and len(ch) < size:
        hi = ch[-1]
        lo_, up = (hi + 1) // 2, (4 * hi - (17 if plus4 else 1)) // 5
        ch.append(up if k == "max" else lo_ if k == "min" else rnd.randint(lo_, up))
    ch += [0] * (size - len(ch))
    if k == "mut":
        pos = spec["pos"] % size
        ch[pos] = max(0, ch[pos] + spec["delta"])
    elif k == "tail":
        t = max([i for i, v in enumerate(ch) if v] or [0])
        if t + 1 < size:
            ch[min(size - 1, t + 1 + spec["pos"] % 2)] = [5, 16, 17, 1 << 62][spec["delta"] % 4]
    elif k == "huge":
        ch[spec["pos"] % size] = SIZE_MAX // 5 + spec["delta"]
    return ch


def run_seed(ctx, c):
    x = ctx.x
    sch = c["sch"]
    tab = STB99_LR if sch == "stb99" else RP.LR
    ls = sorted(tab)
    l = ls[c["li"] % len(ls)] if c["li"] < 40 else [0, 637, 639, 1024][c["li"] % 4]
    L = lay(x, sch + "_seed")
    rec = Rec(bytes(L["_"][1]), L)
    rec.puti("l", l)
    zk = c["zi"]
    zi = [i + 1 for i in range(31)]
    if zk == "rnd": zi = [1 + int.from_bytes(expand(c["seed"] + "z%d" % i, 2), "little") % 65256 for i in range(31)]
    elif zk == "zero": zi = [0] * 31
    elif zk == "one0": zi[c["pos"] % 31] = 0
    elif zk == "top": zi[c["pos"] % 31] = 65256
    elif zk == "over": zi[c["pos"] % 31] = 65257 + c["pos"] % 200
    r = tab.get(l, 150)
    if sch == "stb99":
        d0 = {"lo": (l + 1) // 2, "lo-": (l + 1) // 2 - 1, "hi": (7 * l - 8 * r) // 8, "hi+": (7 * l - 8 * r) // 8 + 1, "slack": (7 * l - r) // 8, "slack+": (7 * l - r) // 8 + 1,
              "std": l // 2 + 1}.get(c["d0"])
        if d0 is None:
            d0 = (l + 1) // 2 + int.from_bytes(expand(c["seed"] + "d0", 4), "little") % max(1, (7 * l - 8 * r) // 8 - (l + 1) // 2 + 1)
        names, firsts, plus = ["di", "ri"], [d0, r if c["r0"] == 0 else r + c["r0"]], [True, False]
    else:
        names, firsts, plus = ["li"], [l - 1 if c["r0"] == 0 else l - 1 + c["r0"]], [True]
    sizes = [rec.size(nm) // 8 for nm in names]
    chains = [make_chain(c["ch"][j], max(firsts[j], 0), sizes[j], plus[j], c["seed"] + nm) for j, nm in enumerate(names)]
    o, _ = L["zi"]
    for i, z in enumerate(zi):
        rec.b[o + 2 * i:o + 2 * i + 2] = z.to_bytes(2, "little")
    for nm, ch in zip(names, chains):
        rec.put(nm, b"".join(v.to_bytes(8, "little") for v in ch))
    what = "%s l=%d zi=%s chains=%s" % (sch, l, zk, chains)

    def judge_seed(fn, r_, zi_, chains_):
        exp = seed_model(sch, l, zi_, chains_)
        if sch == "stb99" and exp != seed_model(sch, l, zi_, chains_, di0_slack=True, ri_plus4=True):
            # NOT JUDGED (header and code disagree, standard text unavailable): stb99DiVal tests 8 * di[0] <= 7 * l - r where stb99.h says di[0] <= 7 * l / 8 - r
            # (l = 638, r = 143: header limit 415, code limit 540), and stb99RiVal applies 5 * ri[i+1] / 4 + 4 < ri[i] to the ri chain where stb99.h says
            # 5 * ri[i+1] / 4 < ri[i] (the header's maximal chain 257, 205, 163, 130, .. is refused).  Only the return of the call (no crash) is required.
            ctx.cls("seed_header_code_disagree")
            return None
        if (r_ == 0) == exp:
            return exp
        raise Fail("%s = %s, the condition list says %s (%s)" % (fn, ename(r_), "valid" if exp else "invalid", what))

    S = x.buf(rec.b)
    v = judge_seed(sch + "SeedVal", x.call(sch + "SeedVal", S), zi, chains)
    if S.read() != bytes(rec.b):
        raise Fail("%sSeedVal changed the seed" % sch)
    # adjustment: all-zero arrays get the default values, then the seed is validated
    zi2 = zi if any(zi) else [i + 1 for i in range(31)]
    dfl = [default_chain(l // 2 + 1, sizes[0]), default_chain(r, sizes[-1])] if sch == "stb99" else [default_chain(l - 1, sizes[0])]
    chains2 = [ch if any(ch) else dfl[j] for j, ch in enumerate(chains)]
    S2 = x.buf(rec.b)
    ra = x.call(sch + "SeedAdj", S2)
    va = judge_seed(sch + "SeedAdj", ra, zi2, chains2) if l in tab else (None if ra else judge_seed(sch + "SeedAdj", ra, zi2, chains2))
    if va and ra == 0:
        rec2 = rec.copy()
        for i, z in enumerate(zi2):
            rec2.b[o + 2 * i:o + 2 * i + 2] = z.to_bytes(2, "little")
        for nm, ch in zip(names, chains2):
            rec2.put(nm, b"".join(w.to_bytes(8, "little") for w in ch))
        if S2.read() != bytes(rec2.b):
            raise Fail("%sSeedAdj: adjusted seed differs from the documented defaults (%s)" % (sch, what))
        if x.call(sch + "SeedVal", S2):
            raise Fail("%sSeedVal rejects the seed %sSeedAdj accepted (%s)" % (sch, sch, what))
    ctx.cls(sch, "zi_" + zk, "valid" if v else "invalid" if v is not None else "unjudged", *["ch_" + sp["k"] for sp in c["ch"][:len(names)]])
    ctx.nontrivial("seed", sch, l, zk, tuple((sp["k"], sp["pos"] % 4, sp["delta"]) for sp in c["ch"][:len(names)]), c["d0"], c["r0"])
    ctx.sample(c)


_CH = st.fixed_dictionaries({"k": st.sampled_from(["default", "default", "max", "min", "rnd", "rnd", "mut", "mut", "tail", "zero", "huge", "late"]), "pos": st.integers(0, 19), "delta": st.sampled_from([-3, -2, -1, 1, 2, 3, 4, 5])})
S_SEED = st.fixed_dictionaries({
    "sch": st.sampled_from(["stb99", "stb99", "pfok"]), "li": st.integers(0, 43), "zi": st.sampled_from(["default", "default", "rnd", "zero", "one0", "top", "over"]), "pos": st.integers(0, 400),
    "d0": st.sampled_from(["std", "std", "rnd", "rnd", "lo", "lo-", "hi", "hi+", "slack", "slack+"]), "r0": st.sampled_from([0, 0, 0, 0, 0, 1, -1]), "ch": st.lists(_CH, min_size=2, max_size=2),
    "seed": st.binary(min_size=1, max_size=4).map(bytes.hex)})


# ---------------------------------------------------------------------------------------------------------------------
# bels public keys
# ---------------------------------------------------------------------------------------------------------------------
def run_bels(ctx, c):
    x = ctx.x
    ln, kind = c["len"], c["kind"]
    deg = 8 * ln
    num = c["num"] % 17
    std = RL.std_m(ln, num)
    mb = x.out(ln)
    if x.call("belsStdM", mb, ln, num) or mb.read() != std:
        raise Fail("belsStdM(len=%d, num=%d) differs from tables A.1 - A.4" % (ln, num))
    rv = int.from_bytes(expand(c["seed"], ln), "little")
    if kind == "std":
        m = int.from_bytes(std, "little")
    elif kind == "stdbit":
        m = int.from_bytes(std, "little") ^ (1 << (c["bit"] % deg))
    elif kind == "rnd":
        m = rv
    elif kind == "odd":
        # constant term 1 and an odd number of terms (x^l included): no factor x, x + 1
        m = rv | 1
        if (bin(m).count("1") + 1) % 2 == 0:
            m ^= 2
    elif kind == "prod":
        # x^l + m = g h with random g, h of degree about l/2 (no small factors in general)
        h = deg // 2 - c["bit"] % 8
        g1 = (rv % (1 << h)) | (1 << h) | 1
        g2 = (int.from_bytes(expand(c["seed"] + "g", ln), "little") % (1 << (deg - h))) | (1 << (deg - h)) | 1
        m = G2.mul(g1, g2) ^ (1 << deg)
    elif kind == "sq":
        g1 = (rv % (1 << (deg // 2))) | (1 << (deg // 2)) | 1
        m = G2.mul(g1, g1) ^ (1 << deg)
    else:
        # search: the next irreducible polynomial after a random odd-weight one (bounded number of steps)
        m = rv | 1
        for _ in range(24 if ctx.tier == "quick" else 60):
            if (bin(m).count("1") + 1) % 2 and G2.is_irred(m | (1 << deg)):
                break
            m = (m + 2) % (1 << deg)
    mo = m.to_bytes(ln, "little")
    exp = RL.val_m(mo)
    if kind == "std" and not exp:
        raise Fail("standard key (len=%d, num=%d) is reducible by the model" % (ln, num))
    r = x.call("belsValM", x.buf(mo), ln)
    if (r == 0) != exp or r not in (0, E["ERR_BAD_PUBKEY"]):
        raise Fail("belsValM(%s) = %s, Rabin's test says %s" % (mo.hex(), ename(r), "irreducible" if exp else "reducible"))
    if c["badlen"] is not None and x.call("belsValM", x.buf(expand(c["seed"], max(1, c["badlen"]))), c["badlen"]) != E["ERR_BAD_INPUT"]:
        raise Fail("belsValM(len=%d) != ERR_BAD_INPUT" % c["badlen"])
    ctx.cls("bels_" + kind, "len%d" % ln, "irr" if exp else "red")
    if kind != "std":
        ctx.nontrivial("bels", ln, kind, exp, c["bit"] % deg if kind == "stdbit" else c["seed"][:4])
    ctx.sample(c)


S_BELS = st.fixed_dictionaries({
    "len": st.sampled_from([16, 24, 32]), "kind": st.sampled_from(["std", "stdbit", "stdbit", "rnd", "odd", "odd", "odd", "prod", "prod", "sq", "search", "search"]),
    "num": st.integers(0, 16), "bit": st.integers(0, 255), "seed": st.binary(min_size=1, max_size=4).map(bytes.hex), "badlen": st.sampled_from([None, None, None, 0, 8, 15, 17, 31, 33, 40, 64])})


def replay_override(ctx, test, case):
    x = ctx.x
    if "date" in case:
        date_judge(ctx, case["date"], bool(x.call("tmDateIsValid2", x.buf(bytes(case["date"])))), case)
    elif "w" in case:
        stack = x.out(max(1, x.call("priIsPrimeW_deep", ret="z")))
        got = x.call("priIsPrimeW", case["w"], stack)
        if got != int(is_prime(case["w"])):
            raise Fail("priIsPrimeW(%d) = %d" % (case["w"], got))
    elif "big" in case:
        (run_params_pfok if case["big"] == "pfok" else run_params_stb99)(ctx, case["c"])
    elif "np" in case:
        stack = x.out(max(1, x.call("priNextPrimeW_deep", ret="z")))
        out = x.out(x.wo)
        x.call("x_c12_nextprimes", out, case["np"], 1, stack, ret="v")
        e = 3 if case["np"] == 2 else next_prime_same_len(case["np"])
        if out.int() != (e or 0):
            raise Fail("priNextPrimeW(%d) -> %s, expected %s" % (case["np"], out.int() or "FALSE", e or "FALSE"))


# ---------------------------------------------------------------------------------------------------------------------
# the validators of the algebra layer the scheme validators rest on: gf2IsValid (field polynomial irreducible), ecpIsValid (smooth curve)
def run_algebra_valid(ctx, c):
    x = ctx.x
    W = x.W
    from props.c06 import mk_curve_p, stack
    if c["kind"] == "gf2":
        m = c["m"]
        if c["mw"]:
            m = W * (2 + c["m"] % 3)            # degree a multiple of the word size: the leading coefficient sits in a word of its own
        m = max(m, W + 4)
        if c["tri"]:
            k = 1 + c["k"] % (m - W)
            pp = (m, k, 0, 0)
            poly = (1 << m) | (1 << k) | 1
        else:
            k = 3 + c["k"] % (min(W - 1, m - W) - 2)
            l = 2 + c["l"] % (k - 2)
            l1 = 1 + c["l1"] % (l - 1)
            pp = (m, k, l, l1)
            poly = (1 << m) | (1 << k) | (1 << l) | (1 << l1) | 1
        if c["known"]:
            # irreducible polynomials found beforehand (an accepting case is rare among random exponents)
            pp = KNOWN_IRRED[c["k"] % len(KNOWN_IRRED)]
            m = pp[0]
            poly = sum(1 << e for e in pp if e) | 1
        P = x.buf(b"".join(v.to_bytes(8, "little") for v in pp))
        F = x.out(x.call("gf2Create_keep", m, ret="z"))
        if not x.call("gf2Create", F, P, stack(x, "gf2Create_deep", m)):
            ctx.cls("gf2_not_created")
            return
        n = x.call("x_qr_n", F, ret="z")
        r = x.call("gf2IsValid", F, stack(x, "gf2IsValid_deep", n))
        want = G2.is_irred(poly)
        if bool(r) != want:
            raise Fail("gf2IsValid = %d for x^%d + %s + 1, which is %s" % (r, m, " + ".join("x^%d" % e for e in pp[1:] if e), "irreducible" if want else "reducible"))
        ctx.cls("gf2_%s_%s" % ("tri" if pp[2] == 0 else "penta", "irred" if want else "red"), "gf2_mw" if m % W == 0 else "gf2_m")
        ctx.nontrivial("gf2valid", m % W == 0, pp[2] == 0, want, m // 64)
    else:
        p = SMALL_PRIMES_EC[c["m"] % len(SMALL_PRIMES_EC)] if c["tri"] else BIG_PRIMES_EC[c["m"] % len(BIG_PRIMES_EC)]
        t = int.from_bytes(expand("%d/%d" % (c["k"], c["l"]), 40), "little") % p
        if c["known"]:
            A, B = (-3 * t * t) % p, (2 * t * t * t) % p         # the singular locus 4 A^3 + 27 B^2 = 0
            if c["l1"] % 3 == 1:
                B = (B + 1) % p
            elif c["l1"] % 3 == 2:
                A = (A + 1) % p
        else:
            A, B = t, int.from_bytes(expand("%d/%d/b" % (c["k"], c["l1"]), 40), "little") % p
        E, F, no, n = mk_curve_p(x, p, A, B)
        fdeep = x.call("x_qr_deep", F, ret="z")
        r = x.call("ecpIsValid", E, stack(x, "ecpIsValid_deep", n, fdeep))
        want = (4 * A ** 3 + 27 * B * B) % p != 0
        if bool(r) != want:
            raise Fail("ecpIsValid = %d for y^2 = x^3 + %d x + %d over GF(%d): 4A^3 + 27B^2 mod p = %d" % (r, A, B, p, (4 * A ** 3 + 27 * B * B) % p))
        ctx.cls("ecp_%s" % ("smooth" if want else "singular"), "ecp_small" if c["tri"] else "ecp_big")
        ctx.nontrivial("ecpvalid", want, p.bit_length() // 32, c["known"], c["l1"] % 3)
    ctx.sample(c)


KNOWN_IRRED = [(128, 7, 2, 1), (192, 7, 2, 1), (256, 10, 5, 2), (131, 8, 3, 2), (163, 7, 6, 3), (233, 74, 0, 0), (283, 12, 7, 5), (409, 87, 0, 0), (571, 10, 5, 2), (167, 6, 0, 0), (191, 9, 0, 0),
               (257, 12, 0, 0), (307, 8, 4, 2), (367, 21, 0, 0), (431, 5, 3, 1), (173, 10, 2, 1), (179, 4, 2, 1), (97, 6, 0, 0), (127, 1, 0, 0)]
SMALL_PRIMES_EC = [5, 7, 11, 13, 17, 19, 23, 29, 31, 37, 41, 43, 47, 53, 59, 61, 67, 71, 73, 79, 83, 89, 97, 101, 251, 65521]
BIG_PRIMES_EC = [2 ** 64 - 59, 2 ** 127 - 1, 2 ** 128 - 159, RB.std_params(128)["p"], RB.std_params(192)["p"], RB.std_params(256)["p"], 2 ** 255 - 19, 2 ** 521 - 1]
S_ALG = st.fixed_dictionaries({"kind": st.sampled_from(["gf2", "gf2", "ecp"]), "m": st.integers(66, 600), "mw": st.booleans(), "tri": st.booleans(), "k": st.integers(0, 100000), "l": st.integers(0, 100000),
                               "l1": st.integers(0, 100000), "known": st.booleans()})


# ---------------------------------------------------------------------------------------------------------------------
# ec2IsSafeGroup (the MOV / Semaev / primality conditions dstuParamsVal rests on): ec2.h "ec->order -- простое; ec->order != 2^m; ec->order не делит
# числа 2^{mi} - 1, i <= mov_threshold".  The group order is set freely (only the order and the field are read), so the decision boundary
# "embedding degree == threshold" is reached with small primes whose multiplicative order of 2^m is computed here by counting.
SAFE_FIELDS = [(65, (65, 18, 0, 0)), (97, (97, 6, 0, 0)), (127, (127, 1, 0, 0)), (131, (131, 8, 3, 2)), (163, (163, 7, 6, 3))]
SAFE_Q = [65537, 257, 17, 5, 3, 8191, 131071, 524287, 2147483647, (1 << 61) - 1, (1 << 89) - 1, 641, 6700417, 274177, 67280421310721, 2 ** 64 - 59, 2 ** 64 + 13, 4294967311]


def _is_prime(n):
    if n < 2:
        return False
    for p_ in (2, 3, 5, 7, 11, 13, 17, 19, 23, 29, 31, 37):
        if n % p_ == 0:
            return n == p_
    d, r = n - 1, 0
    while d % 2 == 0:
        d //= 2; r += 1
    for a in (2, 3, 5, 7, 11, 13, 17, 19, 23, 29, 31, 37):
        v = pow(a, d, n)
        if v in (1, n - 1):
            continue
        for _ in range(r - 1):
            v = v * v % n
            if v == n - 1:
                break
        else:
            return False
    return True


def run_safe_group(ctx, c):
    x = ctx.x
    from props.c06 import mk_curve_2, stack
    m, pp = SAFE_FIELDS[c["f"] % len(SAFE_FIELDS)]
    if c["qk"] == "list":
        q = SAFE_Q[c["q"] % len(SAFE_Q)]
    elif c["qk"] == "small":
        q = 3 + 2 * (c["q"] % 3000)
        while not _is_prime(q):
            q += 2
    elif c["qk"] == "comp":
        q = (3 + 2 * (c["q"] % 500)) * (5 + 2 * (c["q"] % 37))
    else:
        q = 1 << m                                  # Semaev condition
    t = pow(2, m, q)
    k, v = None, t
    for i in range(1, 5000):                        # embedding degree (order of 2^m modulo q), if below the search bound
        if v == 1:
            k = i; break
        v = v * t % q
    thr = {"k": k, "k-1": (k or 3) - 1, "k+1": (k or 3) + 1, "32": 32, "1": 1, "0": 0, "2": 2}[c["thr"]]
    if thr is None:
        thr = 32
    thr = max(0, min(thr, 5001))
    cur = mk_curve_2(x, m, pp, 1, 1)
    if cur is None:
        ctx.cls("field_not_admitted_at_this_word_size")     # gf2Create admits only m - k >= B_PER_W
        return
    E, F, no, n = cur
    ob = q.to_bytes((q.bit_length() + 7) // 8, "little")
    fdeep = x.call("x_qr_deep", F, ret="z")
    if not x.call("ecCreateGroup", E, x.buf(bytes(no)), x.buf((1).to_bytes(no, "little")), x.buf(ob), len(ob), 2, stack(x, "ecCreateGroup_deep", fdeep)):
        raise Fail("ecCreateGroup failed")
    r = x.call("ec2IsSafeGroup", E, thr, stack(x, "ec2IsSafeGroup_deep", n))
    want = _is_prime(q) and q != 1 << m and not (k is not None and k <= thr)
    if bool(r) != want:
        raise Fail("ec2IsSafeGroup(order %d over GF(2^%d), MOV threshold %d) = %d; the order is %s, 2^%d has order %s modulo it: the conditions of ec2.h say %s" %
                   (q, m, thr, r, "prime" if _is_prime(q) else "composite", m, k if k else ">= 5000", "safe" if want else "not safe"))
    ctx.cls("safe_" + c["qk"], "thr_" + c["thr"], "want_%d" % want)
    if k is not None and abs(thr - k) <= 1:
        ctx.nontrivial("mov_boundary", m, q, thr - k)
    elif not want:
        ctx.nontrivial("unsafe", c["qk"], m)
    ctx.sample(c)


S_SAFE = st.fixed_dictionaries({"f": st.integers(0, 4), "qk": st.sampled_from(["list", "list", "small", "small", "comp", "semaev"]), "q": st.integers(0, 100000),
                                "thr": st.sampled_from(["k", "k", "k-1", "k+1", "32", "1", "0", "2"])})


def tests(tier):
    q = tier == "quick"
    return [
        Test("algebra_valid", S_ALG, run_algebra_valid, {"quick": 1500, "thorough": 30000}, ("asan", "w32")),
        Test("safe_group", S_SAFE, run_safe_group, {"quick": 1200, "thorough": 24000}, ("asan", "w32")),
        Sweep("dates", sweep_dates, 8, CFG),
        Test("dates_rnd", S_DATE, run_date, {"quick": 2000, "thorough": 40000}, CFG),
        Sweep("primes_w", sweep_primes_w, 8, CFG),
        Sweep("nextprime_w", sweep_nextprime_w, 5, CFG),
        Test("params_bign", S_BIGN, run_params_bign, {"quick": 800, "thorough": 16000}, CFG),
        Test("params_g12s", S_G12S, run_params_g12s, {"quick": 800, "thorough": 16000}, CFG),
        Test("params_dstu", S_DSTU, run_params_dstu, {"quick": 800, "thorough": 16000}, CFG),
        Test("params_pfok", S_PFOK, run_params_pfok, {"quick": 400, "thorough": 8000}, CFG),
        Test("params_stb99", S_STB99, run_params_stb99, {"quick": 400, "thorough": 8000}, CFG + (("w32",) if CFG == ("asan",) else ())),
        Sweep("big_sets", sweep_big_sets, 13, CFG),
        Test("seeds", S_SEED, run_seed, {"quick": 1600, "thorough": 32000}, CFG + (("w32",) if CFG == ("asan",) else ())),
        Test("bels_valm", S_BELS, run_bels, {"quick": 1600, "thorough": 32000}, CFG),
        Test("pubkey", S_PK, run_pubkey, {"quick": 1200, "thorough": 24000}, CFG),
        Test("keypair", S_KP, run_keypair, {"quick": 800, "thorough": 16000}, CFG),
        Test("primes_big", S_PBIG, run_primes_big, {"quick": 1600, "thorough": 32000}, CFG + (("w32",) if CFG == ("asan",) else ())),
        Test("nextprime", S_NP, run_nextprime, {"quick": 1600, "thorough": 32000}, CFG + (("w32",) if CFG == ("asan",) else ())),
    ]
