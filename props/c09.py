"""C09: error contract - bad arguments and failed allocations yield errors, not damage.

Three tests (each as a Hypothesis test with generated seeds / variants / argument pairs, allocfail and args additionally as deterministic enumerations
allocfail_all / args_all that visit every table entry in every run) over one table of valid calls of the err_t-returning high-level functions (belt, bash, brng, botp, bels, bign, bign96,
g12s, dstu, pfok, bpki, btok CVC / SM, bake drivers; plus the argument builders of props/c15.py for the allocation test):
  allocfail  (ASan + --wrap=malloc/free/realloc/calloc) fault-free run, then the same call with the k-th allocation failing, every k;
  args       (ASan) one scalar / structured argument at a time (and pairs) moved across and beyond its documented domain;
  norelease  (ASan) after a failed authentication the caller's output holds no 8-octet window of the protected plaintext / key.
Every expected error is taken from the \\expect / \\return / \\remark text of the function's header (quoted next to the table entry).
"""
import os
from harness import Test, Sweep, Fail, Crash, st, GEN, Sym, SIZE_MAX
from gens import expand
import pyref.bign as RB
from errs import E, name as ename

RULE = ("cases: table of ~190 valid calls of err_t functions (belt ECB/CBC/CFB/CTR/MAC/DWP/CHE/KWP/Hash/BDE/SDE/FMT/KRP/HMAC/PBKDF2, bashHash, brng*Rand, botp*Rand/Verify, bels*, "
        "bign* and bign96* (3 levels), g12s*, dstu*, pfok*, bpki containers and CSR, btokCVC*, btokSM*, bake KDF/SWU, the six RunA/RunB drivers over an in-memory channel, the Start functions and the steps that call the caller's certificate validator "
        "(bakeBSTSStep4/5, btokBAuthTStep5 after an honest run up to the step; validator accepting / accepting after working on an allocated copy / refusing; message cut short)) "
        "x args: every listed scalar (key/data length, level l, alphabet size, count, threshold, digit count, iteration count, token length, time mark) at 0, 1, lo-1, lo, hi, hi+1, "
        "SIZE_MAX/2+1, SIZE_MAX and structured arguments (private key 0 / q / 2^2l-1, public key x>=p / y>=p / off-curve, bad OID DER, params.l outside {128,192,256}, "
        "share numbers 0 / 17 / duplicate, bad names / dates / suites), singly and in pairs, outputs exact-size under ASan "
        "x allocfail: fault-free run (count n, live 0), then failure injected at every k = 1..n (n capped at 12 in the quick tier) "
        "x norelease: single-bit alteration of tag / ciphertext / header / key / iv / token / container / password / last protocol message / signature, key or body of a certificate request. "
        "non-trivial: an out-of-domain argument or an injected allocation failure; distinct by (function, argument, boundary value) resp. (function, k) resp. (function, altered part)")
LEVEL = "fault_enumeration"
ASSUMPTIONS = ["the expected error of an out-of-domain value is the code named by \\expect{...} of that function's header; where the header names none only '!= ERR_OK' is demanded",
               "a length beyond the caller's buffer is passed only where the header bounds that scalar (the function must refuse it from the scalar alone); data lengths without a documented "
               "upper bound are never swept beyond the buffer (memIsValid is only a null test)",
               "\\expect{ERR_BAD_PUBKEY} is a partially checked expectation: coordinates >= p are judged, off-curve points in range only for bignDH / bignPubkeyVal-like validators; elsewhere they must only not crash",
               "glibc malloc/free/realloc/calloc interposed with --wrap; the only persistent allocations of the library (rngCreate, utilOnExit) are not reachable from the table",
               "an 8-octet window of a random plaintext / key does not occur by accident in an output buffer (2^-64 per window)",
               "outputs after an error return are not required to be unchanged (only the norelease test inspects them)"]
BUDGET = {"quick": 90, "thorough": 900}
HALF = SIZE_MAX // 2 + 1
ANY = ("*",)            # the header names no specific code: any error
NOJ = "noj"             # header silent or partially checked expectation: any return, no crash
OID_HBELT = RB.oid_to_der("1.2.112.0.2.0.34.101.31.81")
STD = {128: "1.2.112.0.2.0.34.101.45.3.1", 192: "1.2.112.0.2.0.34.101.45.3.2", 256: "1.2.112.0.2.0.34.101.45.3.3"}
KEYLENS = [0, 1, 15, 16, 17, 23, 24, 25, 31, 32, 33, 64, HALF, SIZE_MAX]
TIME_ERR = SIZE_MAX     # tm.h: TIME_ERR = (tm_time_t)(0 - 1), tm_time_t = time_t (64 bits here)

# (function, predicate on the full value dict) -> reason: confirmed disagreements between library and header that are reported, not judged
EXCLUDED = {
    # (empty on the current tree: the four disagreements this check found - beltFMT mod unchecked, botpOCRA assert on an unused time mark,
    #  bakeBSTSRun blobResize leak, bpkiShareWrap error code - are repaired in /repo, see known_findings.json; the mechanism stays for future entries)
}


def excluded(name, v):
    p = EXCLUDED.get(name)
    return p(v) if p else None


class Fn:
    """one table entry: defaults(c) -> values of the valid call; sweep[param] -> values; expect(v, c) -> None (ERR_OK) | tuple of error names | ANY | NOJ;
    build(x, c, v) -> (function, args) with every buffer sized for v (capped where the header bounds the scalar)"""

    def __init__(self, name, defaults, sweep, expect, build, alloc=True, args=True, group=""):
        self.name, self.defaults, self.sweep, self.expect, self.build, self.alloc, self.args = name, defaults, sweep, expect, build, alloc, args
        self.fn = name.split(":")[0]


T = {}


def _mod(name):
    """sibling check module (props/c15.py argument builders, c17.py certificate / SM helpers, c04.py protocol runs)"""
    import importlib
    try:
        return importlib.import_module("props." + name)
    except ImportError:
        return importlib.import_module(name)


def add(name, defaults, sweep, expect, build, **kw):
    T[name] = Fn(name, defaults, sweep, expect, build, **kw)


def data(x, c, n, tag="d", cap=4096):
    return x.buf(expand(c["seed"] + tag, min(n, cap)))


def cstr(x, s):
    return x.buf((s if isinstance(s, bytes) else s.encode()) + b"\0")


def bad_input(cond):
    return ("ERR_BAD_INPUT",) if cond else None


def merge(*exps):
    """expectation of a call with several arguments out of domain: any of the named codes (the order of the checks is not documented)"""
    out = []
    for e in exps:
        if e is None:
            continue
        if e == NOJ:
            return NOJ
        out += list(e)
    if not out:
        return None
    return ANY if "*" in out else tuple(dict.fromkeys(out))


KL = (16, 24, 32)


def klen(c):
    return KL[c["L"] % 3]


# ================================================================== belt
# belt.h (all high-level functions): "\expect{ERR_BAD_INPUT} Все входные указатели высокоуровневых функций действительны."
def add_belt():
    # ECB/CBC: "\expect{ERR_BAD_INPUT} - len == 16 || len == 24 || len == 32; - count >= 16."
    # CFB/CTR: "\expect{ERR_BAD_INPUT} len == 16 || len == 24 || len == 32."
    # BDE: "- count % 16 == 0 && count >= 16."   SDE: "- count % 16 == 0 && count >= 32."
    def cipher(fn, iv, ok, dflt, counts):
        def defaults(c):
            return {"count": dflt(c["L"]), "len": klen(c)}

        def expect(v, c):
            return bad_input(not ok(v["count"]) or v["len"] not in KL)

        def build(x, c, v):
            n = v["count"]
            a = [x.out(n), data(x, c, n), n, data(x, c, v["len"], "k", 64), v["len"]]
            if iv:
                a.append(data(x, c, 16, "iv"))
            return fn, a
        add(fn, defaults, {"count": counts, "len": KEYLENS}, expect, build)
    for fn in ("beltECBEncr", "beltECBDecr"):
        cipher(fn, 0, lambda n: n >= 16, lambda L: 16 + L % 40, [0, 1, 15, 16, 17, 31, 32, 33, 48])
    for fn in ("beltCBCEncr", "beltCBCDecr"):
        cipher(fn, 1, lambda n: n >= 16, lambda L: 16 + L % 40, [0, 1, 15, 16, 17, 31, 32, 33, 48])
    for fn in ("beltCFBEncr", "beltCFBDecr", "beltCTR"):
        cipher(fn, 1, lambda n: True, lambda L: L % 50, [0, 1, 15, 16, 17, 33])
    for fn in ("beltBDEEncr", "beltBDEDecr"):
        cipher(fn, 1, lambda n: n >= 16 and n % 16 == 0, lambda L: 16 * (1 + L % 4), [0, 1, 15, 16, 17, 24, 31, 32, 33, 48])
    for fn in ("beltSDEEncr", "beltSDEDecr"):
        cipher(fn, 1, lambda n: n >= 32 and n % 16 == 0, lambda L: 16 * (2 + L % 4), [0, 1, 16, 17, 31, 32, 33, 40, 47, 48, 64])
    # beltMAC: "\expect{ERR_BAD_INPUT} len == 16 || len == 24 || len == 32."
    add("beltMAC", lambda c: {"count": c["L"] % 50, "len": klen(c)}, {"count": [0, 1, 15, 16, 17, 32], "len": KEYLENS},
        lambda v, c: bad_input(v["len"] not in KL),
        lambda x, c, v: ("beltMAC", [x.out(8), data(x, c, v["count"]), v["count"], data(x, c, v["len"], "k", 64), v["len"]]))
    # beltHash / beltHMAC: no restriction on count / len ("\return ERR_OK, если ... успешно")
    add("beltHash", lambda c: {"count": c["L"] % 70}, {"count": [0, 1, 31, 32, 33, 64, 65]}, lambda v, c: None,
        lambda x, c, v: ("beltHash", [x.out(32), data(x, c, v["count"]), v["count"]]))
    add("beltHMAC", lambda c: {"count": c["L"] % 70, "len": 32 + c["L"] % 40}, {"count": [0, 1, 31, 32, 33], "len": [0, 1, 31, 32, 33, 64, 65]}, lambda v, c: None,
        lambda x, c, v: ("beltHMAC", [x.out(32), data(x, c, v["count"]), v["count"], data(x, c, v["len"], "k", 128), v["len"]]))
    # beltPBKDF2: "\expect{ERR_BAD_INPUT} iter != 0."
    add("beltPBKDF2", lambda c: {"pwd_len": 8 + c["L"] % 30, "iter": 1 + c["L"] % 3, "salt_len": 8}, {"pwd_len": [0, 1, 32, 33], "iter": [0, 1, 2], "salt_len": [0, 1, 8, 9]},
        lambda v, c: bad_input(v["iter"] == 0),
        lambda x, c, v: ("beltPBKDF2", [x.out(32), data(x, c, v["pwd_len"], "p"), v["pwd_len"], v["iter"], data(x, c, v["salt_len"], "s"), v["salt_len"]]))
    # beltKRP: "\expect{ERR_BAD_INPUT} - n == 16 || n == 24 || n == 32; - m == 16 || m == 24 || m == 32; - m <= n."
    add("beltKRP", lambda c: {"m": KL[c["L"] % 3 if c["L"] % 3 <= (c["L"] // 3) % 3 else 0], "n": KL[(c["L"] // 3) % 3]}, {"m": KEYLENS, "n": KEYLENS},
        lambda v, c: bad_input(v["m"] not in KL or v["n"] not in KL or v["m"] > v["n"]),
        lambda x, c, v: ("beltKRP", [x.out(min(v["m"], 64)), v["m"], data(x, c, v["n"], "k", 64), v["n"], data(x, c, 12, "l"), data(x, c, 16, "h")]))

    # DWP/CHE Wrap: "\expect{ERR_BAD_INPUT} - len == 16 || len == 24 || len == 32; - буферы dest и mac не пересекаются."  Unwrap: "\expect{ERR_BAD_INPUT} len == 16 || len == 24 || len == 32."
    def aead(mode):
        W, U = "belt%sWrap" % mode, "belt%sUnwrap" % mode

        def defaults(c):
            return {"count1": c["L"] % 50, "count2": (c["L"] * 7) % 40, "len": klen(c)}

        def expect(v, c):
            return bad_input(v["len"] not in KL)

        def bw(x, c, v):
            if v.get("place") == "mac_in_dest" and v["count1"] >= 8:
                D = x.out(v["count1"])
                return W, [D, D.at(v["count1"] - 8), data(x, c, v["count1"]), v["count1"], data(x, c, v["count2"], "a"), v["count2"], data(x, c, v["len"], "k", 64), v["len"], data(x, c, 16, "iv")]
            return W, [x.out(v["count1"]), x.out(8), data(x, c, v["count1"]), v["count1"], data(x, c, v["count2"], "a"), v["count2"], data(x, c, v["len"], "k", 64), v["len"], data(x, c, 16, "iv")]

        def expect_w(v, c):
            # belt.h (Wrap): "\expect{ERR_BAD_INPUT} ... - буферы dest и mac не пересекаются"
            return bad_input(v["len"] not in KL or (v.get("place") == "mac_in_dest" and v["count1"] >= 8))

        def bu(x, c, v):
            ct, mac = data(x, c, v["count1"], "ct"), x.zero(8)
            if v["len"] in KL:
                fn, a = bw(x, c, v)
                if x.call(fn, *a):
                    raise Fail("%s failed while preparing a valid %s call" % (W, U))
                ct, mac = a[0], a[1]
            return U, [x.out(v["count1"]), ct, v["count1"], data(x, c, v["count2"], "a"), v["count2"], mac, data(x, c, v["len"], "k", 64), v["len"], data(x, c, 16, "iv")]
        sw = {"count1": [0, 1, 15, 16, 17, 33], "count2": [0, 1, 15, 16, 17, 33], "len": KEYLENS}
        add(W, lambda c: dict(defaults(c), place="apart"), dict(sw, place=["apart", "mac_in_dest"]), expect_w, bw)
        add(U, defaults, sw, expect, bu)
    aead("DWP")
    aead("CHE")
    # KWPWrap: "\expect{ERR_BAD_INPUT} - len == 16 || len == 24 || len == 32; - count >= 16."   KWPUnwrap: "- count >= 32."   "При нулевом указателе header используется нулевой заголовок."

    def kw(x, c, v):
        n = v["count"]
        return "beltKWPWrap", [x.out(n + 16), data(x, c, n), n, data(x, c, 16, "h") if c["L"] % 2 else None, data(x, c, v["len"], "k", 64), v["len"]]

    def ku(x, c, v):
        n = v["count"]
        tok = data(x, c, n, "t")
        if n >= 32 and v["len"] in KL:
            fn, a = kw(x, c, {"count": n - 16, "len": v["len"]})
            if x.call(fn, *a):
                raise Fail("beltKWPWrap failed while preparing a valid beltKWPUnwrap call")
            tok = a[0]
        return "beltKWPUnwrap", [x.out(max(n, 16) - 16), tok, n, data(x, c, 16, "h") if c["L"] % 2 else None, data(x, c, v["len"], "k", 64), v["len"]]
    add("beltKWPWrap", lambda c: {"count": 16 + c["L"] % 50, "len": klen(c)}, {"count": [0, 1, 15, 16, 17, 32, 33], "len": KEYLENS},
        lambda v, c: bad_input(v["count"] < 16 or v["len"] not in KL), kw)
    add("beltKWPUnwrap", lambda c: {"count": 32 + c["L"] % 50, "len": klen(c)}, {"count": [0, 1, 16, 31, 32, 33, 48], "len": KEYLENS},
        lambda v, c: bad_input(v["count"] < 32 or v["len"] not in KL), ku)

    # FMT: "\expect{ERR_BAD_INPUT} - 2 <= mod && mod <= 65536; - 2 <= count; - len == 16 || len == 24 || len == 32; ..."  "\expect{ERR_NOT_IMPLEMENTED} count <= 600."
    def fmt(fn):
        def defaults(c):
            return {"mod": [10, 256, 1000, 65536, 2, 3, 65535, 257][c["L"] % 8], "count": 2 + (c["L"] * 13) % 60, "len": klen(c), "place": "apart"}

        def expect(v, c):
            e = []
            # belt.h: "\expect{ERR_BAD_INPUT} ... - если iv ненулевой, то буферы iv и [count]dest не пересекаются" ("Все буферы, кроме iv и [count]dest, могут пересекаться")
            if not 2 <= v["mod"] <= 65536 or v["count"] < 2 or v["len"] not in KL or (v["place"].startswith("iv_in_dest") and 9 <= v["count"] <= 601):
                e.append("ERR_BAD_INPUT")
            if v["count"] > 600:
                e.append("ERR_NOT_IMPLEMENTED")
            return tuple(e) or None

        def build(x, c, v):
            cnt, mod = min(v["count"], 601), v["mod"]
            raw = expand(c["seed"] + "f", 2 * cnt)
            m = mod if 2 <= mod <= 65536 else 1
            src = b"".join((int.from_bytes(raw[2 * j:2 * j + 2], "little") % m).to_bytes(2, "little") for j in range(cnt))
            if v["place"] != "apart" and cnt >= 9:
                # iv (16 octets) inside the destination (forbidden) or inside the source only (allowed)
                if v["place"].startswith("iv_in_dest"):
                    D = x.out(2 * cnt)
                    off = {"iv_in_dest_lo": 0, "iv_in_dest_hi": 2 * cnt - 16, "iv_in_dest_1": 2 * cnt - 1}[v["place"]]
                    if off == 2 * cnt - 1:
                        D = x.out(2 * cnt + 15)        # one octet of overlap: iv starts at the last octet of dest
                    return fn, [D, mod, x.buf(src), v["count"], data(x, c, v["len"], "k", 64), v["len"], D.at(off)]
                S_ = x.buf(src)
                return fn, [x.out(2 * cnt), mod, S_, v["count"], data(x, c, v["len"], "k", 64), v["len"], S_.at(0)]
            return fn, [x.out(2 * cnt), mod, x.buf(src), v["count"], data(x, c, v["len"], "k", 64), v["len"], data(x, c, 16, "iv") if c["L"] % 2 else None]
        add(fn, defaults, {"mod": [0, 1, 2, 3, 10, 255, 256, 257, 65535, 65536, 65537, 0x80000000, 0xFFFFFFFF], "count": [0, 1, 2, 3, 599, 600, 601, HALF, SIZE_MAX], "len": KEYLENS,
                           "place": ["apart", "iv_in_dest_lo", "iv_in_dest_hi", "iv_in_dest_1", "iv_in_src"]}, expect, build)
    fmt("beltFMTEncr")
    fmt("beltFMTDecr")


# ================================================================== bash, brng
def add_bash_brng():
    # bashHash: "\expect{ERR_BAD_PARAM} l > 0 && l % 16 == 0 && l <= 256."
    add("bashHash", lambda c: {"l": 16 * (1 + c["L"] % 16), "count": (c["L"] * 11) % 300}, {"l": [0, 1, 15, 16, 17, 32, 128, 192, 240, 255, 256, 257, 272, 512, HALF, SIZE_MAX], "count": [0, 1, 127, 128, 129, 192]},
        lambda v, c: None if (v["l"] > 0 and v["l"] % 16 == 0 and v["l"] <= 256) else ("ERR_BAD_PARAMS",),
        lambda x, c, v: ("bashHash", [x.out(min(v["l"], 256) // 4), v["l"], data(x, c, v["count"]), v["count"]]))
    # brngCTRRand / brngHMACRand: no restriction on count, key_len, iv_len ("Ограничений на iv_len нет"); "\expect{ERR_BAD_INPUT} Буферы buf и iv не пересекаются."
    add("brngCTRRand", lambda c: {"count": 1 + c["L"] % 90}, {"count": [0, 1, 31, 32, 33, 64, 65]}, lambda v, c: None,
        lambda x, c, v: ("brngCTRRand", [data(x, c, v["count"], "b"), v["count"], data(x, c, 32, "k"), data(x, c, 32, "iv")]))
    add("brngHMACRand", lambda c: {"count": 1 + c["L"] % 90, "key_len": 32, "iv_len": c["L"] % 80}, {"count": [0, 1, 31, 32, 33, 65], "key_len": [0, 1, 32, 33, 65], "iv_len": [0, 1, 63, 64, 65, 100]}, lambda v, c: None,
        lambda x, c, v: ("brngHMACRand", [x.out(v["count"]), v["count"], data(x, c, v["key_len"], "k"), v["key_len"], data(x, c, v["iv_len"], "iv"), v["iv_len"]]))


# ================================================================== botp
OCRA_OK = ["OCRA-1:HOTP-HBELT-8:C-QN08-PHBELT", "OCRA-1:HOTP-HBELT-6:QA10-T1M", "OCRA-1:HOTP-HBELT-8:QH40-S064", "OCRA-1:HOTP-HBELT-4:QN04", "OCRA-1:HOTP-HBELT-8:QN08-S512"]
# session information longer than the 512 octets this implementation keeps: well-formed by RFC 6287 (three digits), refused here; botp.h does not say with which code,
# so only "no crash, no overrun" is demanded (the session buffer passed has 999 octets)
OCRA_NOJ = ["OCRA-1:HOTP-HBELT-8:QN08-S513", "OCRA-1:HOTP-HBELT-8:QN08-S519", "OCRA-1:HOTP-HBELT-8:QN08-S520", "OCRA-1:HOTP-HBELT-8:QN08-S999", "OCRA-1:HOTP-HBELT-8:C-QN08-PHBELT-S600-T1M"]
# not of the form OCRA-1:HOTP-HBELT-d:[C-]Q[ANH]xx[-P..][-Sxxx][-T..] (RFC 6287, digits 4..9 in this implementation; 3 / 0 are refused everywhere)
OCRA_BAD = ["", "OCRA-2:HOTP-HBELT-8:QN08", "OCRA-1:HOTP-HBELT-3:QN08", "OCRA-1:HOTP-HBELT-8:QX08", "OCRA-1:HOTP-HBELT-8:QN03", "OCRA-1:HOTP-HBELT-8:QN65", "OCRA-1:HOTP-HBELT-8:QN08-T60S",
            "OCRA-1:HOTP-HBELT-8", "garbage", "OCRA-1:HOTP-HBELT-8:QN08-PMD5", "OCRA-1:HOTP-HBELT-8:QN08-S9"]


def add_botp():
    DIG = [0, 1, 5, 6, 7, 8, 9, 10, 11, HALF, SIZE_MAX]

    def dig_ok(d):
        return 6 <= d <= 8
    # botpHOTPRand: "\expect{ERR_BAD_PARAMS} 6 <= digit && digit <= 8."   botpTOTPRand: the same and "\expect{ERR_BAD_TIME} t != TIME_ERR."
    add("botpHOTPRand", lambda c: {"digit": 6 + c["L"] % 3, "key_len": 32}, {"digit": DIG, "key_len": [0, 1, 32, 33, 65]},
        lambda v, c: None if dig_ok(v["digit"]) else ("ERR_BAD_PARAMS",),
        lambda x, c, v: ("botpHOTPRand", [x.out(min(v["digit"], 16) + 1), v["digit"], data(x, c, v["key_len"], "k"), v["key_len"], data(x, c, 8, "c")]))
    add("botpTOTPRand", lambda c: {"digit": 6 + c["L"] % 3, "key_len": 32, "t": 1000000 + c["L"]}, {"digit": DIG, "key_len": [0, 1, 32, 33], "t": [0, 1, TIME_ERR - 1, TIME_ERR]},
        lambda v, c: merge(None if dig_ok(v["digit"]) else ("ERR_BAD_PARAMS",), ("ERR_BAD_TIME",) if v["t"] == TIME_ERR else None),
        lambda x, c, v: ("botpTOTPRand", [x.out(min(v["digit"], 16) + 1), v["digit"], data(x, c, v["key_len"], "k"), v["key_len"], v["t"]]))

    # botpHOTPVerify / botpTOTPVerify: "\expect{ERR_BAD_PWD} 6 <= digit && digit <= 8." (digit = strLen(otp)); "\expect{ERR_BAD_PWD} Пароль otp совпадает с построенным."; TOTP: "\expect{ERR_BAD_TIME} t != TIME_ERR."
    def otp_for(x, c, v, rand, extra):
        d = v["digit"]
        if dig_ok(d) and v.get("t") != TIME_ERR:
            o = x.out(d + 1)
            if x.call(rand, o, d, data(x, c, v["key_len"], "k"), v["key_len"], *extra):
                raise Fail("%s failed while preparing a valid Verify call" % rand)
            s = o.read()
            if v.get("wrong"):
                s = bytes([48 + (s[0] - 48 + 1) % 10]) + s[1:]
            return x.buf(s)
        return x.buf(b"1" * min(d, 20) + b"\0")
    add("botpHOTPVerify", lambda c: {"digit": 6 + c["L"] % 3, "key_len": 32, "wrong": 0}, {"digit": [0, 1, 5, 6, 7, 8, 9, 10, 11], "wrong": [0, 1]},
        lambda v, c: None if dig_ok(v["digit"]) and not v["wrong"] else ("ERR_BAD_PWD",),
        lambda x, c, v: ("botpHOTPVerify", [otp_for(x, c, v, "botpHOTPRand", [data(x, c, 8, "c")]), data(x, c, v["key_len"], "k"), v["key_len"], data(x, c, 8, "c")]))
    add("botpTOTPVerify", lambda c: {"digit": 6 + c["L"] % 3, "key_len": 32, "wrong": 0, "t": 1000000 + c["L"]}, {"digit": [0, 1, 5, 6, 7, 8, 9, 10, 11], "wrong": [0, 1], "t": [0, TIME_ERR]},
        lambda v, c: merge(None if dig_ok(v["digit"]) and not v["wrong"] else ("ERR_BAD_PWD",), ("ERR_BAD_TIME",) if v["t"] == TIME_ERR else None),
        lambda x, c, v: ("botpTOTPVerify", [otp_for(x, c, v, "botpTOTPRand", [v["t"]]), data(x, c, v["key_len"], "k"), v["key_len"], v["t"]]))

    # botpOCRARand / Verify: "\expect{ERR_BAD_FORMAT} Формат suite корректен."  "\expect{ERR_BAD_PARAMS} 4 <= q_len && q_len <= 2 * q_max"
    # "\expect{ERR_BAD_TIME} Если suite задает использование t, то t != TIME_ERR."  Verify: "\expect{ERR_BAD_PWD} Пароль otp подошел."
    def ocra_defaults(c):
        return {"suite": OCRA_OK[c["L"] % len(OCRA_OK)], "q_len": 4 + c["L"] % 5, "t": 777 + c["L"], "key_len": 32, "wrong": 0}

    def qmax(s):
        i = s.index(":Q") if ":Q" in s else s.index("-Q")
        return int(s[i + 3:i + 5])

    def ocra_expect(v, c):
        if v["suite"] in OCRA_NOJ:
            return NOJ
        if v["suite"] in OCRA_BAD:
            return ("ERR_BAD_FORMAT",)
        e = []
        if not 4 <= v["q_len"] <= 2 * qmax(v["suite"]):
            e.append("ERR_BAD_PARAMS")
        if "-T" in v["suite"] and v["t"] == TIME_ERR:
            e.append("ERR_BAD_TIME")
        if v["wrong"]:
            e.append("ERR_BAD_PWD")
        return tuple(e) or None

    def ocra_args(x, c, v):
        # a q_len above 2 * q_max <= 128 is refused from the scalar (documented bound): the buffer is capped
        return [cstr(x, v["suite"]), data(x, c, v["key_len"], "k"), v["key_len"], x.buf((b"12345678" * 17)[:min(v["q_len"], 136)]), v["q_len"],
                data(x, c, 8, "c"), data(x, c, 64, "p"), data(x, c, 999, "s", 999), v["t"]]

    def ocra_rand(x, c, v):
        return "botpOCRARand", [x.out(10)] + ocra_args(x, c, v)

    def ocra_verify(x, c, v):
        a = ocra_args(x, c, v)
        otp = x.buf(b"123456\0")
        if ocra_expect(dict(v, wrong=0), c) is None:
            o = x.out(10)
            if x.call("botpOCRARand", o, *a):
                raise Fail("botpOCRARand failed while preparing a valid Verify call")
            s = o.read().split(b"\0")[0]
            if v["wrong"]:
                s = bytes([48 + (s[0] - 48 + 1) % 10]) + s[1:]
            otp = x.buf(s + b"\0")
        return "botpOCRAVerify", [otp] + a
    sw = {"suite": OCRA_OK + OCRA_BAD + OCRA_NOJ, "q_len": [0, 1, 3, 4, 5, 8, 9, 16, 17, 80, 81, 129, HALF, SIZE_MAX], "t": [0, TIME_ERR], "key_len": [0, 1, 33]}
    add("botpOCRARand", ocra_defaults, sw, ocra_expect, ocra_rand)
    add("botpOCRAVerify", ocra_defaults, dict(sw, wrong=[0, 1]), ocra_expect, ocra_verify)


# ================================================================== bels
# bels.h: "\expect{ERR_BAD_INPUT} Все входные указатели действительны."
def add_bels():
    LENS = KEYLENS
    # belsStdM: "\expect{ERR_BAD_INPUT} - len == 16 || len == 24 || len == 32; - 0 <= num <= 16."
    add("belsStdM", lambda c: {"len": klen(c), "num": c["L"] % 17}, {"len": LENS, "num": [0, 1, 15, 16, 17, 255, HALF, SIZE_MAX]},
        lambda v, c: bad_input(v["len"] not in KL or v["num"] > 16),
        lambda x, c, v: ("belsStdM", [x.out(min(v["len"], 64)), v["len"], v["num"]]))

    def stdm(x, ln, num):
        m = x.out(ln)
        if x.call("belsStdM", m, ln, num):
            raise Fail("belsStdM(%d, %d) failed" % (ln, num))
        return m.read()
    # belsValM: "\expect{ERR_BAD_INPUT} len == 16 || len == 24 || len == 32."; a reducible polynomial: "код ошибки" (none named)

    def valm(x, c, v):
        ln = v["len"]
        m = stdm(x, ln, c["L"] % 17) if ln in KL else expand(c["seed"], min(ln, 64))
        if v.get("m") == "zero":
            m = bytes(len(m))       # x^l: reducible
        return "belsValM", [x.buf(m), ln]
    add("belsValM", lambda c: {"len": klen(c), "m": "std"}, {"len": LENS, "m": ["std", "zero"]},
        lambda v, c: merge(bad_input(v["len"] not in KL), ANY if v["m"] == "zero" else None), valm)
    # belsGenM0: "\expect{ERR_BAD_INPUT} len == 16 || len == 24 || len == 32."
    add("belsGenM0", lambda c: {"len": klen(c)}, {"len": LENS}, lambda v, c: bad_input(v["len"] not in KL),
        lambda x, c, v: ("belsGenM0", [x.out(min(v["len"], 64)), v["len"], GEN, x.tape(expand(c["seed"] + "ang", 64), mode=0)]))
    # belsGenMi / belsGenMid: "\expect{ERR_BAD_INPUT} len == ...";  "\expect{ERR_BAD_PUBKEY} Ключ m0 корректен." (detected when no attempt yields an irreducible polynomial: m0 = 0 -> f0 = x^l)

    def genmi(mid):
        def build(x, c, v):
            ln = v["len"]
            m0 = stdm(x, ln, 0) if ln in KL else expand(c["seed"], min(ln, 64))
            if v["m0"] == "zero":
                m0 = bytes(len(m0))
            if mid:
                return "belsGenMid", [x.out(min(ln, 64)), ln, x.buf(m0), data(x, c, v["id_len"], "id"), v["id_len"]]
            return "belsGenMi", [x.out(min(ln, 64)), ln, x.buf(m0), GEN, x.tape(expand(c["seed"] + "ang", 64), mode=0)]
        return build
    add("belsGenMi", lambda c: {"len": klen(c), "m0": "std"}, {"len": LENS, "m0": ["std", "zero"]},
        lambda v, c: merge(bad_input(v["len"] not in KL), NOJ if v["m0"] == "zero" else None), genmi(False))
    add("belsGenMid", lambda c: {"len": klen(c), "m0": "std", "id_len": c["L"] % 40}, {"len": LENS, "m0": ["std", "zero"], "id_len": [0, 1, 32, 33]},
        lambda v, c: merge(bad_input(v["len"] not in KL), NOJ if v["m0"] == "zero" else None), genmi(True))
    # belsShare: "\expect{ERR_BAD_INPUT} - len == 16 || len == 24 || len == 32; - 0 < threshold <= count."  (count has no documented upper bound: never beyond the buffers)
    # belsShare2/3: "- 0 < threshold <= count <= 16."

    def share_defaults(c):
        cnt = 1 + c["L"] % 16
        return {"len": klen(c), "count": cnt, "threshold": 1 + (c["L"] // 16) % cnt}

    def share(x, c, v):
        ln, cnt = v["len"], v["count"]
        lb = min(ln, 64)
        if ln in KL:
            m0, mi = stdm(x, ln, 0), b"".join(stdm(x, ln, 1 + i % 16) for i in range(cnt))
        else:
            m0, mi = expand(c["seed"] + "m0", lb), expand(c["seed"] + "mi", lb * cnt)
        return "belsShare", [x.out(cnt * lb), cnt, v["threshold"], ln, data(x, c, ln, "s", 64), x.buf(m0), x.buf(mi), GEN, x.tape(expand(c["seed"] + "k", 64), mode=0)]
    add("belsShare", share_defaults, {"len": LENS, "count": [0, 1, 2, 16], "threshold": [0, 1, 2, 16, 17, HALF, SIZE_MAX]},
        lambda v, c: bad_input(v["len"] not in KL or v["threshold"] == 0 or v["threshold"] > v["count"]), share)

    def share23(fn):
        def build(x, c, v):
            ln, cnt = v["len"], min(v["count"], 17)
            a = [x.out(cnt * (min(ln, 64) + 1)), v["count"], v["threshold"], ln, data(x, c, ln, "s", 64)]
            if fn == "belsShare2":
                a += [GEN, x.tape(expand(c["seed"] + "k", 64), mode=0)]
            return fn, a
        add(fn, share_defaults, {"len": LENS, "count": [0, 1, 2, 15, 16, 17, HALF, SIZE_MAX], "threshold": [0, 1, 2, 16, 17, HALF, SIZE_MAX]},
            lambda v, c: bad_input(v["len"] not in KL or v["threshold"] == 0 or v["threshold"] > v["count"] or v["count"] > 16), build)
    share23("belsShare2")
    share23("belsShare3")
    # belsRecover: "\expect{ERR_BAD_INPUT} len == ...";  "\expect{ERR_BAD_PUBKEY} Открытые ключи m0, mi корректны и отличаются друг от друга." (count = 0 is not described: not judged)

    def recover(x, c, v):
        ln, cnt = v["len"], v["count"]
        lb = min(ln, 64)
        nums = [1 + (c["L"] + i) % 16 for i in range(cnt)]
        if v["dup"] and cnt >= 2:
            nums[-1] = nums[0]
        if ln in KL:
            m0, mi = stdm(x, ln, 0), b"".join(stdm(x, ln, k) for k in nums)
        else:
            m0, mi = expand(c["seed"] + "m0", lb), expand(c["seed"] + "mi", lb * cnt)
        return "belsRecover", [x.out(lb), cnt, ln, data(x, c, cnt * lb, "si"), x.buf(m0), x.buf(mi)]
    add("belsRecover", lambda c: {"len": klen(c), "count": 1 + c["L"] % 16, "dup": 0}, {"len": LENS, "count": [0, 1, 2, 3, 16], "dup": [0, 1]},
        lambda v, c: merge(bad_input(v["len"] not in KL), NOJ if v["count"] == 0 else None, ("ERR_BAD_PUBKEY",) if v["dup"] and v["count"] >= 2 else None), recover)
    # belsRecover2: "\expect{ERR_BAD_INPUT} len == ...";  "\expect{ERR_BAD_PUBKEY} Номера открытых ключей, указанные в первых октетах частичных секретов, принадлежат интервалу {1, 2, ..., 16} и отличаются друг от друга."
    # (count = 0 not described: not judged; count = 17 cannot have distinct numbers in 1..16: some error)

    def recover2(x, c, v):
        ln, cnt = v["len"], v["count"]
        lb = min(ln, 64)
        nums = [1 + (c["L"] + i) % 16 for i in range(cnt)]
        if cnt:
            j = c["L"] % cnt
            if v["num"] == "dup" and cnt >= 2:
                nums[j] = nums[(j + 1) % cnt]
            elif v["num"] != "ok" and v["num"] != "dup":
                nums[j] = v["num"]
        raw = expand(c["seed"] + "si", cnt * lb)
        si = b"".join(bytes([nums[i]]) + raw[i * lb:(i + 1) * lb] for i in range(cnt))
        return "belsRecover2", [x.out(lb), cnt, ln, x.buf(si)]

    def recover2_expect(v, c):
        e = [bad_input(v["len"] not in KL)]
        if v["count"] == 0:
            e.append(NOJ)
        elif v["count"] > 16:
            e.append(ANY)
        elif v["num"] in (0, 17, 255) or (v["num"] == "dup" and v["count"] >= 2):
            e.append(("ERR_BAD_PUBKEY",))
        return merge(*e)
    add("belsRecover2", lambda c: {"len": klen(c), "count": 1 + c["L"] % 16, "num": "ok"}, {"len": LENS, "count": [0, 1, 2, 16, 17], "num": ["ok", 0, 17, 255, "dup"]}, recover2_expect, recover2)



# ================================================================== bign, bign96
_OFF = {}


def field_off(x, st_no, i):
    """offset of field i of the parameter structure st_no (x/shim_c12.c: 0 bign_params, 1 g12s_params, 2 dstu_params, 3 pfok_params, 4 stb99_params)"""
    if (st_no, i) not in _OFF:
        _OFF[(st_no, i)] = x.call("x_c12_layout", st_no, i, 0, ret="z")
    return _OFF[(st_no, i)]


def struct_size(x, st_no, nfields):
    if (st_no, "size") not in _OFF:
        _OFF[(st_no, "size")] = x.call("x_c12_layout", st_no, nfields, 1, ret="z")
    return _OFF[(st_no, "size")]


def bign_P(x, l):
    P = x.out(struct_size(x, 0, 7))
    fn, nm = ("bign96ParamsStd", "1.2.112.0.2.0.34.101.45.3.0") if l == 96 else ("bignParamsStd", STD[l])
    if x.call(fn, P, cstr(x, nm)):
        raise Fail("%s(%s) failed" % (fn, nm))
    return P


def set_l(x, P, true_l, l):
    """params->l := l (u32); the other fields stay those of the standard set"""
    if l != true_l:
        P.write((l & 0xFFFFFFFF).to_bytes(4, "little"), field_off(x, 0, 0))


BIGN_L = [0, 1, 64, 96, 127, 129, 191, 255, 257, 512, 0x80000000, 0xFFFFFFFF]
PRIV_CLS = ["ok", "one", "qm1", "zero", "q", "max"]
PUB_CLS = ["ok", "xp", "yp", "xmax", "off"]
OID_CLS = ["ok", "ok2", "trunc", "extra", "empty", "badtag", "badlen"]


def bl(c):
    return (128, 192, 256)[c["L"] % 3]


def mparams(l):
    return RB._P(96) if l == 96 else RB.std_params(l)


def priv_of(c, l, cls, tag="d"):
    M = mparams(l)
    q, n = M["q"], l // 4
    d = {"one": 1, "qm1": q - 1, "zero": 0, "q": q, "max": (1 << (8 * n)) - 1}.get(cls)
    if d is None:
        d = int.from_bytes(expand(c["seed"] + tag, n + 8), "little") % (q - 1) + 1
    return d.to_bytes(n, "little")


def pub_calc(x, P, l, d):
    Q = x.out(l // 2)
    fn = "bign96PubkeyCalc" if l == 96 else "bignPubkeyCalc"
    if x.call(fn, Q, P, x.buf(d)):
        raise Fail("%s failed while preparing a call" % fn)
    return Q.read()


def pub_alter(l, Q, cls):
    M = mparams(l)
    p, n = M["p"], l // 4
    xv, yv = int.from_bytes(Q[:n], "little"), int.from_bytes(Q[n:], "little")
    top = 1 << (8 * n)
    if cls == "xp":
        xv = p + xv % (top - p)
    elif cls == "yp":
        yv = p + yv % (top - p)
    elif cls == "xmax":
        xv = top - 1
    elif cls == "off":
        yv = (yv + 1) % p       # (x, y + 1) lies on the curve only if 2y + 1 = 0 (mod p): checked, then (x, y - 1) is taken
        if (yv * yv - (xv ** 3 + M["a"] * xv + M["b"])) % p == 0:
            yv = (yv - 2) % p
    return xv.to_bytes(n, "little") + yv.to_bytes(n, "little")


def oid_of(cls):
    """-> (buffer content, oid_len)"""
    o = OID_HBELT
    if cls == "ok2":
        o = RB.oid_to_der("2.999.4294967295.1")
    if cls == "trunc":
        return o, len(o) - 1
    if cls == "extra":
        return o + b"\x01", len(o) + 1
    if cls == "empty":
        return o, 0
    if cls == "badtag":
        return b"\x05" + o[1:], len(o)
    if cls == "badlen":
        return o[:1] + bytes([o[1] + 1]) + o[2:], len(o)
    return o, len(o)


def e_l(v, l):
    # bign.h: "\expect{ERR_BAD_PARAMS} Параметры params корректны."  (l outside the levels of the standard: params cannot be correct)
    return ("ERR_BAD_PARAMS",) if v.get("l", l) != l else None


def e_oid(v):
    # bign.h section bign-oid: "Если идентификатор некорректен, то функции, в которых он используется, возвращают код ERR_BAD_OID."
    return ("ERR_BAD_OID",) if v.get("oid", "ok") not in ("ok", "ok2") else None


def e_priv(v, key="priv"):
    # "\expect{ERR_BAD_PRIVKEY} Личный ключ privkey корректен." (0 < d < q)
    return ("ERR_BAD_PRIVKEY",) if v.get(key, "ok") in ("zero", "q", "max") else None


def e_pub(v, key="pub", judge_off=False):
    # "\expect{ERR_BAD_PUBKEY} Открытый ключ pubkey корректен.": coordinates >= p are judged; an off-curve point in range only where validation is the function's purpose
    cls = v.get(key, "ok")
    if cls in ("xp", "yp", "xmax"):
        return ("ERR_BAD_PUBKEY",)
    if cls == "off":
        return ("ERR_BAD_PUBKEY",) if judge_off else NOJ
    return None


def e_rng(v):
    # "\expect{ERR_BAD_RNG} Генератор rng (с состоянием rng_state) корректен." (65 samples outside [1, q - 1]); a null rng is also an invalid
    # input pointer ("\expect{ERR_BAD_INPUT} Все входные указатели корректны."): either code
    r = v.get("rng", "ok")
    return None if r == "ok" else ("ERR_BAD_RNG", "ERR_BAD_INPUT") if r == "null" else ("ERR_BAD_RNG",)


def rng_args(x, c, v, l, tag="k"):
    if v.get("rng") == "null":
        return [None, None]
    if v.get("rng") == "ff":
        return [GEN, x.tape(b"", mode=2)]
    return [GEN, x.tape(expand(c["seed"] + tag, l // 4)[:-1] + b"\x01", mode=0)]


def add_bign(l96=False):
    pfx = "bign96" if l96 else "bign"

    def L(c):
        return 96 if l96 else bl(c)
    LS = [0, 1, 95, 97, 128, 192, 0xFFFFFFFF] if l96 else BIGN_L

    def prep(x, c, v):
        l = L(c)
        P = bign_P(x, l)
        return l, P

    def fin(x, P, l, v):
        set_l(x, P, l, v.get("l", l))
        return P

    def nm(s, c=None):
        return pfx + s
    # ---- ParamsStd: "Поддерживаются следующие имена ..." (any other name: "код ошибки")
    good = ["1.2.112.0.2.0.34.101.45.3.0"] if l96 else list(STD.values())
    bad = ["", "1.2.3", good[0] + ".1", good[0][:-1] + "7", "bign-curve256v1"] + ([STD[128]] if l96 else ["1.2.112.0.2.0.34.101.45.3.0"])
    add(pfx + "ParamsStd", lambda c: {"name": good[c["L"] % len(good)]}, {"name": good + bad}, lambda v, c: ANY if v["name"] in bad else None,
        lambda x, c, v: (pfx + "ParamsStd", [x.out(struct_size(x, 0, 7)), cstr(x, v["name"])]))
    # ---- ParamsVal: "\return ERR_OK, если параметры корректны, и код ошибки в противном случае."
    add(pfx + "ParamsVal", lambda c: {"l": L(c)}, {"l": LS}, lambda v, c: ANY if v["l"] != L(c) else None,
        lambda x, c, v: (pfx + "ParamsVal", [fin(x, prep(x, c, v)[1], L(c), v)]))

    # ---- KeypairGen: "\expect{ERR_BAD_PARAMS}", "\expect{ERR_BAD_RNG}"
    def keypairgen(x, c, v):
        l, P = prep(x, c, v)
        return pfx + "KeypairGen", [x.out(l // 4), x.out(l // 2), fin(x, P, l, v)] + rng_args(x, c, v, l)
    add(pfx + "KeypairGen", lambda c: {"l": L(c), "rng": "ok"}, {"l": LS, "rng": ["ok", "null", "ff"]}, lambda v, c: merge(e_l(v, L(c)), e_rng(v)), keypairgen)

    # ---- KeypairVal / PubkeyVal: "\expect{ERR_BAD_PARAMS}"; a bad key: "код ошибки в противном случае"
    def keypairval(x, c, v):
        l, P = prep(x, c, v)
        d = priv_of(c, l, v["priv"])
        Q = pub_alter(l, pub_calc(x, P, l, priv_of(c, l, v["priv"] if v["priv"] in ("ok", "one", "qm1") else "ok")), v["pub"])
        return pfx + "KeypairVal", [fin(x, P, l, v), x.buf(d), x.buf(Q)]
    add(pfx + "KeypairVal", lambda c: {"l": L(c), "priv": "ok", "pub": "ok"}, {"l": LS, "priv": PRIV_CLS, "pub": PUB_CLS},
        lambda v, c: merge(e_l(v, L(c)), ANY if v["priv"] in ("zero", "q", "max") or v["pub"] != "ok" else None), keypairval)

    def pubkeyval(x, c, v):
        l, P = prep(x, c, v)
        Q = pub_alter(l, pub_calc(x, P, l, priv_of(c, l, "ok")), v["pub"])
        return pfx + "PubkeyVal", [fin(x, P, l, v), x.buf(Q)]
    add(pfx + "PubkeyVal", lambda c: {"l": L(c), "pub": "ok"}, {"l": LS, "pub": PUB_CLS}, lambda v, c: merge(e_l(v, L(c)), ANY if v["pub"] != "ok" else None), pubkeyval)

    # ---- PubkeyCalc: "\expect{ERR_BAD_PARAMS}", "\expect{ERR_BAD_PRIVKEY} Личный ключ privkey корректен."
    def pubkeycalc(x, c, v):
        l, P = prep(x, c, v)
        return pfx + "PubkeyCalc", [x.out(l // 2), fin(x, P, l, v), x.buf(priv_of(c, l, v["priv"]))]
    add(pfx + "PubkeyCalc", lambda c: {"l": L(c), "priv": "ok"}, {"l": LS, "priv": PRIV_CLS}, lambda v, c: merge(e_l(v, L(c)), e_priv(v)), pubkeycalc)

    # ---- Sign / Sign2: "\expect{ERR_BAD_PARAMS}", "\expect{ERR_BAD_OID}", "\expect{ERR_BAD_PRIVKEY}", "\expect{ERR_BAD_RNG}"
    def siglen(l):
        return 34 if l == 96 else 3 * l // 8

    # "\expect{ERR_BAD_INPUT} Буферы sig и hash не пересекаются." - adjacent buffers are disjoint (accepted), one octet in common is an overlap
    def sig_hash(x, c, v, l):
        hl, sl = l // 4, siglen(l)
        H = expand(c["seed"] + "h", hl)
        pl = v.get("place", "apart")
        if pl == "hash_sig":
            blk = x.buf(H + b"\xCC" * sl); return blk.at(hl), blk
        if pl == "sig_hash":
            blk = x.buf(b"\xCC" * sl + H); return blk, blk.at(sl)
        if pl == "overlap_1":
            blk = x.buf(H + b"\xCC" * (sl - 1)); return blk.at(hl - 1), blk          # the last octet of hash is the first of sig
        if pl == "sig_inside_hash_end":
            blk = x.buf(b"\xCC" * (sl - 1) + H); return blk, blk.at(sl - 1)
        return x.out(sl), x.buf(H)

    def e_place(v):
        return ("ERR_BAD_INPUT",) if v.get("place", "apart") in ("overlap_1", "sig_inside_hash_end") else None

    def sign(x, c, v):
        l, P = prep(x, c, v)
        oid, oid_len = oid_of(v["oid"])
        S_, H_ = sig_hash(x, c, v, l)
        return pfx + "Sign", [S_, fin(x, P, l, v), x.buf(oid), oid_len, H_, x.buf(priv_of(c, l, v["priv"]))] + rng_args(x, c, v, l)

    def sign2(x, c, v):
        l, P = prep(x, c, v)
        oid, oid_len = oid_of(v["oid"])
        t = data(x, c, v["t_len"], "t") if v["t_len"] or c["L"] % 2 else None
        S_, H_ = sig_hash(x, c, v, l)
        return pfx + "Sign2", [S_, fin(x, P, l, v), x.buf(oid), oid_len, H_, x.buf(priv_of(c, l, v["priv"])), t, v["t_len"]]
    PLACES = ["apart", "hash_sig", "sig_hash", "overlap_1", "sig_inside_hash_end"]
    add(pfx + "Sign", lambda c: {"l": L(c), "oid": "ok", "priv": "ok", "rng": "ok", "place": "apart"}, {"l": LS, "oid": OID_CLS, "priv": PRIV_CLS, "rng": ["ok", "null", "ff"], "place": PLACES},
        lambda v, c: merge(e_l(v, L(c)), e_oid(v), e_priv(v), e_rng(v), e_place(v)), sign)
    add(pfx + "Sign2", lambda c: {"l": L(c), "oid": "ok", "priv": "ok", "t_len": c["L"] % 40, "place": "apart"}, {"l": LS, "oid": OID_CLS, "priv": PRIV_CLS, "t_len": [0, 1, 31, 32, 33, 100], "place": PLACES},
        lambda v, c: merge(e_l(v, L(c)), e_oid(v), e_priv(v), e_place(v)), sign2)

    # ---- Verify: "\expect{ERR_BAD_PARAMS}", "\expect{ERR_BAD_OID}", "\expect{ERR_BAD_PUBKEY}", "\remark При нарушении ограничений на ЭЦП возвращается код ERR_BAD_SIG."
    def mk_sig(x, c, P, l, d, H, oid, oid_len):
        s = x.out(siglen(l))
        if x.call(pfx + "Sign2", s, P, x.buf(oid), oid_len, x.buf(H), x.buf(d), None, 0):
            raise Fail("%sSign2 failed while preparing a signature" % pfx)
        return s.read()

    def verify(x, c, v):
        l, P = prep(x, c, v)
        d = priv_of(c, l, "ok")
        H = expand(c["seed"] + "h", l // 4)
        good_oid = oid_of(v["oid"] if v["oid"] in ("ok", "ok2") else "ok")
        sig = mk_sig(x, c, P, l, d, H, *good_oid)
        if v["sig"] == "alt":
            b = bytearray(sig); b[c["L"] % len(sig)] ^= 1 << (c["L"] % 8); sig = bytes(b)
        elif v["sig"] == "s1max":
            sig = sig[:len(sig) - l // 4] + b"\xff" * (l // 4)
        oid, oid_len = oid_of(v["oid"])
        Q = pub_alter(l, pub_calc(x, P, l, d), v["pub"])
        return pfx + "Verify", [fin(x, P, l, v), x.buf(oid), oid_len, x.buf(H), x.buf(sig), x.buf(Q)]
    add(pfx + "Verify", lambda c: {"l": L(c), "oid": "ok", "pub": "ok", "sig": "ok"}, {"l": LS, "oid": OID_CLS, "pub": PUB_CLS, "sig": ["ok", "alt", "s1max"]},
        lambda v, c: merge(e_l(v, L(c)), e_oid(v), e_pub(v), ("ERR_BAD_SIG",) if v["sig"] != "ok" else None), verify)
    if l96:
        return

    # ---- bignDH: "... \expect{ERR_BAD_PRIVKEY}", "\expect{ERR_BAD_PUBKEY} Открытый ключ pubkey корректен.", "\expect{ERR_BAD_SHAREDKEY} key_len <= l / 2."
    def dh(x, c, v):
        l, P = prep(x, c, v)
        Q = pub_alter(l, pub_calc(x, P, l, priv_of(c, l, "ok", "peer")), v["pub"])
        return "bignDH", [x.out(min(v["key_len"], l // 2)), fin(x, P, l, v), x.buf(priv_of(c, l, v["priv"])), x.buf(Q), v["key_len"]]
    add("bignDH", lambda c: {"l": bl(c), "priv": "ok", "pub": "ok", "key_len": [32, bl(c) // 4, bl(c) // 2, 1, 0][c["L"] % 5]},
        {"l": LS, "priv": PRIV_CLS, "pub": PUB_CLS, "key_len": lambda c: [0, 1, 32, bl(c) // 4, bl(c) // 4 + 1, bl(c) // 2, bl(c) // 2 + 1, HALF, SIZE_MAX]},
        lambda v, c: merge(e_l(v, bl(c)), e_priv(v), e_pub(v, judge_off=True), ("ERR_BAD_SHAREDKEY",) if v["key_len"] > bl(c) // 2 else None), dh)

    # ---- bignKeyWrap: "\expect{ERR_BAD_INPUT} len >= 16.", "\expect{ERR_BAD_PUBKEY}", "\expect{ERR_BAD_RNG}"; header may be null
    def keywrap(x, c, v):
        l, P = prep(x, c, v)
        Q = pub_alter(l, pub_calc(x, P, l, priv_of(c, l, "ok")), v["pub"])
        n = v["len"]
        return "bignKeyWrap", [x.out(l // 4 + 16 + n), fin(x, P, l, v), data(x, c, n, "key"), n, data(x, c, 16, "hdr") if c["L"] % 2 else None, x.buf(Q)] + rng_args(x, c, v, l)
    add("bignKeyWrap", lambda c: {"l": bl(c), "len": 16 + c["L"] % 40, "pub": "ok", "rng": "ok"}, {"l": LS, "len": [0, 1, 15, 16, 17, 32, 33], "pub": PUB_CLS, "rng": ["ok", "null", "ff"]},
        lambda v, c: merge(e_l(v, bl(c)), bad_input(v["len"] < 16), e_pub(v), e_rng(v)), keywrap)

    # ---- bignKeyUnwrap: "\expect{ERR_BAD_PRIVKEY}", "\remark При нарушении целостности токена возвращается код ERR_BAD_KEYTOKEN. Этот код будет возвращен, если len < 32 + l / 4."
    def keyunwrap(x, c, v):
        l, P = prep(x, c, v)
        n = v["len"]
        d = priv_of(c, l, "ok")
        hdr = expand(c["seed"] + "hdr", 16) if c["L"] % 2 else None
        tok = expand(c["seed"] + "tok", n)
        if n >= 32 + l // 4:
            t = x.out(n)
            if x.call("bignKeyWrap", t, P, data(x, c, n - 16 - l // 4, "key"), n - 16 - l // 4, x.buf(hdr) if hdr else None, x.buf(pub_calc(x, P, l, d)), *rng_args(x, c, {}, l)):
                raise Fail("bignKeyWrap failed while preparing a token")
            tok = t.read()
        if v["tok"] == "alt" and n:
            b = bytearray(tok); b[(c["L"] * 7) % n] ^= 1 << (c["L"] % 8); tok = bytes(b)
        if v["priv"] == "other":
            d = priv_of(c, l, "ok", "other")
        elif v["priv"] != "ok":
            d = priv_of(c, l, v["priv"])
        return "bignKeyUnwrap", [x.out(max(n, 16 + l // 4) - 16 - l // 4), fin(x, P, l, v), x.buf(tok), n, x.buf(hdr) if hdr else None, x.buf(d)]
    add("bignKeyUnwrap", lambda c: {"l": bl(c), "len": 32 + bl(c) // 4 + c["L"] % 40, "priv": "ok", "tok": "ok"},
        {"l": LS, "len": lambda c: [0, 1, 16, bl(c) // 4, bl(c) // 4 + 16, bl(c) // 4 + 31, bl(c) // 4 + 32, bl(c) // 4 + 33], "priv": ["ok", "zero", "q", "max", "other"], "tok": ["ok", "alt"]},
        lambda v, c: merge(e_l(v, bl(c)), e_priv(v), ("ERR_BAD_KEYTOKEN",) if v["len"] < 32 + bl(c) // 4 or v["tok"] == "alt" or v["priv"] == "other" else None), keyunwrap)

    # ---- identity-based signatures
    # IdExtract: "\expect{ERR_BAD_PARAMS}", "\expect{ERR_BAD_OID}", "\expect{ERR_BAD_PUBKEY} Открытый ключ pubkey корректен.", "Если подпись некорректна, то будет возвращен код ERR_BAD_SIG."
    def id_material(x, c, P, l, oid, oid_len):
        d = priv_of(c, l, "ok")
        Q = pub_calc(x, P, l, d)
        idh = expand(c["seed"] + "idh", l // 4)
        sig = mk_sig(x, c, P, l, d, idh, oid, oid_len)
        return d, Q, idh, sig

    def id_extract_call(x, P, l, oid, oid_len, idh, sig, Q):
        e, R = x.out(l // 4), x.out(l // 2)
        if x.call("bignIdExtract", e, R, P, x.buf(oid), oid_len, x.buf(idh), x.buf(sig), x.buf(Q)):
            raise Fail("bignIdExtract failed while preparing a call")
        return e.read(), R.read()

    def idextract(x, c, v):
        l, P = prep(x, c, v)
        g = oid_of(v["oid"] if v["oid"] in ("ok", "ok2") else "ok")
        d, Q, idh, sig = id_material(x, c, P, l, *g)
        if v["sig"] == "alt":
            b = bytearray(sig); b[c["L"] % len(sig)] ^= 1 << (c["L"] % 8); sig = bytes(b)
        oid, oid_len = oid_of(v["oid"])
        return "bignIdExtract", [x.out(l // 4), x.out(l // 2), fin(x, P, l, v), x.buf(oid), oid_len, x.buf(idh), x.buf(sig), x.buf(pub_alter(l, Q, v["pub"]))]
    add("bignIdExtract", lambda c: {"l": bl(c), "oid": "ok", "pub": "ok", "sig": "ok"}, {"l": LS, "oid": OID_CLS, "pub": PUB_CLS, "sig": ["ok", "alt"]},
        lambda v, c: merge(e_l(v, bl(c)), e_oid(v), e_pub(v), ("ERR_BAD_SIG",) if v["sig"] != "ok" else None), idextract)

    # IdSign / IdSign2: "\expect{ERR_BAD_PRIVKEY} Ключ id_privkey получен с помощью функции bignIdExtract()." (a key >= q cannot be: judged; 0 is a possible output of IdExtract: not judged)
    def idsign(two):
        def build(x, c, v):
            l, P = prep(x, c, v)
            g = oid_of(v["oid"] if v["oid"] in ("ok", "ok2") else "ok")
            d, Q, idh, sig = id_material(x, c, P, l, *g)
            e, R = id_extract_call(x, P, l, g[0], g[1], idh, sig, Q)
            if v["priv"] != "ok":
                e = priv_of(c, l, v["priv"])
            oid, oid_len = oid_of(v["oid"])
            a = [x.out(3 * l // 8), fin(x, P, l, v), x.buf(oid), oid_len, x.buf(idh), data(x, c, l // 4, "h"), x.buf(e)]
            if two:
                return "bignIdSign2", a + [data(x, c, v["t_len"], "t") if v["t_len"] or c["L"] % 2 else None, v["t_len"]]
            return "bignIdSign", a + rng_args(x, c, v, l)
        return build
    add("bignIdSign", lambda c: {"l": bl(c), "oid": "ok", "priv": "ok", "rng": "ok"}, {"l": LS, "oid": OID_CLS, "priv": ["ok", "q", "max"], "rng": ["ok", "null", "ff"]},
        lambda v, c: merge(e_l(v, bl(c)), e_oid(v), e_priv(v), e_rng(v)), idsign(False))
    add("bignIdSign2", lambda c: {"l": bl(c), "oid": "ok", "priv": "ok", "t_len": c["L"] % 40}, {"l": LS, "oid": OID_CLS, "priv": ["ok", "q", "max"], "t_len": [0, 1, 32, 33]},
        lambda v, c: merge(e_l(v, bl(c)), e_oid(v), e_priv(v)), idsign(True))

    # IdVerify: "\expect{ERR_BAD_PUBKEY} - открытый ключ id_pubkey получен с помощью функции bignIdExtract(); - открытый ключ pubkey корректен.", "\remark ... ERR_BAD_SIG."
    def idverify(x, c, v):
        l, P = prep(x, c, v)
        g = oid_of(v["oid"] if v["oid"] in ("ok", "ok2") else "ok")
        d, Q, idh, sig = id_material(x, c, P, l, *g)
        e, R = id_extract_call(x, P, l, g[0], g[1], idh, sig, Q)
        H = expand(c["seed"] + "h", l // 4)
        s = x.out(3 * l // 8)
        if x.call("bignIdSign2", s, P, x.buf(g[0]), g[1], x.buf(idh), x.buf(H), x.buf(e), None, 0):
            raise Fail("bignIdSign2 failed while preparing a signature")
        ids = s.read()
        if v["sig"] == "alt":
            b = bytearray(ids); b[c["L"] % len(ids)] ^= 1 << (c["L"] % 8); ids = bytes(b)
        oid, oid_len = oid_of(v["oid"])
        return "bignIdVerify", [fin(x, P, l, v), x.buf(oid), oid_len, x.buf(idh), x.buf(H), x.buf(ids), x.buf(pub_alter(l, R, v["idpub"])), x.buf(pub_alter(l, Q, v["pub"]))]
    add("bignIdVerify", lambda c: {"l": bl(c), "oid": "ok", "pub": "ok", "idpub": "ok", "sig": "ok"}, {"l": LS, "oid": OID_CLS, "pub": PUB_CLS, "idpub": PUB_CLS, "sig": ["ok", "alt"]},
        lambda v, c: merge(e_l(v, bl(c)), e_oid(v), e_pub(v), e_pub(v, "idpub"), ("ERR_BAD_SIG",) if v["sig"] != "ok" else None), idverify)

    # ---- bignOidToDER: section bign-oid: an incorrect identifier yields ERR_BAD_OID
    OK_OIDS = ["1.2.112.0.2.0.34.101.31.81", "2.999.4294967295", "0.39.1", "1.2"]
    BAD_OIDS = ["", "1", "3.1", "1.40", "1.2.", "1..2", "1.2.4294967296", "01.2", "1.2.a", ".1.2", "1.02"]

    def oidtoder(x, c, v):
        s = cstr(x, v["oid"])
        n = 64
        if v["oid"] in OK_OIDS:
            ln = x.zero(8)
            if x.call("bignOidToDER", None, ln, s):
                raise Fail("bignOidToDER(0, &count, %r) (length query) failed" % v["oid"])
            n = ln.int()
        # [?count]der: count holds the capacity on input ("длина буфера der"); a buffer shorter than the code cannot be filled: any error, and the exact-size
        # buffer shows a write past the stated capacity
        n = {"exact": n, "short1": max(n - 1, 0), "half": n // 2, "one": 1, "zero": 0}[v["cap"]]
        return "bignOidToDER", [x.out(n), x.buf(n.to_bytes(8, "little")), s]
    add("bignOidToDER", lambda c: {"oid": OK_OIDS[c["L"] % len(OK_OIDS)], "cap": "exact"}, {"oid": OK_OIDS + BAD_OIDS, "cap": ["exact", "short1", "half", "one", "zero"]},
        lambda v, c: ("ERR_BAD_OID",) if v["oid"] in BAD_OIDS else ANY if v["cap"] != "exact" else None, oidtoder)

    # ---- bignParamsEnc / bignParamsDec: "\return ERR_OK в случае успеха и код ошибки в противном случае."
    def penc_len(x, P):
        ln = x.zero(8)
        if x.call("bignParamsEnc", None, ln, P):
            raise Fail("bignParamsEnc(0, &count, params) failed")
        return ln.int()

    def paramsenc(x, c, v):
        l, P = prep(x, c, v)
        n = penc_len(x, P)
        return "bignParamsEnc", [x.out(n), x.buf(n.to_bytes(8, "little")), fin(x, P, l, v)]
    add("bignParamsEnc", lambda c: {"l": bl(c)}, {"l": LS}, lambda v, c: ANY if v["l"] != bl(c) else None, paramsenc)

    def paramsdec(x, c, v):
        l, P = prep(x, c, v)
        n = penc_len(x, P)
        der = x.out(n)
        if x.call("bignParamsEnc", der, x.buf(n.to_bytes(8, "little")), P):
            raise Fail("bignParamsEnc failed")
        d = der.read()
        cnt = {"ok": n, "short": n - 1, "long": n + 1, "zero": 0}[v["count"]]
        if v["der"] == "alt":
            b = bytearray(d); b[0] ^= 0x01; d = bytes(b)
        return "bignParamsDec", [x.out(struct_size(x, 0, 7)), x.buf(d + b"\0"), cnt]
    # bign.h: "Длина der должна в точности равняться count. Противное считается ошибкой формата."
    add("bignParamsDec", lambda c: {"count": "ok", "der": "ok"}, {"count": ["ok", "short", "long", "zero"], "der": ["ok", "alt"]},
        lambda v, c: ANY if v["count"] != "ok" or v["der"] != "ok" else None, paramsdec)


# ================================================================== g12s, dstu, pfok
def add_other_pk():
    import pyref.g12s as RG
    import pyref.dstu as RD
    import pyref.pfok as RP
    G = ["1.2.643.2.2.35.1", "1.2.643.7.1.2.1.2.1"]

    def gM(c):
        return RG.PARAMS[G[c["L"] % 2]]

    def g_prm(x, c):
        M = gM(c)
        prm = x.out(struct_size(x, 1, 8))
        if x.call("g12sParamsStd", prm, cstr(x, M.name if hasattr(M, "name") else G[c["L"] % 2])):
            raise Fail("g12sParamsStd failed")
        return prm

    def g_setl(x, prm, M, v):
        if v.get("l", M.l) != M.l:
            prm.write((v["l"] & 0xFFFFFFFF).to_bytes(4, "little"), field_off(x, 1, 0))
        return prm

    def g_priv(c, M, cls):
        d = {"one": 1, "qm1": M.q - 1, "zero": 0, "q": M.q, "max": (1 << (8 * M.mo)) - 1}.get(cls)
        if d is None:
            d = int.from_bytes(expand(c["seed"] + "gd", M.mo + 8), "little") % (M.q - 1) + 1
        return d.to_bytes(M.mo, "little")

    def g_keypair(x, c, prm, M):
        d = g_priv(c, M, "ok")
        priv, pub = x.out(M.mo), x.out(2 * M.no)
        t = int.from_bytes(d, "little").to_bytes((M.q.bit_length() + 7) // 8, "little")
        if x.call("g12sKeypairGen", priv, pub, prm, GEN, x.tape(t, mode=0)) or priv.read() != d:
            raise Fail("g12sKeypairGen failed while preparing keys")
        return d, pub.read()
    GL = [0, 1, 255, 257, 511, 513, 1024, 0xFFFFFFFF]
    # g12s.h: "\expect{ERR_BAD_PARAMS} Параметры params корректны." (the levels are l == 256 and l == 512), "\expect{ERR_BAD_RNG}", "\expect{ERR_BAD_PRIVKEY}", "\expect{ERR_BAD_PUBKEY}", "ERR_BAD_SIG"

    def g_el(v, c):
        return ("ERR_BAD_PARAMS",) if v["l"] != gM(c).l else None
    add("g12sKeypairGen", lambda c: {"l": gM(c).l, "rng": "ok"}, {"l": GL, "rng": ["ok", "null"]}, lambda v, c: merge(g_el(v, c), e_rng(v)),
        lambda x, c, v: ("g12sKeypairGen", [x.out(gM(c).mo), x.out(2 * gM(c).no), g_setl(x, g_prm(x, c), gM(c), v)] + ([None, None] if v["rng"] == "null" else [GEN, x.tape(expand(c["seed"] + "k", 80), mode=0)])))

    def g_sign(x, c, v):
        M = gM(c)
        prm = g_prm(x, c)
        return "g12sSign", [x.out(2 * M.mo), g_setl(x, prm, M, v), data(x, c, M.mo, "h"), x.buf(g_priv(c, M, v["priv"]))] + ([None, None] if v["rng"] == "null" else [GEN, x.tape(expand(c["seed"] + "k", 80), mode=0)])
    add("g12sSign", lambda c: {"l": gM(c).l, "priv": "ok", "rng": "ok"}, {"l": GL, "priv": PRIV_CLS, "rng": ["ok", "null"]}, lambda v, c: merge(g_el(v, c), e_priv(v), e_rng(v)), g_sign)

    def g_verify(x, c, v):
        M = gM(c)
        prm = g_prm(x, c)
        d, Q = g_keypair(x, c, prm, M)
        H = expand(c["seed"] + "h", M.mo)
        sig = x.out(2 * M.mo)
        if x.call("g12sSign", sig, prm, x.buf(H), x.buf(d), GEN, x.tape(expand(c["seed"] + "k", 80), mode=0)):
            raise Fail("g12sSign failed while preparing a signature")
        s = sig.read()
        if v["sig"] == "alt":
            b = bytearray(s); b[c["L"] % len(s)] ^= 1 << (c["L"] % 8); s = bytes(b)
        top = 1 << (8 * M.no)
        xv, yv = int.from_bytes(Q[:M.no], "little"), int.from_bytes(Q[M.no:], "little")
        if v["pub"] == "xp":
            xv = M.p + xv % (top - M.p)
        elif v["pub"] == "yp":
            yv = M.p + yv % (top - M.p)
        elif v["pub"] == "off":
            yv = (yv + 1) % M.p
        Q2 = xv.to_bytes(M.no, "little") + yv.to_bytes(M.no, "little")
        return "g12sVerify", [g_setl(x, prm, M, v), x.buf(H), x.buf(s), x.buf(Q2)]
    add("g12sVerify", lambda c: {"l": gM(c).l, "pub": "ok", "sig": "ok"}, {"l": GL, "pub": ["ok", "xp", "yp", "off"], "sig": ["ok", "alt"]},
        lambda v, c: merge(g_el(v, c), e_pub(v), ("ERR_BAD_SIG",) if v["sig"] != "ok" else None), g_verify)
    add("g12sParamsStd", lambda c: {"name": G[c["L"] % 2]}, {"name": G + ["", "1.2.643.2.2.35.9", "1.2.3"]}, lambda v, c: ANY if v["name"] not in G else None,
        lambda x, c, v: ("g12sParamsStd", [x.out(struct_size(x, 1, 8)), cstr(x, v["name"])]))
    add("g12sParamsVal", lambda c: {"l": gM(c).l}, {"l": GL}, lambda v, c: ANY if v["l"] != gM(c).l else None,
        lambda x, c, v: ("g12sParamsVal", [g_setl(x, g_prm(x, c), gM(c), v)]))

    # ---- dstu (curve over GF(2^163) with the base point of appendix B)
    DN = list(RD.PARAMS)[0]
    DM = RD.PARAMS[DN]
    ono, dno = DM.order_no, DM.no

    def d_prm(x):
        prm = x.out(struct_size(x, 2, 6))
        if x.call("dstuParamsStd", prm, cstr(x, DN)):
            raise Fail("dstuParamsStd failed")
        return prm

    def d_priv(c, cls):
        hi = (1 << (DM.order_nb - 1)) - 1
        d = {"one": 1, "qm1": DM.n - 1, "zero": 0, "q": DM.n, "max": (1 << (8 * ono)) - 1}.get(cls)
        if d is None:
            d = int.from_bytes(expand(c["seed"] + "dd", ono + 8), "little") % hi + 1
        return d.to_bytes(ono, "little")
    # dstuSign: "\expect{ERR_BAD_INPUT}: - ld делится на 16; - два вычета по модулю params->n укладываются в ld битов.", "\expect{ERR_BAD_PRIVKEY}", "\expect{ERR_BAD_RNG}"
    # (ld has no documented upper bound: the buffer always has ld / 8 octets)
    LDS = [0, 1, 15, 16, 16 * ono - 16, 16 * ono - 8, 16 * ono, 16 * ono + 8, 16 * ono + 16, 16 * ono + 160]

    def d_sign(x, c, v):
        prm = d_prm(x)
        return "dstuSign", [x.out(v["ld"] // 8), prm, v["ld"], data(x, c, v["hash_len"], "h"), v["hash_len"], x.buf(d_priv(c, v["priv"]))] + ([None, None] if v["rng"] == "null" else [GEN, x.tape(expand(c["seed"] + "k", 64), mode=0)])
    add("dstuSign", lambda c: {"ld": 16 * ono + 16 * (c["L"] % 4), "hash_len": 32, "priv": "ok", "rng": "ok"}, {"ld": LDS, "hash_len": [0, 1, dno - 1, dno, dno + 1, 64], "priv": PRIV_CLS, "rng": ["ok", "null"]},
        lambda v, c: merge(bad_input(not RD.ld_ok(DM, v["ld"])), e_priv(v), e_rng(v)), d_sign)

    # dstuVerify: "\expect{ERR_BAD_PARAMS}", "\expect{ERR_BAD_PUBKEY}"; a bad ld / signature: "код ошибки в противном случае"
    def d_verify(x, c, v):
        prm = d_prm(x)
        d = d_priv(c, "ok")
        priv, pub = x.out(ono), x.out(2 * dno)
        if x.call("dstuKeypairGen", priv, pub, prm, GEN, x.tape(d, mode=0)):
            raise Fail("dstuKeypairGen failed while preparing keys")
        ld0 = 16 * ono + 16 * (c["L"] % 4)
        H = expand(c["seed"] + "h", 32)
        sig = x.out(ld0 // 8)
        if x.call("dstuSign", sig, prm, ld0, x.buf(H), 32, priv, GEN, x.tape(expand(c["seed"] + "k", 64), mode=0)):
            raise Fail("dstuSign failed while preparing a signature")
        s = sig.read()
        if v["sig"] == "alt":
            b = bytearray(s); b[(c["L"] * 5) % ono] ^= 1 << (c["L"] % 8); s = bytes(b)
        ld = {"ok": ld0, "odd": ld0 + 8, "small": 16 * ono - 16, "zero": 0}[v["ld"]]
        Q = pub.read()
        if v["pub"] == "zero":
            Q = bytes(len(Q))
        elif v["pub"] == "big":
            Q = b"\xff" * len(Q)       # coordinates of degree >= m
        return "dstuVerify", [prm, ld, x.buf(H), 32, x.buf(s + bytes(2)), x.buf(Q)]
    add("dstuVerify", lambda c: {"ld": "ok", "pub": "ok", "sig": "ok"}, {"ld": ["ok", "odd", "small", "zero"], "pub": ["ok", "zero", "big"], "sig": ["ok", "alt"]},
        lambda v, c: merge(ANY if v["ld"] != "ok" or v["sig"] != "ok" else None, ("ERR_BAD_PUBKEY",) if v["pub"] == "big" else NOJ if v["pub"] == "zero" else None), d_verify)
    add("dstuParamsStd", lambda c: {"name": list(RD.PARAMS)[c["L"] % len(RD.PARAMS)]}, {"name": list(RD.PARAMS)[:3] + ["", "1.2.3", DN + ".1"]}, lambda v, c: ANY if v["name"] not in RD.PARAMS else None,
        lambda x, c, v: ("dstuParamsStd", [x.out(struct_size(x, 2, 6)), cstr(x, v["name"])]))
    add("dstuParamsVal", lambda c: {}, {}, lambda v, c: None, lambda x, c, v: ("dstuParamsVal", [d_prm(x)]))
    add("dstuKeypairGen", lambda c: {"rng": "ok"}, {"rng": ["ok", "null"]}, lambda v, c: e_rng(v),
        lambda x, c, v: ("dstuKeypairGen", [x.out(ono), x.out(2 * dno), d_prm(x)] + ([None, None] if v["rng"] == "null" else [GEN, x.tape(d_priv(c, "ok"), mode=0)])))

    def d_pub(x, c, prm):
        priv, pub = x.out(ono), x.out(2 * dno)
        if x.call("dstuKeypairGen", priv, pub, prm, GEN, x.tape(d_priv(c, "ok"), mode=0)):
            raise Fail("dstuKeypairGen failed while preparing keys")
        return pub
    add("dstuPointGen", lambda c: {}, {}, lambda v, c: None, lambda x, c, v: ("dstuPointGen", [x.out(2 * dno), d_prm(x), GEN, x.tape(expand(c["seed"] + "pg", 64), mode=0)]))

    def d_pt(fn):
        def build(x, c, v):
            prm = d_prm(x)
            pub = d_pub(x, c, prm)
            if fn == "dstuPointVal":
                return fn, [prm, pub]
            if fn == "dstuPointCompress":
                return fn, [x.out(dno), prm, pub]
            xp = x.out(dno)
            if x.call("dstuPointCompress", xp, prm, pub):
                raise Fail("dstuPointCompress failed while preparing a call")
            return fn, [x.out(2 * dno), prm, xp]
        add(fn, lambda c: {}, {}, lambda v, c: None, build)
    for fn in ("dstuPointVal", "dstuPointCompress", "dstuPointRecover"):
        d_pt(fn)

    # ---- pfok (test parameters, l = 638)
    PM = RP.PARAMS["test"]

    def p_prm(x, v=None):
        prm = x.out(struct_size(x, 3, 5))
        if x.call("pfokParamsStd", prm, None, cstr(x, "test")):
            raise Fail("pfokParamsStd(test) failed")
        if v and v.get("l", PM.l) != PM.l:
            prm.write(v["l"].to_bytes(8, "little"), field_off(x, 3, 0))
        return prm

    def p_priv(c, cls, tag="x"):
        if cls == "max":
            return b"\xff" * PM.ro          # bits above r are set
        d = {"zero": 0, "one": 1}.get(cls)
        if d is None:
            d = int.from_bytes(expand(c["seed"] + tag, PM.ro), "little") & ((1 << PM.r) - 1)
        return d.to_bytes(PM.ro, "little")

    def p_pub(x, c, prm, cls, tag="x"):
        if cls == "zero":
            return bytes(PM.lo)
        if cls == "p":
            return PM.p.to_bytes(PM.lo, "little")
        if cls == "max":
            return b"\xff" * PM.lo
        y = x.out(PM.lo)
        if x.call("pfokPubkeyCalc", y, prm, x.buf(p_priv(c, "ok", tag))):
            raise Fail("pfokPubkeyCalc failed while preparing keys")
        return y.read()
    # pfok.h: "\expect{ERR_BAD_PARAMS} Параметры params корректны." (l must be one of the defined levels), "\expect{ERR_BAD_PRIVKEY}" (r bits), "\expect{ERR_BAD_PUBKEY}" (0 < y < p)
    PL = [0, 1, PM.l - 1, PM.l + 1, HALF, SIZE_MAX]
    PPRIV = ["ok", "zero", "one", "max"]
    PPUB = ["ok", "zero", "p", "max"]

    def p_el(v):
        return ("ERR_BAD_PARAMS",) if v.get("l", PM.l) != PM.l else None

    def p_epriv(v, k="priv"):
        return ("ERR_BAD_PRIVKEY",) if v.get(k) == "max" and 8 * PM.ro > PM.r else None

    def p_epub(v, k="pub"):
        return ("ERR_BAD_PUBKEY",) if v.get(k, "ok") != "ok" else None
    add("pfokKeypairGen", lambda c: {"l": PM.l, "rng": "ok"}, {"l": PL, "rng": ["ok", "null"]}, lambda v, c: merge(p_el(v), e_rng(v)),
        lambda x, c, v: ("pfokKeypairGen", [x.out(PM.ro), x.out(PM.lo), p_prm(x, v)] + ([None, None] if v["rng"] == "null" else [GEN, x.tape(expand(c["seed"] + "k", PM.ro), mode=0)])))
    add("pfokPubkeyVal", lambda c: {"l": PM.l, "pub": "ok"}, {"l": PL, "pub": PPUB}, lambda v, c: merge(p_el(v), ANY if v["pub"] != "ok" else None),
        lambda x, c, v: ("pfokPubkeyVal", [p_prm(x, v), x.buf(p_pub(x, c, p_prm(x), v["pub"]))]))
    add("pfokPubkeyCalc", lambda c: {"l": PM.l, "priv": "ok"}, {"l": PL, "priv": PPRIV}, lambda v, c: merge(p_el(v), p_epriv(v)),
        lambda x, c, v: ("pfokPubkeyCalc", [x.out(PM.lo), p_prm(x, v), x.buf(p_priv(c, v["priv"]))]))
    add("pfokDH", lambda c: {"l": PM.l, "priv": "ok", "pub": "ok"}, {"l": PL, "priv": PPRIV, "pub": PPUB}, lambda v, c: merge(p_el(v), p_epriv(v), p_epub(v)),
        lambda x, c, v: ("pfokDH", [x.out(PM.no), p_prm(x, v), x.buf(p_priv(c, v["priv"])), x.buf(p_pub(x, c, p_prm(x), v["pub"], "peer"))]))
    add("pfokMTI", lambda c: {"l": PM.l, "priv": "ok", "priv1": "ok", "pub": "ok", "pub1": "ok"}, {"l": PL, "priv": PPRIV, "priv1": PPRIV, "pub": PPUB, "pub1": PPUB},
        lambda v, c: merge(p_el(v), p_epriv(v), p_epriv(v, "priv1"), p_epub(v), p_epub(v, "pub1")),
        lambda x, c, v: ("pfokMTI", [x.out(PM.no), p_prm(x, v), x.buf(p_priv(c, v["priv"])), x.buf(p_priv(c, v["priv1"], "u")), x.buf(p_pub(x, c, p_prm(x), v["pub"], "peer")), x.buf(p_pub(x, c, p_prm(x), v["pub1"], "peeru"))]))
    add("pfokParamsStd", lambda c: {"name": "test"}, {"name": ["test", "1.2.112.0.2.0.1176.2.3.3.2", "", "1.2.3", "test2"]}, lambda v, c: ANY if v["name"] in ("", "1.2.3", "test2") else None,
        lambda x, c, v: ("pfokParamsStd", [x.out(struct_size(x, 3, 5)), x.out(struct_size(x, 6, 3)) if c["L"] % 2 else None, cstr(x, v["name"])]))


# ================================================================== stb99 / pfok parameter validators (test sets, l = 638)
def add_params99():
    # stb99.h / pfok.h: "размерность l соответствует определенному уровню стойкости" ... "\return ERR_OK, если параметры корректны, и код ошибки в противном случае." (no code named)
    LS = [0, 1, 637, 639, 1022, 1023, HALF, SIZE_MAX]
    for pfx, st_p, nf_p, st_s, nf_s in (("stb99", 4, 6, 5, 4), ("pfok", 3, 5, 6, 3)):
        def std(x, c, v, pfx=pfx, st_p=st_p, nf_p=nf_p, st_s=st_s, nf_s=nf_s, want_seed=True):
            prm, sd = x.out(struct_size(x, st_p, nf_p)), x.out(struct_size(x, st_s, nf_s))
            if x.call(pfx + "ParamsStd", prm, sd, cstr(x, "test")):
                raise Fail("%sParamsStd(test) failed" % pfx)
            return prm, sd

        def pval(x, c, v, pfx=pfx, st_p=st_p, std=std):
            prm, sd = std(x, c, v)
            if v["l"] != 638:
                prm.write(v["l"].to_bytes(8, "little"), field_off(x, st_p, 0))
            return pfx + "ParamsVal", [prm]

        def sval(fn):
            def build(x, c, v, pfx=pfx, st_s=st_s, std=std):
                prm, sd = std(x, c, v)
                if v["l"] != 638:
                    sd.write(v["l"].to_bytes(8, "little"), field_off(x, st_s, 0))
                return pfx + fn, [sd]
            return build
        add(pfx + "ParamsVal", lambda c: {"l": 638}, {"l": LS}, lambda v, c: ANY if v["l"] != 638 else None, pval)
        add(pfx + "SeedVal", lambda c: {"l": 638}, {"l": LS}, lambda v, c: ANY if v["l"] != 638 else None, sval("SeedVal"))
        add(pfx + "SeedAdj", lambda c: {"l": 638}, {"l": LS}, lambda v, c: ANY if v["l"] != 638 else None, sval("SeedAdj"))
    add("stb99ParamsStd", lambda c: {"name": "test"}, {"name": ["test", "1.2.112.0.2.0.1176.2.3.3.1", "", "1.2.3", "test2"]}, lambda v, c: ANY if v["name"] in ("", "1.2.3", "test2") else None,
        lambda x, c, v: ("stb99ParamsStd", [x.out(struct_size(x, 4, 6)), x.out(struct_size(x, 5, 4)) if c["L"] % 2 else None, cstr(x, v["name"])]))



# ================================================================== bpki
CSR = bytes.fromhex(
    "3082017A30820134020100305F3115301306035504030C0C524F42455254205" "34D495448310E300C06035504040C05534D495448310F300D060355042A0C0652"
    "4F42455254311830160603550405130F50415347422D353333333234343238310B3009060355040613024742305D3018060A2A7000020022652D0201060A2A70"
    "00020022652D0301034100F64CDDFFE4D546EF484471583FAEBA9A38061084E280BF996F90BA6AF0DB6620F59ABAA7AD29D4E7D1CA0C21DD9E32D485F9E74084"
    "1F4317CA9481503D1F1B50A06F301F06092A864886F70D01090731120C102F494E464F3A65726970323334313233304C06092A864886F70D01090E313F303D30"
    "170603551D200410300E300C060A2A7000020022654E023D30220603551D11041B30198117726F626572742E736D697468406578616D706C652E756B300D0609"
    "2A7000020022652D0C050003310082B4F9F934E3FD457F5DF06AE63A88E722E35D35F565551535BA94CEF9243011999DF2159E4F4BAC22AD8C3135A3BD26")   # test/crypto/bpki_test.c
_CONT = {}


def add_bpki():
    def secret(c, kind, n, num=None):
        if kind == "priv":
            return expand(c["seed"] + "ck", min(n, 128))
        return bytes([1 + c["L"] % 16 if num is None else num]) + expand(c["seed"] + "ck", min(max(n, 1), 128) - 1)

    def wrap(kind):
        W = "bpkiPrivkeyWrap" if kind == "priv" else "bpkiShareWrap"
        lens = (32, 48, 64) if kind == "priv" else (17, 25, 33)

        def defaults(c):
            d = {"len": lens[c["L"] % 3], "pwd_len": 8 + c["L"] % 30, "iter": 10000, "probe": 0}
            if kind == "share":
                d["num"] = 1 + c["L"] % 16
            return d

        def expect(v, c):
            e = [bad_input(v["iter"] < 10000)]
            if kind == "priv":
                # bpki.h: "\expect{ERR_BAD_PRIVKEY} privkey_len \in {32, 48, 64}."  (24: "Дополнительно поддерживается размещение в контейнере личных ключей системы ЭЦП bign96": not judged)
                e.append(NOJ if v["len"] == 24 else ("ERR_BAD_PRIVKEY",) if v["len"] not in lens else None)
            else:
                # "\expect{ERR_BAD_SHAREKEY} share_len \in {17, 25, 33}.", "\expect{ERR_BAD_SHAREKEY} Если share != 0, то 1 <= share[0] <= 16."
                e.append(("ERR_BAD_SHAREKEY",) if v["len"] not in lens or (not v["probe"] and not 1 <= v["num"] <= 16) else None)
            return merge(*e)

        def build(x, c, v):
            n = v["len"]
            if v["probe"]:
                # "При нулевом epki указатели privkey, pwd и salt могут быть нулевыми."
                return W, [None, x.zero(8), None, n, None, 0, None, v["iter"]]
            sec = secret(c, kind, n, v.get("num"))
            return W, [x.out((n if n in lens or n == 24 else 0) + 128), x.zero(8), x.buf(sec), n, data(x, c, v["pwd_len"], "pw"), v["pwd_len"], data(x, c, 8, "salt"), v["iter"]]
        sw = {"len": [0, 1, 16, 17, 18, 24, 25, 31, 32, 33, 34, 47, 48, 49, 64, 65, HALF, SIZE_MAX], "pwd_len": [0, 1, 32, 33, 65], "iter": [0, 1, 9999, 10000, 10001], "probe": [0, 1]}
        if kind == "share":
            sw["num"] = [0, 1, 16, 17, 255]
        add(W, defaults, sw, expect, build)
    wrap("priv")
    wrap("share")

    def container(x, c, kind, n, pwd):
        key = (kind, n, c["seed"], c["L"], pwd)
        if key not in _CONT:
            if len(_CONT) > 256:
                _CONT.clear()
            W = "bpkiPrivkeyWrap" if kind == "priv" else "bpkiShareWrap"
            ep, ln = x.out(n + 128), x.zero(8)
            if x.call(W, ep, ln, x.buf(secret(c, kind, n)), n, x.buf(pwd), len(pwd), data(x, c, 8, "salt"), 10000):
                raise Fail("%s failed while preparing a container" % W)
            _CONT[key] = ep.read()[:ln.int()]
        return _CONT[key]

    def unwrap(kind):
        U = "bpkiPrivkeyUnwrap" if kind == "priv" else "bpkiShareUnwrap"
        lens = (24, 32, 48, 64) if kind == "priv" else (17, 25, 33)

        def build(x, c, v):
            n = lens[c["L"] % len(lens)]
            pwd = expand(c["seed"] + "pw", 8 + c["L"] % 30)
            cont = container(x, c, kind, n, pwd)
            ln = {"ok": len(cont), "short": len(cont) - 1, "long": len(cont) + 1, "zero": 0, "one": 1}[v["epki_len"]]
            if v["cont"] == "alt":
                b = bytearray(cont); b[(c["L"] * 11) % len(cont)] ^= 1 << (c["L"] % 8); cont = bytes(b)
            if v["pwd"] == "wrong":
                pwd = pwd + b"\x01"
            return U, [None if v["probe"] else x.out(n), x.zero(8), x.buf(cont + b"\0"), ln, x.buf(pwd), len(pwd)]
        # bpki.h names no code for a malformed / unauthentic container: "код ошибки в противном случае"
        add(U, lambda c: {"epki_len": "ok", "cont": "ok", "pwd": "ok", "probe": 0}, {"epki_len": ["ok", "short", "long", "zero", "one"], "cont": ["ok", "alt"], "pwd": ["ok", "wrong"], "probe": [0, 1]},
            lambda v, c: ANY if v["epki_len"] != "ok" or v["cont"] != "ok" or v["pwd"] != "ok" else None, build)
    unwrap("priv")
    unwrap("share")
    # bpkiCSRRewrap: "\expect{ERR_NOT_IMPLEMENTED} privkey_len == 32.", "\expect{ERR_BAD_FORMAT} Формат запроса соответствует СТБ 34.101.17."
    # bpkiCSRUnwrap: "\expect{ERR_BAD_FORMAT} ..."; an altered signature: "код ошибки в противном случае"

    def csr_of(c, v):
        d = CSR
        if v["csr"] == "trunc":
            return d, len(d) - 1
        if v["csr"] == "long":
            return d + b"\0", len(d) + 1
        if v["csr"] == "tag":
            return b"\x31" + d[1:], len(d)
        if v["csr"] == "sig":
            return d[:-1] + bytes([d[-1] ^ 1]), len(d)
        return d, len(d)
    add("bpkiCSRRewrap", lambda c: {"privkey_len": 32, "csr": "ok"}, {"privkey_len": [0, 1, 24, 31, 32, 33, 48, 64, HALF, SIZE_MAX], "csr": ["ok", "trunc", "long", "tag"]},
        lambda v, c: merge(("ERR_NOT_IMPLEMENTED",) if v["privkey_len"] != 32 else None, ("ERR_BAD_FORMAT",) if v["csr"] != "ok" else None),
        lambda x, c, v: ("bpkiCSRRewrap", [x.buf(csr_of(c, v)[0]), csr_of(c, v)[1], x.buf(priv_of(c, 128, "ok") + bytes(32)), v["privkey_len"]]))
    add("bpkiCSRUnwrap", lambda c: {"csr": "ok", "probe": 0}, {"csr": ["ok", "trunc", "long", "tag", "sig"], "probe": [0, 1]},
        lambda v, c: ("ERR_BAD_FORMAT",) if v["csr"] in ("trunc", "long", "tag") else ANY if v["csr"] == "sig" else None,
        lambda x, c, v: ("bpkiCSRUnwrap", [None if v["probe"] else x.out(64), x.zero(8), x.buf(csr_of(c, v)[0]), csr_of(c, v)[1]]))



# ================================================================== btok: CV certificates, secure messaging
def add_btok():
    c17 = _mod("c17")
    KLS = (32, 48, 64, 24)      # btok.h section btok-cvc: bign-curve256v1 / 384v1 / 512v1 "так и на кривой bign-curve192v1" (bign96)

    def kl_of(c, shift=0):
        return KLS[(c["L"] + shift) % 4]

    def names(c):
        return c17.mkname(c["seed"] + "ca", 8 + c["L"] % 5, "alnum"), c17.mkname(c["seed"] + "ho", 8 + (c["L"] // 5) % 5, "mixed")

    def fill(x, c, v, authority, holder, frm=100, until=5000):
        # btok_cvc_t with the swept content fields; all btokCVC* headers: "\return ERR_OK, если ..., и код ошибки в противном случае" (no code named)
        if v.get("authority", "ok") != "ok":
            authority = {"empty": b"", "short": authority[:7], "np": authority[:-1] + b"\x7f", "star": authority[:-1] + b"*"}[v["authority"]]
        if v.get("holder", "ok") != "ok":
            holder = {"empty": b"", "short": holder[:7], "np": holder[:-1] + b"\x7f", "star": holder[:-1] + b"*"}[v["holder"]]
        f, u = c17.digits(frm), c17.digits(until)
        dt = v.get("dates", "ok")
        if dt == "from_bad":
            f = c17.dstr("230229")
        elif dt == "until_bad":
            u = c17.dstr("231301")
        elif dt == "digit":
            f = bytes([0, 0, 0, 10, 0, 1])
        elif dt == "swapped":
            f, u = u, f
        cvc = c17.Cvc(x)
        cvc.fill(authority, holder, f, u, c17.hat_of(["zero", "full", "eid", "partly"][c["L"] % 4], c["seed"]))
        return cvc

    def content_bad(v):
        return ANY if any(v.get(k, "ok") != "ok" for k in ("authority", "holder", "dates")) else None

    def priv_buf(c, kl, n, tag):
        """private key of kl octets presented with length n (n != kl: a longer buffer, the function must refuse the length)"""
        return (c17.privkey(kl, "rnd", c["seed"] + tag) + expand(c["seed"] + tag + "x", 96))[:max(min(n, 96), kl if n > 96 else 0)]
    CONTENT = {"authority": ["ok", "empty", "short", "np", "star"], "holder": ["ok", "empty", "short", "np", "star"], "dates": ["ok", "from_bad", "until_bad", "digit", "swapped"]}
    PLEN = [0, 1, 16, 23, 24, 25, 31, 32, 33, 47, 48, 49, 63, 64, 65, 96]

    def plen_bad(n):
        return ANY if n not in KLS else None

    def self_cert(x, c, kl, authority, tag="ca", frm=100, until=5000):
        cvc = fill(x, c, {}, authority, authority, frm, until)
        priv = c17.privkey(kl, "rnd", c["seed"] + tag)
        r, cert = c17.wrap(x, cvc, priv)
        if r:
            raise Fail("btokCVCWrap failed while preparing an issuer certificate: %s" % ename(r))
        return cvc, priv, cert

    # ---- btokCVCCheck / Check2
    def check(x, c, v):
        a, h = names(c)
        cvc = fill(x, c, v, a, h)
        kl = kl_of(c)
        P = bign_P(x, c17.KL2L[kl])
        Q = pub_calc(x, P, c17.KL2L[kl], c17.privkey(kl, "rnd", c["seed"] + "ho"))
        if v["pubkey"] == "off":
            Q = pub_alter(c17.KL2L[kl], Q, "off")
        elif v["pubkey"] == "len":
            Q = Q[:-1]
        cvc.setkey(Q)
        return "btokCVCCheck", [cvc.b]
    add("btokCVCCheck", lambda c: {"authority": "ok", "holder": "ok", "dates": "ok", "pubkey": "ok"}, dict(CONTENT, pubkey=["ok", "off", "len"]),
        lambda v, c: merge(content_bad(v), ANY if v["pubkey"] != "ok" else None), check)

    def check2(x, c, v):
        a, h = names(c)
        cvca, _, _ = self_cert(x, c, kl_of(c, 1), a)
        fn, args = check(x, c, dict(v, pubkey="ok"))
        if v["rel"] == "name":
            cvca.set("holder", a[:-1] + (b"A" if a[-1:] != b"A" else b"B") + b"\0")
        elif v["rel"] == "before":
            cvca.set("from", c17.digits(101))
        elif v["rel"] == "after":
            cvca.set("until", c17.digits(99))
        return "btokCVCCheck2", [args[0], cvca.b]
    add("btokCVCCheck2", lambda c: {"authority": "ok", "holder": "ok", "dates": "ok", "rel": "ok"}, dict(CONTENT, rel=["ok", "name", "before", "after"]),
        lambda v, c: merge(content_bad(v), ANY if v["rel"] != "ok" else None), check2)

    # ---- btokCVCWrap
    def cvcwrap(x, c, v):
        a, h = names(c)
        kl = kl_of(c)
        cvc = fill(x, c, v, a, h)
        n = v["privkey_len"]
        P = x.buf(priv_buf(c, kl, n, "ho"))
        ln = x.zero(8)
        cert = None
        if not v["probe"]:
            cert = x.out(400)
            if n == kl and content_bad(v) is None:
                if x.call("btokCVCWrap", None, ln, cvc.b, P, n):
                    raise Fail("btokCVCWrap(0, &cert_len, ...) (length query) failed on a valid content")
                cert = x.out(ln.int())
                cvc = fill(x, c, v, a, h)
        return "btokCVCWrap", [cert, ln, cvc.b, P, n]
    add("btokCVCWrap", lambda c: {"authority": "ok", "holder": "ok", "dates": "ok", "privkey_len": kl_of(c), "probe": 0}, dict(CONTENT, privkey_len=PLEN, probe=[0, 1]),
        lambda v, c: merge(content_bad(v), ANY if v["privkey_len"] != kl_of(c) and plen_bad(v["privkey_len"]) else NOJ if v["privkey_len"] != kl_of(c) else None), cvcwrap)

    # ---- btokCVCUnwrap: "Длина cert должна в точности равняться cert_len. Противное считается ошибкой формата."; "индуцируется ошибка, если pubkey != 0 && pubkey != cvc->pubkey" (pubkey_len == 0)
    def cvcunwrap(x, c, v):
        a, h = names(c)
        kl = kl_of(c)
        cvc, priv, cert = self_cert(x, c, kl, a)
        Q = cvc.get()["pubkey"][:2 * kl]
        if v["cert"] == "alt":
            b = bytearray(cert); b[(c["L"] * 13) % len(cert)] ^= 1 << (c["L"] % 8); cert = bytes(b)
        n = {"ok": len(cert), "short": len(cert) - 1, "long": len(cert) + 1, "zero": 0}[v["cert_len"]]
        pk = {"ok": (x.buf(Q), 2 * kl), "none": (None, 0), "len": (x.buf(Q), 2 * kl - 1), "zero_len": (x.buf(Q), 0), "other": (x.buf(pub_alter(c17.KL2L[kl], Q, "off")), 2 * kl)}[v["pubkey"]]
        return "btokCVCUnwrap", [c17.Cvc(x).b, x.buf(cert + b"\0"), n, pk[0], pk[1]]
    add("btokCVCUnwrap", lambda c: {"cert": "ok", "cert_len": "ok", "pubkey": "ok"}, {"cert": ["ok", "alt"], "cert_len": ["ok", "short", "long", "zero"], "pubkey": ["ok", "none", "len", "zero_len", "other"]},
        lambda v, c: ANY if v["cert_len"] != "ok" or v["pubkey"] in ("len", "zero_len", "other") or (v["cert"] == "alt" and v["pubkey"] != "none") else NOJ if v["cert"] == "alt" else None, cvcunwrap)

    # ---- btokCVCIss / Val / Val2 / Match
    def issued(x, c, v, frm=200, until=900):
        a, h = names(c)
        kla, kl = kl_of(c, 1), kl_of(c)
        cvca, priva, certa = self_cert(x, c, kla, a)
        cvc = fill(x, c, v, a, h, frm, until)
        P = bign_P(x, c17.KL2L[kl])
        cvc.setkey(pub_calc(x, P, c17.KL2L[kl], c17.privkey(kl, "rnd", c["seed"] + "ho")))
        return cvca, priva, certa, cvc, kla, kl

    def cvciss(x, c, v):
        cvca, priva, certa, cvc, kla, kl = issued(x, c, v)
        n = v["privkeya_len"]
        pa = x.buf(priv_buf(c, kla, n, "ca") if v["privkeya"] == "ok" else priv_buf(c, kla, n, "zz"))
        ca = certa
        cl = {"ok": len(ca), "short": len(ca) - 1, "long": len(ca) + 1, "zero": 0}[v["certa_len"]]
        return "btokCVCIss", [None if v["probe"] else x.out(400), x.zero(8), cvc.b, x.buf(ca + b"\0"), cl, pa, n]
    add("btokCVCIss", lambda c: {"authority": "ok", "holder": "ok", "dates": "ok", "privkeya_len": kl_of(c, 1), "privkeya": "ok", "certa_len": "ok", "probe": 0},
        dict(CONTENT, privkeya_len=PLEN, privkeya=["ok", "other"], certa_len=["ok", "short", "long", "zero"], probe=[0, 1]),
        lambda v, c: merge(content_bad(v), ANY if v["privkeya_len"] != kl_of(c, 1) or v["privkeya"] != "ok" or v["certa_len"] != "ok" else None), cvciss)

    def made(x, c):
        cvca, priva, certa, cvc, kla, kl = issued(x, c, {})
        r, cert = c17.iss(x, cvc, certa, priva)
        if r:
            raise Fail("btokCVCIss failed while preparing a certificate: %s" % ename(r))
        return cvca, certa, cert

    def date_of(v):
        return {"none": None, "in": c17.digits(500), "lo": c17.digits(200), "hi": c17.digits(900), "before": c17.digits(199), "after": c17.digits(901), "bad": c17.dstr("230230")}[v["date"]]

    def cvcval(two):
        def build(x, c, v):
            cvca, certa, cert = made(x, c)
            if v["cert"] == "alt":
                b = bytearray(cert); b[(c["L"] * 13) % len(cert)] ^= 1 << (c["L"] % 8); cert = bytes(b)
            n = {"ok": len(cert), "short": len(cert) - 1, "long": len(cert) + 1}[v["cert_len"]]
            d = date_of(v)
            D = x.buf(d) if d is not None else None
            if two:
                return "btokCVCVal2", [c17.Cvc(x).b if c["L"] % 2 else None, x.buf(cert + b"\0"), n, cvca.b, D]
            return "btokCVCVal", [x.buf(cert + b"\0"), n, x.buf(certa), len(certa), D]
        return build
    for two in (False, True):
        add("btokCVCVal2" if two else "btokCVCVal", lambda c: {"cert": "ok", "cert_len": "ok", "date": ["none", "in", "lo", "hi"][c["L"] % 4]},
            {"cert": ["ok", "alt"], "cert_len": ["ok", "short", "long"], "date": ["none", "in", "lo", "hi", "before", "after", "bad"]},
            lambda v, c: ANY if v["cert"] != "ok" or v["cert_len"] != "ok" or v["date"] in ("before", "after", "bad") else None, cvcval(two))

    def cvcmatch(x, c, v):
        a, h = names(c)
        kl = kl_of(c)
        cvc, priv, cert = self_cert(x, c, kl, a)
        n = v["privkey_len"]
        return "btokCVCMatch", [x.buf(cert), len(cert), x.buf(priv_buf(c, kl, n, "ca" if v["privkey"] == "ok" else "zz")), n]
    add("btokCVCMatch", lambda c: {"privkey_len": kl_of(c), "privkey": "ok"}, {"privkey_len": PLEN, "privkey": ["ok", "other"]},
        lambda v, c: ANY if v["privkey_len"] != kl_of(c) or v["privkey"] != "ok" else None, cvcmatch)

    # ---- secure messaging
    # btokSMCmdWrap: "\expect{ERR_BAD_APDU} В cmd->cla снят бит 0x04", "\expect{ERR_BAD_LOGIC} ... (apdu != 0 && state != 0) счетчик SM принимает нечетное значение."
    # btokSMCmdUnwrap: "\expect{ERR_BAD_APDU} Если state != 0, то в cmd->cla установлен бит 0x04 ... Если state == 0, то бит снят.", "\expect{ERR_BAD_LOGIC} ... нечетное значение."
    # btokSMRespWrap / RespUnwrap: "\expect{ERR_BAD_LOGIC} ... четное значение."; a wrong MAC / malformed code: "код ошибки в противном случае"
    def sm_defaults(c):
        return {"n": [0, 1, 16, 127, 128, 255, 256][c["L"] % 7], "le": [0, 1, 256, 257, 65536][(c["L"] // 7) % 5], "ctr": "right", "state": 1, "cla4": 0, "probe": 0}

    def sm_side(x, c, v, right):
        S = c17.Side(x, expand(c["seed"] + "smk", 32))
        S.inc(right if right else 2)
        if v["ctr"] == "wrong":
            S.inc()
        return S

    def smwrap(kind):
        right = 1 if kind == "cmd" else 0
        fn = "btokSMCmdWrap" if kind == "cmd" else "btokSMRespWrap"

        def build(x, c, v):
            S = sm_side(x, c, v, right) if v["state"] else None
            cdf = expand(c["seed"] + "cdf", v["n"])
            hdr = bytes([0x04 if v["cla4"] else 0x00]) + expand(c["seed"] + "h", 3)
            obj = c17.mk_cmd(x, hdr, v["le"], cdf) if kind == "cmd" else c17.mk_resp(x, expand(c["seed"] + "sw", 2), cdf)
            cnt = x.zero(8)
            if v["probe"]:
                return fn, [None, cnt, obj, S.st if S else None]
            if x.call(fn, None, cnt, obj, S.st if S else None):
                return fn, [x.out(v["n"] + 64), x.zero(8), obj, S.st if S else None]        # the length query itself refuses (cla4): any buffer
            return fn, [x.out(cnt.int()), x.zero(8), obj, S.st if S else None]

        def expect(v, c):
            e = []
            if kind == "cmd" and v["cla4"]:
                if not v["state"]:
                    return NOJ      # "Указатель state может быть нулевым, и тогда выполняется только кодирование, без защиты": whether the bit is still refused then is not said (C17 expects ERR_OK)
                e.append("ERR_BAD_APDU")
            if v["state"] and not v["probe"] and v["ctr"] == "wrong":
                e.append("ERR_BAD_LOGIC")
            return tuple(e) or None
        sw = {"n": [0, 1, 127, 128, 255, 256, 300], "le": [0, 1, 255, 256, 257, 65535, 65536], "ctr": ["right", "wrong"], "state": [0, 1], "probe": [0, 1]}
        if kind == "cmd":
            sw["cla4"] = [0, 1]
        add(fn, sm_defaults, sw, expect, build)
    smwrap("cmd")
    smwrap("resp")

    def smunwrap(kind):
        right = 1 if kind == "cmd" else 0
        fn = "btokSMCmdUnwrap" if kind == "cmd" else "btokSMRespUnwrap"
        W = "btokSMCmdWrap" if kind == "cmd" else "btokSMRespWrap"

        def build(x, c, v):
            Wd = sm_side(x, c, dict(v, ctr="right"), right) if v["state"] else None
            cdf = expand(c["seed"] + "cdf", v["n"])
            hdr = bytes([0x00]) + expand(c["seed"] + "h", 3)
            obj = c17.mk_cmd(x, hdr, v["le"], cdf) if kind == "cmd" else c17.mk_resp(x, expand(c["seed"] + "sw", 2), cdf)
            r0, n, r, apdu = c17.sm_wrap(x, kind, obj, Wd.st if Wd else None)
            if r0 or r:
                raise Fail("%s failed while preparing a protected object: %s" % (W, ename(r0 or r)))
            if v["apdu"] == "mac" and Wd:
                # btok_sm.c layout: ... 8E 08 T[8] Le* (command; Le* absent / 1 octet / 2 octets with an extended Lc*) resp. ... 8E 08 T[8] SW1 SW2 (response)
                tail = 2 if kind == "resp" else 0 if v["le"] == 0 else 2 if apdu[4] == 0 else 1
                pos = len(apdu) - tail - 1 - c["L"] % 8
                b = bytearray(apdu); b[pos] ^= 1 << (c["L"] % 8); apdu = bytes(b)
            cnt = {"ok": len(apdu), "short": len(apdu) - 1, "long": len(apdu) + 1, "zero": 0}[v["count"]]
            U = sm_side(x, c, v, right) if v["state"] else None
            A = x.buf(apdu + b"\0")
            if v["probe"]:
                return fn, [None, x.zero(8), A, cnt, U.st if U else None]
            sz = x.zero(8)
            if x.call(fn, None, sz, A, cnt, U.st if U else None):
                size = x.call("x_apdu_cmd_size" if kind == "cmd" else "x_apdu_resp_size", v["n"] + 16, ret="z")
            else:
                size = sz.int()
            return fn, [x.out(size), x.zero(8), A, cnt, U.st if U else None]

        def expect(v, c):
            e = []
            if v["count"] == "zero":
                return ANY          # neither a 4-octet command header nor SW1 SW2
            if v["count"] != "ok":
                # one octet less / more: a protected response (87 L 02 Y 8E 08 T SW1 SW2, strict DER) cannot stay well-formed; an unprotected response of any length >= 2
                # and a command whose Le field appears / disappears may still be valid encodings (apdu.h): not judged
                return ANY if kind == "resp" and v["state"] else NOJ
            if v["apdu"] == "mac" and v["state"]:
                return NOJ if v["probe"] else ANY        # "Указатель cmd может быть нулевым, и тогда выполняется только проверка формата кода, без контроля целостности."
            if v["state"] and not v["probe"] and v["ctr"] == "wrong":
                e.append("ERR_BAD_LOGIC")
            return tuple(e) or None
        add(fn, lambda c: dict(sm_defaults(c), apdu="ok", count="ok"),
            {"n": [0, 1, 127, 128, 255, 256, 300], "le": [0, 1, 256, 257, 65536], "ctr": ["right", "wrong"], "state": [0, 1], "probe": [0, 1], "apdu": ["ok", "mac"], "count": ["ok", "short", "long", "zero"]}, expect, build)
    smunwrap("cmd")
    smunwrap("resp")


# ================================================================== bake: KDF, SWU and the RunA / RunB drivers
_TRANSCRIPT = {}


def bake_case(c, proto):
    """a case dictionary of props/c04.py derived from (seed, L)"""
    L = c["L"]
    kc = {"BSTS": (True, True)}.get(proto) or [(False, False), (True, False), (False, True), (True, True)][L % 4]
    long_names = proto == "BSTS" and (L // 4) % 3 == 0        # certificates > 512 octets: the multi-block read path (blobResize) of the BSTS drivers
    return {"proto": proto, "kca": kc[0], "kcb": kc[1], "l": [128, 128, 192, 256][(L // 12) % 4], "seed": c["seed"], "ha": [None, 0, 5, 33][L % 4], "hb": [7, None, 64, 0][(L // 4) % 4],
            "na": 520 + L if long_names else L % 21, "nb": 700 + L if long_names and L % 2 else (L * 3) % 21, "pw": (L * 5) % 41,
            "ta": {"rej": [], "u": "rnd", "tail": 7}, "tb": {"rej": [], "u": "rnd", "tail": 7}}


def add_bake():
    c04 = _mod("c04")
    if not getattr(RB.pubkey_calc, "_c09_cached", False):
        # props/c04.py recomputes the parties' public keys in pure Python for every environment: cached per (curve, d) in this process
        orig, memo = RB.pubkey_calc, {}

        def cached(params, d):
            k = (params["p"], d)
            if k not in memo:
                if len(memo) > 4096:
                    memo.clear()
                memo[k] = orig(params, d)
            return memo[k]
        cached._c09_cached = True
        RB.pubkey_calc = cached
    # bakeKDF: no restriction documented ("\return ERR_OK, если ключ успешно построен")
    add("bakeKDF", lambda c: {"secret_len": c["L"] % 70, "iv_len": (c["L"] * 3) % 50, "num": c["L"] % 3}, {"secret_len": [0, 1, 32, 33, 64], "iv_len": [0, 1, 32, 33], "num": [0, 1, 2, 255, 256, HALF, SIZE_MAX]}, lambda v, c: None,
        lambda x, c, v: ("bakeKDF", [x.out(32), data(x, c, v["secret_len"], "s"), v["secret_len"], data(x, c, v["iv_len"], "iv"), v["iv_len"], v["num"]]))
    # bakeSWU: "\expect{ERR_BAD_PARAMS} Параметры params корректны."

    def swu(x, c, v):
        l = bl(c)
        P = bign_P(x, l)
        set_l(x, P, l, v["l"])
        return "bakeSWU", [x.out(l // 2), P, data(x, c, l // 4, "m")]
    add("bakeSWU", lambda c: {"l": bl(c)}, {"l": BIGN_L}, lambda v, c: e_l(v, bl(c)), swu)

    def driver(proto, role):
        fn = "bake%sRun%s" % (proto, role.upper())

        def transcript(x, cc):
            key = repr(sorted(cc.items(), key=lambda t: t[0]))
            if key not in _TRANSCRIPT:
                if len(_TRANSCRIPT) > 512:
                    _TRANSCRIPT.clear()
                env = c04.mk_env(x, cc)
                res = c04.do_run(x, env)
                c04.check_honest(env, res, "honest run preparing the messages of %s" % fn)
                _TRANSCRIPT[key] = (res["msgs"], res["keya"])
            return _TRANSCRIPT[key]

        def build(x, c, v, tamper=None, keybuf=None):
            cc = bake_case(c, proto)
            msgs, honest = transcript(x, cc)
            env = c04.mk_env(x, cc)
            no, P = env["no"], env["P"]
            snd = c04.senders(env)
            inc = [m for i, m in enumerate(msgs) if snd[i] != role]
            if tamper is not None:
                inc[-1] = tamper(inc[-1])
            outs = [m for i, m in enumerate(msgs) if snd[i] == role]
            inarea = b"".join(len(m).to_bytes(8, "little") + m for m in inc)
            cap = sum(8 + len(m) for m in outs) + 32
            hdr = [len(inc), 0, 0, len(inarea), 0, 0, cap, 0]
            CH = x.buf(b"".join(t.to_bytes(8, "little") for t in hdr) + inarea + bytes(cap))
            Tp = x.tape(c04.mk_tape(env, role), 0)
            ha, hb = env["ha"], env["hb"]
            kca, kcb = env["kca"], env["kcb"]
            if v.get("kc", "ok") != "ok":
                kca, kcb = {"00": (False, False), "10": (True, False), "01": (False, True)}[v["kc"]]
            S = x.out(env["sizes"][0])
            x.call("x_bake_settings", S, kca, kcb, x.buf(ha) if ha is not None else None, len(ha or b""), x.buf(hb) if hb is not None else None, len(hb or b""), Tp, ret="v")
            set_l(x, P, env["l"], v.get("l", env["l"]))
            key = keybuf if keybuf is not None else x.out(32)

            def mkcert(d):
                C = x.out(env["sizes"][1])
                x.call("x_bake_cert", C, x.buf(d), len(d), ret="v")
                return C
            if proto == "BPACE":
                pw = env["pwd"] if v.get("pwd", "ok") == "ok" else expand(c["seed"] + "pwz", max(len(env["pwd"]), 1))      # (another password: never the empty one again)
                return fn, [key, P, S, x.buf(pw), len(pw), c04.CH_READ, c04.CH_WRITE, CH]
            d = env["d" + role]
            if v.get("priv", "ok") != "ok":
                d = int.from_bytes(priv_of(c, env["l"], v["priv"], "zz"), "little")
            D = x.buf(d.to_bytes(no, "little"))
            own = mkcert(env["cert" + role])
            if proto == "BMQV":
                return fn, [key, P, S, D, own, mkcert(env["cert" + ("b" if role == "a" else "a")]), c04.CH_READ, c04.CH_WRITE, CH]
            return fn, [key, P, S, D, own, c04.CERTVAL, c04.CH_READ, c04.CH_WRITE, CH]

        def true_l(c):
            return bake_case(c, proto)["l"]
        # bake.h Run*: "\expect Повторяются условия функции bake...Start()": "\expect{ERR_BAD_PARAMS} Параметры params корректны.";
        # BSTS: "\expect{ERR_BAD_INPUT} settings->kca == TRUE && settings->kcb == TRUE."; "Ключ privkey и сертификат cert согласованы. Если согласование нарушено, то протокол будет завершен с ошибкой."
        dflt = {"l": None}
        sw = {"l": BIGN_L}
        if proto == "BSTS":
            sw["kc"] = ["ok", "00", "10", "01"]
        if proto == "BPACE":
            sw["pwd"] = ["ok", "other"]
        else:
            sw["priv"] = ["ok", "other", "zero", "q", "max"]

        def defaults(c):
            d = {"l": true_l(c)}
            if proto == "BSTS":
                d["kc"] = "ok"
            if proto == "BPACE":
                d["pwd"] = "ok"
            else:
                d["priv"] = "ok"
            return d

        def expect(v, c):
            cc = bake_case(c, proto)
            e = [e_l(v, cc["l"])]
            if v.get("kc", "ok") != "ok":
                e.append(("ERR_BAD_INPUT",))
            if v.get("priv", "ok") != "ok":
                # a key that does not match the certificate (bake.h names no code for the key itself): BMQV derives K from it, so the driver fails when it verifies the
                # peer's recorded confirmation tag (A: Tb if kcb, B: Ta if kca) and silently agrees on another key otherwise; BSTS uses it only for its own signature,
                # which the recorded peer does not answer to: not judged
                e.append(ANY if proto == "BMQV" and (cc["kca"] if role == "b" else cc["kcb"]) else NOJ)
            if v.get("pwd", "ok") != "ok":
                e.append(ANY if (cc["kcb"] if role == "a" else cc["kca"]) else NOJ)
            return merge(*e)
        add(fn, defaults, sw, expect, build)
        T[fn].tamper_build = build
        T[fn].honest = lambda x, c: transcript(x, bake_case(c, proto))[1]
    for proto in ("BMQV", "BSTS", "BPACE"):
        for role in "ab":
            driver(proto, role)

    # ---- Start functions of the step interfaces (bake.h, btok.h): "\expect{ERR_BAD_PARAMS} Параметры params корректны.", BSTS: "\expect{ERR_BAD_INPUT} settings->kca == TRUE &&
    # settings->kcb == TRUE.", BAUTH: "\expect{ERR_BAD_INPUT} settings->kca == TRUE.", "\expect{ERR_BAD_CERT} Сертификат cert корректен." (public key of the certificate: coordinates >= p judged)
    def start(proto, idx):
        fn = c04.FN[proto]["start"][idx]
        role = "ab"[idx]

        def defaults(c):
            cc = bake_case(c, proto if proto != "BAUTH" else "BMQV")
            d = {"l": cc["l"], "kc": "%d%d" % ((1, 1) if proto == "BSTS" else (1, cc["kcb"]) if proto == "BAUTH" else (cc["kca"], cc["kcb"]))}
            if proto == "BPACE":
                d["pwd_len"] = cc["pw"]
            else:
                d["cert"] = "ok"
            return d

        def expect(v, c):
            cc = bake_case(c, proto if proto != "BAUTH" else "BMQV")
            e = [e_l(v, cc["l"])]
            if (proto == "BSTS" and v["kc"] != "11") or (proto == "BAUTH" and v["kc"][0] != "1"):
                e.append(("ERR_BAD_INPUT",))
            if v.get("cert", "ok") in ("xp", "yp", "xmax"):
                e.append(("ERR_BAD_CERT",))
            elif v.get("cert", "ok") == "off":
                e.append(NOJ)
            return merge(*e)

        def build(x, c, v):
            cc = dict(bake_case(c, proto if proto != "BAUTH" else "BMQV"), proto=proto)
            env = c04.mk_env(x, cc)
            no, P, l = env["no"], env["P"], env["l"]
            S = x.out(env["sizes"][0])
            ha, hb = env["ha"], env["hb"]
            x.call("x_bake_settings", S, int(v["kc"][0]), int(v["kc"][1]), x.buf(ha) if ha is not None else None, len(ha or b""), x.buf(hb) if hb is not None else None, len(hb or b""),
                   x.tape(c04.mk_tape(env, role), 0), ret="v")
            state = x.out(env["keep"][idx])
            set_l(x, P, l, v["l"])
            if proto == "BPACE":
                return fn, [state, P, S, data(x, c, v["pwd_len"], "pw"), v["pwd_len"]]
            cert = env["cert" + role]
            if v["cert"] != "ok":
                cert = cert[:-2 * no] + pub_alter(l, cert[-2 * no:], v["cert"])
            C = x.out(env["sizes"][1])
            x.call("x_bake_cert", C, x.buf(cert), len(cert), ret="v")
            return fn, [state, P, S, x.buf(env["d" + role].to_bytes(no, "little")), C]
        sw = {"l": BIGN_L, "kc": ["00", "10", "01", "11"]}
        if proto == "BPACE":
            sw["pwd_len"] = [0, 1, 32, 33, 64]
        else:
            sw["cert"] = ["ok", "xp", "yp", "xmax", "off"]
        add(fn, defaults, sw, expect, build)
    for proto, idx in (("BMQV", 0), ("BSTS", 1), ("BPACE", 0), ("BAUTH", 0), ("BAUTH", 1)):
        start(proto, idx)

    # ---- the steps that take the peer's certificate from the message and hand it to the caller's validator (bake.h bakeBSTSStep4 / Step5, btok.h btokBAuthTStep5:
    # "\return ERR_OK, если шаг успешно выполнен, и код ошибки в противном случае"): the protocol is run honestly up to the step, then the step is called with
    # a validator that accepts, one that accepts after working on an allocated copy (its allocation is one of the allocations "made during the call"), one that
    # refuses; and with the message cut short (buffer of exactly in_len octets)
    def valstep(proto, fn):
        VAL = {"ok": c04.CERTVAL, "alloc": Sym("x_bake_certval_alloc"), "reject": Sym("x_bake_certval_reject")}

        def case(c):
            cc = dict(bake_case(c, "BSTS"), proto=proto)
            if proto == "BAUTH":
                cc["kcb"] = True
            cc["na"], cc["nb"] = c["L"] % 21, (c["L"] * 3) % 21
            return cc

        def build(x, c, v):
            env = c04.mk_env(x, case(c))
            res = c04.do_run(x, env, stop_at=fn)
            if res["fail"] or "pending" not in res:
                raise Fail("honest %s run preparing %s failed: %s" % (proto, fn, c04.trace(res)))
            _, args, m, tmpl = res["pending"]
            n = {"ok": len(m), "short1": len(m) - 1, "short9": len(m) - 9, "half": len(m) // 2, "zero": 0}[v["in_len"]]
            args = list(args)
            args[tmpl.index("i")] = x.buf(m[:n])
            args[tmpl.index("l")] = n
            args[tmpl.index("v")] = VAL[v["val"]]
            return fn, args
        add(fn, lambda c: {"val": ["ok", "alloc"][c["L"] % 2], "in_len": "ok"}, {"val": ["ok", "alloc", "reject"], "in_len": ["ok", "short1", "short9", "half", "zero"]},
            lambda v, c: ANY if v["val"] == "reject" or v["in_len"] != "ok" else None, build)
    valstep("BSTS", "bakeBSTSStep4")
    valstep("BSTS", "bakeBSTSStep5")
    valstep("BAUTH", "btokBAuthTStep5")


add_belt()
add_bash_brng()
add_bign()
add_bign(True)
add_other_pk()
add_params99()
add_bpki()
add_btok()
add_bake()
add_botp()
add_bels()


# ================================================================== running one evaluation
def vcls(val):
    if isinstance(val, int):
        return {SIZE_MAX: "SIZE_MAX", HALF: "HALF"}.get(val, str(val))
    return str(val).replace(" ", "_")[:24]


def evaluate(ctx, F, c, ov):
    """one call of F with the overrides ov; judges the return code against the header-derived expectation"""
    x = ctx.x
    v = dict(F.defaults(c))
    v.update(ov)
    why = excluded(F.name, v)
    exp = F.expect(v, c)
    if why:
        ctx.exclude(why.lstrip("~"))
        if not why.startswith("~"):
            return
        exp = ANY if exp not in (None, NOJ) else exp      # reported disagreement on the code only: the call must still fail cleanly
    x.reset()
    fn, args = F.build(x, c, v)
    desc = "%s(%s)%s" % (fn, ", ".join("%s=%s" % (k, vcls(v[k])) for k in v), " [swept: %s]" % ",".join(ov) if ov else "")
    try:
        r = x.call(fn, *args)
    except Crash as e:
        e.args = ("%s (seed %s L %d; documented outcome: %s) crashed: %s" % (desc, c["seed"], c["L"], "ERR_OK" if exp is None else exp if exp == NOJ else "/".join(exp), e.args[0]),)
        raise
    if exp is None:
        if r != 0:
            raise Fail("%s: every argument inside its documented domain, returned %s (seed %s L %d)" % (desc, ename(r), c["seed"], c["L"]))
    elif exp == NOJ:
        pass
    elif r == 0:
        raise Fail("%s: argument outside the documented domain, returned ERR_OK; the header names %s" % (desc, "/".join(exp) if exp != ANY else "an error"))
    elif exp != ANY and ename(r) not in exp:
        raise Fail("%s: returned %s, the header names %s for this condition" % (desc, ename(r), "/".join(exp)))
    ctx.cls("ret_" + ename(r))
    ctx.count(1)
    return r


def sweep_of(F, p, c):
    s = F.sweep[p]
    return s(c) if callable(s) else s


def run_args(ctx, c):
    F = T[c["fn"]]
    ps = list(F.sweep)
    evaluate(ctx, F, c, {})
    ctx.cls(F.fn)
    for p in ps:
        for val in sweep_of(F, p, c):
            r = evaluate(ctx, F, c, {p: val})
            if r is None:
                continue
            ctx.cls("arg_%s_%s" % (p, vcls(val)))
            if r != 0:
                ctx.nontrivial(F.name, p, vcls(val))
    for i1, j1, i2, j2 in c["pairs"]:
        if len(ps) < 2:
            break
        p1 = ps[i1 % len(ps)]
        p2 = ps[(i1 + 1 + i2 % (len(ps) - 1)) % len(ps)]
        s1, s2 = sweep_of(F, p1, c), sweep_of(F, p2, c)
        v1, v2 = s1[j1 % len(s1)], s2[j2 % len(s2)]
        r = evaluate(ctx, F, c, {p1: v1, p2: v2})
        if r:
            ctx.cls("pair")
            ctx.nontrivial(F.name, p1, vcls(v1), p2, vcls(v2))
    ctx.sample(c)


# ================================================================== allocfail
_C15 = None


def c15_table():
    global _C15
    if _C15 is None:
        c15 = _mod("c15")
        _C15 = (c15, c15.spec_table())
    return _C15


# props/c15.py sizes the container of bpki*Wrap as len + 120 octets, the library needs len + 128 (length query): under ASan that is the
# harness's own overflow, so these four builders are not reused (the bpki entries of this module's table cover the same calls)
C15_SKIP = {"rngCreate:source_on_live", "rngCreate:source_first"}      # the first rngCreate of a process registers an at-exit handler (a legitimate persistent allocation)


def alloc_names():
    c15, tab = c15_table()
    return sorted(n for n, F in T.items() if F.alloc) + sorted("c15/" + n for n in tab if n not in C15_SKIP and len(tab[n]) <= 3)     # entries with a preparation step (bake drivers) have their own table entries here


def alloc_build(x, c):
    """-> (function, args, expectation of the fault-free call)"""
    name = c["fn"]
    if name.startswith("c15/"):
        c15, tab = c15_table()
        spec = tab[name[4:]]
        s1, _ = c15.secrets_for(c, spec)
        fn, args = spec[1](x, c, x.buf(s1))
        e = spec[2] if len(spec) > 2 else None
        return fn, args, (None if e is None else ANY if e == "any_error" else (e,))
    F = T[name]
    v = dict(F.defaults(c))
    v.update(c.get("ov") or {})
    return F.build(x, c, v) + (F.expect(v, c),)


def run_allocfail(ctx, c):
    x = ctx.x
    name = c["fn"]
    cap = 12 if ctx.tier == "quick" else 400
    try:
        x.reset()
        fn, args, exp = alloc_build(x, c)
        x.call("x_alloc_reset")
        r0 = x.call(fn, *args)
        n, live = x.call("x_alloc_count", ret="z"), x.call("x_alloc_live", ret="z")
        x.call("x_alloc_reset")
        if exp is None and r0 != 0:
            raise Fail("%s: fault-free valid call returned %s (seed %s L %d)" % (name, ename(r0), c["seed"], c["L"]))
        if exp not in (None, NOJ) and (r0 == 0 or (exp != ANY and ename(r0) not in exp)):
            raise Fail("%s: fault-free call returned %s, expected %s" % (name, ename(r0), "/".join(exp)))
        if live:
            raise Fail("%s: fault-free call (%s) left %d of its %d allocations behind" % (name, ename(r0), live, n))
        ctx.cls(fn, "n%d" % min(n, 20), "exit_" + ename(r0))
        for k in range(1, min(n, cap) + 1):
            if excluded(name, {"k": k, "n": n}):
                ctx.exclude(excluded(name, {"k": k, "n": n}))
                continue
            x.reset()
            fn, args, _ = alloc_build(x, c)
            x.call("x_alloc_reset")
            x.call("x_alloc_fail_at", k)
            r = x.call(fn, *args)
            failed, live, cnt = x.call("x_alloc_failed", ret="z"), x.call("x_alloc_live", ret="z"), x.call("x_alloc_count", ret="z")
            x.call("x_alloc_reset")
            if failed != 1:
                raise Fail("%s: the fault-free call made %d allocations, the identical call with failure at #%d made %d and none failed (call not repeatable)" % (name, n, k, cnt))
            if r == 0:
                raise Fail("%s: allocation #%d of %d failed, the call returned ERR_OK" % (name, k, n))
            if live:
                raise Fail("%s: allocation #%d of %d failed (return %s): %d allocation(s) made during the call were left behind (leak)" % (name, k, n, ename(r), live))
            ctx.cls("k%d" % min(k, 20), "ret_" + ename(r))
            ctx.nontrivial(name, k)
            ctx.count(1)
    finally:
        x.call("x_alloc_reset")
    ctx.sample(c)



# ================================================================== norelease
def windows(secret):
    return {secret[i:i + 8] for i in range(len(secret) - 7)}


def must_not_hold(fn, what, r, out, secret, part):
    if r == 0:
        raise Fail("%s with an altered %s returned ERR_OK" % (fn, part))
    w = windows(secret)
    for i in range(len(out) - 7):
        if out[i:i + 8] in w:
            raise Fail("%s returned %s (altered %s) and left 8 octets of the %s in the caller's output at offset %d: %s" % (fn, ename(r), part, what, i, out[i:i + 8].hex()))


def flip(b, pos, bit):
    a = bytearray(b)
    a[pos % len(a)] ^= 1 << (bit % 8)
    return bytes(a)


def run_norelease(ctx, c):
    x = ctx.x
    kind, sd, n, pos, bit = c["kind"], c["seed"], c["n"], c["pos"], c["bit"]
    part = c["part"]
    if kind in ("DWP", "CHE"):
        W, U = "belt%sWrap" % kind, "belt%sUnwrap" % kind
        n = 8 + n % 120
        pt, ad, key, iv = expand(sd + "pt", n), expand(sd + "ad", c["m"] % 40), expand(sd + "k", KL[c["m"] % 3]), expand(sd + "iv", 16)
        ct, mac = x.out(n), x.out(8)
        if x.call(W, ct, mac, x.buf(pt), n, x.buf(ad), len(ad), x.buf(key), len(key), x.buf(iv)):
            raise Fail("%s failed" % W)
        ctb, tag = ct.read(), mac.read()
        o = x.out(n)
        if x.call(U, o, x.buf(ctb), n, x.buf(ad), len(ad), x.buf(tag), x.buf(key), len(key), x.buf(iv)) or o.read() != pt:
            raise Fail("%s does not invert %s" % (U, W))
        part = ["tag", "ct", "ad", "key", "iv"][part % 5]
        if part == "ad" and not ad:
            part = "tag"
        ctb2, tag2, ad2, key2, iv2 = [flip(b, pos, bit) if nm == part else b for nm, b in (("ct", ctb), ("tag", tag), ("ad", ad), ("key", key), ("iv", iv))]
        o = x.out(n)
        r = x.call(U, o, x.buf(ctb2), n, x.buf(ad2), len(ad2), x.buf(tag2), x.buf(key2), len(key2), x.buf(iv2))
        must_not_hold(U, "plaintext", r, o.read(), pt, part)
    elif kind == "KWP":
        n = 16 + n % 50
        k, hdr, key = expand(sd + "pt", n), expand(sd + "h", 16) if c["m"] % 2 else None, expand(sd + "k", KL[c["m"] % 3])
        t = x.out(n + 16)
        if x.call("beltKWPWrap", t, x.buf(k), n, x.buf(hdr) if hdr else None, x.buf(key), len(key)):
            raise Fail("beltKWPWrap failed")
        tok = t.read()
        part = ["token", "header", "key"][part % 3]
        tok2, key2 = flip(tok, pos, bit) if part == "token" else tok, flip(key, pos, bit) if part == "key" else key
        hdr2 = flip(hdr if hdr else bytes(16), pos, bit) if part == "header" else hdr
        o = x.out(n)
        r = x.call("beltKWPUnwrap", o, x.buf(tok2), n + 16, x.buf(hdr2) if hdr2 else None, x.buf(key2), len(key2))
        must_not_hold("beltKWPUnwrap", "wrapped key", r, o.read(), k, part)
    elif kind == "bignKey":
        l = (128, 192, 256)[c["m"] % 3]
        P = bign_P(x, l)
        cc = {"seed": sd, "L": c["m"]}
        d = priv_of(cc, l, "ok")
        n = 16 + n % 50
        k, hdr = expand(sd + "pt", n), expand(sd + "h", 16) if c["m"] % 2 else None
        t = x.out(l // 4 + 16 + n)
        if x.call("bignKeyWrap", t, P, x.buf(k), n, x.buf(hdr) if hdr else None, x.buf(pub_calc(x, P, l, d)), *rng_args(x, cc, {}, l)):
            raise Fail("bignKeyWrap failed")
        tok = t.read()
        part = ["token", "header", "privkey"][part % 3]
        tok2 = flip(tok, pos, bit) if part == "token" else tok
        hdr2 = flip(hdr if hdr else bytes(16), pos, bit) if part == "header" else hdr
        d2 = priv_of(cc, l, "ok", "other") if part == "privkey" else d
        o = x.out(n)
        r = x.call("bignKeyUnwrap", o, P, x.buf(tok2), len(tok2), x.buf(hdr2) if hdr2 else None, x.buf(d2))
        must_not_hold("bignKeyUnwrap", "transported key", r, o.read(), k, part)
    elif kind in ("bpkiPriv", "bpkiShare"):
        W, U = ("bpkiPrivkeyWrap", "bpkiPrivkeyUnwrap") if kind == "bpkiPriv" else ("bpkiShareWrap", "bpkiShareUnwrap")
        n = (24, 32, 48, 64)[n % 4] if kind == "bpkiPriv" else (17, 25, 33)[n % 3]
        sec = expand(sd + "pt", n) if kind == "bpkiPriv" else bytes([1 + c["m"] % 16]) + expand(sd + "pt", n - 1)
        pwd = expand(sd + "pw", 1 + c["m"] % 40)
        ep, ln = x.out(n + 128), x.zero(8)
        if x.call(W, ep, ln, x.buf(sec), n, x.buf(pwd), len(pwd), x.buf(expand(sd + "s", 8)), 10000):
            raise Fail("%s failed" % W)
        cont = ep.read()[:ln.int()]
        part = ["password", "container"][part % 2]
        if part == "password":
            pwd = flip(pwd, pos, bit)
        else:
            cont = flip(cont, pos, bit)
        o = x.out(n)
        r = x.call(U, o, x.zero(8), x.buf(cont), len(cont), x.buf(pwd), len(pwd))
        must_not_hold(U, "protected key", r, o.read(), sec, part)
    elif kind == "bpkiCSR":
        # a certificate request carries its own public key and a signature under it: when the signature (or anything it covers) does not verify,
        # the key of the request must not reach the caller's buffer
        csr = CSR
        if c["m"] % 3:
            cb = x.buf(CSR)
            if x.call("bpkiCSRRewrap", cb, len(CSR), x.buf(priv_of({"seed": sd, "L": c["m"]}, 128, "ok")), 32):
                raise Fail("bpkiCSRRewrap failed")
            csr = cb.read()
        o, ln = x.out(64), x.zero(8)
        if x.call("bpkiCSRUnwrap", o, ln, x.buf(csr), len(csr)) or ln.int() != 64:
            raise Fail("bpkiCSRUnwrap rejects a valid request")
        pk = o.read()
        koff = csr.find(pk)
        if koff < 0:
            raise Fail("bpkiCSRUnwrap returned a key that is not in the request")
        part = ["signature", "pubkey", "body"][part % 3]
        if part == "signature":
            csr2 = flip(csr, len(csr) - 48 + pos % 48, bit)
        elif part == "pubkey":
            csr2 = flip(csr, koff + pos % 64, bit)
        else:
            body_at = [i for i in range(8, len(csr) - 48 - 19) if not koff <= i < koff + 64]
            csr2 = flip(csr, body_at[pos % len(body_at)], bit)
        o = x.out(64)
        r = x.call("bpkiCSRUnwrap", o, x.zero(8), x.buf(csr2), len(csr2))
        must_not_hold("bpkiCSRUnwrap", "public key of the request", r, o.read(), csr2[koff:koff + 64], part)
    elif kind in ("SMcmd", "SMresp"):
        c17 = _mod("c17")
        k = "cmd" if kind == "SMcmd" else "resp"
        right = 1 if k == "cmd" else 0
        key = expand(sd + "smk", 32)
        Wd, Ud = c17.Side(x, key), c17.Side(x, key)
        Wd.inc(right if right else 2); Ud.inc(right if right else 2)
        n = 8 + n % 300
        cdf = expand(sd + "pt", n)
        le = [0, 1, 256, 65536][c["m"] % 4]
        obj = c17.mk_cmd(x, b"\0" + expand(sd + "h", 3), le, cdf) if k == "cmd" else c17.mk_resp(x, expand(sd + "sw", 2), cdf)
        r0, cnt, r, apdu = c17.sm_wrap(x, k, obj, Wd.st)
        if r0 or r:
            raise Fail("btokSM%sWrap failed: %s" % (k, ename(r0 or r)))
        tail = 2 if k == "resp" else 0 if le == 0 else 2 if apdu[4] == 0 else 1
        part = ["mac", "data"][part % 2]
        if part == "mac":
            apdu2 = flip(apdu, len(apdu) - tail - 1 - pos % 8, bit)
        else:
            # the encrypted data field (btok_sm.c): [CLA INS P1 P2 Lc*] 87 L 02 Y[n] ...; Lc* has 3 octets when its first octet is 0
            off = (4 + (3 if apdu[4] == 0 else 1)) if k == "cmd" else 0
            ystart = off + len(c17.der_tl(0x87, n + 1)) + 1
            if apdu[off] != 0x87 or apdu[ystart - 1] != 0x02:
                raise Fail("protected %s does not have the documented layout 87 L 02 Y at offset %d: %s" % (k, off, apdu[:12].hex()))
            apdu2 = flip(apdu, ystart + pos % n, bit)
        fn = "btokSMCmdUnwrap" if k == "cmd" else "btokSMRespUnwrap"
        size = x.call("x_apdu_cmd_size" if k == "cmd" else "x_apdu_resp_size", n + 16, ret="z")
        o = x.out(size)
        r = x.call(fn, o, x.zero(8), x.buf(apdu2), len(apdu2), Ud.st)
        must_not_hold(fn, "command / response data", r, o.read(), cdf, part)
    else:
        F = T[kind]
        cc = {"seed": sd, "L": c["m"]}
        honest = F.honest(x, cc)
        kb = x.out(32)
        fn, args = F.tamper_build(x, cc, F.defaults(cc), tamper=lambda m: flip(m, pos, bit), keybuf=kb)
        r = x.call(fn, *args)
        bc = bake_case(cc, kind[4:-4])
        role = kind[-1].lower()
        proto = bc["proto"]
        # the last incoming message carries the peer's confirmation tag only if that confirmation is switched on; otherwise (and for an altered octet of a point that
        # stays on the curve: excluded by the 2^-128 density) the run legitimately ends with ERR_OK and another key
        last_tag = {"BMQV": bc["kcb"] if role == "a" else bc["kca"], "BSTS": True, "BPACE": bc["kcb"] if role == "a" else bc["kca"]}[proto]
        if r == 0:
            if last_tag:
                raise Fail("%s fed with an altered last message (octet %d) returned ERR_OK" % (fn, pos))
            if kb.read() == honest:
                raise Fail("%s: altered last message, ERR_OK and the honest key" % fn)
            part = "lastmsg_unconfirmed"
        else:
            must_not_hold(fn, "honest session key", r, kb.read(), honest, "last message")
            part = "lastmsg"
    ctx.cls(kind, "part_%s" % part, )
    ctx.nontrivial(kind, part, pos % 16)
    ctx.sample(c)


NR_KINDS = ["DWP", "CHE", "KWP", "bignKey", "bpkiPriv", "bpkiShare", "bpkiCSR", "SMcmd", "SMresp"]


# ================================================================== deterministic enumerations (every table entry in every run)
def sweep_args(ctx, part, nparts):
    names = sorted(n for n, F in T.items() if F.args)
    reps = 3 if ctx.tier == "quick" else 16
    for i, name in enumerate(names):
        if i % nparts != part:
            continue
        for rep in range(reps):
            c = {"fn": name, "seed": "a%02x%x" % (i, rep), "L": (7 * i + 37 * rep + rep * rep) % 96, "pairs": [[rep, 3 * rep + j, j, 5 * j + rep] for j in range(6)]}
            try:
                run_args(ctx, c)
            except (Fail, Crash) as e:
                e.case = c
                raise


def sweep_alloc(ctx, part, nparts):
    names = alloc_names()
    reps = 3 if ctx.tier == "quick" else 16
    for i, name in enumerate(names):
        if i % nparts != part:
            continue
        for rep in range(reps):
            c = {"fn": name, "seed": "b%02x%x" % (i, rep), "L": (5 * i + 41 * rep + rep * rep) % 96}
            try:
                run_allocfail(ctx, c)
            except (Fail, Crash) as e:
                e.case = c
                raise


def replay_override(ctx, test, case):
    (run_args if test == "args_all" else run_allocfail)(ctx, case)


# ================================================================== strategies / tests
def s_seed():
    return st.binary(min_size=1, max_size=3).map(bytes.hex)


def tests(tier):
    pair = st.tuples(st.integers(0, 7), st.integers(0, 15), st.integers(0, 7), st.integers(0, 15)).map(list)
    s_args = st.fixed_dictionaries({"fn": st.sampled_from(sorted(n for n, F in T.items() if F.args)), "seed": s_seed(), "L": st.integers(0, 95), "pairs": st.lists(pair, min_size=4, max_size=4)})
    s_alloc = st.fixed_dictionaries({"fn": st.sampled_from(alloc_names()), "seed": s_seed(), "L": st.integers(0, 95)})
    s_nr = st.fixed_dictionaries({"kind": st.sampled_from(NR_KINDS * 3 + sorted(n for n in T if n.startswith("bake") and "Run" in n)), "seed": s_seed(), "n": st.integers(0, 400), "m": st.integers(0, 95),
                                  "part": st.sampled_from(list(range(30))), "pos": st.integers(0, 1023), "bit": st.integers(0, 7)})
    return [
        Test("allocfail", s_alloc, run_allocfail, {"quick": 1200, "thorough": 12000}, ("asanwrap",)),
        Sweep("allocfail_all", sweep_alloc, 16, ("asanwrap",)),
        Test("args", s_args, run_args, {"quick": 1200, "thorough": 12000}, ("asan",)),
        Sweep("args_all", sweep_args, 16, ("asan",)),
        Test("norelease", s_nr, run_norelease, {"quick": 1200, "thorough": 12000}, ("asan",)),
    ]
