"""C08: decoders are total, bounded and canonical; encode/decode are mutually inverse.
Engine: libFuzzer targets (fuzz/fz.c) with in-target oracles + structure-aware seeds/mutants generated here +
exhaustive enumeration of all octet strings of length <= 3 through the DER target (reference TL parser inside)."""
import glob, hashlib, json, os, random, shutil, subprocess, sys, time
from concurrent.futures import ThreadPoolExecutor
from harness import VERIF, OUT, Ctx, Fail, Crash
sys.path.insert(0, os.path.join(VERIF, "fuzz"))
import build_fuzz

TARGETS = {  # name: (runs quick, runs thorough, max_len)
    "der": (600000, 20000000, 96), "oid": (300000, 10000000, 64), "apdu": (300000, 10000000, 400), "str": (300000, 10000000, 64),
    "params": (150000, 5000000, 1600), "cvc": (100000, 3000000, 1600), "bpki": (20000, 400000, 1600), "sm": (150000, 5000000, 700)}
STD = ["1.2.112.0.2.0.34.101.45.3.1", "1.2.112.0.2.0.34.101.45.3.2", "1.2.112.0.2.0.34.101.45.3.3"]


def tl(tag, n):
    t = tag.to_bytes((tag.bit_length() + 7) // 8 or 1, "big")
    if n < 128:
        return t + bytes([n])
    b = n.to_bytes((n.bit_length() + 7) // 8, "big")
    return t + bytes([0x80 | len(b)]) + b


def der(tag, val):
    return tl(tag, len(val)) + val


def tlv_tree(b):
    """lenient TLV parse of a whole octet string -> list of nodes [tag octets, children | None, value]; None when b is not a TLV sequence"""
    out = []
    i = 0
    while i < len(b):
        j = i + 1
        if b[i] & 0x1F == 0x1F:
            while j < len(b) and b[j] & 0x80:
                j += 1
            j += 1
        if j >= len(b):
            return None
        ln = b[j]; k = j + 1
        if ln & 0x80:
            nb = ln & 0x7F
            if nb == 0 or nb > 4 or k + nb > len(b):
                return None
            ln = int.from_bytes(b[k:k + nb], "big"); k += nb
        if k + ln > len(b):
            return None
        val = bytes(b[k:k + ln])
        kids = tlv_tree(val) if (b[i] & 0x20 and val) else None
        out.append([bytes(b[i:j]), kids, val])
        i = k + ln
    return out


def tlv_encode(nodes):
    out = b""
    for tag, kids, val in nodes:
        v = tlv_encode(kids) if kids is not None else val
        n = len(v)
        out += tag + (bytes([n]) if n < 128 else bytes([0x80 | ((n.bit_length() + 7) // 8)]) + n.to_bytes((n.bit_length() + 7) // 8, "big")) + v
    return out


def resize_nested(b, rnd):
    """an otherwise well-formed container in which one primitive field at any depth has another length (all enclosing lengths re-computed)"""
    tree = tlv_tree(bytes(b))
    if not tree:
        return None
    leaves = []

    def walk(nodes):
        for nd in nodes:
            if nd[1] is None:
                leaves.append(nd)
            else:
                walk(nd[1])
    walk(tree)
    if not leaves:
        return None
    nd = rnd.choice(leaves)
    v = nd[2]
    how = rnd.randrange(8)
    if how == 0: v = b""
    elif how == 1: v = v[:-1]
    elif how == 2: v = v + bytes([rnd.randrange(256)])
    elif how == 3: v = v + v
    elif how == 4: v = (v or b"\x01") * (1 + 130 // max(1, len(v)))
    elif how == 5: v = bytes(rnd.randrange(1, 256) for _ in range(rnd.choice([65, 97, 129, 257, 329, 400, 513, 1000])))
    elif how == 6: v = b"\x00" + v
    else: v = bytes([v[0] | 0x80]) + v[1:] if v else b"\x80"
    nd[2] = v
    return tlv_encode(tree)


def seeds_and_mutants(x, rnd, n_mut):
    """valid encodings produced by the library's own encoders / by construction, plus structure-aware mutants"""
    S = {k: [] for k in TARGETS}
    # DER primitives
    vals = [b"", b"\x00", b"\x7f", b"\x80", b"\x00\x80", b"\xff" * 3, bytes(range(20)), b"\x01" * 127, b"\x02" * 128, b"\x03" * 300]
    tags = [0x02, 0x03, 0x04, 0x05, 0x06, 0x13, 0x30, 0x31, 0x42, 0x1F1F, 0x1F8100, 0x5F29, 0x7F21, 0x7F8121, 0x5F818221, 0xA0, 0xDF7F]
    for t in tags:
        for v in vals[:6]:
            S["der"].append(der(t, v))
    S["der"] += [der(0x02, bytes([1])), der(0x02, b"\x00\xff"), der(0x02, (2 ** 64 - 1).to_bytes(9, "big")), der(0x03, b"\x00"), der(0x03, b"\x07\x80"), der(0x03, b"\x03\xa8"),
                 der(0x13, b"BY"), der(0x13, b"Hello, World (1+2=3)?"), der(0x30, der(0x02, b"\x05") + der(0x04, b"abc")), der(0x30, der(0x30, der(0x05, b"")))]
    oids = ["1.2.112.0.2.0.34.101.45.3.1", "0.0", "2.999.1", "1.2.840.113549.1.1.1", "2.100.3", "0.39", "1.0.4294967295", "2.4294967215"]
    for o in oids:
        n = x.call("oidToDER", None, x.buf(o.encode() + b"\0"), ret="z")
        if n != (1 << 64) - 1:
            b = x.out(n); x.call("oidToDER", b, x.buf(o.encode() + b"\0"), ret="z")
            S["oid"].append(b.read()); S["der"].append(b.read())
        S["oid"].append(o.encode())
    S["oid"] += [b"06 00", b"1..2", b"3.1", b"1.40", b"01.2", b"1.2.", bytes.fromhex("0600"), bytes.fromhex("06022aff"), bytes.fromhex("0603550480"), bytes.fromhex("060188")]
    # APDU: all Lc/Le forms
    for cdf in (0, 1, 255, 256, 300):
        for le in (0, 1, 255, 256, 257, 65536):
            a = bytes([0x00, 0xA4, 0x04, 0x0C])
            ext = cdf > 255 or le > 256
            body = bytes(rnd.randrange(256) for _ in range(cdf))
            if cdf:
                a += (b"\x00" + cdf.to_bytes(2, "big") if ext else bytes([cdf])) + body
            if le:
                if ext:
                    a += (b"" if cdf else b"\x00") + (le % 65536).to_bytes(2, "big")
                else:
                    a += bytes([le % 256])
            S["apdu"].append(a)
    S["apdu"] += [b"\x90\x00", b"data\x90\x00", b"\x6a\x82", b"\x00\xa4\x04\x0c\x00\x00\x01\xaa"]
    S["str"] += [b"", b"00", b"0aF9", b"ABCDEF0123456789abcdef", b"QUJD", b"QUI=", b"QQ==", b"QR==", b"0", b"0123456789", b"18446744073709551615", b"4294967295", b"79927398713", b"+/+/", b"AAA="]
    # bign params
    for name in STD:
        P = x.out(8 + 64 * 5 + 8)
        x.call("bignParamsStd", P, x.buf(name.encode() + b"\0"))
        cnt = x.zero(8)
        x.call("bignParamsEnc", None, cnt, P)
        n = int.from_bytes(cnt.read(), "little")
        o = x.out(n); x.call("bignParamsEnc", o, cnt, P)
        S["params"].append(o.read())
    # CV certificates made by the library (self-signed, three key lengths + bign96)
    import pyref.bign as RB
    for l, dlen in ((128, 32), (192, 48), (256, 64), (96, 24)):
        try:
            S["cvc"].append(make_cvc(x, dlen))
        except Exception:
            pass
    # SM-wrapped commands / responses
    try:
        S["sm"] += make_sm(x)
    except Exception:
        pass
    # bpki containers are expensive (10000 iterations): one each
    try:
        S["bpki"] += make_bpki(x)
    except Exception:
        pass
    # structure-aware mutants
    M = {k: [] for k in TARGETS}
    for k, base in S.items():
        if not base:
            continue
        for _ in range(n_mut if k != "bpki" else n_mut // 20):
            b = bytearray(rnd.choice(base))
            op = rnd.randrange(16)
            if not b:
                b = bytearray(b"\x30\x00")
            if op >= 12:                         # nested field resized inside a consistent container
                r = resize_nested(b, rnd) if k in ("der", "params", "cvc", "bpki", "sm") else None
                if r is not None:
                    M[k].append(r)
                    continue
                op = rnd.randrange(12)
            if op == 0 and len(b) > 1:          # non-minimal length: short -> 0x81 form
                i = 1 if (b[0] & 0x1F) != 0x1F else next((j + 1 for j in range(1, len(b)) if not b[j] & 0x80), 1)
                if i < len(b) and b[i] < 128:
                    b[i:i + 1] = bytes([0x81, b[i]])
            elif op == 1 and len(b) > 1:        # indefinite / reserved length
                b[1] = rnd.choice([0x80, 0xFF, 0x88, 0x89])
            elif op == 2:                        # huge length near SIZE_MAX
                b[1:2] = bytes([0x88]) + rnd.choice([b"\xff" * 8, b"\x7f" + b"\xff" * 7, b"\x00" * 7 + b"\x05", b"\xff" * 7 + b"\xf0"])
            elif op == 3:                        # long tag forms
                b[0:1] = rnd.choice([b"\x1f\x80\x01", b"\x1f\x1e", b"\x1f\x1f", b"\x1f\x81\x80\x80\x01", b"\x1f", b"\x7f\xff\xff\xff\x7f", b"\x1f\x81\x82\x03"])
            elif op == 4 and len(b) > 2:        # truncate
                del b[rnd.randrange(1, len(b)):]
            elif op == 5:                        # trailing garbage
                b += bytes(rnd.randrange(256) for _ in range(rnd.randrange(1, 4)))
            elif op == 6 and len(b) > 2:        # flip a bit
                b[rnd.randrange(len(b))] ^= 1 << rnd.randrange(8)
            elif op == 7 and len(b) > 2:        # length off by one
                b[1] = (b[1] + rnd.choice([1, -1])) & 0xFF
            elif op == 8 and len(b) > 3:        # zero-padded / negative integer content
                b[2:2] = rnd.choice([b"\x00", b"\xff", b"\x80"])
                b[1] = (b[1] + 1) & 0xFF
            elif op == 9 and len(b) > 3:        # inner length exceeding outer
                b[3] = 0x7F
            elif op == 10:                       # duplicate
                b = b + b
            else:
                b[rnd.randrange(len(b))] = rnd.randrange(256)
            M[k].append(bytes(b))
        # every valid encoding cut short by 1..3 octets and by half (a decoder must not look behind the end of a truncated input)
        for b in base:
            for t in (1, 2, 3, len(b) // 2):
                if 0 < t < len(b):
                    M[k].append(bytes(b[:len(b) - t]))
    return S, M


def make_cvc(x, dlen):
    import pyref.bign as RB
    # btok_cvc_t layout is filled by the library from a zeroed struct with text fields; use a C-side helper
    sz = x.call("x_cvc_sizeof", ret="z")
    C = x.zero(sz)
    priv = bytes((i * 7 + 3) % 251 for i in range(dlen))
    x.call("x_cvc_fill", C, x.buf(b"BYCA00000000\0"), x.buf(b"BYCA00000000\0"), x.buf(bytes([2, 2, 0, 7, 0, 7])), x.buf(bytes([9, 9, 1, 2, 3, 1])), 0xEE, ret="v")
    cnt = x.zero(8)
    r = x.call("btokCVCWrap", None, cnt, C, x.buf(priv), dlen)
    if r:
        raise RuntimeError("btokCVCWrap %d" % r)
    n = int.from_bytes(cnt.read(), "little")
    o = x.out(n)
    r = x.call("btokCVCWrap", o, cnt, C, x.buf(priv), dlen)
    if r:
        raise RuntimeError("btokCVCWrap %d" % r)
    return o.read()


def make_sm(x):
    out = []
    st = x.out(x.call("btokSM_keep", ret="z"))
    key = bytes([1, 2, 3] + [0] * 29)
    for cdf, le in ((0, 0), (5, 0), (0, 256), (20, 16), (300, 0), (0, 1), (0, 300), (7, 65536), (255, 256), (256, 1)):
        x.call("btokSMStart", st, x.buf(key), ret="v"); x.call("btokSMCtrInc", st, ret="v")       # commands are protected at odd counter values
        cmd = bytes([0x00, 0xA4, 0x04, 0x04]) + le.to_bytes(8, "little") + cdf.to_bytes(8, "little") + bytes(range(cdf % 256)) * (cdf // 256 + 1)
        cmd = cmd[:16 + 4 + cdf] if False else bytes([0x00, 0xA4, 0x04, 0x04]) + bytes(4) + le.to_bytes(8, "little") + cdf.to_bytes(8, "little") + bytes((i * 3) % 256 for i in range(cdf))
        C = x.buf(cmd)
        cnt = x.zero(8)
        if x.call("btokSMCmdWrap", None, cnt, C, st):
            continue
        n = int.from_bytes(cnt.read(), "little")
        o = x.out(n)
        if x.call("btokSMCmdWrap", o, cnt, C, st) == 0:
            out.append(b"\x01" + o.read())        # first octet: selector of the fuzz target (bit 0: one increment for commands)
    for rdf in (0, 7, 300):
        x.call("btokSMStart", st, x.buf(key), ret="v"); x.call("btokSMCtrInc", st, ret="v"); x.call("btokSMCtrInc", st, ret="v")    # responses at even values
        resp = bytes([0x90, 0x00]) + bytes(6) + rdf.to_bytes(8, "little") + bytes((i * 5) % 256 for i in range(rdf))
        R = x.buf(resp)
        cnt = x.zero(8)
        if x.call("btokSMRespWrap", None, cnt, R, st):
            continue
        n = int.from_bytes(cnt.read(), "little")
        o = x.out(n)
        if x.call("btokSMRespWrap", o, cnt, R, st) == 0:
            out.append(b"\x02" + o.read())        # bit 1: second increment for responses
    return out


def make_bpki(x):
    out = []
    for fn, ln in (("bpkiPrivkeyWrap", 32), ("bpkiShareWrap", 33)):
        cnt = x.zero(8)
        data = bytes([1] * ln) if fn.startswith("bpkiPriv") else bytes([1]) + bytes(range(32))
        if x.call(fn, None, cnt, x.buf(data), ln, x.buf(b"zed"), 3, x.buf(bytes(8)), 10000):
            continue
        n = int.from_bytes(cnt.read(), "little")
        o = x.out(n)
        if x.call(fn, o, cnt, x.buf(data), ln, x.buf(b"zed"), 3, x.buf(bytes(8)), 10000) == 0:
            out.append(o.read())
    return out


def structured_checks(x, rnd, tier):
    """Python-driven part (needs keys the fuzz targets cannot guess): (1) whatever the encoders produce decodes back to the encoded value -
    CV certificates of all four key lengths without and with the key, bpki containers of all lengths; (2) containers whose *protected* inner
    structure (PrivateKeyInfo / share inside the belt-kwp envelope) is altered and re-sealed under the right password: rejected, or accepted
    only if the container is the canonical encoding of what was decoded.  -> (violation messages, evaluations, accepted)"""
    bad, ev, acc = [], 0, 0
    sz = x.call("x_cvc_sizeof", ret="z")
    for dlen in (24, 32, 48, 64):
        x.reset()
        try:
            cert = make_cvc(x, dlen)
        except Exception as e:
            bad.append("btokCVCWrap fails for a %d-octet key: %s" % (dlen, e)); continue
        ev += 2
        if x.call("btokCVCLen", x.buf(cert), len(cert), ret="z") != len(cert):
            bad.append("btokCVCLen != length of a certificate produced by btokCVCWrap (key length %d)" % dlen)
        r = x.call("btokCVCUnwrap", x.zero(sz), x.buf(cert), len(cert), None, 0)
        if r:
            bad.append("btokCVCUnwrap (no key) rejects a certificate produced by btokCVCWrap with a %d-octet key: error %d" % (dlen, r))
    # (1b) every configuration of the optional certificate fields (access templates of eId / eSign absent, present, partly zero) and name lengths: the decoded
    # structure carries the encoded content, and encoding the decoded structure under the same key gives the same octets (signatures are deterministic)
    c17 = __import__("props.c17", fromlist=["x"])
    for dlen in (24, 32, 48, 64):
        for hc in ("zero", "full", "ff", "eid", "esign", "partly", "partly2"):
            x.reset()
            sd = "%d%s%d" % (dlen, hc, rnd.randrange(1 << 16))
            priv = c17.privkey(dlen, "rnd", sd)
            nm = c17.mkname(sd + "n", rnd.choice((8, 9, 11, 12)), "alnum")
            f = rnd.randrange(0, c17.MAXO - 400)
            cv = c17.Cvc(x)
            cv.fill(nm, nm, c17.digits(f), c17.digits(f + rnd.randrange(0, 400)), c17.hat_of(hc, sd))
            try:
                r, cert = c17.wrap(x, cv, priv)
            except Fail as e:
                bad.append(str(e)); continue
            if r:
                bad.append("btokCVCWrap refuses a valid content (key length %d, access templates '%s'): error %d" % (dlen, hc, r)); continue
            ev += 1
            want = c17.content(cv.get())
            r, dec = c17.unwrap(x, cert)
            got = c17.content(dec.get()) if r == 0 else None
            if r or got != want:
                bad.append("btokCVCUnwrap of a certificate made by btokCVCWrap (key length %d, access templates '%s' eid=%s esign=%s): %s" %
                           (dlen, hc, want[6].hex(), want[7].hex(), "error %d" % r if r else "decoded content differs: eid=%s esign=%s" % (got[6].hex(), got[7].hex())))
                continue
            acc += 1
            try:
                r, cert2 = c17.wrap(x, dec, priv)
            except Fail as e:
                bad.append(str(e)); continue
            if r or cert2 != cert:
                bad.append("btokCVCWrap of the structure btokCVCUnwrap decoded does not reproduce the accepted certificate (key length %d, access templates '%s')" % (dlen, hc))
    # (1c) protected commands / responses at the largest data fields that fit the extended length fields: what the wrapper emits (if it does not refuse)
    # is decoded by the peer to the wrapped command / response
    key = bytes((5 * i + 1) % 256 for i in range(32))
    lim = [(65516, 0), (65517, 0), (65517, 1), (65517, 256), (65518, 1), (65520, 0), (65521, 0), (65521, 65536), (65522, 0), (65535, 0), (65535, 1)]
    for n, le in (lim if tier != "quick" else [lim[i] for i in (1, 2, 6, 7)] + [lim[rnd.randrange(len(lim))]]) + [(rnd.randrange(0, 600), rnd.choice((0, 1, 256, 65536))) for _ in range(6)]:
        x.reset()
        A, B = c17.Side(x, key), c17.Side(x, key)
        A.inc(); B.inc()
        cdf = bytes((i * 13 + n) % 256 for i in range(n))
        hdr = bytes([0x00, 0xA4, 0x04, 0x04])
        try:
            r0, cnt, r, apdu = c17.sm_wrap(x, "cmd", c17.mk_cmd(x, hdr, le, cdf), A.st)
            if r0 or r:
                continue
            ev += 1
            q0, q, dec = c17.sm_unwrap(x, "cmd", apdu, B.st)
        except Fail as e:
            bad.append(str(e)); continue
        if q or dec != (hdr, le, cdf):
            bad.append("btokSMCmdUnwrap of a command protected by btokSMCmdWrap (cdf_len %d, rdf_len %d, %d octets): %s" %
                       (n, le, len(apdu), "error %d" % q if q else "decoded command differs (rdf_len %s, cdf_len %d)" % (dec[1], len(dec[2]))))
            continue
        acc += 1
    for n in ((65535, 65536) if tier != "quick" else (65536,)) + tuple(rnd.randrange(0, 600) for _ in range(4)):
        x.reset()
        A, B = c17.Side(x, key), c17.Side(x, key)
        A.inc(2); B.inc(2)
        rdf = bytes((i * 11 + n) % 256 for i in range(n))
        try:
            r0, cnt, r, apdu = c17.sm_wrap(x, "resp", c17.mk_resp(x, b"\x90\x00", rdf), A.st)
            if r0 or r:
                continue
            ev += 1
            q0, q, dec = c17.sm_unwrap(x, "resp", apdu, B.st)
        except Fail as e:
            bad.append(str(e)); continue
        if q or dec != (b"\x90\x00", rdf):
            bad.append("btokSMRespUnwrap of a response protected by btokSMRespWrap (rdf_len %d): %s" % (n, "error %d" % q if q else "decoded response differs"))
            continue
        acc += 1
    pwd, salt = b"zed", bytes(range(8))
    for W, U, lens in (("bpkiPrivkeyWrap", "bpkiPrivkeyUnwrap", (24, 32, 48, 64)), ("bpkiShareWrap", "bpkiShareUnwrap", (17, 25, 33))):
        for ln in lens:
            x.reset()
            data = (bytes([3]) if "Share" in W else b"") + bytes((7 * i + ln) % 251 for i in range(ln - (1 if "Share" in W else 0)))
            cnt = x.zero(8)
            if x.call(W, None, cnt, None, ln, None, 0, None, 10000):
                bad.append("%s length query fails (len %d)" % (W, ln)); continue
            n = int.from_bytes(cnt.read(), "little")
            o = x.out(n)
            if x.call(W, o, cnt, x.buf(data), ln, x.buf(pwd), 3, x.buf(salt), 10000):
                bad.append("%s fails (len %d)" % (W, ln)); continue
            cont = o.read()
            ev += 1
            k = x.out(ln); kl = x.zero(8)
            r = x.call(U, k, kl, x.buf(cont), n, x.buf(pwd), 3)
            if r or int.from_bytes(kl.read(), "little") != ln or k.read() != data:
                bad.append("%s does not return what %s encoded (len %d): error %d" % (U, W, ln, r)); continue
            # (2) inner structure altered and re-sealed
            tree = tlv_tree(cont)
            leaves = []

            def walk(nodes):
                for nd in nodes:
                    if nd[1] is None: leaves.append(nd)
                    else: walk(nd[1])
            if not tree:
                bad.append("%s output is not a TLV structure" % W); continue
            walk(tree)
            edata = leaves[-1][2]
            key = x.out(32)
            if x.call("beltPBKDF2", key, x.buf(pwd), 3, 10000, x.buf(salt), 8):
                continue
            inner = x.out(len(edata) - 16)
            if x.call("beltKWPUnwrap", inner, x.buf(edata), len(edata), None, key, 32):
                bad.append("the protected part of a %s container does not open with belt-kwp under PBKDF2(pwd)" % W); continue
            pki = inner.read()
            for j in range(6 if tier == "quick" else 60):
                m = bytearray(pki)
                op = rnd.randrange(6)
                if op == 0: m += bytes(rnd.randrange(256) for _ in range(rnd.randrange(1, 9)))          # stray octets behind the structure
                elif op == 1: m = bytearray(resize_nested(m, rnd) or m)
                elif op == 2 and len(m) > 2 and m[1] < 128: m[1:2] = bytes([0x81, m[1]])               # non-minimal outer length
                elif op == 3: m[rnd.randrange(len(m))] ^= 1 << rnd.randrange(8)
                elif op == 4: m = m + m[-1:]
                else: m[2:2] = b"\x05\x00"
                m = bytes(m)
                if m == pki or len(m) < 16:
                    continue
                e2 = x.out(len(m) + 16)
                if x.call("beltKWPWrap", e2, x.buf(m), len(m), None, key, 32):
                    continue
                leaves[-1][2] = e2.read()
                c2 = tlv_encode(tree)
                leaves[-1][2] = edata
                ev += 1
                k2 = x.out(len(m) + 16); kl2 = x.zero(8)
                r = x.call(U, None, kl2, x.buf(c2), len(c2), x.buf(pwd), 3)
                if r:
                    continue
                ln2 = int.from_bytes(kl2.read(), "little")
                r = x.call(U, k2, kl2, x.buf(c2), len(c2), x.buf(pwd), 3)
                if r:
                    continue        # (the length probe does not see the content: bpki.h checks the share number only when share != 0)
                acc += 1
                got = k2.read()[:ln2]
                cnt2 = x.zero(8)
                ok = x.call(W, None, cnt2, None, ln2, None, 0, None, 10000) == 0
                o2 = x.out(int.from_bytes(cnt2.read(), "little")) if ok else None
                if not ok or x.call(W, o2, cnt2, x.buf(got), ln2, x.buf(pwd), 3, x.buf(salt), 10000) or o2.read() != c2:
                    bad.append("%s accepts a container of %d octets whose protected inner structure was altered (%d -> %d octets) and returns %d octets that %s encodes differently"
                               " (non-canonical encoding accepted): inner %s" % (U, len(c2), len(pki), len(m), ln2, W, m.hex()))
    return bad, ev, acc


def run_proc(cmd, env=None, timeout=None):
    try:
        p = subprocess.run(cmd, capture_output=True, text=True, errors="replace", env=env, timeout=timeout)
        return p.returncode, p.stdout + p.stderr
    except subprocess.TimeoutExpired as e:
        return -9, (e.stdout or b"").decode(errors="replace") if isinstance(e.stdout, bytes) else str(e.stdout)


def main(tier, seed, only=None):
    t0 = time.time()
    d = build_fuzz.build_targets()
    work = os.path.join(VERIF, ".cache", "fuzzwork-%d" % os.getpid())
    shutil.rmtree(work, ignore_errors=True)
    os.makedirs(work)
    rnd = random.Random(seed)
    ctx = Ctx("asan", tier)
    x = ctx.ex("asan")
    x.reset()
    S, M = seeds_and_mutants(x, rnd, 400 if tier == "quick" else 4000)
    x.reset()
    try:
        st_bad, st_ev, st_acc = structured_checks(x, rnd, tier) if (only is None or "structured" in only) else ([], 0, 0)
    except Exception as e:
        if type(e).__name__ != "Crash":
            raise
        # the executor died inside a decoder (sanitizer report / library ASSERT) on a structured input
        st_bad, st_ev, st_acc = ["a decoder crashed on a structured input (re-sealed container / encoder output): %s" % str(e)[:400]], 1, 0
        x = ctx.ex("asan")
    x.reset()
    env = dict(os.environ, ASAN_OPTIONS="detect_leaks=0:abort_on_error=0:exitcode=77:allocator_may_return_null=1:malloc_limit_mb=512", UBSAN_OPTIONS="halt_on_error=1")
    jobs = []
    violations = []
    notes = []
    stats = {}
    # 1. exhaustive <= 3 octets through the DER target
    shards = [(i * 16, (i + 1) * 16) for i in range(16)]

    def exh(sh):
        return sh, run_proc([os.path.join(d, "fz_der_exhaust"), str(sh[0]), str(sh[1])], env=env, timeout=1500)
    # 2. replay regression artifacts, seeds + mutants (every file executed once), then the fuzzing campaign
    def fuzz(args):
        name, inst = args
        q, th, maxlen = TARGETS[name]
        runs = (q if tier == "quick" else th) // 2
        cdir = os.path.join(work, "%s-%d" % (name, inst)); os.makedirs(cdir)
        sdir = os.path.join(work, "%s-seed" % name)
        art = os.path.join(work, "%s-%d-art" % (name, inst)) + "/"; os.makedirs(art)
        statf = os.path.join(work, "%s-%d.stat" % (name, inst))
        e2 = dict(env, FZ_STATS=statf)
        cmd = [os.path.join(d, "fz_" + name), cdir, sdir, "-runs=%d" % runs, "-seed=%d" % ((seed or 1) * 31 + inst), "-max_len=%d" % maxlen, "-print_final_stats=1",
               "-artifact_prefix=" + art, "-timeout=25", "-rss_limit_mb=2048", "-max_total_time=%d" % (150 if tier == "quick" else 1500), "-use_value_profile=1"]
        rc, out = run_proc(cmd, env=e2, timeout=3000)
        return name, inst, rc, out, art, cdir, statf
    for name in TARGETS:
        sdir = os.path.join(work, "%s-seed" % name); os.makedirs(sdir)
        for i, b in enumerate(S[name] + M[name]):
            open(os.path.join(sdir, "%04d" % i), "wb").write(b)
    with ThreadPoolExecutor(16) as ex:
        exh_f = [ex.submit(exh, sh) for sh in shards] if (only is None or "exhaustive" in only) else []
        exh_res = [f.result() for f in exh_f]
        fz_res = list(ex.map(fuzz, [(n, i) for n in TARGETS for i in (0, 1) if only is None or n in only]))
    total_exec = 0
    total_units = 0
    exh_count = 0
    samples = []
    for sh, (rc, out) in exh_res:
        if rc != 0:
            line = [l for l in out.splitlines() if "ORACLE" in l or "SUMMARY" in l]
            inp = [l for l in out.splitlines() if "input[" in l]
            violations.append(("der-exhaustive", None, (line or [out[-300:]])[0]))
        else:
            for l in out.splitlines():
                if l.startswith("exhaustive"):
                    exh_count += int(l.split()[1])
    for name, inst, rc, out, art, cdir, statf in fz_res:
        execs = 0
        for l in out.splitlines():
            if "stat::number_of_executed_units" in l:
                execs = int(l.split()[-1])
        total_exec += execs
        units = len(os.listdir(cdir))
        total_units += units
        acc = 0
        if os.path.exists(statf):
            acc = int(open(statf).read().split()[1])
        stats["%s-%d" % (name, inst)] = {"executions": execs, "corpus_units": units, "accepted_by_a_decoder": acc, "rc": rc}
        arts = [f for f in glob.glob(art + "*") if os.path.basename(f).startswith(("crash-", "leak-"))]
        for f in arts:
            # reproduce 3x
            okc = 0
            msg = ""
            for _ in range(3):
                rc2, out2 = run_proc([os.path.join(d, "fz_" + name), f], env=env, timeout=120)
                if rc2 != 0:
                    okc += 1
                    ls = [l for l in out2.splitlines() if "ORACLE" in l or "SUMMARY" in l]
                    msg = ls[0] if ls else out2[-300:]
            if okc == 3:
                violations.append((name, f, msg))
            else:
                notes.append("artifact %s did not reproduce (%d/3)" % (os.path.basename(f), okc))
        if rc not in (0,) and not arts:
            tail = [l for l in out.splitlines() if "ORACLE" in l or "ERROR" in l or "SUMMARY" in l]
            if tail:
                notes.append("%s-%d exited %d: %s" % (name, inst, rc, tail[0][:200]))
        if len(samples) < 6 and S[name]:
            samples.append({"target": name, "seed_input": S[name][0].hex()[:120], "mutant": (M[name][0].hex()[:120] if M[name] else None)})
    for msg in st_bad:
        violations.append(("structured", None, msg))
    stats["structured"] = {"executions": st_ev, "accepted_by_a_decoder": st_acc}
    total_exec += st_ev
    # regression replay files
    replayed = 0
    for f in sorted(glob.glob(os.path.join(VERIF, "replay", "C08-*.bin"))):
        name = os.path.basename(f).split("-")[1]
        okc = sum(1 for _ in range(3) if run_proc([os.path.join(d, "fz_" + name), f], env=env, timeout=120)[0] != 0)
        replayed += 1
        if okc == 3:
            violations.append((name, f, "regression input fails again"))
    # dedupe violations by message
    seen = {}
    for name, f, msg in violations:
        key = (name, msg.split(" input[")[0][:120])
        if key not in seen:
            seen[key] = (name, f, msg)
    out_paths = []
    os.makedirs(os.path.join(OUT, "replay"), exist_ok=True)
    for (name, f, msg) in seen.values():
        if f and not f.startswith(os.path.join(VERIF, "replay")):
            h = hashlib.sha256(open(f, "rb").read()).hexdigest()[:10]
            dst = os.path.join(OUT, "replay", "C08-%s-%s.bin" % (name, h))
            shutil.copy(f, dst)
        elif f:
            dst = f
        else:
            dst = os.path.join(OUT, "replay", "C08-%s-%s.txt" % ("der_exhaustive" if name == "der-exhaustive" else name, hashlib.sha256(msg.encode()).hexdigest()[:8]))
            open(dst, "w").write(msg + "\n")
        out_paths.append((dst, name, msg))
    wall = time.time() - t0
    ev = {"property_id": "C08", "tier": tier, "seed": seed, "level": "exploration",
          "coverage": {"evaluations": total_exec + exh_count, "distinct_nontrivial": total_units,
                       "rule": "libFuzzer campaigns (2 instances x 8 decoder families, exact-size input buffers, ASan) started from structure-aware seeds and %d mutants per family (non-minimal/indefinite/huge lengths, all tag forms, truncation, padded/negative integers, inner>outer lengths, all APDU Lc/Le forms); "
                               "in-target oracles: bounded consumption, probe == real call, canonical re-encoding, enc->dec identity, an independent reference TL parser; "
                               "distinct_nontrivial = inputs kept in the corpora because they reached new coverage features (not rejected at the first octet by construction of the seeds); "
                               "plus all %d octet strings of length <= 3 through the DER target (exhaustive); "
                               "plus structured encoder round trips driven from Python (keys the fuzz targets cannot guess): CV certificates of 4 key lengths x 7 configurations of the optional access templates "
                               "(decode == encoded content, re-encode == certificate), protected commands / responses at the largest data fields of the extended length forms, re-sealed bpki containers" % (len(M["der"]), exh_count),
                       "samples": samples, "exhaustive": False, "exhaustive_subdomains": ["all octet strings of length 0..3 through derTLDec/derDec/derIsValid and every typed decoder: %d inputs" % exh_count],
                       "per_target": stats, "replayed_regressions": replayed, "notes": notes},
          "assumptions": ["libFuzzer campaigns are only approximately reproducible from the seed; a saved artifact is the reproducible unit", "the reference TL parser in fuzz/fz.c transcribes the rules of der.h",
                          "bpki containers cost 10000 PBKDF2 iterations per accepted outer structure, so that campaign is short"],
          "wall_s": round(wall, 2), "violations": len(out_paths)}
    os.makedirs(os.path.join(OUT, "evidence"), exist_ok=True)
    json.dump(ev, open(os.path.join(OUT, "evidence", "C08.json"), "w"), indent=1)
    print("C08 tier=%s seed=%d executions=%d exhaustive=%d corpus_units=%d wall=%.1fs violations=%d" % (tier, seed, total_exec, exh_count, total_units, wall, len(out_paths)))
    for nline in notes[:5]:
        sys.stderr.write("note: %s\n" % nline)
    shutil.rmtree(work, ignore_errors=True)
    for dst, name, msg in out_paths:
        print("  failing: target=%s %s" % (name, msg[:300]))
        print("VIOLATION property=C08 replay=%s" % dst)
    return 1 if out_paths else 0


def replay(path):
    d = build_fuzz.build_targets()
    name = os.path.basename(path).split("-")[1]
    if path.endswith(".txt"):
        return main("quick", 1, ["structured", "exhaustive"]) != 0       # enumerations / structured checks: a replay is a fresh complete run of them
    env = dict(os.environ, ASAN_OPTIONS="detect_leaks=0:exitcode=77")
    bad = sum(1 for _ in range(3) if run_proc([os.path.join(d, "fz_" + name), path], env=env, timeout=120)[0] != 0)
    return bad == 3


def tests(tier):
    return []
