"""C11: functions documented as overlap-tolerant give the disjoint-buffer result.
All inputs are laid out (pairwise disjoint) in one arena; every output is placed at an arbitrary offset
relative to one of the inputs (or in its own allocation); the oracle is the same call with pairwise disjoint buffers."""
import os
from harness import Test, Sweep, Fail, st
from gens import expand

RULE = ("cases: function x sizes x placement of each output at offset delta in [-(out+16), in+16] relative to a chosen input (src, key, iv, header, mac, ...) or disjoint; "
        "placements a header forbids (dest/mac in DWP/CHE Wrap, iv/dest in FMT) are not generated; sweep: every delta for dest against src for each function and several lengths. "
        "non-trivial: an output partially overlaps an input (0 < |delta| < size) or covers an auxiliary input; distinct by (function, sizes, anchor, delta)")
LEVEL = "exploration"
ASSUMPTIONS = ["the disjoint-buffer call is the oracle", "inputs are kept pairwise disjoint so that their contents are well defined; only output/input overlap is explored (the direction that can corrupt data)"]
BUDGET = {"quick": 200, "thorough": 2400}
CFG = tuple(os.environ.get("VERIF_CFG", "asan").split(","))
PAD = 700


def klen_of(c):
    return [16, 24, 32][c.get("k", 2) % 3]


# --- function table -----------------------------------------------------------------------------------
# each entry: prep(x, c) -> dict(ins={name: bytes}, outs={name: size}, call=lambda B: (fn, args, ret), forbid=[(out, in_or_out)], align=..)
def _ciph(fn, need_iv, minlen, mult16):
    def prep(x, c):
        L = max(c["L"], minlen)
        if mult16:
            L = max(minlen, L // 16 * 16)
        kl = klen_of(c)
        ins = {"src": expand(c["seed"], L), "key": expand(c["seed"] + "k", kl)}
        if need_iv:
            ins["iv"] = expand(c["seed"] + "i", 16)
        return dict(ins=ins, outs={"dest": L},
                    call=lambda B: (fn, [B["dest"], B["src"], L, B["key"], kl] + ([B["iv"]] if need_iv else []), "i"))
    return prep


def _aead_wrap(name):
    def prep(x, c):
        L1, L2, kl = c["L"], c["L2"], klen_of(c)
        ins = {"src1": expand(c["seed"], L1), "src2": expand(c["seed"] + "a", L2), "key": expand(c["seed"] + "k", kl), "iv": expand(c["seed"] + "i", 16)}
        return dict(ins=ins, outs={"dest": L1, "mac": 8}, forbid=[("dest", "mac")],
                    call=lambda B: ("belt%sWrap" % name, [B["dest"], B["mac"], B["src1"], L1, B["src2"], L2, B["key"], kl, B["iv"]], "i"))
    return prep


def _aead_unwrap(name):
    def prep(x, c):
        L1, L2, kl = c["L"], c["L2"], klen_of(c)
        pt, ad, key, iv = expand(c["seed"], L1), expand(c["seed"] + "a", L2), expand(c["seed"] + "k", kl), expand(c["seed"] + "i", 16)
        d = x.out(L1); m = x.out(8)
        if x.call("belt%sWrap" % name, d, m, x.buf(pt), L1, x.buf(ad), L2, x.buf(key), kl, x.buf(iv)):
            raise Fail("Wrap failed")
        ins = {"src1": d.read(), "src2": ad, "mac": m.read(), "key": key, "iv": iv}
        return dict(ins=ins, outs={"dest": L1},
                    call=lambda B: ("belt%sUnwrap" % name, [B["dest"], B["src1"], L1, B["src2"], L2, B["mac"], B["key"], kl, B["iv"]], "i"))
    return prep


def _kwp_wrap(x, c):
    L, kl = max(16, c["L"]), klen_of(c)
    ins = {"src": expand(c["seed"], L), "key": expand(c["seed"] + "k", kl)}
    hdr = c["L2"] % 2 == 0
    if hdr:
        ins["header"] = expand(c["seed"] + "h", 16)
    return dict(ins=ins, outs={"dest": L + 16},
                call=lambda B: ("beltKWPWrap", [B["dest"], B["src"], L, B["header"] if hdr else None, B["key"], kl], "i"))


def _kwp_unwrap(x, c):
    L, kl = max(16, c["L"]), klen_of(c)
    key = expand(c["seed"] + "k", kl)
    hdr = c["L2"] % 2 == 0
    h = expand(c["seed"] + "h", 16)
    t = x.out(L + 16)
    if x.call("beltKWPWrap", t, x.buf(expand(c["seed"], L)), L, x.buf(h) if hdr else None, x.buf(key), kl):
        raise Fail("KWPWrap failed")
    ins = {"src": t.read(), "key": key}
    if hdr:
        ins["header"] = h
    return dict(ins=ins, outs={"dest": L},
                call=lambda B: ("beltKWPUnwrap", [B["dest"], B["src"], L + 16, B["header"] if hdr else None, B["key"], kl], "i"))


def _mac(x, c):
    L, kl = c["L"], klen_of(c)
    return dict(ins={"src": expand(c["seed"], L), "key": expand(c["seed"] + "k", kl)}, outs={"mac": 8},
                call=lambda B: ("beltMAC", [B["mac"], B["src"], L, B["key"], kl], "i"))


def _hash(x, c):
    L = c["L"]
    return dict(ins={"src": expand(c["seed"], L)}, outs={"hash": 32}, call=lambda B: ("beltHash", [B["hash"], B["src"], L], "i"))


def _bashhash(x, c):
    L = c["L"] * 3
    l = 16 * (1 + c["L2"] % 16)
    return dict(ins={"src": expand(c["seed"], L)}, outs={"hash": l // 4}, call=lambda B: ("bashHash", [B["hash"], l, B["src"], L], "i"))


def _hmac(x, c):
    L, kl = c["L"], [0, 1, 31, 32, 33, 64, 65, 100][c["k"] % 8]
    return dict(ins={"src": expand(c["seed"], L), "key": expand(c["seed"] + "k", kl)}, outs={"mac": 32},
                call=lambda B: ("beltHMAC", [B["mac"], B["src"], L, B["key"], kl], "i"))


def _krp(x, c):
    n = klen_of(c)
    m = [16, 24, 32][c["L2"] % 3]
    if m > n:
        m = n
    return dict(ins={"src": expand(c["seed"], n), "level": expand(c["seed"] + "l", 12), "header": expand(c["seed"] + "h", 16)}, outs={"dest": m},
                call=lambda B: ("beltKRP", [B["dest"], m, B["src"], n, B["level"], B["header"]], "i"))


def _fmt(fn):
    def prep(x, c):
        cnt = 2 + c["L"] % 60
        mod = [2, 3, 10, 16, 255, 256, 257, 1000, 49667, 65535, 65536][c["L2"] % 11]
        kl = klen_of(c)
        raw = expand(c["seed"], 2 * cnt)
        src = b"".join((int.from_bytes(raw[2 * j:2 * j + 2], "little") % mod).to_bytes(2, "little") for j in range(cnt))
        ins = {"src": src, "key": expand(c["seed"] + "k", kl)}
        hasiv = c["k"] % 2 == 0
        if hasiv:
            ins["iv"] = expand(c["seed"] + "i", 16)
        return dict(ins=ins, outs={"dest": 2 * cnt}, forbid=[("dest", "iv")], align=2,
                    call=lambda B: (fn, [B["dest"], mod, B["src"], cnt, B["key"], kl, B["iv"] if hasiv else None], "i"))
    return prep


def _keyexpand(fn, align):
    def prep(x, c):
        kl = klen_of(c)
        return dict(ins={"key": expand(c["seed"], kl)}, outs={"key_": 32}, align=align, call=lambda B: (fn, [B["key_"], B["key"], kl], "v"))
    return prep


def _memmove(x, c):
    L = c["L"]
    return dict(ins={"src": expand(c["seed"], L)}, outs={"dest": L}, call=lambda B: ("memMove", [B["dest"], B["src"], L], "v"))


def _memjoin(x, c):
    L1, L2 = c["L"], c["L2"]
    return dict(ins={"src1": expand(c["seed"], L1), "src2": expand(c["seed"] + "b", L2)}, outs={"dest": L1 + L2},
                call=lambda B: ("memJoin", [B["dest"], B["src1"], L1, B["src2"], L2], "v"))


def _derenc(x, c):
    L = c["L"] * 3
    tag = [0x04, 0x30, 0x1F21, 0x5F8121, 0x02][c["L2"] % 5]
    # derEnc(0, ...) gives the total size
    n = x.call("derEnc", None, tag, None, L, ret="z")
    return dict(ins={"val": expand(c["seed"], L)}, outs={"der": n}, call=lambda B: ("derEnc", [B["der"], tag, B["val"], L], "z"))


def _start_stepG(bundle, keepf, startiv, stepA, stepG, glen, key_in_state=True):
    """key inside the state at Start (allowed), mac inside the state at the final StepG (allowed when not continuing)"""
    def prep(x, c):
        kl = klen_of(c)
        L = c["L"]
        keep = x.call(keepf, ret="z")
        ins = {"key": expand(c["seed"] + "k", kl), "data": expand(c["seed"], L)}
        if startiv:
            ins["iv"] = expand(c["seed"] + "i", 16)

        def call(B):
            # composite: Start(state, key...) ; StepA(data) ; StepG(mac, state) -> mac is the output
            return ("__seq__", [("belt%sStart" % bundle, [B["state"], B["key"], kl] + ([B["iv"]] if startiv else []), "v"),
                                (stepA, [B["data"], L, B["state"]], "v"),
                                (stepG, [B["mac"], B["state"]], "v")], "v")
        return dict(ins=ins, outs={"state": keep, "mac": glen}, call=call, only_anchor={"state": ["key"] if key_in_state else ["__none__"], "mac": ["state"]}, check=["mac"], gap=PAD)
    return prep


def _start_key_in_state(bundle):
    """belt.h: 'key and state may overlap' (remark of every belt*Start): Start with the key stored inside the state region, then one
    use of the state; the result must be that of a state initialised from a separate key buffer"""
    def prep(x, c):
        kl = klen_of(c)
        L = c["L"]
        n = {"WBL": 32 + L % 60, "ECB": 16 + L % 50, "CBC": 16 + L % 50, "CFB": L % 60, "CTR": L % 60, "DWP": L % 60, "CHE": L % 60,
             "BDE": 16 * (1 + L % 4), "SDE": 16 * (2 + L % 4), "FMT": 2 + L % 20, "KRP": 0}[bundle]
        ins = {"key": expand(c["seed"] + "k", kl)}
        iv = expand(c["seed"] + "i", 16)
        if bundle == "FMT":
            mod = [10, 256, 1000, 65536][c["L2"] % 4]
            raw = expand(c["seed"], 2 * n)
            data = b"".join((int.from_bytes(raw[2 * j:2 * j + 2], "little") % mod).to_bytes(2, "little") for j in range(n))
            keep = x.call("beltFMT_keep", mod, n, ret="z")
        else:
            data = expand(c["seed"], n)
            keep = x.call("belt%s_keep" % bundle, ret="z")
        outs = {"state": keep}

        def call(B):
            st, key = B["state"], B["key"]
            IV, D = x.buf(iv), x.buf(data)
            if bundle == "KRP":
                m = [16, 24, 32][c["L2"] % 3]
                m = m if m <= kl else 16
                return ("__seq__", [("beltKRPStart", [st, key, kl, x.buf(expand(c["seed"] + "l", 12))], "v"),
                                    ("beltKRPStepG", [B["res"], m, x.buf(expand(c["seed"] + "h", 16)), st], "v")], "v")
            if bundle == "FMT":
                return ("__seq__", [("beltFMTStart", [st, mod, n, key, kl], "v"), ("memCopy", [B["res"], D, 2 * n], "v"), ("beltFMTStepE", [B["res"], IV, st], "v")], "v")
            if bundle in ("DWP", "CHE"):
                A = x.buf(expand(c["seed"] + "a", 5 + L % 30))
                return ("__seq__", [("belt%sStart" % bundle, [st, key, kl, IV], "v"), ("belt%sStepI" % bundle, [A, 5 + L % 30, st], "v"),
                                    ("memCopy", [B["res"], D, n], "v"), ("belt%sStepE" % bundle, [B["res"], n, st], "v"),
                                    ("belt%sStepA" % bundle, [B["res"], n, st], "v"), ("belt%sStepG" % bundle, [B["res"].at(n), st], "v")], "v")
            start = [st, key, kl] + ([IV] if bundle in ("CBC", "CFB", "CTR", "BDE") else [])
            step = [B["res"], n] + ([IV] if bundle == "SDE" else []) + [st]
            return ("__seq__", [("belt%sStart" % bundle, start, "v"), ("memCopy", [B["res"], D, n], "v"), ("belt%sStepE" % bundle, step, "v")], "v")
        outs["res"] = {"KRP": 32, "FMT": 2 * n, "DWP": n + 8, "CHE": n + 8}.get(bundle, n)
        if bundle == "KRP":
            outs["res"] = [16, 24, 32][c["L2"] % 3] if [16, 24, 32][c["L2"] % 3] <= kl else 16
        return dict(ins=ins, outs=outs, call=call, only_anchor={"state": ["key"], "res": ["__none__"]}, check=["res"], gap=PAD, align=8)
    return prep


def _stepG_in_state(kind):
    """'hash / mac and state may overlap' (when the state is not used afterwards): the final value written into the state region"""
    def prep(x, c):
        L = c["L"] * 2
        kl = klen_of(c)
        data = expand(c["seed"], L)
        if kind == "bashHashStepG":
            lvl = 16 * (1 + c["L2"] % 16)
            keep, glen = x.call("bashHash_keep", ret="z"), 1 + c["k"] % (lvl // 4)
            seq = lambda B: [("bashHashStart", [B["state"], lvl], "v"), ("bashHashStepH", [x.buf(data), L, B["state"]], "v"), ("bashHashStepG", [B["mac"], glen, B["state"]], "v")]
        elif kind in ("beltHashStepG", "beltHashStepG2"):
            keep, glen = x.call("beltHash_keep", ret="z"), 32 if kind == "beltHashStepG" else 1 + c["k"] % 32
            fin = (lambda B: ("beltHashStepG", [B["mac"], B["state"]], "v")) if kind == "beltHashStepG" else (lambda B: ("beltHashStepG2", [B["mac"], glen, B["state"]], "v"))
            seq = lambda B: [("beltHashStart", [B["state"]], "v"), ("beltHashStepH", [x.buf(data), L, B["state"]], "v"), fin(B)]
        elif kind == "beltMACStepG2":
            keep, glen = x.call("beltMAC_keep", ret="z"), 1 + c["k"] % 8
            seq = lambda B: [("beltMACStart", [B["state"], x.buf(expand(c["seed"] + "k", kl)), kl], "v"), ("beltMACStepA", [x.buf(data), L, B["state"]], "v"), ("beltMACStepG2", [B["mac"], glen, B["state"]], "v")]
        else:       # beltHMACStepG2
            keep, glen = x.call("beltHMAC_keep", ret="z"), 1 + c["k"] % 32
            seq = lambda B: [("beltHMACStart", [B["state"], x.buf(expand(c["seed"] + "k", 20 + kl)), 20 + kl], "v"), ("beltHMACStepA", [x.buf(data), L, B["state"]], "v"), ("beltHMACStepG2", [B["mac"], glen, B["state"]], "v")]
        # (the state is anchored to an unused 8-octet input only to get it into the arena, where the final value can be placed inside it)
        return dict(ins={"pad": b"\x11" * 8}, outs={"state": keep, "mac": glen}, call=lambda B: ("__seq__", seq(B), "v"),
                    only_anchor={"state": ["pad"], "mac": ["state"]}, check=["mac"], gap=PAD, align=1)
    return prep


def _dstu_point(which):
    """dstu.h: the buffers point and xpoint may overlap (dstuPointCompress / dstuPointRecover) - curve 163pb with its appendix base point"""
    def prep(x, c):
        import pyref.dstu as RD
        M = RD.PARAMS[RD._PFX + "0"]
        no = (M.p[0] + 7) // 8
        k = 1 + int.from_bytes(expand(c["seed"], 8), "little") % 1000
        pt = RD.point_enc(M, RD.ec_mul(M, k, M.P))
        prm = x.out(x.call("x_c16_sizeof", 2, ret="z"))
        x.call("dstuParamsStd", prm, x.buf(M.name.encode() + b"\0"))
        if which == "compress":
            return dict(ins={"point": pt}, outs={"xpoint": no}, call=lambda B: ("dstuPointCompress", [B["xpoint"], prm, B["point"]], "i"))
        xp = RD.point_compress(M, RD.point_dec(M, pt))
        return dict(ins={"xpoint": xp}, outs={"point": 2 * no}, call=lambda B: ("dstuPointRecover", [B["point"], prm, B["xpoint"]], "i"))
    return prep


FUNCS = {
    "beltCBCEncr": _ciph("beltCBCEncr", True, 16, False), "beltCBCDecr": _ciph("beltCBCDecr", True, 16, False),
    "beltCFBEncr": _ciph("beltCFBEncr", True, 0, False), "beltCFBDecr": _ciph("beltCFBDecr", True, 0, False),
    "beltCTR": _ciph("beltCTR", True, 0, False),
    "beltBDEEncr": _ciph("beltBDEEncr", True, 16, True), "beltBDEDecr": _ciph("beltBDEDecr", True, 16, True),
    "beltSDEEncr": _ciph("beltSDEEncr", True, 32, True), "beltSDEDecr": _ciph("beltSDEDecr", True, 32, True),
    "beltDWPWrap": _aead_wrap("DWP"), "beltCHEWrap": _aead_wrap("CHE"), "beltDWPUnwrap": _aead_unwrap("DWP"), "beltCHEUnwrap": _aead_unwrap("CHE"),
    "beltKWPWrap": _kwp_wrap, "beltKWPUnwrap": _kwp_unwrap, "beltMAC": _mac, "beltHash": _hash, "bashHash": _bashhash, "beltHMAC": _hmac, "beltKRP": _krp,
    "beltFMTEncr": _fmt("beltFMTEncr"), "beltFMTDecr": _fmt("beltFMTDecr"),
    "beltKeyExpand": _keyexpand("beltKeyExpand", 1), "beltKeyExpand2": _keyexpand("beltKeyExpand2", 4),
    "memMove": _memmove, "memJoin": _memjoin, "derEnc": _derenc,
    **{"%sStartKey" % b: _start_key_in_state(b) for b in ("WBL", "ECB", "CBC", "CFB", "CTR", "DWP", "CHE", "BDE", "SDE", "FMT", "KRP")},
    **{k: _stepG_in_state(k) for k in ("bashHashStepG", "beltHashStepG", "beltHashStepG2", "beltMACStepG2", "beltHMACStepG2")},
    "dstuPointCompress": _dstu_point("compress"), "dstuPointRecover": _dstu_point("recover"),
    "MACStartG": _start_stepG("MAC", "beltMAC_keep", False, "beltMACStepA", "beltMACStepG", 8),
    "HMACStartG": _start_stepG("HMAC", "beltHMAC_keep", False, "beltHMACStepA", "beltHMACStepG", 32, key_in_state=False),   # beltHMACStart has no overlap remark
}


def _der_uint_enc(x, c):
    L = 1 + c["L"] % 40
    val = bytearray(expand(c["seed"], L))
    if c["L2"] % 3 == 0:
        val[-1] |= 0x80        # top bit set: a zero octet is prepended
    elif c["L2"] % 3 == 1 and L > 1:
        val[-1] = 0             # leading zero octets are dropped
    val = bytes(val)
    tag = [0x02, 0x81, 0x1F21][c["k"] % 3]
    n = x.call("derTUINTEnc", None, tag, x.buf(val), L, ret="z")
    return dict(ins={"val": val}, outs={"der": n}, call=lambda B: ("derTUINTEnc", [B["der"], tag, B["val"], L], "z"))


def _der_bit_enc(x, c):
    bits = c["L"] * 3 + c["L2"] % 8
    L = (bits + 7) // 8
    val = expand(c["seed"], L)
    tag = 0x03
    n = x.call("derTBITEnc", None, tag, x.buf(val), bits, ret="z")
    return dict(ins={"val": val}, outs={"der": n}, call=lambda B: ("derTBITEnc", [B["der"], tag, B["val"], bits], "z"))


def _der_pstr_enc(x, c):
    L = c["L"] % 50
    val = bytes(0x41 + b % 26 for b in expand(c["seed"], L)) + b"\0"
    tag = 0x13
    n = x.call("derTPSTREnc", None, tag, x.buf(val), ret="z")
    return dict(ins={"val": val}, outs={"der": n}, call=lambda B: ("derTPSTREnc", [B["der"], tag, B["val"]], "z"))


def _der_dec(kind, two):
    """decoders whose value buffer may overlap the DER code"""
    def prep(x, c):
        tag = {"UINT": 0x02, "BIT": 0x03, "OCT": 0x04, "PSTR": 0x13}[kind]
        if kind == "UINT":
            L = 1 + c["L"] % 40
            v = bytearray(expand(c["seed"], L))
            if L > 1 and v[-1] == 0:
                v[-1] = 1
            if c["L2"] % 2:
                v[-1] |= 0x80
            val, ln, outsz = bytes(v), L, L
            n = x.call("derTUINTEnc", None, tag, x.buf(val), L, ret="z"); d = x.out(n); x.call("derTUINTEnc", d, tag, x.buf(val), L, ret="z")
        elif kind == "BIT":
            bits = c["L"] * 3 + c["L2"] % 8
            ln, outsz = bits, (bits + 7) // 8
            val = expand(c["seed"], outsz)
            n = x.call("derTBITEnc", None, tag, x.buf(val), bits, ret="z"); d = x.out(n); x.call("derTBITEnc", d, tag, x.buf(val), bits, ret="z")
        elif kind == "OCT":
            ln = outsz = c["L"] * 2
            val = expand(c["seed"], ln)
            n = x.call("derEnc", None, tag, x.buf(val), ln, ret="z"); d = x.out(n); x.call("derEnc", d, tag, x.buf(val), ln, ret="z")
        else:
            ln = c["L"] % 50
            outsz = ln + 1
            val = bytes(0x41 + b % 26 for b in expand(c["seed"], ln)) + b"\0"
            n = x.call("derTPSTREnc", None, tag, x.buf(val), ret="z"); d = x.out(n); x.call("derTPSTREnc", d, tag, x.buf(val), ret="z")
        der = d.read()
        fn = "derT%sDec%s" % (kind, "2" if two else "")
        if two:
            return dict(ins={"der": der}, outs={"val": outsz}, call=lambda B: (fn, [B["val"], B["der"], n, tag, ln], "z"))
        return dict(ins={"der": der}, outs={"val": outsz, "len": 8}, only_anchor={"len": ["__none__"]}, call=lambda B: (fn, [B["val"], B["len"], B["der"], n, tag], "z"))
    return prep


FUNCS.update({
    "derTUINTEnc": _der_uint_enc, "derTBITEnc": _der_bit_enc, "derTPSTREnc": _der_pstr_enc,
    "derTUINTDec": _der_dec("UINT", False), "derTUINTDec2": _der_dec("UINT", True),
    "derTBITDec": _der_dec("BIT", False), "derTBITDec2": _der_dec("BIT", True),
    "derTOCTDec": _der_dec("OCT", False), "derTOCTDec2": _der_dec("OCT", True),
    "derTPSTRDec": _der_dec("PSTR", False),
})


def do_call(x, spec_call, B):
    fn, args, ret = spec_call(B)
    if fn == "__seq__":
        r = None
        for f, a, rt in args:
            r = x.call(f, *a, ret=rt)
        return r
    return x.call(fn, *args, ret=ret)


def run_one(ctx, fname, c, placement):
    """placement: {out_name: None | (anchor_name, delta)}"""
    x = ctx.x
    spec = FUNCS[fname](x, c)
    ins, outs = spec["ins"], spec["outs"]
    align = spec.get("align", 1)
    # reference: everything disjoint
    RB = {k: x.buf(v) for k, v in ins.items()}
    for k, n in outs.items():
        RB[k] = x.out(n)
    rref = do_call(x, spec["call"], RB)
    check = spec.get("check", list(outs))
    ref = {k: RB[k].read() for k in check}
    # arena layout
    off = PAD
    pos = {}
    lay = c.get("lay") or []
    names = list(ins)
    if lay and "gap" not in spec:
        # generated arena layout: order of the inputs and the gaps between them (0 = adjacent)
        names = [n for _, n in sorted(zip([lay[i % len(lay)][0] for i in range(len(names))], names), key=lambda t: t[0])]
    for i, k in enumerate(names):
        v = ins[k]
        pos[k] = (off, len(v))
        gap = spec.get("gap", lay[i % len(lay)][1] if lay else 48)
        off += len(v) + gap
        if not lay:
            off = (off + 7) // 8 * 8
    total = off + PAD
    opos = {}
    sep = {}
    for k, n in outs.items():
        pl = placement.get(k)
        if pl is None:
            sep[k] = x.out(n)
            continue
        anchor, delta = pl
        if anchor in pos:
            base = pos[anchor][0]
        elif anchor in opos:
            base = opos[anchor][0]
        else:
            sep[k] = x.out(n)
            continue
        o = base + delta
        o = o // align * align
        o = max(0, min(total - n, o))
        opos[k] = (o, n)
    # forbidden pairs -> separate the first
    for a, b in spec.get("forbid", []):
        if a in opos:
            pb = pos.get(b) or opos.get(b)
            if pb and not (opos[a][0] + opos[a][1] <= pb[0] or pb[0] + pb[1] <= opos[a][0]):
                if b in opos and b not in sep:
                    sep[b] = x.out(outs[b]); del opos[b]
                else:
                    sep[a] = x.out(outs[a]); del opos[a]
    # outputs must not overlap each other
    names = list(opos)
    for i in range(len(names)):
        for j in range(i + 1, len(names)):
            a, b = names[i], names[j]
            if a in opos and b in opos and not (opos[a][0] + opos[a][1] <= opos[b][0] or opos[b][0] + opos[b][1] <= opos[a][0]):
                if spec.get("only_anchor", {}).get(b) == [a] or spec.get("only_anchor", {}).get(a) == [b]:
                    continue   # intended (mac inside state)
                sep[b] = x.out(outs[b]); del opos[b]
    # the arena is cut to the extent of the placed buffers: the lowest one starts and the highest one ends exactly at the ends of the
    # allocation, so an access of the function outside its buffers there falls into a red zone (C07)
    ext = [p_ for p_ in list(pos.values()) + list(opos.values())]
    if ext:
        lo = min(a for a, n in ext)
        hi = max(a + n for a, n in ext)
        pos = {k: (a - lo, n) for k, (a, n) in pos.items()}
        opos = {k: (a - lo, n) for k, (a, n) in opos.items()}
        total = hi - lo
    arena = bytearray(b"\xEE" * total)
    for k, v in ins.items():
        arena[pos[k][0]:pos[k][0] + len(v)] = v
    AB = x.buf(bytes(arena))
    B = {}
    for k in ins:
        B[k] = AB.at(pos[k][0])
    for k in outs:
        B[k] = sep[k] if k in sep else AB.at(opos[k][0])
    r = do_call(x, spec["call"], B)
    if r != rref:
        raise Fail("%s: return %s with overlap %s, %s with disjoint buffers" % (fname, r, placement, rref))
    if rref not in (0, None) and spec["call"](RB)[2] == "i":
        return spec, pos, opos       # both report the same error: outputs unspecified
    for k in check:
        got = sep[k].read() if k in sep else AB.read(opos[k][0], outs[k])
        if got != ref[k]:
            raise Fail("%s: output %s differs from the disjoint-buffer result; placement %s sizes in=%s out=%s\n got %s\n exp %s" %
                       (fname, k, {a: (b, pos.get(b[0], opos.get(b[0], (None,)))[0] if b else None) for a, b in placement.items()},
                        {a: len(b) for a, b in ins.items()}, outs, got.hex()[:128], ref[k].hex()[:128]))
    return spec, pos, opos


def classify(ctx, fname, spec, pos, opos):
    for k, (o, n) in opos.items():
        for a, (p, m) in pos.items():
            if o < p + m and p < o + n:
                partial = not (o == p and n == m)
                ctx.cls("overlap_" + a)
                if partial:
                    ctx.nontrivial(fname, k, a, o - p, n, m)
                else:
                    ctx.nontrivial(fname, k, a, "same", n)


BIG_OK = {"beltCBCEncr", "beltCBCDecr", "beltCFBEncr", "beltCFBDecr", "beltCTR", "beltBDEEncr", "beltBDEDecr", "beltSDEEncr", "beltSDEDecr", "beltDWPWrap", "beltCHEWrap",
          "beltDWPUnwrap", "beltCHEUnwrap", "beltKWPWrap", "beltKWPUnwrap", "beltMAC", "beltHash", "bashHash", "beltHMAC", "memMove", "memJoin"}


def run_overlap(ctx, c):
    fname = c["fn"]
    if c.get("big") and fname in BIG_OK:
        c = dict(c, L=1000 + 37 * c["L"])       # data of 1000..4700 octets: internal chunking of long inputs meets the overlap
    spec0 = FUNCS[fname](ctx.x, c)
    ctx.x.reset()
    placement = {}
    onames = list(spec0["outs"])
    inames = list(spec0["ins"])
    for i, k in enumerate(onames):
        pl = c["pl"][i % len(c["pl"])]
        only = spec0.get("only_anchor", {}).get(k)
        if only == ["__none__"]:
            placement[k] = None
            continue
        if pl is None and not only:
            placement[k] = None
            continue
        cand = only or inames
        sel, frac, small = pl if pl else (0, 0.5, 0)
        anchor = cand[sel % len(cand)]
        asz = len(spec0["ins"][anchor]) if anchor in spec0["ins"] else spec0["outs"][anchor]
        osz = spec0["outs"][k]
        lo, hi = -(osz + 16), asz + 16
        if only and anchor in spec0["outs"]:
            lo, hi = 0, max(0, asz - osz)      # mac inside the state
        delta = small if (small is not None and lo <= small <= hi) else lo + int(frac * (hi - lo))
        placement[k] = (anchor, delta)
    spec, pos, opos = run_one(ctx, fname, c, placement)
    ctx.cls(fname)
    classify(ctx, fname, spec, pos, opos)
    ctx.sample({"fn": fname, "placement": placement, "L": c["L"]})


S_OVER = st.fixed_dictionaries({
    "fn": st.sampled_from(sorted(FUNCS)), "L": st.one_of(st.sampled_from([0, 1, 15, 16, 17, 31, 32, 33, 47, 48, 49, 64, 65, 80]), st.integers(0, 100)),
    "L2": st.integers(0, 48), "k": st.integers(0, 7), "seed": st.binary(min_size=1, max_size=3).map(bytes.hex), "big": st.sampled_from([0] * 11 + [1]),
    "pl": st.lists(st.one_of(st.none(), st.tuples(st.integers(0, 5), st.floats(0, 1), st.one_of(st.none(), st.integers(-20, 20)))), min_size=1, max_size=3),
    "lay": st.one_of(st.none(), st.lists(st.tuples(st.integers(0, 9), st.sampled_from([0, 0, 1, 3, 8, 16, 48])).map(list), min_size=1, max_size=5))})


SWEEP_FUNCS = [f for f in sorted(FUNCS) if not f.endswith("StartG")]


def sweep_delta(ctx, part, nparts):
    """every delta of the first output against each input, for several lengths (aux outputs disjoint)"""
    x = ctx.x
    n = 0
    fl = [f for i, f in enumerate(SWEEP_FUNCS) if i % nparts == part]
    lens = [16, 17, 33, 48] if ctx.tier == "quick" else [0, 1, 16, 17, 31, 32, 33, 48, 49, 64, 80]
    for fname in fl:
        for L in lens:
            for lay in (None, [[9, 0], [5, 0], [1, 0], [0, 0]]):
                c = {"fn": fname, "L": L, "L2": 21 if L % 2 else 16, "k": L % 3 + (0 if L % 2 else 1), "seed": "%02x" % L, "lay": lay}
                spec0 = FUNCS[fname](x, c)
                x.reset()
                out0 = list(spec0["outs"])[0]
                for anchor, v in spec0["ins"].items():
                    osz = spec0["outs"][out0]
                    deltas = range(-(osz + 16), len(v) + 17)
                    if ctx.tier == "quick" and anchor not in ("src", "src1", "val", "key"):
                        deltas = range(-(osz + 16), len(v) + 17, 3)
                    for d in deltas:
                        x.reset()
                        placement = {k: None for k in spec0["outs"]}
                        placement[out0] = (anchor, d)
                        try:
                            spec, pos, opos = run_one(ctx, fname, c, placement)
                        except Fail as e:
                            e.case = {"fn": fname, "c": c, "placement": {out0: [anchor, d]}}
                            raise
                        n += 1
                        if n % 7 == 0:
                            classify(ctx, fname, spec, pos, opos)
    ctx.count(n)
    if part == 0:
        ctx.sample({"sweep": "all deltas", "functions": fl, "lengths": lens})


def replay_override(ctx, test, case):
    pl = {k: (tuple(v) if v else None) for k, v in case["placement"].items()}
    spec0 = FUNCS[case["fn"]](ctx.x, case["c"])
    ctx.x.reset()
    placement = {k: None for k in spec0["outs"]}
    placement.update(pl)
    run_one(ctx, case["fn"], case["c"], placement)


def tests(tier):
    return [
        Test("overlap", S_OVER, run_overlap, {"quick": 50000, "thorough": 500000}, CFG),
        Sweep("delta_sweep", sweep_delta, 16, CFG),
    ]
