"""C15: secret state is wiped before its memory is released.
Mechanism: release (-O3) executor linked with --wrap=malloc/free; every block passed to free() during the call is
snapshotted.  Oracle 1 (fork twins): two children forked from the same parent state run the same call with two different
secrets (same validity class); the streams of freed blocks must be byte-identical - any difference is secret-derived data
that reached the allocator.  Oracle 2: no 8-octet window of the caller's secret occurs in any freed block."""
import os
from harness import Test, Fail, st, GEN, Sym
from gens import expand
import pyref.bign as RB
from errs import E, name as ename

RULE = ("cases: function x argument sizes x exit (success incl. length queries with a NULL output, authentication failure, bad token, generator failure, injected allocation failure k = 1..n) x secret pair (two different valid secrets); "
        "non-trivial: at least one block was allocated and freed during the call; distinct by (function, exit, size class, failing allocation index)")
LEVEL = "exploration"
ASSUMPTIONS = ["glibc allocator interposed with --wrap; only blocks allocated during the call are snapshotted", "the two secrets take the same control path (same lengths and validity class)",
               "project Release flags (-O3 -DNDEBUG): the code whose wipes could be optimised away"]
BUDGET = {"quick": 240, "thorough": 2400}
CFG = ("relwrap",)
STD = {128: "1.2.112.0.2.0.34.101.45.3.1", 192: "1.2.112.0.2.0.34.101.45.3.2", 256: "1.2.112.0.2.0.34.101.45.3.3"}


def bign_params(x, l):
    P = x.out(8 + 64 * 5 + 8)
    x.call("bignParamsStd", P, x.buf(STD[l].encode() + b"\0"))
    return P


def valid_d(seed, l, which):
    q = RB.std_params(l)["q"]
    n = l // 4
    d = int.from_bytes(expand(seed + "d%d" % which, n), "little") % (q - 1) + 1
    return d.to_bytes(n, "little")


# each spec: (secret_len_fn(c), build(x, c, S) -> (fn, args), expected error or None)
def KLEN(c):
    return (32, 16, 24, 32)[(c["L"] // 3) % 4]


def S_belt(fn, need_iv, minlen, mult16, out_extra=0):
    def build(x, c, S):
        L = max(c["L"], minlen)
        if mult16:
            L = max(minlen, L // 16 * 16)
        args = [x.out(L + out_extra), x.buf(expand(c["seed"], L)), L, S, KLEN(c)]
        if need_iv:
            args.append(x.buf(expand(c["seed"] + "iv", 16)))
        return fn, args
    return KLEN, build


def spec_table():
    T = {}
    for fn, iv, mn, m16 in (("beltECBEncr", 0, 16, 0), ("beltECBDecr", 0, 16, 0), ("beltCBCEncr", 1, 16, 0), ("beltCBCDecr", 1, 16, 0), ("beltCFBEncr", 1, 0, 0), ("beltCFBDecr", 1, 0, 0),
                            ("beltCTR", 1, 0, 0), ("beltBDEEncr", 1, 16, 1), ("beltBDEDecr", 1, 16, 1), ("beltSDEEncr", 1, 32, 1), ("beltSDEDecr", 1, 32, 1)):
        T[fn] = S_belt(fn, iv, mn, m16)
    T["beltMAC"] = (KLEN, lambda x, c, S: ("beltMAC", [x.out(8), x.buf(expand(c["seed"], c["L"])), c["L"], S, KLEN(c)]))
    T["beltHMAC"] = ((lambda c: 32 + c["L"] % 40), lambda x, c, S: ("beltHMAC", [x.out(32), x.buf(expand(c["seed"], c["L"])), c["L"], S, 32 + c["L"] % 40]))
    T["beltPBKDF2"] = ((lambda c: 8 + c["L"] % 30), lambda x, c, S: ("beltPBKDF2", [x.out(32), S, 8 + c["L"] % 30, 3, x.buf(expand(c["seed"], 8)), 8]))
    T["beltKRP"] = ((lambda c: 32), lambda x, c, S: ("beltKRP", [x.out(32), 32, S, 32, x.buf(expand(c["seed"], 12)), x.buf(expand(c["seed"] + "h", 16))]))
    T["beltDWPWrap"] = (KLEN, lambda x, c, S: ("beltDWPWrap", [x.out(c["L"]), x.out(8), x.buf(expand(c["seed"], c["L"])), c["L"], x.buf(expand(c["seed"] + "a", 13)), 13, S, KLEN(c), x.buf(expand(c["seed"] + "iv", 16))]))
    T["beltCHEWrap"] = (KLEN, lambda x, c, S: ("beltCHEWrap", [x.out(c["L"]), x.out(8), x.buf(expand(c["seed"], c["L"])), c["L"], x.buf(expand(c["seed"] + "a", 13)), 13, S, KLEN(c), x.buf(expand(c["seed"] + "iv", 16))]))
    # error exit: wrong MAC (both twins fail authentication)
    T["beltDWPUnwrap:badmac"] = ((lambda c: 32), lambda x, c, S: ("beltDWPUnwrap", [x.out(c["L"]), x.buf(expand(c["seed"], c["L"])), c["L"], x.buf(expand(c["seed"] + "a", 13)), 13, x.buf(bytes(8)), S, 32, x.buf(expand(c["seed"] + "iv", 16))]), "ERR_BAD_MAC")
    T["beltCHEUnwrap:badmac"] = ((lambda c: 32), lambda x, c, S: ("beltCHEUnwrap", [x.out(c["L"]), x.buf(expand(c["seed"], c["L"])), c["L"], x.buf(expand(c["seed"] + "a", 13)), 13, x.buf(bytes(8)), S, 32, x.buf(expand(c["seed"] + "iv", 16))]), "ERR_BAD_MAC")
    T["beltKWPWrap"] = (KLEN, lambda x, c, S: ("beltKWPWrap", [x.out(max(16, c["L"]) + 16), x.buf(expand(c["seed"], max(16, c["L"]))), max(16, c["L"]), None, S, KLEN(c)]))
    T["beltKWPWrap:secretdata"] = ((lambda c: max(16, c["L"])), lambda x, c, S: ("beltKWPWrap", [x.out(max(16, c["L"]) + 16), S, max(16, c["L"]), None, x.buf(expand(c["seed"], 32)), 32]))
    def kwp_unwrap_ok(x, c, S):
        # success exit: the token is made from the secret key material in the parent; the destination is placed at every alignment
        n = max(16, c["L"])
        K = x.buf(expand(c["seed"] + "kk", 32))
        tok = x.out(n + 16)
        if x.call("beltKWPWrap", tok, S, n, None, K, 32):
            raise Fail("beltKWPWrap failed while preparing a token")
        al = c["L"] % 8
        return "beltKWPUnwrap", [x.out(n + al).at(al), tok, n + 16, None, K, 32]
    T["beltKWPUnwrap:ok"] = ((lambda c: max(16, c["L"])), kwp_unwrap_ok)
    T["beltKWPUnwrap:badtoken"] = ((lambda c: 32), lambda x, c, S: ("beltKWPUnwrap", [x.out(max(16, c["L"])), x.buf(expand(c["seed"], max(16, c["L"]) + 16)), max(16, c["L"]) + 16, None, S, 32]), "ERR_BAD_KEYTOKEN")

    def fmt(x, c, S):
        cnt = 2 + c["L"] % 30
        mod = [10, 256, 1000, 65536][c["L"] % 4]
        raw = expand(c["seed"], 2 * cnt)
        src = b"".join((int.from_bytes(raw[2 * j:2 * j + 2], "little") % mod).to_bytes(2, "little") for j in range(cnt))
        return "beltFMTEncr", [x.out(2 * cnt), mod, x.buf(src), cnt, S, 32, None]
    T["beltFMTEncr"] = ((lambda c: 32), fmt)
    T["brngCTRRand"] = ((lambda c: 32), lambda x, c, S: ("brngCTRRand", [x.zero(c["L"] + 1), c["L"] + 1, S, x.buf(expand(c["seed"], 32))]))
    T["brngHMACRand"] = ((lambda c: 32), lambda x, c, S: ("brngHMACRand", [x.out(c["L"] + 1), c["L"] + 1, S, 32, x.buf(expand(c["seed"], 20)), 20]))
    T["botpHOTPRand"] = ((lambda c: 32), lambda x, c, S: ("botpHOTPRand", [x.out(9), 6 + c["L"] % 3, S, 32, x.buf(expand(c["seed"], 8))]))
    T["botpTOTPRand"] = ((lambda c: 32), lambda x, c, S: ("botpTOTPRand", [x.out(9), 6 + c["L"] % 3, S, 32, 1000000 + c["L"]]))
    # error exits behind a keyed state: question length outside [4, 2 q_max], missing time mark for a suite with -T
    T["botpOCRARand:badq"] = ((lambda c: 32), lambda x, c, S: ("botpOCRARand", [x.out(10), x.buf(b"OCRA-1:HOTP-HBELT-8:C-QN08-PHBELT\0"), S, 32, x.buf(b"12345678" * 3), [2, 3, 17, 24][c["L"] % 4], x.buf(expand(c["seed"], 8)), x.buf(expand(c["seed"] + "p", 32)), None, 0]), "ERR_BAD_PARAMS")
    T["botpOCRARand:badtime"] = ((lambda c: 32), lambda x, c, S: ("botpOCRARand", [x.out(10), x.buf(b"OCRA-1:HOTP-HBELT-6:QA10-T1M\0"), S, 32, x.buf(b"1234567890"), 10, None, None, None, (1 << 64) - 1]), "ERR_BAD_TIME")
    T["botpTOTPRand:badtime"] = ((lambda c: 32), lambda x, c, S: ("botpTOTPRand", [x.out(9), 6 + c["L"] % 3, S, 32, (1 << 64) - 1]), "ERR_BAD_TIME")
    T["botpOCRARand"] = ((lambda c: 32), lambda x, c, S: ("botpOCRARand", [x.out(10), x.buf(b"OCRA-1:HOTP-HBELT-8:C-QN08-PHBELT\0"), S, 32, x.buf(b"12345678"), 8, x.buf(expand(c["seed"], 8)), x.buf(expand(c["seed"] + "p", 32)), None, 0]))
    T["belsShare2"] = ((lambda c: 16), lambda x, c, S: ("belsShare2", [x.out(5 * 17), 5, 3, 16, S, GEN, x.tape(expand(c["seed"], 64), mode=1)]))
    T["belsShare2:secretrng"] = ((lambda c: 32), lambda x, c, S: ("belsShare2", [x.out(5 * 17), 5, 3, 16, x.buf(expand(c["seed"], 16)), GEN, tape_from(x, S)]))
    # error exits behind a keyed generator: belsShare3 keys its generator with the secret before belsShare2 rejects count / threshold
    def share3_bad(x, c, S):
        ln = (16, 24, 32)[c["L"] % 3]
        cnt, thr = [(17, 3), (3, 4), (5, 0), (16, 17)][(c["L"] // 3) % 4]
        return "belsShare3", [x.out(17 * 33), cnt, thr, ln, S]
    T["belsShare3:badargs"] = ((lambda c: (16, 24, 32)[c["L"] % 3]), share3_bad, "any_error")
    T["belsShare3"] = ((lambda c: (16, 24, 32)[c["L"] % 3]), lambda x, c, S: ("belsShare3", [x.out(5 * 33), 5, 3, (16, 24, 32)[c["L"] % 3], S]))
    # the process-wide generator fed from an additional source whose output is the secret (x/shim_c15.c)
    T["rngCreate:source_on_live"] = ((lambda c: 32), lambda x, c, S: ("x_c15_rng_twice", [S, x.out(32)]))
    T["rngCreate:source_first"] = ((lambda c: 32), lambda x, c, S: ("x_c15_rng_first", [S, x.out(32)]))
    T["belsRecover2"] = ((lambda c: 3 * 16), lambda x, c, S: ("belsRecover2", [x.out(16), 3, 16, shares_from(x, S)]))
    # bign: private key as the secret
    for l in (128, 192, 256):
        n = l // 4
        oid = RB.oid_to_der("1.2.112.0.2.0.34.101.31.81")

        def sign(x, c, S, l=l, n=n, oid=oid):
            return "bignSign", [x.out(3 * l // 8), bign_params(x, l), x.buf(oid), len(oid), x.buf(expand(c["seed"], n)), S, GEN, x.tape(expand(c["seed"] + "k", n)[:-1] + b"\x01", mode=1)]

        def sign2(x, c, S, l=l, n=n, oid=oid):
            return "bignSign2", [x.out(3 * l // 8), bign_params(x, l), x.buf(oid), len(oid), x.buf(expand(c["seed"], n)), S, None, 0]

        def signrng(x, c, S, l=l, n=n, oid=oid):
            # 65 rejected samples: late error exit
            return "bignSign", [x.out(3 * l // 8), bign_params(x, l), x.buf(oid), len(oid), x.buf(expand(c["seed"], n)), S, GEN, x.tape(b"", mode=2)]

        def dh(x, c, S, l=l, n=n):
            Q = RB.point_to_octets(RB.std_params(l), RB.pubkey_calc(RB.std_params(l), 5 + c["L"]))
            kl = [32, n, n + 16, 2 * n - 1, 2 * n, 1, n + 1][c["L"] % 7]        # every length class of the shared key (<x>, <x> and part of <y>, both)
            return "bignDH", [x.out(kl), bign_params(x, l), S, x.buf(Q), kl]

        def keywrap(x, c, S, l=l, n=n, inplace=False):
            # the transported key is the secret; the recipient's public key and the generator output are public
            kl = 16 + c["L"] % 49
            Q = RB.point_to_octets(RB.std_params(l), RB.pubkey_calc(RB.std_params(l), 7 + c["L"]))
            hdr = x.buf(expand(c["seed"] + "h", 16)) if c["L"] % 2 else None
            tape = x.tape(expand(c["seed"] + "k", n)[:-1] + b"\x01", mode=1)
            if inplace:
                # key stored where it will end up inside the token (supported by the implementation: memMove)
                T = x.out(n + kl + 16)
                x.call("memCopy", T.at(n), S, kl, ret="v")
                return "bignKeyWrap", [T, bign_params(x, l), T.at(n), kl, hdr, x.buf(Q), GEN, tape]
            return "bignKeyWrap", [x.out(n + kl + 16), bign_params(x, l), S, kl, hdr, x.buf(Q), GEN, tape]

        def calc(x, c, S, l=l, n=n):
            return "bignPubkeyCalc", [x.out(2 * n), bign_params(x, l), S]

        def unwrapbad(x, c, S, l=l, n=n):
            tok = expand(c["seed"], n + 32)
            return "bignKeyUnwrap", [x.out(16), bign_params(x, l), x.buf(tok), n + 32, None, S]
        T["bignSign%d" % l] = ((lambda c, n=n: ("d", n)), sign)
        T["bignSign2_%d" % l] = ((lambda c, n=n: ("d", n)), sign2)
        T["bignSign%d:badrng" % l] = ((lambda c, n=n: ("d", n)), signrng, "ERR_BAD_RNG")
        T["bignDH%d" % l] = ((lambda c, n=n: ("d", n)), dh)
        T["bignKeyWrap%d" % l] = ((lambda c: 16 + c["L"] % 49), keywrap)
        T["bignKeyWrap%d:inplace" % l] = ((lambda c: 16 + c["L"] % 49), (lambda x, c, S, kw=keywrap: kw(x, c, S, inplace=True)))
        T["bignPubkeyCalc%d" % l] = ((lambda c, n=n: ("d", n)), calc)
        T["bignKeyUnwrap%d:bad" % l] = ((lambda c, n=n: ("d", n)), unwrapbad, "any_error")

        def keygen(x, c, S, l=l, n=n):
            return "bignKeypairGen", [x.out(n), x.out(2 * n), bign_params(x, l), GEN, tape_from(x, S)]
        T["bignKeypairGen%d" % l] = ((lambda c, n=n: ("tape", n)), keygen)
    add_bpki(T)
    add_other_sign(T)
    add_bake(T)
    return T


# ---- bake drivers (RunA / RunB over an in-memory channel): the password (BPACE) or the long-term private key (BMQV, BSTS) is the secret.
# The peer's messages come from an honest step-by-step run made beforehand with the same tapes (cached: no library call happens between
# the twins); the party's certificate follows from its private key.  ':auth' variants alter the last incoming message (error exit).
_BAKE = {}


def add_bake(T):
    c04 = __import__("props.c04", fromlist=["x"])
    plain = {"rej": [], "u": "rnd", "tail": 7}

    def env_for(x, c, proto, role, l, sec, long_cert):
        cc = {"proto": proto, "kca": True, "kcb": True, "l": l, "seed": c["seed"], "ha": [None, 0, 5, 33][c["L"] % 4], "hb": [7, None, 64, 0][c["L"] % 4],
              "na": 5 + (520 if long_cert else 0), "nb": 3 + (520 if long_cert else 0), "pw": len(sec), "ta": plain, "tb": plain}
        env = c04.mk_env(x, cc)
        if proto == "BPACE":
            env["pwd"] = sec
        else:
            M = env["M"]
            d = int.from_bytes(sec, "little")
            env["d" + role] = d
            env["cert" + role] = expand(c["seed"] + "n" + role, cc["n" + role]) + RB.point_to_octets(M, RB.pubkey_calc(M, d))
        return env

    for proto in ("BMQV", "BSTS", "BPACE"):
        for role in "ab":
            for variant in ("", ":auth", ":long"):
                if variant == ":long" and proto != "BSTS":
                    continue
                name = "bake%sRun%s%s" % (proto, role.upper(), variant)

                def lvl(c):
                    return (128, 192, 256)[c["L"] % 3]

                def prep(x, c, secrets, proto=proto, role=role, variant=variant, name=name):
                    if len(_BAKE) > 32:
                        _BAKE.clear()
                    for sec in secrets:
                        k = (name, c["seed"], c["L"], sec)
                        if k in _BAKE:
                            continue
                        x.reset()
                        env = env_for(x, c, proto, role, lvl(c), sec, variant == ":long")
                        res = c04.do_run(x, env)
                        if res["fail"]:
                            raise Fail("honest %s run failed while preparing the transcript: %s" % (proto, res["fail"],))
                        _BAKE[k] = res["msgs"]

                def build(x, c, S, proto=proto, role=role, variant=variant, name=name):
                    sec = S.read()
                    env = env_for(x, c, proto, role, lvl(c), sec, variant == ":long")
                    msgs = _BAKE[(name, c["seed"], c["L"], sec)]
                    tamper = None
                    if variant == ":auth":
                        snd = c04.senders(env)
                        inc = [i for i in range(len(msgs)) if snd[i] != role]
                        i = inc[-1]
                        m = bytearray(msgs[i]); m[-1] ^= 1          # the confirmation tag / last octet of the last incoming message
                        tamper = (i, bytes(m))
                    fn, args, CH, key, outs, ninc, pool = c04.driver_args(x, env, role, msgs, tamper, secret=S)
                    return fn, args
                if proto == "BPACE":
                    sl = (lambda c: 6 + c["L"] % 20)
                else:
                    def sl(c, lvl=lvl):
                        return ("d", lvl(c) // 4)
                T[name] = (sl, build, "ERR_AUTH" if variant == ":auth" else None, prep)


# ---- bpki containers: the password, the key / share and the PBKDF2 key derived from the password are the secrets
def _cstr(x, s):
    return x.buf(s.encode() + b"\0")


_CONT = {}


def _container(x, kind, kl, seed, pwd):
    """a valid container made in the parent (not part of the recorded call); made once per case, so that both twins start from the same
    parent state (memWipe keeps a static counter: a library call in the parent between the twins would change what a wipe writes)"""
    k = (kind, kl, seed, pwd)
    if k not in _CONT:
        if len(_CONT) > 64:
            _CONT.clear()
        _CONT[k] = _container_make(x, kind, kl, seed, pwd)
    return _CONT[k]


def _container_make(x, kind, kl, seed, pwd):
    W = "bpkiPrivkeyWrap" if kind == "priv" else "bpkiShareWrap"
    sec = expand(seed + "ck", kl) if kind == "priv" else bytes([3]) + expand(seed + "ck", kl - 1)
    ln = x.zero(8)
    x.call(W, None, ln, None, kl, None, 0, None, 10000)
    ep = x.out(ln.int())
    r = x.call(W, ep, x.zero(8), x.buf(sec), kl, x.buf(pwd), len(pwd), x.buf(expand(seed + "salt", 8)), 10000)
    if r:
        raise Fail("%s failed while preparing a container: %s" % (W, ename(r)))
    return ep.read()


def _der_len(n):
    if n < 128:
        return bytes([n])
    b = n.to_bytes((n.bit_length() + 7) // 8, "big")
    return bytes([0x80 | len(b)]) + b


def _grow_encdata(cont, newlen, seed):
    """EncryptedPrivateKeyInfo ::= SEQ { algId SEQ, encData OCTET STRING }: replace encData by newlen generated octets"""
    assert cont[0] == 0x30
    i = 2 if cont[1] < 128 else 2 + (cont[1] & 127)
    assert cont[i] == 0x30
    j = i + 2 + cont[i + 1] if cont[i + 1] < 128 else i + 2 + (cont[i + 1] & 127) + int.from_bytes(cont[i + 2:i + 2 + (cont[i + 1] & 127)], "big")
    assert cont[j] == 0x04
    body = cont[i:j] + b"\x04" + _der_len(newlen) + expand(seed + "grow", newlen)
    return b"\x30" + _der_len(len(body)) + body


def add_bpki(T):
    for kind, W, U, kls in (("priv", "bpkiPrivkeyWrap", "bpkiPrivkeyUnwrap", (24, 32, 48, 64)), ("share", "bpkiShareWrap", "bpkiShareUnwrap", (17, 25, 33))):
        def kl_of(c, kls=kls):
            return kls[c["L"] % len(kls)]

        def wrap_pwd(x, c, S, W=W, kind=kind, kl_of=kl_of):
            kl = kl_of(c)
            sec = expand(c["seed"] + "wk", kl) if kind == "priv" else bytes([1 + c["L"] % 16]) + expand(c["seed"] + "wk", kl - 1)
            return W, [x.out(kl + 160), x.zero(8), x.buf(sec), kl, S, 8 + c["L"] % 30, x.buf(expand(c["seed"] + "salt", 8)), 10000]

        def wrap_key(x, c, S, W=W, kind=kind, kl_of=kl_of):
            kl = kl_of(c)
            if kind == "share":
                S.write(bytes([1 + c["L"] % 16]))      # the share number is public
            pw = expand(c["seed"] + "pw", 8 + c["L"] % 30)
            return W, [x.out(kl + 160), x.zero(8), S, kl, x.buf(pw), len(pw), x.buf(expand(c["seed"] + "salt", 8)), 10000]

        def unwrap_badpwd(x, c, S, U=U, kind=kind, kl_of=kl_of):
            kl = kl_of(c)
            cont = _container(x, kind, kl, c["seed"], expand(c["seed"] + "truepw", 12))
            return U, [x.out(kl), x.zero(8), x.buf(cont), len(cont), S, 8 + c["L"] % 30]

        def unwrap_long(x, c, S, U=U, kind=kind, kl_of=kl_of):
            # malformed container whose encData is longer than any state the function pre-sizes (the error exits behind a grown state)
            kl = kl_of(c)
            cont = _grow_encdata(_container(x, kind, kl, c["seed"], expand(c["seed"] + "truepw", 12)), [200, 900, 1000, 1500, 3000, 6000][c["L"] % 6] + c["L"], c["seed"])
            return U, [x.out(kl + 8000), x.zero(8), x.buf(cont), len(cont), S, 8 + c["L"] % 30]
        def unwrap_ok(x, c, S, W=W, U=U, kind=kind, kl_of=kl_of, probe=False):
            # success exits (with the output and as a length query): the container is made from the secret key material in the parent under a public password
            kl = kl_of(c)
            if kind == "share":
                S.write(bytes([1 + c["L"] % 16]))      # the share number is public
            pw = expand(c["seed"] + "pw", 8 + c["L"] % 30)
            ln = x.zero(8)
            x.call(W, None, ln, None, kl, None, 0, None, 10000)
            ep = x.out(ln.int())
            if x.call(W, ep, x.zero(8), S, kl, x.buf(pw), len(pw), x.buf(expand(c["seed"] + "salt", 8)), 10000):
                raise Fail("%s failed while preparing a container" % W)
            return U, [None if probe else x.out(kl), x.zero(8), ep, ln.int(), x.buf(pw), len(pw)]
        T[U + ":ok"] = ((lambda c, kl_of=kl_of: kl_of(c)), unwrap_ok)
        T[U + ":okprobe"] = ((lambda c, kl_of=kl_of: kl_of(c)), lambda x, c, S, f=unwrap_ok: f(x, c, S, probe=True))
        T[W + ":pwd"] = ((lambda c: 8 + c["L"] % 30), wrap_pwd)
        T[W + ":key"] = ((lambda c, kl_of=kl_of: kl_of(c)), wrap_key)
        T[U + ":badpwd"] = ((lambda c: 8 + c["L"] % 30), unwrap_badpwd, "ERR_BAD_KEYTOKEN")
        T[U + ":longdata"] = ((lambda c: 8 + c["L"] % 30), unwrap_long, "any_error")


# ---- signing in the other schemes: the private key is the secret (two keys of the same validity class)
def add_other_sign(T):
    import pyref.g12s as RG
    import pyref.dstu as RD

    def dpair(tag, q, n):
        def f(c):
            return tuple((int.from_bytes(expand(c["seed"] + tag + str(i), n + 8), "little") % (q - 1) + 1).to_bytes(n, "little") for i in (1, 2))
        return f
    for name in ("1.2.643.2.2.35.1", "1.2.643.7.1.2.1.2.1"):
        M = RG.PARAMS[name]

        def gsign(x, c, S, name=name, M=M):
            prm = x.out(x.call("x_c16_sizeof", 1, ret="z"))
            x.call("g12sParamsStd", prm, _cstr(x, name))
            return "g12sSign", [x.out(2 * M.no), prm, x.buf(expand(c["seed"] + "h", M.no)), S, GEN, x.tape(expand(c["seed"] + "k", M.no)[:-1] + b"\x01", mode=0)]
        T["g12sSign%d" % M.l] = (("pair", dpair("g", M.q, M.no)), gsign)
    MD = RD.PARAMS[RD._PFX + "0"]

    def dsign(x, c, S, M=MD):
        prm = x.out(x.call("x_c16_sizeof", 2, ret="z"))
        x.call("dstuParamsStd", prm, _cstr(x, M.name))
        ono = (M.n.bit_length() + 7) // 8
        return "dstuSign", [x.out(2 * ono + 4), prm, 16 * ono + 32, x.buf(expand(c["seed"] + "h", 32)), 32, S, GEN, x.tape(expand(c["seed"] + "k", 64), mode=0)]
    T["dstuSign163"] = (("pair", dpair("u", 1 << (MD.n.bit_length() - 1), (MD.p[0] + 7) // 8)), dsign)
    oid = RB.oid_to_der("1.2.112.0.2.0.34.101.31.81")

    def sign96(x, c, S):
        P = x.out(8 + 64 * 5 + 8)
        x.call("bign96ParamsStd", P, _cstr(x, "1.2.112.0.2.0.34.101.45.3.0"))
        return "bign96Sign", [x.out(34), P, x.buf(oid), len(oid), x.buf(expand(c["seed"], 24)), S, GEN, x.tape(expand(c["seed"] + "k", 24)[:-1] + b"\x01", mode=1)]

    def sign96_2(x, c, S):
        P = x.out(8 + 64 * 5 + 8)
        x.call("bign96ParamsStd", P, _cstr(x, "1.2.112.0.2.0.34.101.45.3.0"))
        return "bign96Sign2", [x.out(34), P, x.buf(oid), len(oid), x.buf(expand(c["seed"], 24)), S, None, 0]
    def sign96_badrng(x, c, S):
        # a generator stuck at 0xFF.. / 0x00..: every sample is rejected, late error exit with the private key already loaded
        P = x.out(8 + 64 * 5 + 8)
        x.call("bign96ParamsStd", P, _cstr(x, "1.2.112.0.2.0.34.101.45.3.0"))
        return "bign96Sign", [x.out(34), P, x.buf(oid), len(oid), x.buf(expand(c["seed"], 24)), S, GEN, x.tape(b"", mode=2 if c["L"] % 2 else 1)]
    q96 = RB.std_params(96)["q"]
    T["bign96Sign:badrng"] = (("pair", dpair("n", q96, 24)), sign96_badrng, "ERR_BAD_RNG")
    T["bign96Sign"] = (("pair", dpair("n", q96, 24)), sign96)
    T["bign96Sign2"] = (("pair", dpair("n", q96, 24)), sign96_2)


def tape_from(x, S):
    """a generator tape whose data octets are the secret buffer's content (the tape header is public)"""
    data = S.read()
    return x.tape(data, mode=1)


def shares_from(x, S):
    d = S.read()
    return x.buf(b"".join(bytes([i + 1]) + d[i * 16:(i + 1) * 16] for i in range(3)))


TABLE = None


def secrets_for(c, spec):
    if isinstance(spec[0], tuple):
        return spec[0][1](c)
    ln = spec[0](c)
    if isinstance(ln, tuple):
        kind, n = ln
        l = n * 4
        if kind == "d":
            return valid_d(c["seed"], l, 1), valid_d(c["seed"], l, 2)
        q = RB.std_params(l)["q"]
        a = (int.from_bytes(expand(c["seed"] + "t1", n), "little") % (q - 1) + 1).to_bytes(n, "little")
        b = (int.from_bytes(expand(c["seed"] + "t2", n), "little") % (q - 1) + 1).to_bytes(n, "little")
        return a, b
    a = expand(c["seed"] + "s1", ln)
    b = bytes(v ^ 0xFF for v in a) if c["L"] % 2 else expand(c["seed"] + "s2", ln)
    return a, b


def run_wipe(ctx, c):
    global TABLE
    x = ctx.x
    if TABLE is None:
        TABLE = spec_table()
    name = c["fn"]
    spec = TABLE[name]
    s1, s2 = secrets_for(c, spec)
    expect = spec[2] if len(spec) > 2 else None
    if len(spec) > 3 and spec[3]:
        spec[3](x, c, (s1, s2))
    # Both twins are forked from one and the same parent state (identical heap layout: what memWipe writes depends on a static counter
    # and on block addresses).  The arguments are built twice, once per secret; the second set is then copied over the first inside the
    # executor, so that the second child is called with the very same addresses and only the secret-derived contents differ.
    from x import Buf
    for attempt in (0, 1):
        x.reset()
        S1 = x.buf(s1)
        fn, args1 = spec[1](x, c, S1)
        n1 = x.nid
        S2 = x.buf(s2)
        fn, args2 = spec[1](x, c, S2)
        n2 = x.nid
        if n2 - n1 == n1:
            break           # (a cache filled during the first build changes the number of buffers: build again)
    if n2 - n1 != n1:
        raise RuntimeError("argument builder of %s is not repeatable" % name)
    if c["failk"]:
        x.call("x_alloc_reset"); x.call("x_alloc_fail_at", c["failk"])
    r1, b1 = x.fork_call(fn, *args1)
    nf1 = x.last_failed
    for i in range(n1):
        x._cmd("CB %d %d" % (i, n1 + i))
    r2, b2 = x.fork_call(fn, *args1)
    nf2 = x.last_failed
    if c["failk"]:
        x.call("x_alloc_reset")
    results = [(r1, b1), (r2, b2)]
    failed = nf1 and nf2
    (r1, b1), (r2, b2) = results
    if r1 != r2 or nf1 != nf2:
        ctx.cls("twins_diverge")
        return      # the twins took different exits: not comparable (does not happen for the generated classes)
    if c["failk"] and failed and r1 == 0:
        raise Fail("%s returned ERR_OK although allocation #%d made during the call failed" % (name, c["failk"]))
    if not failed:
        if expect is None and r1 != 0:
            raise Fail("%s returned %s on a valid call" % (name, ename(r1)))
        if expect == "any_error" and r1 == 0:
            raise Fail("%s returned ERR_OK where an error exit was constructed" % name)
        if expect not in (None, "any_error") and r1 != E[expect]:
            raise Fail("%s returned %s, expected %s" % (name, ename(r1), expect))
    # oracle 1: twin streams identical
    if len(b1) != len(b2) or any(len(p) != len(q) for p, q in zip(b1, b2)):
        raise Fail("%s: freed-block streams have different shapes for two secrets (%s vs %s)" % (name, [len(p) for p in b1], [len(q) for q in b2]))
    for i, (p, q) in enumerate(zip(b1, b2)):
        if p != q:
            nd = sum(1 for u, v in zip(p, q) if u != v)
            first = next(j for j, (u, v) in enumerate(zip(p, q)) if u != v)
            raise Fail("%s (exit %s, failk=%d): freed block #%d of %d octets differs between the two secrets in %d octets (first at offset %d): secret-dependent data released without wiping" %
                       (name, ename(r1), c["failk"], i, len(p), nd, first))
    # oracle 2: raw secret scan
    for sec, blocks in ((s1, b1), (s2, b2)):
        wins = {sec[i:i + 8] for i in range(0, max(1, len(sec) - 7))}
        for i, p in enumerate(blocks):
            for w in wins:
                if len(w) == 8 and len(set(w)) > 2 and w in p:
                    raise Fail("%s: freed block #%d contains 8 octets of the caller's secret" % (name, i))
    ctx.cls(name.split(":")[0], "exit_%s" % ename(r1), "allocfail_%d" % (min(c["failk"], 6) if failed else 0))
    if b1:
        ctx.nontrivial(name, ename(r1), c["L"] // 16, c["failk"] if failed else 0)
    ctx.sample(c)


def strategy():
    names = sorted(spec_table())
    return st.fixed_dictionaries({"fn": st.sampled_from(names), "L": st.one_of(st.sampled_from([0, 1, 16, 17, 32, 48, 64]), st.integers(0, 90)),
                                  "seed": st.binary(min_size=1, max_size=3).map(bytes.hex), "failk": st.sampled_from([0, 0, 0, 1, 2, 3, 4, 5, 6])})


def tests(tier):
    return [Test("wipe", strategy(), run_wipe, {"quick": 14000, "thorough": 200000}, CFG)]
