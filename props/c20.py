"""C20: PIN/CAN/PUK automaton.  The complete transition graph (16 x 4 x 9) is extracted by calling
btokPwdTransition; the property's clauses run as safety monitors in product with that graph (BFS, exhaustive);
a stateful Hypothesis walk re-validates random long histories step by step against the extracted graph."""
import json, os, time, hashlib
from collections import deque
from harness import Ctx, Fail, Crash, VERIF, OUT, st, given, settings, hseed, HealthCheck, Phase

PIN = ["puk0", "puk1", "puk2", "puk3", "puk4", "puk5", "puk6", "puk7", "puk8", "puk9", "pin0", "pin1", "pind", "pins", "pin2", "pin3"]
AUTH = ["auth_none", "auth_pin", "auth_can", "auth_puk"]
EV = ["pin_ok", "pin_bad", "pin_deactivate", "pin_activate", "can_ok", "can_bad", "puk_ok", "puk_bad", "auth_close"]
P = {n: i for i, n in enumerate(PIN)}
A = {n: i for i, n in enumerate(AUTH)}
E = {n: i for i, n in enumerate(EV)}
BLOCKED = {P["pin0"]} | {P["puk%d" % i] for i in range(0, 10)}
USABLE = {P["pin1"], P["pin2"], P["pin3"]}      # states in which a PIN attempt is accepted
OKEV = {E["pin_ok"]: A["auth_pin"], E["can_ok"]: A["auth_can"], E["puk_ok"]: A["auth_puk"]}
BADEV = {E["pin_bad"]: A["auth_pin"], E["can_bad"]: A["auth_can"], E["puk_bad"]: A["auth_puk"]}


def extract(x):
    g = {}
    for p in range(16):
        for a in range(4):
            for e in range(9):
                r = x.call("x_pwd", p, a, e)
                g[(p, a, e)] = (bool(r >> 16), (r >> 8) & 0xFF, r & 0xFF)
    return g


def name(p, a):
    return "%s/%s" % (PIN[p], AUTH[a])


def edge_rules(g):
    """clauses decidable per transition; returns list of (rule, description)"""
    bad = []
    for (p, a, e), (ok, p2, a2) in g.items():
        d = "%s --%s--> %s (%s)" % (name(p, a), EV[e], name(p2, a2) if p2 < 16 and a2 < 4 else (p2, a2), "accepted" if ok else "rejected")
        if p2 >= 16 or a2 >= 4:
            bad.append(("range", d)); continue
        if not ok and (p2, a2) != (p, a):
            bad.append(("R1 rejected event changed the state", d))
        if not ok:
            continue
        if e in OKEV and a2 != OKEV[e]:
            bad.append(("R6 successful password must give exactly its own status", d))
        if e not in OKEV and a2 not in (a, A["auth_none"]):
            bad.append(("R6 status gained without a successful password", d))
        if e in BADEV:
            if a == BADEV[e] and a2 != A["auth_none"]:
                bad.append(("comment 2: failed re-authentication must drop the status", d))
            if a != BADEV[e] and a2 != a:
                bad.append(("comment 3: failed authentication by another password must keep the status", d))
        if e == E["auth_close"] and a2 != A["auth_none"]:
            bad.append(("R6 auth_close must clear the status", d))
        if p in BLOCKED and p2 not in BLOCKED and p2 != P["pind"] and not (e == E["puk_ok"] and p != P["puk0"]):
            bad.append(("R4 blocked PIN left the blocked states without a correct PUK", d))
        if p == P["pind"] and p2 != P["pind"] and not (e == E["pin_activate"] and a == A["auth_puk"]):
            bad.append(("R5 deactivated state left other than by activation under PUK", d))
        if e in (E["pin_ok"], E["pin_bad"]) and p not in USABLE:
            bad.append(("PIN attempt accepted in a state without attempts", d))
        if p == P["puk0"] and e in (E["puk_ok"], E["can_ok"]) and not ok:
            bad.append(("comment 4: PUK/CAN authentication must stay possible in puk0", d))
    for p in (P["puk0"],):
        for a in range(4):
            for e in (E["puk_ok"], E["can_ok"]):
                if not g[(p, a, e)][0]:
                    bad.append(("comment 4: PUK/CAN authentication must stay possible in puk0", "%s --%s--> rejected" % (name(p, a), EV[e])))
    return bad


def monitors(g):
    """product BFS of the implementation graph with the history monitors.
    monitor state: (c = accepted wrong PINs since the last reset (0..4), need_can, k = wrong PUKs since the PIN got blocked (0..11 or None))"""
    bad = []
    seen = {}
    q = deque()
    for p in range(16):
        s0 = (p, A["auth_none"], 0, False, 0 if p == P["pin0"] else None, p == P["puk0"])
        seen[s0] = None
        q.append(s0)
    ntrans = 0
    while q:
        s = q.popleft()
        p, a, c, need, k, dead = s
        for e in range(9):
            ok, p2, a2 = g[(p, a, e)]
            ntrans += 1
            if not ok or p2 >= 16 or a2 >= 4:
                continue
            c2, need2, k2, dead2 = c, need, k, dead
            viol = None
            if e == E["pin_bad"]:
                if need:
                    viol = "R3 PIN attempt after two failures without a correct CAN in between"
                c2 = c + 1
                if c2 >= 4:
                    viol = "R2 fourth consecutive wrong PIN accepted"
                if c2 == 3 and p2 not in BLOCKED:
                    viol = "R2 three consecutive wrong PINs and the PIN is not blocked"
                if c2 == 2:
                    need2 = True
            elif e == E["pin_ok"]:
                if need:
                    viol = "R3 PIN attempt after two failures without a correct CAN in between"
                c2, need2 = 0, False
            elif e == E["can_ok"]:
                need2 = False
            elif e == E["puk_ok"] and p in BLOCKED and p2 not in BLOCKED:
                c2, need2 = 0, False
            elif e == E["pin_activate"]:
                c2, need2 = 0, False
            # wrong-PUK counter
            if p2 == P["pin0"] and p != P["pin0"]:
                k2 = 0
            if e == E["puk_bad"] and k is not None and p in BLOCKED:
                k2 = k + 1
                if k2 >= 10 and p2 != P["puk0"]:
                    viol = "R4 ten wrong PUKs and the PIN is not permanently blocked"
            if p2 not in BLOCKED:
                k2 = None
            if e == E["puk_ok"]:
                k2 = None if p2 not in BLOCKED else k2
            if p2 == P["puk0"]:
                dead2 = True
            if dead and g[(p2, a2, E["pin_ok"])][0]:
                viol = "R4 a permanently blocked PIN (puk0) became usable again"
            if dead and p2 in USABLE:
                viol = "R4 a permanently blocked PIN (puk0) became usable again"
            c2 = min(c2, 4)
            k2 = None if k2 is None else min(k2, 11)
            s2 = (p2, a2, c2, need2, k2, dead2)
            if s2 not in seen:
                seen[s2] = (s, e)
                q.append(s2)
            if viol:
                path = [EV[e]]
                t = s
                while seen[t] is not None:
                    t, ev = seen[t]
                    path.append(EV[ev])
                path.reverse()
                bad.append((viol, {"start": name(t[0], t[1]), "events": path, "end": name(p2, a2)}))
    return bad, len(seen), ntrans


def walk_check(g, x, seed, n_examples):
    """stateful differential: random histories executed step by step on the real function must follow the extracted graph
    (guards against hidden state / dependence on history) and the rule monitors are re-evaluated along the path."""
    stats = {"n": 0, "sigs": set(), "sample": None}

    @settings(max_examples=n_examples, database=None, deadline=None, suppress_health_check=list(HealthCheck), phases=[Phase.generate, Phase.shrink])
    @hseed(seed)
    @given(st.integers(0, 15), st.lists(st.integers(0, 8), min_size=1, max_size=60))
    def f(p0, evs):
        p, a = p0, 0
        path = []
        for e in evs:
            r = x.call("x_pwd", p, a, e)
            got = (bool(r >> 16), (r >> 8) & 0xFF, r & 0xFF)
            if got != g[(p, a, e)]:
                raise Fail("transition depends on history: %s" % json.dumps({"start": PIN[p0], "events": [EV[i] for i in evs]}))
            path.append(p)
            p, a = got[1], got[2]
        stats["n"] += 1
        if len(evs) >= 3 and any(q in (P["pins"], P["pin0"]) or q < 10 for q in path):
            stats["sigs"].add(hashlib.md5(repr((p0, evs)).encode()).hexdigest()[:10])
        if stats["sample"] is None and len(evs) > 5:
            stats["sample"] = {"start": PIN[p0], "events": [EV[i] for i in evs], "end": name(p, a)}
    f()
    return stats


def main(tier, seed, only=None):
    t0 = time.time()
    ctx = Ctx("asan", tier)
    x = ctx.ex("asan")
    x.reset()
    g = extract(x)
    viol = []
    for rule, d in edge_rules(g):
        viol.append((rule, {"transition": d}))
    mb, nstates, ntrans = monitors(g)
    viol += mb
    try:
        ws = walk_check(g, x, seed, 3000 if tier == "quick" else 60000)
    except Fail as e:
        viol.append(("history dependence", {"detail": str(e)}))
        ws = {"n": 0, "sigs": set(), "sample": None}
    # dedupe by rule, shortest path first
    best = {}
    for rule, d in viol:
        if rule not in best or len(json.dumps(d)) < len(json.dumps(best[rule])):
            best[rule] = d
    accepted = sum(1 for v in g.values() if v[0])
    ev = {"property_id": "C20", "tier": tier, "seed": seed, "level": "model_checking",
          "coverage": {"states": nstates, "transitions": ntrans, "traces_validated_against_impl": ws["n"],
                       "samples": [{"transition": "%s --%s--> %s" % (name(*k[:2]), EV[k[2]], name(v[1], v[2]) if v[0] else "rejected")} for k, v in list(g.items())[100:104]] + ([ws["sample"]] if ws["sample"] else []),
                       "evaluations": 576 + ntrans + ws["n"], "distinct_nontrivial": accepted + len(ws["sigs"]),
                       "rule": "all 16x4x9 transitions extracted from btokPwdTransition; product of that graph with the clause monitors (wrong-PIN counter, CAN-needed flag, wrong-PUK counter, permanently-blocked flag) explored completely by BFS from every PIN state with auth_none; non-trivial = accepted transitions + random histories of length >= 3 visiting pins/pin0/puk*",
                       "exhaustive": True, "implementation_edges": 576, "accepted_edges": accepted},
          "assumptions": ["the transition function is a pure function of (pin, auth, event): validated on %d random histories executed step by step" % ws["n"],
                          "clauses are those of the property text plus comments 2-4 of btok.h; comment 5 (CAN status at the moment of the last attempt) is not demanded because the property states the weaker 'a correct CAN between the second and the last attempt'"],
          "wall_s": round(time.time() - t0, 2), "violations": len(best)}
    os.makedirs(os.path.join(OUT, "evidence"), exist_ok=True)
    json.dump(ev, open(os.path.join(OUT, "evidence", "C20.json"), "w"), indent=1)
    print("C20 tier=%s states=%d transitions=%d histories=%d violations=%d" % (tier, nstates, ntrans, ws["n"], len(best)))
    os.makedirs(os.path.join(OUT, "replay"), exist_ok=True)
    for rule, d in best.items():
        h = hashlib.sha256(json.dumps([rule, d], sort_keys=True).encode()).hexdigest()[:10]
        path = os.path.join(OUT, "replay", "C20-%s.json" % h)
        json.dump({"property": "C20", "test": "automaton", "rule": rule, "case": d}, open(path, "w"), indent=1)
        print("  failing: %s :: %s" % (rule, json.dumps(d)))
        print("VIOLATION property=C20 replay=%s" % path)
    return 1 if best else 0


def tests(tier):
    return []
