/* shim_c15.c: call sequences for the wipe-before-free check that need a C callback */
#include <string.h>
#include "bee2/defs.h"
#include "bee2/core/err.h"
#include "bee2/core/rng.h"

/* additional entropy source that hands out the caller's 32 secret octets */
static err_t x_c15_src(size_t* read, void* buf, size_t count, void* file)
{
	if (count > 32) count = 32;
	memcpy(buf, file, count);
	*read = count;
	return ERR_OK;
}

/* rngCreate() on a fresh process, then rngCreate(source) on the live generator, a request, and both references released */
size_t x_c15_rng_twice(const octet seed[32], octet out[32])
{
	err_t e = rngCreate(0, 0);
	if (e != ERR_OK) return e;
	e = rngCreate(x_c15_src, (void*)seed);
	if (e == ERR_OK) { rngStepR(out, 32, 0); rngClose(); }
	rngClose();
	return e;
}

/* the same with the source given at the first creation */
size_t x_c15_rng_first(const octet seed[32], octet out[32])
{
	err_t e = rngCreate(x_c15_src, (void*)seed);
	if (e != ERR_OK) return e;
	rngStepR(out, 32, 0);
	rngClose();
	return e;
}
