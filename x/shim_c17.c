/* C17 helpers: accessors for apdu_cmd_t / apdu_resp_t (open-length structs) and a btokCVCUnwrap call
   whose public key pointer is the pubkey field of the output structure (documented self-signed mode). */
#include <string.h>
#include "bee2/defs.h"
#include "bee2/core/apdu.h"
#include "bee2/crypto/btok.h"

/* btokCVCUnwrap(cvc, cert, cert_len, cvc->pubkey, 0): "the signature is verified with the key of the certificate" */
err_t x_cvc_unwrap_self(btok_cvc_t* cvc, const octet* cert, size_t cert_len)
{
	return btokCVCUnwrap(cvc, cert, cert_len, cvc->pubkey, 0);
}

/* btokCVCUnwrap(cvc, cert, cert_len, p, 0) with p != 0 and p != cvc->pubkey: documented to be an error */
err_t x_cvc_unwrap_badptr(btok_cvc_t* cvc, const octet* cert, size_t cert_len, const octet* p)
{
	return btokCVCUnwrap(cvc, cert, cert_len, p, 0);
}

/* ---- apdu_cmd_t */
size_t x_apdu_cmd_size(size_t cdf_len) { return sizeof(apdu_cmd_t) + cdf_len; }

/* hdr = cla | ins << 8 | p1 << 16 | p2 << 24; c has x_apdu_cmd_size(cdf_len) octets */
void x_apdu_cmd_set(apdu_cmd_t* c, unsigned hdr, size_t rdf_len, const octet* cdf, size_t cdf_len)
{
	memset(c, 0, sizeof(apdu_cmd_t));
	c->cla = (octet)hdr, c->ins = (octet)(hdr >> 8), c->p1 = (octet)(hdr >> 16), c->p2 = (octet)(hdr >> 24);
	c->rdf_len = rdf_len;
	c->cdf_len = cdf_len;
	if (cdf_len)
		memcpy(c->cdf, cdf, cdf_len);
}

/* fixed part: out20 = cla ins p1 p2 | rdf_len (8, LE) | cdf_len (8, LE) */
void x_apdu_cmd_head(octet out20[20], const apdu_cmd_t* c)
{
	unsigned i;
	out20[0] = c->cla, out20[1] = c->ins, out20[2] = c->p1, out20[3] = c->p2;
	for (i = 0; i < 8; ++i)
	{
		out20[4 + i] = (octet)((unsigned long long)c->rdf_len >> (8 * i));
		out20[12 + i] = (octet)((unsigned long long)c->cdf_len >> (8 * i));
	}
}

/* copies n octets of cdf */
void x_apdu_cmd_cdf(octet* out, const apdu_cmd_t* c, size_t n) { if (n) memcpy(out, c->cdf, n); }

/* ---- apdu_resp_t */
size_t x_apdu_resp_size(size_t rdf_len) { return sizeof(apdu_resp_t) + rdf_len; }

void x_apdu_resp_set(apdu_resp_t* r, unsigned sw /* sw1 | sw2 << 8 */, const octet* rdf, size_t rdf_len)
{
	memset(r, 0, sizeof(apdu_resp_t));
	r->sw1 = (octet)sw, r->sw2 = (octet)(sw >> 8);
	r->rdf_len = rdf_len;
	if (rdf_len)
		memcpy(r->rdf, rdf, rdf_len);
}

/* out10 = sw1 sw2 | rdf_len (8, LE) */
void x_apdu_resp_head(octet out10[10], const apdu_resp_t* r)
{
	unsigned i;
	out10[0] = r->sw1, out10[1] = r->sw2;
	for (i = 0; i < 8; ++i)
		out10[2 + i] = (octet)((unsigned long long)r->rdf_len >> (8 * i));
}

void x_apdu_resp_rdf(octet* out, const apdu_resp_t* r, size_t n) { if (n) memcpy(out, r->rdf, n); }
