/* b2x: generic call executor for bee2.
 *
 * Line protocol on stdin/stdout (one reply line per command):
 *   I                         -> "info W=<B_PER_W> O=<O_PER_S> fast=<0|1> ndebug=<0|1>"
 *   A <id> <size> <fill>      allocate buffer <id> of exactly <size> octets
 *                             fill: u (uninitialised; canary 0xC5 unless MSan),
 *                                   z (zero), p<hh> (pattern), h<hex> (content)
 *   W <id> <off> <hex>        write octets
 *   R <id> <off> <len>        -> hex
 *   F <id>                    free
 *   Z                         free everything
 *   C <fn> <arg>*             call symbol <fn>; arg: i<dec> | x<hex> | n |
 *                             b<id>[+off] | s<symbol>        -> "r <rax hex>"
 *   MU <id> <off> <len>       valgrind: mark undefined      (rel builds)
 *   MD <id> <off> <len>       valgrind: mark defined
 *   Q                         quit
 * Every buffer is a separate malloc of exactly the requested size, so that
 * sanitizer red zones sit directly at both ends.  The executor makes no random
 * choice and reads no clock.
 */
#include <stdio.h>
#include <stdlib.h>
#include <string.h>
#include <stdint.h>
#include <dlfcn.h>
#include "bee2/defs.h"

#ifdef X_VALGRIND
#include <valgrind/memcheck.h>
#endif
#ifdef X_MSAN
#include <sanitizer/msan_interface.h>
#endif

#ifdef X_WRAP_ALLOC
extern int x_alloc_active;
#include <unistd.h>
#include <sys/wait.h>
#endif

#define MAXBUF 262144
static struct { unsigned char* p; size_t n; int used; } B[MAXBUF];

static char* line; static size_t linecap;

static int hexv(int c){ if(c>='0'&&c<='9')return c-'0'; if(c>='a'&&c<='f')return c-'a'+10; if(c>='A'&&c<='F')return c-'A'+10; return -1; }

static void die(const char* m){ printf("err %s\n", m); fflush(stdout); exit(3); }

static char* tok(char** s){
	char* p=*s; while(*p==' ')p++; if(!*p||*p=='\n'){*s=p;return 0;}
	char* q=p; while(*q&&*q!=' '&&*q!='\n')q++; if(*q){*q=0;q++;} *s=q; return p;
}

typedef uint64_t (*fn12)(uint64_t,uint64_t,uint64_t,uint64_t,uint64_t,uint64_t,uint64_t,uint64_t,uint64_t,uint64_t,uint64_t,uint64_t,uint64_t,uint64_t);

static void* sym(const char* name){
	void* f=dlsym(RTLD_DEFAULT,name);
	if(!f){ printf("err nosym %s\n",name); fflush(stdout); exit(3);} return f;
}

static uint64_t parse_arg(char* t){
	switch(t[0]){
	case 'i': return (uint64_t)strtoull(t+1,0,10);
	case 'x': return (uint64_t)strtoull(t+1,0,16);
	case 'n': return 0;
	case 's': return (uint64_t)(uintptr_t)sym(t+1);
	case 'b': { char* e; long id=strtol(t+1,&e,10); long off=0; if(*e=='+'||*e=='-') off=strtol(e,0,10);
		if(id<0||id>=MAXBUF||!B[id].used) die("badbuf"); return (uint64_t)(uintptr_t)(B[id].p+off); }
	}
	die("badarg"); return 0;
}

int main(void){
	setvbuf(stdout,0,_IOFBF,1<<16);
	while(getline(&line,&linecap,stdin)>0){
		char* s=line; char* c=tok(&s); if(!c) continue;
		if(!strcmp(c,"C")){
			char* fn=tok(&s); uint64_t a[14]={0}; int n=0; char* t;
			fn12 f=(fn12)sym(fn);
			while((t=tok(&s))&&n<14) a[n++]=parse_arg(t);
			uint64_t r;
#ifdef X_WRAP_ALLOC
			if (strncmp(fn, "x_alloc_", 8) != 0) x_alloc_active = 1;
#endif
			r=f(a[0],a[1],a[2],a[3],a[4],a[5],a[6],a[7],a[8],a[9],a[10],a[11],a[12],a[13]);
#ifdef X_WRAP_ALLOC
			x_alloc_active = 0;
#endif
#ifdef X_VALGRIND
			VALGRIND_MAKE_MEM_DEFINED(&r, sizeof(r));
#endif
			printf("r %llx\n",(unsigned long long)r);
#ifdef X_WRAP_ALLOC
		} else if(!strcmp(c,"FC")){
			/* fork twin: the child runs the call with free-recording and reports "r <ret> <hexlog>" */
			extern size_t x_alloc_record(size_t), x_alloc_loglen(void), x_alloc_log(unsigned char*, size_t), x_alloc_reset(void), x_alloc_fail_at(size_t), x_alloc_get_fail_at(void), x_alloc_failed(void);
			char* fn=tok(&s); uint64_t a[14]={0}; int n=0; char* t; int pfd[2]; pid_t pid;
			fn12 f=(fn12)sym(fn);
			while((t=tok(&s))&&n<14) a[n++]=parse_arg(t);
			fflush(stdout);
			if (pipe(pfd)) die("pipe");
			pid = fork();
			if (pid == 0)
			{
				uint64_t r; size_t ln, i; unsigned char* lg; FILE* o = fdopen(pfd[1], "w");
				static const char hx[]="0123456789abcdef";
				close(pfd[0]);
				{ size_t fa = x_alloc_get_fail_at(); x_alloc_reset(); x_alloc_fail_at(fa); }	/* the injected failure index set by the parent survives */
				x_alloc_record(1); x_alloc_active = 1;
				r=f(a[0],a[1],a[2],a[3],a[4],a[5],a[6],a[7],a[8],a[9],a[10],a[11],a[12],a[13]);
				x_alloc_active = 0;
				ln = x_alloc_loglen(); lg = (unsigned char*)malloc(ln ? ln : 1); x_alloc_log(lg, ln);
				fprintf(o, "r %llx %u ", (unsigned long long)r, (unsigned)x_alloc_failed());
				for (i = 0; i < ln; ++i) { fputc(hx[lg[i] >> 4], o); fputc(hx[lg[i] & 15], o); }
				fputc('\n', o); fflush(o);
				_exit(0);
			}
			else
			{
				char buf[65536]; ssize_t k; int status;
				close(pfd[1]);
				while ((k = read(pfd[0], buf, sizeof(buf))) > 0) fwrite(buf, 1, (size_t)k, stdout);
				close(pfd[0]);
				waitpid(pid, &status, 0);
				if (!WIFEXITED(status) || WEXITSTATUS(status)) printf("err child %d\n", status);
			}
#endif
		} else if(!strcmp(c,"A")){
			long id=atol(tok(&s)); size_t n=strtoull(tok(&s),0,10); char* f=tok(&s);
			if(id<0||id>=MAXBUF) die("badid");
			if(B[id].used){ free(B[id].p); }
			unsigned char* p=(unsigned char*)malloc(n);
			if(!p&&n) die("oom");
			B[id].p=p;B[id].n=n;B[id].used=1;
			if(!f||f[0]=='u'){
#ifndef X_MSAN
#ifdef X_VALGRIND
				if(!RUNNING_ON_VALGRIND)
#endif
				memset(p,0xC5,n);
#endif
			} else if(f[0]=='z') memset(p,0,n);
			else if(f[0]=='p'){ int v=hexv(f[1])*16+hexv(f[2]); memset(p,v,n);}
			else if(f[0]=='h'){ size_t i; f++; for(i=0;i<n&&f[2*i]&&f[2*i+1];i++) p[i]=(unsigned char)(hexv(f[2*i])*16+hexv(f[2*i+1])); if(i!=n) die("hexlen"); }
			else die("badfill");
			printf("ok\n");
		} else if(!strcmp(c,"W")){
			long id=atol(tok(&s)); size_t off=strtoull(tok(&s),0,10); char* f=tok(&s); size_t i;
			if(id<0||id>=MAXBUF||!B[id].used) die("badbuf");
			if(f) for(i=0;f[2*i]&&f[2*i+1];i++){ if(off+i>=B[id].n) die("wrange"); B[id].p[off+i]=(unsigned char)(hexv(f[2*i])*16+hexv(f[2*i+1])); }
			printf("ok\n");
		} else if(!strcmp(c,"R")){
			long id=atol(tok(&s)); size_t off=strtoull(tok(&s),0,10); size_t n=strtoull(tok(&s),0,10); size_t i;
			static const char hx[]="0123456789abcdef";
			if(id<0||id>=MAXBUF||!B[id].used) die("badbuf");
			if(off+n>B[id].n) die("rrange");
			putchar('h');
			for(i=0;i<n;i++){ unsigned char v=B[id].p[off+i]; putchar(hx[v>>4]); putchar(hx[v&15]); }
			putchar('\n');
		} else if(!strcmp(c,"CP")){
			/* CP <dst> <src>: new buffer dst = exact-size copy of src (memcpy keeps sanitizer shadow: padding stays uninitialised) */
			long id=atol(tok(&s)); long sid=atol(tok(&s));
			if(id<0||id>=MAXBUF||sid<0||sid>=MAXBUF||!B[sid].used) die("badbuf");
			if(B[id].used) free(B[id].p);
			B[id].p=(unsigned char*)malloc(B[sid].n); B[id].n=B[sid].n; B[id].used=1;
			if(B[sid].n) memcpy(B[id].p,B[sid].p,B[sid].n);
			printf("ok\n");
		} else if(!strcmp(c,"CB")){
			/* CB <dst> <src>: copy the content of src over dst (equal sizes; no allocation: the heap layout is left as it is) */
			long id=atol(tok(&s)); long sid=atol(tok(&s));
			if(id<0||id>=MAXBUF||sid<0||sid>=MAXBUF||!B[sid].used||!B[id].used||B[id].n!=B[sid].n) die("badbuf");
			if(B[sid].n) memcpy(B[id].p,B[sid].p,B[sid].n);
			printf("ok\n");
		} else if(!strcmp(c,"F")){
			long id=atol(tok(&s)); if(id<0||id>=MAXBUF||!B[id].used) die("badbuf");
			free(B[id].p); B[id].used=0; B[id].p=0; printf("ok\n");
		} else if(!strcmp(c,"Z")){
			int i; for(i=0;i<MAXBUF;i++) if(B[i].used){ free(B[i].p); B[i].used=0; B[i].p=0; }
			printf("ok\n");
		} else if(!strcmp(c,"MU")||!strcmp(c,"MD")){
			long id=atol(tok(&s)); size_t off=strtoull(tok(&s),0,10); size_t n=strtoull(tok(&s),0,10);
			if(id<0||id>=MAXBUF||!B[id].used||off+n>B[id].n) die("badbuf");
#ifdef X_VALGRIND
			if(c[1]=='U') VALGRIND_MAKE_MEM_UNDEFINED(B[id].p+off,n); else VALGRIND_MAKE_MEM_DEFINED(B[id].p+off,n);
#endif
#ifdef X_MSAN
			if(c[1]=='U') __msan_poison(B[id].p+off,n); else __msan_unpoison(B[id].p+off,n);
#endif
			printf("ok\n");
		} else if(!strcmp(c,"VE")){
#ifdef X_VALGRIND
			printf("r %llx\n",(unsigned long long)VALGRIND_COUNT_ERRORS);
#else
			printf("r 0\n");
#endif
		} else if(!strcmp(c,"I")){
			int fast=0, nd=0;
#ifdef SAFE_FAST
			fast=1;
#endif
#ifdef NDEBUG
			nd=1;
#endif
			printf("info W=%d S=%d fast=%d ndebug=%d\n",(int)B_PER_W,(int)B_PER_S,fast,nd);
		} else if(!strcmp(c,"Q")){
			break;
		} else die("badcmd");
		fflush(stdout);
	}
	return 0;
}
