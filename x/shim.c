/* shim.c: callable wrappers for bee2 macros, callback implementations
 * (generator tapes, channels) and in-executor sweeps.  All symbols x_*. */
#include <string.h>
#include <stdlib.h>
#include <stdio.h>
#include "bee2/defs.h"
#include "bee2/core/mem.h"
#include "bee2/core/err.h"
#include "bee2/core/util.h"
#include "bee2/core/blob.h"
#include "bee2/core/obj.h"
#include "bee2/math/ww.h"
#include "bee2/math/zz.h"
#include "bee2/math/qr.h"
#include "bee2/math/zm.h"
#include "bee2/math/gfp.h"
#include "bee2/math/gf2.h"
#include "bee2/math/ec.h"
#include "bee2/math/ecp.h"
#include "bee2/math/ec2.h"

/* ---- generator tape: struct { u64 pos; u64 len; u64 calls; u64 mode; octet data[len]; }
   after the tape is exhausted: mode 0 -> bytes (0x5A + running index) deterministic,
   mode 1 -> zero octets, mode 2 -> 0xFF octets */
typedef struct { u64 pos, len, calls, mode; octet data[]; } x_tape_t;

void x_tape_gen(void* buf, size_t count, void* state)
{
	x_tape_t* t = (x_tape_t*)state;
	octet* b = (octet*)buf;
	size_t i;
	t->calls++;
	for (i = 0; i < count; ++i)
	{
		if (t->pos < t->len)
			b[i] = t->data[t->pos];
		else if (t->mode == 0)
			b[i] = (octet)(0x5A + 7 * (t->pos - t->len) + ((t->pos - t->len) >> 8));
		else if (t->mode == 1)
			b[i] = 0;
		else
			b[i] = 0xFF;
		t->pos++;
	}
}

/* ---- qr wrappers */
size_t x_qr_n(const qr_o* r) { return r->n; }
size_t x_qr_no(const qr_o* r) { return r->no; }
size_t x_qr_deep(const qr_o* r) { return r->deep; }
void x_qr_mod(word* out, const qr_o* r) { wwCopy(out, r->mod, r->n); }
void x_qr_unity(word* out, const qr_o* r) { wwCopy(out, r->unity, r->n); }
bool_t x_qrFrom(word* b, const octet* a, const qr_o* r, void* stack) { return qrFrom(b, a, r, stack); }
void x_qrTo(octet* b, const word* a, const qr_o* r, void* stack) { qrTo(b, a, r, stack); }
void x_qrAdd(word* c, const word* a, const word* b, const qr_o* r) { qrAdd(c, a, b, r); }
void x_qrSub(word* c, const word* a, const word* b, const qr_o* r) { qrSub(c, a, b, r); }
void x_qrNeg(word* b, const word* a, const qr_o* r) { qrNeg(b, a, r); }
void x_qrMul(word* c, const word* a, const word* b, const qr_o* r, void* stack) { qrMul(c, a, b, r, stack); }
void x_qrSqr(word* b, const word* a, const qr_o* r, void* stack) { qrSqr(b, a, r, stack); }
void x_qrInv(word* b, const word* a, const qr_o* r, void* stack) { qrInv(b, a, r, stack); }
void x_qrDiv(word* b, const word* d, const word* a, const qr_o* r, void* stack) { qrDiv(b, d, a, r, stack); }
void x_gfpDouble(word* b, const word* a, const qr_o* r) { gfpDouble(b, a, r); }
void x_gfpHalf(word* b, const word* a, const qr_o* r) { gfpHalf(b, a, r); }

/* ---- ec wrappers */
size_t x_ec_d(const ec_o* ec) { return ec->d; }
size_t x_ec_deep(const ec_o* ec) { return ec->deep; }
size_t x_ec_n(const ec_o* ec) { return ec->f->n; }
size_t x_ec_no(const ec_o* ec) { return ec->f->no; }
const qr_o* x_ec_f(const ec_o* ec) { return ec->f; }
void x_ec_base(word* out, const ec_o* ec) { wwCopy(out, ec->base, 2 * ec->f->n); }
void x_ec_order(word* out, const ec_o* ec) { wwCopy(out, ec->order, ec->f->n + 1); }
bool_t x_ecFromA(word* b, const word* a, const ec_o* ec, void* st) { return ecFromA(b, a, ec, st); }
bool_t x_ecToA(word* b, const word* a, const ec_o* ec, void* st) { return ecToA(b, a, ec, st); }
void x_ecNeg(word* b, const word* a, const ec_o* ec, void* st) { ecNeg(b, a, ec, st); }
void x_ecAdd(word* c, const word* a, const word* b, const ec_o* ec, void* st) { ecAdd(c, a, b, ec, st); }
void x_ecAddA(word* c, const word* a, const word* b, const ec_o* ec, void* st) { ecAddA(c, a, b, ec, st); }
void x_ecSub(word* c, const word* a, const word* b, const ec_o* ec, void* st) { ecSub(c, a, b, ec, st); }
void x_ecSubA(word* c, const word* a, const word* b, const ec_o* ec, void* st) { ecSubA(c, a, b, ec, st); }
void x_ecDbl(word* b, const word* a, const ec_o* ec, void* st) { ecDbl(b, a, ec, st); }
void x_ecDblA(word* b, const word* a, const ec_o* ec, void* st) { ecDblA(b, a, ec, st); }
void x_ecTpl(word* b, const word* a, const ec_o* ec, void* st) { ec->tpl(b, a, ec, st); }
void x_ecSetO(word* a, const ec_o* ec) { ecSetO(a, ec); }
bool_t x_ecIsO(const word* a, const ec_o* ec) { return ecIsO(a, ec); }

/* ---- btok password automaton: one transition on a fresh struct */
#include "bee2/crypto/btok.h"
unsigned x_pwd(unsigned pin, unsigned auth, unsigned event)
{
	btok_pwd_state st;
	bool_t ok;
	memset(&st, 0, sizeof(st));
	st.pin = (btok_pin_state)pin;
	st.auth = (btok_auth_state)auth;
	ok = btokPwdTransition(&st, (btok_pwd_event)event);
	return (ok ? 0x10000u : 0) | ((unsigned)st.pin << 8) | (unsigned)st.auth;
}

/* ---- belt-fmt block-count table: out[(mod - lo) * 300 + (n - 1)] = b(mod, n) derived from beltFMT_keep */
#include "bee2/crypto/belt.h"
void x_fmt_table(octet* out, unsigned lo, unsigned hi)
{
	size_t base = beltFMT_keep(2, 2) - 8 * 2;	/* b(2, 1) == 1 */
	unsigned mod;
	size_t n;
	for (mod = lo; mod < hi; ++mod)
		for (n = 1; n <= 300; ++n)
			out[(size_t)(mod - lo) * 300 + (n - 1)] = (octet)((beltFMT_keep(mod, 2 * n) - base) / 8 - 1);
}
