/* shim.c: callable wrappers for bee2 macros, callback implementations
 * (generator tapes, channels) and in-executor sweeps.  All symbols x_*. */
#include <string.h>
#include <stdlib.h>
#include <stdio.h>
#include "bee2/defs.h"
#include "bee2/core/mem.h"
#include "bee2/core/err.h"
#include "bee2/core/util.h"
#include "bee2/core/blob.h"
#include "bee2/core/obj.h"
#include "bee2/math/ww.h"
#include "bee2/math/zz.h"
#include "bee2/math/qr.h"
#include "bee2/math/zm.h"
#include "bee2/math/gfp.h"
#include "bee2/math/gf2.h"
#include "bee2/math/ec.h"
#include "bee2/math/ecp.h"
#include "bee2/math/ec2.h"

/* ---- generator tape: struct { u64 pos; u64 len; u64 calls; u64 mode; octet data[len]; }
   after the tape is exhausted: mode 0 -> bytes (0x5A + running index) deterministic,
   mode 1 -> zero octets, mode 2 -> 0xFF octets */
typedef struct { u64 pos, len, calls, mode; octet data[]; } x_tape_t;

void x_tape_gen(void* buf, size_t count, void* state)
{
	x_tape_t* t = (x_tape_t*)state;
	octet* b = (octet*)buf;
	size_t i;
	t->calls++;
	for (i = 0; i < count; ++i)
	{
		if (t->pos < t->len)
			b[i] = t->data[t->pos];
		else if (t->mode == 0)
			b[i] = (octet)(0x5A + 7 * (t->pos - t->len) + ((t->pos - t->len) >> 8));
		else if (t->mode == 1)
			b[i] = 0;
		else
			b[i] = 0xFF;
		t->pos++;
	}
}

/* ---- qr wrappers */
size_t x_qr_n(const qr_o* r) { return r->n; }
size_t x_qr_no(const qr_o* r) { return r->no; }
size_t x_qr_deep(const qr_o* r) { return r->deep; }
void x_qr_mod(word* out, const qr_o* r) { wwCopy(out, r->mod, r->n); }
void x_qr_unity(word* out, const qr_o* r) { wwCopy(out, r->unity, r->n); }
bool_t x_qrFrom(word* b, const octet* a, const qr_o* r, void* stack) { return qrFrom(b, a, r, stack); }
void x_qrTo(octet* b, const word* a, const qr_o* r, void* stack) { qrTo(b, a, r, stack); }
void x_qrAdd(word* c, const word* a, const word* b, const qr_o* r) { qrAdd(c, a, b, r); }
void x_qrSub(word* c, const word* a, const word* b, const qr_o* r) { qrSub(c, a, b, r); }
void x_qrNeg(word* b, const word* a, const qr_o* r) { qrNeg(b, a, r); }
void x_qrMul(word* c, const word* a, const word* b, const qr_o* r, void* stack) { qrMul(c, a, b, r, stack); }
void x_qrSqr(word* b, const word* a, const qr_o* r, void* stack) { qrSqr(b, a, r, stack); }
void x_qrInv(word* b, const word* a, const qr_o* r, void* stack) { qrInv(b, a, r, stack); }
void x_qrDiv(word* b, const word* d, const word* a, const qr_o* r, void* stack) { qrDiv(b, d, a, r, stack); }
void x_gfpDouble(word* b, const word* a, const qr_o* r) { gfpDouble(b, a, r); }
void x_gfpHalf(word* b, const word* a, const qr_o* r) { gfpHalf(b, a, r); }

/* ---- ec wrappers */
size_t x_ec_d(const ec_o* ec) { return ec->d; }
size_t x_ec_deep(const ec_o* ec) { return ec->deep; }
size_t x_ec_n(const ec_o* ec) { return ec->f->n; }
size_t x_ec_no(const ec_o* ec) { return ec->f->no; }
const qr_o* x_ec_f(const ec_o* ec) { return ec->f; }
void x_ec_base(word* out, const ec_o* ec) { wwCopy(out, ec->base, 2 * ec->f->n); }
void x_ec_order(word* out, const ec_o* ec) { wwCopy(out, ec->order, ec->f->n + 1); }
bool_t x_ecFromA(word* b, const word* a, const ec_o* ec, void* st) { return ecFromA(b, a, ec, st); }
bool_t x_ecToA(word* b, const word* a, const ec_o* ec, void* st) { return ecToA(b, a, ec, st); }
void x_ecNeg(word* b, const word* a, const ec_o* ec, void* st) { ecNeg(b, a, ec, st); }
void x_ecAdd(word* c, const word* a, const word* b, const ec_o* ec, void* st) { ecAdd(c, a, b, ec, st); }
void x_ecAddA(word* c, const word* a, const word* b, const ec_o* ec, void* st) { ecAddA(c, a, b, ec, st); }
void x_ecSub(word* c, const word* a, const word* b, const ec_o* ec, void* st) { ecSub(c, a, b, ec, st); }
void x_ecSubA(word* c, const word* a, const word* b, const ec_o* ec, void* st) { ecSubA(c, a, b, ec, st); }
void x_ecDbl(word* b, const word* a, const ec_o* ec, void* st) { ecDbl(b, a, ec, st); }
void x_ecDblA(word* b, const word* a, const ec_o* ec, void* st) { ecDblA(b, a, ec, st); }
void x_ecTpl(word* b, const word* a, const ec_o* ec, void* st) { ec->tpl(b, a, ec, st); }
void x_ecSetO(word* a, const ec_o* ec) { ecSetO(a, ec); }
bool_t x_ecIsO(const word* a, const ec_o* ec) { return ecIsO(a, ec); }

/* ---- btok password automaton: one transition on a fresh struct */
#include "bee2/crypto/btok.h"
unsigned x_pwd(unsigned pin, unsigned auth, unsigned event)
{
	btok_pwd_state st;
	bool_t ok;
	memset(&st, 0, sizeof(st));
	st.pin = (btok_pin_state)pin;
	st.auth = (btok_auth_state)auth;
	ok = btokPwdTransition(&st, (btok_pwd_event)event);
	return (ok ? 0x10000u : 0) | ((unsigned)st.pin << 8) | (unsigned)st.auth;
}

/* ---- belt-fmt block-count table: out[(mod - lo) * 300 + (n - 1)] = b(mod, n) derived from beltFMT_keep */
#include "bee2/crypto/belt.h"
void x_fmt_table(octet* out, unsigned lo, unsigned hi)
{
	size_t base = beltFMT_keep(2, 2) - 8 * 2;	/* b(2, 1) == 1 */
	unsigned mod;
	size_t n;
	for (mod = lo; mod < hi; ++mod)
		for (n = 1; n <= 300; ++n)
			out[(size_t)(mod - lo) * 300 + (n - 1)] = (octet)((beltFMT_keep(mod, 2 * n) - base) / 8 - 1);
}

/* ---- EC: conversions and in-executor all-pairs sweep
   points are passed as octet strings (x || y, no octets each, little-endian field encoding);
   out record per instance: flag (1 = affine, 0 = O) || x || y   (1 + 2*no octets) */
bool_t x_ecFrom(word* b, const octet* a, const ec_o* ec, void* st) { return ecFrom(b, a, ec, st); }
bool_t x_ecTo(octet* b, word* a, const ec_o* ec, void* st) { return ecTo(a, a, ec, st) ? (memMove(b, a, 2 * ec->f->no), TRUE) : FALSE; }

static void x_scale(word* pt, const word* lam, const ec_o* ec, unsigned kind, void* st)
{
	/* kind 0: Jacobian (X l^2, Y l^3, Z l); kind 1: Lopez-Dahab (X l, Y l^2, Z l) */
	const qr_o* f = ec->f;
	size_t n = f->n;
	word* t = (word*)malloc(O_OF_W(n) + 1);
	if (kind == 0)
	{
		qrSqr(t, lam, f, st);
		qrMul(pt, pt, t, f, st);
		qrMul(t, t, lam, f, st);
		qrMul(pt + n, pt + n, t, f, st);
		qrMul(pt + 2 * n, pt + 2 * n, lam, f, st);
	}
	else
	{
		qrMul(pt, pt, lam, f, st);
		qrSqr(t, lam, f, st);
		qrMul(pt + n, pt + n, t, f, st);
		qrMul(pt + 2 * n, pt + 2 * n, lam, f, st);
	}
	free(t);
}

/* op: 0 add, 1 adda, 2 sub, 3 suba, 4 AddAA, 5 SubAA (binary: all ordered pairs, index npts = O where representable)
       10 dbl, 11 dbla, 12 tpl, 13 neg, 14 NegA (unary)
   alias: 0 none, 1 c==a, 2 c==b, 3 a==b (same pointer; only pairs i == j) */
size_t x_ec_sweep(octet* out, const ec_o* ec, const octet* pts, size_t npts, unsigned op, unsigned alias,
	const octet* lambda, unsigned kind)
{
	const qr_o* f = ec->f;
	size_t n = f->n, no = f->no, d = ec->d, rec = 1 + 2 * no, cnt = 0, i, j;
	void* st = malloc(ec->deep ? ec->deep : 1);
	word* lam = (word*)malloc(O_OF_W(n) + 1);
	word* A = (word*)malloc(O_OF_W(d * n) + 1);
	word* B = (word*)malloc(O_OF_W(d * n) + 1);
	word* C = (word*)malloc(O_OF_W(d * n) + 1);
	word* aff = (word*)malloc(O_OF_W(2 * n) + 1);
	bool_t unary = op >= 10;
	size_t lim_i = (op == 1 || op == 3 || op == 0 || op == 2 || op == 10 || op == 12 || op == 13) ? npts + 1 : npts;
	size_t lim_j = unary ? 1 : ((op == 0 || op == 2) ? npts + 1 : npts);
	if (lambda)
		qrFrom(lam, lambda, f, st);
	for (i = 0; i < lim_i; ++i)
		for (j = 0; j < lim_j; ++j)
		{
			word *pa = A, *pb = B, *pc = C;
			bool_t ok = TRUE, proj_res = TRUE;
			if (alias == 3 && (unary || i != j))
				continue;
			/* operand a */
			if (op == 4 || op == 5 || op == 11 || op == 14)
			{
				qrFrom(A, pts + i * 2 * no, f, st);
				qrFrom(A + n, pts + i * 2 * no + no, f, st);
			}
			else if (i == npts)
			{
				/* ec.h: O is any projective point with Z == 0; in the scaled passes X and Y of the operand O hold field elements other than 0 */
				ecSetO(A, ec), wwSetZero(A, 2 * n);
				if (lambda)
					wwCopy(A, lam, n), wwCopy(A + n, lam, n);
			}
			else
			{
				ecFrom(A, pts + i * 2 * no, ec, st);
				if (lambda)
					x_scale(A, lam, ec, kind, st);
			}
			/* operand b */
			if (!unary)
			{
				if (op == 1 || op == 3 || op == 4 || op == 5)
				{
					qrFrom(B, pts + j * 2 * no, f, st);
					qrFrom(B + n, pts + j * 2 * no + no, f, st);
				}
				else if (j == npts)
				{
					ecSetO(B, ec), wwSetZero(B, 2 * n);
					if (lambda)
						wwCopy(B, lam, n), wwCopy(B + n, f->unity, n);
				}
				else
				{
					ecFrom(B, pts + j * 2 * no, ec, st);
					if (lambda)
						x_scale(B, lam, ec, kind, st), x_scale(B, lam, ec, kind, st);
				}
			}
			if (alias == 1) pc = pa;
			else if (alias == 2 && !unary) pc = pb;
			else if (alias == 3) pb = pa;
			switch (op)
			{
			case 0: ecAdd(pc, pa, pb, ec, st); break;
			case 1: ecAddA(pc, pa, pb, ec, st); break;
			case 2: ecSub(pc, pa, pb, ec, st); break;
			case 3: ecSubA(pc, pa, pb, ec, st); break;
			case 4: ok = (kind == 0 ? ecpAddAA : ec2AddAA)(pc, pa, pb, ec, st); proj_res = FALSE; break;
			case 5: ok = (kind == 0 ? ecpSubAA : ec2SubAA)(pc, pa, pb, ec, st); proj_res = FALSE; break;
			case 10: ecDbl(pc, pa, ec, st); break;
			case 11: ecDblA(pc, pa, ec, st); break;
			case 12: ec->tpl(pc, pa, ec, st); break;
			case 13: ecNeg(pc, pa, ec, st); break;
			case 14: (kind == 0 ? ecpNegA : ec2NegA)(pc, pa, ec); proj_res = FALSE; break;
			}
			if (proj_res)
			{
				ok = ecToA(aff, pc, ec, st);
				if (ok)
					qrTo(out + cnt * rec + 1, aff, f, st), qrTo(out + cnt * rec + 1 + no, aff + n, f, st);
			}
			else if (ok)
				qrTo(out + cnt * rec + 1, pc, f, st), qrTo(out + cnt * rec + 1 + no, pc + n, f, st);
			out[cnt * rec] = ok ? 1 : 0;
			if (!ok)
				memSetZero(out + cnt * rec + 1, 2 * no);
			++cnt;
		}
	free(st), free(lam), free(A), free(B), free(C), free(aff);
	return cnt;
}
bool_t x_ec_has_tpl(const ec_o* ec) { return ec->tpl != 0; }

/* ---- btok_cvc_t accessors (no struct layout knowledge on the Python side) */
size_t x_cvc_sizeof(void) { return sizeof(btok_cvc_t); }
void x_cvc_fill(btok_cvc_t* c, const char* authority, const char* holder, const octet from[6], const octet until[6], unsigned hat)
{
	memset(c, 0, sizeof(*c));
	strncpy(c->authority, authority, 12);
	strncpy(c->holder, holder, 12);
	memcpy(c->from, from, 6);
	memcpy(c->until, until, 6);
	memset(c->hat_eid, (int)(hat & 0xFF), 5);
	memset(c->hat_esign, (int)((hat >> 8) & 0xFF), 2);
}
void x_cvc_setkey(btok_cvc_t* c, const octet* pubkey, size_t len) { memset(c->pubkey, 0, 128); memcpy(c->pubkey, pubkey, len); c->pubkey_len = len; }
/* field: 0 authority 1 holder 2 pubkey 3 pubkey_len 4 from 5 until 6 hat_eid 7 hat_esign 8 sig 9 sig_len ; copies the field to out, returns its size */
size_t x_cvc_get(octet* out, const btok_cvc_t* c, unsigned field)
{
	const void* p; size_t n;
	switch (field)
	{
	case 0: p = c->authority; n = 13; break;
	case 1: p = c->holder; n = 13; break;
	case 2: p = c->pubkey; n = 128; break;
	case 3: p = &c->pubkey_len; n = sizeof(size_t); break;
	case 4: p = c->from; n = 6; break;
	case 5: p = c->until; n = 6; break;
	case 6: p = c->hat_eid; n = 5; break;
	case 7: p = c->hat_esign; n = 2; break;
	case 8: p = c->sig; n = 96; break;
	default: p = &c->sig_len; n = sizeof(size_t); break;
	}
	if (out) memcpy(out, p, n);
	return n;
}
void x_cvc_set(btok_cvc_t* c, unsigned field, const octet* in, size_t n)
{
	void* p;
	switch (field)
	{
	case 0: p = c->authority; break; case 1: p = c->holder; break; case 2: p = c->pubkey; break; case 3: p = &c->pubkey_len; break;
	case 4: p = c->from; break; case 5: p = c->until; break; case 6: p = c->hat_eid; break; case 7: p = c->hat_esign; break;
	case 8: p = c->sig; break; default: p = &c->sig_len; break;
	}
	memcpy(p, in, n);
}

/* ---- call a one-word function with its argument loaded from memory (so that memcheck definedness travels with it) */
typedef size_t (*x_fw)(word);
size_t x_call_w(x_fw f, const word* p) { return f(*p); }
typedef size_t (*x_f32)(u32);
size_t x_call_u32(x_f32 f, const u32* p) { return f(*p); }
typedef size_t (*x_f16)(u16);
size_t x_call_u16(x_f16 f, const u16* p) { return f(*p); }
typedef size_t (*x_f64)(u64);
size_t x_call_u64(x_f64 f, const u64* p) { return f(*p); }
