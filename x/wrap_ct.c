/* wrap_ct.c: (configs with X_VALGRIND) the outcome of a tag/header comparison is public by nature: the library's calls to
 * memEq / memIsZero are routed here (-Wl,--wrap) and only their RETURN VALUE is declassified for memcheck.  The comparison
 * itself still runs on undefined (secret) data, so a data-dependent branch inside it is still reported. */
#include <stddef.h>
#include <valgrind/memcheck.h>
#include "bee2/defs.h"
bool_t __real_memEq(const void* a, const void* b, size_t n);
bool_t __real_memIsZero(const void* a, size_t n);
bool_t __wrap_memEq(const void* a, const void* b, size_t n) { bool_t r = __real_memEq(a, b, n); VALGRIND_MAKE_MEM_DEFINED(&r, sizeof(r)); return r; }
bool_t __wrap_memIsZero(const void* a, size_t n) { bool_t r = __real_memIsZero(a, n); VALGRIND_MAKE_MEM_DEFINED(&r, sizeof(r)); return r; }
