/* shim_c12.c: helpers of the C12 check (validators): struct layouts of the
 * long-term parameter structures and in-executor enumerations that return
 * packed verdicts (the comparison with the oracle is done in Python). */
#include <stddef.h>
#include <string.h>
#include "bee2/defs.h"
#include "bee2/core/mem.h"
#include "bee2/core/tm.h"
#include "bee2/math/pri.h"
#include "bee2/crypto/bign.h"
#include "bee2/crypto/g12s.h"
#include "bee2/crypto/dstu.h"
#include "bee2/crypto/pfok.h"
#include "bee2/crypto/stb99.h"

#define X_F(t, f) if (i == k++) return size ? sizeof(((t*)0)->f) : offsetof(t, f)
#define X_END(t) if (i == k++) return size ? sizeof(t) : sizeof(t); return (size_t)-1

/* offset (size == 0) or size (size != 0) of field i of structure st;
   the field after the last one describes the whole structure */
size_t x_c12_layout(unsigned st, unsigned i, unsigned size)
{
	unsigned k = 0;
	switch (st)
	{
	case 0:
		X_F(bign_params, l); X_F(bign_params, p); X_F(bign_params, a);
		X_F(bign_params, b); X_F(bign_params, q); X_F(bign_params, yG);
		X_F(bign_params, seed); X_END(bign_params);
	case 1:
		X_F(g12s_params, l); X_F(g12s_params, p); X_F(g12s_params, a);
		X_F(g12s_params, b); X_F(g12s_params, q); X_F(g12s_params, n);
		X_F(g12s_params, xP); X_F(g12s_params, yP); X_END(g12s_params);
	case 2:
		X_F(dstu_params, p); X_F(dstu_params, A); X_F(dstu_params, B);
		X_F(dstu_params, n); X_F(dstu_params, c); X_F(dstu_params, P);
		X_END(dstu_params);
	case 3:
		X_F(pfok_params, l); X_F(pfok_params, r); X_F(pfok_params, n);
		X_F(pfok_params, p); X_F(pfok_params, g); X_END(pfok_params);
	case 4:
		X_F(stb99_params, l); X_F(stb99_params, r); X_F(stb99_params, p);
		X_F(stb99_params, q); X_F(stb99_params, a); X_F(stb99_params, d);
		X_END(stb99_params);
	case 5:
		X_F(stb99_seed, l); X_F(stb99_seed, zi); X_F(stb99_seed, di);
		X_F(stb99_seed, ri); X_END(stb99_seed);
	case 6:
		X_F(pfok_seed, l); X_F(pfok_seed, zi); X_F(pfok_seed, li);
		X_END(pfok_seed);
	}
	return (size_t)-1;
}

/* tmDateIsValid2 on the tuples number lo..hi-1 of {0..base-1}^6
   (tuple number t: octet j is digit 5-j of t in the given base);
   verdict of tuple t is bit (t - lo) of out */
void x_c12_dates(octet* out, size_t lo, size_t hi, size_t base)
{
	size_t t, v, j;
	octet date[6];
	memset(out, 0, (hi - lo + 7) / 8);
	for (t = lo; t < hi; ++t)
	{
		for (v = t, j = 6; j--; v /= base)
			date[j] = (octet)(v % base);
		if (tmDateIsValid2(date))
			out[(t - lo) / 8] |= (octet)(1 << (t - lo) % 8);
	}
}

/* priIsPrimeW(lo + i), i < count, packed; lo + count - 1 must not wrap */
void x_c12_primes(octet* out, word lo, size_t count, void* stack)
{
	size_t i;
	memset(out, 0, (count + 7) / 8);
	for (i = 0; i < count; ++i)
		if (priIsPrimeW(lo + (word)i, stack))
			out[i / 8] |= (octet)(1 << i % 8);
}

/* priNextPrimeW(lo + i), i < count: out[i] = the prime, or 0 when FALSE
   is returned (0 is never a prime, so the coding is unambiguous) */
void x_c12_nextprimes(word* out, word lo, size_t count, void* stack)
{
	size_t i;
	word p[1];
	for (i = 0; i < count; ++i)
	{
		p[0] = 0;
		out[i] = priNextPrimeW(p, lo + (word)i, stack) ? p[0] : 0;
	}
}
