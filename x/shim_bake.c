/* shim_bake.c: helpers for the bake / BAUTH checks (C04).
 * bake_settings / bake_cert builders, the certificate-validation callback of the
 * test suite (certificate = name || public key), and an in-memory message channel
 * (read_i / write_i) for the RunA / RunB drivers.  All symbols x_*. */
#include <string.h>
#include <stdlib.h>
#include "bee2/defs.h"
#include "bee2/core/mem.h"
#include "bee2/core/err.h"
#include "bee2/core/blob.h"
#include "bee2/crypto/bign.h"
#include "bee2/crypto/bake.h"
#include "bee2/crypto/btok.h"

extern void x_tape_gen(void* buf, size_t count, void* state);

size_t x_bake_params_size(void) { return sizeof(bign_params); }
size_t x_bake_settings_size(void) { return sizeof(bake_settings); }
size_t x_bake_cert_size(void) { return sizeof(bake_cert); }

/* settings with rng = x_tape_gen over the tape state `tape` */
void x_bake_settings(bake_settings* s, unsigned kca, unsigned kcb,
	const void* helloa, size_t helloa_len, const void* hellob, size_t hellob_len,
	void* tape)
{
	memset(s, 0, sizeof(*s));
	s->kca = kca ? TRUE : FALSE;
	s->kcb = kcb ? TRUE : FALSE;
	s->helloa = helloa;
	s->helloa_len = helloa_len;
	s->hellob = hellob;
	s->hellob_len = hellob_len;
	s->rng = x_tape_gen;
	s->rng_state = tape;
}

/* certificate validation as in test/crypto/bake_test.c: data = name || pubkey[l / 2] */
err_t x_bake_certval(octet* pubkey, const bign_params* params,
	const octet* data, size_t len)
{
	if (!memIsValid(params, sizeof(bign_params)) ||
		(params->l != 128 && params->l != 192 && params->l != 256) ||
		!memIsNullOrValid(pubkey, params->l / 2))
		return ERR_BAD_INPUT;
	if (!memIsValid(data, len) || len < params->l / 2)
		return ERR_BAD_CERT;
	if (pubkey)
		memcpy(pubkey, data + (len - params->l / 2), params->l / 2);
	return ERR_OK;
}

/* a second certificate format with its own validator: data = pubkey[l / 2] || name || 0xA5 (bake.h: every certificate carries its validator) */
err_t x_bake_certval2(octet* pubkey, const bign_params* params,
	const octet* data, size_t len)
{
	if (!memIsValid(params, sizeof(bign_params)) ||
		(params->l != 128 && params->l != 192 && params->l != 256) ||
		!memIsNullOrValid(pubkey, params->l / 2))
		return ERR_BAD_INPUT;
	if (!memIsValid(data, len) || len < params->l / 2 + 1 || data[len - 1] != 0xA5)
		return ERR_BAD_CERT;
	if (pubkey)
		memcpy(pubkey, data, params->l / 2);
	return ERR_OK;
}

/* a validator that works on a copy of the certificate, as a parser of a real certificate format would: one allocation per call */
err_t x_bake_certval_alloc(octet* pubkey, const bign_params* params,
	const octet* data, size_t len)
{
	err_t code;
	octet* copy;
	if (!memIsValid(data, len))
		return ERR_BAD_CERT;
	copy = (octet*)blobCreate(len + 1);
	if (!copy)
		return ERR_OUTOFMEMORY;
	memcpy(copy, data, len);
	code = x_bake_certval(pubkey, params, copy, len);
	blobClose(copy);
	return code;
}

/* a validator that does not accept the certificate */
err_t x_bake_certval_reject(octet* pubkey, const bign_params* params,
	const octet* data, size_t len)
{
	(void)pubkey, (void)params, (void)data, (void)len;
	return ERR_BAD_CERT;
}

void x_bake_cert2(bake_cert* c, octet* data, size_t len)
{
	memset(c, 0, sizeof(*c));
	c->data = data;
	c->len = len;
	c->val = x_bake_certval2;
}

void x_bake_cert(bake_cert* c, octet* data, size_t len)
{
	memset(c, 0, sizeof(*c));
	c->data = data;
	c->len = len;
	c->val = x_bake_certval;
}

/* ---- message channel
   layout (all fields u64, little-endian host order, accessed through memcpy):
     hdr[0] n_in      number of incoming messages
     hdr[1] cur       index of the incoming message being read
     hdr[2] off       offset inside it
     hdr[3] in_size   octets of the incoming area
     hdr[4] n_out     number of written messages
     hdr[5] out_used  octets used in the outgoing area
     hdr[6] out_cap   capacity of the outgoing area
     hdr[7] reads     number of read calls (diagnostics)
   incoming area : n_in records  { u64 len; octet data[len]; }
   outgoing area : n_out records { u64 len; octet data[len]; }
   read semantics = fileMsgRead of the test suite: a read that asks for more than what
   is left of the current message returns the rest with ERR_MAX and moves to the next
   message; a read that is satisfied returns ERR_OK (and moves on when the message is
   used up).  No message left: ERR_FILE_NOT_FOUND. */
#define X_CH_HDR 8

static u64 x_ch_get(const octet* ch, size_t i)
{
	u64 v;
	memcpy(&v, ch + 8 * i, 8);
	return v;
}

static void x_ch_set(octet* ch, size_t i, u64 v)
{
	memcpy(ch + 8 * i, &v, 8);
}

err_t x_ch_read(size_t* read, void* buf, size_t count, void* file)
{
	octet* ch = (octet*)file;
	u64 n_in = x_ch_get(ch, 0), cur = x_ch_get(ch, 1), off = x_ch_get(ch, 2);
	const octet* p = ch + 8 * X_CH_HDR;
	u64 i, len;
	x_ch_set(ch, 7, x_ch_get(ch, 7) + 1);
	if (cur >= n_in)
		return ERR_FILE_NOT_FOUND;
	for (i = 0; i < cur; ++i)
	{
		memcpy(&len, p, 8);
		p += 8 + len;
	}
	memcpy(&len, p, 8);
	p += 8;
	if (count + off > len)
	{
		*read = (size_t)(len - off);
		memcpy(buf, p + off, (size_t)(len - off));
		x_ch_set(ch, 1, cur + 1);
		x_ch_set(ch, 2, 0);
		return ERR_MAX;
	}
	memcpy(buf, p + off, count);
	*read = count;
	off += count;
	if (off == len)
		++cur, off = 0;
	x_ch_set(ch, 1, cur);
	x_ch_set(ch, 2, off);
	return ERR_OK;
}

err_t x_ch_write(size_t* written, const void* buf, size_t count, void* file)
{
	octet* ch = (octet*)file;
	u64 in_size = x_ch_get(ch, 3), n_out = x_ch_get(ch, 4);
	u64 used = x_ch_get(ch, 5), cap = x_ch_get(ch, 6);
	octet* p = ch + 8 * X_CH_HDR + in_size + used;
	u64 len = count;
	if (used + 8 + count > cap)
		return ERR_OUTOFMEMORY;
	memcpy(p, &len, 8);
	memcpy(p + 8, buf, count);
	x_ch_set(ch, 4, n_out + 1);
	x_ch_set(ch, 5, used + 8 + count);
	*written = count;
	return ERR_OK;
}
