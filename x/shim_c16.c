/* shim_c16.c: layout-independent access to the parameter structures of g12s, dstu, pfok
 * (and the size of bign_params) for props/c16.py.  All symbols x_c16_*. */
#include <string.h>
#include <stddef.h>
#include "bee2/defs.h"
#include "bee2/crypto/bign.h"
#include "bee2/crypto/g12s.h"
#include "bee2/crypto/dstu.h"
#include "bee2/crypto/pfok.h"

/* which: 0 bign_params, 1 g12s_params, 2 dstu_params, 3 pfok_params */
size_t x_c16_sizeof(unsigned which)
{
	switch (which)
	{
	case 0: return sizeof(bign_params);
	case 1: return sizeof(g12s_params);
	case 2: return sizeof(dstu_params);
	case 3: return sizeof(pfok_params);
	}
	return 0;
}

static void x_c16_u32(octet* out, u32 v)
{
	out[0] = (octet)v, out[1] = (octet)(v >> 8), out[2] = (octet)(v >> 16), out[3] = (octet)(v >> 24);
}

/* flat image: l(4 LE) p[68] a[68] b[68] q[64] n(4 LE) xP[68] yP[68] = 412 octets */
void x_c16_g12s_flat(octet out[412], const g12s_params* p)
{
	x_c16_u32(out, p->l);
	memcpy(out + 4, p->p, 68);
	memcpy(out + 72, p->a, 68);
	memcpy(out + 140, p->b, 68);
	memcpy(out + 208, p->q, 64);
	x_c16_u32(out + 272, p->n);
	memcpy(out + 276, p->xP, 68);
	memcpy(out + 344, p->yP, 68);
}

/* flat image: p[4] (4 x 2 LE) A(1) B[64] n[64] c(4 LE) P[128] = 269 octets */
void x_c16_dstu_flat(octet out[269], const dstu_params* p)
{
	size_t i;
	for (i = 0; i < 4; ++i)
		out[2 * i] = (octet)p->p[i], out[2 * i + 1] = (octet)(p->p[i] >> 8);
	out[8] = p->A;
	memcpy(out + 9, p->B, 64);
	memcpy(out + 73, p->n, 64);
	x_c16_u32(out + 137, p->c);
	memcpy(out + 141, p->P, 128);
}

/* params->P <- [count]point, the rest of P zeroed */
void x_c16_dstu_set_P(dstu_params* p, const octet* point, size_t count)
{
	memset(p->P, 0, sizeof(p->P));
	memcpy(p->P, point, count < sizeof(p->P) ? count : sizeof(p->P));
}

/* address of params->P (dstuPointGen may write the base point in place: "point and params->P may coincide") */
octet* x_c16_dstu_P(dstu_params* p)
{
	return p->P;
}

/* flat image: l, r, n (8 LE each) p[368] g[368] = 760 octets */
void x_c16_pfok_flat(octet out[760], const pfok_params* p)
{
	size_t i;
	for (i = 0; i < 8; ++i)
	{
		out[i] = (octet)((u64)p->l >> 8 * i);
		out[8 + i] = (octet)((u64)p->r >> 8 * i);
		out[16 + i] = (octet)((u64)p->n >> 8 * i);
	}
	memcpy(out + 24, p->p, 368);
	memcpy(out + 392, p->g, 368);
}
