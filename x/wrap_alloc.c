/* wrap_alloc.c: linked only into the *wrap configurations with -Wl,--wrap=malloc,--wrap=free,--wrap=realloc,--wrap=calloc.
 * Tracks the allocations made while a library call is in flight (x_alloc_active), can fail the n-th of them,
 * and records a snapshot of every block at the moment it is handed back to the allocator (C15). */
#include <stdlib.h>
#include <string.h>
#include <stdint.h>
#include <stdio.h>

void* __real_malloc(size_t);
void __real_free(void*);
void* __real_realloc(void*, size_t);
void* __real_calloc(size_t, size_t);

int x_alloc_active;                 /* set by b2x around a C / FC call */
static size_t n_alloc, n_free, fail_at, n_failed;
#define MAXTRK 4096
static struct { void* p; size_t n; } trk[MAXTRK];
static size_t ntrk;
static int record;
static unsigned char* logbuf; static size_t loglen, logcap;

static void trk_add(void* p, size_t n) { if (ntrk < MAXTRK) { trk[ntrk].p = p; trk[ntrk].n = n; ++ntrk; } }
static size_t trk_del(void* p) { size_t i; for (i = 0; i < ntrk; ++i) if (trk[i].p == p) { size_t n = trk[i].n; trk[i] = trk[--ntrk]; return n; } return (size_t)-1; }

static void log_block(const void* p, size_t n)
{
	size_t need = loglen + 8 + n;
	if (need > logcap) { size_t c = logcap ? logcap * 2 : 1 << 16; while (c < need) c *= 2; logbuf = (unsigned char*)__real_realloc(logbuf, c); logcap = c; }
	{ uint64_t v = n; memcpy(logbuf + loglen, &v, 8); }
	memcpy(logbuf + loglen + 8, p, n);
	loglen = need;
}

void* __wrap_malloc(size_t n)
{
	void* p;
	if (!x_alloc_active) return __real_malloc(n);
	++n_alloc;
	if (fail_at && n_alloc == fail_at) { ++n_failed; return 0; }
	p = __real_malloc(n);
	if (p) trk_add(p, n);
	return p;
}
void* __wrap_calloc(size_t a, size_t b)
{
	void* p;
	if (!x_alloc_active) return __real_calloc(a, b);
	++n_alloc;
	if (fail_at && n_alloc == fail_at) { ++n_failed; return 0; }
	p = __real_calloc(a, b);
	if (p) trk_add(p, a * b);
	return p;
}
void* __wrap_realloc(void* q, size_t n)
{
	void* p; size_t old;
	if (!x_alloc_active) return __real_realloc(q, n);
	++n_alloc;
	if (fail_at && n_alloc == fail_at) { ++n_failed; return 0; }
	old = q ? trk_del(q) : (size_t)-1;
	if (record && q && old != (size_t)-1) log_block(q, old);	/* the old block may be released by realloc */
	p = __real_realloc(q, n);
	if (p) trk_add(p, n); else if (q && old != (size_t)-1) trk_add(q, old);
	return p;
}
void __wrap_free(void* p)
{
	if (x_alloc_active && p)
	{
		size_t n = trk_del(p);
		++n_free;
		if (record && n != (size_t)-1) log_block(p, n);
	}
	__real_free(p);
}

/* control (called through the executor's C command; x_alloc_active is 0 while these run... they are plain calls, so guard) */
size_t x_alloc_reset(void) { x_alloc_active = 0; n_alloc = n_free = fail_at = n_failed = 0; ntrk = 0; loglen = 0; return 0; }
size_t x_alloc_fail_at(size_t n) { fail_at = n; return 0; }
size_t x_alloc_get_fail_at(void) { return fail_at; }
size_t x_alloc_count(void) { return n_alloc; }
size_t x_alloc_frees(void) { return n_free; }
size_t x_alloc_live(void) { return ntrk; }
size_t x_alloc_failed(void) { return n_failed; }
size_t x_alloc_record(size_t on) { record = (int)on; loglen = 0; return 0; }
size_t x_alloc_loglen(void) { return loglen; }
size_t x_alloc_log(unsigned char* out, size_t max) { size_t n = loglen < max ? loglen : max; memcpy(out, logbuf, n); return n; }
