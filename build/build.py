#!/usr/bin/env python3
"""Build bee2 (from /repo's current working tree) + the b2x executor in a named
configuration.  Output lives in /verif/.cache/<config>-<treehash>/ ; a build is
reused only when the hash of every source/header of /repo and of the executor
sources and flags is unchanged.

usage: build.py <config> [<config> ...]     prints the directory of each build
"""
import glob, hashlib, os, re, subprocess, sys, shutil, fcntl, time
from concurrent.futures import ThreadPoolExecutor

REPO = os.environ.get("VERIF_REPO", "/repo")
VERIF = os.path.dirname(os.path.dirname(os.path.abspath(__file__)))
CACHE = os.path.join(VERIF, ".cache")

GCC_W = "-w"
CONFIGS = {
    # name: (cc, cflags, ldflags, executor-extra)
    "asan": ("gcc", "-O1 -g -fsanitize=address,bounds -fno-sanitize-recover=bounds -fno-omit-frame-pointer -fno-common -DBEE2_VERIF",
             "-fsanitize=address,bounds", ""),
    # the same without the hook: blobs keep the library's own 1 KiB page arithmetic (blob API tests)
    "asanpg": ("gcc", "-O1 -g -fsanitize=address,bounds -fno-sanitize-recover=bounds -fno-omit-frame-pointer -fno-common",
               "-fsanitize=address,bounds", ""),
    # the 32-bit bash-f back end under ASan (its scratch size enters bashHash_keep / bashPrg_keep)
    "bash32a": ("gcc", "-O1 -g -fsanitize=address,bounds -fno-sanitize-recover=bounds -fno-omit-frame-pointer -fno-common -DBEE2_VERIF -DBASH_32",
                "-fsanitize=address,bounds", ""),
    "msan": ("clang", "-O1 -g -fsanitize=memory -fsanitize-memory-track-origins=1 -fno-omit-frame-pointer -DBEE2_VERIF",
             "-fsanitize=memory", "-DX_MSAN"),
    "w32": ("gcc", "-O2 -g -U__SIZEOF_INT128__ -fsanitize=address -fno-omit-frame-pointer -fno-common -DBEE2_VERIF",
            "-fsanitize=address", ""),
    "w32rel": ("gcc", "-O2 -U__SIZEOF_INT128__ -fno-strict-aliasing -DNDEBUG", "", ""),
    "rel": ("gcc", "-O3 -g -fno-strict-aliasing -DNDEBUG", "-Wl,--wrap=memEq,--wrap=memIsZero", "-DX_VALGRIND"),
    "relwrap": ("gcc", "-O3 -g -fno-strict-aliasing -DNDEBUG", "-Wl,--wrap=malloc,--wrap=free,--wrap=realloc,--wrap=calloc", "-DX_WRAP_ALLOC"),
    "asanwrap": ("gcc", "-O1 -g -fsanitize=address -fno-omit-frame-pointer -fno-common -DBEE2_VERIF", "-fsanitize=address -Wl,--wrap=malloc,--wrap=free,--wrap=realloc,--wrap=calloc", "-DX_WRAP_ALLOC"),
    "relfast": ("gcc", "-O3 -fno-strict-aliasing -DNDEBUG -DSAFE_FAST", "", ""),
    "O0": ("gcc", "-O0 -g", "", ""),
    "O2a": ("gcc", "-O2", "", ""),
    "clangO2": ("clang", "-O2 -fno-strict-aliasing -DNDEBUG", "", ""),
    "w32fast": ("gcc", "-O3 -U__SIZEOF_INT128__ -fno-strict-aliasing -DNDEBUG -DSAFE_FAST", "", ""),
    "bash32": ("gcc", "-O3 -fno-strict-aliasing -DNDEBUG -DBASH_32", "", ""),
    "bashsse2": ("gcc", "-O3 -fno-strict-aliasing -DNDEBUG -DBASH_SSE2 -msse2", "", ""),
    "bashavx2": ("gcc", "-O3 -fno-strict-aliasing -DNDEBUG -DBASH_AVX2 -mavx2", "", ""),
    "bashavx512": ("gcc", "-O3 -fno-strict-aliasing -DNDEBUG -DBASH_AVX512 -mavx512f -fno-asynchronous-unwind-tables", "", ""),
    "tsan": ("clang", "-O1 -g -fsanitize=thread -fno-omit-frame-pointer", "-fsanitize=thread", ""),
    "fuzz": ("clang", "-O1 -g -fsanitize=fuzzer-no-link,address -fno-omit-frame-pointer -DBEE2_VERIF", "-fsanitize=address", ""),
}


def src_list():
    txt = open(os.path.join(REPO, "src", "CMakeLists.txt")).read()
    m = re.search(r"set\(src\s+(.*?)\)", txt, re.S)
    return [os.path.join(REPO, "src", f) for f in m.group(1).split()]


def tree_hash(extra):
    h = hashlib.sha256()
    roots = [os.path.join(REPO, "src"), os.path.join(REPO, "include"), os.path.join(VERIF, "x"), os.path.join(VERIF, "mt")]
    files = []
    for r in roots:
        for d, _, fs in os.walk(r):
            for f in fs:
                if f.endswith((".c", ".h", ".txt", ".in")):
                    files.append(os.path.join(d, f))
    for f in sorted(files):
        h.update(f.encode())
        with open(f, "rb") as fh:
            h.update(fh.read())
    h.update(extra.encode())
    return h.hexdigest()[:16]


def run(cmd):
    p = subprocess.run(cmd, shell=True, capture_output=True, text=True)
    if p.returncode != 0:
        sys.stderr.write("BUILD FAILED: %s\n%s\n%s\n" % (cmd, p.stdout[-3000:], p.stderr[-3000:]))
        raise SystemExit(2)


def build(config):
    cc, cflags, ldflags, xextra = CONFIGS[config]
    th = tree_hash(config + cc + cflags + ldflags + xextra)
    out = os.path.join(CACHE, "%s-%s" % (config, th))
    os.makedirs(CACHE, exist_ok=True)
    lock = open(os.path.join(CACHE, ".lock-" + config), "w")
    fcntl.flock(lock, fcntl.LOCK_EX)
    try:
        if os.path.exists(os.path.join(out, "ok")):
            return out
        # drop stale builds of this config (keep the few most recent: seeded-change runs use other trees concurrently)
        olds = sorted((d for d in os.listdir(CACHE) if d.startswith(config + "-") and d != os.path.basename(out)),
                      key=lambda d: os.path.getmtime(os.path.join(CACHE, d)))
        for d in olds[:-4] if len(olds) > 4 else []:
            shutil.rmtree(os.path.join(CACHE, d), ignore_errors=True)
        shutil.rmtree(out, ignore_errors=True)
        os.makedirs(os.path.join(out, "obj"))
        inc = "-I%s/include -I%s/src" % (REPO, REPO)
        srcs = src_list()
        objs = []
        jobs = []
        for s in srcs:
            o = os.path.join(out, "obj", os.path.relpath(s, os.path.join(REPO, "src")).replace("/", "_")[:-2] + ".o")
            objs.append(o)
            jobs.append("%s -c -w -fPIC %s %s -o %s %s" % (cc, cflags, inc, o, s))
        with ThreadPoolExecutor(16) as ex:
            list(ex.map(run, jobs))
        lib = os.path.join(out, "libbee2.a")
        run("ar rcs %s %s" % (lib, " ".join(objs)))
        if config == "tsan":
            mt = os.path.join(VERIF, "mt", "mtx.c")
            if os.path.exists(mt):
                run("%s -w %s %s %s -o %s/mtx %s %s -lpthread -ldl" % (cc, cflags, inc, mt, out, lib, ldflags))
        elif config == "fuzz":
            pass  # fuzz targets are linked by fuzz/build_fuzz.py against libbee2.a
        else:
            xs = [os.path.join(VERIF, "x", "b2x.c")] + sorted(glob.glob(os.path.join(VERIF, "x", "shim*.c")))
            if "X_WRAP_ALLOC" in xextra:
                xs.append(os.path.join(VERIF, "x", "wrap_alloc.c"))
            if "X_VALGRIND" in xextra:
                xs.append(os.path.join(VERIF, "x", "wrap_ct.c"))
            run("%s -w %s %s %s %s -o %s/b2x -Wl,--whole-archive %s -Wl,--no-whole-archive -rdynamic %s -ldl -lpthread" %
                (cc, cflags, xextra, inc, " ".join(xs), out, lib, ldflags))
        shutil.rmtree(os.path.join(out, "obj"), ignore_errors=True)
        open(os.path.join(out, "ok"), "w").write(config)
        return out
    finally:
        fcntl.flock(lock, fcntl.LOCK_UN)


def build_many(configs):
    with ThreadPoolExecutor(max(1, min(4, len(configs)))) as ex:
        return dict(zip(configs, ex.map(build, configs)))


if __name__ == "__main__":
    for c, d in build_many(sys.argv[1:]).items():
        print(c, d)
