#!/usr/bin/env python3
"""build the libFuzzer targets against the `fuzz` configuration of the current tree; prints the directory"""
import os, sys, subprocess
sys.path.insert(0, os.path.join(os.path.dirname(os.path.abspath(__file__)), "..", "build"))
import build
TARGETS = ["DER", "OID", "APDU", "STR", "PARAMS", "CVC", "BPKI", "SM"]
VERIF = build.VERIF


def build_targets():
    d = build.build("fuzz")
    src = os.path.join(VERIF, "fuzz", "fz.c")
    stamp = os.path.join(d, "fz.ok")
    if os.path.exists(stamp) and os.path.getmtime(stamp) >= os.path.getmtime(src):
        return d
    import fcntl
    lock = open(os.path.join(d, "fz.lock"), "w")
    fcntl.flock(lock, fcntl.LOCK_EX)         # several shard workers may arrive here at once: one builds, the others wait and find the stamp
    try:
        if os.path.exists(stamp) and os.path.getmtime(stamp) >= os.path.getmtime(src):
            return d
        return _build_locked(d, src, stamp)
    finally:
        fcntl.flock(lock, fcntl.LOCK_UN)
        lock.close()


def _build_locked(d, src, stamp):
    procs = []
    for t in TARGETS:
        cmd = ["clang", "-O1", "-g", "-w", "-fsanitize=fuzzer,address", "-fno-omit-frame-pointer", "-DFZ_" + t, "-I%s/include" % build.REPO,
               src, os.path.join(d, "libbee2.a"), "-o", os.path.join(d, "fz_" + t.lower()), "-lpthread"]
        procs.append((t, subprocess.Popen(cmd, stdout=subprocess.PIPE, stderr=subprocess.STDOUT, text=True)))
    cmd = ["clang", "-O1", "-g", "-w", "-fsanitize=address", "-fno-omit-frame-pointer", "-DFZ_DER", "-DFZ_MAIN", "-I%s/include" % build.REPO,
           src, os.path.join(d, "libbee2.a"), "-o", os.path.join(d, "fz_der_exhaust"), "-lpthread"]
    procs.append(("DER_EXHAUST", subprocess.Popen(cmd, stdout=subprocess.PIPE, stderr=subprocess.STDOUT, text=True)))
    for t, p in procs:
        out = p.communicate()[0]
        if p.returncode:
            sys.stderr.write("fuzz target %s failed to build:\n%s\n" % (t, out[-3000:]))
            raise SystemExit(2)
    open(stamp, "w").write("ok")
    return d


if __name__ == "__main__":
    print(build_targets())
