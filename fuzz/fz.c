/* libFuzzer targets for the bee2 decoders (C08).  One binary per family, selected with -DFZ_<NAME>.
 * The input is copied into an exact-size heap buffer (a read past `count` hits an ASan red zone).
 * In-target oracle: total, bounded, canonical re-encoding, probe call == real call, enc->dec identity.
 * A violated oracle prints "ORACLE: ..." and aborts (=> crash- artifact = replay file). */
#include <stdint.h>
#include <stdio.h>
#include <stdlib.h>
#include <string.h>
#include "bee2/defs.h"
#include "bee2/core/mem.h"
#include "bee2/core/der.h"
#include "bee2/core/oid.h"
#include "bee2/core/apdu.h"
#include "bee2/core/hex.h"
#include "bee2/core/b64.h"
#include "bee2/core/dec.h"
#include "bee2/core/str.h"
#include "bee2/core/err.h"
#include "bee2/crypto/bign.h"
#include "bee2/crypto/btok.h"
#include "bee2/crypto/bpki.h"

static const uint8_t* cur_data; static size_t cur_n;
static void dump_input(void) { size_t i; fprintf(stderr, " input[%zu]=", cur_n); for (i = 0; i < cur_n && i < 64; ++i) fprintf(stderr, "%02x", cur_data[i]); }
#define FAIL(...) do { fprintf(stderr, "ORACLE: " __VA_ARGS__); dump_input(); fprintf(stderr, "\n"); fflush(stderr); abort(); } while (0)
#define CHECK(c, ...) do { if (!(c)) FAIL(__VA_ARGS__); } while (0)

static octet* dup_exact(const uint8_t* data, size_t n) { octet* p; cur_data = data; cur_n = n; p = (octet*)malloc(n ? n : 1); if (n) memcpy(p, data, n); return p; }

/* counters written to FZ_STATS at exit (evidence) */
static unsigned long long n_exec, n_accept;
static void dump_stats(void) { const char* f = getenv("FZ_STATS"); if (f) { FILE* h = fopen(f, "w"); if (h) { fprintf(h, "%llu %llu\n", n_exec, n_accept); fclose(h); } } }
static int inited;
static void init(void) { if (!inited) { inited = 1; atexit(dump_stats); } }

/* ------------------------------------------------------------------ DER */
#ifdef FZ_DER

/* independent reference parser of a DER TL prefix, written from the rules in der.h:
   tag: 1 octet, or 0x1F-form with 1..3 further octets (7-bit groups, last without bit 8, first group != 0, number >= 31);
   length: short (< 128) or long 0x81..0x88 with minimal octets (first != 0, value >= 128), value fits size_t */
static int ref_tl(const octet* d, size_t n, u32* tag, size_t* len, size_t* used)
{
	size_t i = 0, r, k; u32 t; u32 num = 0; size_t l = 0;
	if (n < 1) return 0;
	t = d[i++];
	if ((t & 0x1F) == 0x1F)
	{
		size_t cnt = 0;
		for (;;)
		{
			if (i >= n) return 0;
			if (cnt == 0 && d[i] == 0x80) return 0;      /* leading zero group */
			if (cnt == 3) return 0;                        /* tag code must fit u32 */
			t = t << 8 | d[i]; num = num << 7 | (d[i] & 0x7F); ++cnt;
			if (!(d[i++] & 0x80)) break;
		}
		if (num < 31) return 0;
	}
	if (i >= n) return 0;
	if (d[i] < 128) l = d[i++];
	else
	{
		r = d[i++] & 0x7F;
		if (r == 0 || r == 0x7F) return 0;                 /* indefinite form, reserved 0xFF */
		if (r > sizeof(size_t)) return 0;
		if (i + r > n) return 0;
		if (d[i] == 0) return 0;                           /* non-minimal */
		for (k = 0; k < r; ++k) l = l << 8 | d[i++];
		if (l < 128) return 0;
		if (l == SIZE_MAX) return 0;                       /* SIZE_MAX is the library's error value: implementation limit */                             /* long form for a short length */
	}
	*tag = t; *len = l; *used = i;
	return 1;
}

/* the other direction: the input octets taken as a VALUE; whatever the typed encoders produce decodes back to the encoded value */
static void der_encode_first(const octet* d, size_t n)
{
	static const u32 tags[4] = {0x02, 0x80, 0x5F29, 0x1F21};
	u32 tag; size_t m, r;
	if (n < 2) return;
	tag = tags[d[0] & 3];
	/* UINT: [n - 1] octets, little-endian, high-order zero octets allowed */
	{
		const octet* v = d + 1; size_t len = n - 1, sig = len, olen = 0; octet* e; octet* o;
		while (sig > 1 && v[sig - 1] == 0) --sig;
		m = derTUINTEnc(0, tag, v, len);
		CHECK(m != SIZE_MAX, "derTUINTEnc refuses a %zu-octet number", len);
		e = (octet*)malloc(m);
		CHECK(derTUINTEnc(e, tag, v, len) == m, "derTUINTEnc probe/real mismatch");
		r = derTUINTDec(0, &olen, e, m, tag);
		CHECK(r == m, "derTUINTDec rejects / does not consume the code produced by derTUINTEnc (%zu of %zu)", r, m);
		o = (octet*)malloc(olen ? olen : 1);
		CHECK(derTUINTDec(o, &olen, e, m, tag) == m && olen == sig && memcmp(o, v, sig) == 0, "derTUINTDec(derTUINTEnc(v)) != v");
		free(o); free(e);
	}
	/* BIT: the first octet also selects the number of unused bits */
	{
		const octet* v = d + 1; size_t bits = 8 * (n - 1) - ((d[0] >> 2) & 7), olen = 0, by = (bits + 7) / 8; octet* e; octet* o;
		m = derTBITEnc(0, tag, v, bits);
		CHECK(m != SIZE_MAX, "derTBITEnc refuses %zu bits", bits);
		e = (octet*)malloc(m);
		CHECK(derTBITEnc(e, tag, v, bits) == m, "derTBITEnc probe/real mismatch");
		r = derTBITDec(0, &olen, e, m, tag);
		CHECK(r == m && olen == bits, "derTBITDec rejects the code produced by derTBITEnc (%zu of %zu, %zu bits of %zu)", r, m, olen, bits);
		o = (octet*)malloc(by ? by : 1);
		CHECK(derTBITDec(o, &olen, e, m, tag) == m, "derTBITDec probe/real mismatch");
		if (by)
		{
			CHECK(memcmp(o, v, by - 1) == 0, "derTBITDec(derTBITEnc(v)) != v");
			CHECK(bits % 8 ? ((o[by - 1] ^ v[by - 1]) & (octet)(0xFF << (8 - bits % 8))) == 0 : o[by - 1] == v[by - 1], "derTBITDec(derTBITEnc(v)) differs in the last octet");
		}
		free(o); free(e);
	}
	/* OCT and SIZE */
	{
		const octet* v = d + 1; size_t len = n - 1, olen = 0, sv = 0, k; octet* e; octet* o;
		m = derTOCTEnc(0, tag, v, len);
		CHECK(m != SIZE_MAX, "derTOCTEnc refuses %zu octets", len);
		e = (octet*)malloc(m);
		CHECK(derTOCTEnc(e, tag, v, len) == m, "derTOCTEnc probe/real mismatch");
		o = (octet*)malloc(len);
		CHECK(derTOCTDec(o, &olen, e, m, tag) == m && olen == len && memcmp(o, v, len) == 0, "derTOCTDec(derTOCTEnc(v)) != v");
		free(o); free(e);
		for (k = 0; k < len && k < sizeof(size_t); ++k) sv |= (size_t)v[k] << (8 * k);
		if (sv != SIZE_MAX)
		{
			size_t back = 0;
			m = derTSIZEEnc(0, tag, sv);
			CHECK(m != SIZE_MAX, "derTSIZEEnc refuses %zu", sv);
			e = (octet*)malloc(m);
			CHECK(derTSIZEEnc(e, tag, sv) == m && derTSIZEDec(&back, e, m, tag) == m && back == sv, "derTSIZEDec(derTSIZEEnc(v)) != v");
			free(e);
		}
	}
}

static void der_typed(const octet* d, size_t n, u32 tag)
{
	size_t r, r2, len;
	/* SIZE */
	{
		size_t v = 0;
		r = derTSIZEDec(&v, d, n, tag);
		if (r != SIZE_MAX)
		{
			octet* e; size_t m;
			CHECK(r <= n, "derTSIZEDec consumed %zu > count %zu", r, n);
			m = derTSIZEEnc(0, tag, v);
			CHECK(m == r, "derTSIZEEnc length %zu != decoded length %zu (non-canonical accepted)", m, r);
			e = (octet*)malloc(m); derTSIZEEnc(e, tag, v);
			CHECK(memcmp(e, d, r) == 0, "derTSIZE re-encoding differs");
			CHECK(derTSIZEDec2(d, n, tag, v) == r, "derTSIZEDec2 disagrees with derTSIZEDec");
			free(e); ++n_accept;
		}
	}
	/* UINT */
	r = derTUINTDec(0, &len, d, n, tag);
	if (r != SIZE_MAX)
	{
		octet* v = (octet*)malloc(len ? len : 1); size_t len2 = 0, m; octet* e;
		CHECK(r <= n, "derTUINTDec consumed %zu > count %zu", r, n);
		CHECK(len > 0, "derTUINTDec returned empty integer");
		r2 = derTUINTDec(v, &len2, d, n, tag);
		CHECK(r2 == r && len2 == len, "derTUINTDec probe/real mismatch");
		CHECK(derTUINTDec2(0, d, n, tag, len) == r, "derTUINTDec2 rejects the decoded length");
		m = derTUINTEnc(0, tag, v, len);
		CHECK(m == r, "derTUINTEnc length %zu != decoded %zu (non-canonical accepted)", m, r);
		e = (octet*)malloc(m); derTUINTEnc(e, tag, v, len);
		CHECK(memcmp(e, d, r) == 0, "derTUINT re-encoding differs");
		free(e); free(v); ++n_accept;
	}
	/* BIT */
	r = derTBITDec(0, &len, d, n, tag);
	if (r != SIZE_MAX)
	{
		size_t bytes = (len + 7) / 8, len2 = 0, m; octet* v = (octet*)malloc(bytes ? bytes : 1); octet* e;
		CHECK(r <= n, "derTBITDec consumed %zu > count %zu", r, n);
		r2 = derTBITDec(v, &len2, d, n, tag);
		CHECK(r2 == r && len2 == len, "derTBITDec probe/real mismatch");
		CHECK(derTBITDec2(0, d, n, tag, len) == r, "derTBITDec2 rejects the decoded length");
		m = derTBITEnc(0, tag, v, len);
		if (m == r) { e = (octet*)malloc(m); derTBITEnc(e, tag, v, len);
			/* DER demands zero unused bits; only then is the code canonical */
			if (memcmp(e, d, r) != 0) { size_t k = r - 1; CHECK(len % 8 != 0 && (d[k] & (octet)((1u << (8 - len % 8)) - 1)) != 0, "derTBIT re-encoding differs"); }
			free(e); }
		else FAIL("derTBITEnc length %zu != decoded %zu", m, r);
		free(v); ++n_accept;
	}
	/* OCT */
	r = derTOCTDec(0, &len, d, n, tag);
	if (r != SIZE_MAX)
	{
		octet* v = (octet*)malloc(len ? len : 1); size_t len2 = 0, m; octet* e;
		CHECK(r <= n, "derTOCTDec consumed %zu > count %zu", r, n);
		r2 = derTOCTDec(v, &len2, d, n, tag);
		CHECK(r2 == r && len2 == len, "derTOCTDec probe/real mismatch");
		CHECK(derTOCTDec2(0, d, n, tag, len) == r, "derTOCTDec2 rejects the decoded length");
		m = derEnc(0, tag, v, len);
		CHECK(m == r, "derEnc length %zu != decoded %zu", m, r);
		e = (octet*)malloc(m); derEnc(e, tag, v, len);
		CHECK(memcmp(e, d, r) == 0, "derTOCT re-encoding differs");
		free(e); free(v); ++n_accept;
	}
	/* PSTR */
	r = derTPSTRDec(0, &len, d, n, tag);
	if (r != SIZE_MAX)
	{
		char* s = (char*)malloc(len + 1); size_t len2 = 0, m; octet* e;
		CHECK(r <= n, "derTPSTRDec consumed %zu > count %zu", r, n);
		r2 = derTPSTRDec(s, &len2, d, n, tag);
		CHECK(r2 == r && len2 == len, "derTPSTRDec probe/real mismatch");
		CHECK(strlen(s) == len, "derTPSTRDec string length");
		CHECK(strIsPrintable(s), "derTPSTRDec accepted a non-printable string");
		m = derTPSTREnc(0, tag, s);
		CHECK(m == r, "derTPSTREnc length %zu != decoded %zu", m, r);
		e = (octet*)malloc(m); derTPSTREnc(e, tag, s);
		CHECK(memcmp(e, d, r) == 0, "derTPSTR re-encoding differs");
		free(e); free(s); ++n_accept;
	}
}

int LLVMFuzzerTestOneInput(const uint8_t* data, size_t n)
{
	octet* d = dup_exact(data, n);
	u32 tag = 0; size_t len = 0, r, t;
	const octet* val = 0;
	init(); ++n_exec;
	der_encode_first(d, n);
	/* TL */
	r = derTLDec(&tag, &len, d, n);
	{
		u32 rt = 0; size_t rl = 0, ru = 0; int ok = ref_tl(d, n, &rt, &rl, &ru);
		CHECK(ok == (r != SIZE_MAX), "derTLDec %s a prefix that the DER rules of der.h %s", r != SIZE_MAX ? "accepts" : "rejects", ok ? "accept" : "reject");
		if (ok) CHECK(rt == tag && rl == len && ru == r, "derTLDec decoded (tag %x, len %zu, used %zu), reference (%x, %zu, %zu)", (unsigned)tag, len, r, (unsigned)rt, rl, ru);
	}
	if (r != SIZE_MAX)
	{
		octet e[32]; size_t m;
		CHECK(r <= n, "derTLDec consumed %zu > count %zu", r, n);
		CHECK(r > 0, "derTLDec accepted a prefix of length 0");
		m = derTLEnc(0, tag, len);
		CHECK(m == r, "derTLEnc(tag=%x,len=%zu) has %zu octets, decoded prefix has %zu (non-canonical TL accepted)", (unsigned)tag, len, m, r);
		derTLEnc(e, tag, len);
		CHECK(memcmp(e, d, r) == 0, "TL re-encoding differs");
		CHECK(derTLDec(0, 0, d, n) == r, "derTLDec with null outputs disagrees");
	}
	/* TLV */
	t = derDec(&tag, &val, &len, d, n);
	if (t != SIZE_MAX)
	{
		octet* e; size_t m;
		CHECK(r != SIZE_MAX, "derDec accepts what derTLDec rejects");
		CHECK(t <= n, "derDec consumed %zu > count %zu", t, n);
		CHECK(val >= d && val + len == d + t && (size_t)(val - d) == r, "derDec value pointer/length inconsistent");
		CHECK(derIsValid(d, t), "derIsValid rejects what derDec accepts");
		CHECK(derIsValid2(d, t, tag), "derIsValid2 rejects the decoded tag");
		CHECK(derStartsWith(d, n, tag), "derStartsWith rejects the decoded tag");
		m = derEnc(0, tag, val, len);
		CHECK(m == t, "derEnc length %zu != decoded %zu", m, t);
		e = (octet*)malloc(m); derEnc(e, tag, val, len);
		CHECK(memcmp(e, d, t) == 0, "TLV re-encoding differs");
		free(e);
		CHECK(derDec2(0, 0, d, n, tag) == t, "derDec2 disagrees");
		CHECK(derDec3(0, d, n, tag, len) == t, "derDec3 disagrees");
		CHECK(derDec4(d, n, tag, val, len) == t, "derDec4 disagrees");
		CHECK(derDec2(0, 0, d, n, tag ^ 1) == SIZE_MAX, "derDec2 accepts a wrong tag");
		++n_accept;
		der_typed(d, n, tag);
		/* OID */
		{
			size_t ol = 0, o = derOIDDec(0, &ol, d, n);
			if (o != SIZE_MAX)
			{
				char* s = (char*)malloc(ol + 1); size_t ol2 = 0, m2; octet* e2;
				CHECK(o <= n, "derOIDDec consumed too much");
				CHECK(derOIDDec(s, &ol2, d, n) == o && ol2 == ol && strlen(s) == ol, "derOIDDec probe/real mismatch");
				CHECK(oidIsValid(s), "derOIDDec produced an invalid OID string %s", s);
				m2 = derOIDEnc(0, s);
				CHECK(m2 == o, "derOIDEnc(%s) length %zu != decoded %zu (non-canonical OID accepted)", s, m2, o);
				e2 = (octet*)malloc(m2); derOIDEnc(e2, s);
				CHECK(memcmp(e2, d, o) == 0, "OID re-encoding differs");
				CHECK(derOIDDec2(d, n, s) == o, "derOIDDec2 disagrees");
				free(e2); free(s); ++n_accept;
			}
		}
		/* SEQ */
		if (tag & 0x20 || (tag >> 8 && ((tag >> (8 * ((tag > 0xFFFF) + (tag > 0xFFFFFF) + 1))) & 0x20)))
		{
			der_anchor_t a[1]; size_t p = derTSEQDecStart(a, d, n, tag);
			if (p != SIZE_MAX)
			{
				CHECK(p == r, "derTSEQDecStart prefix %zu != TL length %zu", p, r);
				CHECK(derTSEQDecStop(d + t, a) == 0, "derTSEQDecStop rejects the exact end");
				if (len > 0) CHECK(derTSEQDecStop(d + t - 1, a) == SIZE_MAX, "derTSEQDecStop accepts a short sequence");
			}
		}
	}
	else
		CHECK(!derIsValid(d, n), "derIsValid accepts what derDec rejects");
	if (derIsValid(d, n))
		CHECK(t == n, "derIsValid(count) but derDec consumed %zu != %zu", t, n);
	free(d);
	return 0;
}
#endif

/* ------------------------------------------------------------------ OID (string side and raw DER value) */
#ifdef FZ_OID
int LLVMFuzzerTestOneInput(const uint8_t* data, size_t n)
{
	init(); ++n_exec;
	/* string validity: arbitrary C string */
	{
		char* s = (char*)malloc(n + 1); memcpy(s, data, n); s[n] = 0;
		if (memchr(data, 0, n) == 0 && oidIsValid(s))
		{
			size_t m = oidToDER(0, s); octet* e; size_t l; char* s2;
			CHECK(m != SIZE_MAX, "oidToDER rejects a valid OID string %s", s);
			e = (octet*)malloc(m); CHECK(oidToDER(e, s) == m, "oidToDER probe/real mismatch");
			l = oidFromDER(0, e, m);
			CHECK(l != SIZE_MAX, "oidFromDER rejects oidToDER(%s)", s);
			s2 = (char*)malloc(l + 1); CHECK(oidFromDER(s2, e, m) == l, "oidFromDER probe/real mismatch");
			/* identity up to leading zeros of arcs, which oidIsValid must not accept */
			CHECK(strcmp(s, s2) == 0, "oidFromDER(oidToDER(%s)) = %s", s, s2);
			free(s2); free(e); ++n_accept;
		}
		free(s);
	}
	/* DER value side */
	{
		octet* d = dup_exact(data, n); size_t l = oidFromDER(0, d, n);
		if (l != SIZE_MAX)
		{
			char* s = (char*)malloc(l + 1); size_t m; octet* e;
			CHECK(oidFromDER(s, d, n) == l && strlen(s) == l, "oidFromDER probe/real mismatch");
			CHECK(oidIsValid(s), "oidFromDER produced invalid string %s", s);
			m = oidToDER(0, s);
			CHECK(m == n, "oidToDER(%s) has %zu octets, accepted code has %zu (non-canonical accepted)", s, m, n);
			e = (octet*)malloc(m); oidToDER(e, s);
			CHECK(memcmp(e, d, n) == 0, "OID value re-encoding differs");
			free(e); free(s); ++n_accept;
		}
		free(d);
	}
	return 0;
}
#endif

/* ------------------------------------------------------------------ APDU */
#ifdef FZ_APDU
int LLVMFuzzerTestOneInput(const uint8_t* data, size_t n)
{
	octet* d = dup_exact(data, n); size_t sz;
	init(); ++n_exec;
	sz = apduCmdDec(0, d, n);
	if (sz != SIZE_MAX)
	{
		apdu_cmd_t* c = (apdu_cmd_t*)malloc(sz); size_t m; octet* e; apdu_cmd_t* c2; size_t sz2;
		CHECK(apduCmdDec(c, d, n) == sz, "apduCmdDec probe/real mismatch");
		CHECK(apduCmdIsValid(c), "apduCmdDec produced an invalid command");
		CHECK(sz == sizeof(apdu_cmd_t) + c->cdf_len, "apduCmdDec size %zu != header + cdf_len %zu", sz, c->cdf_len);
		m = apduCmdEnc(0, c);
		CHECK(m != SIZE_MAX && m <= n, "apduCmdEnc of a decoded command has %zu octets > accepted %zu", m, n);
		e = (octet*)malloc(m); CHECK(apduCmdEnc(e, c) == m, "apduCmdEnc probe/real mismatch");
		/* dec o enc o dec == dec (an extended Lc with a small length is legal, so enc may be shorter) */
		sz2 = apduCmdDec(0, e, m);
		CHECK(sz2 == sz, "apduCmdDec(apduCmdEnc(cmd)) size differs");
		c2 = (apdu_cmd_t*)malloc(sz2); apduCmdDec(c2, e, m);
		CHECK(c2->cla == c->cla && c2->ins == c->ins && c2->p1 == c->p1 && c2->p2 == c->p2 && c2->cdf_len == c->cdf_len && c2->rdf_len == c->rdf_len &&
			memcmp(c2->cdf, c->cdf, c->cdf_len) == 0, "apduCmdDec(apduCmdEnc(cmd)) != cmd");
		free(c2); free(e); free(c); ++n_accept;
	}
	sz = apduRespDec(0, d, n);
	if (sz != SIZE_MAX)
	{
		apdu_resp_t* r = (apdu_resp_t*)malloc(sz); size_t m; octet* e;
		CHECK(apduRespDec(r, d, n) == sz, "apduRespDec probe/real mismatch");
		CHECK(apduRespIsValid(r), "apduRespDec produced an invalid response");
		m = apduRespEnc(0, r);
		CHECK(m == n, "apduRespEnc length %zu != accepted %zu", m, n);
		e = (octet*)malloc(m); apduRespEnc(e, r);
		CHECK(memcmp(e, d, n) == 0, "apduResp re-encoding differs");
		free(e); free(r); ++n_accept;
	}
	free(d);
	return 0;
}
#endif

/* ------------------------------------------------------------------ hex / base64 / decimal strings */
#ifdef FZ_STR
int LLVMFuzzerTestOneInput(const uint8_t* data, size_t n)
{
	char* s; size_t len;
	init(); ++n_exec;
	if (memchr(data, 0, n)) return 0;
	s = (char*)malloc(n + 1); memcpy(s, data, n); s[n] = 0; len = n;
	if (hexIsValid(s))
	{
		octet* b = (octet*)malloc(len / 2 + 1); char* t = (char*)malloc(len + 1); char* u = (char*)malloc(len + 1);
		CHECK(len % 2 == 0, "hexIsValid accepts odd length");
		hexTo(b, s); hexFrom(t, b, len / 2);
		strcpy(u, s); hexUpper(u);
		CHECK(strcmp(t, u) == 0, "hexFrom(hexTo(s)) != upper(s)");
		CHECK(hexEq(b, s), "hexEq(hexTo(s), s) false");
		hexToRev(b, s); hexFromRev(t, b, len / 2);
		CHECK(strcmp(t, u) == 0, "hexFromRev(hexToRev(s)) != upper(s)");
		CHECK(hexEqRev(b, s), "hexEqRev(hexToRev(s), s) false");
		free(b); free(t); free(u); ++n_accept;
	}
	if (b64IsValid(s))
	{
		size_t cnt = 0, cnt2 = 0; octet* b; char* t;
		CHECK(len % 4 == 0, "b64IsValid accepts a length not divisible by 4");
		b64To(0, &cnt, s);
		CHECK(cnt <= len / 4 * 3 && cnt + 2 >= len / 4 * 3 || len == 0, "b64To length %zu out of range for %zu chars", cnt, len);
		b = (octet*)malloc(cnt ? cnt : 1); cnt2 = cnt; /* in: capacity */ b64To(b, &cnt2, s);
		CHECK(cnt2 == cnt, "b64To probe/real mismatch");
		t = (char*)malloc(len + 5); b64From(t, b, cnt);
		CHECK(strcmp(t, s) == 0, "b64From(b64To(s)) = %s != s = %s (non-canonical accepted)", t, s);
		free(t); free(b); ++n_accept;
	}
	if (decIsValid(s))
	{
		size_t clz = decCLZ(s);
		CHECK(clz <= len, "decCLZ > length");
		if (len && len <= 9)
		{
			char* t = (char*)malloc(len + 1); u32 v = decToU32(s);
			decFromU32(t, len, v);
			CHECK(strcmp(t, s) == 0, "decFromU32(decToU32(s)) != s");
			free(t);
		}
		if (len && len <= 19)
		{
			char* t = (char*)malloc(len + 1); u64 v = decToU64(s);
			decFromU64(t, len, v);
			CHECK(strcmp(t, s) == 0, "decFromU64(decToU64(s)) != s");
			free(t);
		}
		if (len)
		{
			char* t = (char*)malloc(len + 2); memcpy(t, s, len);
			t[len] = decLuhnCalc(s); t[len + 1] = 0;
			CHECK(t[len] >= '0' && t[len] <= '9' && decLuhnVerify(t), "Luhn check character does not verify");
			t[len] = decDammCalc(s);
			CHECK(t[len] >= '0' && t[len] <= '9' && decDammVerify(t), "Damm check character does not verify");
			/* a single changed digit must be detected by both */
			{ size_t i = (size_t)(data[0]) % len; char save = t[i]; t[i] = (char)('0' + (t[i] - '0' + 1 + data[n - 1] % 9) % 10);
			  CHECK(!decDammVerify(t), "Damm misses a single-digit error");
			  t[len] = decLuhnCalc(s); CHECK(!decLuhnVerify(t), "Luhn misses a single-digit error"); t[i] = save; }
			free(t);
		}
		++n_accept;
	}
	free(s);
	return 0;
}
#endif

/* ------------------------------------------------------------------ bign parameters (DER container) */
#ifdef FZ_PARAMS
int LLVMFuzzerTestOneInput(const uint8_t* data, size_t n)
{
	octet* d = dup_exact(data, n); bign_params* p = (bign_params*)malloc(sizeof(bign_params));
	init(); ++n_exec;
	if (bignParamsDec(p, d, n) == ERR_OK)
	{
		size_t cnt = 0; octet* e; bign_params* p2 = (bign_params*)malloc(sizeof(bign_params));
		CHECK(p->l == 128 || p->l == 192 || p->l == 256, "bignParamsDec accepted level %zu", (size_t)p->l);
		{ err_t ee = bignParamsEnc(0, &cnt, p);
		  if (ee == ERR_BAD_PARAMS) { free(p2); free(p); free(d); return 0; }   /* the encoder also validates the parameters (operability); the decoder only parses */
		  CHECK(ee == ERR_OK, "bignParamsEnc fails on decoded params with %u", (unsigned)ee); }
		CHECK(cnt == n, "bignParamsEnc length %zu != accepted %zu (non-canonical accepted)", cnt, n);
		e = (octet*)malloc(cnt); CHECK(bignParamsEnc(e, &cnt, p) == ERR_OK, "bignParamsEnc failed");
		CHECK(memcmp(e, d, n) == 0, "bign params re-encoding differs");
		CHECK(bignParamsDec(p2, e, cnt) == ERR_OK && memcmp(p2, p, sizeof(bign_params)) == 0, "bign params enc/dec identity");
		free(e); free(p2); ++n_accept;
	}
	free(p); free(d);
	return 0;
}
#endif

/* ------------------------------------------------------------------ CV certificates */
#ifdef FZ_CVC
int LLVMFuzzerTestOneInput(const uint8_t* data, size_t n)
{
	octet* d = dup_exact(data, n); btok_cvc_t* c = (btok_cvc_t*)malloc(sizeof(btok_cvc_t)); size_t l;
	init(); ++n_exec;
	l = btokCVCLen(d, n);
	CHECK(l == SIZE_MAX || l <= n, "btokCVCLen %zu > count %zu", l, n);
	if (btokCVCUnwrap(c, d, n, 0, 0) == ERR_OK)
	{
		CHECK(l == n, "btokCVCUnwrap accepts %zu octets but btokCVCLen says %zu", n, l);
		CHECK(c->pubkey_len == 48 || c->pubkey_len == 64 || c->pubkey_len == 96 || c->pubkey_len == 128, "pubkey_len %zu", c->pubkey_len);
		CHECK(c->sig_len == 34 || c->sig_len == 48 || c->sig_len == 72 || c->sig_len == 96, "sig_len %zu", c->sig_len);
		CHECK(strlen(c->authority) >= 8 && strlen(c->authority) <= 12 && strlen(c->holder) >= 8 && strlen(c->holder) <= 12, "name lengths");
		++n_accept;
	}
	free(c); free(d);
	return 0;
}
#endif

/* ------------------------------------------------------------------ bpki containers */
#ifdef FZ_BPKI
int LLVMFuzzerTestOneInput(const uint8_t* data, size_t n)
{
	octet* d = dup_exact(data, n); size_t len = 0; err_t e;
	static const octet pwd[] = "zed";
	init(); ++n_exec;
	/* the KDF inside costs 10000 iterations only when the outer structure parses: totality + bounds are the oracle */
	e = bpkiPrivkeyUnwrap(0, &len, d, n, pwd, 3);
	if (e == ERR_OK) { CHECK(len == 24 || len == 32 || len == 48 || len == 64, "privkey len %zu", len); ++n_accept; }
	e = bpkiShareUnwrap(0, &len, d, n, pwd, 3);
	if (e == ERR_OK) { CHECK(len == 17 || len == 25 || len == 33, "share len %zu", len); ++n_accept; }
	{
		octet* sig = (octet*)malloc(96); octet* pub = (octet*)malloc(128); size_t pl = 0;
		(void)sig;
		e = bpkiCSRUnwrap(pub, &pl, d, n);
		if (e == ERR_OK) { CHECK(pl == 48 || pl == 64 || pl == 96 || pl == 128, "csr pubkey len %zu", pl); ++n_accept; }
		free(sig); free(pub);
	}
	free(d);
	return 0;
}
#endif

/* ------------------------------------------------------------------ secure messaging unwrap (state null and non-null) */
#ifdef FZ_SM
int LLVMFuzzerTestOneInput(const uint8_t* data, size_t n)
{
	octet* d; size_t sz; void* st; static const octet key[32] = { 1, 2, 3 };
	init(); ++n_exec;
	if (n < 1) return 0;
	d = dup_exact(data + 1, n - 1); n -= 1;
	st = malloc(btokSM_keep());
	btokSMStart(st, key);
	if (data[0] & 1) btokSMCtrInc(st);
	/* without state: structure only */
	{
		size_t size = 0; err_t e = btokSMCmdUnwrap(0, &size, d, n, 0);
		if (e == ERR_OK)
		{
			apdu_cmd_t* c = (apdu_cmd_t*)malloc(size);
			CHECK(size >= sizeof(apdu_cmd_t), "SM cmd size %zu", size);
			CHECK(btokSMCmdUnwrap(c, &size, d, n, 0) == ERR_OK, "SMCmdUnwrap probe/real mismatch");
			CHECK(apduCmdIsValid(c), "SMCmdUnwrap produced an invalid command");
			free(c); ++n_accept;
		}
		e = btokSMCmdUnwrap(0, &size, d, n, st);
		if (e == ERR_OK) ++n_accept;
	}
	{
		size_t size = 0; err_t e = btokSMRespUnwrap(0, &size, d, n, 0);
		if (e == ERR_OK)
		{
			apdu_resp_t* r = (apdu_resp_t*)malloc(size);
			CHECK(btokSMRespUnwrap(r, &size, d, n, 0) == ERR_OK, "SMRespUnwrap probe/real mismatch");
			CHECK(apduRespIsValid(r), "SMRespUnwrap produced an invalid response");
			free(r); ++n_accept;
		}
		btokSMStart(st, key); btokSMCtrInc(st); if (data[0] & 2) btokSMCtrInc(st);
		(void)btokSMRespUnwrap(0, &size, d, n, st);
	}
	(void)sz;
	free(st); free(d);
	return 0;
}
#endif

#ifdef FZ_MAIN
/* exhaustive driver: every octet string of length 0..3 whose first octet is in [lo, hi) */
int main(int argc, char** argv)
{
	unsigned lo = argc > 1 ? (unsigned)atoi(argv[1]) : 0, hi = argc > 2 ? (unsigned)atoi(argv[2]) : 256, a, b, c;
	uint8_t buf[3]; unsigned long long cnt = 0;
	if (lo == 0) { LLVMFuzzerTestOneInput(buf, 0); ++cnt; }
	for (a = lo; a < hi; ++a)
	{
		buf[0] = (uint8_t)a; LLVMFuzzerTestOneInput(buf, 1); ++cnt;
		for (b = 0; b < 256; ++b)
		{
			buf[1] = (uint8_t)b; LLVMFuzzerTestOneInput(buf, 2); ++cnt;
			for (c = 0; c < 256; ++c) { buf[2] = (uint8_t)c; LLVMFuzzerTestOneInput(buf, 3); ++cnt; }
		}
	}
	printf("exhaustive %llu accepted %llu\n", cnt, n_accept);
	return 0;
}
#endif
