#!/usr/bin/env python3
"""print compact prototypes of a bee2 header: protos.py zz.h"""
import re,sys
for f in sys.argv[1:]:
    s=open(f,encoding='utf-8',errors='replace').read()
    s=re.sub(r'/\*.*?\*/','',s,flags=re.S)
    s=re.sub(r'//[^\n]*','',s)
    for m in re.finditer(r'^([a-zA-Z_][\w \*]*?)\s+\**(\w+)\(([^;{]*?)\);',s,flags=re.M):
        args=' '.join(m.group(3).split())
        print(m.group(1).strip(),m.group(2)+'('+args+')')
