#!/usr/bin/env python3
"""compact doc+proto dump: docs.py header [regex]"""
import re,sys
s=open(sys.argv[1],encoding='utf-8').read()
pat=sys.argv[2] if len(sys.argv)>2 else '.'
lim=int(sys.argv[3]) if len(sys.argv)>3 else 700
for m in re.finditer(r'/\*!(.*?)\*/\s*([^;]*?;)',s,flags=re.S):
    doc=m.group(1); proto=m.group(2)
    proto=re.sub(r'/\*.*?\*/','',proto,flags=re.S); proto=' '.join(proto.split())
    name=re.search(r'(\w+)\(',proto)
    if not name or not re.search(pat,name.group(1)): continue
    doc=' '.join(doc.split())
    print('##',proto[:200]); print('  ',doc[:lim])
