"""DSTU 4145-2002 signature over binary curves, polynomial basis (bee2: dstu.h) -- reference model.

Written from DSTU 4145-2002 (sections 5.8-5.10, 6.3-6.10, 9, 10.1, 11-13 as cited in dstu.h/dstu.c
comments) with plain affine arithmetic; GF(2)[x] arithmetic from gf2x.py (polynomials as ints).

Curve:  y^2 + x y = x^3 + A x^2 + B over GF(2^m) = GF(2)[x] / (p(x)),
        p(x) = x^p0 + x^p1 + x^p2 + x^p3 + 1 (pentanomial) or x^p0 + x^p1 + 1 (p2 = p3 = 0).

Encodings used by the library interface (dstu.h):
  * field element: no = ceil(m/8) octets, little-endian, bit i = coefficient of x^i;
  * point / pubkey: x || y, 2*no octets;    compressed point: no octets;
  * privkey: order_no = octet length of n, little-endian number;
  * hash: octet string read little-endian (bit i of the number -> coefficient of x^i, 5.9);
  * sig: ld/8 octets: r little-endian in the first ld/16 octets, s in the second ld/16 octets (5.10).
"""
import os, sys

sys.path.insert(0, os.path.dirname(os.path.abspath(__file__)))
import gf2x  # noqa


class Params:
    def __init__(self, name, p, A, B, n, c, P=None):
        self.name, self.p, self.A, self.B, self.n, self.c, self.P = name, tuple(p), A, B, n, c, P
        self.m = p[0]
        self.mod = 1
        for e in p:
            if e:
                self.mod |= 1 << e
        self.no = (self.m + 7) // 8
        self.order_nb = n.bit_length()
        self.order_no = (self.order_nb + 7) // 8

    def with_base(self, P):
        return Params(self.name, self.p, self.A, self.B, self.n, self.c, P)

    def __repr__(self):
        return "dstu.Params(%s, m=%d)" % (self.name, self.m)


_PFX = "1.2.804.2.1.1.1.1.3.1.1.1.2."
PARAMS = {}


def _add(i, p, A, B, n, c, P=None):
    PARAMS[_PFX + str(i)] = Params(_PFX + str(i), p, A, B, n, c, P)


# table G.2 (numbers from the tables of dstu.c read little-endian); base point of 163pb: appendix B
_add(0, (163, 7, 6, 3), 1,
     0x5FF6108462A2DC8210AB403925E638A19C1455D21,
     0x400000000000000000002BEC12BE2262D39BCF14D, 2,
     (0x72D867F93A93AC27DF9FF01AFFE74885C8C540420, 0x0224A9C3947852B97C5599D5F4AB81122ADC3FD9B))
_add(1, (167, 6, 0, 0), 1,
     0x6EE3CEEB230811759F20518A0930F1A4315A827DAC,
     0x3FFFFFFFFFFFFFFFFFFFFFB12EBCC7D7F29FF7701F, 2)
_add(2, (173, 10, 2, 1), 0,
     0x108576C80499DB2FC16EDDF6853BBB278F6B6FB437D9,
     0x800000000000000000000189B4E67606E3825BB2831, 4)
_add(3, (179, 4, 2, 1), 1,
     0x4A6E0856526436F2F88DD07A341E32D04184572BEB710,
     0x3FFFFFFFFFFFFFFFFFFFFFFB981960435FE5AB64236EF, 2)
_add(4, (191, 9, 0, 0), 1,
     0x7BC86E2102902EC4D5890E8B6B4981FF27E0482750FEFC03,
     0x40000000000000000000000069A779CAC1DABC6788F7474F, 2)
_add(5, (233, 9, 4, 1), 1,
     0x6973B15095675534C7CF7E64A21BD54EF5DD3B8A0326AA936ECE454D2C,
     0x1000000000000000000000000000013E974E72F8A6922031D2603CFE0D7, 2)
_add(6, (257, 12, 0, 0), 0,
     0x1CEF494720115657E18F938D7A7942394FF9425C1458C57861F9EEA6ADBE3BE10,
     0x800000000000000000000000000000006759213AF182E987D3E17714907D470D, 4)
_add(7, (307, 8, 4, 2), 1,
     0x393C7F7D53666B5054B5E6C6D3DE94F4296C0C599E2E2E241050DF18B6090BDC90186904968BB,
     0x3FFFFFFFFFFFFFFFFFFFFFFFFFFFFFFFFFFFFFFC079C2F3825DA70D390FBBA588D4604022B7B7, 2)
_add(8, (367, 21, 0, 0), 1,
     0x43FC8AD242B0B7A6F3D1627AD5654447556B47BF6AA4A64B0C2AFE42CADAB8F93D92394C79A79755437B56995136,
     0x40000000000000000000000000000000000000000000009C300B75A3FA824F22428FD28CE8812245EF44049B2D49, 2)
_add(9, (431, 5, 3, 1), 1,
     0x3CE10490F6A708FC26DFE8C3D27C4F94E690134D5BFF988D8D28AAEAEDE975936C66BAC536B18AE2DC312CA493117DAA469C640CAF3,
     0x3FFFFFFFFFFFFFFFFFFFFFFFFFFFFFFFFFFFFFFFFFFFFFFFFFFFFFBA3175458009A8C0A724F02F81AA8A1FCBAF80D90C7A95110504CF, 2)


# ----------------------------------------------------------------------------
# field GF(2^m)
# ----------------------------------------------------------------------------

def f_mul(prm, a, b):
    return gf2x.mulmod(a, b, prm.mod)


def f_sqr(prm, a):
    return gf2x.mulmod(a, a, prm.mod)


def f_inv(prm, a):
    """extended Euclid in GF(2)[x]: invariants g1 * a = u, g2 * a = v (mod p(x))"""
    assert a and not a >> prm.m
    u, v, g1, g2 = a, prm.mod, 1, 0
    while u != 1:
        j = gf2x.deg(u) - gf2x.deg(v)
        if j < 0:
            u, v, g1, g2, j = v, u, g2, g1, -j
        u ^= v << j
        g1 ^= g2 << j
    return gf2x.mod(g1, prm.mod)


def f_div(prm, a, b):
    return f_mul(prm, a, f_inv(prm, b))


def f_sqrt(prm, a):
    """a^(2^(m-1))"""
    for _ in range(prm.m - 1):
        a = f_sqr(prm, a)
    return a


def trace(prm, a):
    """tr(a) = a + a^2 + a^4 + ... + a^(2^(m-1)), equals 0 or 1"""
    t, s = a, a
    for _ in range(prm.m - 1):
        s = f_sqr(prm, s)
        t ^= s
    assert t in (0, 1)
    return t


def half_trace(prm, a):
    """htr(a) = sum_{i=0}^{(m-1)/2} a^(2^(2i)), m odd;  htr(a)^2 + htr(a) = a + tr(a)"""
    assert prm.m % 2 == 1
    t, s = a, a
    for _ in range((prm.m - 1) // 2):
        s = f_sqr(prm, f_sqr(prm, s))
        t ^= s
    return t


def qsolve(prm, u, w):
    """6.6: a solution z of z^2 + u z = w, or None when there is none"""
    if u == 0:
        return f_sqrt(prm, w)
    if w == 0:
        return 0
    v = f_mul(prm, w, f_inv(prm, f_sqr(prm, u)))
    if trace(prm, v) == 1:
        return None
    return f_mul(prm, half_trace(prm, v), u)


# ----------------------------------------------------------------------------
# curve, affine; None is the point at infinity
# ----------------------------------------------------------------------------

def on_curve(prm, pt):
    if pt is None:
        return True
    x, y = pt
    if x >> prm.m or y >> prm.m:
        return False
    x2 = f_sqr(prm, x)
    return f_sqr(prm, y) ^ f_mul(prm, x, y) == f_mul(prm, x2, x) ^ (x2 if prm.A else 0) ^ prm.B


def ec_neg(prm, pt):
    return None if pt is None else (pt[0], pt[0] ^ pt[1])


def ec_add(prm, P1, P2):
    if P1 is None:
        return P2
    if P2 is None:
        return P1
    x1, y1 = P1
    x2, y2 = P2
    if x1 == x2:
        if y1 != y2 or x1 == 0:          # P2 = -P1 (y2 = x1 + y1), or a point of order 2
            return None
        lam = x1 ^ f_div(prm, y1, x1)
        x3 = f_sqr(prm, lam) ^ lam ^ prm.A
        y3 = f_sqr(prm, x1) ^ f_mul(prm, lam ^ 1, x3)
        return (x3, y3)
    lam = f_div(prm, y1 ^ y2, x1 ^ x2)
    x3 = f_sqr(prm, lam) ^ lam ^ x1 ^ x2 ^ prm.A
    y3 = f_mul(prm, lam, x1 ^ x3) ^ x3 ^ y1
    return (x3, y3)


def ec_mul(prm, k, pt):
    R = None
    for bit in bin(k)[2:] if k else "":
        R = ec_add(prm, R, R)
        if bit == "1":
            R = ec_add(prm, R, pt)
    return R


# ----------------------------------------------------------------------------
# encodings
# ----------------------------------------------------------------------------

def felem_enc(prm, a):
    return a.to_bytes(prm.no, "little")


def point_enc(prm, pt):
    return felem_enc(prm, pt[0]) + felem_enc(prm, pt[1])


def point_dec(prm, octs):
    """-> (x, y) with both coordinates in the field, else None.  No curve check."""
    if isinstance(octs, tuple):
        x, y = octs
    else:
        if len(octs) != 2 * prm.no:
            return None
        x = int.from_bytes(octs[:prm.no], "little")
        y = int.from_bytes(octs[prm.no:], "little")
    if x >> prm.m or y >> prm.m:
        return None
    return (x, y)


def _le(v):
    return int.from_bytes(v, "little") if isinstance(v, (bytes, bytearray)) else int(v)


def hash_to_felem(prm, hash):
    """5.9: the low m bits of the hash code are the coefficients of h (shorter hashes are zero
    extended); 12/13 step: h = 0 -> h = 1"""
    h = int.from_bytes(hash, "little") & ((1 << prm.m) - 1)
    return h if h else 1


def felem_to_int(prm, y):
    """5.8: the integer made of the L(n) - 1 low coefficients of y"""
    return y & ((1 << (prm.order_nb - 1)) - 1)


class Tape:
    def __init__(self, data):
        self.data, self.pos = bytes(data), 0

    def take(self, n):
        if self.pos + n > len(self.data):
            raise EOFError("tape exhausted")
        r = self.data[self.pos:self.pos + n]
        self.pos += n
        return r


def _tape(t):
    return t if isinstance(t, Tape) else Tape(t)


def rand_felem(prm, tape):
    """6.4: random field element: no octets, bits above m dropped"""
    return int.from_bytes(tape.take(prm.no), "little") & ((1 << prm.m) - 1)


def rand_int(prm, tape):
    """6.3: random integer of L(n) - 1 bits (so that it is < n), zero rejected"""
    while True:
        v = int.from_bytes(tape.take(prm.order_no), "little") & ((1 << (prm.order_nb - 1)) - 1)
        if v:
            return v


# ----------------------------------------------------------------------------
# points: 6.7/6.8 generation, 10.1 validation, 6.9 compression, 6.10 recovery
# ----------------------------------------------------------------------------

def point_val(prm, pt):
    """10.1: pt is a point of the curve, pt != O and n pt = O"""
    pt = point_dec(prm, pt) if not isinstance(pt, tuple) else pt
    if pt is None or pt[0] >> prm.m or pt[1] >> prm.m or not on_curve(prm, pt):
        return False
    return ec_mul(prm, prm.n, pt) is None


def point_gen(prm, tape):
    """6.8 (with 6.7, 6.4, 6.6): random points (u, z), z a solution of z^2 + u z = u^3 + A u^2 + B,
    until one has order n.  -> point octets"""
    tape = _tape(tape)
    while True:
        u = rand_felem(prm, tape)
        u2 = f_sqr(prm, u)
        w = f_mul(prm, u2, u) ^ (u2 if prm.A else 0) ^ prm.B
        z = qsolve(prm, u, w)
        if z is None:
            continue
        if ec_mul(prm, prm.n, (u, z)) is None:
            return point_enc(prm, (u, z))


def point_compress(prm, pt):
    """6.9 -> no octets.  x = 0 -> 0; else x with the lowest bit replaced by tr(y / x)."""
    pt = point_dec(prm, pt)
    if pt is None:
        raise ValueError("coordinates not in the field")
    x, y = pt
    if x == 0:
        return felem_enc(prm, 0)
    i = trace(prm, f_div(prm, y, x))
    return felem_enc(prm, (x & ~1) | i)


def point_recover(prm, xpoint):
    """6.10 -> point octets, or None (not a field element / no point with this x)"""
    xp = _le(xpoint)
    if xp >> prm.m:
        return None
    if xp == 0:
        return point_enc(prm, (0, f_sqrt(prm, prm.B)))
    k = xp & 1
    x = xp & ~1
    if trace(prm, x) != prm.A:
        x |= 1
    # x != 0 here: x = 0 would mean xp = 1 with tr(0) = 0 = A -> x stays 0
    if x == 0:
        return None
    v = x ^ prm.A ^ f_div(prm, prm.B, f_sqr(prm, x))      # (x^3 + A x^2 + B) / x^2
    z = qsolve(prm, 1, v)
    if z is None:
        return None
    if trace(prm, z) != k:
        z ^= 1
    return point_enc(prm, (x, f_mul(prm, z, x)))


# ----------------------------------------------------------------------------
# keys (section 9): d random (6.3), Q = -d P
# ----------------------------------------------------------------------------

def privkey_enc(prm, d):
    return d.to_bytes(prm.order_no, "little")


def pubkey_calc(prm, d):
    d = _le(d)
    if not 0 < d < prm.n:
        raise ValueError("bad privkey")
    return point_enc(prm, ec_neg(prm, ec_mul(prm, d, prm.P)))


def keypair_from_tape(prm, tape):
    d = rand_int(prm, _tape(tape))
    return privkey_enc(prm, d), pubkey_calc(prm, d)


# ----------------------------------------------------------------------------
# signature
# ----------------------------------------------------------------------------

def ld_ok(prm, ld):
    """ld is a multiple of 16 and two residues mod n fit"""
    return ld % 16 == 0 and ld // 2 >= 8 * prm.order_no


def sig_enc(prm, ld, r, s):
    return r.to_bytes(ld // 16, "little") + s.to_bytes(ld // 16, "little")


def sign_e(prm, ld, hash, d, e):
    """one pass with the given ephemeral e; None when the standard restarts (x = 0, r = 0, s = 0)"""
    if not ld_ok(prm, ld):
        raise ValueError("bad ld")
    d = _le(d)
    if not 0 < d < prm.n:
        raise ValueError("bad privkey")
    h = hash_to_felem(prm, hash)
    F = ec_mul(prm, e, prm.P)
    if F is None or F[0] == 0:
        return None
    y = f_mul(prm, h, F[0])
    r = felem_to_int(prm, y)
    if r == 0:
        return None
    s = (e + d * r) % prm.n
    if s == 0:
        return None
    return sig_enc(prm, ld, r, s)


def sign(prm, ld, hash, d, tape):
    tape = _tape(tape)
    if not ld_ok(prm, ld):
        raise ValueError("bad ld")
    while True:
        e = rand_int(prm, tape)
        sig = sign_e(prm, ld, hash, d, e)
        if sig is not None:
            return sig


def verify(prm, ld, hash, sig, Q, check_pubkey=True):
    """-> True iff accepted.  check_pubkey: step 5 (10.1: Q on the curve, of order n)."""
    if not ld_ok(prm, ld) or len(sig) != ld // 8:
        return False
    Qp = point_dec(prm, Q)
    if Qp is None:
        return False
    if check_pubkey:
        if not point_val(prm, Qp):
            return False
    elif not on_curve(prm, Qp):
        return False
    h = hash_to_felem(prm, hash)
    r = int.from_bytes(sig[:ld // 16], "little")
    s = int.from_bytes(sig[ld // 16:], "little")
    if not (0 < r < prm.n and 0 < s < prm.n):
        return False
    R = ec_add(prm, ec_mul(prm, s, prm.P), ec_mul(prm, r, Qp))
    if R is None:
        return False
    y = f_mul(prm, h, R[0])
    return felem_to_int(prm, y) == r


# ----------------------------------------------------------------------------
# appendix B.1 as quoted in /repo/test/crypto/dstu_test.c
# ----------------------------------------------------------------------------

def _rev(h):
    return bytes.fromhex(h)[::-1]


def selftest():
    done = []
    for prm in PARAMS.values():
        assert gf2x.is_irred(prm.mod), prm
        assert prm.B and prm.n.bit_length() > 160
        # Hasse: |c n - (2^m + 1)| <= 2 sqrt(2^m)
        assert (prm.c * prm.n - (2 ** prm.m + 1)) ** 2 <= 4 * 2 ** prm.m, prm
        assert prm.c == (2 if prm.A == 1 else 4)
    done.append("10 parameter sets: p(x) irreducible, Hasse bound, cofactor")
    prm = PARAMS[_PFX + "0"]
    assert on_curve(prm, prm.P) and point_val(prm, prm.P)
    # B.1 keys
    t = _rev("0183F60FDF7951FF47D67193F8D073790C1C9B5A3E")
    assert len(t) == prm.order_no == 21
    priv, pub = keypair_from_tape(prm, t)
    assert priv == _rev("0183F60FDF7951FF47D67193F8D073790C1C9B5A3E")
    assert pub[:21] == _rev("057DE7FDE023FF929CB6AC785CE4B79CF64ABDC2DA")
    assert pub[21:] == _rev("03E85444324BCF06AD85ABF6AD7B5F34770532B9AA")
    # B.1 signature
    ld = 512
    hash = _rev("003A2EB95B7180166DDF73532EEB76EDAEF52247FF")
    et = _rev("01025E40BD97DB012B7A1D79DE8E12932D247F61C6")
    sig = sign(prm, ld, hash, priv, et)
    assert sig == _rev("000000000000000000000002100D86957331832B8E8C230F5BD6A332B3615ACA"
                       "00000000000000000000000274EA2C0CAA014A0D80A424F59ADE7A93068D08A7")
    assert verify(prm, ld, hash, sig, pub)
    assert not verify(prm, ld, hash, bytes([sig[0] ^ 1]) + sig[1:], pub)
    done.append("B.1 keypair, sign, verify")
    # compress / recover round trip on the appendix points
    for pt in (point_enc(prm, prm.P), pub):
        assert point_recover(prm, point_compress(prm, pt)) == pt
    assert point_recover(prm, bytes(prm.no)) == point_enc(prm, (0, f_sqrt(prm, prm.B)))
    assert on_curve(prm, (0, f_sqrt(prm, prm.B)))
    done.append("compress/recover round trip (no appendix vector)")
    done.append("SKIPPED: all other dstu_test.c steps draw their randomness from prngCOMBO with a time-based nonce (no vectors)")
    return done


if __name__ == "__main__":
    print("dstu selftest:", selftest())
