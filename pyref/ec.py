"""Elliptic curves in affine coordinates, written for obviousness.

Points are `None` (the point at infinity O) or `(x, y)` tuples of ints.

CurveP(p, a, b)        y^2 = x^3 + a x + b            over GF(p), p an odd prime > 3
Curve2(m, poly, a, b)  y^2 + x y = x^3 + a x^2 + b    over GF(2^m) = GF(2)[x] / poly

Only the textbook chord-and-tangent formulas are used; scalar multiplication is
plain double-and-add.  No projective coordinates, no windows, no tricks.
"""
import os
import sys

sys.path.insert(0, os.path.dirname(os.path.abspath(__file__)))
import gf2x  # noqa: E402


class CurveP:
    """y^2 = x^3 + a x + b over GF(p).  The discriminant is not checked here:
    `is_nonsingular()` tells whether 4a^3 + 27b^2 != 0."""

    def __init__(self, p, a, b):
        assert p > 3 and p % 2 == 1
        assert 0 <= a < p and 0 <= b < p
        self.p, self.a, self.b = p, a, b

    def is_nonsingular(self):
        return (4 * self.a ** 3 + 27 * self.b ** 2) % self.p != 0

    def is_on(self, P):
        """O is on the curve; (x, y) is on the curve iff 0 <= x, y < p and the equation holds."""
        if P is None:
            return True
        x, y = P
        if not (0 <= x < self.p and 0 <= y < self.p):
            return False
        return (y * y - (x * x * x + self.a * x + self.b)) % self.p == 0

    def neg(self, P):
        if P is None:
            return None
        x, y = P
        return (x, (-y) % self.p)

    def dbl(self, P):
        if P is None:
            return None
        x, y = P
        if y == 0:                      # point of order 2: vertical tangent
            return None
        p = self.p
        lam = (3 * x * x + self.a) * pow(2 * y, -1, p) % p
        x3 = (lam * lam - 2 * x) % p
        y3 = (lam * (x - x3) - y) % p
        return (x3, y3)

    def add(self, P, Q):
        if P is None:
            return Q
        if Q is None:
            return P
        x1, y1 = P
        x2, y2 = Q
        p = self.p
        if x1 == x2:
            if (y1 + y2) % p == 0:      # Q == -P (covers P == Q of order 2)
                return None
            return self.dbl(P)          # same x, y1 == y2 != 0
        lam = (y2 - y1) * pow(x2 - x1, -1, p) % p
        x3 = (lam * lam - x1 - x2) % p
        y3 = (lam * (x1 - x3) - y1) % p
        return (x3, y3)

    def sub(self, P, Q):
        return self.add(P, self.neg(Q))

    def mul(self, k, P):
        """k P for any integer k >= 0 (left-to-right double-and-add)."""
        assert k >= 0
        R = None
        for i in range(k.bit_length() - 1, -1, -1):
            R = self.dbl(R)
            if (k >> i) & 1:
                R = self.add(R, P)
        return R

    def points(self):
        """All affine points (small p only): brute force over x and y."""
        p = self.p
        sq = {}
        for y in range(p):
            sq.setdefault(y * y % p, []).append(y)
        out = []
        for x in range(p):
            for y in sq.get((x * x * x + self.a * x + self.b) % p, []):
                out.append((x, y))
        return out

    def order_of(self, P):
        """Smallest n >= 1 with n P = O (by repeated addition; small groups only)."""
        n, R = 1, P
        while R is not None:
            R = self.add(R, P)
            n += 1
        return n


class Curve2:
    """y^2 + x y = x^3 + a x^2 + b over GF(2^m); field elements are ints < 2^m
    (bit i = coefficient of x^i), reduced modulo the irreducible `poly` (bit m set)."""

    def __init__(self, m, poly, a, b):
        assert poly >> m == 1
        assert 0 <= a < (1 << m) and 0 <= b < (1 << m)
        self.m, self.poly, self.a, self.b = m, poly, a, b

    # field helpers
    def fmul(self, u, v):
        return gf2x.mulmod(u, v, self.poly)

    def finv(self, u):
        assert u != 0
        return gf2x.invmod(u, self.poly)

    def fdiv(self, u, v):
        return self.fmul(u, self.finv(v))

    def is_nonsingular(self):
        return self.b != 0

    def is_on(self, P):
        if P is None:
            return True
        x, y = P
        if not (0 <= x < (1 << self.m) and 0 <= y < (1 << self.m)):
            return False
        f = self.fmul
        lhs = f(y, y) ^ f(x, y)
        rhs = f(f(x, x), x) ^ f(self.a, f(x, x)) ^ self.b
        return lhs == rhs

    def neg(self, P):
        if P is None:
            return None
        x, y = P
        return (x, x ^ y)

    def dbl(self, P):
        if P is None:
            return None
        x, y = P
        if x == 0:                      # -P = (0, y) = P: order 2
            return None
        f = self.fmul
        lam = x ^ self.fdiv(y, x)
        x3 = f(lam, lam) ^ lam ^ self.a
        y3 = f(x, x) ^ f(lam ^ 1, x3)
        return (x3, y3)

    def add(self, P, Q):
        if P is None:
            return Q
        if Q is None:
            return P
        x1, y1 = P
        x2, y2 = Q
        if x1 == x2:
            if y2 == (x1 ^ y1):         # Q == -P (covers order 2)
                return None
            return self.dbl(P)
        f = self.fmul
        lam = self.fdiv(y1 ^ y2, x1 ^ x2)
        x3 = f(lam, lam) ^ lam ^ x1 ^ x2 ^ self.a
        y3 = f(lam, x1 ^ x3) ^ x3 ^ y1
        return (x3, y3)

    def sub(self, P, Q):
        return self.add(P, self.neg(Q))

    def mul(self, k, P):
        assert k >= 0
        R = None
        for i in range(k.bit_length() - 1, -1, -1):
            R = self.dbl(R)
            if (k >> i) & 1:
                R = self.add(R, P)
        return R

    def points(self):
        out = []
        n = 1 << self.m
        for x in range(n):
            for y in range(n):
                if self.is_on((x, y)):
                    out.append((x, y))
        return out

    def order_of(self, P):
        n, R = 1, P
        while R is not None:
            R = self.add(R, P)
            n += 1
        return n


def selftest():
    import random
    rnd = random.Random(7)

    def check_group(E, pts):
        allp = [None] + pts
        assert all(E.is_on(P) for P in allp)
        N = len(allp)
        # closure, commutativity, inverse, neutral element
        for P in allp:
            assert E.add(P, None) == P and E.add(None, P) == P
            assert E.add(P, E.neg(P)) is None
            assert E.dbl(P) == E.add(P, P)
            assert E.mul(N, P) is None            # Lagrange
            assert N % E.order_of(P) == 0
        for _ in range(120):
            P, Q, R = rnd.choice(allp), rnd.choice(allp), rnd.choice(allp)
            S = E.add(P, Q)
            assert E.is_on(S) and S == E.add(Q, P)
            assert E.add(S, R) == E.add(P, E.add(Q, R))      # associativity
            assert E.sub(S, Q) == P
            k = rnd.randrange(0, 3 * N)
            T = None
            for _i in range(k % N):
                T = E.add(T, P)
            assert E.mul(k, P) == T
        return N

    # small prime curves, including ones with points of order 2 (y == 0)
    for p in (5, 7, 11, 13, 23, 31):
        for a in range(p):
            for b in range(p):
                E = CurveP(p, a, b)
                if not E.is_nonsingular():
                    continue
                if rnd.random() < 0.08 or (a, b) in ((1, 0), (p - 1, 0)):
                    N = check_group(E, E.points())
                    assert abs(N - (p + 1)) <= 2 * p ** 0.5   # Hasse
    # the classical example y^2 = x^3 + 2x + 2 over GF(17): cyclic of order 19
    E = CurveP(17, 2, 2)
    assert len(E.points()) + 1 == 19 and E.order_of((5, 1)) == 19
    assert E.dbl((5, 1)) == (6, 3) and E.add((5, 1), (6, 3)) == (10, 6)
    # NIST P-256: n G = O, (n - 1) G = -G
    p = 2 ** 256 - 2 ** 224 + 2 ** 192 + 2 ** 96 - 1
    E = CurveP(p, p - 3, 0x5AC635D8AA3A93E7B3EBBD55769886BC651D06B0CC53B0F63BCE3C3E27D2604B)
    G = (0x6B17D1F2E12C4247F8BCE6E563A440F277037D812DEB33A0F4A13945D898C296,
         0x4FE342E2FE1A7F9B8EE7EB4A7C0F9E162BCE33576B315ECECBB6406837BF51F5)
    n = 0xFFFFFFFF00000000FFFFFFFFFFFFFFFFBCE6FAADA7179E84F3B9CAC2FC632551
    assert E.is_on(G) and E.mul(n, G) is None and E.mul(n - 1, G) == E.neg(G)
    assert E.mul(2, G) == (0x7CF27B188D034F7E8A52380304B51AC3C08969E277F21B35A60B48FC47669978,
                           0x07775510DB8ED040293D9AC69F7430DBBA7DADE63CE982299E04B79D227873D1)

    # small binary curves
    for m, poly in ((3, 0b1011), (4, 0b10011), (5, 0b100101)):
        for a in range(1 << m):
            for b in range(1, 1 << m):
                if rnd.random() < 0.05:
                    E = Curve2(m, poly, a, b)
                    N = check_group(E, E.points())
                    assert abs(N - ((1 << m) + 1)) <= 2 * (1 << m) ** 0.5
    # NIST B-163: n G = O
    E = Curve2(163, (1 << 163) | 0xC9, 1, 0x020A601907B8C953CA1481EB10512F78744A3205FD)
    G = (0x03F0EBA16286A2D57EA0991168D4994637E8343E36, 0x00D51FBC6C71A0094FA2CDD545B11C5C0C797324F1)
    n = 0x040000000000000000000292FE77E70C12A4234C33
    assert E.is_on(G) and E.mul(n, G) is None and E.mul(n + 1, G) == G
    return True


if __name__ == "__main__":
    print(selftest())
