"""Cross-check of the pure-Python models g12s / dstu / pfok / bels against the compiled bee2 library.
Run:  python3-vt /verif/pyref/xcheck_pk2.py [g12s] [dstu] [pfok] [bels] [--seed N] [--scale K]

Every disagreement is collected and printed at the end (nothing is absorbed)."""
import sys, os, random, itertools

sys.path.insert(0, '/verif/lib')
sys.path.insert(0, os.path.dirname(os.path.abspath(__file__)))
from x import X, GEN, Crash  # noqa

DIS = []       # disagreements
CNT = {}       # counters


def cnt(k, n=1):
    CNT[k] = CNT.get(k, 0) + n


def dis(fn, inp, lib, model, note=""):
    DIS.append((fn, inp, lib, model, note))
    if len([d for d in DIS if d[0] == fn]) <= 6:
        print("  DISAGREE %s\n    input: %s\n    lib:   %s\n    model: %s\n    %s" % (fn, inp, lib, model, note))


def crash(fn, inp, c, model):
    """library crash (sanitizer report / ASSERT) on an admissible input"""
    cnt(fn + '.CRASH')
    frames = [l for l in c.text.splitlines() if l.startswith('#')][:4]
    sig = (fn, c.kind, tuple(f.split(' in ')[-1] for f in frames))
    if sig in _SEEN:
        DIS.append((fn, inp, 'CRASH ' + c.kind, model, 'same signature as before'))
        return
    _SEEN.add(sig)
    dis(fn, inp, 'CRASH %s\n      %s' % (c.kind, c.text[:900].replace('\n', '\n      ')), model)


_SEEN = set()


def hx(b):
    return b.hex() if isinstance(b, (bytes, bytearray)) else repr(b)


def cstr(x, s):
    return x.buf(s.encode() + b"\0")


def flip(b, i):
    b = bytearray(b)
    b[i // 8] ^= 1 << (i % 8)
    return bytes(b)


# =============================================================================
# g12s
# =============================================================================

G12S_SIZEOF = 4 + 68 * 3 + 64 + 4 + 68 * 2      # 412, no padding (all members 1- or 4-aligned)


def g12s_load(x, name):
    prm = x.out(G12S_SIZEOF)
    assert x.call('g12sParamsStd', prm, cstr(x, name)) == 0
    return prm


def xcheck_g12s(x, rnd, scale):
    import g12s as M
    for name, P in M.PARAMS.items():
        x.reset()
        prm = g12s_load(x, name)
        raw = prm.read()
        # layout read-back
        assert int.from_bytes(raw[0:4], 'little') == P.l
        assert int.from_bytes(raw[4:72], 'little') == P.p
        assert int.from_bytes(raw[72:140], 'little') == P.a
        assert int.from_bytes(raw[140:208], 'little') == P.b
        assert int.from_bytes(raw[208:272], 'little') == P.q
        assert int.from_bytes(raw[272:276], 'little') == P.n
        assert int.from_bytes(raw[276:344], 'little') == P.P[0]
        assert int.from_bytes(raw[344:412], 'little') == P.P[1]
        assert x.call('g12sParamsVal', prm) == 0
        cnt('g12s.params')
        q, mo, no = P.q, P.mo, P.no
        ql = q.bit_length()
        qo = (ql + 7) // 8

        def draw_bad():
            """an octet string that zzRandNZMod must reject"""
            c = rnd.randrange(4)
            if c == 0:
                return bytes(qo)
            if c == 1:
                return q.to_bytes(qo, 'little')
            if c == 2 and (1 << ql) - 1 > q:
                return rnd.randrange(q, 1 << ql).to_bytes(qo, 'little')
            if ql % 8:
                # high bits beyond l set and the low l bits zero -> trimmed to 0
                return (1 << ql).to_bytes(qo, 'little')
            return bytes(qo)

        def tape_for(v, nbad=None):
            nbad = rnd.choice([0, 0, 1, 3]) if nbad is None else nbad
            extra = b""
            if ql % 8 and rnd.random() < 0.5:
                # bits above l in the accepted draw must be ignored
                extra = (v | (rnd.getrandbits(qo * 8 - ql) << ql)).to_bytes(qo, 'little')
            else:
                extra = v.to_bytes(qo, 'little')
            return b"".join(draw_bad() for _ in range(nbad)) + extra

        ds = [1, q - 1, 2, q - 2] + [rnd.randrange(1, q) for _ in range(3 * scale)]
        keys = []
        for d in ds:
            t = tape_for(d)
            priv, pub = x.out(mo), x.out(2 * no)
            err = x.call('g12sKeypairGen', priv, pub, prm, GEN, x.tape(t))
            m = M.keypair_from_tape(P, t)
            lib = (err, priv.read(), pub.read()) if err == 0 else (err,)
            if err != 0 or m is None or (priv.read(), pub.read()) != m:
                dis('g12sKeypairGen', "%s tape=%s" % (name, hx(t)), lib, m)
            cnt('g12s.keypair')
            keys.append((d, M.privkey_enc(P, d), M.pubkey_calc(P, d)))
        # generator failure: only rejected draws
        t = bytes(qo * 70)
        priv, pub = x.out(mo), x.out(2 * no)
        err = x.call('g12sKeypairGen', priv, pub, prm, GEN, x.tape(t, mode=1))
        if (err == 0) != (False):
            dis('g12sKeypairGen', name + " all-zero generator", err, None)
        try:
            M.keypair_from_tape(P, t)
            m = "value"
        except EOFError:
            m = "eof"
        # 65 draws of 0 -> model returns None before the 70-draw tape ends
        if M.keypair_from_tape(P, t) is not None:
            dis('g12sKeypairGen', name + " all-zero generator", err, "model did not fail")
        cnt('g12s.keypair')

        hashes = [bytes(mo), b"\xff" * mo, q.to_bytes(mo, 'big'), (q + 1).to_bytes(mo, 'big') if q + 1 < 1 << (8 * mo) else (q - 1).to_bytes(mo, 'big'),
                  (q - 1).to_bytes(mo, 'big'), (1).to_bytes(mo, 'big')]
        hashes += [rnd.randbytes(mo) for _ in range(2 * scale)]
        if 2 * q < 1 << (8 * mo):
            hashes.append((2 * q).to_bytes(mo, 'big'))
        sigs = []
        for (d, priv, pub) in keys:
            for h in hashes if d in (1, q - 1) else rnd.sample(hashes, 3):
                k = rnd.choice([1, q - 1, rnd.randrange(1, q), rnd.randrange(1, q)])
                t = tape_for(k) + tape_for(rnd.randrange(1, q), 0)      # spare draw: the standard may ask for a second k
                sig = x.out(2 * mo)
                try:
                    err = x.call('g12sSign', sig, prm, x.buf(h), x.buf(priv), GEN, x.tape(t))
                    lib = (err, sig.read().hex())
                except Crash as c:
                    lib = ('CRASH', c.kind, str(c)[:200])
                    x.reset(); prm = g12s_load(x, name)
                m = M.sign_from_tape(P, h, priv, t)
                if lib != (0, m.hex()):
                    dis('g12sSign', "%s hash=%s d=%s tape=%s" % (name, hx(h), hx(priv), hx(t)), lib, hx(m))
                cnt('g12s.sign')
                sigs.append((h, m, pub, d))

        # crafted s == 0: choose k, then d = -k e / r mod q
        for _ in range(2):
            h = rnd.choice(hashes)
            e = M.hash_to_e(P, h)
            while True:
                k = rnd.randrange(1, q)
                r = M.ec_mul(P, k, P.P)[0] % q
                if r:
                    break
            d = (-k * e * pow(r, -1, q)) % q
            k2 = rnd.randrange(1, q)
            t = k.to_bytes(qo, 'little') + k2.to_bytes(qo, 'little')
            sig = x.out(2 * mo)
            priv = M.privkey_enc(P, d)
            tp = x.tape(t)
            err = x.call('g12sSign', sig, prm, x.buf(h), x.buf(priv), GEN, tp)
            m = M.sign_from_tape(P, h, priv, t)
            lib = (err, sig.read().hex())
            if lib != (0, m.hex()):
                vr = x.call('g12sVerify', prm, x.buf(h), sig, x.buf(M.pubkey_calc(P, d)))
                dis('g12sSign', "%s hash=%s d=%s tape=%s (d chosen so that r*d + k*e = 0 mod q for the first k)" % (name, hx(h), hx(priv), hx(t)),
                    lib, hx(m),
                    "GOST 6.1 step 5: s = 0 -> back to step 3; library emits s = 0 (its own g12sVerify on that sig returns %d)" % vr)
            cnt('g12s.sign_s0')

        def both(h, sig, pub, what):
            try:
                err = x.call('g12sVerify', prm, x.buf(h), x.buf(sig), x.buf(pub))
            except Crash as c:
                err = ('CRASH', c.kind, str(c)[:300])
            m = M.verify(P, h, sig, pub)
            if (err == 0) != m or not isinstance(err, int):
                dis('g12sVerify', "%s %s hash=%s sig=%s pub=%s" % (name, what, hx(h), hx(sig), hx(pub)), err, m)
            cnt('g12s.verify')
            return err

        for (h, sig, pub, d) in sigs:
            if both(h, sig, pub, 'valid') != 0:
                dis('g12sVerify', 'valid signature rejected', '', '')
        for (h, sig, pub, d) in rnd.sample(sigs, min(len(sigs), 6 * scale)):
            for i in rnd.sample(range(16 * mo), 6) + [0, 16 * mo - 1, 8 * mo - 1, 8 * mo]:
                both(h, flip(sig, i), pub, 'sig bit %d' % i)
            for i in rnd.sample(range(16 * no), 6) + [0, 8 * no - 1, 8 * no, 16 * no - 1]:
                both(h, sig, flip(pub, i), 'pub bit %d' % i)
            for i in rnd.sample(range(8 * mo), 4) + [0, 8 * mo - 1]:
                both(flip(h, i), sig, pub, 'hash bit %d' % i)
            r, s = sig[:mo], sig[mo:]
            ri, si = int.from_bytes(r, 'big'), int.from_bytes(s, 'big')
            for (r2, s2, w) in [(0, si, 'r=0'), (ri, 0, 's=0'), (q, si, 'r=q'), (ri, q, 's=q'),
                                (ri + q, si, 'r+q'), (ri, si + q, 's+q'), (ri, q - si, 'q-s'), (q - ri, si, 'q-r')]:
                if r2 < 1 << (8 * mo) and s2 < 1 << (8 * mo):
                    both(h, r2.to_bytes(mo, 'big') + s2.to_bytes(mo, 'big'), pub, w)
            # hash + q denotes the same e
            hi = int.from_bytes(h, 'big')
            if hi + q < 1 << (8 * mo):
                both((hi + q).to_bytes(mo, 'big'), sig, pub, 'hash+q')
            if hi >= q:
                both((hi - q).to_bytes(mo, 'big'), sig, pub, 'hash-q')
            if hi % q == 0:
                both((1).to_bytes(mo, 'big'), sig, pub, 'hash 0 -> 1')
                both(bytes(mo), sig, pub, 'hash 0')
            # public key variants: -Q, x + p, (0, 0), other key
            Q = M.pubkey_dec(P, pub)
            both(h, sig, M.pubkey_enc(P, (Q[0], P.p - Q[1])), '-Q')
            if Q[0] + P.p < 1 << (8 * no):
                both(h, sig, (Q[0] + P.p).to_bytes(no, 'little') + Q[1].to_bytes(no, 'little'), 'xQ+p')
            if Q[1] + P.p < 1 << (8 * no):
                both(h, sig, Q[0].to_bytes(no, 'little') + (Q[1] + P.p).to_bytes(no, 'little'), 'yQ+p')
            both(h, sig, bytes(2 * no), 'Q=(0,0)')
            both(h, sig, rnd.choice(keys)[2], 'other Q')
        # R = O: z1 P + z2 Q = O  <=>  s = r d  (with e arbitrary): s v P - r v d P
        d, priv, pub = keys[-1]
        h = rnd.randbytes(mo)
        r = rnd.randrange(1, q)
        s = r * d % q
        both(h, M.sig_enc(P, r, s), pub, 'R=O')
    print("g12s done:", {k: v for k, v in CNT.items() if k.startswith('g12s')})


# =============================================================================
# bels
# =============================================================================

def xcheck_bels(x, rnd, scale):
    import bels as M
    import gf2x
    # standard keys
    for ln in M.LENS:
        for num in range(17):
            m = x.out(ln)
            err = x.call('belsStdM', m, ln, num)
            if err != 0 or m.read() != M.std_m(ln, num):
                dis('belsStdM', (ln, num), (err, m.read().hex()), M.std_m(ln, num).hex())
            cnt('bels.std')
        if x.call('belsStdM', x.out(ln), ln, 17) == 0:
            dis('belsStdM', (ln, 17), 0, 'error expected (num <= 16)')
    x.reset()

    def valm(m):
        mv = M.val_m(m)
        try:
            err = x.call('belsValM', x.buf(m), len(m))
        except Crash as c:
            crash('belsValM', 'm=%s' % hx(m), c, mv)
            return mv
        if (err == 0) != mv:
            dis('belsValM', hx(m), err, mv)
        cnt('bels.val')
        return mv

    pool = {ln: [] for ln in M.LENS}     # irreducible keys found on the way
    for ln in M.LENS:
        for _ in range(20 * scale):
            valm(rnd.randbytes(ln))
        valm(bytes(ln)); valm(b"\xff" * ln); valm(b"\x01" + bytes(ln - 1)); valm(b"\x03" + bytes(ln - 1))
        # products of two irreducibles of degree l/2 (reducible, no small factors)
        for _ in range(2):
            while True:
                a = rnd.getrandbits(4 * ln) | (1 << (4 * ln)) | 1
                if gf2x.is_irred(a):
                    break
            while True:
                b = rnd.getrandbits(4 * ln) | (1 << (4 * ln)) | 1
                if gf2x.is_irred(b):
                    break
            f = gf2x.mul(a, b)
            valm((f ^ (1 << (8 * ln))).to_bytes(ln, 'little'))
            f = gf2x.mul(a, a)
            valm((f ^ (1 << (8 * ln))).to_bytes(ln, 'little'))
    x.reset()
    # gen_m0
    for ln in M.LENS:
        for _ in range(2 * scale):
            t = rnd.randbytes(ln * 8 * ln * 12)
            try:
                mm = M.gen_m0(ln, M.Tape(t))
            except EOFError:
                continue
            tp = x.tape(t)
            m0 = x.out(ln)
            tm = M.Tape(t); M.gen_m0(ln, tm)
            try:
                err = x.call('belsGenM0', m0, ln, GEN, tp)
            except Crash as c:
                crash('belsGenM0', 'len=%d tape=random(seeded, %d octets)' % (ln, len(t)), c, (hx(mm), tm.pos))
                pool[ln].append(mm)
                continue
            pos = int.from_bytes(tp.read(0, 8), 'little')
            if err != 0 or m0.read() != mm or pos != tm.pos:
                dis('belsGenM0', 'len=%d tape=random(%d)' % (ln, len(t)), (err, m0.read().hex(), pos), (hx(mm), tm.pos))
            cnt('bels.genm0')
            pool[ln].append(mm)
            x.reset()
    # gen_mi
    for ln in M.LENS:
        l = 8 * ln
        for m0 in [M.std_m(ln, 0)] + pool[ln][:2]:
            f0 = (1 << l) | int.from_bytes(m0, 'little')
            special = [0, 1, 2, 3, 4, gf2x.powmod(2, 1 << (l // 2), f0) ^ 2]      # last: x^(2^(l/2)) + x lies in the subfield of degree l/2
            # an element of the subfield GF(2^(l/2)) etc: u^(2^(l/2)) = u
            tapes = []
            for _ in range(4 * scale):
                tapes.append(rnd.randbytes(3 * ln))
            for sp in itertools.product(special, repeat=2):
                if rnd.random() < 0.25:
                    tapes.append(b"".join(v.to_bytes(ln, 'little') for v in sp) + rnd.randbytes(ln))
            tapes.append(b"".join(v.to_bytes(ln, 'little') for v in (0, 1, 2)))
            tapes.append(b"".join(v.to_bytes(ln, 'little') for v in (2, 2, 2)))
            tapes.append(b"".join(v.to_bytes(ln, 'little') for v in (special[5], 1, 0)))
            for t in tapes:
                tp = x.tape(t)
                mi = x.out(ln)
                try:
                    err = x.call('belsGenMi', mi, ln, x.buf(m0), GEN, tp)
                    lib = (err, mi.read().hex() if err == 0 else None, int.from_bytes(tp.read(0, 8), 'little'))
                except Crash as c:
                    lib = ('CRASH', c.kind, str(c)[:300])
                tm = M.Tape(t)
                mm = M.gen_mi(ln, m0, tm)
                mod = (0 if mm is not None else 'error', hx(mm) if mm else None, tm.pos)
                if lib[1:] != mod[1:] or (lib[0] == 0) != (mm is not None):
                    dis('belsGenMi', 'len=%d m0=%s tape=%s' % (ln, hx(m0), hx(t)), lib, mod)
                cnt('bels.genmi')
                if mm is not None and len(pool[ln]) < 12 and mm not in pool[ln]:
                    valm(mm)
                    pool[ln].append(mm)
            x.reset()
    # gen_mid
    try:
        import belt
        belt.hash
        have_belt = True
    except Exception:
        have_belt = False
        print("  bels: belt.hash unavailable, gen_mid cross-check skipped")
    if have_belt:
        for ln in M.LENS:
            for m0 in [M.std_m(ln, 0)] + pool[ln][:1]:
                for _ in range(8 * scale):
                    idl = rnd.choice([0, 1, 5, 31, 32, 33, rnd.randrange(200)])
                    id = rnd.randbytes(idl)
                    mid = x.out(ln)
                    err = x.call('belsGenMid', mid, ln, x.buf(m0), x.buf(id), idl)
                    mm = M.gen_mid(ln, m0, id)
                    if (err, mid.read()) != (0, mm):
                        dis('belsGenMid', 'len=%d m0=%s id=%s' % (ln, hx(m0), hx(id)), (err, mid.read().hex()), hx(mm))
                    cnt('bels.genmid')
                    if mm and mm not in pool[ln]:
                        pool[ln].append(mm)
                x.reset()
    # share / recover
    for ln in M.LENS:
        for keyset in ('std', 'gen'):
            if keyset == 'std':
                m0 = M.std_m(ln, 0)
                users = [M.std_m(ln, i) for i in range(1, 17)]
            else:
                ks = [k for k in pool[ln]]
                rnd.shuffle(ks)
                if len(ks) < 6:
                    print("  bels: not enough generated keys for len", ln, len(ks))
                    continue
                m0, users = ks[0], ks[1:]
            for count in range(1, 6):
                for threshold in range(1, count + 1):
                    mi = rnd.sample(users, count)
                    sec = rnd.choice([rnd.randbytes(ln), bytes(ln), b"\xff" * ln])
                    k = rnd.choice([rnd.randbytes((threshold - 1) * ln), bytes((threshold - 1) * ln), b"\xff" * ((threshold - 1) * ln)])
                    si = x.out(count * ln)
                    tp = x.tape(k + b"\xAA" * 8)
                    err = x.call('belsShare', si, count, threshold, ln, x.buf(sec), x.buf(m0), x.buf(b"".join(mi)), GEN, tp)
                    pos = int.from_bytes(tp.read(0, 8), 'little')
                    sh = M.share(sec, count, threshold, m0, mi, k)
                    if err != 0 or si.read() != b"".join(sh) or pos != len(k):
                        dis('belsShare', 'len=%d n=%d t=%d s=%s m0=%s mi=%s k=%s' % (ln, count, threshold, hx(sec), hx(m0), [hx(m) for m in mi], hx(k)),
                            (err, si.read().hex(), pos), ([hx(s) for s in sh], len(k)))
                    cnt('bels.share')
                    # recover: every subset size, random subsets and orders
                    for size in range(1, count + 1):
                        for _ in range(2):
                            idx = rnd.sample(range(count), size)
                            ssub = [sh[i] for i in idx]
                            msub = [mi[i] for i in idx]
                            out = x.out(ln)
                            try:
                                err = x.call('belsRecover', out, size, ln, x.buf(b"".join(ssub)), x.buf(m0), x.buf(b"".join(msub)))
                                lib = (err, out.read().hex())
                            except Crash as c:
                                lib = ('CRASH', c.kind, str(c)[:300])
                            mr = M.recover(ssub, ln, m0, msub)
                            if lib != (0, mr.hex()):
                                dis('belsRecover', 'len=%d size=%d si=%s m0=%s mi=%s' % (ln, size, [hx(s) for s in ssub], hx(m0), [hx(m) for m in msub]), lib, hx(mr))
                            if size >= threshold and mr != sec:
                                dis('bels.model', 'recover(>= threshold) != secret', '', hx(mr))
                            cnt('bels.recover')
                    x.reset()
            # repeated / non-coprime user keys
            for size in (2, 3, 4):
                msub = rnd.sample(users, size - 1)
                msub.insert(rnd.randrange(size), rnd.choice(msub))
                ssub = [rnd.randbytes(ln) for _ in range(size)]
                out = x.out(ln)
                try:
                    err = x.call('belsRecover', out, size, ln, x.buf(b"".join(ssub)), x.buf(m0), x.buf(b"".join(msub)))
                except Crash as c:
                    err = ('CRASH', c.kind, str(c)[:300])
                mr = M.recover(ssub, ln, m0, msub)
                if (err == 0) != (mr is not None) or not isinstance(err, int):
                    dis('belsRecover', 'repeated key len=%d size=%d mi=%s' % (ln, size, [hx(m) for m in msub]), err, mr)
                cnt('bels.recover_bad')
            # random share values (not produced by share): recover is a plain CRT on any input
            for size in (1, 2, 3, 5):
                msub = rnd.sample(users, size)
                ssub = [rnd.choice([rnd.randbytes(ln), b"\xff" * ln, bytes(ln)]) for _ in range(size)]
                out = x.out(ln)
                err = x.call('belsRecover', out, size, ln, x.buf(b"".join(ssub)), x.buf(m0), x.buf(b"".join(msub)))
                mr = M.recover(ssub, ln, m0, msub)
                if (err, out.read()) != (0, mr):
                    dis('belsRecover', 'arbitrary shares len=%d si=%s mi=%s' % (ln, [hx(s) for s in ssub], [hx(m) for m in msub]), (err, out.read().hex()), hx(mr))
                cnt('bels.recover')
            x.reset()
        # share2 / recover2 / share3
        for count in range(1, 6):
            for threshold in range(1, count + 1):
                sec = rnd.randbytes(ln)
                k = rnd.randbytes((threshold - 1) * ln)
                si = x.out(count * (ln + 1))
                err = x.call('belsShare2', si, count, threshold, ln, x.buf(sec), GEN, x.tape(k))
                sh = M.share2(sec, count, threshold, k)
                if (err, si.read()) != (0, b"".join(sh)):
                    dis('belsShare2', 'len=%d n=%d t=%d s=%s k=%s' % (ln, count, threshold, hx(sec), hx(k)), (err, si.read().hex()), [hx(s) for s in sh])
                cnt('bels.share2')
                for size in range(1, count + 1):
                    sub = rnd.sample(sh, size)
                    out = x.out(ln)
                    err = x.call('belsRecover2', out, size, ln, x.buf(b"".join(sub)))
                    mr = M.recover2(sub, ln)
                    if (err, out.read()) != (0, mr):
                        dis('belsRecover2', 'len=%d si=%s' % (ln, [hx(s) for s in sub]), (err, out.read().hex()), hx(mr))
                    cnt('bels.recover2')
                # share3 (deterministic k, experimental): only recoverability through the model
                si3 = x.out(count * (ln + 1))
                err = x.call('belsShare3', si3, count, threshold, ln, x.buf(sec))
                raw = si3.read()
                sh3 = [raw[i * (ln + 1):(i + 1) * (ln + 1)] for i in range(count)]
                sub = rnd.sample(sh3, threshold)
                if err != 0 or M.recover2(sub, ln) != sec:
                    dis('belsShare3', 'len=%d n=%d t=%d s=%s' % (ln, count, threshold, hx(sec)), (err, raw.hex()), 'model recover2 of threshold shares: %s' % hx(M.recover2(sub, ln)))
                cnt('bels.share3')
            x.reset()
        # recover2 with bad numbers
        for nums in ([0], [17], [1, 1], [2, 3, 2], [16, 1]):
            sub = [bytes([n]) + rnd.randbytes(ln) for n in nums]
            out = x.out(ln)
            err = x.call('belsRecover2', out, len(sub), ln, x.buf(b"".join(sub)))
            mr = M.recover2(sub, ln)
            if (err == 0) != (mr is not None) or (mr is not None and out.read() != mr):
                dis('belsRecover2', 'len=%d numbers=%s' % (ln, nums), err, hx(mr))
            cnt('bels.recover2')
        x.reset()
    print("bels done:", {k: v for k, v in CNT.items() if k.startswith('bels')})


# =============================================================================

def main():
    args = sys.argv[1:]
    seed, scale = 1, 1
    if '--seed' in args:
        seed = int(args[args.index('--seed') + 1])
    if '--scale' in args:
        scale = int(args[args.index('--scale') + 1])
    which = [a for a in args if a in ('g12s', 'dstu', 'pfok', 'bels')] or ['g12s', 'bels', 'dstu', 'pfok']
    rnd = random.Random(seed)
    x = X('asan')
    for w in which:
        fn = globals().get('xcheck_' + w)
        if fn is None:
            print(w, "not implemented")
            continue
        try:
            fn(x, rnd, scale)
        except Crash as c:
            dis(w, "uncaught crash", "CRASH %s %s" % (c.kind, str(c)[:600]), "n/a")
            x.reset()
    print("\ncounts:", CNT)
    print("disagreements: %d" % len(DIS))
    by = {}
    for d in DIS:
        by.setdefault(d[0], []).append(d)
    for k, v in by.items():
        print("  %s: %d" % (k, len(v)))
    return 0


if __name__ == '__main__':
    main()
