"""Cross-check of the pure-Python models g12s / dstu / pfok / bels against the compiled bee2 library.
Run:  python3-vt /verif/pyref/xcheck_pk2.py [g12s] [dstu] [pfok] [bels] [--seed N] [--scale K]

Every disagreement is collected and printed at the end (nothing is absorbed)."""
import sys, os, random, itertools

sys.path.insert(0, '/verif/lib')
sys.path.insert(0, os.path.dirname(os.path.abspath(__file__)))
from x import X, GEN, Crash  # noqa

DIS = []       # disagreements
CNT = {}       # counters


def cnt(k, n=1):
    CNT[k] = CNT.get(k, 0) + n


def dis(fn, inp, lib, model, note=""):
    DIS.append((fn, inp, lib, model, note))
    if len([d for d in DIS if d[0] == fn]) <= 6:
        print("  DISAGREE %s\n    input: %s\n    lib:   %s\n    model: %s\n    %s" % (fn, inp, lib, model, note))


def crash(fn, inp, c, model):
    """library crash (sanitizer report / ASSERT) on an admissible input"""
    cnt(fn + '.CRASH')
    frames = [l for l in c.text.splitlines() if l.startswith('#')][:4]
    sig = (fn, c.kind, tuple(f.split(' in ')[-1] for f in frames))
    if sig in _SEEN:
        DIS.append((fn, inp, 'CRASH ' + c.kind, model, 'same signature as before'))
        return
    _SEEN.add(sig)
    dis(fn, inp, 'CRASH %s\n      %s' % (c.kind, c.text[:900].replace('\n', '\n      ')), model)


_SEEN = set()


def hx(b):
    return b.hex() if isinstance(b, (bytes, bytearray)) else repr(b)


def cstr(x, s):
    return x.buf(s.encode() + b"\0")


def flip(b, i):
    b = bytearray(b)
    b[i // 8] ^= 1 << (i % 8)
    return bytes(b)


# =============================================================================
# g12s
# =============================================================================

G12S_SIZEOF = 4 + 68 * 3 + 64 + 4 + 68 * 2      # 412, no padding (all members 1- or 4-aligned)


def g12s_load(x, name):
    prm = x.out(G12S_SIZEOF)
    assert x.call('g12sParamsStd', prm, cstr(x, name)) == 0
    return prm


def xcheck_g12s(x, rnd, scale):
    import g12s as M
    for name, P in M.PARAMS.items():
        x.reset()
        prm = g12s_load(x, name)
        raw = prm.read()
        # layout read-back
        assert int.from_bytes(raw[0:4], 'little') == P.l
        assert int.from_bytes(raw[4:72], 'little') == P.p
        assert int.from_bytes(raw[72:140], 'little') == P.a
        assert int.from_bytes(raw[140:208], 'little') == P.b
        assert int.from_bytes(raw[208:272], 'little') == P.q
        assert int.from_bytes(raw[272:276], 'little') == P.n
        assert int.from_bytes(raw[276:344], 'little') == P.P[0]
        assert int.from_bytes(raw[344:412], 'little') == P.P[1]
        assert x.call('g12sParamsVal', prm) == 0
        cnt('g12s.params')
        q, mo, no = P.q, P.mo, P.no
        ql = q.bit_length()
        qo = (ql + 7) // 8

        def draw_bad():
            """an octet string that zzRandNZMod must reject"""
            c = rnd.randrange(4)
            if c == 0:
                return bytes(qo)
            if c == 1:
                return q.to_bytes(qo, 'little')
            if c == 2 and (1 << ql) - 1 > q:
                return rnd.randrange(q, 1 << ql).to_bytes(qo, 'little')
            if ql % 8:
                # high bits beyond l set and the low l bits zero -> trimmed to 0
                return (1 << ql).to_bytes(qo, 'little')
            return bytes(qo)

        def tape_for(v, nbad=None):
            nbad = rnd.choice([0, 0, 1, 3]) if nbad is None else nbad
            extra = b""
            if ql % 8 and rnd.random() < 0.5:
                # bits above l in the accepted draw must be ignored
                extra = (v | (rnd.getrandbits(qo * 8 - ql) << ql)).to_bytes(qo, 'little')
            else:
                extra = v.to_bytes(qo, 'little')
            return b"".join(draw_bad() for _ in range(nbad)) + extra

        ds = [1, q - 1, 2, q - 2] + [rnd.randrange(1, q) for _ in range(3 * scale)]
        keys = []
        for d in ds:
            t = tape_for(d)
            priv, pub = x.out(mo), x.out(2 * no)
            err = x.call('g12sKeypairGen', priv, pub, prm, GEN, x.tape(t))
            m = M.keypair_from_tape(P, t)
            lib = (err, priv.read(), pub.read()) if err == 0 else (err,)
            if err != 0 or m is None or (priv.read(), pub.read()) != m:
                dis('g12sKeypairGen', "%s tape=%s" % (name, hx(t)), lib, m)
            cnt('g12s.keypair')
            keys.append((d, M.privkey_enc(P, d), M.pubkey_calc(P, d)))
        # generator failure: only rejected draws (zeros): both must give up, after the same number of draws
        t = bytes(qo * 70)
        priv, pub = x.out(mo), x.out(2 * no)
        tp = x.tape(t, mode=1)
        err = x.call('g12sKeypairGen', priv, pub, prm, GEN, tp)
        pos = int.from_bytes(tp.read(0, 8), 'little')
        tm = M.Tape(t)
        m = M.keypair_from_tape(P, tm)
        if err == 0 or m is not None or pos != tm.pos:
            dis('g12sKeypairGen', name + " all-zero generator", (err, pos), (m, tm.pos))
        cnt('g12s.keypair')

        hashes = [bytes(mo), b"\xff" * mo, q.to_bytes(mo, 'big'), (q + 1).to_bytes(mo, 'big') if q + 1 < 1 << (8 * mo) else (q - 1).to_bytes(mo, 'big'),
                  (q - 1).to_bytes(mo, 'big'), (1).to_bytes(mo, 'big')]
        hashes += [rnd.randbytes(mo) for _ in range(2 * scale)]
        if 2 * q < 1 << (8 * mo):
            hashes.append((2 * q).to_bytes(mo, 'big'))
        sigs = []
        for (d, priv, pub) in keys:
            for h in hashes if d in (1, q - 1) else rnd.sample(hashes, 3):
                k = rnd.choice([1, q - 1, rnd.randrange(1, q), rnd.randrange(1, q)])
                t = tape_for(k) + tape_for(rnd.randrange(1, q), 0)      # spare draw: the standard may ask for a second k
                sig = x.out(2 * mo)
                try:
                    err = x.call('g12sSign', sig, prm, x.buf(h), x.buf(priv), GEN, x.tape(t))
                    lib = (err, sig.read().hex())
                except Crash as c:
                    lib = ('CRASH', c.kind, str(c)[:200])
                    x.reset(); prm = g12s_load(x, name)
                m = M.sign_from_tape(P, h, priv, t)
                if lib != (0, m.hex()):
                    dis('g12sSign', "%s hash=%s d=%s tape=%s" % (name, hx(h), hx(priv), hx(t)), lib, hx(m))
                cnt('g12s.sign')
                sigs.append((h, m, pub, d))

        # crafted s == 0: choose k, then d = -k e / r mod q
        for _ in range(2):
            h = rnd.choice(hashes)
            e = M.hash_to_e(P, h)
            while True:
                k = rnd.randrange(1, q)
                r = M.ec_mul(P, k, P.P)[0] % q
                if r:
                    break
            d = (-k * e * pow(r, -1, q)) % q
            k2 = rnd.randrange(1, q)
            t = k.to_bytes(qo, 'little') + k2.to_bytes(qo, 'little')
            sig = x.out(2 * mo)
            priv = M.privkey_enc(P, d)
            tp = x.tape(t)
            err = x.call('g12sSign', sig, prm, x.buf(h), x.buf(priv), GEN, tp)
            m = M.sign_from_tape(P, h, priv, t)
            lib = (err, sig.read().hex())
            if lib != (0, m.hex()):
                vr = x.call('g12sVerify', prm, x.buf(h), sig, x.buf(M.pubkey_calc(P, d)))
                dis('g12sSign', "%s hash=%s d=%s tape=%s (d chosen so that r*d + k*e = 0 mod q for the first k)" % (name, hx(h), hx(priv), hx(t)),
                    lib, hx(m),
                    "GOST 6.1 step 5: s = 0 -> back to step 3; library emits s = 0 (its own g12sVerify on that sig returns %d)" % vr)
            cnt('g12s.sign_s0')

        def both(h, sig, pub, what):
            try:
                err = x.call('g12sVerify', prm, x.buf(h), x.buf(sig), x.buf(pub))
            except Crash as c:
                err = ('CRASH', c.kind, str(c)[:300])
            m = M.verify(P, h, sig, pub)
            if (err == 0) != m or not isinstance(err, int):
                dis('g12sVerify', "%s %s hash=%s sig=%s pub=%s" % (name, what, hx(h), hx(sig), hx(pub)), err, m)
            cnt('g12s.verify')
            return err

        for (h, sig, pub, d) in sigs:
            if both(h, sig, pub, 'valid') != 0:
                dis('g12sVerify', 'valid signature rejected', '', '')
        for (h, sig, pub, d) in rnd.sample(sigs, min(len(sigs), 6 * scale)):
            for i in rnd.sample(range(16 * mo), 6) + [0, 16 * mo - 1, 8 * mo - 1, 8 * mo]:
                both(h, flip(sig, i), pub, 'sig bit %d' % i)
            for i in rnd.sample(range(16 * no), 6) + [0, 8 * no - 1, 8 * no, 16 * no - 1]:
                both(h, sig, flip(pub, i), 'pub bit %d' % i)
            for i in rnd.sample(range(8 * mo), 4) + [0, 8 * mo - 1]:
                both(flip(h, i), sig, pub, 'hash bit %d' % i)
            r, s = sig[:mo], sig[mo:]
            ri, si = int.from_bytes(r, 'big'), int.from_bytes(s, 'big')
            for (r2, s2, w) in [(0, si, 'r=0'), (ri, 0, 's=0'), (q, si, 'r=q'), (ri, q, 's=q'),
                                (ri + q, si, 'r+q'), (ri, si + q, 's+q'), (ri, q - si, 'q-s'), (q - ri, si, 'q-r')]:
                if r2 < 1 << (8 * mo) and s2 < 1 << (8 * mo):
                    both(h, r2.to_bytes(mo, 'big') + s2.to_bytes(mo, 'big'), pub, w)
            # hash + q denotes the same e
            hi = int.from_bytes(h, 'big')
            if hi + q < 1 << (8 * mo):
                both((hi + q).to_bytes(mo, 'big'), sig, pub, 'hash+q')
            if hi >= q:
                both((hi - q).to_bytes(mo, 'big'), sig, pub, 'hash-q')
            if hi % q == 0:
                both((1).to_bytes(mo, 'big'), sig, pub, 'hash 0 -> 1')
                both(bytes(mo), sig, pub, 'hash 0')
            # public key variants: -Q, x + p, (0, 0), other key
            Q = M.pubkey_dec(P, pub)
            both(h, sig, M.pubkey_enc(P, (Q[0], P.p - Q[1])), '-Q')
            if Q[0] + P.p < 1 << (8 * no):
                both(h, sig, (Q[0] + P.p).to_bytes(no, 'little') + Q[1].to_bytes(no, 'little'), 'xQ+p')
            if Q[1] + P.p < 1 << (8 * no):
                both(h, sig, Q[0].to_bytes(no, 'little') + (Q[1] + P.p).to_bytes(no, 'little'), 'yQ+p')
            both(h, sig, bytes(2 * no), 'Q=(0,0)')
            both(h, sig, rnd.choice(keys)[2], 'other Q')
        # forgery for the invalid "public key" (0, 0) (not a point of the curve): r = x((s / e) P) mod q
        h = rnd.randbytes(mo)
        e = M.hash_to_e(P, h)
        t = rnd.randrange(1, q)
        r = M.ec_mul(P, t, P.P)[0] % q
        if r:
            both(h, M.sig_enc(P, r, t * e % q), bytes(2 * no), 'forged for pubkey (0,0), which is not on the curve')
        # R = O: z1 P + z2 Q = O  <=>  s = r d  (with e arbitrary): s v P - r v d P
        d, priv, pub = keys[-1]
        h = rnd.randbytes(mo)
        r = rnd.randrange(1, q)
        s = r * d % q
        both(h, M.sig_enc(P, r, s), pub, 'R=O')
    print("g12s done:", {k: v for k, v in CNT.items() if k.startswith('g12s')})


# =============================================================================
# bels
# =============================================================================

def xcheck_bels(x, rnd, scale):
    import bels as M
    import gf2x
    # standard keys
    for ln in M.LENS:
        for num in range(17):
            m = x.out(ln)
            err = x.call('belsStdM', m, ln, num)
            if err != 0 or m.read() != M.std_m(ln, num):
                dis('belsStdM', (ln, num), (err, m.read().hex()), M.std_m(ln, num).hex())
            cnt('bels.std')
        if x.call('belsStdM', x.out(ln), ln, 17) == 0:
            dis('belsStdM', (ln, 17), 0, 'error expected (num <= 16)')
    x.reset()

    def valm(m):
        mv = M.val_m(m)
        try:
            err = x.call('belsValM', x.buf(m), len(m))
        except Crash as c:
            crash('belsValM', 'm=%s' % hx(m), c, mv)
            return mv
        if (err == 0) != mv:
            dis('belsValM', hx(m), err, mv)
        cnt('bels.val')
        return mv

    pool = {ln: [] for ln in M.LENS}     # irreducible keys found on the way
    for ln in M.LENS:
        for _ in range(20 * scale):
            valm(rnd.randbytes(ln))
        valm(bytes(ln)); valm(b"\xff" * ln); valm(b"\x01" + bytes(ln - 1)); valm(b"\x03" + bytes(ln - 1))
        # products of two irreducibles of degree l/2 (reducible, no small factors)
        for _ in range(2):
            while True:
                a = rnd.getrandbits(4 * ln) | (1 << (4 * ln)) | 1
                if gf2x.is_irred(a):
                    break
            while True:
                b = rnd.getrandbits(4 * ln) | (1 << (4 * ln)) | 1
                if gf2x.is_irred(b):
                    break
            f = gf2x.mul(a, b)
            valm((f ^ (1 << (8 * ln))).to_bytes(ln, 'little'))
            f = gf2x.mul(a, a)
            valm((f ^ (1 << (8 * ln))).to_bytes(ln, 'little'))
    x.reset()
    # gen_m0
    for ln in M.LENS:
        for _ in range(2 * scale):
            t = rnd.randbytes(ln * 8 * ln * 12)
            try:
                mm = M.gen_m0(ln, M.Tape(t))
            except EOFError:
                continue
            tp = x.tape(t)
            m0 = x.out(ln)
            tm = M.Tape(t); M.gen_m0(ln, tm)
            try:
                err = x.call('belsGenM0', m0, ln, GEN, tp)
            except Crash as c:
                crash('belsGenM0', 'len=%d tape=random(seeded, %d octets)' % (ln, len(t)), c, (hx(mm), tm.pos))
                pool[ln].append(mm)
                continue
            pos = int.from_bytes(tp.read(0, 8), 'little')
            if err != 0 or m0.read() != mm or pos != tm.pos:
                dis('belsGenM0', 'len=%d tape=random(%d)' % (ln, len(t)), (err, m0.read().hex(), pos), (hx(mm), tm.pos))
            cnt('bels.genm0')
            pool[ln].append(mm)
            x.reset()
    # gen_mi
    for ln in M.LENS:
        l = 8 * ln
        for m0 in [M.std_m(ln, 0)] + pool[ln][:2]:
            f0 = (1 << l) | int.from_bytes(m0, 'little')
            special = [0, 1, 2, 3, 4, gf2x.powmod(2, 1 << (l // 2), f0) ^ 2]      # last: x^(2^(l/2)) + x lies in the subfield of degree l/2
            # an element of the subfield GF(2^(l/2)) etc: u^(2^(l/2)) = u
            tapes = []
            for _ in range(4 * scale):
                tapes.append(rnd.randbytes(3 * ln))
            for sp in itertools.product(special, repeat=2):
                if rnd.random() < 0.25:
                    tapes.append(b"".join(v.to_bytes(ln, 'little') for v in sp) + rnd.randbytes(ln))
            tapes.append(b"".join(v.to_bytes(ln, 'little') for v in (0, 1, 2)))
            tapes.append(b"".join(v.to_bytes(ln, 'little') for v in (2, 2, 2)))
            tapes.append(b"".join(v.to_bytes(ln, 'little') for v in (special[5], 1, 0)))
            for t in tapes:
                tp = x.tape(t)
                mi = x.out(ln)
                try:
                    err = x.call('belsGenMi', mi, ln, x.buf(m0), GEN, tp)
                    lib = (err, mi.read().hex() if err == 0 else None, int.from_bytes(tp.read(0, 8), 'little'))
                except Crash as c:
                    lib = ('CRASH', c.kind, str(c)[:300])
                tm = M.Tape(t)
                mm = M.gen_mi(ln, m0, tm)
                mod = (0 if mm is not None else 'error', hx(mm) if mm else None, tm.pos)
                if lib[1:] != mod[1:] or (lib[0] == 0) != (mm is not None):
                    dis('belsGenMi', 'len=%d m0=%s tape=%s' % (ln, hx(m0), hx(t)), lib, mod)
                cnt('bels.genmi')
                if mm is not None and len(pool[ln]) < 12 and mm not in pool[ln]:
                    valm(mm)
                    pool[ln].append(mm)
            x.reset()
    # gen_mid
    try:
        import belt
        belt.hash
        have_belt = True
    except Exception:
        have_belt = False
        print("  bels: belt.hash unavailable, gen_mid cross-check skipped")
    if have_belt:
        for ln in M.LENS:
            for m0 in [M.std_m(ln, 0)] + pool[ln][:1]:
                for _ in range(8 * scale):
                    idl = rnd.choice([0, 1, 5, 31, 32, 33, rnd.randrange(200)])
                    id = rnd.randbytes(idl)
                    mid = x.out(ln)
                    err = x.call('belsGenMid', mid, ln, x.buf(m0), x.buf(id), idl)
                    mm = M.gen_mid(ln, m0, id)
                    if (err, mid.read()) != (0, mm):
                        dis('belsGenMid', 'len=%d m0=%s id=%s' % (ln, hx(m0), hx(id)), (err, mid.read().hex()), hx(mm))
                    cnt('bels.genmid')
                    if mm and mm not in pool[ln]:
                        pool[ln].append(mm)
                x.reset()
    # share / recover
    for ln in M.LENS:
        for keyset in ('std', 'gen'):
            if keyset == 'std':
                m0 = M.std_m(ln, 0)
                users = [M.std_m(ln, i) for i in range(1, 17)]
            else:
                ks = [k for k in pool[ln]]
                rnd.shuffle(ks)
                if len(ks) < 6:
                    print("  bels: not enough generated keys for len", ln, len(ks))
                    continue
                m0, users = ks[0], ks[1:]
            for count in range(1, 6):
                for threshold in range(1, count + 1):
                    mi = rnd.sample(users, count)
                    sec = rnd.choice([rnd.randbytes(ln), bytes(ln), b"\xff" * ln])
                    k = rnd.choice([rnd.randbytes((threshold - 1) * ln), bytes((threshold - 1) * ln), b"\xff" * ((threshold - 1) * ln)])
                    si = x.out(count * ln)
                    tp = x.tape(k + b"\xAA" * 8)
                    err = x.call('belsShare', si, count, threshold, ln, x.buf(sec), x.buf(m0), x.buf(b"".join(mi)), GEN, tp)
                    pos = int.from_bytes(tp.read(0, 8), 'little')
                    sh = M.share(sec, count, threshold, m0, mi, k)
                    if err != 0 or si.read() != b"".join(sh) or pos != len(k):
                        dis('belsShare', 'len=%d n=%d t=%d s=%s m0=%s mi=%s k=%s' % (ln, count, threshold, hx(sec), hx(m0), [hx(m) for m in mi], hx(k)),
                            (err, si.read().hex(), pos), ([hx(s) for s in sh], len(k)))
                    cnt('bels.share')
                    # recover: every subset size, random subsets and orders
                    for size in range(1, count + 1):
                        for _ in range(2):
                            idx = rnd.sample(range(count), size)
                            ssub = [sh[i] for i in idx]
                            msub = [mi[i] for i in idx]
                            out = x.out(ln)
                            try:
                                err = x.call('belsRecover', out, size, ln, x.buf(b"".join(ssub)), x.buf(m0), x.buf(b"".join(msub)))
                                lib = (err, out.read().hex())
                            except Crash as c:
                                lib = ('CRASH', c.kind, str(c)[:300])
                            mr = M.recover(ssub, ln, m0, msub)
                            if lib != (0, mr.hex()):
                                dis('belsRecover', 'len=%d size=%d si=%s m0=%s mi=%s' % (ln, size, [hx(s) for s in ssub], hx(m0), [hx(m) for m in msub]), lib, hx(mr))
                            if size >= threshold and mr != sec:
                                dis('bels.model', 'recover(>= threshold) != secret', '', hx(mr))
                            cnt('bels.recover')
                    x.reset()
            # repeated / non-coprime user keys
            for size in (2, 3, 4):
                msub = rnd.sample(users, size - 1)
                msub.insert(rnd.randrange(size), rnd.choice(msub))
                ssub = [rnd.randbytes(ln) for _ in range(size)]
                out = x.out(ln)
                try:
                    err = x.call('belsRecover', out, size, ln, x.buf(b"".join(ssub)), x.buf(m0), x.buf(b"".join(msub)))
                except Crash as c:
                    err = ('CRASH', c.kind, str(c)[:300])
                mr = M.recover(ssub, ln, m0, msub)
                if (err == 0) != (mr is not None) or not isinstance(err, int):
                    dis('belsRecover', 'repeated key len=%d size=%d mi=%s' % (ln, size, [hx(m) for m in msub]), err, mr)
                cnt('bels.recover_bad')
            # random share values (not produced by share): recover is a plain CRT on any input
            for size in (1, 2, 3, 5):
                msub = rnd.sample(users, size)
                ssub = [rnd.choice([rnd.randbytes(ln), b"\xff" * ln, bytes(ln)]) for _ in range(size)]
                out = x.out(ln)
                err = x.call('belsRecover', out, size, ln, x.buf(b"".join(ssub)), x.buf(m0), x.buf(b"".join(msub)))
                mr = M.recover(ssub, ln, m0, msub)
                if (err, out.read()) != (0, mr):
                    dis('belsRecover', 'arbitrary shares len=%d si=%s mi=%s' % (ln, [hx(s) for s in ssub], [hx(m) for m in msub]), (err, out.read().hex()), hx(mr))
                cnt('bels.recover')
            x.reset()
        # share2 / recover2 / share3
        for count in range(1, 6):
            for threshold in range(1, count + 1):
                sec = rnd.randbytes(ln)
                k = rnd.randbytes((threshold - 1) * ln)
                si = x.out(count * (ln + 1))
                err = x.call('belsShare2', si, count, threshold, ln, x.buf(sec), GEN, x.tape(k))
                sh = M.share2(sec, count, threshold, k)
                if (err, si.read()) != (0, b"".join(sh)):
                    dis('belsShare2', 'len=%d n=%d t=%d s=%s k=%s' % (ln, count, threshold, hx(sec), hx(k)), (err, si.read().hex()), [hx(s) for s in sh])
                cnt('bels.share2')
                for size in range(1, count + 1):
                    sub = rnd.sample(sh, size)
                    out = x.out(ln)
                    err = x.call('belsRecover2', out, size, ln, x.buf(b"".join(sub)))
                    mr = M.recover2(sub, ln)
                    if (err, out.read()) != (0, mr):
                        dis('belsRecover2', 'len=%d si=%s' % (ln, [hx(s) for s in sub]), (err, out.read().hex()), hx(mr))
                    cnt('bels.recover2')
                # share3 (deterministic k, experimental): only recoverability through the model
                si3 = x.out(count * (ln + 1))
                err = x.call('belsShare3', si3, count, threshold, ln, x.buf(sec))
                raw = si3.read()
                sh3 = [raw[i * (ln + 1):(i + 1) * (ln + 1)] for i in range(count)]
                sub = rnd.sample(sh3, threshold)
                if err != 0 or M.recover2(sub, ln) != sec:
                    dis('belsShare3', 'len=%d n=%d t=%d s=%s' % (ln, count, threshold, hx(sec)), (err, raw.hex()), 'model recover2 of threshold shares: %s' % hx(M.recover2(sub, ln)))
                cnt('bels.share3')
            x.reset()
        # recover2 with bad numbers
        for nums in ([0], [17], [1, 1], [2, 3, 2], [16, 1]):
            sub = [bytes([n]) + rnd.randbytes(ln) for n in nums]
            out = x.out(ln)
            err = x.call('belsRecover2', out, len(sub), ln, x.buf(b"".join(sub)))
            mr = M.recover2(sub, ln)
            if (err == 0) != (mr is not None) or (mr is not None and out.read() != mr):
                dis('belsRecover2', 'len=%d numbers=%s' % (ln, nums), err, hx(mr))
            cnt('bels.recover2')
        x.reset()
    print("bels done:", {k: v for k, v in CNT.items() if k.startswith('bels')})


# =============================================================================
# dstu
# =============================================================================

DSTU_SIZEOF = 272      # u16 p[4] @0, A @8, B[64] @9, n[64] @73, (3 pad) u32 c @140, P[128] @144
DSTU_OFF_P = 144


def xcheck_dstu(x, rnd, scale):
    import dstu as M
    for name, P0 in M.PARAMS.items():
        x.reset()
        hold = {'gen': -1, 'buf': None, 'P': None}

        def getprm():
            """parameter buffer; recreated after an executor restart (crash)"""
            if hold['gen'] != x.restarts:
                b = x.out(DSTU_SIZEOF)
                assert x.call('dstuParamsStd', b, cstr(x, name)) == 0
                if hold['P'] is not None:
                    b.write(hold['P'], DSTU_OFF_P)
                hold['gen'], hold['buf'] = x.restarts, b
            return hold['buf']

        raw = getprm().read()
        assert tuple(int.from_bytes(raw[2 * i:2 * i + 2], 'little') for i in range(4)) == P0.p
        assert raw[8] == P0.A
        assert int.from_bytes(raw[9:73], 'little') == P0.B
        assert int.from_bytes(raw[73:137], 'little') == P0.n
        assert int.from_bytes(raw[140:144], 'little') == P0.c
        m, no, n = P0.m, P0.no, P0.n
        ono, onb = P0.order_no, P0.order_nb
        big = m > 260
        cnt('dstu.params')

        # ---- base point: dstuPointGen against 6.8
        ngen = 2 if not big else 1
        base = None
        for it in range(ngen):
            t = rnd.randbytes(no * 40)
            if it == 0:
                # start with rejected candidates: x = 0 (order 2 point), then bits above m set
                t = bytes(no) + t
            tp = x.tape(t)
            pt = x.buf(b"\xCC" * (2 * no))
            tm = M.Tape(t)
            try:
                mp = M.point_gen(P0, tm)
            except EOFError:
                continue
            try:
                err = x.call('dstuPointGen', pt, getprm(), GEN, tp)
                lib = (err, pt.read().hex(), int.from_bytes(tp.read(0, 8), 'little'))
            except Crash as c:
                crash('dstuPointGen', '%s tape=%s' % (name, hx(t[:4 * no]) + '...'), c, hx(mp))
                lib = None
            if lib is not None and lib != (0, mp.hex(), tm.pos):
                dis('dstuPointGen', '%s tape=%s...' % (name, hx(t[:6 * no])), lib, (mp.hex(), tm.pos),
                    'model: 6.6 solution z = htr(w/u^2) * u')
            cnt('dstu.pointgen')
            base = mp
        if P0.P is not None:
            # appendix base point stays for the first curve; also use a generated one for half of the work
            lp = raw[DSTU_OFF_P:DSTU_OFF_P + 2 * no]
            assert lp == M.point_enc(P0, P0.P)
            P = P0
        else:
            P = P0.with_base(M.point_dec(P0, base))
            hold['P'] = base
            getprm().write(base, DSTU_OFF_P)
        err = x.call('dstuParamsVal', getprm())
        if err != 0:
            dis('dstuParamsVal', name + ' with model-generated base point', err, 'valid')
        cnt('dstu.paramsval')
        sqrtB = M.f_sqrt(P, P.B)
        T2 = (0, sqrtB)                                   # the point of order 2

        def rand_point(sub=None):
            """random curve point; sub=True: in the subgroup of order n, sub=False: not"""
            while True:
                u = rnd.getrandbits(m)
                u2 = M.f_sqr(P, u)
                z = M.qsolve(P, u, M.f_mul(P, u2, u) ^ (u2 if P.A else 0) ^ P.B)
                if z is None or u == 0:
                    continue
                if rnd.random() < 0.5:
                    z ^= u
                if sub is None or (M.trace(P, u) == P.A) == sub:
                    return (u, z)

        # ---- dstuPointVal
        pts = [('base', P.P), ('T2', T2), ('(0,0)', (0, 0)), ('sub', rand_point(True)), ('nonsub', rand_point(False)),
               ('base+T2', M.ec_add(P, P.P, T2))]
        q = rand_point(True)
        pts.append(('offcurve', (q[0], q[1] ^ 1)))
        pts.append(('x>=2^m', (q[0] | (1 << m), q[1])) if 8 * no > m else ('sub2', rand_point(True)))
        pts.append(('y>=2^m', (q[0], q[1] | (1 << (8 * no - 1)))) if 8 * no > m else ('sub3', rand_point(True)))
        for (w, pt) in pts:
            enc = pt[0].to_bytes(no, 'little') + pt[1].to_bytes(no, 'little')
            try:
                err = x.call('dstuPointVal', getprm(), x.buf(enc))
            except Crash as c:
                crash('dstuPointVal', '%s %s %s' % (name, w, hx(enc)), c, M.point_val(P, enc))
                continue
            mv = M.point_val(P, enc)
            if (err == 0) != mv:
                dis('dstuPointVal', '%s %s point=%s' % (name, w, hx(enc)), err, mv)
            cnt('dstu.pointval')

        # ---- compress / recover
        cps = [('base', P.P), ('T2 (x=0)', T2), ('(0,0)', (0, 0))]
        cps += [('sub', rand_point(True)) for _ in range(3 * scale)] + [('nonsub', rand_point(False)) for _ in range(2 * scale)]
        cps += [('-sub', M.ec_neg(P, rand_point(True)))]
        for (w, pt) in cps:
            enc = M.point_enc(P, pt)
            xp = x.buf(b"\xCC" * no)
            try:
                err = x.call('dstuPointCompress', xp, getprm(), x.buf(enc))
                lib = (err, xp.read().hex())
            except Crash as c:
                crash('dstuPointCompress', '%s %s %s' % (name, w, hx(enc)), c, hx(M.point_compress(P, enc)))
                continue
            mc = M.point_compress(P, enc)
            if lib != (0, mc.hex()):
                dis('dstuPointCompress', '%s %s point=%s (xpoint buffer prefilled with CC)' % (name, w, hx(enc)), lib, hx(mc),
                    '6.9: x = 0 -> compressed point is 0' if pt[0] == 0 else '')
            cnt('dstu.compress')
            # recover from the model's compressed form
            out = x.buf(b"\xCC" * (2 * no))
            try:
                err = x.call('dstuPointRecover', out, getprm(), x.buf(mc))
                lib = (err, out.read().hex())
            except Crash as c:
                crash('dstuPointRecover', '%s %s xpoint=%s' % (name, w, hx(mc)), c, hx(M.point_recover(P, mc)))
                continue
            mr = M.point_recover(P, mc)
            if (lib[0] == 0) != (mr is not None) or (mr is not None and lib[1] != mr.hex()):
                dis('dstuPointRecover', '%s %s xpoint=%s (point buffer prefilled with CC)' % (name, w, hx(mc)), lib, hx(mr),
                    '6.10: xpoint = 0 -> (0, sqrt(B))' if pt[0] == 0 else '')
            if w in ('base', 'sub', '-sub') and mr != enc:
                dis('dstu.model', 'round trip failed ' + hx(enc), '', hx(mr))
            cnt('dstu.recover')
        xps = [1, 2, 3, (1 << m) - 1, 1 << (m - 1)] + [rnd.getrandbits(m) for _ in range(4 * scale)]
        if 8 * no > m:
            xps += [1 << m, (1 << (8 * no)) - 1, P.P[0] | (1 << m)]
        for xpv in xps:
            xpb = xpv.to_bytes(no, 'little')
            out = x.buf(b"\xCC" * (2 * no))
            try:
                err = x.call('dstuPointRecover', out, getprm(), x.buf(xpb))
                lib = (err, out.read().hex())
            except Crash as c:
                crash('dstuPointRecover', '%s xpoint=%s' % (name, hx(xpb)), c, hx(M.point_recover(P, xpb)))
                continue
            mr = M.point_recover(P, xpb)
            if (lib[0] == 0) != (mr is not None) or (mr is not None and lib[1] != mr.hex()):
                dis('dstuPointRecover', '%s xpoint=%s' % (name, hx(xpb)), lib, hx(mr))
            cnt('dstu.recover')

        # ---- keys
        hi = (1 << (onb - 1)) - 1
        keys = []
        for d in [1, hi, 2] + [rnd.randrange(1, hi + 1) for _ in range(1 * scale)]:
            pre = bytes(ono) if rnd.random() < 0.5 else b""
            if rnd.random() < 0.5 and 8 * ono > onb - 1:
                pre += (1 << (onb - 1)).to_bytes(ono, 'little')         # trimmed to 0 -> rejected
            top = rnd.getrandbits(8 * ono - (onb - 1)) << (onb - 1)
            t = pre + (d | top).to_bytes(ono, 'little')
            priv, pub = x.out(ono), x.out(2 * no)
            tp = x.tape(t)
            try:
                err = x.call('dstuKeypairGen', priv, pub, getprm(), GEN, tp)
                lib = (err, priv.read().hex(), pub.read().hex(), int.from_bytes(tp.read(0, 8), 'little'))
            except Crash as c:
                crash('dstuKeypairGen', '%s tape=%s' % (name, hx(t)), c, None)
                lib = None
            mk = M.keypair_from_tape(P, t)
            if lib is not None and lib != (0, mk[0].hex(), mk[1].hex(), len(t)):
                dis('dstuKeypairGen', '%s tape=%s' % (name, hx(t)), lib, (mk[0].hex(), mk[1].hex(), len(t)))
            cnt('dstu.keypair')
            keys.append((d, mk[0], mk[1]))
        keys.append((n - 1, M.privkey_enc(P, n - 1), M.pubkey_calc(P, n - 1)))       # not reachable by 6.3, admissible for sign

        # ---- sign
        lds = [16 * ono, 16 * ono + 16, 512 if 512 >= 16 * ono else 16 * ono + 32, 1024]
        hashes = [bytes(32), b"\xff" * 32, b"\xff" * 64, b"", b"\x00", bytes(no), rnd.randbytes(no), rnd.randbytes(no - 1), rnd.randbytes(no + 1),
                  rnd.randbytes(32), rnd.randbytes(64), rnd.randbytes(20), bytes(no - 1) + b"\x80" if 8 * no > m else rnd.randbytes(5)]
        sigs = []
        nsign = (8 if not big else 4) * scale
        for i in range(nsign):
            d, priv, pub = keys[i % len(keys)]
            h = hashes[i] if i < len(hashes) and not big else rnd.choice(hashes)
            ld = rnd.choice(lds)
            e = rnd.choice([1, hi, rnd.randrange(1, hi + 1), rnd.randrange(1, hi + 1)])
            t = (bytes(ono) if rnd.random() < 0.3 else b"") + e.to_bytes(ono, 'little') + rnd.randrange(1, hi + 1).to_bytes(ono, 'little')
            sig = x.out(ld // 8)
            try:
                err = x.call('dstuSign', sig, getprm(), ld, x.buf(h), len(h), x.buf(priv), GEN, x.tape(t))
                lib = (err, sig.read().hex())
            except Crash as c:
                crash('dstuSign', '%s ld=%d hash=%s d=%s tape=%s' % (name, ld, hx(h), hx(priv), hx(t)), c, None)
                lib = None
            ms = M.sign(P, ld, h, priv, t)
            if lib is not None and lib != (0, ms.hex()):
                dis('dstuSign', '%s ld=%d hash=%s d=%s tape=%s' % (name, ld, hx(h), hx(priv), hx(t)), lib, hx(ms))
            cnt('dstu.sign')
            sigs.append((ld, h, ms, pub, d))
        # bad ld / bad privkey
        d, priv, pub = keys[0]
        for ld in (16 * ono - 16, 16 * ono + 8, 16 * ono + 1, 0):
            sig = x.out(max(ld // 8, 1) + 8)
            try:
                err = x.call('dstuSign', sig, getprm(), ld, x.buf(bytes(32)), 32, x.buf(priv), GEN, x.tape(rnd.randbytes(4 * ono)))
            except Crash as c:
                crash('dstuSign', '%s bad ld=%d' % (name, ld), c, 'error')
                continue
            if err == 0:
                dis('dstuSign', '%s ld=%d' % (name, ld), err, 'ERR_BAD_INPUT expected (ld %% 16 == 0, ld >= 16 * order_no)')
            cnt('dstu.sign_bad')
        for dbad in (0, n, n + 1, (1 << (8 * ono)) - 1):
            if dbad >> (8 * ono):
                continue
            sig = x.out(2 * ono)
            try:
                err = x.call('dstuSign', sig, getprm(), 16 * ono, x.buf(bytes(32)), 32, x.buf(dbad.to_bytes(ono, 'little')), GEN, x.tape(rnd.randbytes(4 * ono)))
                lib = (err, sig.read().hex())
            except Crash as c:
                crash('dstuSign', '%s privkey=%s (not in 1..n-1)' % (name, hx(dbad.to_bytes(ono, 'little'))), c, 'ERR_BAD_PRIVKEY')
                continue
            if err == 0:
                dis('dstuSign', '%s privkey=%s (d = %s)' % (name, hx(dbad.to_bytes(ono, 'little')), 'n + %d' % (dbad - n) if dbad >= n else '0'), lib,
                    'ERR_BAD_PRIVKEY expected by dstu.h (0 < d < n)')
            cnt('dstu.sign_bad')

        # ---- verify
        def both(ld, h, sig, pub, what):
            try:
                err = x.call('dstuVerify', getprm(), ld, x.buf(h), len(h), x.buf(sig), x.buf(pub))
            except Crash as c:
                crash('dstuVerify', '%s %s ld=%d hash=%s sig=%s pub=%s' % (name, what, ld, hx(h), hx(sig), hx(pub)), c, M.verify(P, ld, h, sig, pub))
                return None
            mv = M.verify(P, ld, h, sig, pub)
            if (err == 0) != mv:
                dis('dstuVerify', '%s %s ld=%d hash=%s sig=%s pub=%s' % (name, what, ld, hx(h), hx(sig), hx(pub)), err, mv)
            cnt('dstu.verify')
            return err

        for (ld, h, sig, pub, d) in sigs:
            both(ld, h, sig, pub, 'valid')
        nalt = (4 if not big else 2) * scale
        for (ld, h, sig, pub, d) in rnd.sample(sigs, min(len(sigs), nalt)):
            half = ld // 16
            bits = rnd.sample(range(8 * ono), 2) + [0, 8 * half + 1]
            if half > ono:
                bits += [8 * ono, 8 * half - 1, 8 * (half + ono), 16 * half - 1]       # padding octets must stay zero
            for i in bits:
                both(ld, h, flip(sig, i), pub, 'sig bit %d' % i)
            for i in rnd.sample(range(16 * no), 3) + [0, 8 * no]:
                both(ld, h, sig, flip(pub, i), 'pub bit %d' % i)
            if len(h):
                for i in [0, rnd.randrange(8 * len(h)), 8 * len(h) - 1]:
                    both(ld, flip(h, i), sig, pub, 'hash bit %d (len %d)' % (i, len(h)))
            r = int.from_bytes(sig[:half], 'little'); s = int.from_bytes(sig[half:], 'little')
            for (r2, s2, w) in [(0, s, 'r=0'), (r, 0, 's=0'), (n, s, 'r=n'), (r, n, 's=n'), (r + n, s, 'r+n'), (r, s + n, 's+n')]:
                if not r2 >> (8 * half) and not s2 >> (8 * half):
                    both(ld, h, r2.to_bytes(half, 'little') + s2.to_bytes(half, 'little'), pub, w)
            # same h from a longer / truncated hash
            hv = int.from_bytes(h, 'little')
            if len(h) >= no:
                both(ld, (hv & ((1 << m) - 1)).to_bytes(no, 'little'), sig, pub, 'hash truncated to m bits')
                both(ld, h + b"\xA5", sig, pub, 'hash extended')
            else:
                both(ld, h + bytes(no + 3 - len(h)), sig, pub, 'hash zero-extended')
            if hv & ((1 << m) - 1) == 0:
                both(ld, b"\x01", sig, pub, 'hash 0 -> 1')
            Q = M.point_dec(P, pub)
            both(ld, h, sig, M.point_enc(P, M.ec_neg(P, Q)), '-Q')
            both(ld, h, sig, bytes(2 * no), 'Q=(0,0)')
            both(ld, h, sig, M.point_enc(P, T2), 'Q=T2 (order 2)')
            both(ld, h, sig, M.point_enc(P, M.ec_add(P, Q, T2)), 'Q+T2 (order 2n)')
            both(ld, h, sig, rnd.choice(keys)[2], 'other Q')
            # different ld for the same r, s
            ld2 = rnd.choice([l for l in lds if l != ld])
            both(ld2, h, M.sig_enc(P, ld2, r, s), pub, 'same (r,s) other ld')
            both(ld2, h, (sig + bytes(128))[:ld2 // 8], pub, 'sig bytes reinterpreted with other ld')
        # forgery for the invalid key Q = T2 (order 2, on the curve): R = sP + (r odd ? T2 : O)
        ld = lds[0]
        h = rnd.randbytes(32)
        hf = M.hash_to_felem(P, h)
        found = None
        for _ in range(12):
            s = rnd.randrange(1, n)
            sP = M.ec_mul(P, s, P.P)
            for R in (sP, M.ec_add(P, sP, T2)):
                r = M.felem_to_int(P, M.f_mul(P, hf, R[0]))
                if 0 < r < n and (r & 1) == (R != sP):
                    found = (r, s)
            if found:
                break
        if found:
            err = both(ld, h, M.sig_enc(P, ld, *found), M.point_enc(P, T2), 'forged for Q = (0, sqrt(B)) of order 2')
        # R = O: s P + r Q = O with Q = -dP  <=>  s = r d
        d, priv, pub = keys[-2]
        r = rnd.randrange(1, 1 << (onb - 1))
        both(lds[0], h, M.sig_enc(P, lds[0], r, r * d % n), pub, 'R=O')
    print("dstu done:", {k: v for k, v in CNT.items() if k.startswith('dstu')})


# =============================================================================
# pfok
# =============================================================================

PFOK_SIZEOF = 3 * 8 + 368 * 2      # size_t l, r, n; octet p[368], g[368]


def xcheck_pfok(x, rnd, scale):
    import pfok as M
    for name, P in M.PARAMS.items():
        x.reset()
        hold = {'gen': -1, 'buf': None}

        def getprm():
            if hold['gen'] != x.restarts:
                b = x.out(PFOK_SIZEOF)
                assert x.call('pfokParamsStd', b, None, cstr(x, name)) == 0
                hold['gen'], hold['buf'] = x.restarts, b
            return hold['buf']

        raw = getprm().read()
        assert int.from_bytes(raw[0:8], 'little') == P.l
        assert int.from_bytes(raw[8:16], 'little') == P.r
        assert int.from_bytes(raw[16:24], 'little') == P.n
        assert int.from_bytes(raw[24:392], 'little') == P.p
        assert int.from_bytes(raw[392:760], 'little') == P.g
        err = x.call('pfokParamsVal', getprm())
        if (err == 0) != M.params_val(P):
            dis('pfokParamsVal', name, err, M.params_val(P))
        cnt('pfok.params')
        lo, ro, no, r, p = P.lo, P.ro, P.no, P.r, P.p
        # g variations for ParamsVal
        for gv in [1, p - 1, M.mont_unit(P), (p - M.mont_unit(P)) % p, P.g + 1, P.g + 2, M.mont_mul(P, P.g, P.g), rnd.randrange(1, p), 0, p]:
            b = x.buf(raw)
            b.write((gv % (1 << (8 * 368))).to_bytes(368, 'little'), 392)
            try:
                err = x.call('pfokParamsVal', b)
            except Crash as c:
                crash('pfokParamsVal', '%s g=%x' % (name, gv), c, M.params_val(M.Params(name, P.l, P.r, P.n, p, gv)))
                continue
            mv = M.params_val(M.Params(name, P.l, P.r, P.n, p, gv))
            if (err == 0) != mv:
                dis('pfokParamsVal', '%s g=%x' % (name, gv), err, mv)
            cnt('pfok.paramsval_g')

        def call(fn, inp, model, *args, outs=()):
            try:
                err = x.call(fn, *args)
            except Crash as c:
                crash(fn, inp, c, model)
                return None
            return (err,) + tuple(o.read() for o in outs)

        # ---- keys
        top = 8 * ro - r
        privs = []
        tapes = [bytes(ro), b"\xff" * ro, (1).to_bytes(ro, 'little'), ((1 << r) - 1).to_bytes(ro, 'little')]
        tapes += [rnd.randbytes(ro) for _ in range(4 * scale)]
        if top:
            tapes.append((1 << r).to_bytes(ro, 'little'))          # trimmed to 0
        for t in tapes:
            priv, pub = x.out(ro), x.out(lo)
            tp = x.tape(t)
            mk = M.keypair_from_tape(P, t)
            lib = call('pfokKeypairGen', '%s tape=%s' % (name, hx(t)), mk, priv, pub, getprm(), GEN, tp, outs=(priv, pub))
            if lib is not None and lib != (0,) + mk:
                dis('pfokKeypairGen', '%s tape=%s' % (name, hx(t)), (lib[0],) + tuple(hx(v) for v in lib[1:]), tuple(hx(v) for v in mk))
            cnt('pfok.keypair')
            privs.append(mk)
        for d in [0, 1, 2, (1 << r) - 1, (1 << (r - 1))] + [rnd.getrandbits(r) for _ in range(3 * scale)]:
            priv = d.to_bytes(ro, 'little')
            pub = x.out(lo)
            mp = M.pubkey_calc(P, priv)
            lib = call('pfokPubkeyCalc', '%s d=%s' % (name, hx(priv)), hx(mp), pub, getprm(), x.buf(priv), outs=(pub,))
            if lib is not None and lib != (0, mp):
                dis('pfokPubkeyCalc', '%s d=%s' % (name, hx(priv)), (lib[0], hx(lib[1])), hx(mp))
            cnt('pfok.pubkeycalc')
            privs.append((priv, mp))
        if top:
            for d in [1 << r, (1 << (8 * ro)) - 1, (1 << (8 * ro - 1)) | 5]:
                priv = d.to_bytes(ro, 'little')
                pub = x.out(lo)
                lib = call('pfokPubkeyCalc', '%s bad d=%s' % (name, hx(priv)), 'error', pub, getprm(), x.buf(priv))
                if lib is not None and (lib[0] == 0) != M.privkey_ok(P, priv):
                    dis('pfokPubkeyCalc', '%s d=%s' % (name, hx(priv)), lib, 'ERR_BAD_PRIVKEY (more than r bits)')
                cnt('pfok.pubkeycalc_bad')
        # ---- pubkey validation
        pubs = [0, 1, 2, p - 1, p, p + 1, (1 << (8 * lo)) - 1, M.mont_unit(P), rnd.randrange(1, p), rnd.randrange(p, 1 << (8 * lo))]
        for q in pubs:
            qb = q.to_bytes(lo, 'little')
            lib = call('pfokPubkeyVal', '%s Q=%s' % (name, hx(qb)), M.pubkey_val(P, qb), getprm(), x.buf(qb))
            if lib is not None and (lib[0] == 0) != M.pubkey_val(P, qb):
                dis('pfokPubkeyVal', '%s Q=%s' % (name, hx(qb)), lib[0], M.pubkey_val(P, qb))
            cnt('pfok.pubkeyval')

        # ---- DH
        def lib_dh(priv, pub):
            key = x.buf(b"\xCC" * no)
            try:
                m = M.dh(P, priv, pub)
            except ValueError as e:
                m = str(e)
            lib = call('pfokDH', '%s d=%s Q=%s' % (name, hx(priv), hx(pub)), hx(m), key, getprm(), x.buf(priv), x.buf(pub), outs=(key,))
            if lib is None:
                return None
            if isinstance(m, str):
                if lib[0] == 0:
                    dis('pfokDH', '%s d=%s Q=%s' % (name, hx(priv), hx(pub)), (lib[0], hx(lib[1])), 'error: ' + m)
            elif lib != (0, m):
                dis('pfokDH', '%s d=%s Q=%s' % (name, hx(priv), hx(pub)), (lib[0], hx(lib[1])), hx(m))
            cnt('pfok.dh')
            return lib[1] if lib[0] == 0 else None

        for _ in range(6 * scale):
            (a, Qa), (b, Qb) = rnd.sample(privs, 2)
            k1, k2 = lib_dh(a, Qb), lib_dh(b, Qa)
            if k1 != k2:
                dis('pfokDH', '%s not symmetric a=%s b=%s' % (name, hx(a), hx(b)), (hx(k1), hx(k2)), 'equal')
        for q in [1, 2, p - 1, M.mont_unit(P), rnd.randrange(1, p)]:
            for d in [0, 1, (1 << r) - 1, rnd.getrandbits(r)]:
                lib_dh(d.to_bytes(ro, 'little'), q.to_bytes(lo, 'little'))
        for q in [0, p, p + 1, (1 << (8 * lo)) - 1]:
            lib_dh(privs[-1][0], q.to_bytes(lo, 'little'))
        if top:
            lib_dh((1 << r).to_bytes(ro, 'little'), privs[0][1])
            lib_dh(b"\xff" * ro, privs[0][1])

        # ---- MTI
        def lib_mti(d, u, Q, V):
            key = x.buf(b"\xCC" * no)
            try:
                m = M.mti(P, d, u, Q, V)
            except ValueError as e:
                m = str(e)
            inp = '%s x=%s u=%s Y=%s V=%s' % (name, hx(d), hx(u), hx(Q), hx(V))
            lib = call('pfokMTI', inp, hx(m), key, getprm(), x.buf(d), x.buf(u), x.buf(Q), x.buf(V), outs=(key,))
            if lib is None:
                return None
            if isinstance(m, str):
                if lib[0] == 0:
                    dis('pfokMTI', inp, (lib[0], hx(lib[1])), 'error: ' + m)
            elif lib != (0, m):
                dis('pfokMTI', inp, (lib[0], hx(lib[1])), hx(m))
            cnt('pfok.mti')
            return lib[1] if lib[0] == 0 else None

        for _ in range(6 * scale):
            (xa, ya), (ua, va), (xb, yb), (ub, vb) = [rnd.choice(privs) for _ in range(4)]
            k1 = lib_mti(xa, ua, yb, vb)
            k2 = lib_mti(xb, ub, ya, va)
            if k1 != k2:
                dis('pfokMTI', '%s not symmetric' % name, (hx(k1), hx(k2)), 'equal')
        (xa, ya), (ua, va) = privs[0], privs[1]
        lib_mti(xa, ua, bytes(lo), va)
        lib_mti(xa, ua, ya, p.to_bytes(lo, 'little'))
        lib_mti(xa, ua, ya, bytes(lo))
        if top:
            lib_mti(b"\xff" * ro, ua, ya, va)
            lib_mti(xa, (1 << r).to_bytes(ro, 'little'), ya, va)
    print("pfok done:", {k: v for k, v in CNT.items() if k.startswith('pfok')})


# =============================================================================

def new_x():
    """executor on a private snapshot of the current build: other agents rebuild /repo concurrently and the
    shared cache directory of an older tree may disappear while we run (restarts would then fail)"""
    import shutil, tempfile
    x = X('asan')
    snap = os.path.join(tempfile.mkdtemp(prefix='xcheck_pk2_'), os.path.basename(x.dir))
    try:
        shutil.copytree(x.dir, snap)
        x.dir = snap
    except Exception as e:
        print("  (no snapshot: %s)" % e)
    print("library build:", os.path.basename(x.dir))
    return x


def main():
    args = sys.argv[1:]
    seed, scale = 1, 1
    if '--seed' in args:
        seed = int(args[args.index('--seed') + 1])
    if '--scale' in args:
        scale = int(args[args.index('--scale') + 1])
    which = [a for a in args if a in ('g12s', 'dstu', 'pfok', 'bels')] or ['g12s', 'bels', 'dstu', 'pfok']
    rnd = random.Random(seed)
    x = new_x()
    for w in which:
        fn = globals().get('xcheck_' + w)
        if fn is None:
            print(w, "not implemented")
            continue
        for attempt in range(4):
            nd, cn = len(DIS), dict(CNT)
            seen = set(_SEEN)
            try:
                fn(x, random.Random(seed), scale)
                break
            except Crash as c:
                dis(w, "uncaught crash", "CRASH %s %s" % (c.kind, str(c)[:600]), "n/a")
                x.reset()
                break
            except (FileNotFoundError, BrokenPipeError, OSError) as e:
                # the library tree / build cache changed while running: rebuild and redo this section
                print("  [%s] executor lost (%s), rebuilding and repeating the section" % (w, e))
                del DIS[nd:]
                CNT.clear(); CNT.update(cn)
                _SEEN.clear(); _SEEN.update(seen)
                import x as xmod
                xmod._dirs.clear()
                x = new_x()
    print("\ncounts:", CNT)
    print("disagreements: %d" % len(DIS))
    by = {}
    for d in DIS:
        by.setdefault(d[0], []).append(d)
    for k, v in by.items():
        print("  %s: %d" % (k, len(v)))
    if '--dump' in args:
        import json
        with open(args[args.index('--dump') + 1], 'w') as f:
            json.dump([[str(v) for v in d] for d in DIS], f, indent=1)
    return 0


if __name__ == '__main__':
    main()
