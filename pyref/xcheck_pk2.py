"""Cross-check of the pure-Python models g12s / dstu / pfok / bels against the compiled bee2 library.
Run:  python3-vt /verif/pyref/xcheck_pk2.py [g12s] [dstu] [pfok] [bels] [--seed N] [--scale K]

Every disagreement is collected and printed at the end (nothing is absorbed)."""
import sys, os, random, itertools

sys.path.insert(0, '/verif/lib')
sys.path.insert(0, os.path.dirname(os.path.abspath(__file__)))
from x import X, GEN, Crash  # noqa

DIS = []       # disagreements
CNT = {}       # counters


def cnt(k, n=1):
    CNT[k] = CNT.get(k, 0) + n


def dis(fn, inp, lib, model, note=""):
    DIS.append((fn, inp, lib, model, note))
    if len([d for d in DIS if d[0] == fn]) <= 6:
        print("  DISAGREE %s\n    input: %s\n    lib:   %s\n    model: %s\n    %s" % (fn, inp, lib, model, note))


def hx(b):
    return b.hex() if isinstance(b, (bytes, bytearray)) else repr(b)


def cstr(x, s):
    return x.buf(s.encode() + b"\0")


def flip(b, i):
    b = bytearray(b)
    b[i // 8] ^= 1 << (i % 8)
    return bytes(b)


# =============================================================================
# g12s
# =============================================================================

G12S_SIZEOF = 4 + 68 * 3 + 64 + 4 + 68 * 2      # 412, no padding (all members 1- or 4-aligned)


def g12s_load(x, name):
    prm = x.out(G12S_SIZEOF)
    assert x.call('g12sParamsStd', prm, cstr(x, name)) == 0
    return prm


def xcheck_g12s(x, rnd, scale):
    import g12s as M
    for name, P in M.PARAMS.items():
        x.reset()
        prm = g12s_load(x, name)
        raw = prm.read()
        # layout read-back
        assert int.from_bytes(raw[0:4], 'little') == P.l
        assert int.from_bytes(raw[4:72], 'little') == P.p
        assert int.from_bytes(raw[72:140], 'little') == P.a
        assert int.from_bytes(raw[140:208], 'little') == P.b
        assert int.from_bytes(raw[208:272], 'little') == P.q
        assert int.from_bytes(raw[272:276], 'little') == P.n
        assert int.from_bytes(raw[276:344], 'little') == P.P[0]
        assert int.from_bytes(raw[344:412], 'little') == P.P[1]
        assert x.call('g12sParamsVal', prm) == 0
        cnt('g12s.params')
        q, mo, no = P.q, P.mo, P.no
        ql = q.bit_length()
        qo = (ql + 7) // 8

        def draw_bad():
            """an octet string that zzRandNZMod must reject"""
            c = rnd.randrange(4)
            if c == 0:
                return bytes(qo)
            if c == 1:
                return q.to_bytes(qo, 'little')
            if c == 2 and (1 << ql) - 1 > q:
                return rnd.randrange(q, 1 << ql).to_bytes(qo, 'little')
            if ql % 8:
                # high bits beyond l set and the low l bits zero -> trimmed to 0
                return (1 << ql).to_bytes(qo, 'little')
            return bytes(qo)

        def tape_for(v, nbad=None):
            nbad = rnd.choice([0, 0, 1, 3]) if nbad is None else nbad
            extra = b""
            if ql % 8 and rnd.random() < 0.5:
                # bits above l in the accepted draw must be ignored
                extra = (v | (rnd.getrandbits(qo * 8 - ql) << ql)).to_bytes(qo, 'little')
            else:
                extra = v.to_bytes(qo, 'little')
            return b"".join(draw_bad() for _ in range(nbad)) + extra

        ds = [1, q - 1, 2, q - 2] + [rnd.randrange(1, q) for _ in range(3 * scale)]
        keys = []
        for d in ds:
            t = tape_for(d)
            priv, pub = x.out(mo), x.out(2 * no)
            err = x.call('g12sKeypairGen', priv, pub, prm, GEN, x.tape(t))
            m = M.keypair_from_tape(P, t)
            lib = (err, priv.read(), pub.read()) if err == 0 else (err,)
            if err != 0 or m is None or (priv.read(), pub.read()) != m:
                dis('g12sKeypairGen', "%s tape=%s" % (name, hx(t)), lib, m)
            cnt('g12s.keypair')
            keys.append((d, M.privkey_enc(P, d), M.pubkey_calc(P, d)))
        # generator failure: only rejected draws
        t = bytes(qo * 70)
        priv, pub = x.out(mo), x.out(2 * no)
        err = x.call('g12sKeypairGen', priv, pub, prm, GEN, x.tape(t, mode=1))
        if (err == 0) != (False):
            dis('g12sKeypairGen', name + " all-zero generator", err, None)
        try:
            M.keypair_from_tape(P, t)
            m = "value"
        except EOFError:
            m = "eof"
        # 65 draws of 0 -> model returns None before the 70-draw tape ends
        if M.keypair_from_tape(P, t) is not None:
            dis('g12sKeypairGen', name + " all-zero generator", err, "model did not fail")
        cnt('g12s.keypair')

        hashes = [bytes(mo), b"\xff" * mo, q.to_bytes(mo, 'big'), (q + 1).to_bytes(mo, 'big') if q + 1 < 1 << (8 * mo) else (q - 1).to_bytes(mo, 'big'),
                  (q - 1).to_bytes(mo, 'big'), (1).to_bytes(mo, 'big')]
        hashes += [rnd.randbytes(mo) for _ in range(2 * scale)]
        if 2 * q < 1 << (8 * mo):
            hashes.append((2 * q).to_bytes(mo, 'big'))
        sigs = []
        for (d, priv, pub) in keys:
            for h in hashes if d in (1, q - 1) else rnd.sample(hashes, 3):
                k = rnd.choice([1, q - 1, rnd.randrange(1, q), rnd.randrange(1, q)])
                t = tape_for(k) + tape_for(rnd.randrange(1, q), 0)      # spare draw: the standard may ask for a second k
                sig = x.out(2 * mo)
                try:
                    err = x.call('g12sSign', sig, prm, x.buf(h), x.buf(priv), GEN, x.tape(t))
                    lib = (err, sig.read().hex())
                except Crash as c:
                    lib = ('CRASH', c.kind, str(c)[:200])
                    x.reset(); prm = g12s_load(x, name)
                m = M.sign_from_tape(P, h, priv, t)
                if lib != (0, m.hex()):
                    dis('g12sSign', "%s hash=%s d=%s tape=%s" % (name, hx(h), hx(priv), hx(t)), lib, hx(m))
                cnt('g12s.sign')
                sigs.append((h, m, pub, d))

        # crafted s == 0: choose k, then d = -k e / r mod q
        for _ in range(2):
            h = rnd.choice(hashes)
            e = M.hash_to_e(P, h)
            while True:
                k = rnd.randrange(1, q)
                r = M.ec_mul(P, k, P.P)[0] % q
                if r:
                    break
            d = (-k * e * pow(r, -1, q)) % q
            k2 = rnd.randrange(1, q)
            t = k.to_bytes(qo, 'little') + k2.to_bytes(qo, 'little')
            sig = x.out(2 * mo)
            priv = M.privkey_enc(P, d)
            tp = x.tape(t)
            err = x.call('g12sSign', sig, prm, x.buf(h), x.buf(priv), GEN, tp)
            m = M.sign_from_tape(P, h, priv, t)
            lib = (err, sig.read().hex())
            if lib != (0, m.hex()):
                vr = x.call('g12sVerify', prm, x.buf(h), sig, x.buf(M.pubkey_calc(P, d)))
                dis('g12sSign', "%s hash=%s d=%s tape=%s (d chosen so that r*d + k*e = 0 mod q for the first k)" % (name, hx(h), hx(priv), hx(t)),
                    lib, hx(m),
                    "GOST 6.1 step 5: s = 0 -> back to step 3; library emits s = 0 (its own g12sVerify on that sig returns %d)" % vr)
            cnt('g12s.sign_s0')

        def both(h, sig, pub, what):
            try:
                err = x.call('g12sVerify', prm, x.buf(h), x.buf(sig), x.buf(pub))
            except Crash as c:
                err = ('CRASH', c.kind, str(c)[:300])
            m = M.verify(P, h, sig, pub)
            if (err == 0) != m or not isinstance(err, int):
                dis('g12sVerify', "%s %s hash=%s sig=%s pub=%s" % (name, what, hx(h), hx(sig), hx(pub)), err, m)
            cnt('g12s.verify')
            return err

        for (h, sig, pub, d) in sigs:
            if both(h, sig, pub, 'valid') != 0:
                dis('g12sVerify', 'valid signature rejected', '', '')
        for (h, sig, pub, d) in rnd.sample(sigs, min(len(sigs), 6 * scale)):
            for i in rnd.sample(range(16 * mo), 6) + [0, 16 * mo - 1, 8 * mo - 1, 8 * mo]:
                both(h, flip(sig, i), pub, 'sig bit %d' % i)
            for i in rnd.sample(range(16 * no), 6) + [0, 8 * no - 1, 8 * no, 16 * no - 1]:
                both(h, sig, flip(pub, i), 'pub bit %d' % i)
            for i in rnd.sample(range(8 * mo), 4) + [0, 8 * mo - 1]:
                both(flip(h, i), sig, pub, 'hash bit %d' % i)
            r, s = sig[:mo], sig[mo:]
            ri, si = int.from_bytes(r, 'big'), int.from_bytes(s, 'big')
            for (r2, s2, w) in [(0, si, 'r=0'), (ri, 0, 's=0'), (q, si, 'r=q'), (ri, q, 's=q'),
                                (ri + q, si, 'r+q'), (ri, si + q, 's+q'), (ri, q - si, 'q-s'), (q - ri, si, 'q-r')]:
                if r2 < 1 << (8 * mo) and s2 < 1 << (8 * mo):
                    both(h, r2.to_bytes(mo, 'big') + s2.to_bytes(mo, 'big'), pub, w)
            # hash + q denotes the same e
            hi = int.from_bytes(h, 'big')
            if hi + q < 1 << (8 * mo):
                both((hi + q).to_bytes(mo, 'big'), sig, pub, 'hash+q')
            if hi >= q:
                both((hi - q).to_bytes(mo, 'big'), sig, pub, 'hash-q')
            if hi % q == 0:
                both((1).to_bytes(mo, 'big'), sig, pub, 'hash 0 -> 1')
                both(bytes(mo), sig, pub, 'hash 0')
            # public key variants: -Q, x + p, (0, 0), other key
            Q = M.pubkey_dec(P, pub)
            both(h, sig, M.pubkey_enc(P, (Q[0], P.p - Q[1])), '-Q')
            if Q[0] + P.p < 1 << (8 * no):
                both(h, sig, (Q[0] + P.p).to_bytes(no, 'little') + Q[1].to_bytes(no, 'little'), 'xQ+p')
            if Q[1] + P.p < 1 << (8 * no):
                both(h, sig, Q[0].to_bytes(no, 'little') + (Q[1] + P.p).to_bytes(no, 'little'), 'yQ+p')
            both(h, sig, bytes(2 * no), 'Q=(0,0)')
            both(h, sig, rnd.choice(keys)[2], 'other Q')
        # R = O: z1 P + z2 Q = O  <=>  s = r d  (with e arbitrary): s v P - r v d P
        d, priv, pub = keys[-1]
        h = rnd.randbytes(mo)
        r = rnd.randrange(1, q)
        s = r * d % q
        both(h, M.sig_enc(P, r, s), pub, 'R=O')
    print("g12s done:", {k: v for k, v in CNT.items() if k.startswith('g12s')})


# =============================================================================

def main():
    args = sys.argv[1:]
    seed, scale = 1, 1
    if '--seed' in args:
        seed = int(args[args.index('--seed') + 1])
    if '--scale' in args:
        scale = int(args[args.index('--scale') + 1])
    which = [a for a in args if a in ('g12s', 'dstu', 'pfok', 'bels')] or ['g12s', 'bels', 'dstu', 'pfok']
    rnd = random.Random(seed)
    x = X('asan')
    for w in which:
        fn = globals().get('xcheck_' + w)
        if fn is None:
            print(w, "not implemented")
            continue
        try:
            fn(x, rnd, scale)
        except Crash as c:
            dis(w, "uncaught crash", "CRASH %s %s" % (c.kind, str(c)[:600]), "n/a")
            x.reset()
    print("\ncounts:", CNT)
    print("disagreements: %d" % len(DIS))
    by = {}
    for d in DIS:
        by.setdefault(d[0], []).append(d)
    for k, v in by.items():
        print("  %s: %d" % (k, len(v)))
    return 0


if __name__ == '__main__':
    main()
