"""STB 34.101.31 (belt) -- independent pure-Python reference model (test oracle).

Written from the definitions of the standard (as documented in
/repo/include/bee2/crypto/belt.h and in the header comments of /repo/src/crypto/belt/*.c),
for obviousness, not for speed.

Conventions of the standard used throughout
-------------------------------------------
* an octet string is `bytes`;
* a 32-bit word u = u1 || u2 || u3 || u4 (octets) is the number u1 + 2^8 u2 + 2^16 u3 + 2^24 u4
  (little-endian), <n>_k is the k-bit little-endian representation of the number n;
* a 128-bit block is, when treated as a number or a binary polynomial, the little-endian
  integer of its 16 octets; bit i of this integer is the coefficient of x^i;
* L_k(u) -- first k bits (k/8 octets) of u;
* belt-block(X, K) is written F(X) below when the key is clear from the context.

Keys: every function taking `key` accepts 16, 24 or 32 octets and expands the key with
belt-keyexpand first (hmac / pbkdf2 accept keys / passwords of any length).
"""

# ---------------------------------------------------------------------------------------------
# small helpers
# ---------------------------------------------------------------------------------------------

MASK32 = 0xFFFFFFFF
MASK128 = (1 << 128) - 1


def _xor(a, b):
    assert len(a) == len(b)
    return bytes(x ^ y for x, y in zip(a, b))


def _le(b):
    """octet string -> number (little-endian)"""
    return int.from_bytes(b, "little")


def _to_le(v, n):
    """number -> octet string of n octets (little-endian)"""
    return int(v).to_bytes(n, "little")


def _blocks(x, size):
    """split x into consecutive blocks of `size` octets; the last block may be shorter
    (an empty x gives an empty list)"""
    return [x[i:i + size] for i in range(0, len(x), size)]


def _check_key(key):
    if len(key) not in (16, 24, 32):
        raise ValueError("belt key must be 16, 24 or 32 octets")


# ---------------------------------------------------------------------------------------------
# S-box H
# ---------------------------------------------------------------------------------------------

def _gen_H():
    """Generation rule of H (comment at the top of belt_block.c / beltHGen in belt_test.c):
    H[10] = 0, H[11] = 0x8E, and every next value (indices go cyclically mod 256) is obtained
    from the previous one by 116 steps of the 8-bit shift register
        t <- (t >> 1) | (parity(t & 0x63) << 7)."""
    h = [None] * 256
    h[10] = 0
    h[11] = 0x8E
    for x in range(12, 10 + 256):
        t = h[(x - 1) % 256]
        for _ in range(116):
            t = (t >> 1) | ((bin(t & 0x63).count("1") & 1) << 7)
        h[x % 256] = t
    return bytes(h)


H = _gen_H()

# Table 1 of the standard (copied literally), checked against the generated table in selftest()
H_TABLE = bytes.fromhex(
    "B194BAC80A08F53B366D008E584A5DE4"
    "8504FA9D1BB6C7AC252E72C202FDCE0D"
    "5BE3D61217B96181FE6786AD716B890B"
    "5CB0C0FF33C356B835C405AED8E07F99"
    "E12BDC1AE28257EC703FCCF095EE8DF1"
    "C1AB76389FE678CAF7C6F860D5BB9C4F"
    "F33C657B637C306ADD4EA7799EB23D31"
    "3E98B56E27D3BCCF591E181F4C5AB793"
    "E9DEE72C8F0C0FA62DDB49F46F739647"
    "06075316ED247A3739CBA38303A98BF6"
    "92BD9B1CE5D141015445FBC95E4D0EF2"
    "682080AA227D642F2687F93490405511"
    "BE32971343FC9A48A02A885F194B09A1"
    "7ECDA4D01544AF8CA58450BF66D2E88A"
    "A2D7465242A8DFB36974C551EB232921"
    "D4EFD9B43A622875911410EA776CDA1D")


# ---------------------------------------------------------------------------------------------
# belt-keyexpand
# ---------------------------------------------------------------------------------------------

def key_expand(key):
    """belt-keyexpand: K = th1 || ... || th8 (32-bit words).
    256 bits: as is; 192 bits: th7 = th1^th2^th3, th8 = th4^th5^th6;
    128 bits: th5..th8 = th1..th4."""
    _check_key(key)
    th = _blocks(bytes(key), 4)
    if len(key) == 16:
        th = th + th
    elif len(key) == 24:
        th = th + [_xor(_xor(th[0], th[1]), th[2]), _xor(_xor(th[3], th[4]), th[5])]
    return b"".join(th)


# ---------------------------------------------------------------------------------------------
# belt-block
# ---------------------------------------------------------------------------------------------

def _rot_hi(u, r):
    """RotHi^r: cyclic shift of a 32-bit word towards the high bits"""
    return ((u << r) | (u >> (32 - r))) & MASK32


def _G(r, u):
    """G_r(u) = RotHi^r(H(u1) || H(u2) || H(u3) || H(u4))"""
    octets = _to_le(u, 4)
    return _rot_hi(_le(bytes(H[o] for o in octets)), r)


def _add(*u):
    """addition of 32-bit words mod 2^32"""
    return sum(u) & MASK32


def _sub(u, v):
    """subtraction of 32-bit words mod 2^32"""
    return (u - v) & MASK32


def _round_keys(key):
    """K[1..56] (K[0] unused): the words th1..th8 of the expanded key repeated 7 times"""
    th = [_le(w) for w in _blocks(key_expand(key), 4)]
    return [None] + [th[(i - 1) % 8] for i in range(1, 57)]


def block_encr(key, x):
    """belt-block encryption of the 128-bit block x"""
    if len(x) != 16:
        raise ValueError("block must be 16 octets")
    K = _round_keys(key)
    a, b, c, d = (_le(w) for w in _blocks(bytes(x), 4))
    for i in range(1, 9):
        b ^= _G(5, _add(a, K[7 * i - 6]))
        c ^= _G(21, _add(d, K[7 * i - 5]))
        a = _sub(a, _G(13, _add(b, K[7 * i - 4])))
        e = _G(21, _add(b, c, K[7 * i - 3])) ^ i
        b = _add(b, e)
        c = _sub(c, e)
        d = _add(d, _G(13, _add(c, K[7 * i - 2])))
        b ^= _G(21, _add(a, K[7 * i - 1]))
        c ^= _G(5, _add(d, K[7 * i]))
        a, b = b, a
        c, d = d, c
        b, c = c, b
    return b"".join(_to_le(w, 4) for w in (b, d, a, c))


def block_decr(key, y):
    """belt-block decryption of the 128-bit block y"""
    if len(y) != 16:
        raise ValueError("block must be 16 octets")
    K = _round_keys(key)
    a, b, c, d = (_le(w) for w in _blocks(bytes(y), 4))
    for i in range(8, 0, -1):
        b ^= _G(5, _add(a, K[7 * i]))
        c ^= _G(21, _add(d, K[7 * i - 1]))
        a = _sub(a, _G(13, _add(b, K[7 * i - 2])))
        e = _G(21, _add(b, c, K[7 * i - 3])) ^ i
        b = _add(b, e)
        c = _sub(c, e)
        d = _add(d, _G(13, _add(c, K[7 * i - 4])))
        b ^= _G(21, _add(a, K[7 * i - 5]))
        c ^= _G(5, _add(d, K[7 * i - 6]))
        a, b = b, a
        c, d = d, c
        a, d = d, a
    return b"".join(_to_le(w, 4) for w in (c, a, d, b))


# ---------------------------------------------------------------------------------------------
# belt-wblock (wide block)
# ---------------------------------------------------------------------------------------------
# r = r1 || r2 || ... || rn, |r1| = ... = |r_{n-1}| = 128, 0 < |rn| <= 128, n = ceil(|r| / 128);
# r* -- the last 128 bits of r (it overlaps r_{n-1} when |rn| < 128).

def _wbl_sum(r):
    """r1 ^ r2 ^ ... ^ r_{n-1}"""
    n = (len(r) + 15) // 16
    s = bytes(16)
    for j in range(n - 1):
        s = _xor(s, r[16 * j:16 * j + 16])
    return s


def wbl_encr(key, x, first_round=1):
    """belt-wblock encryption of x, |x| >= 32 octets (any octet length).
    first_round != 1 models the continued encryption of beltWBLStepR (counter goes on)."""
    if len(x) < 32:
        raise ValueError("wide block must be at least 32 octets")
    r = bytes(x)
    n = (len(r) + 15) // 16
    for i in range(first_round, first_round + 2 * n):
        s = _wbl_sum(r)
        rstar = _xor(_xor(r[-16:], block_encr(key, s)), _to_le(i, 16))
        r = r[:-16] + rstar
        r = r[16:] + bytes(16)          # r <- ShLo^128(r)
        r = r[:-16] + s                 # r* <- s
    return r


def wbl_decr(key, y):
    """belt-wblock decryption of y, |y| >= 32 octets"""
    if len(y) < 32:
        raise ValueError("wide block must be at least 32 octets")
    r = bytes(y)
    n = (len(r) + 15) // 16
    for i in range(2 * n, 0, -1):
        s = r[-16:]
        r = bytes(16) + r[:-16]         # r <- ShHi^128(r)
        r = s + r[16:]                  # r1 <- s
        rstar = _xor(_xor(r[-16:], block_encr(key, s)), _to_le(i, 16))
        r = r[:-16] + rstar
        r = _wbl_sum(r) + r[16:]        # r1 <- r1 ^ r2 ^ ... ^ r_{n-1}
    return r


# ---------------------------------------------------------------------------------------------
# belt-compress
# ---------------------------------------------------------------------------------------------

def compress(x):
    """belt-compress: x = X1 || X2 || X3 || X4 (512 bits) -> (S, Y), |S| = 128, |Y| = 256:
        S  = belt-block(X3 ^ X4, X1 || X2) ^ X3 ^ X4
        Y1 = belt-block(X1, S || X4) ^ X1
        Y2 = belt-block(X2, (S ^ 1^128) || X3) ^ X2"""
    if len(x) != 64:
        raise ValueError("compress input must be 64 octets")
    x1, x2, x3, x4 = _blocks(bytes(x), 16)
    x34 = _xor(x3, x4)
    s = _xor(block_encr(x1 + x2, x34), x34)
    y1 = _xor(block_encr(s + x4, x1), x1)
    y2 = _xor(block_encr(_xor(s, b"\xFF" * 16) + x3, x2), x2)
    return s, y1 + y2


# ---------------------------------------------------------------------------------------------
# belt-ecb
# ---------------------------------------------------------------------------------------------

def ecb_encr(key, x):
    """ECB with ciphertext stealing: X = X1 || ... || Xn, |Xn| <= 128, |X| >= 128.
    If |Xn| < 128: (Yn || r) = F(X_{n-1}), |Yn| = |Xn|;  Y_{n-1} = F(Xn || r)."""
    if len(x) < 16:
        raise ValueError("ECB needs at least 16 octets")
    X = _blocks(bytes(x), 16)
    n = len(X)
    Y = [block_encr(key, b) for b in X[:n - 2]] if n >= 2 else []
    if len(X[-1]) == 16:
        Y += [block_encr(key, b) for b in X[max(n - 2, 0):]]
    else:
        t = block_encr(key, X[n - 2])
        yn, r = t[:len(X[-1])], t[len(X[-1]):]
        Y += [block_encr(key, X[-1] + r), yn]
    return b"".join(Y)


def ecb_decr(key, y):
    if len(y) < 16:
        raise ValueError("ECB needs at least 16 octets")
    Y = _blocks(bytes(y), 16)
    n = len(Y)
    X = [block_decr(key, b) for b in Y[:n - 2]] if n >= 2 else []
    if len(Y[-1]) == 16:
        X += [block_decr(key, b) for b in Y[max(n - 2, 0):]]
    else:
        t = block_decr(key, Y[n - 2])
        xn, r = t[:len(Y[-1])], t[len(Y[-1]):]
        X += [block_decr(key, Y[-1] + r), xn]
    return b"".join(X)


# ---------------------------------------------------------------------------------------------
# belt-cbc
# ---------------------------------------------------------------------------------------------

def cbc_encr(key, iv, x):
    """CBC with ciphertext stealing: Y0 = S, Yi = F(Xi ^ Y_{i-1}).
    If |Xn| < 128: (Yn || r) = F(X_{n-1} ^ Y_{n-2}), Y_{n-1} = F((Xn ^ Yn) || r)."""
    if len(x) < 16 or len(iv) != 16:
        raise ValueError("CBC needs at least 16 octets and a 16-octet iv")
    X = _blocks(bytes(x), 16)
    n = len(X)
    prev = bytes(iv)
    Y = []
    full = n if len(X[-1]) == 16 else n - 2
    for b in X[:full]:
        prev = block_encr(key, _xor(b, prev))
        Y.append(prev)
    if full != n:
        t = block_encr(key, _xor(X[n - 2], prev))
        m = len(X[-1])
        yn, r = t[:m], t[m:]
        Y += [block_encr(key, _xor(X[-1], yn) + r), yn]
    return b"".join(Y)


def cbc_decr(key, iv, y):
    """If |Yn| < 128: (Xn || r) = F^-1(Y_{n-1}) ^ (Yn || 0...), X_{n-1} = F^-1(Yn || r) ^ Y_{n-2}."""
    if len(y) < 16 or len(iv) != 16:
        raise ValueError("CBC needs at least 16 octets and a 16-octet iv")
    Y = _blocks(bytes(y), 16)
    n = len(Y)
    prev = bytes(iv)
    X = []
    full = n if len(Y[-1]) == 16 else n - 2
    for b in Y[:full]:
        X.append(_xor(block_decr(key, b), prev))
        prev = b
    if full != n:
        m = len(Y[-1])
        t = block_decr(key, Y[n - 2])
        xn, r = _xor(t[:m], Y[-1]), t[m:]
        X += [_xor(block_decr(key, Y[-1] + r), prev), xn]
    return b"".join(X)


# ---------------------------------------------------------------------------------------------
# belt-cfb
# ---------------------------------------------------------------------------------------------

def cfb_encr(key, iv, x):
    """Y0 = S, Yi = Xi ^ L_{|Xi|}(F(Y_{i-1}))"""
    if len(iv) != 16:
        raise ValueError("iv must be 16 octets")
    prev = bytes(iv)
    Y = []
    for b in _blocks(bytes(x), 16):
        prev = _xor(b, block_encr(key, prev)[:len(b)])
        Y.append(prev)
    return b"".join(Y)


def cfb_decr(key, iv, y):
    """Y0 = S, Xi = Yi ^ L_{|Yi|}(F(Y_{i-1}))"""
    if len(iv) != 16:
        raise ValueError("iv must be 16 octets")
    prev = bytes(iv)
    X = []
    for b in _blocks(bytes(y), 16):
        X.append(_xor(b, block_encr(key, prev)[:len(b)]))
        prev = b
    return b"".join(X)


# ---------------------------------------------------------------------------------------------
# belt-ctr
# ---------------------------------------------------------------------------------------------

def ctr(key, iv, x):
    """s = F(S); for every block: s = s + 1 (mod 2^128), Yi = Xi ^ L_{|Xi|}(F(s))"""
    if len(iv) != 16:
        raise ValueError("iv must be 16 octets")
    s = _le(block_encr(key, bytes(iv)))
    Y = []
    for b in _blocks(bytes(x), 16):
        s = (s + 1) & MASK128
        Y.append(_xor(b, block_encr(key, _to_le(s, 16))[:len(b)]))
    return b"".join(Y)


# ---------------------------------------------------------------------------------------------
# belt-mac
# ---------------------------------------------------------------------------------------------

def _phi1(u):
    """phi1(u1 || u2 || u3 || u4) = u2 || u3 || u4 || (u1 ^ u2)"""
    u1, u2, u3, u4 = _blocks(u, 4)
    return u2 + u3 + u4 + _xor(u1, u2)


def _phi2(u):
    """phi2(u1 || u2 || u3 || u4) = (u1 ^ u4) || u1 || u2 || u3"""
    u1, u2, u3, u4 = _blocks(u, 4)
    return _xor(u1, u4) + u1 + u2 + u3


def _psi(u):
    """psi(u) = u || 1 0...0 up to 128 bits, |u| < 128 (the appended bit 1 is the octet 0x80)"""
    assert len(u) < 16
    return u + b"\x80" + bytes(15 - len(u))


def mac(key, x):
    """belt-mac: s = 0, r = F(0); s = F(s ^ Xi) for i < n;
    s = s ^ Xn ^ phi1(r) if |Xn| = 128, else s = s ^ psi(Xn) ^ phi2(r);  T = L_64(F(s)).
    The empty message is the single incomplete (empty) block."""
    X = _blocks(bytes(x), 16) or [b""]
    s = bytes(16)
    r = block_encr(key, s)
    for b in X[:-1]:
        s = block_encr(key, _xor(s, b))
    if len(X[-1]) == 16:
        s = _xor(_xor(s, X[-1]), _phi1(r))
    else:
        s = _xor(_xor(s, _psi(X[-1])), _phi2(r))
    return block_encr(key, s)[:8]


# ---------------------------------------------------------------------------------------------
# multiplication of blocks as polynomials modulo x^128 + x^7 + x^2 + x + 1
# ---------------------------------------------------------------------------------------------

_POLY = (1 << 128) | 0x87


def _mul(u, v):
    """u * v: blocks as binary polynomials (bit i of the little-endian number <-> x^i)"""
    a, b = _le(u), _le(v)
    p = 0
    for i in range(128):
        if (b >> i) & 1:
            p ^= a << i
    for i in range(254, 127, -1):
        if (p >> i) & 1:
            p ^= _POLY << (i - 128)
    return _to_le(p, 16)


_C = b"\x02" + bytes(15)    # the block C <-> polynomial x


def _pad0(b):
    return b + bytes(16 - len(b))


def _auth(key, r, ad, ct):
    """common part of belt-dwp / belt-che:
    t = H[0..15]; for every block of I then of Y (zero-padded): t = (t ^ block) * r;
    t = t ^ (<|I|>_64 || <|Y|>_64); t = F(t * r); T = L_64(t)."""
    t = H[0:16]
    for b in _blocks(bytes(ad), 16) + _blocks(bytes(ct), 16):
        t = _mul(_xor(t, _pad0(b)), r)
    t = _xor(t, _to_le(8 * len(ad), 8) + _to_le(8 * len(ct), 8))
    return block_encr(key, _mul(t, r))[:8]


# ---------------------------------------------------------------------------------------------
# belt-dwp
# ---------------------------------------------------------------------------------------------

def _dwp_tag(key, iv, ad, ct):
    s = block_encr(key, bytes(iv))
    r = block_encr(key, s)
    return _auth(key, r, ad, ct)


def dwp_wrap(key, iv, ad, pt):
    """s = F(S), r = F(s); Y = belt-ctr(X) (the same s); tag over (I, Y)"""
    if len(iv) != 16:
        raise ValueError("iv must be 16 octets")
    ct = ctr(key, iv, pt)
    return ct, _dwp_tag(key, iv, ad, ct)


def dwp_unwrap(key, iv, ad, ct, tag):
    if len(iv) != 16 or len(tag) != 8:
        raise ValueError("iv must be 16 octets, tag 8 octets")
    if _dwp_tag(key, iv, ad, ct) != bytes(tag):
        return None
    return ctr(key, iv, ct)


# ---------------------------------------------------------------------------------------------
# belt-che
# ---------------------------------------------------------------------------------------------

def _che_crypt(key, iv, x):
    """s = F(S); for every block: s = (s * C) ^ <1>_128, Yi = Xi ^ L_{|Xi|}(F(s))"""
    s = block_encr(key, bytes(iv))
    one = _to_le(1, 16)
    Y = []
    for b in _blocks(bytes(x), 16):
        s = _xor(_mul(s, _C), one)
        Y.append(_xor(b, block_encr(key, s)[:len(b)]))
    return b"".join(Y)


def _che_tag(key, iv, ad, ct):
    r = block_encr(key, bytes(iv))      # r = s = F(S)
    return _auth(key, r, ad, ct)


def che_wrap(key, iv, ad, pt):
    if len(iv) != 16:
        raise ValueError("iv must be 16 octets")
    ct = _che_crypt(key, iv, pt)
    return ct, _che_tag(key, iv, ad, ct)


def che_unwrap(key, iv, ad, ct, tag):
    if len(iv) != 16 or len(tag) != 8:
        raise ValueError("iv must be 16 octets, tag 8 octets")
    if _che_tag(key, iv, ad, ct) != bytes(tag):
        return None
    return _che_crypt(key, iv, ct)


# ---------------------------------------------------------------------------------------------
# belt-kwp
# ---------------------------------------------------------------------------------------------

def kwp_wrap(key, header, x):
    """Y = belt-wblock(X || I, K); a missing header is the zero header"""
    header = bytes(16) if header is None else bytes(header)
    if len(x) < 16 or len(header) != 16:
        raise ValueError("KWP: key to protect >= 16 octets, header 16 octets")
    return wbl_encr(key, bytes(x) + header)


def kwp_unwrap(key, header, token):
    """(X || r) = belt-wblock^-1(Y, K); X is returned iff r == I"""
    header = bytes(16) if header is None else bytes(header)
    if len(token) < 32 or len(header) != 16:
        raise ValueError("KWP: token >= 32 octets, header 16 octets")
    xr = wbl_decr(key, token)
    if xr[-16:] != header:
        return None
    return xr[:-16]


# ---------------------------------------------------------------------------------------------
# belt-hash
# ---------------------------------------------------------------------------------------------

def hash(x):
    """r = <|X|>_128, s = 0, h = H[0..31]; X zero-padded to whole 256-bit blocks;
    (t, h) = belt-compress(Xi || h), s ^= t;  Y = second part of belt-compress(r || s || h)"""
    x = bytes(x)
    r = _to_le(8 * len(x), 16)
    s = bytes(16)
    h = H[0:32]
    for b in _blocks(x, 32):
        b = b + bytes(32 - len(b))
        t, h = compress(b + h)
        s = _xor(s, t)
    return compress(r + s + h)[1]


# ---------------------------------------------------------------------------------------------
# belt-bde, belt-sde (disk encryption)
# ---------------------------------------------------------------------------------------------

def bde_encr(key, iv, x):
    """s = F(S); for every block: s = s * C, Yi = F(Xi ^ s) ^ s"""
    if len(x) < 16 or len(x) % 16 or len(iv) != 16:
        raise ValueError("BDE: whole number (>= 1) of 16-octet blocks, 16-octet iv")
    s = block_encr(key, bytes(iv))
    Y = []
    for b in _blocks(bytes(x), 16):
        s = _mul(s, _C)
        Y.append(_xor(block_encr(key, _xor(b, s)), s))
    return b"".join(Y)


def bde_decr(key, iv, y):
    if len(y) < 16 or len(y) % 16 or len(iv) != 16:
        raise ValueError("BDE: whole number (>= 1) of 16-octet blocks, 16-octet iv")
    s = block_encr(key, bytes(iv))
    X = []
    for b in _blocks(bytes(y), 16):
        s = _mul(s, _C)
        X.append(_xor(block_decr(key, _xor(b, s)), s))
    return b"".join(X)


def _sde_mask(s, x):
    """x ^ (s || 0...0): s is added to the first block only"""
    return _xor(x[:16], s) + x[16:]


def sde_encr(key, iv, x):
    """s = F(S); Y = belt-wblock(X ^ (s || 0..)) ^ (s || 0..); a sector is >= 2 whole blocks"""
    if len(x) < 32 or len(x) % 16 or len(iv) != 16:
        raise ValueError("SDE: whole number (>= 2) of 16-octet blocks, 16-octet iv")
    s = block_encr(key, bytes(iv))
    return _sde_mask(s, wbl_encr(key, _sde_mask(s, bytes(x))))


def sde_decr(key, iv, y):
    if len(y) < 32 or len(y) % 16 or len(iv) != 16:
        raise ValueError("SDE: whole number (>= 2) of 16-octet blocks, 16-octet iv")
    s = block_encr(key, bytes(iv))
    return _sde_mask(s, wbl_decr(key, _sde_mask(s, bytes(y))))


# ---------------------------------------------------------------------------------------------
# belt-fmt (format preserving encryption)
# ---------------------------------------------------------------------------------------------

def block32_encr(key, x):
    """belt-32block: encryption of a 192-bit block r = r1 || r2 || r3 (64-bit parts), three rounds
    i = 1, 2, 3:  (r2 || r3) = F(r2 || r3) ^ <i>_128;  r1 = r1 ^ r2;  r = r2 || r3 || r1."""
    if len(x) != 24:
        raise ValueError("belt-32block input must be 24 octets")
    r1, r2, r3 = _blocks(bytes(x), 8)
    for i in (1, 2, 3):
        t = _xor(block_encr(key, r2 + r3), _to_le(i, 16))
        r2, r3 = t[:8], t[8:]
        r1 = _xor(r1, r2)
        r1, r2, r3 = r2, r3, r1
    return r1 + r2 + r3


def fmt_blocks(mod, count):
    """b = ceil(count * log2(mod) / 64): the minimal number of 64-bit blocks that hold a word of
    ZZ_mod^count (exact integer arithmetic: the least b with mod^count <= 2^(64 b))."""
    bits = (mod ** count - 1).bit_length()       # = ceil(log2(mod^count))
    return max(1, (bits + 63) // 64)


def _str2num(mod, w):
    """word (w1, ..., wk) of ZZ_mod^k -> number w1 + w2 mod + ... + wk mod^(k-1)"""
    v = 0
    for d in reversed(w):
        v = v * mod + d
    return v


def _num2str(mod, v, k):
    """first k digits of the number v in base mod (i.e. v mod mod^k as a word)"""
    w = []
    for _ in range(k):
        w.append(v % mod)
        v //= mod
    return w


def _fmt_F(key, data):
    """encryption of b + 1 64-bit blocks: belt-block (b = 1), belt-32block (b = 2), belt-wblock"""
    if len(data) == 16:
        return block_encr(key, data)
    if len(data) == 24:
        return block32_encr(key, data)
    return wbl_encr(key, data)


def _fmt_setup(key, mod, iv, src):
    _check_key(key)
    n = len(src)
    if not (2 <= mod <= 65536 and 2 <= n <= 600):
        raise ValueError("FMT: 2 <= mod <= 65536, 2 <= count <= 600")
    if any(not (0 <= d < mod) for d in src):
        raise ValueError("FMT: symbol outside the alphabet")
    iv = bytes(16) if iv is None else bytes(iv)
    if len(iv) != 16:
        raise ValueError("iv must be 16 octets")
    n1, n2 = (n + 1) // 2, n // 2
    b1, b2 = fmt_blocks(mod, n1), fmt_blocks(mod, n2)
    # six 32-bit tweak words: <mod>_16 || <count>_16 || S || <mod>_16 || <count>_16
    fmt = _to_le(mod % 65536, 2) + _to_le(n, 2)
    tweak = _blocks(fmt + iv + fmt, 4)
    const = _blocks(H[0:24], 4)
    return n1, n2, b1, b2, tweak, const


def _fmt_round_value(key, mod, half, b, c, t, k):
    """bin2str_k( F( str2bin(half, 64 b bits) || c || t ) )"""
    data = _to_le(_str2num(mod, half), 8 * b) + c + t
    return _num2str(mod, _le(_fmt_F(key, data)), k)


def fmt_encr(key, mod, iv, src):
    """X = X1 || X2, |X1| = n1 = ceil(n/2), |X2| = n2 = floor(n/2); three rounds i = 0, 1, 2:
        X1 = X1 + str(F(bin_{b2}(X2) || H[8i..8i+3]   || T_{2i}))     (digit-wise mod `mod`)
        X2 = X2 + str(F(bin_{b1}(X1) || H[8i+4..8i+7] || T_{2i+1}))"""
    src = list(src)
    n1, n2, b1, b2, T, C = _fmt_setup(key, mod, iv, src)
    x1, x2 = src[:n1], src[n1:]
    for i in range(3):
        y = _fmt_round_value(key, mod, x2, b2, C[2 * i], T[2 * i], n1)
        x1 = [(u + v) % mod for u, v in zip(x1, y)]
        y = _fmt_round_value(key, mod, x1, b1, C[2 * i + 1], T[2 * i + 1], n2)
        x2 = [(u + v) % mod for u, v in zip(x2, y)]
    return x1 + x2


def fmt_decr(key, mod, iv, src):
    src = list(src)
    n1, n2, b1, b2, T, C = _fmt_setup(key, mod, iv, src)
    x1, x2 = src[:n1], src[n1:]
    for i in (2, 1, 0):
        y = _fmt_round_value(key, mod, x1, b1, C[2 * i + 1], T[2 * i + 1], n2)
        x2 = [(u - v) % mod for u, v in zip(x2, y)]
        y = _fmt_round_value(key, mod, x2, b2, C[2 * i], T[2 * i], n1)
        x1 = [(u - v) % mod for u, v in zip(x1, y)]
    return x1 + x2


# ---------------------------------------------------------------------------------------------
# belt-keyrep
# ---------------------------------------------------------------------------------------------

# r depends on (|X|, m) in bits (table of the standard)
KRP_R = {
    (128, 128): "B194BAC8",
    (192, 128): "5BE3D612", (192, 192): "5CB0C0FF",
    (256, 128): "E12BDC1A", (256, 192): "C1AB7638", (256, 256): "F33C657B",
}


def krp(key, level, header, outlen):
    """belt-keyrep: Y = L_m(second part of belt-compress(r || D || I || belt-keyexpand(X)))"""
    _check_key(key)
    if outlen not in (16, 24, 32) or outlen > len(key):
        raise ValueError("KRP: output length 16/24/32 and <= input length")
    if len(level) != 12 or len(header) != 16:
        raise ValueError("KRP: level 12 octets, header 16 octets")
    r = bytes.fromhex(KRP_R[(8 * len(key), 8 * outlen)])
    return compress(r + bytes(level) + bytes(header) + key_expand(key))[1][:outlen]


# ---------------------------------------------------------------------------------------------
# hmac-hbelt (STB 34.101.47) and PBKDF2 (STB 34.101.45, annex E)
# ---------------------------------------------------------------------------------------------

def hmac(key, x):
    """HMAC over belt-hash, block length 32 octets"""
    key = bytes(key)
    if len(key) > 32:
        key = hash(key)
    key = key + bytes(32 - len(key))
    ipad = bytes(k ^ 0x36 for k in key)
    opad = bytes(k ^ 0x5C for k in key)
    return hash(opad + hash(ipad + bytes(x)))


def pbkdf2(pwd, iter, salt):
    """PBKDF2 with hmac-hbelt, one 32-octet output block (block index 1, big-endian)"""
    if iter < 1:
        raise ValueError("iter must be positive")
    t = hmac(pwd, bytes(salt) + (1).to_bytes(4, "big"))
    key = t
    for _ in range(iter - 1):
        t = hmac(pwd, t)
        key = _xor(key, t)
    return key


# ---------------------------------------------------------------------------------------------
# self-test
# ---------------------------------------------------------------------------------------------

def selftest(slow=False, verbose=False):
    """Checks every belt vector of /repo/test/belt_test.c (see vectors_belt.py).
    slow=True adds the 10000-iteration PBKDF2 vectors of bign_test.c."""
    import importlib.util
    import os
    import sys
    path = os.path.join(os.path.dirname(os.path.abspath(__file__)), "vectors_belt.py")
    spec = importlib.util.spec_from_file_location("pyref_vectors_belt", path)
    vectors_belt = importlib.util.module_from_spec(spec)
    spec.loader.exec_module(vectors_belt)
    n = vectors_belt.run(sys.modules[__name__], slow=slow, verbose=verbose)
    if verbose:
        print("%d checks passed" % n)
    return True


if __name__ == "__main__":
    import sys
    selftest(slow="--slow" in sys.argv, verbose="-v" in sys.argv)
    print("OK")
