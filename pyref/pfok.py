"""Draft RD RB (STB 1176.2-99 style) key agreement in the Montgomery group B_p (bee2: pfok.h) -- reference model.

Written from the doc comments of /repo/include/bee2/crypto/pfok.h:
  * B_p: residues mod p with the Montgomery product  u o v = u v R^(-1) mod p,  R = 2^(l + 2);
  * u^(v): Montgomery product of v copies of u; u^(0) is the unit e = R mod p of the group;
  * numbers are used as they are ("pure" Montgomery arithmetic): nothing is converted into or out
    of Montgomery form;  hence  u^(v) = R (u R^(-1))^v mod p;
  * privkey: O_OF_B(r) octets little-endian, r-bit number; pubkey: O_OF_B(l) octets little-endian;
    shared key: the n low bits of the group element, O_OF_B(n) octets little-endian.

NOTE: the section "pfok-params" of pfok.h says "g has order q in B_p", the description of pfokParamsVal()
says "g has order p - 1"; the test method vectors (PFOK.GENG) agree with the second reading
(g^(q) differs from the unit and from g), which params_val() follows.
"""


class Params:
    def __init__(self, name, l, r, n, p, g):
        self.name, self.l, self.r, self.n, self.p, self.g = name, l, r, n, p, g
        self.R = 1 << (l + 2)
        self.Rinv = pow(self.R, -1, p)          # R^(-1) mod p
        self.lo = (l + 7) // 8
        self.ro = (r + 7) // 8
        self.no = (n + 7) // 8

    def __repr__(self):
        return "pfok.Params(%s, l=%d)" % (self.name, self.l)


# table 5.1: admissible (l, r)
LR = dict(zip(
    (638, 702, 766, 862, 958, 1022, 1118, 1214, 1310, 1438, 1534, 1662, 1790, 1918, 2046, 2174, 2334, 2462, 2622, 2782, 2942),
    (130, 136, 141, 149, 154, 161, 168, 175, 181, 188, 194, 201, 208, 214, 221, 225, 234, 240, 246, 253, 259)))

PARAMS = {}


def _add(name, l, r, n, p, g):
    PARAMS[name] = Params(name, l, r, n, p, g)


# "test" (l = 638) and table V.3 of STB 34.101.50; numbers from the tables of pfok.c (little-endian octets)
_add("test", 638, 130, 256,
     int(
        "000000000000000000000000000000002AF791AB86AAAB75E137E73B4BF2B775"
        "9DD8FAFBE06C0E3E3C1FAEDC517FE977F9F83C0B3B331211775955AE67B45680"
        "65DCE3BA598A05906F8A82FA663CAE1693376170A847B8BEEB6BCBB1B43F60DF", 16),
     int(
        "000000000000000000000000000000002A43D397C53381B8DF24E90A544F7328"
        "50477F2F4527997CBA3B353C2E6DF0015E21E78D19A8DD8E12D1F543CCB1C1BD"
        "8E21B0850EF05196DCF90E2B9A5880F611D6BC691621B759772E10E2715036EA", 16))

_add("1.2.112.0.2.0.1176.2.3.3.2", 1022, 161, 256,
     int(
        "339617C538F666A480AF8C8C8B509E784EE3E69342B83E64746698346E87E566"
        "77FE1E5D5E7E6A48A69DCB2751EBE9AB7868C2E72B0510EE4BC19B98050C240E"
        "94AB14A2E8B7809CB62710D880AB0B4F721683ABEC19D2482CE567A6BF04B627"
        "650717C4ECCBEA3F7BBE822CEADE426EE067C74EABC53F84177655D731BE5E6F", 16),
     int(
        "322A3AD350DCFEC8690DBCA0A2EED3D8698711A30F10B53B675880C418065E6C"
        "FF17541F58824CD8CD8CE48BC272E6F3548349A434CEE725AC9856B580465F39"
        "C7E6FFC285EB7813D47DE1C3C3F02BE79A600C026A8141EA7A7D0A642F80ECA6"
        "D7CAB616991445FA03C63CEEA5FB882EE4CB61CD9553FB5C1B1A371DFB084D69", 16))

_add("1.2.112.0.2.0.1176.2.3.6.2", 1534, 194, 256,
     int(
        "397C1F506BA9F5A52D054BD48CDF3A50D54ECA88B56C5E1C7878AA6158E75594"
        "BBBF6530B14DE91FE1EB51ADCC02D266CBE0AD2B6B06929EE0005CF477E639AD"
        "A01D822446D28598E07CF4A1449708744557090DC377A574BB3888969FA8061A"
        "8C3EFA6F2E9A253A79043CB4CFECC74CDCC1BE1B580F703BD985C8220540952E"
        "FA197328F894400FC7E08FFA61461B49F0B169A7AAB8BF1BACF27E357A3F2E42"
        "2DF51764F62E14B536BFCB4235BFE134A5AF660A45B15F322DF469ED7B1451C7", 16),
     int(
        "24E7A8B65E3E90EF6BE3F4BDF98421B441DA4D0BB3CBA7CC9AD0F766EE7D6FFD"
        "3C3A138F7BC825AFC3A957B7EE47C5C78B587DD81EBF5047C17662D973D7A0CD"
        "D288AD561322E5D10825F9E1AFB4D3973AC51532C798D70D972B090633B100A3"
        "4554C6B7B76D201A3A313E59B0F9C6C8F64B85A6A04D53E218CEF699EC01CC1B"
        "6074E54E64FD716A8C78DF2213A4FCCEE421C5255E71D8A1D834F9947B5E9BE2"
        "B4402CEE3F5431761D35DFD7C2740F78C5922EB748CE23BD5AE7EB48F34885B2", 16))

_add("1.2.112.0.2.0.1176.2.3.10.2", 2462, 240, 256,
     int(
        "00000000000000000000000020A8F485EA81C26FAF8F13A0AA206B38D0C365EE"
        "26C0AD12A0DD8C08230FED3AD80AB6A99B9292EC694A599B931F8F7F4631ED9C"
        "94EAF4B1161054961C6942CF2DE4F1DA22F33DA1EB7D2387218D34E53D38052D"
        "F6D7A48EB772023BE5B1ADF0B68BB6DF5139267F66ABD05BA358AE40AF7433EE"
        "1FF470C14E2711F2DCF99F2653F6B9B4516FA3C13936A1D1A8462E5FE163DD11"
        "0C019B75D9B2A3A6FF5647E64150456942648597F429BF52F8E95B08379A3CD5"
        "C4001356A8E452EF9ACDECC336204BDE3A2FB5638ED3B00521FDA08F0914BAFC"
        "F1417B39F5E0C40D2DAD92AE73AE16E01CBF075EA9E6680B6893843637DE1FED"
        "4DFEA45827C8C6333AFA29B823081AA68EDF3338C64A7F92A6086539945E8C90"
        "6AA603D81733E22075BB823E120CE8E1FC74AE654799F9569C152D29654A80DB", 16),
     int(
        "000000000000000000000000038364E5FAC2395762450601442E4B94ED79F195"
        "26E2B6759A42AD96848F8E826D413D73613E8D100CE60AA5D90241B97E342BC9"
        "873D8823110F547C975752768D29A886A9469E039135F249C2B2180C284C4E58"
        "E526398D67BBBA9F1396F5844F5552D4AB822271486C6A041ECD4169E33FD26C"
        "5AC8DBB5DDB3E62B1FAEB900873B92C0C29A7C9A95276FCC8C8F11F14C173894"
        "0AEF96677BD9C7093A1BB08A58C4DDB6FC6AB4651620BA3296707E7CAA6DCF0A"
        "B5F7049F54EB2E67016A03F474F87AA948D6087A94D555573853B7FBC4679C19"
        "945E30E28464DDD93B32967C6D446EF4446387BFAE13CE809BA68838335C96A6"
        "4EF466D90F19D5DA51B8AF3B10C66A5FD7A0406D7451A950D7BF9697FDFDF4F9"
        "9798E0D7904ABC392A25B52E30E6F804DE2C12747B32F32E04CD277C4996E114", 16))


# ----------------------------------------------------------------------------
# the Montgomery group
# ----------------------------------------------------------------------------

def mont_mul(prm, u, v):
    """u o v = u v R^(-1) mod p"""
    return u * v * prm.Rinv % prm.p


def mont_unit(prm):
    return prm.R % prm.p


def mont_pow(prm, u, v):
    """u^(v): the product of v copies of u (the unit for v = 0), by square and multiply"""
    assert v >= 0
    res = mont_unit(prm)
    for bit in bin(v)[2:] if v else "":
        res = mont_mul(prm, res, res)
        if bit == "1":
            res = mont_mul(prm, res, u)
    return res


def _is_prime(n):
    if n < 2:
        return False
    for sp in (2, 3, 5, 7, 11, 13, 17, 19, 23, 29, 31, 37):
        if n % sp == 0:
            return n == sp
    d, s = n - 1, 0
    while d % 2 == 0:
        d //= 2
        s += 1
    for a in (2, 3, 5, 7, 11, 13, 17, 19, 23, 29, 31, 37, 41, 43, 47, 53):
        x = pow(a, d, n)
        if x in (1, n - 1):
            continue
        for _ in range(s - 1):
            x = x * x % n
            if x == n - 1:
                break
        else:
            return False
    return True


def params_val(prm):
    """pfokParamsVal conditions: (l, r) from table 5.1, n < l, p an l-bit prime, q = (p-1)/2 prime,
    0 < g < p, g of order p - 1 in B_p (i.e. g^(q) is neither the unit nor g -- see NOTE)."""
    p, q = prm.p, (prm.p - 1) // 2
    if LR.get(prm.l) != prm.r or not prm.n < prm.l:
        return False
    if p.bit_length() != prm.l or not _is_prime(p) or not _is_prime(q):
        return False
    if not 0 < prm.g < p:
        return False
    gq = mont_pow(prm, prm.g, q)
    return gq != mont_unit(prm) and gq != prm.g


# ----------------------------------------------------------------------------
# keys
# ----------------------------------------------------------------------------

def _le(v):
    return int.from_bytes(v, "little") if isinstance(v, (bytes, bytearray)) else int(v)


def privkey_ok(prm, d):
    """an r-bit number held in O_OF_B(r) octets"""
    if isinstance(d, (bytes, bytearray)) and len(d) != prm.ro:
        return False
    return 0 <= _le(d) < 1 << prm.r


def pubkey_val(prm, Q):
    """0 < Q < p"""
    if isinstance(Q, (bytes, bytearray)) and len(Q) != prm.lo:
        return False
    return 0 < _le(Q) < prm.p


def pubkey_calc(prm, d):
    """pubkey = g^(privkey)"""
    if not privkey_ok(prm, d):
        raise ValueError("bad privkey")
    return mont_pow(prm, prm.g, _le(d)).to_bytes(prm.lo, "little")


def keypair_from_tape(prm, tape):
    """x <-R {0, 1, ..., 2^r - 1}: O_OF_B(r) octets from the generator, bits above r dropped"""
    tape = bytes(tape)
    if len(tape) < prm.ro:
        raise EOFError("tape exhausted")
    d = int.from_bytes(tape[:prm.ro], "little") & ((1 << prm.r) - 1)
    priv = d.to_bytes(prm.ro, "little")
    return priv, pubkey_calc(prm, priv)


# ----------------------------------------------------------------------------
# protocols
# ----------------------------------------------------------------------------

def _low_bits(prm, v):
    return (v & ((1 << prm.n) - 1)).to_bytes(prm.no, "little")


def dh(prm, d, Q):
    """the n low bits of Q^(d)   (protocols 4.1 and 4.3)"""
    if not privkey_ok(prm, d):
        raise ValueError("bad privkey")
    if not pubkey_val(prm, Q):
        raise ValueError("bad pubkey")
    return _low_bits(prm, mont_pow(prm, _le(Q), _le(d)))


def mti(prm, d, u, Q_peer, V_peer):
    """the n low bits of  V_peer^(d) xor Q_peer^(u)   (protocol 4.2)
    d: long-term private key, u: one-time private key, Q_peer / V_peer: the peer's long-term / one-time public keys"""
    if not privkey_ok(prm, d) or not privkey_ok(prm, u):
        raise ValueError("bad privkey")
    if not pubkey_val(prm, Q_peer) or not pubkey_val(prm, V_peer):
        raise ValueError("bad pubkey")
    return _low_bits(prm, mont_pow(prm, _le(V_peer), _le(d)) ^ mont_pow(prm, _le(Q_peer), _le(u)))


# ----------------------------------------------------------------------------
# vectors of /repo/test/crypto/pfok_test.c (NII PPMI test method: PFOK.ANON.1-2, PFOK.AUTH.1-2)
# ----------------------------------------------------------------------------

def _rev(h):
    return bytes.fromhex(h)[::-1]


def selftest():
    done = []
    for prm in PARAMS.values():
        assert params_val(prm), prm
    done.append("PFOK.GENG.1-4 positive part (g valid for the 4 parameter sets)")
    # PFOK.GENG.n negative parts: g + 2, g + 3, g + 1, g + 1 are not generators
    for name, inc in (("test", 2), ("1.2.112.0.2.0.1176.2.3.3.2", 3), ("1.2.112.0.2.0.1176.2.3.6.2", 1), ("1.2.112.0.2.0.1176.2.3.10.2", 1)):
        prm = PARAMS[name]
        assert (prm.g & 0xFF) + inc < 256
        bad = Params(name, prm.l, prm.r, prm.n, prm.p, prm.g + inc)
        assert not params_val(bad), name
    done.append("PFOK.GENG.1-4 negative part")
    prm = PARAMS["test"]
    # PFOK.ANON.1
    ua = _rev("011D4665B357DB361D106E32E353CD534B")
    vb = _rev("0739539C2AE25B53A05C8D16A14351D8EA86A1DD1893E08EE4A266F970E0243F"
              "8DF27F738F64E99E262E337792E5DD847CF2A83362C6EC3C024E47313AA49A1E"
              "0A2E637AD35E31EB5F034D889B666701")
    assert pubkey_val(prm, vb)
    assert dh(prm, ua, vb) == _rev("777BB35E950D3080C1E896BE4172DBD061423D3BFEF78F15E3F7A7F2FF7A242B")
    # PFOK.ANON.2
    ua = _rev("000530110167E1443819A8662A0FAB7AC0")
    vb = _rev("1590312CBACB7B21FC0B173DC100AC5D8692E04813CA2F87A5763E3F4940B10C"
              "DF3F2B3ECDF28BE4BEA9363B07A8A8A3BFDDE074DCF36D669A56931D083FC3BE"
              "46D02CC8EF719EF66AE47F57BEAE8E02")
    assert pubkey_val(prm, vb)
    assert dh(prm, ua, vb) == _rev("46FA834B28D5E5D4183E28646AFFE806803E4C865CB99B1C423B0F1C78DE758D")
    done.append("PFOK.ANON.1-2")
    # PFOK.AUTH.1
    xa = _rev("0078E7101B4A8F421D2AF5740D6ED27680")
    yb = _rev("193E5E1E0839091BC7ABBDD09E8D22988812D37EDEB39E077130A244888BE1A7"
              "53337AB5743C898D1CFC94743081344816AF5189A4E84D5B6EA310F72534D2E5"
              "E531B579CEA862EAB0251A3C20F0EC1D")
    ua = _rev("0127E33C0D7595566570936FEF0AA53A24")
    vb = _rev("0947264BEFA107E99616F347B6A05C62D7F5F26804D848FC4A7D81915F4546DD"
              "22949C07131D84F8B5A73A60ED61BC6E158E9B83F38C1EE6AD97F2BF771AA4FF"
              "B10A38298498D943995697FD0F65284C")
    assert pubkey_val(prm, yb) and pubkey_val(prm, vb)
    assert mti(prm, xa, ua, yb, vb) == _rev("EA92D5BCEC18BB44514E096748DB3E21D6E7B9C97D604699BEA7D3B96C87E18B")
    # PFOK.AUTH.2
    xa = _rev("0005773C812D6F2A002D4E3EAC643C2CF3")
    yb = _rev("221CBFEB62F4AA3204D349B3D57E45E4C9BA601483CF9DDE4DD1AE1CC2694149"
              "F08765C5CCAEBD44B7B7D0F1783F9FDD2929523E1CEF2A46FBD419C5E5E2E712"
              "4099B405E0B90A5FB15A56F439DA47D1")
    ua = _rev("013BB0377B3C0E55577A0D4A43627C6EC2")
    vb = _rev("2740ECD0631257DD8124DC38CFAC3DEF7162503B7F7C8DEC6478408B225D4C05"
              "56E566AF50661CE2F46662FC66DC429ACCF65D95E4F90BDCD08A11957C898EE2"
              "C2B77231929ACE9649B2C184CC9D8104")
    assert pubkey_val(prm, yb) and pubkey_val(prm, vb)
    assert mti(prm, xa, ua, yb, vb) == _rev("5A4C323604206C8898BF6C234F75A537DF75E9A249D87F1E55CBD7B40C4FDAFA")
    done.append("PFOK.AUTH.1-2")
    # symmetry of the protocols in the model itself
    a, b = 0x1234567890ABCDEF1234567890ABCDEF1, 0x0FEDCBA0987654321FEDCBA098765432
    assert dh(prm, a, pubkey_calc(prm, b)) == dh(prm, b, pubkey_calc(prm, a))
    done.append("SKIPPED: PFOK.GENP.1-4 (parameter generation from seeds, algorithms 5.2/5.3) is not modelled; "
                "keypair generation in the test uses prngCOMBO with a time-based nonce")
    return done


if __name__ == "__main__":
    print("pfok selftest:", selftest())
