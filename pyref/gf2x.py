"""GF(2)[x] with polynomials as Python ints (bit i = coefficient of x^i).
Plain schoolbook algorithms, written for obviousness."""


def deg(a):
    return a.bit_length() - 1


def mul(a, b):
    r = 0
    while b:
        if b & 1:
            r ^= a
        a <<= 1
        b >>= 1
    return r


def divmod_(a, b):
    assert b
    q = 0
    db = deg(b)
    while a and deg(a) >= db:
        s = deg(a) - db
        q ^= 1 << s
        a ^= b << s
    return q, a


def mod(a, b):
    return divmod_(a, b)[1]


def gcd(a, b):
    while b:
        a, b = b, mod(a, b)
    return a


def exgcd(a, b):
    """returns (d, u, v) with a*u + b*v = d"""
    r0, r1, u0, u1, v0, v1 = a, b, 1, 0, 0, 1
    while r1:
        q, r = divmod_(r0, r1)
        r0, r1 = r1, r
        u0, u1 = u1, u0 ^ mul(q, u1)
        v0, v1 = v1, v0 ^ mul(q, v1)
    return r0, u0, v0


def mulmod(a, b, m):
    return mod(mul(a, b), m)


def powmod(a, e, m):
    r = 1
    a = mod(a, m)
    while e:
        if e & 1:
            r = mulmod(r, a, m)
        a = mulmod(a, a, m)
        e >>= 1
    return mod(r, m)


def invmod(a, m):
    d, u, _ = exgcd(mod(a, m), m)
    return mod(u, m) if d == 1 else 0


def is_irred(f):
    """Rabin's irreducibility test over GF(2)"""
    n = deg(f)
    if n <= 0:
        return False
    if n == 1:
        return True
    # x^(2^n) == x mod f, and gcd(x^(2^(n/p)) - x, f) == 1 for primes p | n
    primes = [p for p in range(2, n + 1) if n % p == 0 and all(p % q for q in range(2, int(p ** 0.5) + 1))]
    x = 2
    t = x
    pw = {}
    want = {n // p for p in primes}
    for i in range(1, n + 1):
        t = mulmod(t, t, f)
        if i in want:
            pw[i] = t
    if t != mod(x, f):
        return False
    for k, v in pw.items():
        if gcd(v ^ x, f) != 1:
            return False
    return True


def is_irred_brute(f):
    n = deg(f)
    if n <= 0:
        return False
    for d in range(2, 1 << (n // 2 + 1)):
        if deg(d) >= 1 and deg(d) <= n // 2 and mod(f, d) == 0:
            return False
    return True


def minpoly_seq(bits):
    """Berlekamp-Massey over GF(2): minimal (connection) polynomial of the bit sequence s_0.. (list of 0/1).
    Returns polynomial C with C(x) = x^L + c_1 x^(L-1) + ... (characteristic form), as int."""
    n = len(bits)
    c = [1] + [0] * n
    b = [1] + [0] * n
    L, m = 0, -1
    for i in range(n):
        d = bits[i]
        for j in range(1, L + 1):
            d ^= c[j] & bits[i - j]
        if d:
            t = c[:]
            for j in range(0, n - (i - m) + 1):
                if b[j]:
                    c[j + i - m] ^= 1
            if 2 * L <= i:
                L = i + 1 - L
                m = i
                b = t
    # characteristic polynomial x^L + c1 x^(L-1) + ... + cL
    r = 0
    for j in range(L + 1):
        if c[j]:
            r |= 1 << (L - j)
    return r


def selftest():
    import random
    rnd = random.Random(1)
    for _ in range(200):
        a = rnd.getrandbits(rnd.randrange(1, 200))
        b = rnd.getrandbits(rnd.randrange(1, 200)) | 1
        q, r = divmod_(a, b)
        assert mul(q, b) ^ r == a and (r == 0 or deg(r) < deg(b))
        d, u, v = exgcd(a, b)
        assert mul(a, u) ^ mul(b, v) == d
        if a:
            assert mod(a, d) == 0 and mod(b, d) == 0
    for f in range(2, 1 << 11):
        assert is_irred(f) == is_irred_brute(f), f
    assert is_irred((1 << 128) | 0x87)
    return True


if __name__ == "__main__":
    print(selftest())
