"""Test vectors of /repo/test/crypto/belt_test.c (annex A of STB 34.101.31, annex B of STB 34.101.47)
for the reference model pyref/belt.py.  Data of the tests are slices of the S-box table H
(beltH() + k in the C test is H[k:]); expected values are copied as hex literals.

run(m) takes the belt model module, raises AssertionError with a clear message on a mismatch and
returns the number of checks done."""


class _Checker:
    def __init__(self, verbose=False):
        self.n = 0
        self.verbose = verbose

    def eq(self, name, got, want):
        if isinstance(want, str):
            want = bytes.fromhex(want)
        if isinstance(got, (bytes, bytearray)):
            got = bytes(got)
            show = lambda v: v.hex().upper() if isinstance(v, bytes) else repr(v)
        else:
            show = repr
        if got != want:
            raise AssertionError("belt vector %s: got %s, expected %s" % (name, show(got), show(want)))
        self.n += 1
        if self.verbose:
            print("ok  ", name)


def run(m, slow=False, verbose=False):
    c = _Checker(verbose)
    H = m.H
    K1 = H[128:160]           # key of the "encryption" tests      (beltH() + 128)
    K2 = H[160:192]           # key of the "decryption" tests      (beltH() + 128 + 32)
    S1 = H[192:208]           # iv of the "encryption" tests       (beltH() + 192)
    S2 = H[208:224]           # iv of the "decryption" tests       (beltH() + 192 + 16)

    # belt-H: generated table against the literal table of the standard
    c.eq("H (generated vs Table 1)", H, m.H_TABLE)
    c.eq("H is a permutation", sorted(H), list(range(256)))

    # belt-block: A.1 (the C test repeats it through three interfaces), A.4
    y = m.block_encr(K1, H[0:16])
    c.eq("A.1 block_encr", y, "69CCA1C93557C9E3D66BC3E0FA88FA6E")
    c.eq("A.1 block_decr(block_encr)", m.block_decr(K1, y), H[0:16])
    x = m.block_decr(K2, H[64:80])
    c.eq("A.4 block_decr", x, "0DC5300600CAB840B38448E5E993F421")
    c.eq("A.4 block_encr(block_decr)", m.block_encr(K2, x), H[64:80])

    # belt-wblock: A.6-1, A.6-2, A.7-1, A.7-2
    c.eq("A.6-1 wbl_encr 48", m.wbl_encr(K1, H[0:48]),
         "49A38EE108D6C742E52B774F00A6EF98"
         "B106CBD13EA4FB0680323051BC04DF76"
         "E487B055C69BCF541176169F1DC9F6C8")
    c.eq("A.6-2 wbl_encr 47", m.wbl_encr(K1, H[0:47]),
         "F08EF22DCAA06C81FB12721974221CA7"
         "AB82C62856FCF2F9FCA006E019A28F16"
         "E5821A51F573594625DBAB8F6A5C94")
    c.eq("A.7-1 wbl_decr 48", m.wbl_decr(K2, H[64:64 + 48]),
         "92632EE0C21AD9E09A39343E5C07DAA4"
         "889B03F2E6847EB152EC99F7A4D9F154"
         "B5EF68D8E4A39E567153DE13D72254EE")
    c.eq("A.7-2 wbl_decr 36", m.wbl_decr(K2, H[64:64 + 36]),
         "DF3F882230BAAFFC92F0566032117231"
         "0E3CB2182681EF43102E67175E177BD7"
         "5E93E4E8")
    # belt-wblock: special (round trip for every length 32..128)
    for count in range(32, 129):
        c.eq("wbl round trip %d" % count, m.wbl_decr(K1, m.wbl_encr(K1, H[0:count])), H[0:count])

    # belt-compress: A.8  (X = H[0:32] || H[32:64])
    s, yy = m.compress(H[0:64])
    c.eq("A.8 compress S", s, "46FE7425C9B181EB41DFEE3E72163D5A")
    c.eq("A.8 compress Y", yy,
         "ED2F5481D593F40D87FCE37D6BC1A2E1"
         "B7D1A2CC975C82D3C0497488C90D99D8")

    # belt-ecb: A.9-1, A.9-2, A.10-1, A.10-2
    c.eq("A.9-1 ecb_encr 48", m.ecb_encr(K1, H[0:48]),
         "69CCA1C93557C9E3D66BC3E0FA88FA6E"
         "5F23102EF109710775017F73806DA9DC"
         "46FB2ED2CE771F26DCB5E5D1569F9AB0")
    c.eq("A.9-2 ecb_encr 47", m.ecb_encr(K1, H[0:47]),
         "69CCA1C93557C9E3D66BC3E0FA88FA6E"
         "36F00CFED6D1CA1498C12798F4BEB207"
         "5F23102EF109710775017F73806DA9")
    c.eq("A.10-1 ecb_decr 48", m.ecb_decr(K2, H[64:64 + 48]),
         "0DC5300600CAB840B38448E5E993F421"
         "E55A239F2AB5C5D5FDB6E81B40938E2A"
         "54120CA3E6E19C7AD750FC3531DAEAB7")
    c.eq("A.10-2 ecb_decr 36", m.ecb_decr(K2, H[64:64 + 36]),
         "0DC5300600CAB840B38448E5E993F421"
         "5780A6E2B69EAFBB258726D7B6718523"
         "E55A239F")

    # belt-cbc: A.11-1, A.11-2, A.12-1, A.12-2
    c.eq("A.11-1 cbc_encr 48", m.cbc_encr(K1, S1, H[0:48]),
         "10116EFAE6AD58EE14852E11DA1B8A74"
         "5CF2480E8D03F1C19492E53ED3A70F60"
         "657C1EE8C0E0AE5B58388BF8A68E3309")
    c.eq("A.11-2 cbc_encr 36", m.cbc_encr(K1, S1, H[0:36]),
         "10116EFAE6AD58EE14852E11DA1B8A74"
         "6A9BBADCAF73F968F875DEDC0A44F6B1"
         "5CF2480E")
    c.eq("A.12-1 cbc_decr 48", m.cbc_decr(K2, S2, H[64:64 + 48]),
         "730894D6158E17CC1600185A8F411CAB"
         "0471FF85C83792398D8924EBD57D03DB"
         "95B97A9B7907E4B020960455E46176F8")
    c.eq("A.12-2 cbc_decr 36", m.cbc_decr(K2, S2, H[64:64 + 36]),
         "730894D6158E17CC1600185A8F411CAB"
         "B6AB7AF8541CF85755B8EA27239F08D2"
         "166646E4")

    # belt-cfb: A.13, A.14
    c.eq("A.13 cfb_encr 48", m.cfb_encr(K1, S1, H[0:48]),
         "C31E490A90EFA374626CC99E4B7B8540"
         "A6E48685464A5A06849C9CA769A1B0AE"
         "55C2CC5939303EC832DD2FE16C8E5A1B")
    c.eq("A.14 cfb_decr 48", m.cfb_decr(K2, S2, H[64:64 + 48]),
         "FA9D107A86F375EE65CD1DB881224BD0"
         "16AFF814938ED39B3361ABB0BF0851B6"
         "52244EB06842DD4C94AA4500774E40BB")

    # belt-ctr: A.15, A.16
    c.eq("A.15 ctr 48", m.ctr(K1, S1, H[0:48]),
         "52C9AF96FF50F64435FC43DEF56BD797"
         "D5B5B1FF79FB41257AB9CDF6E63E81F8"
         "F00341473EAE409833622DE05213773A")
    c.eq("A.16 ctr 44", m.ctr(K2, S2, H[64:64 + 44]),
         "DF181ED008A20F43DCBBB93650DAD34B"
         "389CDEE5826D40E2D4BD80F49A93F5D2"
         "12F6333166456F169043CC5F")

    # belt-mac: A.17-1, A.17-2
    c.eq("A.17-1 mac 13", m.mac(K1, H[0:13]), "7260DA60138F96C9")
    c.eq("A.17-2 mac 48", m.mac(K1, H[0:48]), "2DAB59771B4B16D0")

    # belt-dwp: A.19-1, belt-che: A.19-2
    ct, tag = m.dwp_wrap(K1, S1, H[16:48], H[0:16])
    c.eq("A.19-1 dwp_wrap ct", ct, "52C9AF96FF50F64435FC43DEF56BD797")
    c.eq("A.19-1 dwp_wrap tag", tag, "3B2E0AEB2B91854B")
    ct, tag = m.che_wrap(K1, S1, H[16:48], H[0:15])
    c.eq("A.19-2 che_wrap ct", ct, "BF3DAEAF5D18D2BCC30EA62D2E70A4")
    c.eq("A.19-2 che_wrap tag", tag, "548622B844123FF7")
    # belt-dwp: A.20-1, belt-che: A.20-2
    tag = bytes.fromhex("6A2C2C94C4150DC0")
    pt = m.dwp_unwrap(K2, S2, H[80:112], H[64:80], tag)
    c.eq("A.20-1 dwp_unwrap pt", pt, "DF181ED008A20F43DCBBB93650DAD34B")
    c.eq("A.20-1 dwp_wrap(dwp_unwrap)", m.dwp_wrap(K2, S2, H[80:112], pt), (H[64:80], tag))
    c.eq("A.20-1 dwp_unwrap bad tag", m.dwp_unwrap(K2, S2, H[80:112], H[64:80], bytes(8)), None)
    tag = bytes.fromhex("7D9D4F59D40D197D")
    pt = m.che_unwrap(K2, S2, H[80:112], H[64:84], tag)
    c.eq("A.20-2 che_unwrap pt", pt, "2BABF43EB37B5398A9068F31A3C758B762F44AA9")
    c.eq("A.20-2 che_wrap(che_unwrap)", m.che_wrap(K2, S2, H[80:112], pt), (H[64:84], tag))
    c.eq("A.20-2 che_unwrap bad tag", m.che_unwrap(K2, S2, H[80:112], H[64:84], bytes(8)), None)

    # belt-kwp: A.21, A.22
    c.eq("A.21 kwp_wrap", m.kwp_wrap(K1, H[32:48], H[0:32]),
         "49A38EE108D6C742E52B774F00A6EF98"
         "B106CBD13EA4FB0680323051BC04DF76"
         "E487B055C69BCF541176169F1DC9F6C8")
    c.eq("A.22 kwp_unwrap", m.kwp_unwrap(K2, bytes.fromhex("B5EF68D8E4A39E567153DE13D72254EE"), H[64:112]),
         "92632EE0C21AD9E09A39343E5C07DAA4"
         "889B03F2E6847EB152EC99F7A4D9F154")
    c.eq("A.22 kwp_unwrap wrong header", m.kwp_unwrap(K2, None, H[64:112]), None)

    # belt-hash: A.23-1, A.23-2, A.23-3
    c.eq("A.23-1 hash 13", m.hash(H[0:13]),
         "ABEF9725D4C5A83597A367D14494CC25"
         "42F20F659DDFECC961A3EC550CBA8C75")
    c.eq("A.23-2 hash 32", m.hash(H[0:32]),
         "749E4C3653AECE5E48DB4761227742EB"
         "6DBE13F4A80F7BEFF1A9CF8D10EE7786")
    c.eq("A.23-3 hash 48", m.hash(H[0:48]),
         "9D02EE446FB6A29FE5C982D4B13AF9D3"
         "E90861BC4CEF27CF306BFB0B174A154A")

    # belt-bde: A.24-1, A.25-1
    y = m.bde_encr(K1, S1, H[0:48])
    c.eq("A.24-1 bde_encr 48", y,
         "E9CAB32D879CC50C10378EB07C10F263"
         "07257E2DBE2B854CBC9F38282D59D6A7"
         "7F952001C5D1244F53210A27C216D4BB")
    c.eq("A.24-1 bde_decr(bde_encr)", m.bde_decr(K1, S1, y), H[0:48])
    x = m.bde_decr(K2, S2, H[64:112])
    c.eq("A.25-1 bde_decr 48", x,
         "7041BC226352C706D00EA8EF23CFE46A"
         "FAE118577D037FACDC36E4ECC1F65746"
         "09F236943FB809E1BEE4A1C686C13ACC")
    c.eq("A.25-1 bde_encr(bde_decr)", m.bde_encr(K2, S2, x), H[64:112])

    # belt-sde: A.24-2, A.25-2
    y = m.sde_encr(K1, S1, H[0:48])
    c.eq("A.24-2 sde_encr 48", y,
         "1FCBB01852003D60B66024C508608BAA"
         "2C21AF1E884CF31154D3077D4643CF22"
         "49EB2F5A68E4BA019D90211A81D690D9")
    c.eq("A.24-2 sde_decr(sde_encr)", m.sde_decr(K1, S1, y), H[0:48])
    x = m.sde_decr(K2, S2, H[64:112])
    c.eq("A.25-2 sde_decr 48", x,
         "E9FDF3F788657332E6C46FCF5251B8A6"
         "D43543A93E3233837DB1571183A6EF4D"
         "7FEB5CDF999E1A3F51A5A3381BEB7FA5")
    c.eq("A.25-2 sde_encr(sde_decr)", m.sde_encr(K2, S2, x), H[64:112])

    # belt-fmt: A.26
    word = list(range(21))
    y = m.fmt_encr(K1, 10, S1, word[:10])
    c.eq("A.26-1 fmt_encr mod 10 count 10 (belt-block)", y, [6, 9, 3, 4, 7, 7, 0, 3, 5, 2])
    c.eq("A.26-1 fmt_decr", m.fmt_decr(K1, 10, S1, y), word[:10])
    y = m.fmt_encr(K1, 58, S1, word[:21])
    c.eq("A.26-2 fmt_encr mod 58 count 21 (belt-block / belt-32block)", y,
         [7, 4, 6, 21, 49, 55, 24, 23, 22, 50, 27, 39, 24, 24, 17, 32, 57, 43, 26, 5, 29])
    c.eq("A.26-2 fmt_decr", m.fmt_decr(K1, 58, S1, y), word[:21])
    y = m.fmt_encr(K1, 65536, S1, word[:17])
    c.eq("A.26-3 fmt_encr mod 65536 count 17 (belt-32block / belt-wblock)", y,
         [14290, 31359, 58054, 51842, 44653, 34762, 28652, 48929, 6541, 13788, 7784, 46182, 61098,
          43056, 3564, 21568, 63878])
    c.eq("A.26-3 fmt_decr", m.fmt_decr(K1, 65536, S1, y), word[:17])
    # other FMT tests of belt_test.c: round trips
    for mod, count, iv in ((9, 9, S1), (11, 11, None), (256, 16, S1), (257, 17, S1), (49667, 9, S1)):
        y = m.fmt_encr(K1, mod, iv, word[:count])
        assert all(0 <= d < mod for d in y) and len(y) == count
        c.eq("fmt round trip mod %d count %d" % (mod, count), m.fmt_decr(K1, mod, iv, y), word[:count])

    # belt-keyexpand: A.27-1, A.27-2
    c.eq("A.27-1 key_expand 16", m.key_expand(H[128:144]),
         "E9DEE72C8F0C0FA62DDB49F46F739647"
         "E9DEE72C8F0C0FA62DDB49F46F739647")
    c.eq("A.27-2 key_expand 24", m.key_expand(H[128:152]),
         "E9DEE72C8F0C0FA62DDB49F46F739647"
         "06075316ED247A374B09A17E8450BF66")
    c.eq("key_expand 32", m.key_expand(K1), K1)

    # belt-keyrep: A.28-1, A.28-2, A.28-3
    level = b"\x01" + bytes(11)
    c.eq("A.28-1 krp 32->16", m.krp(K1, level, H[32:48], 16), "6BBBC2336670D31AB83DAA90D52C0541")
    c.eq("A.28-2 krp 32->24", m.krp(K1, level, H[32:48], 24),
         "9A2532A18CBAF145398D5A95FEEA6C82"
         "5B9C197156A00275")
    c.eq("A.28-3 krp 32->32", m.krp(K1, level, H[32:48], 32),
         "76E166E6AB21256B6739397B672B8796"
         "14B81CF05955FC3AB09343A745C48F77")
    # the table of r of belt-keyrep against the rule used by the library (offsets into H)
    for (n, mm), r in m.KRP_R.items():
        off = 4 * (n // 8 - 16) + 2 * (mm // 8 - 16)
        c.eq("krp r table (%d, %d)" % (n, mm), bytes.fromhex(r), H[off:off + 4])

    # hmac-hbelt: B.1-1, B.1-2, B.1-3 (STB 34.101.47)
    c.eq("B.1-1 hmac key 29", m.hmac(H[128:128 + 29], H[192:224]),
         "D4828E6312B08BB83C9FA6535A463554"
         "9E411FD11C0D8289359A1130E930676B")
    c.eq("B.1-2 hmac key 32", m.hmac(H[128:128 + 32], H[192:224]),
         "41FFE8645AEC0612E952D2CDF8DD508F"
         "3E4A1D9B53F6A1DB293B19FE76B1879F")
    c.eq("B.1-3 hmac key 42", m.hmac(H[128:128 + 42], H[192:224]),
         "7D01B84D2315C332277B3653D7EC6470"
         "7EBA7CDFF7FF70077B1DECBD68F2A144")

    # zerosum: X_0 ^ ... ^ X_127 ^ Belt_0(X_0) ^ ... ^ Belt_0(X_127) = 0, X_i = <zerosum[i]>_128
    acc = bytes(16)
    for v in ZEROSUM:
        x = v.to_bytes(16, "little")
        acc = bytes(a ^ b ^ d for a, b, d in zip(acc, x, m.block_encr(bytes(32), x)))
    c.eq("zerosum", acc, bytes(16))

    # PBKDF2: not in belt_test.c; vectors of bign_test.c (STB 34.101.45 E.5 and two "vs OpenSSL")
    if slow:
        c.eq("E.5 pbkdf2 10000", m.pbkdf2(b"B194BAC80A08F53B", 10000, H[192:200]),
             "3D331BBBB1FBBB40E4BF22F6CB9A689E"
             "F13A77DC09ECF93291BFE42439A72E7D")
        c.eq("pbkdf2 zed 2048", m.pbkdf2(b"zed", 2048, bytes.fromhex("49FEFF8076CD9480")),
             "7249B4785FE68B1586D189A23E3842E4"
             "8705C080A3248D8F0E8C3D63A93B2670")
        c.eq("pbkdf2 zed 10000", m.pbkdf2(b"zed", 10000, bytes.fromhex("C65017E4F108BCF0")),
             "E48329259BC1211DDAC2EF1DADFFC993"
             "2702A92F1DD66C14A9BA1D7300C8713C")
    return c.n


ZEROSUM = [
    15014, 124106, 166335, 206478, 313245, 366839, 455597, 502723, 535141, 625112,
    659461, 752253, 801048, 897899, 943850, 1041695, 1101266, 1170856, 1217537,
    1248520, 1366084, 1421171, 1448429, 1514215, 1573855, 1701341, 1738016, 1781705,
    1837300, 1948449, 1999650, 2089289, 2117830, 2175758, 2249930, 2358928, 2404262,
    2447467, 2552783, 2556713, 2678348, 2705770, 2808011, 2827994, 2948039, 2995213,
    3029188, 3096649, 3170243, 3230306, 3285991, 3350691, 3457162, 3500592, 3539783,
    3636611, 3735543, 3752463, 3814136, 3875630, 3935109, 4002291, 4088401, 4129247,
    4257830, 4266427, 4352389, 4397389, 4470348, 4531932, 4598961, 4691323, 4747531,
    4839756, 4900773, 4958368, 5021928, 5099836, 5164752, 5214964, 5269476, 5356247,
    5391667, 5496861, 5561223, 5601750, 5700311, 5761736, 5812345, 5856838, 5956987,
    5966502, 6059392, 6104328, 6193021, 6233226, 6311341, 6369016, 6475468, 6540894,
    6598453, 6666092, 6711620, 6804478, 6834201, 6932158, 6971325, 7059579, 7089192,
    7188715, 7245095, 7325355, 7367748, 7426778, 7475903, 7599231, 7643174, 7722266,
    7747291, 7832837, 7887591, 7942192, 8043937, 8108261, 8169299, 8233361, 8305861,
    8367181,
]
