"""STB 34.101.77 (bash): reference model written from the definitions.

  bash_s   -- the 3-word (192-bit) S-box layer primitive bash-s[m1, n1, m2, n2]
  bash_f   -- the 1536-bit sponge permutation bash-f (24 rounds: 8 x bash-s on the
              columns, word permutation P, LFSR-generated round constant into S23)
  bash_hash(l, data)  -- hashing algorithm of security level l (hash of 2l bits)
  Prg      -- the programmable automaton (commands start, restart, absorb, squeeze,
              encrypt, decrypt, ratchet and the internal commit)

Conventions of the standard used below
  * The state S is a string of 1536 bits = 192 octets = 24 words S0..S23 of 64 bits.
    A word is the little-endian number of its 8 octets.
  * Inside an octet the FIRST bit of the bit string is the MOST significant one, so the
    bit string "01 000000" is the octet 0x40 and "t1..t6 01" is the octet 4*t + 1.
  * <n>_8 / <n>_64 : the number n as 1 / 8 octets, little-endian.
  * RotHi^m : cyclic shift of a 64-bit word towards the high bits by m.

Everything is octet-oriented (the library only handles whole octets).
"""

MASK64 = (1 << 64) - 1


def rot_hi(w, m):
    m %= 64
    return ((w << m) | (w >> (64 - m))) & MASK64


# --------------------------------------------------------------------------- bash-s

def bash_s(w0, w1, w2, m1, n1, m2, n2):
    """bash-s[m1,n1,m2,n2](W0, W1, W2), steps numbered as in the standard."""
    t0 = rot_hi(w0, m1)                                   # 1
    w0 = w0 ^ w1 ^ w2                                     # 2
    t1 = w1 ^ rot_hi(w0, n1)                              # 3
    w1 = t0 ^ t1                                          # 4
    w2 = w2 ^ rot_hi(w2, m2) ^ rot_hi(t1, n2)             # 5
    t0 = ~w2 & MASK64                                     # 6
    t1 = w0 | w2                                          # 7
    t2 = w0 & w1                                          # 8
    t0 = t0 | w1                                          # 9
    w1 = w1 ^ t1                                          # 10
    w2 = w2 ^ t2                                          # 11
    w0 = w0 ^ t0                                          # 12
    return w0, w1, w2


# --------------------------------------------------------------------------- bash-f

# S0 || ... || S23  <-  S15||S10||S9||S12||S11||S14||S13||S8 || S17||S16||S19||S18||S21||S20||S23||S22
#                       || S6||S3||S0||S5||S2||S7||S4||S1
P = [15, 10, 9, 12, 11, 14, 13, 8,
     17, 16, 19, 18, 21, 20, 23, 22,
     6, 3, 0, 5, 2, 7, 4, 1]

C1 = int.from_bytes(bytes.fromhex("B194BAC80A08F53B"), "little")      # first round constant
LFSR_A = int.from_bytes(bytes.fromhex("AED8E07F99E12BDC"), "little")   # feedback word


def next_const(c):
    """C_{t+1}: shift towards the low bits; if a 1 fell out, add the feedback word."""
    return (c >> 1) ^ (LFSR_A if c & 1 else 0)


def bash_f(s192):
    s192 = bytes(s192)
    assert len(s192) == 192
    S = [int.from_bytes(s192[8 * i:8 * i + 8], "little") for i in range(24)]
    C = C1
    for _ in range(24):
        m1, n1, m2, n2 = 8, 53, 14, 1
        for j in range(8):
            S[j], S[8 + j], S[16 + j] = bash_s(S[j], S[8 + j], S[16 + j], m1, n1, m2, n2)
            m1, n1, m2, n2 = 7 * m1 % 64, 7 * n1 % 64, 7 * m2 % 64, 7 * n2 % 64
        S = [S[P[i]] for i in range(24)]
        S[23] ^= C
        C = next_const(C)
    return b"".join(w.to_bytes(8, "little") for w in S)


# --------------------------------------------------------------------------- hashing

def bash_hash(l, data):
    """bash-hash of level l: 2l-bit (l/4 octets) hash value of data."""
    assert l > 0 and l % 16 == 0 and l <= 256
    data = bytes(data)
    r = 192 - l // 2                     # block length: 1536 - 4l bits
    # X || 01 || 0..0 up to a multiple of the block length (at least the two bits 01 are added)
    x = data + b"\x40"
    x += bytes(-len(x) % r)
    # S <- 0^{1536-64} || <l/4>_64
    s = bytes(192 - 8) + (l // 4).to_bytes(8, "little")
    for i in range(0, len(x), r):
        s = bash_f(x[i:i + r] + s[r:])
    return s[:l // 4]


# --------------------------------------------------------------------------- automaton

# 6-bit command codes (the octet put into the state is code || 01)
NULL, KEY, DATA, TEXT, OUT = 0b000000, 0b000001, 0b000010, 0b000011, 0b000100


class Prg:
    """The bash-prg automaton.  Prg(l, d, ann, key) is the command start[l, d](ann, key)."""

    def __init__(self, l, d, ann=b"", key=b""):
        ann, key = bytes(ann), bytes(key)
        assert l in (128, 192, 256) and d in (1, 2)
        self._check_ann_key(l, ann, key)
        self.l, self.d = l, d
        self.keyed = len(key) != 0
        self.r = self._rate()
        # S[..pos) <- <|ann|/2 + |key|/32>_8 || ann || key   (lengths in bits)
        head = bytes([len(ann) * 8 // 2 + len(key) * 8 // 32]) + ann + key
        self.pos = len(head)
        # S[pos..1472) <- 0,  S[1472..) <- <l/4 + d>_64
        self.s = bytearray(head + bytes(184 - len(head)) + (l // 4 + d).to_bytes(8, "little"))
        self.cmd = None                  # command in progress (for the *_step functions)

    @staticmethod
    def _check_ann_key(l, ann, key):
        assert len(ann) % 4 == 0 and len(ann) <= 60
        assert len(key) % 4 == 0 and len(key) <= 60
        assert len(key) == 0 or len(key) >= l // 8

    def _rate(self):
        """buffer length r in octets: 1536 - l - dl/2 bits with a key, 1536 - 2dl bits without"""
        l, d = self.l, self.d
        bits = 1536 - l - d * l // 2 if self.keyed else 1536 - 2 * d * l
        assert bits % 8 == 0
        return bits // 8

    @property
    def buf_len(self):
        return self.r

    def copy(self):
        c = object.__new__(Prg)
        c.__dict__.update(self.__dict__)
        c.s = bytearray(self.s)
        return c

    # -- commit: finish the previous command and open the one with the given code
    def _commit(self, code):
        assert self.pos < self.r
        self.s[self.pos] ^= code << 2 | 0b01          # S[pos..pos+8) ^= code || 01
        self.s[self.r] ^= 0x80                        # S[r] ^= 1 (first bit after the buffer)
        self.s = bytearray(bash_f(self.s))
        self.pos = 0

    def _f_if_full(self):
        if self.pos == self.r:
            self.s = bytearray(bash_f(self.s))
            self.pos = 0

    # -- restart
    def restart(self, ann=b"", key=b""):
        ann, key = bytes(ann), bytes(key)
        self._check_ann_key(self.l, ann, key)
        if key:
            self._commit(KEY)
            self.keyed = True
            self.r = self._rate()
        else:
            self._commit(NULL)
        head = bytes([len(ann) * 8 // 2 + len(key) * 8 // 32]) + ann + key
        self.pos = len(head)
        for i, b in enumerate(head):
            self.s[i] ^= b
        self.cmd = None

    # -- absorb
    def absorb_start(self):
        self._commit(DATA)
        self.cmd = "absorb"

    def absorb_step(self, data):
        assert self.cmd == "absorb"
        for b in bytes(data):
            self.s[self.pos] ^= b
            self.pos += 1
            self._f_if_full()

    def absorb(self, data):
        self.absorb_start()
        self.absorb_step(data)

    # -- squeeze
    def squeeze_start(self):
        self._commit(OUT)
        self.cmd = "squeeze"

    def squeeze_step(self, n):
        assert self.cmd == "squeeze"
        out = bytearray()
        for _ in range(n):
            out.append(self.s[self.pos])
            self.pos += 1
            self._f_if_full()
        return bytes(out)

    def squeeze(self, n):
        self.squeeze_start()
        return self.squeeze_step(n)

    # -- encrypt
    def encr_start(self):
        assert self.keyed, "encrypt needs the keyed mode"
        self._commit(TEXT)
        self.cmd = "encr"

    def encr_step(self, data):
        assert self.cmd == "encr"
        out = bytearray()
        for b in bytes(data):
            y = b ^ self.s[self.pos]                  # Y = X ^ S[..)
            self.s[self.pos] = y                      # S[..) <- Y
            out.append(y)
            self.pos += 1
            self._f_if_full()
        return bytes(out)

    def encr(self, data):
        self.encr_start()
        return self.encr_step(data)

    # -- decrypt
    def decr_start(self):
        assert self.keyed, "decrypt needs the keyed mode"
        self._commit(TEXT)
        self.cmd = "decr"

    def decr_step(self, data):
        assert self.cmd == "decr"
        out = bytearray()
        for y in bytes(data):
            out.append(y ^ self.s[self.pos])          # X = Y ^ S[..)
            self.s[self.pos] = y                      # S[..) <- Y
            self.pos += 1
            self._f_if_full()
        return bytes(out)

    def decr(self, data):
        self.decr_start()
        return self.decr_step(data)

    # -- ratchet: T <- S, commit(NULL), S <- S ^ T
    def ratchet(self):
        t = bytes(self.s)
        self._commit(NULL)
        self.s = bytearray(a ^ b for a, b in zip(self.s, t))
        self.cmd = None


# --------------------------------------------------------------------------- vectors

# belt S-box H as an octet array: the test data of the appendices (beltH() in /repo/test)
BELT_H = bytes.fromhex(
    "B194BAC80A08F53B366D008E584A5DE4" "8504FA9D1BB6C7AC252E72C202FDCE0D"
    "5BE3D61217B96181FE6786AD716B890B" "5CB0C0FF33C356B835C405AED8E07F99"
    "E12BDC1AE28257EC703FCCF095EE8DF1" "C1AB76389FE678CAF7C6F860D5BB9C4F"
    "F33C657B637C306ADD4EA7799EB23D31" "3E98B56E27D3BCCF591E181F4C5AB793"
    "E9DEE72C8F0C0FA62DDB49F46F739647" "06075316ED247A3739CBA38303A98BF6"
    "92BD9B1CE5D141015445FBC95E4D0EF2" "682080AA227D642F2687F93490405511"
    "BE32971343FC9A48A02A885F194B09A1" "7ECDA4D01544AF8CA58450BF66D2E88A"
    "A2D7465242A8DFB36974C551EB232921" "D4EFD9B43A622875911410EA776CDA1D")
assert len(BELT_H) == 256 and sorted(BELT_H) == list(range(256))


def selftest():
    H = BELT_H
    hx = bytes.fromhex
    # round constants listed in bash_f64.c (C1..C24) follow from the LFSR
    c, cs = C1, []
    for _ in range(24):
        cs.append(c)
        c = next_const(c)
    assert cs[1] == 0xC1D1659C1BBD92F6 and cs[11] == 0xD8EE19681D669304 and cs[23] == 0xDE8082CD72DEBC78
    # A.2
    assert bash_f(H[:192]) == hx(
        "8FE727775EA7F140B95BB6A200CBB28C7F0809C0C0BC68B7DC5AEDC841BD94E4"
        "03630C301FC255DF5B67DB53EF65E376E8A4D797A6172F2271BA48093173D329"
        "C3502AC946767326A2891971392D3F7089959F5D61621238655975E00E2132A0"
        "D5018CEEDB17731CCD88FC50151D37C0D4A3359506AEDC2E6109511E7703AFBB"
        "014642348D8568AA1A5D9868C4C7E6DFA756B1690C7C2608A2DC136F5997AB8F"
        "BB3F4D9F033C87CA6070E117F099C4094972ACD9D976214B7CED8E3F8B6E058E")
    # A.3.1 - A.3.11
    for l, n, h in [
        (128, 0, "114C3DFAE373D9BCBC3602D6386F2D6A2059BA1BF9048DBAA5146A6CB775709D"),
        (128, 127, "3D7F4EFA00E9BA33FEED259986567DCF5C6D12D51057A968F14F06CC0F905961"),
        (128, 128, "D7F428311254B8B2D00F7F9EEFBD8F3025FA87C4BABD1BDDBE87E35B7AC80DD6"),
        (128, 135, "1393FA1B65172F2D18946AEAE576FA1CF54FDD354A0CB2974A997DC4865D3100"),
        (192, 95, "64334AF830D33F63E9ACDFA184E32522103FFF5C6860110A2CD369EDBC04387C"
                  "501D8F92F749AE4DE15A8305C353D64D"),
        (192, 96, "D06EFBC16FD6C0880CBFC6A4E3D65AB101FA82826934190FAABEBFBFFEDE93B2"
                  "2B85EA72A7FB3147A133A5A8FEBD8320"),
        (192, 108, "FF763296571E2377E71A1538070CC0DE88888606F32EEE6B082788D246686B00"
                   "FC05A17405C5517699DA44B7EF5F55AB"),
        (256, 63, "2A66C87C189C12E255239406123BDEDBF19955EAF0808B2AD705E249220845E2"
                  "0F4786FB6765D0B5C48984B1B16556EF19EA8192B985E4233D9C09508D6339E7"),
        (256, 64, "07ABBF8580E7E5A321E9B940F667AE209E2952CEF557978AE743DB086BAB4885"
                  "B708233C3F5541DF8AAFC3611482FDE498E58B3379A6622DAC2664C9C118A162"),
        (256, 127, "526073918F97928E9D15508385F42F03ADE3211A23900A30131F8A1E3E1EE21C"
                   "C09D13CFF6981101235D895746A4643F0AA62B0A7BC98A269E4507A257F0D4EE"),
        (256, 192, "8724C7FF8A2A83F22E38CB9763777B96A70ABA3444F214C763D93CD6D19FCFDE"
                   "6C3D3931857C4FF6CCCD49BD99852FE9EAA7495ECCDD96B571E0EDCF47F89768"),
    ]:
        assert bash_hash(l, H[:n]) == hx(h), (l, n)
    # A.4.alpha
    a = Prg(256, 2, b"", H[:32])
    a.absorb(H[32:32 + 95])
    a.ratchet()
    k = a.squeeze(16)
    assert k == hx("71CC358A0D5082173DE04803F7E905CB")
    # A.4.beta
    b = Prg(128, 1, H[128:144], k)
    b1 = b.copy()
    x = H[160:160 + 23]
    y = b.encr(x)
    assert y == hx("51ED3B28D345FFD1AD22815B86ECC17C278C8FE8920214")
    assert Prg(128, 1, H[128:144], k).decr(y) == x
    # A.4.gamma
    b1.restart(H[144:148], b"")
    b2 = b1.copy()
    y = b1.encr(x)
    assert y == hx("28FE0998BFC010F13B260685A27AFB36CCF580F753521B")
    assert b2.decr(y) == x
    # A.5.1 - A.5.7
    for l, d, n, m, h in [
        (128, 2, 0, 32, "36FA075EC15721F250B9A641A8CB99A333A9EE7BA8586D0646CBAC3686C03DF3"),
        (128, 2, 127, 32, "C930FF427307420DA6E4182969AA1FFC3310179B8A0EDB3E20BEC285B568BA17"),
        (128, 2, 128, 32, "92AD1402C2007191F2F7CFAD6A2F8807BB0C50F73DFF95EF1B8AF08504D54007"),
        (128, 2, 150, 32, "48DB61832CA1009003BC0D8BDE67893A9DC683C48A5BC23AC884EB4613B480A6"),
        (192, 1, 143, 48, "6166032D6713D401A6BC687CCFFF2E603287143A84C78D2C62C71551E0E2FB2A"
                          "F6B799EE33B5DECD7F62F190B1FBB052"),
        (192, 1, 144, 48, "8D84C82ECD0AB6468CC451CFC5EEB3B298DFD381D200DA69FBED5AE67D26BAD5"
                          "C727E2652A225BF465993043039E338B"),
        (192, 1, 150, 48, "47529F9D499AB6AB8AD72B1754C90C39E7DA237BEB16CDFC00FE87934F5AFC11"
                          "01862DFA50560F062A4DAC859CC13DBC"),
    ]:
        p = Prg(l, d, b"", b"")
        p.absorb(H[:n])
        assert p.squeeze(m) == hx(h), (l, d, n)
    # A.5.4 chunked
    p = Prg(128, 2, b"", b"")
    p.absorb_start()
    for part in (b"", H[:50], H[50:100], H[100:150]):
        p.absorb_step(part)
    p.squeeze_start()
    assert p.squeeze_step(13) + p.squeeze_step(32 - 13) == hx(
        "48DB61832CA1009003BC0D8BDE67893A9DC683C48A5BC23AC884EB4613B480A6")
    # A.6.encr
    p = Prg(256, 1, H[:16], H[32:64])
    p.absorb(H[64:64 + 49])
    ct = p.encr(bytes(192))
    assert ct == hx(
        "690673766C3E848CAC7C05169FFB7B7751E52A011040E5602573FAF991044A00"
        "4329EEF7BED8E6875830A91854D1BD2EDC6FC2FF37851DBAC249DF400A0549EA"
        "2E0C811D499E1FF1E5E32FAE7F0532FA4051D0F9E300D9B1DBF119AC8CFFC48D"
        "D3CBF1CA0DBA5DD97481C88DF0BE412785E40988B31585537948B80F5A9C49E0"
        "8DD684A7DCA871C380DFDC4C4DFBE61F50D2D0FBD24D8B9D32974A347247D001"
        "BAD5B168440025693967E77394DC088B0ECCFA8D291BA13D44F60B06E2EDB351")
    tag = p.squeeze(32)
    assert tag == hx("CDE5AF6EF9A14B7D0C191B869A6343ED6A4E9AAB4EE00A579E9E682D0EC051E3")
    # A.6.decr (chunked)
    p = Prg(256, 1, H[:16], H[32:64])
    p.absorb(H[64:64 + 49])
    p.decr_start()
    pt = b"".join(p.decr_step(ct[i:i + 32]) for i in range(0, 192, 32))
    assert pt == bytes(192)
    p.squeeze_start()
    assert p.squeeze_step(14) + p.squeeze_step(32 - 14) == tag
    # buffer lengths of the table in bash_prg.c
    for (l, d), (rk, r0) in {(128, 1): (168, 160), (128, 2): (160, 128), (192, 1): (156, 144),
                             (192, 2): (144, 96), (256, 1): (144, 128), (256, 2): (128, 64)}.items():
        assert Prg(l, d, b"", bytes(32)).r == rk and Prg(l, d, b"", b"").r == r0
    return True


if __name__ == "__main__":
    print("OK" if selftest() else "FAIL")
